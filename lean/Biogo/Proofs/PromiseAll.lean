/-
The repaired Promise protocol (`Biogo.Promise.sys c`, `c.fixed = true`) for EVERY flag
combination `(mutable, recoverable, relay)` and every kind of call (Fulfill, Fail, Recover,
Break, Wait — any number of each, any values, nil included), under every schedule.

* `step_cases`     — the three kinds of step (atomic call under the mutex / Wait takes / Wait puts back)
* `GInv`           — structural invariant: who holds the mutex, who has borrowed the message
* `lin_reach`      — linearisability: every reachable state is explained by a sequential history
                     of the calls that have passed their linearisation point
* stuck states, history of a Wait, stability of the content of an immutable promise,
  single assignment, provenance of the content.
-/
import Biogo.Proofs.Promise

namespace Biogo.Promise
open Biogo.LTS

variable {c : Cfg} {s s' : St} {i : Nat}

/-! ### the kinds of step -/

inductive StepKind (c : Cfg) (s : St) (i : Nat) (s' : St) : Prop
  /-- Fulfill / Fail / Recover / Break: one atomic block under the mutex -/
  | atomic (call : Call) (b : Option Res) (ret : Ret)
      (hcall : c.calls[i]? = some call) (hnw : call ≠ .wait) (hpc : s.pcs[i]? = some .start)
      (hmu : s.mu = none) (heq : atomicCall c.flags s.box call = (b, ret))
      (hs' : s' = { s with box := b, pcs := s.pcs.set i (.done ret) })
  /-- Wait, first block: lock, (sleep while empty,) take the message -/
  | take (r : Res)
      (hcall : c.calls[i]? = some .wait) (hpc : s.pcs[i]? = some .start)
      (hmu : s.mu = none) (hbox : s.box = some r)
      (hs' : s' = { box := none, mu := some i, pcs := s.pcs.set i (.borrowed r) })
  /-- Wait, second block: put the message back, unlock, return it -/
  | put (r : Res)
      (hcall : c.calls[i]? = some .wait) (hpc : s.pcs[i]? = some (.borrowed r))
      (hs' : s' = { box := some r, mu := none, pcs := s.pcs.set i (.done (.res r)) })

theorem step_cases (hfix : c.fixed = true) (h : step c s i = some s') : StepKind c s i s' := by
  cases hcall : c.calls[i]? with
  | none => simp [step, hcall] at h
  | some call =>
    cases hpc : s.pcs[i]? with
    | none => simp [step, hcall, hpc] at h
    | some pc =>
      cases pc with
      | done ret => cases call <;> simp [step, hcall, hpc] at h
      | borrowed r =>
        cases call <;> simp [step, hcall, hpc, hfix] at h
        exact .put r hcall hpc h.symm
      | start =>
        cases call with
        | wait =>
          simp only [step, hcall, hpc, hfix, if_true] at h
          cases hmu : s.mu <;> cases hbox : s.box <;> simp [hmu, hbox] at h
          exact .take _ hcall hpc hmu hbox h.symm
        | fulfill v =>
          simp only [step, hcall, hpc] at h
          cases hmu : s.mu with
          | some j => simp [hmu] at h
          | none =>
            simp only [hmu] at h
            cases hq : atomicCall c.flags s.box (.fulfill v) with
            | mk b ret =>
              rw [hq] at h; simp only [Option.some.injEq] at h
              exact .atomic _ b ret hcall (by simp) hpc hmu hq (by rw [← h, hmu])
        | fail v e =>
          simp only [step, hcall, hpc] at h
          cases hmu : s.mu with
          | some j => simp [hmu] at h
          | none =>
            simp only [hmu] at h
            cases hq : atomicCall c.flags s.box (.fail v e) with
            | mk b ret =>
              rw [hq] at h; simp only [Option.some.injEq] at h
              exact .atomic _ b ret hcall (by simp) hpc hmu hq (by rw [← h, hmu])
        | recover v =>
          simp only [step, hcall, hpc] at h
          cases hmu : s.mu with
          | some j => simp [hmu] at h
          | none =>
            simp only [hmu] at h
            cases hq : atomicCall c.flags s.box (.recover v) with
            | mk b ret =>
              rw [hq] at h; simp only [Option.some.injEq] at h
              exact .atomic _ b ret hcall (by simp) hpc hmu hq (by rw [← h, hmu])
        | brk =>
          simp only [step, hcall, hpc] at h
          cases hmu : s.mu with
          | some j => simp [hmu] at h
          | none =>
            simp only [hmu] at h
            cases hq : atomicCall c.flags s.box .brk with
            | mk b ret =>
              rw [hq] at h; simp only [Option.some.injEq] at h
              exact .atomic _ b ret hcall (by simp) hpc hmu hq (by rw [← h, hmu])

/-! ### structural invariant (all flags, all calls) -/

/-- the shape of a return value fits the call -/
def retOk : Call → Ret → Bool
  | .fulfill _, .ferr _ => true
  | .fail _ _, .bool _ => true
  | .recover _, .bool _ => true
  | .brk, .unit => true
  | .wait, .res _ => true
  | _, _ => false

structure GInv (c : Cfg) (s : St) : Prop where
  len : s.pcs.length = c.calls.length
  bor : ∀ (i : Nat) (r : Res), s.pcs[i]? = some (.borrowed r) →
    s.mu = some i ∧ s.box = none ∧ c.calls[i]? = some .wait
  mu_bor : ∀ (i : Nat), s.mu = some i → ∃ r, s.pcs[i]? = some (.borrowed r)
  shape : ∀ (i : Nat) (call : Call) (ret : Ret), c.calls[i]? = some call →
    s.pcs[i]? = some (.done ret) → retOk call ret = true

theorem ginv_init (c : Cfg) : GInv c (init c) := by
  constructor
  · simp [init]
  · intro i r h; simp [init, List.getElem?_replicate] at h
  · intro i h; simp [init] at h
  · intro i call ret _ h; simp [init, List.getElem?_replicate] at h

theorem atomicCall_shape (f : Flags) (box : Option Res) (call : Call) (hnw : call ≠ .wait) :
    retOk call (atomicCall f box call).2 = true := by
  cases call <;> simp [atomicCall, retOk] at hnw ⊢

theorem ginv_step (hfix : c.fixed = true) (hI : GInv c s) (h : step c s i = some s') : GInv c s' := by
  cases step_cases hfix h with
  | atomic call b ret hcall hnw hpc hmu heq hs' =>
    subst hs'
    have hlt := lt_of_get hpc
    constructor
    · simp [hI.len]
    · intro j r hj
      simp only [List.getElem?_set] at hj
      split at hj
      · simp at hj
      · have := (hI.bor j r hj).1; simp [hmu] at this
    · intro j hj; simp [hmu] at hj
    · intro j call' ret' hc hj
      simp only [List.getElem?_set] at hj
      split at hj
      · rename_i hij; subst hij
        simp at hj; subst hj
        rw [hcall] at hc; cases hc
        have := atomicCall_shape c.flags s.box call hnw
        rw [heq] at this; exact this
      · exact hI.shape j call' ret' hc hj
  | take r hcall hpc hmu hbox hs' =>
    subst hs'
    have hlt := lt_of_get hpc
    constructor
    · simp [hI.len]
    · intro j r' hj
      simp only [List.getElem?_set] at hj
      split at hj
      · rename_i hij; subst hij; exact ⟨rfl, rfl, hcall⟩
      · have := (hI.bor j r' hj).1; simp [hmu] at this
    · intro j hj
      simp at hj; subst hj
      exact ⟨r, by simp [hlt]⟩
    · intro j call' ret' hc hj
      simp only [List.getElem?_set] at hj
      split at hj
      · simp at hj
      · exact hI.shape j call' ret' hc hj
  | put r hcall hpc hs' =>
    subst hs'
    have hlt := lt_of_get hpc
    obtain ⟨hmu, hbox, _⟩ := hI.bor i r hpc
    constructor
    · simp [hI.len]
    · intro j r' hj
      simp only [List.getElem?_set] at hj
      split at hj
      · simp at hj
      · rename_i hij
        have := (hI.bor j r' hj).1
        rw [hmu] at this; cases this; exact absurd rfl hij
    · intro j hj; simp at hj
    · intro j call' ret' hc hj
      simp only [List.getElem?_set] at hj
      split at hj
      · rename_i hij; subst hij
        simp at hj; subst hj
        rw [hcall] at hc; cases hc; rfl
      · exact hI.shape j call' ret' hc hj

theorem ginv_reach (hfix : c.fixed = true) : ∀ s, Reach (sys c) s → GInv c s :=
  inv_induction (S := sys c) (GInv c) (ginv_init c) (fun _ _ _ hI h => ginv_step hfix hI h)

theorem cur_mu_none (hmu : s.mu = none) : cur s = s.box := by
  cases hb : s.box <;> simp [cur, hb, hmu]

theorem cur_held (hI : GInv c s) {j : Nat} (hmu : s.mu = some j) :
    ∃ r, s.pcs[j]? = some (.borrowed r) ∧ cur s = some r := by
  obtain ⟨r, hr⟩ := hI.mu_bor j hmu
  exact ⟨r, hr, cur_of_borrowed (hI.bor j r hr).2.1 hmu hr⟩

/-- what a step does to the logical content `cur` -/
theorem step_cur (hfix : c.fixed = true) (hI : GInv c s) (h : step c s i = some s') :
    (∃ call, c.calls[i]? = some call ∧ call ≠ .wait ∧ s.mu = none ∧ s'.mu = none ∧
        cur s = s.box ∧ cur s' = (atomicCall c.flags s.box call).1) ∨
    (c.calls[i]? = some .wait ∧ cur s' = cur s ∧ cur s ≠ none) := by
  cases step_cases hfix h with
  | atomic call b ret hcall hnw hpc hmu heq hs' =>
    left
    subst hs'
    refine ⟨call, hcall, hnw, hmu, hmu, cur_mu_none hmu, ?_⟩
    rw [cur_mu_none (by exact hmu), heq]
  | take r hcall hpc hmu hbox hs' =>
    right
    subst hs'
    have hlt := lt_of_get hpc
    have h1 : cur s = some r := cur_of_box hbox
    refine ⟨hcall, ?_, by simp [h1]⟩
    rw [h1]; simp [cur, hlt]
  | put r hcall hpc hs' =>
    right
    subst hs'
    obtain ⟨hmu, hbox, _⟩ := hI.bor i r hpc
    have h1 : cur s = some r := cur_of_borrowed hbox hmu hpc
    refine ⟨hcall, ?_, by simp [h1]⟩
    rw [h1]; simp [cur]

/-! ### linearisability -/

theorem seqExec_append (f : Flags) (calls : List Call) (b : Option Res) (h1 h2 : List (Nat × Ret)) :
    seqExec f calls b (h1 ++ h2) = (seqExec f calls b h1).bind (fun b' => seqExec f calls b' h2) := by
  induction h1 generalizing b with
  | nil => simp [seqExec]
  | cons e rest ih =>
    obtain ⟨i, ret⟩ := e
    simp only [List.cons_append, seqExec]
    cases calls[i]? with
    | none => simp
    | some call =>
      simp only
      cases seqCall f b call with
      | none => simp
      | some p =>
        obtain ⟨b', ret'⟩ := p
        simp only
        by_cases hr : ret' = ret
        · simp only [hr, if_true]; exact ih b'
        · simp [hr]

/-- `hist` explains `s`: executed sequentially from the empty promise it is possible, ends with
    the content of `s`, contains every call at most once, and contains exactly the calls that
    have passed their linearisation point, with the return values they have (or, for a Wait
    between its two blocks, will) deliver -/
def Explains (c : Cfg) (s : St) (hist : List (Nat × Ret)) : Prop :=
  seqExec c.flags c.calls none hist = some (cur s) ∧
  (hist.map Prod.fst).Nodup ∧
  ∀ (j : Nat) (ret : Ret), (j, ret) ∈ hist ↔ (s.pcs[j]?).bind lp = some ret

theorem explains_same {hist : List (Nat × Ret)} (hE : Explains c s hist) {pc pc' : APc}
    (hpc : s.pcs[i]? = some pc) (hlp : lp pc' = lp pc) (hcur : cur s' = cur s)
    (hpcs : s'.pcs = s.pcs.set i pc') : Explains c s' hist := by
  obtain ⟨h1, h2, h3⟩ := hE
  refine ⟨by rw [hcur]; exact h1, h2, ?_⟩
  intro j ret
  rw [h3 j ret, hpcs, List.getElem?_set]
  split
  · rename_i hij; subst hij
    simp only [lt_of_get hpc, if_true, hpc, Option.bind_some, hlp]
  · rfl

theorem explains_snoc {hist : List (Nat × Ret)} (hE : Explains c s hist) {pc' : APc} {ret : Ret}
    {call : Call} (hcall : c.calls[i]? = some call)
    (hpc : s.pcs[i]? = some .start) (hlp : lp pc' = some ret)
    (hseq : seqCall c.flags (cur s) call = some (cur s', ret))
    (hpcs : s'.pcs = s.pcs.set i pc') : Explains c s' (hist ++ [(i, ret)]) := by
  obtain ⟨h1, h2, h3⟩ := hE
  have hnot : ∀ r', (i, r') ∉ hist := by
    intro r' hm
    have := (h3 i r').1 hm
    simp [hpc, lp] at this
  refine ⟨?_, ?_, ?_⟩
  · rw [seqExec_append, h1]
    simp [seqExec, hcall, hseq]
  · rw [List.map_append, List.nodup_append]
    refine ⟨h2, by simp, ?_⟩
    intro a ha b hb
    simp at hb; subst hb
    intro hab; subst hab
    rw [List.mem_map] at ha
    obtain ⟨⟨a', r'⟩, hm, hfst⟩ := ha
    simp at hfst; subst hfst
    exact hnot r' hm
  · intro j ret'
    rw [List.mem_append, h3 j ret', hpcs, List.getElem?_set]
    split
    · rename_i hij; subst hij
      have hst : lp APc.start = none := rfl
      simp only [lt_of_get hpc, if_true, hpc, Option.bind_some, hlp, hst, List.mem_singleton,
        Prod.mk.injEq, true_and, Option.some.injEq]
      constructor
      · intro h
        rcases h with h | h
        · cases h
        · exact h.symm
      · intro h; exact Or.inr h.symm
    · rename_i hij
      simp only [List.mem_singleton, Prod.mk.injEq]
      constructor
      · intro h
        rcases h with h | h
        · exact h
        · exact absurd h.1.symm hij
      · intro h; exact Or.inl h

theorem lin_step (hfix : c.fixed = true) (hI : GInv c s) (h : step c s i = some s')
    {hist : List (Nat × Ret)} (hE : Explains c s hist) : ∃ hist', Explains c s' hist' := by
  cases step_cases hfix h with
  | atomic call b ret hcall hnw hpc hmu heq hs' =>
    refine ⟨hist ++ [(i, ret)], explains_snoc hE hcall hpc (pc' := .done ret) rfl ?_ (by rw [hs'])⟩
    have hc1 : cur s = s.box := cur_mu_none hmu
    have hc2 : cur s' = b := by rw [hs']; exact cur_mu_none (by exact hmu)
    rw [hc1, hc2]
    cases call <;> simp [seqCall, heq] at hnw ⊢
  | take r hcall hpc hmu hbox hs' =>
    have hlt := lt_of_get hpc
    have hc1 : cur s = some r := cur_of_box hbox
    have hc2 : cur s' = some r := by rw [hs']; simp [cur, hlt]
    refine ⟨hist ++ [(i, .res r)], explains_snoc hE hcall hpc (pc' := .borrowed r) rfl ?_ (by rw [hs'])⟩
    rw [hc1, hc2]; simp [seqCall]
  | put r hcall hpc hs' =>
    obtain ⟨hmu, hbox, _⟩ := hI.bor i r hpc
    have hc1 : cur s = some r := cur_of_borrowed hbox hmu hpc
    have hc2 : cur s' = some r := by rw [hs']; simp [cur]
    exact ⟨hist, explains_same hE hpc (pc' := .done (.res r)) rfl (by rw [hc1, hc2]) (by rw [hs'])⟩

theorem lin_reach (hfix : c.fixed = true) : ∀ s, Reach (sys c) s → ∃ hist, Explains c s hist := by
  intro s hr
  induction hr with
  | init =>
    refine ⟨[], rfl, by simp, ?_⟩
    intro j ret
    show (j, ret) ∈ [] ↔ ((init c).pcs[j]?).bind lp = some ret
    simp only [init, List.getElem?_replicate]
    split <;> simp [lp]
  | step hr hs ih =>
    obtain ⟨hist, hE⟩ := ih
    exact lin_step hfix (ginv_reach hfix _ hr) hs hE

/-! ### blocked states: the only way to be stuck is a Wait on an empty promise -/

theorem getCall (hI : GInv c s) {pc : APc} (hpc : s.pcs[i]? = some pc) :
    ∃ call, c.calls[i]? = some call := by
  have hlt : i < c.calls.length := by rw [← hI.len]; exact lt_of_get hpc
  exact ⟨c.calls[i], by simp [hlt]⟩

/-- the goroutine that holds the mutex can always move -/
theorem holder_enabled (hfix : c.fixed = true) (hI : GInv c s) {j : Nat} (hmu : s.mu = some j) :
    (step c s j).isSome = true := by
  obtain ⟨r, hpc⟩ := hI.mu_bor j hmu
  have hcall := (hI.bor j r hpc).2.2
  simp [step, hcall, hpc, hfix]

/-- in a state where no goroutine can move: the mutex is free, and every call that has not
    returned is a Wait that has not taken anything, on an empty promise -/
theorem stuck_shape (hfix : c.fixed = true) (hI : GInv c s) (hstuck : ∀ i, step c s i = none) :
    s.mu = none ∧
    ∀ (i : Nat) (pc : APc), s.pcs[i]? = some pc → pc.isDone = false →
      c.calls[i]? = some .wait ∧ pc = .start ∧ s.box = none ∧ cur s = none := by
  have hmu : s.mu = none := by
    cases hm : s.mu with
    | none => rfl
    | some j =>
      have := holder_enabled hfix hI hm
      rw [hstuck j] at this; cases this
  refine ⟨hmu, ?_⟩
  intro i pc hpc hnd
  obtain ⟨call, hcall⟩ := getCall hI hpc
  have hst := hstuck i
  cases pc with
  | done ret => simp [APc.isDone] at hnd
  | borrowed r => have := (hI.bor i r hpc).1; simp [hmu] at this
  | start =>
    cases call with
    | wait =>
      cases hbox : s.box with
      | some r => simp [step, hcall, hpc, hfix, hmu, hbox] at hst
      | none => exact ⟨hcall, rfl, rfl, cur_none_of hbox hmu⟩
    | fulfill v => simp [step, hcall, hpc, hmu] at hst
    | fail v e => simp [step, hcall, hpc, hmu] at hst
    | recover v => simp [step, hcall, hpc, hmu] at hst
    | brk => simp [step, hcall, hpc, hmu] at hst

theorem exists_enabled_or_stuck (s : St) (n : Nat) :
    (∃ i, (step c s i).isSome = true) ∨ (∀ i, i < n → step c s i = none) := by
  induction n with
  | zero => right; intro i hi; omega
  | succ n ih =>
    rcases ih with h | h
    · exact Or.inl h
    · cases hs : step c s n with
      | some s' => left; exact ⟨n, by simp [hs]⟩
      | none =>
        right; intro i hi
        rcases Nat.lt_succ_iff_lt_or_eq.1 hi with h' | h'
        · exact h i h'
        · subst h'; exact hs

theorem step_none_of_ge (hi : c.calls.length ≤ i) : step c s i = none := by
  have : c.calls[i]? = none := List.getElem?_eq_none hi
  simp [step, this]

/-- either some goroutine can move, or the state is stuck in the shape above -/
theorem enabled_or_stuck (c : Cfg) (s : St) :
    (∃ i, (step c s i).isSome = true) ∨ (∀ i, step c s i = none) := by
  rcases exists_enabled_or_stuck (c := c) s c.calls.length with h | h
  · exact Or.inl h
  · right
    intro i
    rcases Nat.lt_or_ge i c.calls.length with hi | hi
    · exact h i hi
    · exact step_none_of_ge hi

/-! ### the history of a Wait -/

theorem step_other_pcs (h : step c s i = some s') {j : Nat} (hji : j ≠ i) : s'.pcs[j]? = s.pcs[j]? := by
  obtain ⟨pc, pc', hget, hset, _⟩ := step_pcs h
  rw [hset, List.getElem?_set]
  split
  · rename_i h'; exact absurd h'.symm hji
  · rfl

/-- a Wait that stood at its start in `s₀` and has taken (or delivered) `r` in `s₁`: somewhere on
    the way it performed its take step, in a state whose mailbox held exactly `r` -/
theorem wait_history (hfix : c.fixed = true) {s₀ s₁ : St} (h : ReachFrom (sys c) s₀ s₁)
    (hcall : c.calls[i]? = some .wait) (h0 : s₀.pcs[i]? = some .start)
    {r : Res} (h1 : (s₁.pcs[i]?).bind lp = some (.res r)) :
    ∃ t t', ReachFrom (sys c) s₀ t ∧ step c t i = some t' ∧ ReachFrom (sys c) t' s₁ ∧
      t.pcs[i]? = some .start ∧ t.mu = none ∧ t.box = some r ∧ t'.pcs[i]? = some (.borrowed r) := by
  induction h with
  | refl => simp [h0, lp] at h1
  | step hprev hs ih =>
    rename_i m s₂ j
    by_cases hm : (m.pcs[i]?).bind lp = some (.res r)
    · obtain ⟨t, t', h1', h2', h3', h4'⟩ := ih hm
      exact ⟨t, t', h1', h2', .step h3' hs, h4'⟩
    · have hs' : step c m j = some s₂ := hs
      by_cases hji : i = j
      · subst hji
        cases step_cases hfix hs' with
        | atomic call b ret hcall' hnw _ _ _ _ => rw [hcall] at hcall'; cases hcall'; exact absurd rfl hnw
        | take r' _ hpc hmu hbox hst =>
          have hlt := lt_of_get hpc
          have : r' = r := by
            rw [hst] at h1; simp [hlt, lp] at h1; exact h1
          subst this
          exact ⟨m, s₂, hprev, hs', .refl, hpc, hmu, hbox, by rw [hst]; simp [hlt]⟩
        | put r' _ hpc hst =>
          have hlt := lt_of_get hpc
          exfalso; apply hm
          rw [hst] at h1; simp [hlt, lp] at h1
          simp [hpc, lp, h1]
      · exfalso; apply hm
        rw [← step_other_pcs hs' hji]; exact h1

/-! ### calls that do not reset the promise -/

/-- Break, and Recover on a recoverable promise, empty or overwrite the promise by design -/
def Call.resets (f : Flags) : Call → Bool
  | .brk => true
  | .recover _ => f.recoverable
  | _ => false

/-- no call of the configuration resets the promise -/
def NoReset (c : Cfg) : Prop := ∀ call ∈ c.calls, call.resets c.flags = false

/-- `r'` extends `r`: same value, same error — or, with relay, the "already set" error has been
    relayed into a Result that had none -/
def Ext (f : Flags) (r r' : Res) : Prop :=
  r'.val = r.val ∧ (r'.err = r.err ∨ (f.relay = true ∧ r.err = none ∧ r'.err = some .alreadySet))

theorem Ext.refl (f : Flags) (r : Res) : Ext f r r := ⟨rfl, Or.inl rfl⟩

theorem Ext.trans {f : Flags} {a b d : Res} (h1 : Ext f a b) (h2 : Ext f b d) : Ext f a d := by
  obtain ⟨v1, e1⟩ := h1
  obtain ⟨v2, e2⟩ := h2
  refine ⟨v2.trans v1, ?_⟩
  rcases e1 with e1 | ⟨hr, ha, hb⟩
  · rcases e2 with e2 | ⟨hr, hb, hd⟩
    · exact Or.inl (e2.trans e1)
    · exact Or.inr ⟨hr, e1 ▸ hb, hd⟩
  · rcases e2 with e2 | ⟨_, hb', _⟩
    · exact Or.inr ⟨hr, ha, e2.trans hb⟩
    · rw [hb] at hb'; cases hb'

theorem Ext.eq_of_norelay {f : Flags} {a b : Res} (hr : f.relay = false) (h : Ext f a b) : b = a := by
  obtain ⟨v, e⟩ := h
  cases a; cases b
  simp at v e ⊢
  rcases e with e | ⟨h', _⟩
  · exact ⟨v, e⟩
  · rw [hr] at h'; cases h'

/-- a non-resetting call on a promise that holds `r` leaves it holding something (any flags) -/
theorem atomic_keeps_some (f : Flags) (call : Call) (r : Res) (hnr : call.resets f = false) :
    ∃ r', (atomicCall f (some r) call).1 = some r' := by
  cases call with
  | fulfill v =>
    cases f with | mk m rc l =>
    cases r with | mk val err =>
    cases err <;> cases l <;> cases m <;> simp [atomicCall, fulfill, messageState]
  | fail v e => simp [atomicCall, fail, messageState]
  | recover v =>
    simp [Call.resets] at hnr
    simp [atomicCall, recover, hnr]
  | brk => simp [Call.resets] at hnr
  | wait => simp [atomicCall]

/-- … and on an immutable promise what it holds afterwards extends what it held -/
theorem atomic_immutable (f : Flags) (hm : f.mutable = false) (call : Call) (r : Res)
    (hnr : call.resets f = false) :
    ∃ r', (atomicCall f (some r) call).1 = some r' ∧ Ext f r r' := by
  cases call with
  | fulfill v =>
    cases f with | mk m rc l =>
    simp at hm; subst hm
    cases r with | mk val err =>
    cases err <;> cases l <;> simp [atomicCall, fulfill, messageState, Ext]
  | fail v e => exact ⟨r, by simp [atomicCall, fail, messageState], Ext.refl f r⟩
  | recover v =>
    simp [Call.resets] at hnr
    exact ⟨r, by simp [atomicCall, recover, hnr], Ext.refl f r⟩
  | brk => simp [Call.resets] at hnr
  | wait => exact ⟨r, by simp [atomicCall], Ext.refl f r⟩

theorem noReset_call (hN : NoReset c) {call : Call} (hcall : c.calls[i]? = some call) :
    call.resets c.flags = false := hN call (List.mem_of_getElem? hcall)

/-- without resetting calls a promise that holds something keeps holding something (any flags) -/
theorem cur_some_step (hfix : c.fixed = true) (hN : NoReset c) (hI : GInv c s)
    (h : step c s i = some s') {r : Res} (hcur : cur s = some r) : ∃ r', cur s' = some r' := by
  rcases step_cur hfix hI h with ⟨call, hcall, _, _, _, hc1, hc2⟩ | ⟨_, hc, _⟩
  · rw [hc1] at hcur
    obtain ⟨r', hr'⟩ := atomic_keeps_some c.flags call r (noReset_call hN hcall)
    exact ⟨r', by rw [hc2, hcur, hr']⟩
  · exact ⟨r, by rw [hc, hcur]⟩

/-- … and the content of an immutable promise only ever extends -/
theorem cur_ext_step (hfix : c.fixed = true) (hm : c.flags.mutable = false) (hN : NoReset c)
    (hI : GInv c s) (h : step c s i = some s') {r : Res} (hcur : cur s = some r) :
    ∃ r', cur s' = some r' ∧ Ext c.flags r r' := by
  rcases step_cur hfix hI h with ⟨call, hcall, _, _, _, hc1, hc2⟩ | ⟨_, hc, _⟩
  · rw [hc1] at hcur
    obtain ⟨r', hr', hext⟩ := atomic_immutable c.flags hm call r (noReset_call hN hcall)
    exact ⟨r', by rw [hc2, hcur, hr'], hext⟩
  · exact ⟨r, by rw [hc, hcur], Ext.refl _ r⟩

theorem reachFrom_ginv (hfix : c.fixed = true) {s₀ s₁ : St} (hI : GInv c s₀)
    (h : ReachFrom (sys c) s₀ s₁) : GInv c s₁ :=
  inv_from (S := sys c) (GInv c) hI (fun _ _ _ hI h => ginv_step hfix hI h) s₁ h

theorem cur_some_stable (hfix : c.fixed = true) (hN : NoReset c) {s₀ s₁ : St} (hI : GInv c s₀)
    (h : ReachFrom (sys c) s₀ s₁) {r : Res} (hcur : cur s₀ = some r) : ∃ r', cur s₁ = some r' := by
  induction h with
  | refl => exact ⟨r, hcur⟩
  | step hprev hs ih =>
    obtain ⟨r1, h1⟩ := ih
    exact cur_some_step hfix hN (reachFrom_ginv hfix hI hprev) hs h1

theorem cur_ext_stable (hfix : c.fixed = true) (hm : c.flags.mutable = false) (hN : NoReset c)
    {s₀ s₁ : St} (hI : GInv c s₀) (h : ReachFrom (sys c) s₀ s₁) {r : Res} (hcur : cur s₀ = some r) :
    ∃ r', cur s₁ = some r' ∧ Ext c.flags r r' := by
  induction h with
  | refl => exact ⟨r, hcur, Ext.refl _ r⟩
  | step hprev hs ih =>
    obtain ⟨r1, h1, e1⟩ := ih
    obtain ⟨r2, h2, e2⟩ := cur_ext_step hfix hm hN (reachFrom_ginv hfix hI hprev) hs h1
    exact ⟨r2, h2, e1.trans e2⟩

/-! ### single assignment of an immutable promise (any relay flag, any values, refused Recovers) -/

/-- Fulfill or Fail -/
def Call.isFF : Call → Bool
  | .fulfill _ => true
  | .fail _ _ => true
  | _ => false

/-- on an immutable promise a non-resetting call reports success iff it is a Fulfill/Fail that
    finds the promise empty, and the promise holds something afterwards iff it did before or
    the call is a Fulfill/Fail -/
theorem atomic_win_iff (f : Flags) (hm : f.mutable = false) (call : Call) (box : Option Res)
    (hnr : call.resets f = false) (hnw : call ≠ .wait) :
    (APc.done (atomicCall f box call).2).isWin = (box.isNone && call.isFF) ∧
    (atomicCall f box call).1.isSome = (box.isSome || call.isFF) := by
  cases f with | mk m rc l =>
  simp at hm; subst hm
  cases call with
  | fulfill v =>
    cases box with
    | none => cases l <;> simp [atomicCall, fulfill, messageState, zero, APc.isWin, Call.isFF]
    | some r =>
      cases r with | mk val err =>
      cases err <;> cases l <;> simp [atomicCall, fulfill, messageState, APc.isWin, Call.isFF]
  | fail v e =>
    cases box <;> simp [atomicCall, fail, messageState, APc.isWin, Call.isFF]
  | recover v =>
    simp [Call.resets] at hnr; subst hnr
    cases box <;> simp [atomicCall, recover, APc.isWin, Call.isFF]
  | brk => simp [Call.resets] at hnr
  | wait => exact absurd rfl hnw

/-- number of calls that reported success = 0 on an empty promise, 1 on one that holds a Result -/
def Wins (s : St) : Prop := s.pcs.countP APc.isWin = if cur s = none then 0 else 1

theorem countP_replicate_start (n : Nat) : (List.replicate n APc.start).countP APc.isWin = 0 := by
  induction n with
  | zero => rfl
  | succ n ih => simp [List.replicate_succ, ih, APc.isWin]

theorem wins_init (c : Cfg) : Wins (init c) := by
  simp [Wins, init, cur, countP_replicate_start]

theorem wins_step (hfix : c.fixed = true) (hm : c.flags.mutable = false) (hN : NoReset c)
    (hI : GInv c s) (hW : Wins s) (h : step c s i = some s') : Wins s' := by
  have hcurstep := step_cur hfix hI h
  cases step_cases hfix h with
  | atomic call b ret hcall hnw hpc hmu heq hs' =>
    obtain ⟨hw1, hw2⟩ := atomic_win_iff c.flags hm call s.box (noReset_call hN hcall) hnw
    rw [heq] at hw1 hw2
    simp only at hw1 hw2
    have hc1 : cur s = s.box := cur_mu_none hmu
    have hc2 : cur s' = b := by rw [hs']; exact cur_mu_none (by exact hmu)
    have hcnt := countP_set APc.isWin s.pcs i _ (.done ret) hpc
    simp only [Wins] at hW ⊢
    rw [hc1] at hW
    rw [hc2, hs']
    simp only
    rw [hw1] at hcnt
    simp only [APc.isWin, Bool.false_eq_true, if_false, Nat.add_zero] at hcnt
    rw [hcnt, hW]
    cases hb : s.box <;> cases hff : call.isFF <;> cases hb' : b <;>
      simp [hb, hff, hb'] at hw2 ⊢
  | take r hcall hpc hmu hbox hs' =>
    have hlt := lt_of_get hpc
    have hcnt := countP_set APc.isWin s.pcs i _ (.borrowed r) hpc
    simp only [APc.isWin, Bool.false_eq_true, if_false, Nat.add_zero] at hcnt
    have hc1 : cur s = some r := cur_of_box hbox
    have hc2 : cur s' = some r := by rw [hs']; simp [cur, hlt]
    simp only [Wins] at hW ⊢
    rw [hc2, hs']; rw [hc1] at hW
    simp only; rw [hcnt, hW]
  | put r hcall hpc hs' =>
    obtain ⟨hmu, hbox, _⟩ := hI.bor i r hpc
    have hcnt := countP_set APc.isWin s.pcs i _ (.done (.res r)) hpc
    simp only [APc.isWin, Bool.false_eq_true, if_false, Nat.add_zero] at hcnt
    have hc1 : cur s = some r := cur_of_borrowed hbox hmu hpc
    have hc2 : cur s' = some r := by rw [hs']; simp [cur]
    simp only [Wins] at hW ⊢
    rw [hc2, hs']; rw [hc1] at hW
    simp only; rw [hcnt, hW]

theorem wins_reach (hfix : c.fixed = true) (hm : c.flags.mutable = false) (hN : NoReset c) :
    ∀ s, Reach (sys c) s → Wins s :=
  inv_induction' (S := sys c) Wins (wins_init c)
    (fun _ _ _ hr hW h => wins_step hfix hm hN (ginv_reach hfix _ hr) hW h)

/-! ### what every call has observed is (extended by) the content — immutable promise -/

/-- the Result a call's return value speaks about: a successful Fulfill its value, a successful
    Fail its value and error, a Wait what it delivers -/
def obsRes : Call → Ret → Option Res
  | .fulfill v, .ferr none => some ⟨v, none⟩
  | .fail v e, .bool true => some ⟨v, e⟩
  | .wait, .res r => some r
  | _, _ => none

/-- every observation made so far is extended by the current content -/
def Obs (c : Cfg) (s : St) : Prop :=
  ∀ (j : Nat) (call : Call) (pc : APc) (ret : Ret) (r0 : Res),
    c.calls[j]? = some call → s.pcs[j]? = some pc → lp pc = some ret → obsRes call ret = some r0 →
    ∃ r, cur s = some r ∧ Ext c.flags r0 r

theorem obs_init (c : Cfg) : Obs c (init c) := by
  intro j call pc ret r0 _ hpc hlp _
  simp [init, List.getElem?_replicate] at hpc
  rw [← hpc.2] at hlp; simp [lp] at hlp

/-- the Result a successful Fulfill/Fail puts into an empty immutable promise -/
theorem atomic_obs (f : Flags) (call : Call) (box : Option Res) (r0 : Res)
    (hnw : call ≠ .wait) (ho : obsRes call (atomicCall f box call).2 = some r0)
    (hm : f.mutable = false) :
    (atomicCall f box call).1 = some r0 := by
  cases f with | mk m rc l =>
  simp at hm; subst hm
  cases call with
  | fulfill v =>
    cases box with
    | none =>
      cases l <;> simp [atomicCall, fulfill, messageState, zero, obsRes] at ho ⊢ <;> exact ho
    | some r =>
      cases r with | mk val err =>
      cases err <;> cases l <;> simp [atomicCall, fulfill, messageState, obsRes] at ho
  | fail v e =>
    cases box with
    | none =>
      cases v <;> simp [atomicCall, fail, messageState, zero, obsRes] at ho ⊢ <;> exact ho
    | some r => simp [atomicCall, fail, messageState, obsRes] at ho
  | recover v =>
    simp only [atomicCall] at ho
    cases hr : (recover ⟨false, rc, l⟩ box v).2 <;> simp [obsRes] at ho
  | brk => simp [obsRes] at ho
  | wait => exact absurd rfl hnw

theorem obs_step (hfix : c.fixed = true) (hm : c.flags.mutable = false) (hN : NoReset c)
    (hI : GInv c s) (hO : Obs c s) (h : step c s i = some s') : Obs c s' := by
  intro j call pc ret r0 hcj hpj hlp hobs
  by_cases hji : j = i
  · subst hji
    cases step_cases hfix h with
    | atomic call' b ret' hcall hnw hpc hmu heq hs' =>
      rw [hcall] at hcj; cases hcj
      have hlt := lt_of_get hpc
      rw [hs'] at hpj; simp [hlt] at hpj; subst hpj
      simp [lp] at hlp; subst hlp
      have hb := atomic_obs c.flags call s.box r0 hnw (by rw [heq]; exact hobs) hm
      rw [heq] at hb; simp only at hb
      have hc2 : cur s' = b := by rw [hs']; exact cur_mu_none (by exact hmu)
      exact ⟨r0, by rw [hc2, hb], Ext.refl _ _⟩
    | take r hcall hpc hmu hbox hs' =>
      rw [hcall] at hcj; cases hcj
      have hlt := lt_of_get hpc
      rw [hs'] at hpj; simp [hlt] at hpj; subst hpj
      simp [lp] at hlp; subst hlp
      simp [obsRes] at hobs; subst hobs
      exact ⟨r, by rw [hs']; simp [cur, hlt], Ext.refl _ _⟩
    | put r hcall hpc hs' =>
      rw [hcall] at hcj; cases hcj
      have hlt := lt_of_get hpc
      rw [hs'] at hpj; simp [hlt] at hpj; subst hpj
      simp [lp] at hlp; subst hlp
      simp [obsRes] at hobs; subst hobs
      exact ⟨r, by rw [hs']; simp [cur], Ext.refl _ _⟩
  · rw [step_other_pcs h hji] at hpj
    obtain ⟨r, hc, he⟩ := hO j call pc ret r0 hcj hpj hlp hobs
    obtain ⟨r', hc', he'⟩ := cur_ext_step hfix hm hN hI h hc
    exact ⟨r', hc', he.trans he'⟩

theorem obs_reach (hfix : c.fixed = true) (hm : c.flags.mutable = false) (hN : NoReset c) :
    ∀ s, Reach (sys c) s → Obs c s :=
  inv_induction' (S := sys c) (Obs c) (obs_init c)
    (fun _ _ _ hr hO h => obs_step hfix hm hN (ginv_reach hfix _ hr) hO h)

/-! ### provenance of the content (all flags, all calls): nothing out of thin air -/

def Call.valueOf : Call → Option Nat
  | .fulfill v => v
  | .fail v _ => v
  | .recover v => v
  | _ => none

def Call.errOf : Call → Option ErrV
  | .fail _ e => e
  | _ => none

/-- the content is the value of a call that reported success, with that call's error or the
    relayed "already set" error -/
def Prov (c : Cfg) (s : St) : Prop :=
  ∀ r, cur s = some r →
    ∃ (j : Nat) (call : Call) (ret : Ret), c.calls[j]? = some call ∧ s.pcs[j]? = some (.done ret) ∧
      (APc.done ret).isWin = true ∧ r.val = call.valueOf ∧
      (r.err = call.errOf ∨ r.err = some .alreadySet)

theorem prov_init (c : Cfg) : Prov c (init c) := by
  intro r h; simp [init, cur] at h

/-- an atomic call either reports success and installs its own value, or leaves the value and
    touches the error only by relaying "already set", or empties the promise -/
theorem atomic_prov (f : Flags) (call : Call) (box : Option Res) (hnw : call ≠ .wait) (r' : Res)
    (h : (atomicCall f box call).1 = some r') :
    ((APc.done (atomicCall f box call).2).isWin = true ∧ r'.val = call.valueOf ∧ r'.err = call.errOf) ∨
    (∃ r, box = some r ∧ r'.val = r.val ∧ (r'.err = r.err ∨ r'.err = some .alreadySet)) := by
  cases f with | mk m rc l =>
  cases call with
  | fulfill v =>
    cases box with
    | none =>
      left
      cases l <;> cases m <;>
        simp [atomicCall, fulfill, messageState, zero, APc.isWin, Call.valueOf, Call.errOf] at h ⊢ <;>
        subst h <;> simp
    | some r =>
      cases r with | mk val err =>
      cases err <;> cases l <;> cases m <;>
        simp [atomicCall, fulfill, messageState, APc.isWin, Call.valueOf, Call.errOf] at h ⊢ <;>
        subst h <;> simp
  | fail v e =>
    cases box with
    | none =>
      left
      cases v <;> simp [atomicCall, fail, messageState, zero, APc.isWin, Call.valueOf, Call.errOf] at h ⊢ <;>
        subst h <;> simp
    | some r =>
      right
      simp [atomicCall, fail, messageState] at h ⊢
      subst h; simp
  | recover v =>
    cases rc with
    | false =>
      right
      simp [atomicCall, recover] at h ⊢
      exact ⟨r', h, rfl, Or.inl rfl⟩
    | true =>
      left
      cases v with
      | none => simp [atomicCall, recover] at h
      | some v =>
        cases l <;> cases m <;>
          simp [atomicCall, recover, fulfill, messageState, zero, APc.isWin, Call.valueOf, Call.errOf] at h ⊢ <;>
          subst h <;> simp
  | brk => simp [atomicCall, brk] at h
  | wait => exact absurd rfl hnw

theorem prov_step (hfix : c.fixed = true) (hI : GInv c s) (hP : Prov c s)
    (h : step c s i = some s') : Prov c s' := by
  intro r' hcur'
  -- a witness of `s` other than `i` is still a witness in `s'`
  have keep : ∀ (j : Nat) (ret : Ret), s.pcs[j]? = some (.done ret) → s'.pcs[j]? = some (.done ret) :=
    fun j ret hj => step_done_stable h hj
  cases step_cases hfix h with
  | atomic call b ret hcall hnw hpc hmu heq hs' =>
    have hlt := lt_of_get hpc
    have hc1 : cur s = s.box := cur_mu_none hmu
    have hc2 : cur s' = b := by rw [hs']; exact cur_mu_none (by exact hmu)
    rw [hc2] at hcur'
    have hap := atomic_prov c.flags call s.box hnw r' (by rw [heq]; exact hcur')
    rw [heq] at hap
    rcases hap with ⟨hw, hv, he⟩ | ⟨r, hb, hv, he⟩
    · exact ⟨i, call, ret, hcall, by rw [hs']; simp [hlt], hw, hv, Or.inl he⟩
    · obtain ⟨j, cj, rj, hcj, hpj, hwj, hvj, hej⟩ := hP r (by rw [hc1, hb])
      refine ⟨j, cj, rj, hcj, keep j rj hpj, hwj, hv.trans hvj, ?_⟩
      rcases he with he | he
      · rcases hej with hej | hej
        · exact Or.inl (he.trans hej)
        · exact Or.inr (he.trans hej)
      · exact Or.inr he
  | take r hcall hpc hmu hbox hs' =>
    have hlt := lt_of_get hpc
    have hc1 : cur s = some r := cur_of_box hbox
    have hc2 : cur s' = some r := by rw [hs']; simp [cur, hlt]
    rw [hc2] at hcur'
    have hrr : r = r' := Option.some.inj hcur'
    subst hrr
    obtain ⟨j, cj, rj, hcj, hpj, hwj, hvj, hej⟩ := hP r hc1
    exact ⟨j, cj, rj, hcj, keep j rj hpj, hwj, hvj, hej⟩
  | put r hcall hpc hs' =>
    obtain ⟨hmu, hbox, _⟩ := hI.bor i r hpc
    have hc1 : cur s = some r := cur_of_borrowed hbox hmu hpc
    have hc2 : cur s' = some r := by rw [hs']; simp [cur]
    rw [hc2] at hcur'
    have hrr : r = r' := Option.some.inj hcur'
    subst hrr
    obtain ⟨j, cj, rj, hcj, hpj, hwj, hvj, hej⟩ := hP r hc1
    exact ⟨j, cj, rj, hcj, keep j rj hpj, hwj, hvj, hej⟩

theorem prov_reach (hfix : c.fixed = true) : ∀ s, Reach (sys c) s → Prov c s :=
  inv_induction' (S := sys c) (Prov c) (prov_init c)
    (fun _ _ _ hr hP h => prov_step hfix (ginv_reach hfix _ hr) hP h)

/-! ### a finished Fulfill/Fail leaves a promise that holds something (no resetting calls) -/

def FFDone (c : Cfg) (s : St) : Prop :=
  ∀ (k : Nat) (call : Call) (ret : Ret), c.calls[k]? = some call → call.isFF = true →
    s.pcs[k]? = some (.done ret) → cur s ≠ none

theorem atomic_ff_some (f : Flags) (call : Call) (box : Option Res) (hff : call.isFF = true) :
    ∃ r', (atomicCall f box call).1 = some r' := by
  cases call with
  | fulfill v =>
    cases f with | mk m rc l =>
    cases box with
    | none => cases l <;> cases m <;> simp [atomicCall, fulfill, messageState, zero]
    | some r =>
      cases r with | mk val err =>
      cases err <;> cases l <;> cases m <;> simp [atomicCall, fulfill, messageState]
  | fail v e => cases box <;> simp [atomicCall, fail, messageState]
  | recover v => simp [Call.isFF] at hff
  | brk => simp [Call.isFF] at hff
  | wait => simp [Call.isFF] at hff

theorem ffdone_step (hfix : c.fixed = true) (hN : NoReset c) (hI : GInv c s) (hF : FFDone c s)
    (h : step c s i = some s') : FFDone c s' := by
  intro k call ret hck hff hpk
  by_cases hki : k = i
  · subst hki
    cases step_cases hfix h with
    | atomic call' b ret' hcall hnw hpc hmu heq hs' =>
      rw [hcall] at hck; cases hck
      obtain ⟨r', hr'⟩ := atomic_ff_some c.flags call s.box hff
      rw [heq] at hr'; simp only at hr'
      have hc2 : cur s' = b := by rw [hs']; exact cur_mu_none (by exact hmu)
      rw [hc2, hr']; simp
    | take r hcall _ _ _ _ => rw [hcall] at hck; cases hck; simp [Call.isFF] at hff
    | put r hcall _ _ => rw [hcall] at hck; cases hck; simp [Call.isFF] at hff
  · rw [step_other_pcs h hki] at hpk
    have hne := hF k call ret hck hff hpk
    cases hc : cur s with
    | none => exact absurd hc hne
    | some r =>
      obtain ⟨r', hr'⟩ := cur_some_step hfix hN hI h hc
      rw [hr']; simp

theorem ffdone_reach (hfix : c.fixed = true) (hN : NoReset c) : ∀ s, Reach (sys c) s → FFDone c s :=
  inv_induction' (S := sys c) (FFDone c)
    (by intro k call ret _ _ h; simp [sys, init, List.getElem?_replicate] at h)
    (fun _ _ _ hr hF h => ffdone_step hfix hN (ginv_reach hfix _ hr) hF h)

end Biogo.Promise
