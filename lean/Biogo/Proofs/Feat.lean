/-
Helper lemmas for C20 (feature chains): the fuelled loops of `Model/Feat.lean` in closed form.
Core-only.
-/
import Biogo.Model.Feat
import Biogo.Spec.Gene

namespace Biogo.Proofs.Feat
open Biogo.Feat Biogo.Spec.Gene

/-! ### BasePositionOf -/

theorem basePosLoop_closed : ∀ (fuel : Nat) (f : Node) (rest : Chain) (p : Int),
    (f :: rest).length ≤ fuel →
    basePosLoop fuel (f :: rest) p = .ok (p + startSum (f :: rest), lastId f rest)
  | 0, _, _, _, h => by simp at h
  | fuel + 1, f, [], p, _ => by simp [basePosLoop, startSum, lastId]
  | fuel + 1, f, y :: rest, p, h => by
    have ih := basePosLoop_closed fuel y rest (p + f.start) (by simp at h ⊢; omega)
    simp only [basePosLoop, ih, startSum, lastId]
    congr 2; omega

theorem basePosLoop_tooLong : ∀ (fuel : Nat) (c : Chain) (p : Int),
    fuel < c.length → basePosLoop fuel c p = .error .tooLong
  | 0, _, _, _ => rfl
  | fuel + 1, [], _, h => by simp at h
  | fuel + 1, [_], _, h => by simp at h
  | fuel + 1, _ :: y :: rest, p, h => by
    simp only [basePosLoop]
    exact basePosLoop_tooLong fuel (y :: rest) _ (by simp at h ⊢; omega)

/-! ### PositionWithin -/

/-- the reference is found after the nodes of `pre` -/
theorem posWithinLoop_found : ∀ (fuel : Nat) (pre : List Node) (m : Node) (rest : Chain) (p : Int),
    (∀ x ∈ pre, x.id ≠ m.id) → pre.length < fuel →
    posWithinLoop fuel (pre ++ m :: rest) (some m.id) p = .ok (p + startSum pre, true)
  | 0, _, _, _, _, _, h => by simp at h
  | fuel + 1, [], m, rest, p, _, _ => by simp [posWithinLoop, startSum]
  | fuel + 1, x :: pre, m, rest, p, hne, h => by
    have hx : ¬ (some m.id = some x.id) := by
      intro hc; exact hne x (List.mem_cons_self ..) (Option.some.inj hc).symm
    have ih := posWithinLoop_found fuel pre m rest (p + x.start)
      (fun y hy => hne y (List.mem_cons_of_mem _ hy)) (by simp at h; omega)
    cases hpre : pre ++ m :: rest with
    | nil => simp at hpre
    | cons y ys =>
      simp only [List.cons_append, posWithinLoop, hx, if_false, hpre]
      rw [← hpre, ih, startSum]
      congr 2; omega

/-- the reference is not on the chain -/
theorem posWithinLoop_absent : ∀ (fuel : Nat) (f : Node) (rest : Chain) (r : Nat) (p : Int),
    (∀ x ∈ f :: rest, x.id ≠ r) → (f :: rest).length ≤ fuel →
    posWithinLoop fuel (f :: rest) (some r) p = .ok (0, false)
  | 0, _, _, _, _, _, h => by simp at h
  | fuel + 1, f, [], r, p, hne, _ => by
    have hx : ¬ (some r = some f.id) := by
      intro hc; exact hne f (List.mem_cons_self ..) (Option.some.inj hc).symm
    simp [posWithinLoop, hx]
  | fuel + 1, f, y :: rest, r, p, hne, h => by
    have hx : ¬ (some r = some f.id) := by
      intro hc; exact hne f (List.mem_cons_self ..) (Option.some.inj hc).symm
    simp only [posWithinLoop, hx, if_false]
    exact posWithinLoop_absent fuel y rest r _ (fun z hz => hne z (List.mem_cons_of_mem _ hz))
      (by simp at h ⊢; omega)

theorem startSum_append (a b : List Node) : startSum (a ++ b) = startSum a + startSum b := by
  induction a with
  | nil => simp [startSum]
  | cons x xs ih => simp only [List.cons_append, startSum, ih]; omega

/-! ### BaseOrientationOf -/

theorem baseOriLoop_closed : ∀ (fuel : Nat) (a : Int) (f : Node) (rest : Chain),
    f.oriented = true → (f :: rest).length ≤ fuel →
    baseOriLoop fuel a f rest = .ok (a * orientProduct (f :: rest), runRef f rest)
  | 0, _, _, _, _, h => by simp at h
  | fuel + 1, a, f, [], hf, _ => by
    simp [baseOriLoop, orientProduct, hf, runRef]
  | fuel + 1, a, f, y :: rest, hf, h => by
    by_cases hy : y.oriented = true
    · have ih := baseOriLoop_closed fuel (a * f.ori) y rest hy (by simp at h ⊢; omega)
      simp only [baseOriLoop, hy, if_true, ih, runRef]
      congr 2
      conv => rhs; rw [orientProduct]
      simp only [hf, if_true, Int.mul_assoc]
    · simp only [baseOriLoop, hy, Bool.false_eq_true, if_false, runRef]
      congr 2
      simp [orientProduct, hf, hy]

theorem baseOriNotLoop_closed : ∀ (fuel : Nat) (f : Node) (rest : Chain),
    (f :: rest).length ≤ fuel → baseOriNotLoop fuel f rest = .ok (0, notRef f rest)
  | 0, _, _, h => by simp at h
  | fuel + 1, f, [], _ => by simp [baseOriNotLoop, notRef]
  | fuel + 1, f, y :: rest, h => by
    by_cases hy : y.oriented = true
    · simp [baseOriNotLoop, hy, notRef]
    · simp only [baseOriNotLoop, hy, Bool.false_eq_true, if_false, notRef]
      exact baseOriNotLoop_closed fuel y rest (by simp at h ⊢; omega)

/-! ### OrientationWithin -/

theorem orientAll_append (a b : List Node) : orientAll (a ++ b) = orientAll a * orientAll b := by
  induction a with
  | nil => simp [orientAll]
  | cons x xs ih =>
    simp only [List.cons_append, orientAll, ih]
    split
    · rw [Int.mul_assoc]
    · simp

/-- the reference is the node `m` that follows the non-empty `pre`: the loop returns the
    product of the orientations of `pre` (0 if one of them is not orientable) -/
theorem oriWithinLoop_found : ∀ (fuel : Nat) (a : Int) (x : Node) (pre : List Node) (m : Node) (rest : Chain),
    (∀ y ∈ x :: pre, y.id ≠ m.id) → (x :: pre).length ≤ fuel →
    oriWithinLoop fuel a (x :: pre ++ m :: rest) m.id = .ok (a * orientAll (x :: pre))
  | 0, _, _, _, _, _, _, h => by simp at h
  | fuel + 1, a, x, [], m, rest, hne, _ => by
    have hx : x.id ≠ m.id := hne x (List.mem_cons_self ..)
    by_cases ho : x.oriented = true
    · simp [oriWithinLoop, ho, hx, headId, orientAll]
    · simp [oriWithinLoop, ho, orientAll]
  | fuel + 1, a, x, y :: pre, m, rest, hne, h => by
    have hx : x.id ≠ m.id := hne x (List.mem_cons_self ..)
    have hy : y.id ≠ m.id := hne y (List.mem_cons_of_mem _ (List.mem_cons_self ..))
    by_cases ho : x.oriented = true
    · have ih := oriWithinLoop_found fuel (a * x.ori) y pre m rest
        (fun z hz => hne z (List.mem_cons_of_mem _ hz)) (by simp at h ⊢; omega)
      have hh : ¬ (headId (y :: pre ++ m :: rest) = some m.id) := by
        simp only [List.cons_append, headId, Option.some.injEq]; exact hy
      simp only [List.cons_append] at ih hh ⊢
      simp only [oriWithinLoop, ho, if_true, hx, if_false, hh, ih]
      congr 1
      conv => rhs; rw [orientAll]
      simp only [ho, if_true, Int.mul_assoc]
    · simp [oriWithinLoop, ho, orientAll]

/-- the reference is the feature itself -/
theorem oriWithinLoop_self (fuel : Nat) (a : Int) (m : Node) (rest : Chain) :
    oriWithinLoop (fuel + 1) a (m :: rest) m.id = .ok (if m.oriented then a else 0) := by
  by_cases ho : m.oriented = true <;> simp [oriWithinLoop, ho]

end Biogo.Proofs.Feat
