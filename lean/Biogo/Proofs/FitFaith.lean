/-
`FittedAffine`: every returned pair carries the score recomputed from letters, matrix and gap
parameters (after the repair of K5).  The loop-level invariant is the generic one of
`Proofs/TraceFaith`; what is specific is the termination argument: the loop can only stop
inside a block, because row 0 holds values only in the `left` layer and column 0 (the free
reference prefix, `{−∞, 0, −∞}`) only in the `up` layer, while a gap run in progress excludes
exactly that layer.  Core only.
-/
import Biogo.Proofs.FittedAffine
import Biogo.Proofs.NWFaith

namespace Biogo.Proofs.FitFaith
open Biogo.Spec.Alignment Biogo.AlignAff Biogo.Spec.AffineOpt Biogo.Spec.AffPairs
open Biogo.Proofs.AffineOpt Biogo.Proofs.AlignAffTable Biogo.Proofs.TraceSum Biogo.Proofs.NWAffine
open Biogo.Proofs.TraceWF Biogo.Proofs.TraceFaith Biogo.Proofs.FittedAffine Biogo.Proofs.NWFaith

/-- the first row of the fitted table is the first row of the global table -/
theorem fitTable_row0 (S : Matrix) (o : Int) (r q : List Nat) (j : Nat) (hj : j ≤ q.length) :
    (fitTable S o r q).at 0 j = (nwTable S o r q).at 0 j := by
  rw [fitTable_at S o r q 0 j hj, fitAt_row0, nwTable_at S o r q 0 j hj]

/-- column 0 below the origin: the free reference prefix sits in the `up` layer -/
theorem fitTable_col0 (S : Matrix) (o : Int) (r q : List Nat) (i : Nat) (hi : i < r.length) :
    (fitTable S o r q).at (i + 1) 0 = ⟨none, some 0, none⟩ := by
  rw [fitTable_at S o r q (i + 1) 0 (Nat.zero_le _)]
  exact fitAt_col0 S o r q i hi

/-- the layer-aware traceback of `FittedAffine` never raises the ghost flag -/
theorem fitAlignT_aware_tie (S : Matrix) (o : Int) (r q : List Nat) (ps : List Pair) (t : Bool)
    (h : fitAlignT true S o r q = .ok (ps, t)) : t = false := by
  unfold fitAlignT at h
  simp only [] at h
  split at h
  · cases h
  · rename_i st hl
    have ht := loop_tie_aware false _ S o r q _ _ _ _ st hl
    simp only [] at ht
    split at h <;> (cases h; exact ht)

/-- **Faithful pair scores, `FittedAffine`**: every pair the model returns carries the score
    recomputed from the letters, the matrix and the gap parameters, the leading query gap
    (fix K2b) included. -/
theorem fitAlign_faithful (S : Matrix) (o : Int) (r q : List Nat) (hr : r ≠ []) (hq : q ≠ [])
    (ps : List Pair) (h : fitAlign S o r q = .ok ps) : faithful S o r q ps = true := by
  have hR : 1 ≤ r.length := by cases r with | nil => exact absurd rfl hr | cons _ _ => simp
  have hC : 1 ≤ q.length := by cases q with | nil => exact absurd rfl hq | cons _ _ => simp
  have F := nwTable_facts S o r q
  have hE : fitEnd (fitTable S o r q) q.length r.length 1 (0, none) ≤ r.length :=
    fitEnd_le _ _ _ _ _ _ (Nat.zero_le _) (by omega)
  have hE1 : 1 ≤ fitEnd (fitTable S o r q) q.length r.length 1 (0, none) :=
    fitEnd_pos _ _ _ _ _ (Nat.le_refl _) (Or.inr ⟨rfl, hR⟩)
  unfold fitAlign fitAlignT at h
  simp only [] at h
  generalize he : fitEnd (fitTable S o r q) q.length r.length 1 (0, none) = e at hE hE1 h
  obtain ⟨e', rfl⟩ : ∃ e', e = e' + 1 := ⟨e - 1, by omega⟩
  obtain ⟨C', hC'⟩ : ∃ C', q.length = C' + 1 := ⟨q.length - 1, by omega⟩
  obtain ⟨x, hx⟩ := fit_d_some S o r q e' C' (by omega) (by omega)
  have hinit : Good (fitTable S o r q) r.length q.length x
      { i := e' + 1, j := q.length, layer := .m, last := .m, score := 0, maxI := e' + 1,
        maxJ := q.length, aln := [] } := by
    refine ⟨hE, Nat.le_refl _, x, ?_, by simp [total]⟩
    simp only []
    rw [fitTable_at S o r q _ _ (Nat.le_refl _), hC']; exact hx
  obtain ⟨st, hloop, ⟨_, hjC, v, hv, _⟩, hend⟩ :=
    loop_good_gen true false r.length q.length (exists_cand_fit S o r q) x (e' + 1 + q.length) _ hinit
      (Nat.le_refl _)
  have hstop : st.i = 0 ∨ st.j = 0 := by
    rcases hend with e | e | e
    · exact Or.inl e
    · exact Or.inr e
    · exact absurd e.1 (by simp)
  rw [hloop] at h
  simp only [] at h
  have hinv := loop_inv true false _ S o r q r.length q.length (e' + 1) q.length _ _ st
    (init_inv r.length q.length (e' + 1) q.length .m hE (Nat.le_refl _)) hloop
  have hf := loop_faith_aware false _ S o r q r.length q.length (e' + 1) q.length _ _ st
    (init_inv r.length q.length (e' + 1) q.length .m hE (Nat.le_refl _)) rfl
    (init_faith S o r q (e' + 1) q.length .m (by omega) (by omega)) hloop
  obtain ⟨hi, hj, hmR, hmC, isegm, isegu, isegl, iempty0, _, _, _, _⟩ := hinv
  -- the loop can only stop in a block
  have hlast : st.last = .m := by
    cases hk : st.last with
    | m => rfl
    | u =>
      exfalso
      have hj0 : st.j ≠ 0 := fun e => hf.termj e hk
      have hi0 : st.i = 0 := by rcases hstop with e | e; exact e; exact absurd e hj0
      obtain ⟨j', hj'⟩ : ∃ j', st.j = j' + 1 := ⟨st.j - 1, by omega⟩
      rw [hi0, hj', fitTable_row0 S o r q (j' + 1) (by omega)] at hv
      exact (hf.segu hk).2.2 (F.row0 j' (by omega) _ v hv)
    | l =>
      exfalso
      have hi0 : st.i ≠ 0 := fun e => hf.termi e hk
      have hj0 : st.j = 0 := by rcases hstop with e | e; exact absurd e hi0; exact e
      obtain ⟨i', hi'⟩ : ∃ i', st.i = i' + 1 := ⟨st.i - 1, by omega⟩
      rw [hj0, hi', fitTable_col0 S o r q i' (by omega)] at hv
      apply (hf.segl hk).2.2
      cases hlay : st.layer <;> rw [hlay] at hv <;> simp [Cell.get] at hv
  have hpair : pairOK S o r q ⟨st.i, st.maxI, st.j, st.maxJ, st.score⟩ = true := by
    rw [hf.segm hlast]; exact pairOK_block S o r q _ _ _ _ hi (isegm hlast)
  have hemit : st.emit.aln.all (pairOK S o r q) = true := by
    simp only [TB.emit, List.all_cons, hpair, hf.done, Bool.and_self]
  by_cases hj0 : st.j ≠ 0
  · rw [if_pos hj0] at h
    simp only [Except.map] at h
    cases h
    show (_ :: st.emit.aln).all (pairOK S o r q) = true
    simp only [List.all_cons, hemit, Bool.and_true]
    have hi0 : st.i = 0 := by rcases hstop with e | e; exact e; exact absurd e hj0
    obtain ⟨j', hj'⟩ : ∃ j', st.j = j' + 1 := ⟨st.j - 1, by omega⟩
    rw [hi0, hj', fitTable_row0 S o r q (j' + 1) (by omega), (nw_row0_l S o r q j' (by omega)).1]
    have := pairOK_left S o r q 0 0 (j' + 1) (by omega)
    simpa [vget] using this
  · rw [if_neg hj0] at h
    simp only [Except.map] at h
    cases h
    exact hemit

end Biogo.Proofs.FitFaith
