/-
`FittedAffine`: every returned pair carries the score recomputed from letters, matrix and gap
parameters (after the repair of K5).  The loop-level invariant is the generic one of
`Proofs/TraceFaith`; what is specific is the termination argument: the loop can only stop
inside a block or in a gap run that has just been charged its `gapOpen`, because row 0 holds
values only in the `left` layer and column 0 (the free reference prefix, `{−∞, 0, −∞}`) only in
the `up` layer, while a gap run that has not been opened yet is still in its own layer.
Stated for either fill (`cross`) and either end selection (`ends`).  Core only.
-/
import Biogo.Proofs.FittedAffine
import Biogo.Proofs.FittedFull
import Biogo.Proofs.NWFaith

namespace Biogo.Proofs.FitFaith
open Biogo.Spec.Alignment Biogo.AlignAff Biogo.Spec.AffineOpt Biogo.Spec.AffPairs
open Biogo.Proofs.AffineOpt Biogo.Proofs.AlignAffTable Biogo.Proofs.TraceSum Biogo.Proofs.NWAffine
open Biogo.Proofs.TraceWF Biogo.Proofs.TraceFaith Biogo.Proofs.FittedAffine Biogo.Proofs.NWFaith

/-- the first row of the fitted table is the first row of the global table -/
theorem fitTable_row0 (cross : Bool) (S : Matrix) (o : Int) (r q : List Nat) (j : Nat) (hj : j ≤ q.length) :
    (fitTable cross S o r q).at 0 j = (nwTable cross S o r q).at 0 j := by
  rw [fitTable_at cross S o r q 0 j hj, fitAt_row0 cross S o r q j cross, nwTable_at cross S o r q 0 j hj]

/-- column 0 below the origin: the free reference prefix sits in the `up` layer -/
theorem fitTable_col0 (cross : Bool) (S : Matrix) (o : Int) (r q : List Nat) (i : Nat) (hi : i < r.length) :
    (fitTable cross S o r q).at (i + 1) 0 = ⟨none, some 0, none⟩ := by
  rw [fitTable_at cross S o r q (i + 1) 0 (Nat.zero_le _)]
  exact fitAt_col0 cross S o r q i hi

/-- the layer-aware traceback of `FittedAffine` never raises the ghost flag -/
theorem fitAlignT_aware_tie (cross ends : Bool) (S : Matrix) (o : Int) (r q : List Nat) (ps : List Pair) (t : Bool)
    (h : fitAlignT true cross ends S o r q = .ok (ps, t)) : t = false := by
  unfold fitAlignT at h
  simp only [] at h
  split at h
  · cases h
  · rename_i st hl
    have ht := loop_tie_aware cross false _ S o r q _ _ _ _ st hl
    simp only [] at ht
    split at h <;> (cases h; exact ht)

/-- the start of the traceback (either end selection): a row `1 ≤ e ≤ |r|` and a layer of the
    last column of that row that holds a value -/
theorem fitStart_spec (cross ends : Bool) (S : Matrix) (o : Int) (r q : List Nat) (hr : r ≠ []) (hq : q ≠ []) :
    let start : Nat × Kind := if ends then fitEnd3 (fitTable cross S o r q) q.length r.length 1 (0, .m, none)
      else (fitEnd (fitTable cross S o r q) q.length r.length 1 (0, none), Kind.m)
    1 ≤ start.1 ∧ start.1 ≤ r.length ∧ ∃ x, ((fitTable cross S o r q).at start.1 q.length).get start.2 = some x := by
  have hR : 1 ≤ r.length := by cases r with | nil => exact absurd rfl hr | cons _ _ => simp
  have hC : 1 ≤ q.length := by cases q with | nil => exact absurd rfl hq | cons _ _ => simp
  obtain ⟨C', hC'⟩ : ∃ C', q.length = C' + 1 := ⟨q.length - 1, by omega⟩
  cases ends with
  | false =>
    simp only [Bool.false_eq_true, if_false]
    have hE : fitEnd (fitTable cross S o r q) q.length r.length 1 (0, none) ≤ r.length :=
      fitEnd_le _ _ _ _ _ _ (Nat.zero_le _) (by omega)
    have hE1 : 1 ≤ fitEnd (fitTable cross S o r q) q.length r.length 1 (0, none) :=
      fitEnd_pos _ _ _ _ _ (Nat.le_refl _) (Or.inr ⟨rfl, hR⟩)
    refine ⟨hE1, hE, ?_⟩
    generalize fitEnd (fitTable cross S o r q) q.length r.length 1 (0, none) = e at hE hE1
    obtain ⟨e', rfl⟩ : ∃ e', e = e' + 1 := ⟨e - 1, by omega⟩
    obtain ⟨x, hx⟩ := fit_d_some cross S o r q e' C' (by omega) (by omega)
    exact ⟨x, by rw [fitTable_at cross S o r q _ _ (Nat.le_refl _), hC']; exact hx⟩
  | true =>
    simp only [if_true]
    have hE : (fitEnd3 (fitTable cross S o r q) q.length r.length 1 (0, .m, none)).1 ≤ r.length :=
      fitEnd3_le _ _ _ _ _ _ (Nat.zero_le _) (by omega)
    have hE1 : 1 ≤ (fitEnd3 (fitTable cross S o r q) q.length r.length 1 (0, .m, none)).1 :=
      Biogo.Proofs.FittedFull.fitEnd3_pos _ _ _ _ _ (Nat.le_refl _) (Or.inr ⟨rfl, hR⟩)
    have hLay := Biogo.Proofs.FittedFull.fitEnd3_layer (fitTable cross S o r q) q.length r.length 1 (0, .m, none)
      (fun h => absurd h (by simp)) (Nat.le_refl _) hE1
    refine ⟨hE1, hE, ?_⟩
    generalize fitEnd3 (fitTable cross S o r q) q.length r.length 1 (0, .m, none) = start at hE hE1 hLay
    obtain ⟨e, lay⟩ := start
    simp only [] at hE hE1 hLay ⊢
    obtain ⟨e', rfl⟩ : ∃ e', e = e' + 1 := ⟨e - 1, by omega⟩
    obtain ⟨xd, hxd⟩ := fit_d_some cross S o r q e' C' (by omega) (by omega)
    rw [hLay, cellBest_layer, fitTable_at cross S o r q _ _ (Nat.le_refl _), hC']
    exact max3_some (k := .m) hxd

/-- **Faithful pair scores, `FittedAffine`** (either fill, either end selection): every pair the
    model returns carries the score recomputed from the letters, the matrix and the gap
    parameters, the leading query gap (fix K2b) included. -/
theorem fitAlignT_faithful (cross ends : Bool) (S : Matrix) (o : Int) (r q : List Nat) (hr : r ≠ []) (hq : q ≠ [])
    (ps : List Pair) (h : (fitAlignT true cross ends S o r q).map (·.1) = .ok ps) : faithful S o r q ps = true := by
  have hR : 1 ≤ r.length := by cases r with | nil => exact absurd rfl hr | cons _ _ => simp
  have hC : 1 ≤ q.length := by cases q with | nil => exact absurd rfl hq | cons _ _ => simp
  have F := nwTable_facts cross S o r q
  obtain ⟨hE1, hE, x, hx⟩ := fitStart_spec cross ends S o r q hr hq
  unfold fitAlignT at h
  simp only [] at h hE1 hE hx
  generalize (if ends then fitEnd3 (fitTable cross S o r q) q.length r.length 1 (0, .m, none)
    else (fitEnd (fitTable cross S o r q) q.length r.length 1 (0, none), Kind.m)) = start at h hE hE1 hx
  obtain ⟨e, lay⟩ := start
  simp only [] at h hE hE1 hx
  have hinit : Good (fitTable cross S o r q) r.length q.length x
      { i := e, j := q.length, layer := lay, last := lay, score := 0, maxI := e,
        maxJ := q.length, aln := [] } :=
    ⟨hE, Nat.le_refl _, x, hx, by simp [total]⟩
  obtain ⟨st, hloop, ⟨_, hjC, v, hv, _⟩, hend⟩ :=
    loop_good_gen true cross false r.length q.length (exists_cand_fit cross S o r q) x (e + q.length) _ hinit
      (Nat.le_refl _)
  have hstop : st.i = 0 ∨ st.j = 0 := by
    rcases hend with e | e | e
    · exact Or.inl e
    · exact Or.inr e
    · exact absurd e.1 (by simp)
  rw [hloop] at h
  simp only [] at h
  have hinv := loop_inv true cross false _ S o r q r.length q.length e q.length _ _ st
    (init_inv_layer r.length q.length e q.length lay hE (Nat.le_refl _)) hloop
  have hf := loop_faith_aware cross false _ S o r q r.length q.length e q.length _ _ st
    (init_inv_layer r.length q.length e q.length lay hE (Nat.le_refl _)) rfl
    (init_faith_layer S o r q e q.length lay (by omega) (by omega)) hloop
  obtain ⟨hi, hj, hmR, hmC, isegm, isegu, isegl, iempty0, _, _, _, _⟩ := hinv
  -- the loop stops in a block, or in a gap run that has just been opened on the border: row 0
  -- holds values only in the `left` layer, the free-prefix column 0 only in the `up` layer
  have hpair : pairOK S o r q ⟨st.i, st.maxI, st.j, st.maxJ, st.score⟩ = true := by
    cases hk : st.last with
    | m => rw [hf.segm hk]; exact pairOK_block S o r q _ _ _ _ hi (isegm hk)
    | u =>
      have hj0 : st.j ≠ 0 := fun e => hf.termj e hk
      have hi0 : st.i = 0 := by rcases hstop with e | e; exact e; exact absurd e hj0
      obtain ⟨j', hj'⟩ : ∃ j', st.j = j' + 1 := ⟨st.j - 1, by omega⟩
      rw [hi0, hj', fitTable_row0 cross S o r q (j' + 1) (by omega)] at hv
      have hlay : st.layer = .l := F.row0 j' (by omega) _ v hv
      obtain ⟨e1, e2⟩ := isegu hk
      have e2' : st.i < st.maxI := by
        rcases e2 with e2 | e2
        · exact e2
        · rw [hlay] at e2; cases e2
      rw [(hf.segu hk).2 (by rw [hlay]; decide), ← e1]
      exact pairOK_up S o r q _ _ _ e2'
    | l =>
      have hi0 : st.i ≠ 0 := fun e => hf.termi e hk
      have hj0 : st.j = 0 := by rcases hstop with e | e; exact absurd e hi0; exact e
      obtain ⟨i', hi'⟩ : ∃ i', st.i = i' + 1 := ⟨st.i - 1, by omega⟩
      rw [hj0, hi', fitTable_col0 cross S o r q i' (by omega)] at hv
      have hlay : st.layer = .u := by
        cases hlay : st.layer <;> rw [hlay] at hv <;> simp [Cell.get] at hv
      obtain ⟨e1, e2⟩ := isegl hk
      have e2' : st.j < st.maxJ := by
        rcases e2 with e2 | e2
        · exact e2
        · rw [hlay] at e2; cases e2
      rw [(hf.segl hk).2 (by rw [hlay]; decide), ← e1]
      exact pairOK_left S o r q _ _ _ e2'
  have hemit : st.emit.aln.all (pairOK S o r q) = true := by
    simp only [TB.emit, List.all_cons, hpair, hf.done, Bool.and_self]
  by_cases hj0 : st.j ≠ 0
  · rw [if_pos hj0] at h
    simp only [Except.map] at h
    cases h
    show (_ :: st.emit.aln).all (pairOK S o r q) = true
    simp only [List.all_cons, hemit, Bool.and_true]
    have hi0 : st.i = 0 := by rcases hstop with e | e; exact e; exact absurd e hj0
    obtain ⟨j', hj'⟩ : ∃ j', st.j = j' + 1 := ⟨st.j - 1, by omega⟩
    rw [hi0, hj', fitTable_row0 cross S o r q (j' + 1) (by omega), (nw_row0_l cross S o r q j' (by omega)).1]
    have := pairOK_left S o r q 0 0 (j' + 1) (by omega)
    simpa [vget] using this
  · rw [if_neg hj0] at h
    simp only [Except.map] at h
    cases h
    exact hemit

/-- **Faithful pair scores, `FittedAffine`**, the model of the code -/
theorem fitAlign_faithful (S : Matrix) (o : Int) (r q : List Nat) (hr : r ≠ []) (hq : q ≠ [])
    (ps : List Pair) (h : fitAlign S o r q = .ok ps) : faithful S o r q ps = true :=
  fitAlignT_faithful true true S o r q hr hq ps h

end Biogo.Proofs.FitFaith
