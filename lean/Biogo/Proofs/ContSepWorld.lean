/-
Every operation of the C05/C07 histories, on every kind of object, keeps the world well formed
(`WorldWF`) and leaves every object it is not applied to — and the complete observation of that
object — as it was.  Hence: every state reachable from a constructor is well formed, and the
all-histories frame / `clone_deep` theorems for worlds with column-stored alignments and caller
buffers.  Core-only.
-/
import Biogo.Proofs.ContSepOps

namespace Biogo.Containers
open Biogo.Go

/-- the object an operation writes through (`Clone`, `Subseq` and the buffer operations write
    through none: they only allocate, or write a caller buffer) -/
def Op.written : Op → Option Nat
  | .revComp k | .reverse k | .set k _ _ _ | .rowRevComp k _ | .rowReverse k _ => some k
  | .appendCols k _ | .appendEach k _ | .add k _ | .delete k _ | .flush k _ _ | .truncate k _ _ => some k
  | .clone _ | .subseq _ _ _ | .mkbuf _ _ | .mutbuf _ _ _ => none

/-- what holds after one step from a well-formed world -/
def StepAll (cx : Ctx) (w : World) (op : Op) : Prop :=
  WorldWF (apply cx w op).1 ∧ OthersKept cx w (apply cx w op).1 op.written

theorem stepAll_unchanged {cx : Ctx} {w : World} {op : Op} (hw : WorldWF w) (res : String)
    (happ : apply cx w op = (w, res)) : StepAll cx w op := by
  unfold StepAll
  rw [happ]
  exact ⟨hw, fun j oj _ hoj => ⟨hoj, rfl⟩⟩

theorem stepAll_setObj {cx : Ctx} {w : World} {op : Op} (hw : WorldWF w) (k : Nat) (o : Obj)
    (hk : w.objs[k]? = some o) (hwr : op.written = some k) (h' : Cells) (o' : Obj) (res : String)
    (happ : apply cx w op = (w.setObj k h' o', res)) (he : Eff w.cells o h' o') : StepAll cx w op := by
  unfold StepAll
  rw [happ, hwr]
  exact hw.setObj cx k o hk h' o' he

theorem stepAll_addObj {cx : Ctx} {w : World} {op : Op} (hw : WorldWF w) (hwr : op.written = none)
    (h' : Cells) (c : Obj) (res : String)
    (happ : apply cx w op = ({ w with cells := h', objs := w.objs ++ [c] }, res))
    (hg : Grow w.cells h') (hwf : ObjWF h' c) (hfresh : ∀ a ∈ c.arrs, w.cells.arrays.length ≤ a) :
    StepAll cx w op := by
  unfold StepAll
  rw [happ, hwr]
  exact hw.addObj cx h' c hg hwf hfresh

theorem Eff.after_grow {h h1 h2 : Cells} {o o' : Obj} (hg : Grow h h1) (he : Eff h1 o h2 o') : Eff h o h2 o' :=
  ⟨Nat.le_trans hg.size he.size,
   fun b hb hnot => by rw [he.frame b (Nat.lt_of_lt_of_le hb hg.size) hnot, hg.frame b hb],
   fun a' ha' => (he.foot a' ha').imp id fun hge => Nat.le_trans hg.size hge,
   he.wf⟩

theorem ObjWF.grow {h h' : Cells} {o : Obj} (hw : ObjWF h o) (hg : Grow h h') : ObjWF h' o :=
  hw.mono hg.size fun a ha => hg.frame a (hw.arrs_lt a ha)

theorem step_all_revComp (cx : Ctx) (w : World) (hw : WorldWF w) (k : Nat) : StepAll cx w (.revComp k) := by
  cases hk : w.objs[k]? with
  | none => exact stepAll_unchanged hw "panic" (by simp only [apply, hk])
  | some o =>
    have hwf := hw.obj k o hk
    cases o with
    | lin l => exact stepAll_setObj hw k _ hk rfl _ _ "ok" (by simp only [apply, hk]) (eff_lin_revComp cx w.cells l hwf)
    | aln a => exact stepAll_setObj hw k _ hk rfl _ _ "ok" (by simp only [apply, hk]) (eff_aln_revComp cx w.cells a hwf)
    | multi m =>
      exact stepAll_setObj hw k _ hk rfl _ _ "ok" (by simp only [apply, hk]) (effRows_revComp cx w.cells m hwf).multi
    | set m =>
      exact stepAll_setObj hw k _ hk rfl _ _ "ok" (by simp only [apply, hk]) (effRows_setRevComp cx w.cells m hwf).set

theorem step_all_reverse (cx : Ctx) (w : World) (hw : WorldWF w) (k : Nat) : StepAll cx w (.reverse k) := by
  cases hk : w.objs[k]? with
  | none => exact stepAll_unchanged hw "panic" (by simp only [apply, hk])
  | some o =>
    have hwf := hw.obj k o hk
    cases o with
    | lin l => exact stepAll_setObj hw k _ hk rfl _ _ "ok" (by simp only [apply, hk]) (eff_lin_reverse w.cells l hwf)
    | aln a => exact stepAll_setObj hw k _ hk rfl _ _ "ok" (by simp only [apply, hk]) (eff_aln_reverse w.cells a hwf)
    | multi m =>
      exact stepAll_setObj hw k _ hk rfl _ _ "ok" (by simp only [apply, hk]) (effRows_reverse w.cells m hwf).multi
    | set m =>
      exact stepAll_setObj hw k _ hk rfl _ _ "ok" (by simp only [apply, hk]) (effRows_setReverse w.cells m hwf).set

theorem step_all_set (cx : Ctx) (w : World) (hw : WorldWF w) (k r : Nat) (pos : Int) (c : QL) :
    StepAll cx w (.set k r pos c) := by
  cases hk : w.objs[k]? with
  | none => exact stepAll_unchanged hw "panic" (by simp only [apply, hk])
  | some o =>
    have hwf := hw.obj k o hk
    cases o with
    | lin l =>
      by_cases hp : (l.at? w.cells pos).isNone = true
      · exact stepAll_unchanged hw "panic" (by simp only [apply, hk, hp, if_true])
      · exact stepAll_setObj hw k _ hk rfl _ _ "ok" (by simp only [apply, hk, hp]; rfl) (eff_lin_set w.cells l pos c hwf)
    | aln a =>
      by_cases hp : (a.at? w.cells r pos).isNone = true
      · exact stepAll_unchanged hw "panic" (by simp only [apply, hk, hp, if_true])
      · exact stepAll_setObj hw k _ hk rfl _ _ "ok" (by simp only [apply, hk, hp]; rfl) (eff_aln_set w.cells a r pos c hwf)
    | multi m =>
      by_cases hp : ((m.rows[r]?).bind (·.at? w.cells pos)).isNone = true
      · exact stepAll_unchanged hw "panic" (by simp only [apply, hk, hp, if_true])
      · exact stepAll_setObj hw k _ hk rfl _ _ "ok" (by simp only [apply, hk, hp]; rfl)
          (effRows_onRow (fun h l => (l.set h pos c, l)) (rowOp_set pos c) w.cells m hwf r).multi
    | set m =>
      by_cases hp : ((m.rows[r]?).bind (·.at? w.cells pos)).isNone = true
      · exact stepAll_unchanged hw "panic" (by simp only [apply, hk, hp, if_true])
      · exact stepAll_setObj hw k _ hk rfl _ _ "ok" (by simp only [apply, hk, hp]; rfl)
          (effRows_onRow (fun h l => (l.set h pos c, l)) (rowOp_set pos c) w.cells m hwf r).set

theorem step_all_rowRevComp (cx : Ctx) (w : World) (hw : WorldWF w) (k r : Nat) :
    StepAll cx w (.rowRevComp k r) := by
  cases hk : w.objs[k]? with
  | none => exact stepAll_unchanged hw "panic" (by simp only [apply, hk])
  | some o =>
    have hwf := hw.obj k o hk
    cases o with
    | lin l => exact stepAll_unchanged hw "panic" (by simp only [apply, hk])
    | aln a =>
      by_cases hp : r < a.rows
      · exact stepAll_setObj hw k _ hk rfl _ _ "ok" (by simp only [apply, hk, hp, if_true])
          (eff_aln_rowRevComp cx w.cells a r hwf)
      · exact stepAll_unchanged hw "panic" (by simp only [apply, hk, hp, if_false])
    | multi m =>
      by_cases hp : r < m.nrows
      · exact stepAll_setObj hw k _ hk rfl _ _ "ok" (by simp only [apply, hk, hp, if_true])
          (effRows_onRow (fun h l => l.revComp cx h) (rowOp_revComp cx) w.cells m hwf r).multi
      · exact stepAll_unchanged hw "panic" (by simp only [apply, hk, hp, if_false])
    | set m =>
      by_cases hp : r < m.nrows
      · exact stepAll_setObj hw k _ hk rfl _ _ "ok" (by simp only [apply, hk, hp, if_true])
          (effRows_onRow (fun h l => l.revComp cx h) (rowOp_revComp cx) w.cells m hwf r).set
      · exact stepAll_unchanged hw "panic" (by simp only [apply, hk, hp, if_false])

theorem step_all_rowReverse (cx : Ctx) (w : World) (hw : WorldWF w) (k r : Nat) :
    StepAll cx w (.rowReverse k r) := by
  cases hk : w.objs[k]? with
  | none => exact stepAll_unchanged hw "panic" (by simp only [apply, hk])
  | some o =>
    have hwf := hw.obj k o hk
    cases o with
    | lin l => exact stepAll_unchanged hw "panic" (by simp only [apply, hk])
    | aln a =>
      by_cases hp : r < a.rows
      · exact stepAll_setObj hw k _ hk rfl _ _ "ok" (by simp only [apply, hk, hp, if_true])
          (eff_aln_rowReverse w.cells a r hwf)
      · exact stepAll_unchanged hw "panic" (by simp only [apply, hk, hp, if_false])
    | multi m =>
      by_cases hp : r < m.nrows
      · exact stepAll_setObj hw k _ hk rfl _ _ "ok" (by simp only [apply, hk, hp, if_true])
          (effRows_onRow (fun h l => l.reverse h) rowOp_reverse w.cells m hwf r).multi
      · exact stepAll_unchanged hw "panic" (by simp only [apply, hk, hp, if_false])
    | set m =>
      by_cases hp : r < m.nrows
      · exact stepAll_setObj hw k _ hk rfl _ _ "ok" (by simp only [apply, hk, hp, if_true])
          (effRows_onRow (fun h l => l.reverse h) rowOp_reverse w.cells m hwf r).set
      · exact stepAll_unchanged hw "panic" (by simp only [apply, hk, hp, if_false])

theorem step_all_clone (cx : Ctx) (w : World) (hw : WorldWF w) (k : Nat) : StepAll cx w (.clone k) := by
  cases hk : w.objs[k]? with
  | none => exact stepAll_unchanged hw "panic" (by simp only [apply, hk])
  | some o =>
    have hwf := hw.obj k o hk
    cases o with
    | lin l =>
      obtain ⟨carr, cvalid, cgrow, _⟩ := lin_clone_facts cx w.cells l
      exact stepAll_addObj hw rfl _ (.lin (l.clone cx w.cells).2) "ok" (by simp only [apply, hk]) cgrow cvalid
        (fun a ha => by simp only [Obj.arrs, List.mem_singleton] at ha; subst ha; rw [carr]; exact Nat.le_refl _)
    | aln a =>
      obtain ⟨cgrow, cwf, cfresh⟩ := aln_clone_facts cx w.cells a hwf
      exact stepAll_addObj hw rfl _ (.aln (a.clone cx w.cells).2) "ok" (by simp only [apply, hk]) cgrow cwf cfresh
    | multi m =>
      obtain ⟨cgrow, cwf, cfresh⟩ := multi_clone_facts cx w.cells m hwf
      exact stepAll_addObj hw rfl _ (.multi (m.clone cx w.cells).2) "ok" (by simp only [apply, hk]) cgrow cwf
        (fun a ha => by
          simp only [Obj.arrs, List.mem_map] at ha
          obtain ⟨r, hr, rfl⟩ := ha
          exact cfresh r hr)
    | set m => exact stepAll_unchanged hw "panic" (by simp only [apply, hk])

theorem step_all_mkbuf (cx : Ctx) (w : World) (hw : WorldWF w) (cells : List QL) (extra : Nat) :
    StepAll cx w (.mkbuf cells extra) := by
  obtain ⟨oarr, _, osz, _, ogrow, _⟩ := ofList_facts w.cells cells (cells.length + extra)
  unfold StepAll
  have happ : apply cx w (.mkbuf cells extra) =
      ({ w with cells := (w.cells.ofList cells (cells.length + extra) zeroQL).1,
                bufs := w.bufs ++ [(w.cells.ofList cells (cells.length + extra) zeroQL).2] }, "ok") := by
    simp only [apply]
  rw [happ]
  exact hw.addBuf cx _ _ ogrow (by rw [oarr]; exact Nat.le_refl _) (by rw [oarr, osz]; exact Nat.lt_succ_self _)

theorem step_all_mutbuf (cx : Ctx) (w : World) (hw : WorldWF w) (b i : Nat) (c : QL) :
    StepAll cx w (.mutbuf b i c) := by
  cases hb : w.bufs[b]? with
  | none => exact stepAll_unchanged hw "panic" (by simp only [apply, hb])
  | some s =>
    unfold StepAll
    have happ : apply cx w (.mutbuf b i c) = ({ w with cells := w.cells.set s i c }, "ok") := by
      simp only [apply, hb]
    rw [happ]
    exact hw.mutBuf cx b s hb i c

theorem step_all_appendCols (cx : Ctx) (w : World) (hw : WorldWF w) (k : Nat) (bs : List Nat) :
    StepAll cx w (.appendCols k bs) := by
  cases hk : w.objs[k]? with
  | none => exact stepAll_unchanged hw "panic" (by simp only [apply, hk])
  | some o =>
    have hwf := hw.obj k o hk
    cases o with
    | lin l => exact stepAll_unchanged hw "panic" (by simp only [apply, hk])
    | set m => exact stepAll_unchanged hw "panic" (by simp only [apply, hk])
    | aln a =>
      cases hr : a.rows? with
      | none => exact stepAll_unchanged hw "panic" (by simp only [apply, hk, hr])
      | some rows =>
        cases happ : a.appendColumns cx w.cells rows (w.bufCells bs) with
        | none => exact stepAll_unchanged hw "err" (by simp only [apply, hk, hr, happ])
        | some res =>
          obtain ⟨h', a'⟩ := res
          exact stepAll_setObj hw k _ hk rfl h' (.aln a') "ok" (by simp only [apply, hk, hr, happ])
            (eff_aln_appendColumns cx w.cells a hwf rows hr _ h' a' happ)
    | multi m =>
      cases happ : m.appendColumns cx w.cells (w.bufCells bs) with
      | none => exact stepAll_unchanged hw "err" (by simp only [apply, hk, happ])
      | some res =>
        obtain ⟨h', m'⟩ := res
        exact stepAll_setObj hw k _ hk rfl h' (.multi m') "ok" (by simp only [apply, hk, happ])
          (effRows_appendColumns cx w.cells m hwf _ h' m' happ).multi

theorem step_all_appendEach (cx : Ctx) (w : World) (hw : WorldWF w) (k : Nat) (bs : List Nat) :
    StepAll cx w (.appendEach k bs) := by
  cases hk : w.objs[k]? with
  | none => exact stepAll_unchanged hw "panic" (by simp only [apply, hk])
  | some o =>
    have hwf := hw.obj k o hk
    cases o with
    | lin l => exact stepAll_unchanged hw "panic" (by simp only [apply, hk])
    | set m => exact stepAll_unchanged hw "panic" (by simp only [apply, hk])
    | aln a =>
      cases hr : a.rows? with
      | none => exact stepAll_unchanged hw "panic" (by simp only [apply, hk, hr])
      | some rows =>
        cases happ : a.appendEach cx w.cells rows (w.bufCells bs) with
        | none => exact stepAll_unchanged hw "err" (by simp only [apply, hk, hr, happ])
        | some res =>
          obtain ⟨h', a'⟩ := res
          exact stepAll_setObj hw k _ hk rfl h' (.aln a') "ok" (by simp only [apply, hk, hr, happ])
            (eff_aln_appendEach cx w.cells a hwf rows hr _ h' a' happ)
    | multi m =>
      cases happ : m.appendEach cx w.cells (w.bufCells bs) with
      | none => exact stepAll_unchanged hw "err" (by simp only [apply, hk, happ])
      | some res =>
        obtain ⟨h', m'⟩ := res
        exact stepAll_setObj hw k _ hk rfl h' (.multi m') "ok" (by simp only [apply, hk, happ])
          (effRows_appendEach cx w.cells m hwf _ h' m' happ).multi

theorem step_all_add (cx : Ctx) (w : World) (hw : WorldWF w) (k : Nat) (seqs : List SeqSpec) :
    StepAll cx w (.add k seqs) := by
  cases hk : w.objs[k]? with
  | none => exact stepAll_unchanged hw "panic" (by simp only [apply, hk])
  | some o =>
    have hwf := hw.obj k o hk
    cases o with
    | lin l => exact stepAll_unchanged hw "panic" (by simp only [apply, hk])
    | set m => exact stepAll_unchanged hw "panic" (by simp only [apply, hk])
    | aln a =>
      obtain ⟨hg, _, _⟩ := newLins_facts cx w.cells seqs
      exact stepAll_setObj hw k _ hk rfl _ _ "ok" (by simp only [apply, hk])
        (Eff.after_grow hg (eff_aln_add cx (newLins cx w.cells seqs).1 a (hwf.grow hg) (newLins cx w.cells seqs).2))
    | multi m =>
      exact stepAll_setObj hw k _ hk rfl _ _ "ok" (by simp only [apply, hk])
        (effRows_add cx w.cells m hwf seqs).multi

theorem step_all_delete (cx : Ctx) (w : World) (hw : WorldWF w) (k i : Nat) : StepAll cx w (.delete k i) := by
  cases hk : w.objs[k]? with
  | none => exact stepAll_unchanged hw "panic" (by simp only [apply, hk])
  | some o =>
    have hwf := hw.obj k o hk
    cases o with
    | lin l => exact stepAll_unchanged hw "panic" (by simp only [apply, hk])
    | set m => exact stepAll_unchanged hw "panic" (by simp only [apply, hk])
    | aln a =>
      by_cases hp : i < a.rows
      · exact stepAll_setObj hw k _ hk rfl _ _ "ok" (by simp only [apply, hk, hp, if_true])
          (eff_aln_delete w.cells a hwf i hp)
      · exact stepAll_unchanged hw "panic" (by simp only [apply, hk, hp, if_false])
    | multi m =>
      by_cases hp : i < m.nrows
      · exact stepAll_setObj hw k _ hk rfl _ _ "ok" (by simp only [apply, hk, hp, if_true])
          (effRows_delete w.cells m hwf i).multi
      · exact stepAll_unchanged hw "panic" (by simp only [apply, hk, hp, if_false])

theorem step_all_flush (cx : Ctx) (w : World) (hw : WorldWF w) (k wh : Nat) (fill : UInt8) :
    StepAll cx w (.flush k wh fill) := by
  cases hk : w.objs[k]? with
  | none => exact stepAll_unchanged hw "panic" (by simp only [apply, hk])
  | some o =>
    have hwf := hw.obj k o hk
    cases o with
    | lin l => exact stepAll_unchanged hw "panic" (by simp only [apply, hk])
    | set m => exact stepAll_unchanged hw "panic" (by simp only [apply, hk])
    | aln a => exact stepAll_unchanged hw "panic" (by simp only [apply, hk])
    | multi m =>
      exact stepAll_setObj hw k _ hk rfl _ _ "ok" (by simp only [apply, hk])
        (effRows_flush cx w.cells m hwf wh fill).multi

theorem step_all_truncate (cx : Ctx) (w : World) (hw : WorldWF w) (k : Nat) (st en : Int) :
    StepAll cx w (.truncate k st en) := by
  cases hk : w.objs[k]? with
  | none => exact stepAll_unchanged hw "panic" (by simp only [apply, hk])
  | some o =>
    have hwf := hw.obj k o hk
    cases o with
    | lin l => exact stepAll_unchanged hw "panic" (by simp only [apply, hk])
    | set m => exact stepAll_unchanged hw "panic" (by simp only [apply, hk])
    | aln a => exact stepAll_unchanged hw "panic" (by simp only [apply, hk])
    | multi m =>
      exact stepAll_setObj hw k _ hk rfl _ (.multi (m.truncate st en).1)
        (if (m.truncate st en).2 then "ok" else "err") (by simp only [apply, hk])
        (effRows_truncate w.cells m hwf st en).multi

theorem step_all_subseq (cx : Ctx) (w : World) (hw : WorldWF w) (k : Nat) (st en : Int) :
    StepAll cx w (.subseq k st en) := by
  cases hk : w.objs[k]? with
  | none => exact stepAll_unchanged hw "panic" (by simp only [apply, hk])
  | some o =>
    have hwf := hw.obj k o hk
    cases o with
    | lin l => exact stepAll_unchanged hw "panic" (by simp only [apply, hk])
    | set m => exact stepAll_unchanged hw "panic" (by simp only [apply, hk])
    | aln a => exact stepAll_unchanged hw "panic" (by simp only [apply, hk])
    | multi m =>
      obtain ⟨hg, hsome⟩ := multi_subseq_facts cx w.cells m st en
      cases hres : m.subseq cx w.cells st en with
      | mk h' om =>
        rw [hres] at hg hsome
        cases om with
        | none =>
          unfold StepAll
          have happ : apply cx w (.subseq k st en) = ({ w with cells := h' }, "err") := by
            simp only [apply, hk, hres]
          rw [happ]
          exact hw.grow cx h' hg
        | some m' =>
          obtain ⟨cwf, cfresh⟩ := hsome m' rfl
          exact stepAll_addObj hw rfl h' (.multi m') "ok" (by simp only [apply, hk, hres]) hg cwf
            (fun a ha => by
              simp only [Obj.arrs, List.mem_map] at ha
              obtain ⟨r, hr, rfl⟩ := ha
              exact cfresh r hr)

/-- **one operation, any kind of object**: the world stays well formed, and every object the
    operation is not applied to is the same object with the same complete observation -/
theorem step_all (cx : Ctx) (w : World) (hw : WorldWF w) (op : Op) : StepAll cx w op := by
  cases op with
  | revComp k => exact step_all_revComp cx w hw k
  | reverse k => exact step_all_reverse cx w hw k
  | clone k => exact step_all_clone cx w hw k
  | set k r pos c => exact step_all_set cx w hw k r pos c
  | rowRevComp k r => exact step_all_rowRevComp cx w hw k r
  | rowReverse k r => exact step_all_rowReverse cx w hw k r
  | mkbuf cells extra => exact step_all_mkbuf cx w hw cells extra
  | mutbuf b i c => exact step_all_mutbuf cx w hw b i c
  | appendCols k bs => exact step_all_appendCols cx w hw k bs
  | appendEach k bs => exact step_all_appendEach cx w hw k bs
  | add k seqs => exact step_all_add cx w hw k seqs
  | delete k i => exact step_all_delete cx w hw k i
  | flush k wh fill => exact step_all_flush cx w hw k wh fill
  | subseq k st en => exact step_all_subseq cx w hw k st en
  | truncate k st en => exact step_all_truncate cx w hw k st en

/-- every world reached by a history from a well-formed world is well formed -/
theorem runOps_wf (cx : Ctx) (ops : List Op) : ∀ (w : World), WorldWF w → WorldWF (runOps cx w ops) := by
  induction ops with
  | nil => intro w hw; exact hw
  | cons op ops ih => intro w hw; exact ih _ (step_all cx w hw op).1

/-- **frame, all container kinds, all operations**: whatever operations are applied to other
    objects (or to caller buffers), an object stays the same object and its complete observation
    stays the same -/
theorem untouched_all (cx : Ctx) (ops : List Op) : ∀ (w : World), WorldWF w →
    ∀ (j : Nat) (oj : Obj), w.objs[j]? = some oj → (∀ op ∈ ops, op.written ≠ some j) →
    (runOps cx w ops).objs[j]? = some oj ∧
    viewObj cx (runOps cx w ops).cells oj = viewObj cx w.cells oj := by
  induction ops with
  | nil => intro w _ j oj hj _; exact ⟨hj, rfl⟩
  | cons op ops ih =>
    intro w hw j oj hj hnot
    obtain ⟨hw', hoth⟩ := step_all cx w hw op
    obtain ⟨hj', hobs⟩ := hoth j oj (hnot op List.mem_cons_self) hj
    obtain ⟨r1, r2⟩ := ih (apply cx w op).1 hw' j oj hj' (fun o ho => hnot o (List.mem_cons_of_mem _ ho))
    exact ⟨r1, r2.trans hobs⟩

/-! ### the constructors establish `WorldWF` -/

theorem worldWF_empty (h : Cells) : WorldWF ⟨h, [], []⟩ :=
  ⟨fun i o hi => by simp at hi, fun b s hb => by simp at hb, fun i j oi oj _ hi => by simp at hi,
   fun i o b s hi => by simp at hi⟩

theorem worldWF_single (h : Cells) (o : Obj) (hwf : ObjWF h o) : WorldWF ⟨h, [o], []⟩ := by
  refine ⟨?_, fun b s hb => by simp at hb, ?_, fun i o b s _ hb => by simp at hb⟩
  · intro i oi hi
    cases i with
    | zero => simp at hi; subst hi; exact hwf
    | succ n => simp at hi
  · intro i j oi oj hij hi hj
    cases i with
    | zero =>
      cases j with
      | zero => exact (hij rfl).elim
      | succ n => simp at hj
    | succ n => simp at hi

theorem initColsFold_wf (q : Bool) (n : Nat) (h0 : Cells) : ∀ (cols : List (List QL)) (hc : Cells) (fr : List Slice),
    Grow h0 hc → FreshCols h0 hc n fr → (∀ c ∈ cols, c.length = n) →
    FreshCols h0 (cols.foldl (fun (acc : Cells × List Slice) c =>
        ((acc.1.ofList (c.map (Lin.stored q)) c.length zeroQL).1,
         acc.2 ++ [(acc.1.ofList (c.map (Lin.stored q)) c.length zeroQL).2])) (hc, fr)).1 n
      (cols.foldl (fun (acc : Cells × List Slice) c =>
        ((acc.1.ofList (c.map (Lin.stored q)) c.length zeroQL).1,
         acc.2 ++ [(acc.1.ofList (c.map (Lin.stored q)) c.length zeroQL).2])) (hc, fr)).2 := by
  intro cols
  induction cols with
  | nil => intro hc fr _ hf _; exact hf
  | cons c cs ih =>
    intro hc fr hg hf hlen
    obtain ⟨hf', hg'⟩ := hf.push hg (c.map (Lin.stored q)) c.length
      (by rw [List.length_map]; exact hlen c List.mem_cons_self)
    simp only [List.foldl_cons]
    exact ih _ _ hg' hf' (fun x hx => hlen x (List.mem_cons_of_mem _ hx))

theorem initColsFold_length (q : Bool) : ∀ (cols : List (List QL)) (hc : Cells) (fr : List Slice),
    (cols.foldl (fun (acc : Cells × List Slice) c =>
        ((acc.1.ofList (c.map (Lin.stored q)) c.length zeroQL).1,
         acc.2 ++ [(acc.1.ofList (c.map (Lin.stored q)) c.length zeroQL).2])) (hc, fr)).2.length
      = fr.length + cols.length := by
  intro cols
  induction cols with
  | nil => intro hc fr; rfl
  | cons c cs ih =>
    intro hc fr
    simp only [List.foldl_cons]
    rw [ih]; simp; omega

theorem transposeRows_length (rows : List (List QL)) : ∀ c ∈ transposeRows rows, c.length = rows.length := by
  intro c hc
  cases rows with
  | nil => simp [transposeRows] at hc
  | cons r0 rest =>
    simp only [transposeRows, List.mem_map] at hc
    obtain ⟨i, _, rfl⟩ := hc
    simp

/-- **the initial object of every history is well formed**, whatever its kind: `linear.NewSeq`,
    `NewQSeq` copy the caller's letters; the harness hands `alignment.NewSeq/NewQSeq` one new
    slice per column -/
theorem initWorld_wf (cx : Ctx) (kind : String) (strand : Int) (rows : List SeqSpec) :
    WorldWF (initWorld cx kind strand rows) := by
  unfold initWorld
  split
  · -- lin / qlin
    cases rows with
    | nil => exact worldWF_empty _
    | cons sp rest => exact worldWF_single _ (.lin _) (newLin_capValid cx Heap.empty _)
  · cases rows with
    | nil => exact worldWF_empty _
    | cons sp rest => exact worldWF_single _ (.lin _) (newLin_capValid cx Heap.empty _)
  · -- aln
    have hf := initColsFold_wf ("aln" == "qaln") rows.length (Heap.empty : Cells)
      (transposeRows (rows.map (·.cells))) Heap.empty [] (Grow.refl _) (FreshCols.nil _ _ _)
      (fun c hc => by have := transposeRows_length _ c hc; simpa using this)
    refine worldWF_single _ (.aln _) ⟨rfl, rows.length, ⟨⟨fun c hc => (hf.1 c hc).1, hf.2⟩, fun c hc => (hf.1 c hc).2.1⟩, ?_⟩
    intro hne
    have hl := initColsFold_length ("aln" == "qaln") (transposeRows (rows.map (·.cells))) Heap.empty []
    have hcne : (transposeRows (rows.map (·.cells))).isEmpty = false := by
      cases hc : transposeRows (rows.map (·.cells)) with
      | nil => exact (hne (List.length_eq_zero_iff.mp (hl.trans (by rw [hc]; rfl)))).elim
      | cons _ _ => rfl
    show (if (transposeRows (rows.map (·.cells))).isEmpty then [] else rows.map fun sp => (⟨sp.name, 0, sp.strand⟩ : Ann)).length = rows.length
    rw [hcne]; simp
  · have hf := initColsFold_wf ("qaln" == "qaln") rows.length (Heap.empty : Cells)
      (transposeRows (rows.map (·.cells))) Heap.empty [] (Grow.refl _) (FreshCols.nil _ _ _)
      (fun c hc => by have := transposeRows_length _ c hc; simpa using this)
    refine worldWF_single _ (.aln _) ⟨rfl, rows.length, ⟨⟨fun c hc => (hf.1 c hc).1, hf.2⟩, fun c hc => (hf.1 c hc).2.1⟩, ?_⟩
    intro hne
    have hl := initColsFold_length ("qaln" == "qaln") (transposeRows (rows.map (·.cells))) Heap.empty []
    have hcne : (transposeRows (rows.map (·.cells))).isEmpty = false := by
      cases hc : transposeRows (rows.map (·.cells)) with
      | nil => exact (hne (List.length_eq_zero_iff.mp (hl.trans (by rw [hc]; rfl)))).elim
      | cons _ _ => rfl
    show (if (transposeRows (rows.map (·.cells))).isEmpty then [] else rows.map fun sp => (⟨sp.name, 0, sp.strand⟩ : Ann)).length = rows.length
    rw [hcne]; simp
  · exact worldWF_single _ (.multi _) (newLins_rowsCapWF cx Heap.empty rows)
  · exact worldWF_single _ (.set _) (newLins_rowsCapWF cx Heap.empty rows)
  · exact worldWF_empty _

/-- **every state a history reaches is well formed** -/
theorem reach_wf (cx : Ctx) (kind : String) (strand : Int) (rows : List SeqSpec) (ops : List Op) :
    WorldWF (runOps cx (initWorld cx kind strand rows) ops) :=
  runOps_wf cx ops _ (initWorld_wf cx kind strand rows)

/-! ### right after `Clone` the copy is observed equal to the original (complete observation) -/

theorem Lin.at?_eq_letters (h : Cells) (l : Lin) (pos : Int) :
    l.at? h pos = if pos < l.off then none else (l.letters h)[(pos - l.off).toNat]? := by
  simp only [Lin.at?, Lin.letters, List.getElem?_map, Heap.get?_eq_read]

theorem linRowV_fields {h h' : Cells} {r c : Lin} (e : linRowV h' c = linRowV h r) :
    c.off = r.off ∧ c.«end» = r.«end» ∧ c.letters h' = r.letters h := by
  simp only [linRowV, RowV.mk.injEq] at e
  exact ⟨e.1, e.2.1, e.2.2.2.2.2⟩

theorem linRowV_at? {h h' : Cells} {r c : Lin} (e : linRowV h' c = linRowV h r) (pos : Int) :
    c.at? h' pos = r.at? h pos := by
  obtain ⟨e1, _, e3⟩ := linRowV_fields e
  rw [Lin.at?_eq_letters, Lin.at?_eq_letters, e1, e3]

theorem linRowV_covers {h h' : Cells} {r c : Lin} (e : linRowV h' c = linRowV h r) (pos : Int) :
    Multi.covers c pos = Multi.covers r pos := by
  obtain ⟨e1, e2, _⟩ := linRowV_fields e
  unfold Multi.covers Lin.start
  rw [e1, e2]

theorem foldl_all2 {α β γ : Type} {R : α → β → Prop} (f : γ → α → γ) (g : γ → β → γ) {as : List α} {bs : List β}
    (hall : All2 R as bs) (hfg : ∀ acc a b, R a b → f acc a = g acc b) (init : γ) :
    as.foldl f init = bs.foldl g init := by
  induction hall generalizing init with
  | nil => rfl
  | cons hab _ ih => simp only [List.foldl_cons, hfg _ _ _ hab]; exact ih _

/-- the observation of a multi is a function of the observations of its rows -/
theorem viewObj_multi_of_all2 (cx : Ctx) {h h' : Cells} {rows rows' : List Lin}
    (hall : All2 (fun r c => linRowV h' c = linRowV h r) rows rows') :
    viewObj cx h' (.multi ⟨rows'⟩) = viewObj cx h (.multi ⟨rows⟩) := by
  have hstart : (⟨rows'⟩ : Multi).start = (⟨rows⟩ : Multi).start := by
    simp only [Multi.start]
    exact (foldl_all2 _ _ hall (fun acc r c e => by
      have := (linRowV_fields e).1; unfold Lin.start; rw [this]) _).symm
  have hend : (⟨rows'⟩ : Multi).«end» = (⟨rows⟩ : Multi).«end» := by
    simp only [Multi.«end»]
    exact (foldl_all2 _ _ hall (fun acc r c e => by
      have := (linRowV_fields e).2.1; rw [this]) _).symm
  have hcol : ∀ p fill, (⟨rows'⟩ : Multi).column cx h' p fill = (⟨rows⟩ : Multi).column cx h p fill := by
    intro p fill
    simp only [Multi.column]
    exact (foldl_all2 _ _ hall (fun acc r c e => by
      simp only [linRowV_covers e, linRowV_at? e]) _).symm
  have hcolQ : ∀ p fill, (⟨rows'⟩ : Multi).columnQL cx h' p fill = (⟨rows⟩ : Multi).columnQL cx h p fill := by
    intro p fill
    simp only [Multi.columnQL]
    exact (foldl_all2 _ _ hall (fun acc r c e => by
      simp only [linRowV_covers e, linRowV_at? e]) _).symm
  have hrows : rows'.map (linRowV h') = rows.map (linRowV h) :=
    (hall.map_eq (linRowV h) (linRowV h') fun a b hab => hab.symm).symm
  have hn : rows'.length = rows.length := hall.length_eq.symm
  simp only [viewObj, hstart, hend, hcol, hcolQ, hrows, Multi.nrows, Multi.len, hn]

/-- the observation of a column-stored alignment is a function of what its columns read -/
theorem viewObj_aln_of_all2 (cx : Ctx) {h h' : Cells} (a : Aln) (cols' : List Slice)
    (hall : All2 (fun c c' => h'.read c' = h.read c ∧ c'.len = c.len) a.cols cols') :
    viewObj cx h' (.aln { a with cols := cols' }) = viewObj cx h (.aln a) := by
  have hlen : cols'.length = a.cols.length := hall.length_eq.symm
  have hget : ∀ i : Nat, (cols'[i]?).map h'.read = (a.cols[i]?).map h.read := by
    intro i
    cases hi : a.cols[i]? with
    | none =>
      have : cols'[i]? = none := by
        rw [List.getElem?_eq_none_iff] at hi ⊢; omega
      rw [this]; rfl
    | some c =>
      have hil : i < cols'.length := by rw [hlen]; exact (List.getElem?_eq_some_iff.mp hi).1
      rw [List.getElem?_eq_getElem hil]
      simp only [Option.map_some]
      rw [(hall.get i c _ hi (List.getElem?_eq_getElem hil)).1]
  have hrows : ({ a with cols := cols' } : Aln).rows = a.rows := by
    simp only [Aln.rows, Aln.rows?]
    generalize a.cols = cols0 at hall
    cases hall with
    | nil => rfl
    | cons hab _ => simp only [List.head?_cons, Option.map_some, Option.getD_some]; exact hab.2
  have hcol : ({ a with cols := cols' } : Aln).column cx h' = a.column cx h := by
    funext i
    simp only [Aln.column]
    have := hget i
    cases hc' : cols'[i]? with
    | none => rw [hc'] at this; cases hc : a.cols[i]? with
      | none => rfl
      | some c => rw [hc] at this; simp at this
    | some c' => rw [hc'] at this; cases hc : a.cols[i]? with
      | none => rw [hc] at this; simp at this
      | some c => rw [hc] at this; simp only [Option.map_some, Option.some.injEq] at this; simp only [this]
  have hcolQ : ({ a with cols := cols' } : Aln).columnQL h' = a.columnQL h := by
    funext i
    simp only [Aln.columnQL]
    have := hget i
    cases hc' : cols'[i]? with
    | none => rw [hc'] at this; cases hc : a.cols[i]? with
      | none => rfl
      | some c => rw [hc] at this; simp at this
    | some c' => rw [hc'] at this; cases hc : a.cols[i]? with
      | none => rw [hc] at this; simp at this
      | some c => rw [hc] at this; simp only [Option.map_some, Option.some.injEq] at this; simp only [this]
  have hrow : ∀ r, ({ a with cols := cols' } : Aln).rowLetters h' r = a.rowLetters h r := by
    intro r
    simp only [Aln.rowLetters]
    refine (hall.map_eq _ _ fun c c' hcc => ?_).symm
    simp only [Heap.get, Heap.get?_eq_read, hcc.1]
  simp only [viewObj, hrows, hcol, hcolQ, hrow, hlen, Aln.len, Aln.start, Aln.«end»]

/-- **right after `Clone` the copy is observed equal to the original**: the complete observation,
    for linear sequences, multis and column-stored alignments -/
theorem clone_view_equal (cx : Ctx) (w : World) (hw : WorldWF w) (k : Nat) (o : Obj)
    (hk : w.objs[k]? = some o) (hclonable : ∀ m, o ≠ .set m) :
    ∃ c, (apply cx w (.clone k)).1.objs[w.objs.length]? = some c ∧
      viewObj cx (apply cx w (.clone k)).1.cells c = viewObj cx w.cells o := by
  have hwf := hw.obj k o hk
  cases o with
  | lin l =>
    refine ⟨.lin (l.clone cx w.cells).2, by simp [apply, hk], ?_⟩
    have hv : l.Valid w.cells := CapValid.toValid hwf
    obtain ⟨_, _, _, _, _, ho, hs, hn, hq, hlen⟩ := Lin.clone_fresh cx w.cells l hv
    simp only [apply, hk, viewObj, linRowV_clone cx w.cells l hv, Lin.start, Lin.«end», Lin.len, ho, hs, hq, hlen]
  | aln a =>
    obtain ⟨_, n, hc, _⟩ := hwf
    refine ⟨.aln (a.clone cx w.cells).2, by simp [apply, hk], ?_⟩
    obtain ⟨news, h2, hall, _, _, _⟩ := cloneColsFold_spec cx n a.cols w.cells [] hc.toColsWF.1
    simp only [apply, hk]
    rw [Aln.clone_eq]
    simp only [List.nil_append] at h2
    simp only [h2]
    exact viewObj_aln_of_all2 cx a news (hall.imp_mem fun c c' hm hcc =>
      ⟨hcc.1, by rw [hcc.2.2.2.2, hc.2 c hm]⟩)
  | multi m =>
    refine ⟨.multi (m.clone cx w.cells).2, by simp [apply, hk], ?_⟩
    obtain ⟨cs, c2, call, _, _, _⟩ := cloneFold_spec cx m.rows w.cells [] (fun r hr => (hwf.1 r hr).toValid)
    simp only [apply, hk]
    rw [Multi.clone_eq]
    simp only [List.nil_append] at c2
    simp only [c2]
    exact viewObj_multi_of_all2 cx (call.imp fun r c hrc => hrc.1)
  | set m => exact (hclonable m rfl).elim

end Biogo.Containers
