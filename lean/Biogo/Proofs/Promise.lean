/-
Invariants of the repaired Promise protocol (`Biogo.Promise.sys c` with `c.fixed = true`) for an
immutable promise without relay, any number of concurrent Fulfill / Fail / Wait calls with any
values (nil included), and every schedule.
-/
import Biogo.Model.Promise

namespace Biogo.Promise
open Biogo.LTS

/-! ### sequential facts used by the invariant -/

theorem fulfill_unset' (f : Flags) (v : Option Nat) :
    fulfill f none v = (some ⟨v, none⟩, none) := by
  cases f with | mk m r l => cases m <;> cases r <;> cases l <;> rfl

theorem fulfill_settled (f : Flags) (hm : f.mutable = false) (hr : f.relay = false) (r0 : Res)
    (v : Option Nat) :
    ∃ e, fulfill f (some r0) v = (some r0, some e) := by
  cases f with | mk m r l =>
  simp at hm hr; subst hm; subst hr
  cases r0 with | mk val err =>
  cases err with
  | some e => exact ⟨.failedPromise, by simp [fulfill, messageState]⟩
  | none => exact ⟨.alreadySet, by simp [fulfill, messageState]⟩

theorem fail_unset (v : Option Nat) (e : Option ErrV) : fail none v e = (some ⟨v, e⟩, true) := by
  cases v <;> simp [fail, messageState, zero]

theorem fail_set (r0 : Res) (v : Option Nat) (e : Option ErrV) :
    fail (some r0) v e = (some r0, false) := by
  simp [fail, messageState]

theorem fail_settled (r0 : Res) (_hs : r0.settled = true) (v : Option Nat) (e : Option ErrV) :
    fail (some r0) v e = (some r0, false) := fail_set r0 v e

/-! ### the invariant -/

/-- what actor state is compatible with the promise being settled to `r0` -/
def consistent (r0 : Res) : Call → APc → Bool
  | _, .start => true
  | .fulfill v, .done (.ferr none) => r0 == ⟨v, none⟩
  | .fulfill _, .done (.ferr (some _)) => true
  | .fail v e, .done (.bool true) => r0 == ⟨v, e⟩
  | .fail _ _, .done (.bool false) => true
  | .wait, .borrowed r => r == r0
  | .wait, .done (.res r) => r == r0
  | _, _ => false

structure Inv (c : Cfg) (s : St) : Prop where
  len : s.pcs.length = c.calls.length
  bor : ∀ (i : Nat) (r : Res), s.pcs[i]? = some (.borrowed r) → s.mu = some i ∧ s.box = none
  mu_bor : ∀ (i : Nat), s.mu = some i → ∃ r, s.pcs[i]? = some (.borrowed r)
  unset : cur s = none → ∀ (i : Nat) (pc : APc), s.pcs[i]? = some pc → pc = APc.start
  set_ : ∀ r0, cur s = some r0 → s.pcs.countP APc.isWin = 1 ∧
      ∀ (i : Nat) (call : Call) (pc : APc), c.calls[i]? = some call → s.pcs[i]? = some pc → consistent r0 call pc = true

structure Scope (c : Cfg) : Prop where
  fixed : c.fixed = true
  immutable : c.flags.mutable = false
  norelay : c.flags.relay = false
  calls : ∀ call ∈ c.calls, call.inScope = true

theorem countP_all_start (pcs : List APc) (h : ∀ (i : Nat) (pc : APc), pcs[i]? = some pc → pc = APc.start) :
    pcs.countP APc.isWin = 0 := by
  rw [List.countP_eq_zero]
  intro pc hmem
  obtain ⟨i, hi, hget⟩ := List.getElem_of_mem hmem
  have := h i pc (by simp [hi, hget])
  subst this; simp [APc.isWin]

theorem inv_init (c : Cfg) : Inv c (init c) := by
  constructor
  · simp [init]
  · intro i r h; simp [init, List.getElem?_replicate] at h
  · intro i h; simp [init] at h
  · intro _ i pc h
    simp [init, List.getElem?_replicate] at h
    exact h.2.symm
  · intro r0 h; simp [init, cur] at h

variable {c : Cfg} {s s' : St} {i : Nat}

theorem cur_of_box {r : Res} (h : s.box = some r) : cur s = some r := by simp [cur, h]

theorem cur_of_borrowed {r : Res} (hbox : s.box = none) (hmu : s.mu = some i)
    (hpc : s.pcs[i]? = some (.borrowed r)) : cur s = some r := by simp [cur, hbox, hmu, hpc]

theorem cur_none_of (hbox : s.box = none) (hmu : s.mu = none) : cur s = none := by
  simp [cur, hbox, hmu]

/-- Wait, first step: lock, take the message -/
theorem inv_wait_take (hI : Inv c s) (hcall : c.calls[i]? = some .wait) (hpc : s.pcs[i]? = some .start)
    {r : Res} (hmu : s.mu = none) (hbox : s.box = some r) :
    Inv c { box := none, mu := some i, pcs := s.pcs.set i (.borrowed r) } := by
  have hlt : i < s.pcs.length := by
    rcases Nat.lt_or_ge i s.pcs.length with h | h
    · exact h
    · rw [List.getElem?_eq_none h] at hpc; cases hpc
  have hcur : cur s = some r := cur_of_box hbox
  obtain ⟨hwin, hcons⟩ := hI.set_ r hcur
  have hcur' : cur ({ box := none, mu := some i, pcs := s.pcs.set i (.borrowed r) } : St) = some r := by
    simp [cur, hlt]
  constructor
  · simp [hI.len]
  · intro j r' hj
    simp only [List.getElem?_set] at hj
    split at hj
    · rename_i hij; subst hij; simp
    · have := (hI.bor j r' hj).1; simp [hmu] at this
  · intro j hj
    simp at hj; subst hj
    exact ⟨r, by simp [hlt]⟩
  · intro hn; rw [hcur'] at hn; cases hn
  · intro r0 hr0
    rw [hcur'] at hr0; cases hr0
    refine ⟨?_, ?_⟩
    · have := countP_set APc.isWin s.pcs i _ (.borrowed r) hpc
      simp [APc.isWin] at this
      show List.countP APc.isWin (s.pcs.set i (.borrowed r)) = 1
      omega
    · intro j call pc hc hj
      simp only [List.getElem?_set] at hj
      split at hj
      · rename_i hij; subst hij
        simp at hj; subst hj
        rw [hcall] at hc; cases hc
        simp [consistent]
      · exact hcons j call pc hc hj

theorem lt_of_get {pc : APc} (hpc : s.pcs[i]? = some pc) : i < s.pcs.length := by
  rcases Nat.lt_or_ge i s.pcs.length with h | h
  · exact h
  · rw [List.getElem?_eq_none h] at hpc; cases hpc

/-- Wait, second step: put the message back, unlock -/
theorem inv_wait_put (hI : Inv c s) (hcall : c.calls[i]? = some .wait) {r : Res}
    (hpc : s.pcs[i]? = some (.borrowed r)) :
    Inv c { box := some r, mu := none, pcs := s.pcs.set i (.done (.res r)) } := by
  have hlt := lt_of_get hpc
  obtain ⟨hmu, hbox⟩ := hI.bor i r hpc
  have hcur : cur s = some r := cur_of_borrowed hbox hmu hpc
  obtain ⟨hwin, hcons⟩ := hI.set_ r hcur
  constructor
  · simp [hI.len]
  · intro j r' hj
    simp only [List.getElem?_set] at hj
    split at hj
    · simp at hj
    · rename_i hij
      have := (hI.bor j r' hj).1
      rw [hmu] at this; cases this; exact absurd rfl hij
  · intro j hj; simp at hj
  · intro hn; simp [cur] at hn
  · intro r0 hr0
    simp [cur] at hr0; subst hr0
    refine ⟨?_, ?_⟩
    · have := countP_set APc.isWin s.pcs i _ (.done (.res r)) hpc
      simp [APc.isWin] at this
      show List.countP APc.isWin (s.pcs.set i (.done (.res r))) = 1
      omega
    · intro j call pc hc hj
      simp only [List.getElem?_set] at hj
      split at hj
      · rename_i hij; subst hij
        simp at hj; subst hj
        rw [hcall] at hc; cases hc
        simp [consistent]
      · exact hcons j call pc hc hj

/-- the first successful Fulfill / Fail -/
theorem inv_set_first (hI : Inv c s) {call : Call} (hcall : c.calls[i]? = some call)
    (hpc : s.pcs[i]? = some .start) (hmu : s.mu = none) (hbox : s.box = none)
    (r1 : Res) (ret : Ret) (hw : (APc.done ret).isWin = true)
    (hc : consistent r1 call (.done ret) = true) :
    Inv c { s with box := some r1, pcs := s.pcs.set i (.done ret) } := by
  have hlt := lt_of_get hpc
  have hall := hI.unset (cur_none_of hbox hmu)
  constructor
  · simp [hI.len]
  · intro j r' hj
    simp only [List.getElem?_set] at hj
    split at hj
    · simp at hj
    · have := hall j _ hj; cases this
  · intro j hj; simp [hmu] at hj
  · intro hn; simp [cur] at hn
  · intro r0 hr0
    simp [cur] at hr0; subst hr0
    refine ⟨?_, ?_⟩
    · have := countP_set APc.isWin s.pcs i _ (.done ret) hpc
      have h0 := countP_all_start s.pcs hall
      rw [hw] at this
      simp [APc.isWin] at this
      show List.countP APc.isWin (s.pcs.set i (.done ret)) = 1
      omega
    · intro j call' pc hc' hj
      simp only [List.getElem?_set] at hj
      split at hj
      · rename_i hij; subst hij
        simp at hj; subst hj
        rw [hcall] at hc'; cases hc'
        exact hc
      · have := hall j _ hj; subst this
        cases call' <;> rfl

/-- a Fulfill / Fail on a settled promise: reports failure, changes nothing -/
theorem inv_set_later (hI : Inv c s) {call : Call} (hcall : c.calls[i]? = some call)
    (hpc : s.pcs[i]? = some .start) (hmu : s.mu = none) {r0 : Res} (hbox : s.box = some r0)
    (ret : Ret) (hw : (APc.done ret).isWin = false)
    (hc : consistent r0 call (.done ret) = true) :
    Inv c { s with box := some r0, pcs := s.pcs.set i (.done ret) } := by
  have hlt := lt_of_get hpc
  obtain ⟨hwin, hcons⟩ := hI.set_ r0 (cur_of_box hbox)
  constructor
  · simp [hI.len]
  · intro j r' hj
    simp only [List.getElem?_set] at hj
    split at hj
    · simp at hj
    · have := (hI.bor j r' hj).1; simp [hmu] at this
  · intro j hj; simp [hmu] at hj
  · intro hn; simp [cur] at hn
  · intro r1 hr1
    simp [cur] at hr1; subst hr1
    refine ⟨?_, ?_⟩
    · have := countP_set APc.isWin s.pcs i _ (.done ret) hpc
      rw [hw] at this
      simp [APc.isWin] at this
      show List.countP APc.isWin (s.pcs.set i (.done ret)) = 1
      omega
    · intro j call' pc hc' hj
      simp only [List.getElem?_set] at hj
      split at hj
      · rename_i hij; subst hij
        simp at hj; subst hj
        rw [hcall] at hc'; cases hc'
        exact hc
      · exact hcons j call' pc hc' hj

theorem inv_step (hS : Scope c) (hI : Inv c s) (h : step c s i = some s') : Inv c s' := by
  have hfix := hS.fixed
  cases hcall : c.calls[i]? with
  | none => simp [step, hcall] at h
  | some call =>
    have hscope : call.inScope = true := hS.calls call (List.mem_of_getElem? hcall)
    cases hpc : s.pcs[i]? with
    | none => simp [step, hcall, hpc] at h
    | some pc =>
      cases call with
      | wait =>
        cases pc with
        | start =>
          simp only [step, hcall, hpc, hfix, if_true] at h
          cases hmu : s.mu <;> cases hbox : s.box <;> simp [hmu, hbox] at h
          subst h
          exact inv_wait_take hI hcall hpc hmu hbox
        | borrowed r =>
          simp only [step, hcall, hpc, hfix, if_true] at h
          cases h
          exact inv_wait_put hI hcall hpc
        | done ret => simp [step, hcall, hpc] at h
      | fulfill v =>
        cases pc with
        | start =>
          simp only [step, hcall, hpc] at h
          cases hmu : s.mu with
          | some j => simp [hmu] at h
          | none =>
            simp only [hmu, atomicCall] at h
            cases hbox : s.box with
            | none =>
              rw [hbox, fulfill_unset'] at h
              cases h
              have key := inv_set_first hI hcall hpc hmu hbox ⟨v, none⟩ (.ferr none) rfl (by simp [consistent])
              rw [hmu] at key; exact key
            | some r0 =>
              obtain ⟨e, he⟩ := fulfill_settled c.flags hS.immutable hS.norelay r0 v
              rw [hbox, he] at h
              cases h
              have key := inv_set_later hI hcall hpc hmu hbox (.ferr (some e)) rfl rfl
              rw [hmu] at key; exact key
        | borrowed r => simp [step, hcall, hpc] at h
        | done ret => simp [step, hcall, hpc] at h
      | fail v e =>
        cases pc with
        | start =>
          simp only [step, hcall, hpc] at h
          cases hmu : s.mu with
          | some j => simp [hmu] at h
          | none =>
            simp only [hmu, atomicCall] at h
            cases hbox : s.box with
            | none =>
              rw [hbox, fail_unset] at h
              cases h
              have key := inv_set_first hI hcall hpc hmu hbox ⟨v, e⟩ (.bool true) rfl (by simp [consistent])
              rw [hmu] at key; exact key
            | some r0 =>
              rw [hbox, fail_set r0] at h
              cases h
              have key := inv_set_later hI hcall hpc hmu hbox (.bool false) rfl rfl
              rw [hmu] at key; exact key
        | borrowed r => simp [step, hcall, hpc] at h
        | done ret => simp [step, hcall, hpc] at h
      | recover v => simp [Call.inScope] at hscope
      | brk => simp [Call.inScope] at hscope

theorem inv_reach (hS : Scope c) : ∀ s, Reach (sys c) s → Inv c s :=
  inv_induction (S := sys c) (Inv c) (inv_init c) (fun _ _ _ hI h => inv_step hS hI h)

/-! ### every step moves exactly one actor forward (any flags, any calls, both protocols) -/

def prank : APc → Nat
  | .start => 2 | .borrowed _ => 1 | .done _ => 0

def pmu (s : St) : Nat := (s.pcs.map prank).sum

theorem step_pcs (h : step c s i = some s') :
    ∃ pc pc', s.pcs[i]? = some pc ∧ s'.pcs = s.pcs.set i pc' ∧ prank pc' < prank pc := by
  cases hcall : c.calls[i]? with
  | none => simp [step, hcall] at h
  | some call =>
    cases hpc : s.pcs[i]? with
    | none => simp [step, hcall, hpc] at h
    | some pc =>
      refine ⟨pc, ?_⟩
      cases pc with
      | done ret => cases call <;> simp [step, hcall, hpc] at h
      | borrowed r =>
        cases call <;> simp [step, hcall, hpc] at h
        cases hf : c.fixed
        · simp [hf] at h
          split at h
          · cases h; exact ⟨_, rfl, rfl, by simp [prank]⟩
          · cases h
        · simp [hf] at h
          cases h; exact ⟨_, rfl, rfl, by simp [prank]⟩
      | start =>
        cases call with
        | wait =>
          simp only [step, hcall, hpc] at h
          cases hf : c.fixed
          · simp [hf] at h
            split at h
            · cases h; exact ⟨_, rfl, rfl, by simp [prank]⟩
            · cases h
          · simp [hf] at h
            split at h
            · cases h; exact ⟨_, rfl, rfl, by simp [prank]⟩
            · cases h
        | fulfill v =>
          simp only [step, hcall, hpc] at h
          split at h
          · cases h; exact ⟨_, rfl, rfl, by simp [prank]⟩
          · cases h
        | fail v e =>
          simp only [step, hcall, hpc] at h
          split at h
          · cases h; exact ⟨_, rfl, rfl, by simp [prank]⟩
          · cases h
        | recover v =>
          simp only [step, hcall, hpc] at h
          split at h
          · cases h; exact ⟨_, rfl, rfl, by simp [prank]⟩
          · cases h
        | brk =>
          simp only [step, hcall, hpc] at h
          split at h
          · cases h; exact ⟨_, rfl, rfl, by simp [prank]⟩
          · cases h

theorem sum_map_set (f : APc → Nat) (l : List APc) (i : Nat) (a b : APc) (h : l[i]? = some a) :
    ((l.set i b).map f).sum + f a = (l.map f).sum + f b := by
  induction l generalizing i with
  | nil => simp at h
  | cons x xs ih =>
    cases i with
    | zero => simp at h; subst h; simp; omega
    | succ n => simp at h; have := ih n h; simp at this ⊢; omega

/-- every step of either protocol decreases the variant: all schedules are finite -/
theorem pmu_step (h : step c s i = some s') : pmu s' < pmu s := by
  obtain ⟨pc, pc', hget, hset, hlt⟩ := step_pcs h
  have := sum_map_set prank s.pcs i pc pc' hget
  simp only [pmu, hset]; omega

/-- finished calls stay finished, with the same return value -/
theorem step_done_stable (h : step c s i = some s') {j : Nat} {ret : Ret}
    (hj : s.pcs[j]? = some (.done ret)) : s'.pcs[j]? = some (.done ret) := by
  obtain ⟨pc, pc', hget, hset, hlt⟩ := step_pcs h
  rw [hset, List.getElem?_set]
  split
  · rename_i hij; subst hij
    rw [hget] at hj; cases hj; simp [prank] at hlt
  · exact hj

theorem reachFrom_done_stable {s₀ s₁ : St} (h : ReachFrom (sys c) s₀ s₁) {j : Nat} {ret : Ret}
    (hj : s₀.pcs[j]? = some (.done ret)) : s₁.pcs[j]? = some (.done ret) := by
  induction h with
  | refl => exact hj
  | step _ hs ih => exact step_done_stable hs ih

/-! ### the settled value never changes -/

theorem exists_winner (hI : Inv c s) {r0 : Res} (hcur : cur s = some r0) :
    ∃ (w : Nat) (call : Call) (ret : Ret), c.calls[w]? = some call ∧ s.pcs[w]? = some (.done ret) ∧
      (APc.done ret).isWin = true ∧ consistent r0 call (.done ret) = true := by
  obtain ⟨hwin, hcons⟩ := hI.set_ r0 hcur
  have hpos : 0 < s.pcs.countP APc.isWin := by omega
  rw [List.countP_pos_iff] at hpos
  obtain ⟨pc, hmem, hw⟩ := hpos
  obtain ⟨w, hw_lt, hget⟩ := List.getElem_of_mem hmem
  have hget' : s.pcs[w]? = some pc := by simp [hw_lt, hget]
  have hlt2 : w < c.calls.length := by rw [← hI.len]; exact hw_lt
  have hcall : c.calls[w]? = some c.calls[w] := by simp [hlt2]
  cases pc with
  | start => simp [APc.isWin] at hw
  | borrowed r => simp [APc.isWin] at hw
  | done ret => exact ⟨w, _, ret, hcall, hget', hw, hcons w _ _ hcall hget'⟩

/-- a winning return value determines the settled Result -/
theorem winner_determines {r0 r1 : Res} {call : Call} {ret : Ret}
    (hw : (APc.done ret).isWin = true)
    (h0 : consistent r0 call (.done ret) = true) (h1 : consistent r1 call (.done ret) = true) :
    r0 = r1 := by
  cases call <;> cases ret <;> simp [consistent, APc.isWin] at hw h0 h1
  all_goals (first | (rename_i e; cases e <;> simp_all) | (rename_i b; cases b <;> simp_all) | simp_all)

theorem cur_stable {s₀ s₁ : St} (hI0 : Inv c s₀) (hI1 : Inv c s₁) (h : ReachFrom (sys c) s₀ s₁)
    {r0 : Res} (hcur : cur s₀ = some r0) : cur s₁ = some r0 := by
  obtain ⟨w, call, ret, hcall, hpc, hwin, hcons⟩ := exists_winner hI0 hcur
  have hpc1 := reachFrom_done_stable h hpc
  cases hc1 : cur s₁ with
  | none => have := hI1.unset hc1 w _ hpc1; cases this
  | some r1 =>
    obtain ⟨_, hcons1⟩ := hI1.set_ r1 hc1
    have := winner_determines hwin hcons (hcons1 w call _ hcall hpc1)
    rw [this]

/-! ### no deadlock -/

theorem borrowed_is_wait (hI : Inv c s) {r : Res} (hpc : s.pcs[i]? = some (.borrowed r)) :
    c.calls[i]? = some .wait := by
  obtain ⟨hmu, hbox⟩ := hI.bor i r hpc
  obtain ⟨_, hcons⟩ := hI.set_ r (cur_of_borrowed hbox hmu hpc)
  have hlt : i < c.calls.length := by rw [← hI.len]; exact lt_of_get hpc
  have hcall : c.calls[i]? = some c.calls[i] := by simp [hlt]
  have := hcons i _ _ hcall hpc
  rw [hcall]
  cases hc : c.calls[i] <;> simp [hc, consistent] at this ⊢

/-- If some call is unfinished and at least one Fulfill/Fail call exists, some actor can move. -/
theorem can_move (hS : Scope c) (hI : Inv c s)
    (hsetter : ∃ (k : Nat) (call : Call), c.calls[k]? = some call ∧ call.isSetter = true)
    (hnd : allDone s = false) : ∃ i, (step c s i).isSome = true := by
  have hfix := hS.fixed
  cases hmu : s.mu with
  | some j =>
    obtain ⟨r, hpc⟩ := hI.mu_bor j hmu
    have hcall := borrowed_is_wait hI hpc
    exact ⟨j, by simp [step, hcall, hpc, hfix]⟩
  | none =>
    cases hbox : s.box with
    | none =>
      obtain ⟨k, call, hcall, hset⟩ := hsetter
      have hall := hI.unset (cur_none_of hbox hmu)
      have hlt : k < s.pcs.length := by
        rw [hI.len]
        rcases Nat.lt_or_ge k c.calls.length with h | h
        · exact h
        · rw [List.getElem?_eq_none h] at hcall; cases hcall
      have hpc : s.pcs[k]? = some .start := by
        have : s.pcs[k]? = some s.pcs[k] := by simp [hlt]
        rw [this, hall k _ this]
      refine ⟨k, ?_⟩
      cases call <;> simp [Call.isSetter] at hset <;> simp [step, hcall, hpc, hmu]
    | some r =>
      -- some actor is not done; it is at `start` and enabled
      have : ∃ pc ∈ s.pcs, pc.isDone = false := by
        simp only [allDone] at hnd
        rw [List.all_eq_false] at hnd
        obtain ⟨pc, hm, hp⟩ := hnd
        exact ⟨pc, hm, by simpa using hp⟩
      obtain ⟨pc, hmem, hp⟩ := this
      obtain ⟨k, hk, hget⟩ := List.getElem_of_mem hmem
      have hpc : s.pcs[k]? = some pc := by simp [hk, hget]
      have hlt : k < c.calls.length := by rw [← hI.len]; exact hk
      have hcall : c.calls[k]? = some c.calls[k] := by simp [hlt]
      refine ⟨k, ?_⟩
      cases pc with
      | done ret => simp [APc.isDone] at hp
      | borrowed r' => have := (hI.bor k r' hpc).1; simp [hmu] at this
      | start =>
        cases hc : c.calls[k] <;> simp [step, hcall, hc, hpc, hmu, hbox, hfix]

end Biogo.Promise
