/-
Termination of the concurrent sorter model: a measure on states that every atomic block of
every actor strictly decreases — for every caller program, with or without an injected fault,
in both modes, without any invariant.  Core Lean only.

  μ = cost of the operations still to be made (10 per Push/Finalise, 1 per Pull/Clear, less
      what the current call has already spent)
    + blocks each `write()` activation still has to run (5 at write.recv … 0 when done, plus
      one per element still to encode)
    + elements waiting in `writable` + elements in the caller's chunk
-/
import Biogo.Model.MorassConc
import Biogo.Proofs.Morass
import Biogo.Proofs.MorassConc
import Biogo.Proofs.MorassCycle
import Biogo.Proofs.MorassHistory

namespace Biogo.MorassConc
open Biogo.Morass Biogo.Interleave

def opCost : Op → Nat
  | .push _ => 10
  | .finalise => 10
  | .pull => 1
  | .clear => 1
  | .reject => 1

def progCost (p : List Op) : Nat := (p.map opCost).sum

/-- what the caller still has to spend, by where it is inside the current call -/
def callerPot (pc : CPc) (prog : List Op) : Nat :=
  match pc with
  | .idle => progCost prog
  | .pushSend => progCost prog.tail + 9
  | .pushRecv => progCost prog.tail + 3
  | .finSend => progCost prog.tail + 9
  | .finWrite => progCost prog.tail + 3
  | .finWait => progCost prog.tail + 2

/-- blocks a `write()` activation still has to run -/
def wWork (w : Writer) : Nat :=
  match w.pc with
  | .recv => 5
  | .register => 4 + w.todo.length
  | .encode => 3 + w.todo.length
  | .sync => 2
  | .ret => 1
  | .done => 0

def bufElems (b : List (List Elem)) : Nat := (b.map List.length).sum

def chunkElems (s : CState) : Nat :=
  if s.pc = .pushRecv then 0 else (match s.m.chunk with | some ch => ch.length | none => 0)

def mu (s : CState) : Nat :=
  callerPot s.pc s.prog + (s.writers.map wWork).sum + (if s.pc = .finWrite then wWork s.inl else 0)
    + bufElems s.writable.buf + chunkElems s

/-! ### programs -/

theorem progCost_cons (op : Op) (p : List Op) : progCost (op :: p) = opCost op + progCost p := by
  simp [progCost]

theorem progCost_tail_le (p : List Op) : progCost p.tail ≤ progCost p := by
  cases p with
  | nil => exact Nat.le_refl _
  | cons op t => rw [progCost_cons]; exact Nat.le_add_left _ _

theorem progCost_dropWhile_le (f : Op → Bool) (p : List Op) : progCost (p.dropWhile f) ≤ progCost p := by
  induction p with
  | nil => exact Nat.le_refl _
  | cons op t ih =>
    simp only [List.dropWhile_cons]
    split
    · rw [progCost_cons]; omega
    · exact Nat.le_refl _

/-- the program left when a call returns costs no more than the tail -/
theorem finishOp_prog_le (s : CState) (r : Res) (x : Option Elem) :
    progCost (finishOp s r x).prog ≤ progCost s.prog.tail := by
  simp only [finishOp]
  split
  · simp [progCost]
  · split
    · split
      · simp [progCost]
      · exact progCost_dropWhile_le _ _
    · exact Nat.le_refl _

/-- the measure after a call has returned -/
theorem mu_finishOp (s : CState) (r : Res) (x : Option Elem) :
    mu (finishOp s r x) = progCost (finishOp s r x).prog + (s.writers.map wWork).sum
      + bufElems s.writable.buf + (match s.m.chunk with | some ch => ch.length | none => 0) := by
  simp [mu, finishOp, callerPot, chunkElems]

def chunkLen (m : Morass.State) : Nat := match m.chunk with | some ch => ch.length | none => 0

theorem mu_finishOp' (s : CState) (r : Res) (x : Option Elem) :
    mu (finishOp s r x) = progCost (finishOp s r x).prog + (s.writers.map wWork).sum
      + bufElems s.writable.buf + chunkLen s.m := mu_finishOp s r x

theorem mu_idle {s : CState} (h : s.pc = .idle) :
    mu s = progCost s.prog + (s.writers.map wWork).sum + bufElems s.writable.buf + chunkLen s.m := by
  simp [mu, h, callerPot, chunkElems, chunkLen]

/-! ### a block of `write()` -/

theorem bufElems_cons (r : List Elem) (b : List (List Elem)) : bufElems (r :: b) = r.length + bufElems b := by
  simp [bufElems]

theorem bufElems_append (b : List (List Elem)) (r : List Elem) : bufElems (b ++ [r]) = bufElems b + r.length := by
  simp [bufElems]

theorem wstep_mu {s s' : CState} {w w' : Writer} (h : wstep s w = some (w', s')) :
    wWork w' + bufElems s'.writable.buf < wWork w + bufElems s.writable.buf
    ∧ s'.m.chunk = s.m.chunk ∧ s'.pc = s.pc := by
  unfold wstep at h
  cases hpc : w.pc <;> simp only [hpc] at h
  · cases hr : s.writable.recv with
    | none => simp [hr] at h
    | some p =>
      obtain ⟨r, ch⟩ := p
      obtain ⟨hb, _⟩ := Chan.recv_buf hr
      simp only [hr] at h
      cases ht : tick s.flt .tempfile with
      | mk bad flt =>
        simp only [ht] at h
        cases bad <;> simp only [Bool.false_eq_true, if_false, if_true, Option.some.injEq, Prod.mk.injEq] at h <;>
          obtain ⟨rfl, rfl⟩ := h <;> refine ⟨?_, rfl, rfl⟩ <;>
          simp only [wWork, hpc, hb, bufElems_cons, sortRun_length] <;> omega
  · simp only [Option.some.injEq, Prod.mk.injEq] at h
    obtain ⟨rfl, rfl⟩ := h
    refine ⟨?_, rfl, rfl⟩
    cases htd : w.todo <;> simp [wWork, hpc, htd]
  · cases htodo : w.todo with
    | nil =>
      simp only [htodo, Option.some.injEq, Prod.mk.injEq] at h
      obtain ⟨rfl, rfl⟩ := h
      refine ⟨?_, rfl, rfl⟩
      simp [wWork, hpc, htodo]
    | cons e t =>
      simp only [htodo] at h
      cases ht : tick s.flt .encode with
      | mk bad flt =>
        simp only [ht] at h
        cases bad <;> simp only [Bool.false_eq_true, if_false, if_true, Option.some.injEq, Prod.mk.injEq] at h <;>
          obtain ⟨rfl, rfl⟩ := h <;> refine ⟨?_, rfl, rfl⟩
        · cases t <;> simp [wWork, hpc, htodo]
        · simp only [wWork, hpc, htodo, List.length_cons]; omega
  · cases ht : tick s.flt .sync with
    | mk bad flt =>
      simp only [ht, Option.some.injEq, Prod.mk.injEq] at h
      obtain ⟨rfl, rfl⟩ := h
      refine ⟨?_, ?_, rfl⟩
      · simp [wWork, hpc]
      · cases bad <;> rfl
  · split at h
    · simp only [Option.some.injEq, Prod.mk.injEq] at h
      obtain ⟨rfl, rfl⟩ := h
      refine ⟨?_, rfl, rfl⟩
      simp [wWork, hpc]
    · simp at h
  · simp at h

theorem sum_map_set {α} (f : α → Nat) : ∀ (l : List α) (k : Nat) (a x : α), l[k]? = some x →
    ((l.set k a).map f).sum + f x = (l.map f).sum + f a := by
  intro l
  induction l with
  | nil => intro k a x h; simp at h
  | cons y ys ih =>
    intro k a x h
    cases k with
    | zero =>
      simp only [List.getElem?_cons_zero, Option.some.injEq] at h
      subst h
      simp only [List.set_cons_zero, List.map_cons, List.sum_cons]; omega
    | succ k =>
      simp only [List.getElem?_cons_succ] at h
      simp only [List.set_cons_succ, List.map_cons, List.sum_cons]
      have := ih k a x h
      omega

/-! ### `Pull` and `Clear` do not add elements to the chunk -/

theorem clear_chunkLen (m : Morass.State) : chunkLen (clear m) = 0 := by
  unfold clear chunkLen
  by_cases h : 0 < m.pool
  · simp [h]
  · simp only [h, if_false]
    cases m.chunk <;> rfl

theorem clearF_chunkLen (s : CState) : chunkLen (clearF s).1.m ≤ chunkLen s.m := by
  rcases clearF_spec s with ⟨_, h⟩ | ⟨_, h⟩ <;> rw [h]
  · exact Nat.le_refl _
  · rw [clear_chunkLen]; exact Nat.zero_le _

theorem atEof_chunkLen (s : CState) : chunkLen (atEof s).m = chunkLen s.m := by rw [atEof_m]

theorem condClear_chunkLen (b : Bool) (s : CState) :
    chunkLen (if b = true then (clearF s).1 else s).m ≤ chunkLen s.m := by
  cases b
  · exact Nat.le_refl _
  · exact clearF_chunkLen s

theorem pullF_chunkLen (s : CState) : chunkLen (pullF s).1.m ≤ chunkLen s.m := by
  cases hf : s.m.fast
  · cases hpm : popMin s.m.files with
    | none =>
      have e1 : pullF s = (atEof (if s.m.autoClear = true then (clearF s).1 else s), .eof, none) := by
        simp [pullF, hf, hpm]
      rw [e1, atEof_chunkLen]; exact condClear_chunkLen _ _
    | some p =>
      obtain ⟨low, others⟩ := p
      cases ht : tick s.flt .pdecode with
      | mk bad flt =>
        cases bad <;> cases hr : low.rest <;> cases hh : low.head <;>
          simp [pullF, hf, hpm, ht, hr, hh, chunkLen]
  · cases hch : s.m.chunk with
    | none =>
      have e1 : pullF s = (atEof (if s.m.autoClear = true then (clearF s).1 else s), .eof, none) := by
        simp [pullF, hf, hch]
      rw [e1, atEof_chunkLen]; exact condClear_chunkLen _ _
    | some ch =>
      cases hg : ch[s.m.pos]? with
      | some e => simp [pullF, hf, hch, hg, chunkLen]
      | none =>
        by_cases h2 : 2 ≤ s.m.pool
        · simp [pullF, hf, hch, hg, h2]
        · have e1 : pullF s = (atEof (if s.m.autoClear = true
                then (clearF { s with m := { s.m with pool := s.m.pool + 1, chunk := none } }).1
                else { s with m := { s.m with pool := s.m.pool + 1, chunk := none } }), .eof, none) := by
            simp [pullF, hf, hch, hg, h2]
          rw [e1, atEof_chunkLen]
          refine Nat.le_trans (condClear_chunkLen _ _) ?_
          simp [chunkLen]

/-! ### every block of the caller decreases the measure -/

theorem mu_CStep {s t : CState} (h : CStep s t) : mu t < mu s := by
  have fin : ∀ (s1 : CState) (r : Res) (x : Option Elem) (op : Op) (rest : List Op), s.pc = .idle →
      s.prog = op :: rest → s1.prog = s.prog → s1.writers = s.writers → s1.writable = s.writable →
      chunkLen s1.m < chunkLen s.m + opCost op → mu (finishOp s1 r x) < mu s := by
    intro s1 r x op rest hpc hprog h1 h2 h3 h4
    rw [mu_finishOp', mu_idle hpc, h2, h3]
    have := finishOp_prog_le s1 r x
    rw [h1, hprog] at this
    rw [hprog, progCost_cons]
    simp only [List.tail_cons] at this
    omega
  cases h with
  | pushErr e rest r hpc hprog herr => exact fin s r none _ rest hpc hprog rfl rfl rfl (by simp [opCost])
  | pushNil e rest hpc hprog herr hch => exact fin s _ none _ rest hpc hprog rfl rfl rfl (by simp [opCost])
  | pushFull e rest ch hpc hprog herr hch hfull =>
    simp only [mu, hpc, callerPot, chunkElems, hprog, progCost_cons, opCost, List.tail_cons]
    simp
    omega
  | pushRoom e rest ch hpc hprog herr hch hfull =>
    apply fin { s with m := (push s.m e).1 } .ok none _ rest hpc hprog rfl rfl rfl
    show chunkLen (push s.m e).1 < _
    rw [push_room e herr hch hfull]
    simp [chunkLen, hch, opCost]
  | finErr rest r hpc hprog herr => exact fin s r none _ rest hpc hprog rfl rfl rfl (by simp [opCost])
  | finNil rest hpc hprog herr hch => exact fin s _ none _ rest hpc hprog rfl rfl rfl (by simp [opCost])
  | finFast rest ch hpc hprog herr hch hlt =>
    apply fin { s with m := (finalise s.m).1 } .ok none _ rest hpc hprog rfl rfl rfl
    show chunkLen (finalise s.m).1 < _
    simp [finalise, herr, hch, hlt, chunkLen, sortRun_length, opCost]
  | finDisk rest ch hpc hprog herr hch hlt hpos =>
    simp only [mu, hpc, callerPot, chunkElems, hprog, progCost_cons, opCost, List.tail_cons]
    simp
    omega
  | finEmpty rest ch flt fs ok hpc hprog herr hch hlt hpos hp =>
    apply fin { s with flt := flt, m := { s.m with fast := false, pos := 0, files := fs } } _ none _ rest hpc hprog rfl rfl rfl
    simp [chunkLen, opCost]
  | pull rest hpc hprog =>
    have fr := pullF_frame s
    apply fin (pullF s).1 _ _ _ rest hpc hprog fr.prog fr.writers fr.writable
    have := pullF_chunkLen s
    simp only [opCost]; omega
  | clear rest hpc hprog =>
    have fr := clearF_frame s
    apply fin (clearF s).1 _ none _ rest hpc hprog fr.prog fr.writers fr.writable
    have := clearF_chunkLen s
    simp only [opCost]; omega
  | reject rest hpc hprog => exact fin s _ none _ rest hpc hprog rfl rfl rfl (by simp [opCost])
  | send ch wr hpc hch hsend =>
    obtain ⟨hb, _, _⟩ := Chan.send_buf hsend
    simp only [mu, hpc, callerPot, chunkElems, hb, bufElems_append, hch, List.map_append, List.sum_append]
    simp [wWork]
    omega
  | recvErr e rest r hpc hpool hprog herr =>
    rw [mu_finishOp']
    have := finishOp_prog_le { s with m := { s.m with pool := s.m.pool - 1, chunk := some [] } } r none
    simp only [mu, hpc, callerPot, chunkElems, chunkLen] at this ⊢
    simp at this ⊢
    omega
  | recvOk e rest hpc hpool hprog herr =>
    rw [mu_finishOp']
    have := finishOp_prog_le { s with m := { s.m with pool := s.m.pool - 1, chunk := some [e], pos := s.m.pos + 1, len := s.m.len + 1 } } .ok none
    simp only [mu, hpc, callerPot, chunkElems, chunkLen] at this ⊢
    simp at this ⊢
    omega
  | fsend ch wr hpc hch hsend =>
    obtain ⟨hb, _, _⟩ := Chan.send_buf hsend
    simp only [mu, hpc, callerPot, chunkElems, hb, bufElems_append, hch]
    simp [wWork]
    omega
  | fwrite w s' hpc hw =>
    obtain ⟨h1, h2, h3⟩ := wstep_mu hw
    obtain ⟨e1, _, e3⟩ := wstep_wop hw
    by_cases hd : w.pc = .done
    · have hw0 : wWork w = 0 := by simp [wWork, hd]
      simp only [mu, hpc, hd, callerPot, chunkElems, e1, e3, h2]
      simp
      omega
    · simp only [mu, hpc, hd, callerPot, chunkElems, e1, e3, h2]
      simp
      omega
  | waitErr r hpc hwg herr =>
    rw [mu_finishOp']
    have := finishOp_prog_le s r none
    simp only [mu, hpc, callerPot, chunkElems, chunkLen] at this ⊢
    simp at this ⊢
    omega
  | waitOk flt fs ok hpc hwg herr hp =>
    rw [mu_finishOp']
    have := finishOp_prog_le { s with flt := flt, m := { s.m with pos := 0, files := fs } } (if ok then .ok else .ioerr) none
    simp only [mu, hpc, callerPot, chunkElems, chunkLen] at this ⊢
    simp at this ⊢
    omega

/-- **every atomic block of every actor strictly decreases the measure** -/
theorem mu_step {s t : CState} {i : Nat} (h : step s i = some t) : mu t < mu s := by
  cases i with
  | zero => exact mu_CStep (cstep_cases (show cstep s = some t from h))
  | succ k =>
    simp only [step] at h
    cases hk : s.writers[k]? with
    | none => simp [hk] at h
    | some w =>
      simp only [hk] at h
      cases hw : wstep s w with
      | none => simp [hw] at h
      | some p =>
        obtain ⟨w', s'⟩ := p
        simp only [hw, Option.some.injEq] at h; subst h
        obtain ⟨h1, h2, h3⟩ := wstep_mu hw
        obtain ⟨e1, _, e3⟩ := wstep_wop hw
        have hsum := sum_map_set wWork s.writers k w' w hk
        have hinl : s'.inl = s.inl := by
          -- the inline activation is not touched by a block of another activation
          unfold wstep at hw
          cases hpc : w.pc <;> simp only [hpc] at hw
          · cases hr : s.writable.recv with
            | none => simp [hr] at hw
            | some p =>
              obtain ⟨r, ch⟩ := p
              simp only [hr] at hw
              cases ht : tick s.flt .tempfile with
              | mk bad flt =>
                simp only [ht] at hw
                cases bad <;> simp only [Bool.false_eq_true, if_false, if_true, Option.some.injEq, Prod.mk.injEq] at hw <;>
                  obtain ⟨_, rfl⟩ := hw <;> rfl
          · simp only [Option.some.injEq, Prod.mk.injEq] at hw; obtain ⟨_, rfl⟩ := hw; rfl
          · cases htodo : w.todo with
            | nil => simp only [htodo, Option.some.injEq, Prod.mk.injEq] at hw; obtain ⟨_, rfl⟩ := hw; rfl
            | cons e t =>
              simp only [htodo] at hw
              cases ht : tick s.flt .encode with
              | mk bad flt =>
                simp only [ht] at hw
                cases bad <;> simp only [Bool.false_eq_true, if_false, if_true, Option.some.injEq, Prod.mk.injEq] at hw <;>
                  obtain ⟨_, rfl⟩ := hw <;> rfl
          · cases ht : tick s.flt .sync with
            | mk bad flt =>
              simp only [ht, Option.some.injEq, Prod.mk.injEq] at hw
              obtain ⟨_, rfl⟩ := hw; rfl
          · split at hw
            · simp only [Option.some.injEq, Prod.mk.injEq] at hw; obtain ⟨_, rfl⟩ := hw; rfl
            · simp at hw
          · simp at hw
        simp only [mu, chunkElems, h2, h3, e1, e3, hinl]
        omega

end Biogo.MorassConc
