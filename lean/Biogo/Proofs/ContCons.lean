/-
The count-based consensus (seq.DefaultConsensus, letters only) of a unanimous column.  Core-only.
-/
import Biogo.Model.Containers

namespace Biogo.Containers
open Biogo.Alphabet

/-- the counting loop: every valid letter increments its index -/
def countStep (a : Alpha) (w : List Nat) (l : UInt8) : List Nat :=
  if a.valid l then w.modify (a.index l).toNat (· + 1) else w

/-- the arg-max loop: first strict maximum -/
def argStep (acc : Nat × Nat × Nat) (v : Nat) : Nat × Nat × Nat :=
  if v > acc.1 then (v, acc.2.2, acc.2.2 + 1) else (acc.1, acc.2.1, acc.2.2 + 1)

theorem consensusLetter_eq (a : Alpha) (col : List UInt8) :
    consensusLetter a col =
      (a.letter ((col.foldl (countStep a) (List.replicate a.length 0)).foldl argStep (0, 0, 0)).2.1).getD 0 := rfl

theorem modify_modify_same (w : List Nat) (k c : Nat) :
    (w.modify k (· + c)).modify k (· + 1) = w.modify k (· + (c + 1)) := by
  apply List.ext_getElem?
  intro i
  simp only [List.getElem?_modify]
  by_cases e : k = i
  · simp only [e, if_true]; cases w[i]? <;> simp; omega
  · simp only [e, if_false]; cases w[i]? <;> simp

/-- counting a column whose letters are all valid with index `k` adds its length at `k` -/
theorem count_unanimous (a : Alpha) (k : Nat) : ∀ (col : List UInt8) (w : List Nat) (c : Nat),
    (∀ l ∈ col, a.valid l = true ∧ (a.index l).toNat = k) →
    col.foldl (countStep a) (w.modify k (· + c)) = w.modify k (· + (c + col.length)) := by
  intro col
  induction col with
  | nil => intro w c _; simp
  | cons l ls ih =>
    intro w c hall
    obtain ⟨hv, hk⟩ := hall l List.mem_cons_self
    simp only [List.foldl_cons, countStep, hv, if_true, hk]
    rw [modify_modify_same, ih w (c + 1) (fun x hx => hall x (List.mem_cons_of_mem _ hx))]
    simp only [List.length_cons]
    congr 2
    funext x; omega

theorem modify_zero (w : List Nat) (k : Nat) : w.modify k (· + 0) = w := by
  apply List.ext_getElem?
  intro i
  simp only [List.getElem?_modify]
  by_cases e : k = i
  · simp only [e, if_true]; cases w[i]? <;> simp
  · simp only [e, if_false]; cases w[i]? <;> simp

theorem argStep_zeros (mx mi : Nat) : ∀ (n i : Nat),
    (List.replicate n 0).foldl argStep (mx, mi, i) = (mx, mi, i + n) := by
  intro n
  induction n with
  | zero => intro i; rfl
  | succ n ih =>
    intro i
    simp only [List.replicate_succ, List.foldl_cons, argStep, Nat.not_lt_zero, gt_iff_lt, if_false]
    rw [ih]; congr 2; omega

theorem replicate_modify (n k c : Nat) (hk : k < n) :
    (List.replicate n 0).modify k (· + c) = List.replicate k 0 ++ c :: List.replicate (n - k - 1) 0 := by
  apply List.ext_getElem?
  intro i
  simp only [List.getElem?_modify, List.getElem?_replicate]
  by_cases e : k = i
  · subst e
    simp only [if_true, hk]
    rw [List.getElem?_append_right (by simp)]
    simp
  · simp only [e, if_false]
    by_cases hi : i < k
    · rw [List.getElem?_append_left (by simpa using hi)]
      simp only [List.getElem?_replicate, hi, if_true]
      have : i < n := by omega
      simp [this]
    · have hik : k < i := by omega
      rw [List.getElem?_append_right (by simp; omega)]
      simp only [List.length_replicate]
      have : i - k = (i - k - 1) + 1 := by omega
      rw [this, List.getElem?_cons_succ, List.getElem?_replicate]
      by_cases hin : i < n
      · have : i - k - 1 < n - k - 1 := by omega
        simp [hin, this]
      · have : ¬ (i - k - 1 < n - k - 1) := by omega
        simp [hin, this]

/-- **the consensus of a unanimous column**: if the column is non-empty and every letter of it
    is valid with the same alphabet index `k`, the count-based consensus is `Letter(k)` -/
theorem consensus_unanimous (a : Alpha) (col : List UInt8) (k : Nat) (hne : col ≠ []) (hk : k < a.length)
    (hall : ∀ l ∈ col, a.valid l = true ∧ (a.index l).toNat = k) :
    consensusLetter a col = (a.letter k).getD 0 := by
  rw [consensusLetter_eq]
  have hc := count_unanimous a k col (List.replicate a.length 0) 0 hall
  rw [modify_zero] at hc
  rw [hc, replicate_modify a.length k (0 + col.length) hk, List.foldl_append, argStep_zeros 0 0 k 0,
      List.foldl_cons]
  have hpos : col.length > 0 := by
    cases col with
    | nil => exact (hne rfl).elim
    | cons _ _ => simp
  have hstep : argStep (0, 0, 0 + k) (0 + col.length) = (col.length, k, k + 1) := by
    simp only [argStep, Nat.zero_add, gt_iff_lt, hpos, if_true]
  rw [hstep, argStep_zeros]

end Biogo.Containers
