/-
`FittedAffine` as it was before the repairs of K1 and K3 (model
`Biogo.AlignAff.fitAlignLegacy`: fill without `up ↔ left` transitions, end taken from the match
layer), the part of C08 that held: the reported total is the value of the match layer at the
chosen end of the last column, and that value is the affine score of a genuine alignment of the
whole query with a reference segment ending there, without adjacent opposite gaps (so it never
exceeds the optimum for that end).  Every value of that table is *attained* (`IsAtt`); it is
not always the optimum (finding K3: column 0 keeps the empty alignment in the `up` layer, from
which no query gap could start, and only match-layer ends were considered).
The lemmas about the shape of the fitted table (`fitAt_*`, `fit_some`, `exists_cand_fit`) are
stated for either fill and are shared with `Proofs/FittedFull` (the code after the repairs).
Core only.
-/
import Biogo.Proofs.AffineOpt
import Biogo.Proofs.AlignAffTable
import Biogo.Proofs.TraceSum
import Biogo.Proofs.NWAffine
import Biogo.Proofs.TraceWF

namespace Biogo.Proofs.FittedAffine
open Biogo.Spec.Alignment Biogo.AlignAff Biogo.Spec.AffineOpt Biogo.Proofs.AffineAln
open Biogo.Proofs.AffineOpt Biogo.Proofs.AlignAffTable Biogo.Proofs.TraceSum
open Biogo.Spec.AffPairs (lastEnd)

/-- the class of `FittedAffine`: free start in the reference, whole query, no adjacent opposite gaps -/
def flF : Flags := ⟨false, true, false⟩

/-! ### attained values -/

/-- every value is the score of a member of `P` -/
def IsAtt (P : Aln → Prop) (f : Aln → Int) (v : V) : Prop := ∀ x, v = some x → ∃ a, P a ∧ f a = x

theorem att_none {P : Aln → Prop} {f : Aln → Int} : IsAtt P f none := fun _ h => by cases h

theorem att_mono {P Q : Aln → Prop} {f : Aln → Int} {v : V} (h : ∀ a, P a → Q a) (hp : IsAtt P f v) :
    IsAtt Q f v := fun x hx => let ⟨a, ha, e⟩ := hp x hx; ⟨a, h a ha, e⟩

theorem att_of_isOpt {P : Aln → Prop} {f : Aln → Int} {v : V} (h : IsOpt P f v) : IsAtt P f v := h.2

theorem att_max2 {P Q : Aln → Prop} {f : Aln → Int} {v w : V} (hp : IsAtt P f v) (hq : IsAtt Q f w) :
    IsAtt (fun a => P a ∨ Q a) f (max2 v w) := by
  intro x hx
  rcases (max2_spec v w).1 with h | h <;> rw [h] at hx
  · obtain ⟨a, ha, e⟩ := hp x hx; exact ⟨a, Or.inl ha, e⟩
  · obtain ⟨a, ha, e⟩ := hq x hx; exact ⟨a, Or.inr ha, e⟩

theorem att_max3 {P : Aln → Prop} {f : Aln → Int} {u v w : V} (h1 : IsAtt P f u) (h2 : IsAtt P f v)
    (h3 : IsAtt P f w) : IsAtt P f (max3 u v w) := by
  intro x hx
  rcases (max3_spec u v w).1 with h | h | h <;> rw [h] at hx
  · exact h1 x hx
  · exact h2 x hx
  · exact h3 x hx

theorem att_snoc {P : Aln → Prop} {f : Aln → Int} {v : V} (c : Col) (x : Int)
    (h : ∀ a, P a → f (a ++ [c]) = f a + x) (hp : IsAtt P f v) :
    IsAtt (fun b => ∃ a, P a ∧ b = a ++ [c]) f (vadd v x) := by
  intro y hy
  cases v with
  | none => cases hy
  | some z =>
    have : z + x = y := by simpa [vadd] using hy
    obtain ⟨a, ha, e⟩ := hp z rfl
    exact ⟨a ++ [c], ⟨a, ha, rfl⟩, by rw [h a ha]; omega⟩

theorem gapLayer_false (o g : Int) (pd ps po : V) :
    gapLayer false o g pd ps po = max2 (vadd pd (o + g)) (vadd ps g) := rfl

/-- `up` layer of a cell from the cell above -/
theorem att_u_step {S : Matrix} {o : Int} {rp Q : List Nat} {c : Cell} (x : Nat)
    (hm : IsAtt (Cls flF rp Q .m) (scoreAff S o) c.d) (hu : IsAtt (Cls flF rp Q .u) (scoreAff S o) c.u) :
    IsAtt (Cls flF (rp ++ [x]) Q .u) (scoreAff S o)
      (max2 (vadd c.d (o + S x 0)) (vadd c.u (S x 0))) := by
  have hA := att_snoc (.u x) (o + S x 0)
    (fun a (ha : Cls flF rp Q .m a) => by rw [cost_u, ha.2]; simp) hm
  have hB := att_snoc (.u x) (S x 0)
    (fun a (ha : Cls flF rp Q .u a) => by rw [cost_u, ha.2]; simp) hu
  refine att_mono ?_ (att_max2 hA hB)
  rintro b (⟨a, ha, rfl⟩ | ⟨a, ha, rfl⟩)
  · exact (cls_u_snoc flF rp Q x _).mpr ⟨a, rfl, ha.1, Or.inr (by rw [ha.2]; decide)⟩
  · exact (cls_u_snoc flF rp Q x _).mpr ⟨a, rfl, ha.1, Or.inr (by rw [ha.2]; decide)⟩

/-- `left` layer of a cell from the cell to the left -/
theorem att_l_step {S : Matrix} {o : Int} {R qp : List Nat} {c : Cell} (y : Nat)
    (hm : IsAtt (Cls flF R qp .m) (scoreAff S o) c.d) (hl : IsAtt (Cls flF R qp .l) (scoreAff S o) c.l) :
    IsAtt (Cls flF R (qp ++ [y]) .l) (scoreAff S o)
      (max2 (vadd c.d (o + S 0 y)) (vadd c.l (S 0 y))) := by
  have hA := att_snoc (.l y) (o + S 0 y)
    (fun a (ha : Cls flF R qp .m a) => by rw [cost_l, ha.2]; simp) hm
  have hB := att_snoc (.l y) (S 0 y)
    (fun a (ha : Cls flF R qp .l a) => by rw [cost_l, ha.2]; simp) hl
  refine att_mono ?_ (att_max2 hA hB)
  rintro b (⟨a, ha, rfl⟩ | ⟨a, ha, rfl⟩)
  · exact (cls_l_snoc flF R qp y _).mpr ⟨a, rfl, ha.1, Or.inr (by rw [ha.2]; decide)⟩
  · exact (cls_l_snoc flF R qp y _).mpr ⟨a, rfl, ha.1, Or.inr (by rw [ha.2]; decide)⟩

/-- match layer from the diagonal cell: any admissible alignment may be extended -/
theorem att_m_step {S : Matrix} {o : Int} {rp qp : List Nat} {c : Cell} (x y : Nat)
    (h : ∀ k, IsAtt (Adm flF rp qp) (scoreAff S o) (c.get k)) :
    IsAtt (Cls flF (rp ++ [x]) (qp ++ [y]) .m) (scoreAff S o) (vadd (max3 c.d c.u c.l) (S x y)) := by
  have hM := att_snoc (.m x y) (S x y) (fun a _ => cost_m S o x y a) (att_max3 (h .m) (h .u) (h .l))
  refine att_mono ?_ hM
  rintro b ⟨a, ha, rfl⟩
  exact (cls_m_snoc flF rp qp x y _).mpr (Or.inr ⟨a, rfl, ha⟩)

/-- what is known of a cell of the fitted table: all values attained by admissible alignments;
    `strong`: in each layer by an alignment ending in that layer's kind -/
def Weak (S : Matrix) (o : Int) (rp qp : List Nat) (c : Cell) : Prop :=
  ∀ k, IsAtt (Adm flF rp qp) (scoreAff S o) (c.get k)

def Strong (S : Matrix) (o : Int) (rp qp : List Nat) (c : Cell) : Prop :=
  ∀ k, IsAtt (Cls flF rp qp k) (scoreAff S o) (c.get k)

theorem Strong.weak {S : Matrix} {o : Int} {rp qp : List Nat} {c : Cell} (h : Strong S o rp qp c) :
    Weak S o rp qp c := fun k => att_mono (fun _ ha => ha.1) (h k)

theorem inner_strong {S : Matrix} {o : Int} {rp qp : List Nat} {pd pu lc : Cell} (x y : Nat)
    (hd : Weak S o rp qp pd) (hu : Strong S o rp (qp ++ [y]) pu)
    (hlm : IsAtt (Cls flF (rp ++ [x]) qp .m) (scoreAff S o) lc.d)
    (hll : IsAtt (Cls flF (rp ++ [x]) qp .l) (scoreAff S o) lc.l) :
    Strong S o (rp ++ [x]) (qp ++ [y]) (nwCell false S o x pd pu lc y) := by
  intro k
  cases k with
  | m => exact att_m_step x y hd
  | u => exact att_u_step x (hu .m) (hu .u)
  | l => exact att_l_step y hlm hll

/-! ### the rows of the fitted table -/

theorem optRow0Tail_congr (fl fl' : Flags) (S : Matrix) (o : Int) (hc : fl.cross = fl'.cross)
    (hq : fl.freeQ = fl'.freeQ) :
    ∀ (ys : List Nat) (lc : Cell), optRow0Tail fl S o lc ys = optRow0Tail fl' S o lc ys := by
  intro ys
  induction ys with
  | nil => intro lc; rfl
  | cons y ys ih => intro lc; simp only [optRow0Tail, gapVal, hc, hq, ih]

/-- first row: every value is attained in its own layer -/
theorem row0_strong (S : Matrix) (o : Int) (q : List Nat) (j : Nat) (hj : j ≤ q.length) :
    Strong S o [] (q.take j) ((nwRow0 S o q).getD j noCell) := by
  rw [Biogo.Proofs.NWAffine.nwRow0_eq false,
    optRow0Tail_congr (Biogo.Proofs.NWAffine.flN false) flF S o rfl rfl]
  intro k
  exact att_of_isOpt ((row0_ok flF S o q).2 j hj k)

/-- what is known of a whole row of the fitted table, for the reference prefix `rp` -/
structure FitRow (S : Matrix) (o : Int) (q rp : List Nat) (row : List Cell) : Prop where
  len : row.length = q.length + 1
  weak0 : Weak S o rp [] (row.getD 0 noCell)
  m0 : IsAtt (Cls flF rp [] .m) (scoreAff S o) (row.getD 0 noCell).d
  l0 : IsAtt (Cls flF rp [] .l) (scoreAff S o) (row.getD 0 noCell).l
  strong : ∀ j, 1 ≤ j → j ≤ q.length → Strong S o rp (q.take j) (row.getD j noCell)

theorem scan_strong (S : Matrix) (o : Int) (rp : List Nat) (x : Nat) :
    ∀ (ys done : List Nat) (prevTail : List Cell) (lc : Cell),
      prevTail.length = ys.length + 1 →
      Weak S o rp done (prevTail.getD 0 noCell) →
      (∀ j, 1 ≤ j → j ≤ ys.length → Strong S o rp (done ++ ys.take j) (prevTail.getD j noCell)) →
      IsAtt (Cls flF (rp ++ [x]) done .m) (scoreAff S o) lc.d →
      IsAtt (Cls flF (rp ++ [x]) done .l) (scoreAff S o) lc.l →
      ∀ j, j < ys.length →
        Strong S o (rp ++ [x]) (done ++ ys.take (j + 1))
          ((scanRow (nwCell false S o x) prevTail lc ys).getD j noCell) := by
  intro ys
  induction ys with
  | nil => intro done prevTail lc _ _ _ _ _ j hj; simp at hj
  | cons y ys ih =>
    intro done prevTail lc hlen hw hs hm hl j hj
    match prevTail, hlen, hw, hs with
    | pd :: pu :: rest, hlen, hw, hs =>
      have hd : Weak S o rp done pd := by simpa using hw
      have hu : Strong S o rp (done ++ [y]) pu := by simpa using hs 1 (Nat.le_refl _) (by simp)
      have hc := inner_strong x y hd hu hm hl
      cases j with
      | zero => simpa [scanRow] using hc
      | succ j =>
        have hs' : ∀ j, 1 ≤ j → j ≤ ys.length →
            Strong S o rp ((done ++ [y]) ++ ys.take j) ((pu :: rest).getD j noCell) := by
          intro j h1 h2
          have := hs (j + 1) (by omega) (by simpa using h2)
          simpa [List.append_assoc] using this
        have := ih (done ++ [y]) (pu :: rest) _ (by simpa using hlen) (by simpa using hu.weak) hs'
          (hc .m) (hc .l) j (by simpa using hj)
        simpa [scanRow, List.append_assoc] using this
    | [], hlen, _, _ => simp at hlen
    | [_], hlen, _, _ => simp at hlen

theorem fitRow_step {S : Matrix} {o : Int} {q rp : List Nat} {prev : List Cell} (b : Bool) (x : Nat)
    (h : FitRow S o q rp prev) :
    FitRow S o q (rp ++ [x])
      (fitFirst b (prev.headD noCell) x :: scanRow (nwCell false S o x) prev (fitFirst b (prev.headD noCell) x) q) := by
  have hscan := scan_strong S o rp x q [] prev (fitFirst b (prev.headD noCell) x) h.len
    (by simpa using h.weak0) (fun j h1 h2 => by simpa using h.strong j h1 h2)
    (by simp only [fitFirst]; exact att_none) (by simp only [fitFirst]; exact att_none)
  refine ⟨?_, ?_, ?_, ?_, ?_⟩
  · rw [List.length_cons, scanRow_length _ q prev _ (by rw [h.len]; omega)]
  · intro k
    simp only [List.getD_cons_zero, fitFirst]
    cases k with
    | m => exact att_none
    | l => exact att_none
    | u =>
      intro v hv
      have : v = 0 := by simpa [Cell.get] using hv.symm
      subst this
      exact ⟨[], ⟨by simp [projR, fits, flF], by simp [projQ, fits, flF], Or.inr rfl⟩,
        by simp [scoreAff, scoreAffFrom]⟩
  · simp only [List.getD_cons_zero, fitFirst]; exact att_none
  · simp only [List.getD_cons_zero, fitFirst]; exact att_none
  · intro j h1 h2
    obtain ⟨j', rfl⟩ : ∃ j', j = j' + 1 := ⟨j - 1, by omega⟩
    have := hscan j' (by omega)
    simpa using this

theorem fitRows_ok (S : Matrix) (o : Int) (q : List Nat) :
    ∀ (xs rp : List Nat) (prev : List Cell) (b : Bool), FitRow S o q rp prev →
      ∀ i, i < xs.length →
        FitRow S o q (rp ++ xs.take (i + 1))
          ((fillRows fitFirst (nwCell false S o) q b prev xs).getD i []) := by
  intro xs
  induction xs with
  | nil => intro rp prev b _ i hi; simp at hi
  | cons x xs ih =>
    intro rp prev b h i hi
    have hrow := fitRow_step b x h
    cases i with
    | zero =>
      rw [fillRows, List.getD_cons_zero]
      simpa using hrow
    | succ i =>
      have := ih (rp ++ [x]) _ false hrow i (by simpa using hi)
      rw [fillRows, List.getD_cons_succ, List.take_succ_cons]
      rw [List.append_assoc] at this
      exact this

/-- every match-layer value of the fitted table at a column `j ≥ 1` is the score of an
    alignment of `q[0..j)` with a segment of `r` ending at `i`, ending in a match column -/
theorem fitRows_strong (S : Matrix) (o : Int) (r q : List Nat) (i j : Nat) (hi : i ≤ r.length)
    (h1 : 1 ≤ j) (hj : j ≤ q.length) :
    Strong S o (r.take i) (q.take j) (rowAt (fitRows false S o r q) i j) := by
  have h0 : FitRow S o q [] (nwRow0 S o q) := by
    refine ⟨?_, ?_, ?_, ?_, ?_⟩
    · rw [Biogo.Proofs.NWAffine.nwRow0_eq false]; exact (row0_ok (Biogo.Proofs.NWAffine.flN false) S o q).1
    · exact (row0_strong S o q 0 (Nat.zero_le _)).weak
    · exact row0_strong S o q 0 (Nat.zero_le _) .m
    · exact row0_strong S o q 0 (Nat.zero_le _) .l
    · intro j _ h2; exact row0_strong S o q j h2
  cases i with
  | zero => simpa [rowAt, fitRows] using h0.strong j h1 hj
  | succ i =>
    have := (fitRows_ok S o q r [] _ true h0 i (by omega)).strong j h1 hj
    simpa [rowAt, fitRows] using this

/-! ### the fitted table in table coordinates (either fill) -/

def fitAt (cross : Bool) (S : Matrix) (o : Int) (r q : List Nat) (i j : Nat) : Cell :=
  rowAt (fitRows cross S o r q) i j

theorem nwRow0_len (S : Matrix) (o : Int) (q : List Nat) : (nwRow0 S o q).length = q.length + 1 := by
  rw [Biogo.Proofs.NWAffine.nwRow0_eq false]; exact (row0_ok (Biogo.Proofs.NWAffine.flN false) S o q).1

theorem fitTable_at (cross : Bool) (S : Matrix) (o : Int) (r q : List Nat) (i j : Nat) (hj : j ≤ q.length) :
    (fitTable cross S o r q).at i j = fitAt cross S o r q i j := by
  simp only [fitTable, fitAt, fitRows]
  exact mkTable_at _ _ i j (rows_all_len fitFirst (nwCell cross S o) q r _ (nwRow0_len S o q)) (by omega)

theorem fitAt_inner (cross : Bool) (S : Matrix) (o : Int) (r q : List Nat) (i j : Nat) (hi : i < r.length)
    (hj : j < q.length) :
    fitAt cross S o r q (i + 1) (j + 1) =
      nwCell cross S o (r.getD i 0) (fitAt cross S o r q i j) (fitAt cross S o r q i (j + 1))
        (fitAt cross S o r q (i + 1) j) (q.getD j 0) := by
  simp only [fitAt, fitRows]
  exact rows_inner _ _ q r _ (nwRow0_len S o q) i j hi hj

theorem fitAt_col0 (cross : Bool) (S : Matrix) (o : Int) (r q : List Nat) (i : Nat) (hi : i < r.length) :
    fitAt cross S o r q (i + 1) 0 = ⟨none, some 0, none⟩ := by
  simp only [fitAt, fitRows]
  rw [rows_first _ _ q r _ i hi]; rfl

/-- the first row of the fitted table is the first row of the global table (which does not
    depend on the cross transitions: no cell above it) -/
theorem fitAt_row0 (cross : Bool) (S : Matrix) (o : Int) (r q : List Nat) (j : Nat) (c' : Bool) :
    fitAt cross S o r q 0 j = rowAt (optRows (Biogo.Proofs.NWAffine.flN c') S o r q) 0 j := by
  simp only [fitAt, fitRows, rowAt, optRows, List.getD_cons_zero, Biogo.Proofs.NWAffine.nwRow0_eq c']

theorem vadd_some {a : V} {x w : Int} (h : a = some w) : vadd a x = some (w + x) := by rw [h]; rfl

theorem max2_some_left {a b : V} {w : Int} (h : a = some w) : ∃ z, max2 a b = some z := by
  have := (max2_spec a b).2.1
  rw [h] at this
  obtain ⟨y, hy, _⟩ := vle_some this
  exact ⟨y, by rw [← h] at hy; exact hy⟩

theorem max2_some_right {a b : V} {w : Int} (h : b = some w) : ∃ z, max2 a b = some z := by
  have := (max2_spec a b).2.2
  rw [h] at this
  obtain ⟨y, hy, _⟩ := vle_some this
  exact ⟨y, by rw [← h] at hy; exact hy⟩

theorem max3_some {c : Cell} {k : Kind} {w : Int} (h : c.get k = some w) : ∃ z, max3 c.d c.u c.l = some z := by
  obtain ⟨_, h1, h2, h3⟩ := max3_spec c.d c.u c.l
  cases k with
  | m => simp only [Cell.get] at h; rw [h] at h1; obtain ⟨y, hy, _⟩ := vle_some h1; exact ⟨y, by rw [← h] at hy; exact hy⟩
  | u => simp only [Cell.get] at h; rw [h] at h2; obtain ⟨y, hy, _⟩ := vle_some h2; exact ⟨y, by rw [← h] at hy; exact hy⟩
  | l => simp only [Cell.get] at h; rw [h] at h3; obtain ⟨y, hy, _⟩ := vle_some h3; exact ⟨y, by rw [← h] at hy; exact hy⟩

/-- first row: the match layer or the left layer holds a value -/
theorem fit_row0_some (cross : Bool) (S : Matrix) (o : Int) (r q : List Nat) :
    ∀ j, j ≤ q.length → (∃ w, (fitAt cross S o r q 0 j).d = some w) ∨ (∃ w, (fitAt cross S o r q 0 j).l = some w) := by
  intro j
  induction j with
  | zero => intro _; left; rw [fitAt_row0 cross S o r q 0 false, optRows_origin]; exact ⟨0, rfl⟩
  | succ j ih =>
    intro hj
    right
    rw [fitAt_row0 cross S o r q (j + 1) false, optRows_row0 _ S o r q j (by omega), ← fitAt_row0 cross S o r q j false]
    simp only []
    rw [← Biogo.Proofs.NWAffine.gapLayer_eq]
    simp only [Biogo.Proofs.NWAffine.flN, gapLayer_false]
    rcases ih (by omega) with ⟨w, hw⟩ | ⟨w, hw⟩
    · exact max2_some_left (vadd_some hw)
    · exact max2_some_right (vadd_some hw)

/-- every cell of the fitted table holds a value in some layer -/
theorem fit_some (cross : Bool) (S : Matrix) (o : Int) (r q : List Nat) :
    ∀ i, i ≤ r.length → ∀ j, j ≤ q.length → ∃ k w, (fitAt cross S o r q i j).get k = some w := by
  intro i
  induction i with
  | zero =>
    intro _ j hj
    rcases fit_row0_some cross S o r q j hj with ⟨w, hw⟩ | ⟨w, hw⟩
    · exact ⟨.m, w, hw⟩
    · exact ⟨.l, w, hw⟩
  | succ i ih =>
    intro hi j hj
    cases j with
    | zero => rw [fitAt_col0 cross S o r q i (by omega)]; exact ⟨.u, 0, rfl⟩
    | succ j =>
      obtain ⟨k, w, hw⟩ := ih (by omega) j (by omega)
      obtain ⟨z, hz⟩ := max3_some hw
      refine ⟨.m, z + S (r.getD i 0) (q.getD j 0), ?_⟩
      rw [fitAt_inner cross S o r q i j (by omega) (by omega)]
      simp only [Cell.get, nwCell]
      exact vadd_some hz

theorem fitEnd_pos (t : Table) (C : Nat) : ∀ (n y : Nat) (best : Nat × V), 1 ≤ y →
    (1 ≤ best.1 ∨ (best.2 = none ∧ 1 ≤ n)) → 1 ≤ fitEnd t C n y best := by
  intro n
  induction n with
  | zero =>
    intro y best _ h
    rcases h with h | ⟨_, h⟩
    · exact h
    · omega
  | succ n ih =>
    intro y best hy h
    simp only [fitEnd]
    apply ih (y + 1) _ (by omega)
    left
    split
    · rename_i hgt
      rcases h with h | ⟨h, _⟩
      · exact h
      · rw [h] at hgt; simp [vgt] at hgt
    · exact hy

/-- an admissible alignment of a fitted cell in the last column is a fitted alignment -/
theorem fitted_of_adm (r q : List Nat) (e : Nat) (he : e ≤ r.length) (a : Aln)
    (h : Adm flF (r.take e) q a) : IsFitted a r q e ∧ NoAdj a := by
  obtain ⟨hr, hq, hn⟩ := h
  simp only [fits, flF, if_true, Bool.false_eq_true, if_false] at hr hq
  refine ⟨⟨(r.take e).length - (projR a).length, ?_, he, ?_, hq⟩, ?_⟩
  · have := List.length_take_le e r; omega
  · exact List.suffix_iff_eq_drop.mp hr
  · rcases hn with hn | hn
    · cases hn
    · exact hn

theorem fit_d_some (cross : Bool) (S : Matrix) (o : Int) (r q : List Nat) (i j : Nat) (hi : i < r.length) (hj : j < q.length) :
    ∃ x, (fitAt cross S o r q (i + 1) (j + 1)).d = some x := by
  obtain ⟨k, w, hw⟩ := fit_some cross S o r q i (by omega) j (by omega)
  obtain ⟨z, hz⟩ := max3_some hw
  refine ⟨z + S (r.getD i 0) (q.getD j 0), ?_⟩
  rw [fitAt_inner cross S o r q i j hi hj]
  simp only [nwCell]
  exact vadd_some hz

theorem exists_cand_fit (cross : Bool) (S : Matrix) (o : Int) (r q : List Nat) (i j : Nat) (hi : i < r.length)
    (hj : j < q.length) (k : Kind) (v : Int)
    (h : ((fitTable cross S o r q).at (i + 1) (j + 1)).get k = some v) (_ : ¬ ((false : Bool) = true ∧ v = 0)) :
    ∃ cd ∈ cands cross false S o (r.getD i 0) (q.getD j 0), cd.1 = k ∧
      vadd ((predOf (fitTable cross S o r q) (i + 1) (j + 1) cd.1).get cd.2.1) cd.2.2 = some v := by
  apply Biogo.Proofs.NWAffine.exists_cand_of_inner i j _ k v h
  rw [fitTable_at cross S o r q (i + 1) (j + 1) (by omega), fitTable_at cross S o r q i j (by omega),
    fitTable_at cross S o r q i (j + 1) (by omega), fitTable_at cross S o r q (i + 1) j (by omega)]
  exact fitAt_inner cross S o r q i j hi hj

/-- The pairs reported by the model of `FittedAffine` before the repairs of K1 and K3 end at the
    selected row `e ≥ 1`, and their total is the match-layer value of the last column of that row. -/
theorem fitAlign_value (S : Matrix) (o : Int) (r q : List Nat) (hr : r ≠ []) (hq : q ≠ []) :
    ∃ ps e x, fitAlignLegacy S o r q = .ok ps ∧ (lastEnd ps).1 = e ∧ 1 ≤ e ∧ e ≤ r.length ∧
      (fitAt false S o r q e q.length).d = some x ∧ total ps = x := by
  have hR : 1 ≤ r.length := by cases r with | nil => exact absurd rfl hr | cons _ _ => simp
  have hC : 1 ≤ q.length := by cases q with | nil => exact absurd rfl hq | cons _ _ => simp
  have hE : fitEnd (fitTable false S o r q) q.length r.length 1 (0, none) ≤ r.length :=
    Biogo.Proofs.TraceWF.fitEnd_le _ _ _ _ _ _ (Nat.zero_le _) (by omega)
  have hE1 : 1 ≤ fitEnd (fitTable false S o r q) q.length r.length 1 (0, none) :=
    fitEnd_pos _ _ _ _ _ (Nat.le_refl _) (Or.inr ⟨rfl, hR⟩)
  generalize he : fitEnd (fitTable false S o r q) q.length r.length 1 (0, none) = e at hE hE1
  obtain ⟨e', rfl⟩ : ∃ e', e = e' + 1 := ⟨e - 1, by omega⟩
  obtain ⟨C', hC'⟩ : ∃ C', q.length = C' + 1 := ⟨q.length - 1, by omega⟩
  obtain ⟨x, hx⟩ := fit_d_some false S o r q e' C' (by omega) (by omega)
  have hinit : Good (fitTable false S o r q) r.length q.length x
      { i := e' + 1, j := q.length, layer := .m, last := .m, score := 0, maxI := e' + 1,
        maxJ := q.length, aln := [] } := by
    refine ⟨hE, Nat.le_refl _, x, ?_, by simp [total]⟩
    simp only []
    rw [fitTable_at false S o r q _ _ (Nat.le_refl _), hC']; exact hx
  obtain ⟨st', hloop, ⟨hi', hj', v, hv, hsum⟩, hend⟩ :=
    loop_good_gen true false false r.length q.length (exists_cand_fit false S o r q) x (e' + 1 + q.length) _ hinit
      (Nat.le_refl _)
  have hinv := Biogo.Proofs.TraceWF.loop_inv true false false _ S o r q r.length q.length (e' + 1) q.length _ _ st'
    (Biogo.Proofs.TraceWF.init_inv r.length q.length (e' + 1) q.length .m hE (Nat.le_refl _)) hloop
  obtain ⟨_, hlast, _⟩ := Biogo.Proofs.TraceWF.emit_wf hinv
  have hne : st'.emit.aln ≠ [] := by simp [TB.emit]
  -- the value the loop stops on
  rw [fitTable_at false S o r q _ _ hj'] at hv
  have hxd : (fitAt false S o r q (e' + 1) q.length).d = some x := by rw [hC']; exact hx
  unfold fitAlignLegacy fitAlignT
  simp only [Bool.false_eq_true, if_false, he, hloop]
  by_cases hj0 : st'.j ≠ 0
  · rw [if_pos hj0]
    have hi0 : st'.i = 0 := by
      rcases hend with h | h | h
      · exact h
      · exact absurd h hj0
      · exact absurd h.1 (by simp)
    obtain ⟨j', hj'e⟩ : ∃ j', st'.j = j' + 1 := ⟨st'.j - 1, by omega⟩
    have hl : st'.layer = .l ∧ (fitAt false S o r q 0 (j' + 1)).l = some v := by
      rw [hi0, hj'e, fitAt_row0 false S o r q _ false, optRows_row0 _ S o r q j' (by omega)] at hv
      cases hk : st'.layer <;> rw [hk] at hv <;> simp [Cell.get, Biogo.Proofs.NWAffine.flN, emptyAt] at hv
      refine ⟨rfl, ?_⟩
      rw [fitAt_row0 false S o r q _ false, optRows_row0 _ S o r q j' (by omega)]
      exact hv
    refine ⟨_, e' + 1, x, rfl, ?_, hE1, hE, hxd, ?_⟩
    · rw [Biogo.Proofs.TraceWF.lastEnd_cons _ _ hne, hlast]
    · simp only [total_cons, TB.emit]
      rw [fitTable_at false S o r q _ _ hj', hi0, hj'e, hl.2]
      simp only [vget]
      omega
  · have hj0' : st'.j = 0 := Decidable.not_not.mp hj0
    rw [if_neg hj0]
    have hv0 : v = 0 := by
      rw [hj0'] at hv
      cases hi0 : st'.i with
      | zero =>
        rw [hi0, fitAt_row0 false S o r q _ false, optRows_origin] at hv
        cases hk : st'.layer <;> rw [hk] at hv <;> simp [Cell.get, origin] at hv
        omega
      | succ i0 =>
        rw [hi0, fitAt_col0 false S o r q i0 (by omega)] at hv
        cases hk : st'.layer <;> rw [hk] at hv <;> simp [Cell.get] at hv
        omega
    refine ⟨_, e' + 1, x, rfl, ?_, hE1, hE, hxd, ?_⟩
    · rw [hlast]
    · simp only [total_cons, TB.emit]
      omega

/-- **FittedAffine before the repairs, as far as C08 held**: the reported total is the score of
    an alignment of the whole query with a reference segment that ends at the reported end,
    without adjacent opposite gaps. -/
theorem fitAlign_sound (S : Matrix) (o : Int) (r q : List Nat) (hr : r ≠ []) (hq : q ≠ []) :
    ∃ ps, fitAlignLegacy S o r q = .ok ps ∧ (lastEnd ps).1 ≤ r.length ∧
      ∃ a, IsFitted a r q (lastEnd ps).1 ∧ NoAdj a ∧ scoreAff S o a = total ps := by
  have hC : 1 ≤ q.length := by cases q with | nil => exact absurd rfl hq | cons _ _ => simp
  obtain ⟨ps, e, x, hps, hend, _, heR, hx, htot⟩ := fitAlign_value S o r q hr hq
  have hstrong := fitRows_strong S o r q e q.length heR hC (Nat.le_refl _) .m x hx
  rw [List.take_length] at hstrong
  obtain ⟨a, ha, hsc⟩ := hstrong
  obtain ⟨hfit, hna⟩ := fitted_of_adm r q e heR a ha.1
  refine ⟨ps, hps, by rw [hend]; exact heR, a, by rw [hend]; exact hfit, hna, by rw [hsc, htot]⟩

end Biogo.Proofs.FittedAffine
