/-
Facts about slices on a heap of any element type (used for the heap of `seq.Annotation`):
allocation, Go `append`, the in-place delete idiom `s[:i+copy(s[i:], s[i+1:])]`, an in-place
update.  Core-only.
-/
import Biogo.Model.ContAnn
import Biogo.Proofs.ContAln
import Biogo.Proofs.ContAppend

namespace Biogo.Containers
open Biogo.Go

section generic
variable {α : Type}

/-- a slice with its capacity inside an allocated array (any element type) -/
def CapValidG (h : Heap α) (s : Slice) : Prop :=
  s.arr < h.arrays.length ∧ s.len ≤ s.cap ∧ s.off + s.cap ≤ (h.arr s.arr).length

theorem CapValidG.length_read {h : Heap α} {s : Slice} (hv : CapValidG h s) : (h.read s).length = s.len := by
  simp only [Heap.read, List.length_take, List.length_drop]
  have := hv.2.1; have := hv.2.2
  omega

theorem CapValidG.mono {h h' : Heap α} {s : Slice} (hv : CapValidG h s)
    (hl : h.arrays.length ≤ h'.arrays.length) (ha : h'.arr s.arr = h.arr s.arr) : CapValidG h' s :=
  ⟨Nat.lt_of_lt_of_le hv.1 hl, hv.2.1, by rw [ha]; exact hv.2.2⟩

theorem ofList_factsG (h : Heap α) (xs : List α) (cap : Nat) (z : α) :
    (h.ofList xs cap z).2.arr = h.arrays.length ∧
    (h.ofList xs cap z).2.len = xs.length ∧
    (h.ofList xs cap z).1.arrays.length = h.arrays.length + 1 ∧
    CapValidG (h.ofList xs cap z).1 (h.ofList xs cap z).2 ∧
    (∀ b, b < h.arrays.length → (h.ofList xs cap z).1.arr b = h.arr b) ∧
    (h.ofList xs cap z).1.read (h.ofList xs cap z).2 = xs := by
  have hsz : (h.ofList xs cap z).1.arrays.length = h.arrays.length + 1 := Heap.size_ofList _ _ _ _
  refine ⟨rfl, rfl, hsz, ⟨?_, ?_, ?_⟩, fun b hb => ?_, Heap.read_ofList _ _ _ _⟩
  · rw [hsz]; exact Nat.lt_succ_self _
  · simp only [Heap.ofList]; omega
  · rw [show (h.ofList xs cap z).2.arr
          = (h.alloc (xs ++ List.replicate (max xs.length cap - xs.length) z)).2 from rfl]
    simp only [Heap.ofList]
    rw [Heap.arr_alloc_new]
    simp only [List.length_append, List.length_replicate]
    omega
  · simp only [Heap.ofList]; exact Heap.arr_alloc_old _ _ _ hb

/-- Go `append` on any heap -/
theorem append_specG (grow : Nat → Nat → Nat) (h : Heap α) (s : Slice) (xs : List α) (z : α) (hv : CapValidG h s) :
    (h.append grow s xs z).1.read (h.append grow s xs z).2 = h.read s ++ xs ∧
    CapValidG (h.append grow s xs z).1 (h.append grow s xs z).2 ∧
    ((h.append grow s xs z).2.arr = s.arr ∨ h.arrays.length ≤ (h.append grow s xs z).2.arr) ∧
    (∀ b, b ≠ s.arr → b < h.arrays.length → (h.append grow s xs z).1.arr b = h.arr b) ∧
    h.arrays.length ≤ (h.append grow s xs z).1.arrays.length := by
  obtain ⟨ha, hlc, hcap⟩ := hv
  by_cases hfit : s.len + xs.length ≤ s.cap
  · have happ : h.append grow s xs z =
        (h.writeList ⟨s.arr, s.off + s.len, xs.length, s.cap - s.len⟩ xs, { s with len := s.len + xs.length }) := by
      simp only [Heap.append, hfit, if_true]
    rw [happ]
    have hw := arr_writeList_same h ⟨s.arr, s.off + s.len, xs.length, s.cap - s.len⟩ xs ha
    simp only [Nat.min_self] at hw
    rw [List.take_of_length_le (Nat.le_refl _)] at hw
    refine ⟨?_, ⟨by rw [length_writeList]; exact ha, by simp only; omega, ?_⟩, Or.inl rfl, ?_, ?_⟩
    · show (((h.writeList ⟨s.arr, s.off + s.len, xs.length, s.cap - s.len⟩ xs).arr s.arr).drop s.off).take
          (s.len + xs.length) = ((h.arr s.arr).drop s.off).take s.len ++ xs
      rw [hw]
      exact append_list (h.arr s.arr) xs s.off s.len (by omega)
    · show s.off + s.cap ≤ ((h.writeList ⟨s.arr, s.off + s.len, xs.length, s.cap - s.len⟩ xs).arr s.arr).length
      rw [hw]
      simp only [List.length_append, List.length_take, List.length_drop]
      omega
    · intro b hb _
      exact arr_writeList_other _ _ _ _ (Ne.symm hb)
    · rw [length_writeList]; exact Nat.le_refl _
  · have happ : h.append grow s xs z = h.ofList (h.read s ++ xs) (grow s.cap (s.len + xs.length)) z := by
      simp only [Heap.append, hfit, if_false]
    rw [happ]
    obtain ⟨oarr, _, osz, ovalid, oold, oread⟩ := ofList_factsG h (h.read s ++ xs) (grow s.cap (s.len + xs.length)) z
    exact ⟨oread, ovalid, Or.inr (by rw [oarr]; exact Nat.le_refl _), fun b _ hb => oold b hb, by rw [osz]; omega⟩

/-- the delete idiom `s[:i+copy(s[i:], s[i+1:])]` on any heap -/
theorem delSlice_spec (h : Heap α) (c : Slice) (i : Nat) (hv : CapValidG h c) (hi : i < c.len) :
    (delSlice h c i).1.read (delSlice h c i).2 = (h.read c).eraseIdx i ∧
    CapValidG (delSlice h c i).1 (delSlice h c i).2 ∧
    (delSlice h c i).2.arr = c.arr ∧
    (∀ b, b ≠ c.arr → (delSlice h c i).1.arr b = h.arr b) ∧
    (delSlice h c i).1.arrays.length = h.arrays.length := by
  obtain ⟨ha, hcap, harr⟩ := hv
  have s1 : c.slice i c.len = some ⟨c.arr, c.off + i, c.len - i, c.cap - i⟩ := by
    simp only [Slice.slice]; rw [if_pos ⟨by omega, hcap⟩]
  have s2 : c.slice (i + 1) c.len = some ⟨c.arr, c.off + (i + 1), c.len - (i + 1), c.cap - (i + 1)⟩ := by
    simp only [Slice.slice]; rw [if_pos ⟨by omega, hcap⟩]
  have hsrc : (h.read ⟨c.arr, c.off + (i + 1), c.len - (i + 1), c.cap - (i + 1)⟩).length = c.len - (i + 1) := by
    simp only [Heap.read, List.length_take, List.length_drop]; omega
  have hmin : min (c.len - i) (c.len - (i + 1)) = c.len - (i + 1) := by omega
  have hw := arr_writeList_same h ⟨c.arr, c.off + i, c.len - i, c.cap - i⟩
    (h.read ⟨c.arr, c.off + (i + 1), c.len - (i + 1), c.cap - (i + 1)⟩) ha
  simp only [hsrc, hmin] at hw
  have hdel : delSlice h c i =
      (h.writeList ⟨c.arr, c.off + i, c.len - i, c.cap - i⟩
          (h.read ⟨c.arr, c.off + (i + 1), c.len - (i + 1), c.cap - (i + 1)⟩),
       { c with len := i + (c.len - (i + 1)) }) := by
    simp only [delSlice, s1, s2, Heap.copy, hmin]
  rw [hdel]
  have hw' : (h.writeList ⟨c.arr, c.off + i, c.len - i, c.cap - i⟩
        (h.read ⟨c.arr, c.off + (i + 1), c.len - (i + 1), c.cap - (i + 1)⟩)).arr c.arr
      = (h.arr c.arr).take (c.off + i) ++ (((h.arr c.arr).drop (c.off + (i + 1))).take (c.len - (i + 1)))
        ++ (h.arr c.arr).drop (c.off + i + (c.len - (i + 1))) := by
    rw [hw]
    congr 2
    rw [List.take_of_length_le (by rw [hsrc]; exact Nat.le_refl _)]
    rfl
  refine ⟨?_, ⟨by rw [length_writeList]; exact ha, by simp only; omega, ?_⟩, rfl, ?_, length_writeList _ _ _⟩
  · show (((h.writeList ⟨c.arr, c.off + i, c.len - i, c.cap - i⟩
          (h.read ⟨c.arr, c.off + (i + 1), c.len - (i + 1), c.cap - (i + 1)⟩)).arr c.arr).drop c.off).take
            (i + (c.len - (i + 1))) = (((h.arr c.arr).drop c.off).take c.len).eraseIdx i
    rw [hw']
    exact del_list (h.arr c.arr) c.off c.len i hi (by omega)
  · show c.off + c.cap ≤ ((h.writeList ⟨c.arr, c.off + i, c.len - i, c.cap - i⟩
          (h.read ⟨c.arr, c.off + (i + 1), c.len - (i + 1), c.cap - (i + 1)⟩)).arr c.arr).length
    rw [hw']
    simp only [List.length_append, List.length_take, List.length_drop]
    omega
  · intro b hb
    exact arr_writeList_other _ _ _ _ (Ne.symm hb)

theorem modify_eq_set {l : List α} {r : Nat} {x : α} (f : α → α) (hx : l[r]? = some x) :
    l.modify r f = l.set r (f x) := by
  apply List.ext_getElem?
  intro i
  rw [List.getElem?_modify, List.getElem?_set]
  by_cases e : r = i
  · subst e
    obtain ⟨hlt, hget⟩ := List.getElem?_eq_some_iff.mp hx
    simp [hlt, hget]
  · simp only [e, if_false]; cases l[i]? <;> rfl

theorem modify_eq_self {l : List α} {r : Nat} (f : α → α) (hx : l[r]? = none) : l.modify r f = l := by
  apply List.ext_getElem?
  intro i
  rw [List.getElem?_modify]
  by_cases e : r = i
  · subst e; rw [hx]; rfl
  · simp only [e, if_false]; cases l[i]? <;> rfl

/-- an in-place update of one element -/
theorem modSlice_spec (h : Heap α) (s : Slice) (r : Nat) (f : α → α) (hv : CapValidG h s) :
    (modSlice h s r f).read s = (h.read s).modify r f ∧ CapValidG (modSlice h s r f) s ∧
    (∀ b, b ≠ s.arr → (modSlice h s r f).arr b = h.arr b) ∧
    (modSlice h s r f).arrays.length = h.arrays.length := by
  unfold modSlice
  cases hx : h.get? s r with
  | none =>
    rw [Heap.get?_eq_read] at hx
    exact ⟨(modify_eq_self f hx).symm, hv, fun _ _ => rfl, rfl⟩
  | some x =>
    rw [Heap.get?_eq_read] at hx
    refine ⟨?_, ⟨by rw [Heap.length_set]; exact hv.1, hv.2.1, by rw [Heap.length_arr_set]; exact hv.2.2⟩, ?_,
      Heap.length_set _ _ _ _⟩
    · simp only
      rw [Heap.read_set_same h s r (f x) hv.1, modify_eq_set f hx]
    · intro b hb
      exact Heap.arr_set_other _ _ _ _ _ (Ne.symm hb)

end generic

/-- the loop of `Add` over the annotation slice: one Go `append` per added sequence -/
theorem appendAnns_spec (grow : Nat → Nat → Nat) : ∀ (xs : List Ann) (h : Heap Ann) (s : Slice), CapValidG h s →
    (appendAnns grow h s xs).1.read (appendAnns grow h s xs).2 = h.read s ++ xs ∧
    CapValidG (appendAnns grow h s xs).1 (appendAnns grow h s xs).2 ∧
    ((appendAnns grow h s xs).2.arr = s.arr ∨ h.arrays.length ≤ (appendAnns grow h s xs).2.arr) ∧
    (∀ b, b ≠ s.arr → b < h.arrays.length → (appendAnns grow h s xs).1.arr b = h.arr b) ∧
    h.arrays.length ≤ (appendAnns grow h s xs).1.arrays.length := by
  intro xs
  induction xs with
  | nil => intro h s hv; exact ⟨by simp [appendAnns], hv, Or.inl rfl, fun _ _ _ => rfl, Nat.le_refl _⟩
  | cons x xs ih =>
    intro h s hv
    obtain ⟨a1, a2, a3, a4, a5⟩ := append_specG grow h s [x] zeroAnn hv
    obtain ⟨b1, b2, b3, b4, b5⟩ := ih (h.append grow s [x] zeroAnn).1 (h.append grow s [x] zeroAnn).2 a2
    have hfold : appendAnns grow h s (x :: xs)
        = appendAnns grow (h.append grow s [x] zeroAnn).1 (h.append grow s [x] zeroAnn).2 xs := rfl
    rw [hfold]
    refine ⟨by rw [b1, a1]; simp, b2, ?_, ?_, Nat.le_trans a5 b5⟩
    · rcases b3 with e | e
      · rcases a3 with e' | e'
        · exact Or.inl (by rw [e, e'])
        · exact Or.inr (by rw [e]; exact e')
      · exact Or.inr (Nat.le_trans a5 e)
    · intro b hb hbl
      have hb' : b ≠ (h.append grow s [x] zeroAnn).2.arr := by
        rcases a3 with e' | e'
        · rw [e']; exact hb
        · omega
      rw [b4 b hb' (by omega), a4 b hb hbl]

end Biogo.Containers
