/-
Whole usage histories of the concurrent sorter model under every schedule and every single
fault.  The caller's program is `histOps H` for a list of use cycles `H`; while the caller is
in the j-th cycle the state, *viewed* without the finished writers and outputs of the earlier
cycles and without the operations of the later ones (`proj`), is a state of the one-cycle
system for which `Proofs/MorassCycle.lean` establishes the cycle invariant `CInv`.  The view
commutes with every step (`proj_cstep`, `proj_wstep`), and when a cycle is over the state is a
fresh one for the next cycle (`Fresh` + all writers finished).  Core Lean only.
-/
import Biogo.Model.MorassConc
import Biogo.Spec.Morass
import Biogo.Proofs.Morass
import Biogo.Proofs.MorassConc
import Biogo.Proofs.MorassCycle

namespace Biogo.MorassConc
open Biogo.Morass Biogo.Interleave

/-! ### the view of one cycle -/

/-- what is hidden: the first `n0` writers (spawned by earlier cycles), the oldest `npre`
    outputs, the last `nrest` operations of the program -/
structure View where
  n0 : Nat
  npre : Nat
  nrest : Nat

def proj (v : View) (s : CState) : CState :=
  { s with writers := s.writers.drop v.n0,
           outs := s.outs.take (s.outs.length - v.npre),
           prog := s.prog.take (s.prog.length - v.nrest) }

/-- the same state with other writers / outputs / program -/
def withWOP (s : CState) (A : List Writer) (B : List Out) (C : List Op) : CState :=
  { s with writers := A, outs := B, prog := C }

theorem proj_eq (v : View) (s : CState) :
    proj v s = withWOP s (s.writers.drop v.n0) (s.outs.take (s.outs.length - v.npre))
      (s.prog.take (s.prog.length - v.nrest)) := rfl

/-! ### `Clear`, `Pull` and the writer blocks do not look at writers, outputs or program -/

theorem clearF_with (s : CState) (A : List Writer) (B : List Out) (C : List Op) :
    clearF (withWOP s A B C) = (withWOP (clearF s).1 A B C, (clearF s).2) := by
  unfold clearF withWOP
  simp only
  cases clearLoop s.flt s.onDisk s.m.files with
  | mk flt rest =>
    obtain ⟨d, ok⟩ := rest
    cases ok <;> rfl

theorem atEof_with (s : CState) (A : List Writer) (B : List Out) (C : List Op) :
    atEof (withWOP s A B C) = withWOP (atEof s) A B C := by
  unfold atEof withWOP
  simp only
  split <;> rfl

theorem condClear_with (b : Bool) (s : CState) (A : List Writer) (B : List Out) (C : List Op) :
    (if b = true then (clearF (withWOP s A B C)).1 else withWOP s A B C)
      = withWOP (if b = true then (clearF s).1 else s) A B C := by
  cases b
  · rfl
  · simp only [if_true, clearF_with]

theorem pullF_with (s : CState) (A : List Writer) (B : List Out) (C : List Op) :
    pullF (withWOP s A B C) = (withWOP (pullF s).1 A B C, (pullF s).2) := by
  have eofcase : ∀ s1 : CState,
      atEof (if s.m.autoClear = true then (clearF (withWOP s1 A B C)).1 else withWOP s1 A B C)
        = withWOP (atEof (if s.m.autoClear = true then (clearF s1).1 else s1)) A B C := by
    intro s1; rw [condClear_with, atEof_with]
  cases hf : s.m.fast
  · cases hpm : popMin s.m.files with
    | none =>
      have e1 : pullF s = (atEof (if s.m.autoClear = true then (clearF s).1 else s), .eof, none) := by
        simp [pullF, hf, hpm]
      have e2 : pullF (withWOP s A B C)
          = (atEof (if s.m.autoClear = true then (clearF (withWOP s A B C)).1 else withWOP s A B C), .eof, none) := by
        simp [pullF, withWOP, hf, hpm]; rfl
      rw [e1, e2, eofcase]
    | some p =>
      obtain ⟨low, others⟩ := p
      cases ht : tick s.flt .pdecode with
      | mk bad flt =>
        cases bad <;> cases hr : low.rest <;> cases hh : low.head <;>
          simp [pullF, withWOP, hf, hpm, ht, hr, hh] <;> rfl
  · cases hch : s.m.chunk with
    | none =>
      have e1 : pullF s = (atEof (if s.m.autoClear = true then (clearF s).1 else s), .eof, none) := by
        simp [pullF, hf, hch]
      have e2 : pullF (withWOP s A B C)
          = (atEof (if s.m.autoClear = true then (clearF (withWOP s A B C)).1 else withWOP s A B C), .eof, none) := by
        simp [pullF, withWOP, hf, hch]; rfl
      rw [e1, e2, eofcase]
    | some ch =>
      cases hg : ch[s.m.pos]? with
      | some e => simp [pullF, withWOP, hf, hch, hg]
      | none =>
        by_cases h2 : 2 ≤ s.m.pool
        · simp [pullF, withWOP, hf, hch, hg, h2]
        · have e1 : pullF s = (atEof (if s.m.autoClear = true
                then (clearF { s with m := { s.m with pool := s.m.pool + 1, chunk := none } }).1
                else { s with m := { s.m with pool := s.m.pool + 1, chunk := none } }), .eof, none) := by
            simp [pullF, hf, hch, hg, h2]
          have e2 : pullF (withWOP s A B C) = (atEof (if s.m.autoClear = true
                then (clearF (withWOP { s with m := { s.m with pool := s.m.pool + 1, chunk := none } } A B C)).1
                else withWOP { s with m := { s.m with pool := s.m.pool + 1, chunk := none } } A B C), .eof, none) := by
            simp [pullF, withWOP, hf, hch, hg, h2]
          rw [e1, e2, eofcase]

theorem wstep_with (s : CState) (w : Writer) (A : List Writer) (B : List Out) (C : List Op) :
    wstep (withWOP s A B C) w = (wstep s w).map (fun p => (p.1, withWOP p.2 A B C)) := by
  unfold wstep withWOP
  cases hpc : w.pc <;> simp only
  · cases hr : s.writable.recv with
    | none => rfl
    | some p =>
      obtain ⟨r, ch⟩ := p
      simp only
      by_cases hb : (tick s.flt .tempfile).1 = true <;> simp [hb]
  · rfl
  · cases htodo : w.todo with
    | nil => rfl
    | cons e t =>
      simp only
      by_cases hb : (tick s.flt .encode).1 = true <;> simp [hb]
  · rfl
  · split <;> rfl
  · rfl

/-! ### list bookkeeping for the view -/

theorem take_sub_cons {α} (a : α) (l : List α) (n : Nat) (h : n ≤ l.length) :
    (a :: l).take ((a :: l).length - n) = a :: l.take (l.length - n) := by
  have : (a :: l).length - n = (l.length - n) + 1 := by simp only [List.length_cons]; omega
  rw [this, List.take_succ_cons]

theorem take_sub_tail {α} (l : List α) (n : Nat) (h : n < l.length) :
    l.tail.take (l.tail.length - n) = (l.take (l.length - n)).tail := by
  cases l with
  | nil => simp at h
  | cons a t =>
    simp only [List.length_cons] at h
    rw [take_sub_cons a t n (by omega)]
    rfl

theorem take_sub_head {α} (l : List α) (n : Nat) (a : α) (r : List α) (h : n < l.length) (hl : l = a :: r) :
    l.take (l.length - n) = a :: r.take (r.length - n) := by
  subst hl
  simp only [List.length_cons] at h
  exact take_sub_cons a r n (by omega)

/-- dropping while `p` commutes with hiding the last `n` entries -/
theorem take_sub_dropWhile {α} (p : α → Bool) (n : Nat) : ∀ (l : List α), n ≤ l.length →
    (l.dropWhile p).take ((l.dropWhile p).length - n) = (l.take (l.length - n)).dropWhile p := by
  intro l
  induction l with
  | nil => intro _; simp
  | cons a t ih =>
    intro h
    by_cases hn : n ≤ t.length
    · rw [take_sub_cons a t n hn]
      simp only [List.dropWhile_cons]
      split
      · exact ih hn
      · exact take_sub_cons a t n hn
    · -- everything is hidden
      have hlen : (a :: t).length = n := by simp only [List.length_cons] at h ⊢; omega
      have h1 : (a :: t).length - n = 0 := by omega
      have h2 : (List.dropWhile p (a :: t)).length - n = 0 := by
        have := (List.dropWhile_sublist p (l := a :: t)).length_le
        omega
      rw [h1, h2]; simp

theorem drop_set_ge {α} (l : List α) (n k : Nat) (a : α) (h : n ≤ k) :
    (l.set k a).drop n = (l.drop n).set (k - n) a := by
  induction n generalizing l k with
  | zero => simp
  | succ n ih =>
    cases l with
    | nil => simp
    | cons x xs =>
      cases k with
      | zero => omega
      | succ k =>
        simp only [List.set_cons_succ, List.drop_succ_cons]
        rw [ih xs k (by omega)]
        congr 1; omega

/-! ### the view commutes with the end of a call -/

theorem proj_finishOp (v : View) (s : CState) (r : Res) (x : Option Elem)
    (ho : v.npre ≤ s.outs.length) (hp : v.nrest < s.prog.length) :
    proj v (finishOp s r x) = finishOp (proj v s) r x := by
  have houts : (finishOp s r x).outs.take ((finishOp s r x).outs.length - v.npre)
      = ⟨r, x, s.m.len, s.m.pos⟩ :: s.outs.take (s.outs.length - v.npre) := by
    show (_ :: s.outs).take ((_ :: s.outs).length - v.npre) = _
    exact take_sub_cons _ _ _ ho
  have hprog : (finishOp s r x).prog.take ((finishOp s r x).prog.length - v.nrest)
      = (finishOp (proj v s) r x).prog := by
    simp only [finishOp, proj]
    by_cases h1 : r = .panic ∨ r = .hang
    · simp [h1]
    · simp only [h1, if_false]
      by_cases h2 : r = .ioerr
      · simp only [h2, if_true]
        by_cases hc : (s.conc && !s.reuse) = true
        · simp only [hc, if_true]; simp
        · simp only [hc, Bool.false_eq_true, if_false]
          have hle : v.nrest ≤ s.prog.tail.length := by rw [List.length_tail]; omega
          rw [take_sub_dropWhile _ _ s.prog.tail hle, take_sub_tail _ _ hp]
      · simp only [h2, if_false]
        exact take_sub_tail _ _ hp
  unfold proj
  rw [houts, hprog]
  rfl

/-! ### the blocks of the caller, back from the case list -/

theorem cstep_of_CStep {s t : CState} (h : CStep s t) : cstep s = some t := by
  cases h with
  | pushErr e rest r hpc hprog herr => simp [cstep, hpc, hprog, herr]
  | pushNil e rest hpc hprog herr hch => simp [cstep, hpc, hprog, herr, hch]
  | pushFull e rest ch hpc hprog herr hch hfull => simp [cstep, hpc, hprog, herr, hch, hfull]
  | pushRoom e rest ch hpc hprog herr hch hfull => simp [cstep, hpc, hprog, herr, hch, hfull]
  | finErr rest r hpc hprog herr => simp [cstep, hpc, hprog, herr]
  | finNil rest hpc hprog herr hch => simp [cstep, hpc, hprog, herr, hch]
  | finFast rest ch hpc hprog herr hch hlt => simp [cstep, hpc, hprog, herr, hch, hlt]
  | finDisk rest ch hpc hprog herr hch hlt hpos => simp [cstep, hpc, hprog, herr, hch, hlt, hpos]
  | finEmpty rest ch flt fs ok hpc hprog herr hch hlt hpos hp => simp [cstep, hpc, hprog, herr, hch, hlt, hpos, hp]
  | pull rest hpc hprog => simp [cstep, hpc, hprog]
  | clear rest hpc hprog => simp [cstep, hpc, hprog]
  | reject rest hpc hprog => simp [cstep, hpc, hprog]
  | send ch wr hpc hch hsend => simp [cstep, hpc, hch, hsend]
  | recvErr e rest r hpc hpool hprog herr => simp [cstep, hpc, hpool, hprog, herr]
  | recvOk e rest hpc hpool hprog herr => simp [cstep, hpc, hpool, hprog, herr]
  | fsend ch wr hpc hch hsend => simp [cstep, hpc, hch, hsend]
  | fwrite w s' hpc hw => simp [cstep, hpc, hw]
  | waitErr r hpc hwg herr => simp [cstep, hpc, hwg, herr]
  | waitOk flt fs ok hpc hwg herr hp => simp [cstep, hpc, hwg, herr, hp]

/-- a block of `write()` leaves writers, outputs and program alone -/
theorem wstep_wop {s s' : CState} {w w' : Writer} (h : wstep s w = some (w', s')) :
    s'.writers = s.writers ∧ s'.outs = s.outs ∧ s'.prog = s.prog := by
  unfold wstep at h
  cases hpc : w.pc <;> simp only [hpc] at h
  · cases hr : s.writable.recv with
    | none => simp [hr] at h
    | some p =>
      obtain ⟨r, ch⟩ := p
      simp only [hr] at h
      cases ht : tick s.flt .tempfile with
      | mk bad flt =>
        simp only [ht] at h
        cases bad <;> simp only [Bool.false_eq_true, if_false, if_true, Option.some.injEq, Prod.mk.injEq] at h <;>
          obtain ⟨_, rfl⟩ := h <;> exact ⟨rfl, rfl, rfl⟩
  · simp only [Option.some.injEq, Prod.mk.injEq] at h; obtain ⟨_, rfl⟩ := h; exact ⟨rfl, rfl, rfl⟩
  · cases htodo : w.todo with
    | nil => simp only [htodo, Option.some.injEq, Prod.mk.injEq] at h; obtain ⟨_, rfl⟩ := h; exact ⟨rfl, rfl, rfl⟩
    | cons e t =>
      simp only [htodo] at h
      cases ht : tick s.flt .encode with
      | mk bad flt =>
        simp only [ht] at h
        cases bad <;> simp only [Bool.false_eq_true, if_false, if_true, Option.some.injEq, Prod.mk.injEq] at h <;>
          obtain ⟨_, rfl⟩ := h <;> exact ⟨rfl, rfl, rfl⟩
  · cases ht : tick s.flt .sync with
    | mk bad flt =>
      simp only [ht, Option.some.injEq, Prod.mk.injEq] at h
      obtain ⟨_, rfl⟩ := h; exact ⟨rfl, rfl, rfl⟩
  · split at h
    · simp only [Option.some.injEq, Prod.mk.injEq] at h; obtain ⟨_, rfl⟩ := h; exact ⟨rfl, rfl, rfl⟩
    · simp at h
  · simp at h

/-- the view commutes with a block of `write()` -/
theorem proj_wstep (v : View) {s s' : CState} {w w' : Writer} (h : wstep s w = some (w', s')) :
    wstep (proj v s) w = some (w', proj v s') := by
  obtain ⟨h1, h2, h3⟩ := wstep_wop h
  rw [proj_eq, wstep_with, h, proj_eq, h1, h2, h3]
  rfl

theorem proj_prog_cons (v : View) {s : CState} {op : Op} {rest : List Op} (hp : v.nrest < s.prog.length)
    (h : s.prog = op :: rest) : (proj v s).prog = op :: rest.take (rest.length - v.nrest) :=
  take_sub_head s.prog v.nrest op rest hp h

theorem proj_pullF (v : View) (s : CState) :
    proj v (pullF s).1 = (pullF (proj v s)).1 ∧ (pullF (proj v s)).2 = (pullF s).2 := by
  have fr := pullF_frame s
  rw [proj_eq v s, pullF_with, proj_eq, fr.writers, fr.outs, fr.prog]
  exact ⟨rfl, rfl⟩

theorem proj_clearF (v : View) (s : CState) :
    proj v (clearF s).1 = (clearF (proj v s)).1 ∧ (clearF (proj v s)).2 = (clearF s).2 := by
  have fr := clearF_frame s
  rw [proj_eq v s, clearF_with, proj_eq, fr.writers, fr.outs, fr.prog]
  exact ⟨rfl, rfl⟩

/-- **the view commutes with every block of the caller**, as long as the hidden part of the
    program has not been reached -/
theorem proj_CStep (v : View) {s t : CState} (hw : v.n0 ≤ s.writers.length) (ho : v.npre ≤ s.outs.length)
    (hp : v.nrest < s.prog.length) (h : CStep s t) : CStep (proj v s) (proj v t) := by
  cases h with
  | pushErr e rest r hpc hprog herr =>
    rw [proj_finishOp v s r none ho hp]
    exact .pushErr e _ r hpc (proj_prog_cons v hp hprog) herr
  | pushNil e rest hpc hprog herr hch =>
    rw [proj_finishOp v s _ none ho hp]
    exact .pushNil e _ hpc (proj_prog_cons v hp hprog) herr hch
  | pushFull e rest ch hpc hprog herr hch hfull =>
    exact .pushFull e _ ch hpc (proj_prog_cons v hp hprog) herr hch hfull
  | pushRoom e rest ch hpc hprog herr hch hfull =>
    rw [proj_finishOp v { s with m := (push s.m e).1 } .ok none ho hp]
    exact .pushRoom e _ ch hpc (proj_prog_cons v hp hprog) herr hch hfull
  | finErr rest r hpc hprog herr =>
    rw [proj_finishOp v s r none ho hp]
    exact .finErr _ r hpc (proj_prog_cons v hp hprog) herr
  | finNil rest hpc hprog herr hch =>
    rw [proj_finishOp v s _ none ho hp]
    exact .finNil _ hpc (proj_prog_cons v hp hprog) herr hch
  | finFast rest ch hpc hprog herr hch hlt =>
    rw [proj_finishOp v { s with m := (finalise s.m).1 } .ok none ho hp]
    exact .finFast _ ch hpc (proj_prog_cons v hp hprog) herr hch hlt
  | finDisk rest ch hpc hprog herr hch hlt hpos =>
    exact .finDisk _ ch hpc (proj_prog_cons v hp hprog) herr hch hlt hpos
  | finEmpty rest ch flt fs ok hpc hprog herr hch hlt hpos hprime =>
    rw [proj_finishOp v { s with flt := flt, m := { s.m with fast := false, pos := 0, files := fs } } _ none ho hp]
    exact .finEmpty _ ch flt fs ok hpc (proj_prog_cons v hp hprog) herr hch hlt hpos hprime
  | pull rest hpc hprog =>
    have fr := pullF_frame s
    rw [proj_finishOp v (pullF s).1 _ _ (by rw [fr.outs]; exact ho) (by rw [fr.prog]; exact hp)]
    obtain ⟨e1, e2⟩ := proj_pullF v s
    rw [e1, ← e2]
    exact .pull _ hpc (proj_prog_cons v hp hprog)
  | clear rest hpc hprog =>
    have fr := clearF_frame s
    rw [proj_finishOp v (clearF s).1 _ _ (by rw [fr.outs]; exact ho) (by rw [fr.prog]; exact hp)]
    obtain ⟨e1, e2⟩ := proj_clearF v s
    rw [e1, ← e2]
    exact .clear _ hpc (proj_prog_cons v hp hprog)
  | reject rest hpc hprog =>
    rw [proj_finishOp v s _ none ho hp]
    exact .reject _ hpc (proj_prog_cons v hp hprog)
  | send ch wr hpc hch hsend =>
    have e : proj v { s with writable := wr, wg := s.wg + 1, writers := s.writers ++ [{}], pc := CPc.pushRecv }
        = { proj v s with writable := wr, wg := (proj v s).wg + 1, writers := (proj v s).writers ++ [{}], pc := CPc.pushRecv } := by
      simp only [proj, List.drop_append_of_le_length hw]
    rw [e]
    exact .send ch wr hpc hch hsend
  | recvErr e rest r hpc hpool hprog herr =>
    rw [proj_finishOp v { s with m := { s.m with pool := s.m.pool - 1, chunk := some [] } } r none ho hp]
    exact .recvErr e _ r hpc hpool (proj_prog_cons v hp hprog) herr
  | recvOk e rest hpc hpool hprog herr =>
    rw [proj_finishOp v { s with m := { s.m with pool := s.m.pool - 1, chunk := some [e], pos := s.m.pos + 1, len := s.m.len + 1 } } .ok none ho hp]
    exact .recvOk e _ hpc hpool (proj_prog_cons v hp hprog) herr
  | fsend ch wr hpc hch hsend =>
    exact .fsend ch wr hpc hch hsend
  | fwrite w s' hpc hw' =>
    have e := proj_wstep v hw'
    exact .fwrite w (proj v s') hpc e
  | waitErr r hpc hwg herr =>
    rw [proj_finishOp v s r none ho hp]
    exact .waitErr r hpc hwg herr
  | waitOk flt fs ok hpc hwg herr hprime =>
    rw [proj_finishOp v { s with flt := flt, m := { s.m with pos := 0, files := fs } } _ none ho hp]
    exact .waitOk flt fs ok hpc hwg herr hprime

/-! ### the structural invariant of the view -/

theorem countP_drop_of_take {α} (p : α → Bool) (l : List α) (n : Nat) (h : ∀ x ∈ l.take n, p x = false) :
    (l.drop n).countP p = l.countP p := by
  have e : l.countP p = (l.take n).countP p + (l.drop n).countP p := by
    rw [← List.countP_append, List.take_append_drop]
  have z : (l.take n).countP p = 0 := List.countP_eq_zero.mpr (fun x hx => by simp [h x hx])
  omega

theorem cnt_proj (v : View) (s : CState) (p : Writer → Bool)
    (h : ∀ w ∈ s.writers.take v.n0, p w = false) : cnt p (proj v s) = cnt p s := by
  unfold cnt
  show (s.writers.drop v.n0).countP p + _ = _
  rw [countP_drop_of_take p s.writers v.n0 h]
  rfl

theorem Str_proj (v : View) {s : CState} (hs : Str s) (hold : ∀ w ∈ s.writers.take v.n0, w.pc = .done) :
    Str (proj v s) := by
  have e1 := cnt_proj v s live (fun w hw => (done_false (hold w hw)).1)
  have e2 := cnt_proj v s atRecv (fun w hw => (done_false (hold w hw)).2.1)
  have e3 := cnt_proj v s holding (fun w hw => (done_false (hold w hw)).2.2)
  have e4 : chunkTok (proj v s) = chunkTok s := rfl
  refine ⟨?_, ?_, ?_, ?_, hs.wcap, hs.inlLive⟩
  · rw [e1]; exact hs.wg
  · rw [e2]; exact hs.chan
  · rw [e3, e4]; exact hs.cap
  · intro h; rw [e3]; exact hs.recv h

/-! ### reported errors stay reported -/

theorem Reported_of_proj (v : View) {s : CState} (h : Reported (proj v s)) : Reported s := by
  obtain ⟨o, ho, hr⟩ := h
  exact ⟨o, List.mem_of_mem_take ho, hr⟩

theorem Reported_step {s t : CState} {i : Nat} (hs : Str s) (h : Reported s) (hst : step s i = some t) :
    Reported t := by
  cases i with
  | zero => exact Reported_cstep hs h (cstep_cases (show cstep s = some t from hst))
  | succ k =>
    simp only [step] at hst
    cases hk : s.writers[k]? with
    | none => simp [hk] at hst
    | some w =>
      simp only [hk] at hst
      cases hw : wstep s w with
      | none => simp [hw] at hst
      | some p =>
        obtain ⟨w', s'⟩ := p
        simp only [hw, Option.some.injEq] at hst; subst hst
        obtain ⟨o, ho, hr⟩ := h
        exact ⟨o, by show o ∈ s'.outs; rw [(wstep_wop hw).2.1]; exact ho, hr⟩

/-! ### what a block of the caller does to writers, outputs and program -/

theorem CStep_shape {s t : CState} (h : CStep s t) :
    (t.outs = s.outs ∧ t.prog = s.prog ∧ (t.writers = s.writers ∨ t.writers = s.writers ++ [newWriter]))
    ∨ (∃ s1 r x, t = finishOp s1 r x ∧ s1.outs = s.outs ∧ s1.prog = s.prog ∧ s1.writers = s.writers
          ∧ s1.conc = s.conc) := by
  cases h with
  | pushErr e rest r hpc hprog herr => exact Or.inr ⟨_, _, _, rfl, rfl, rfl, rfl, rfl⟩
  | pushNil e rest hpc hprog herr hch => exact Or.inr ⟨_, _, _, rfl, rfl, rfl, rfl, rfl⟩
  | pushFull e rest ch hpc hprog herr hch hfull => exact Or.inl ⟨rfl, rfl, Or.inl rfl⟩
  | pushRoom e rest ch hpc hprog herr hch hfull => exact Or.inr ⟨_, _, _, rfl, rfl, rfl, rfl, rfl⟩
  | finErr rest r hpc hprog herr => exact Or.inr ⟨_, _, _, rfl, rfl, rfl, rfl, rfl⟩
  | finNil rest hpc hprog herr hch => exact Or.inr ⟨_, _, _, rfl, rfl, rfl, rfl, rfl⟩
  | finFast rest ch hpc hprog herr hch hlt => exact Or.inr ⟨_, _, _, rfl, rfl, rfl, rfl, rfl⟩
  | finDisk rest ch hpc hprog herr hch hlt hpos => exact Or.inl ⟨rfl, rfl, Or.inl rfl⟩
  | finEmpty rest ch flt fs ok hpc hprog herr hch hlt hpos hp => exact Or.inr ⟨_, _, _, rfl, rfl, rfl, rfl, rfl⟩
  | pull rest hpc hprog =>
    have fr := pullF_frame s
    exact Or.inr ⟨_, _, _, rfl, fr.outs, fr.prog, fr.writers, fr.conc⟩
  | clear rest hpc hprog =>
    have fr := clearF_frame s
    exact Or.inr ⟨_, _, _, rfl, fr.outs, fr.prog, fr.writers, fr.conc⟩
  | reject rest hpc hprog => exact Or.inr ⟨_, _, _, rfl, rfl, rfl, rfl, rfl⟩
  | send ch wr hpc hch hsend => exact Or.inl ⟨rfl, rfl, Or.inr rfl⟩
  | recvErr e rest r hpc hpool hprog herr => exact Or.inr ⟨_, _, _, rfl, rfl, rfl, rfl, rfl⟩
  | recvOk e rest hpc hpool hprog herr => exact Or.inr ⟨_, _, _, rfl, rfl, rfl, rfl, rfl⟩
  | fsend ch wr hpc hch hsend => exact Or.inl ⟨rfl, rfl, Or.inl rfl⟩
  | fwrite w s' hpc hw =>
    obtain ⟨h1, h2, h3⟩ := wstep_wop hw
    exact Or.inl ⟨h2, h3, Or.inl h1⟩
  | waitErr r hpc hwg herr => exact Or.inr ⟨_, _, _, rfl, rfl, rfl, rfl, rfl⟩
  | waitOk flt fs ok hpc hwg herr hp => exact Or.inr ⟨_, _, _, rfl, rfl, rfl, rfl, rfl⟩

/-! ### the end of a cycle -/

theorem specCycle_res (ac : Bool) (ys : List Elem) (cy : Cycle) :
    ∀ o ∈ specCycle ac ys cy, o.res = .ok ∨ o.res = .eof := by
  intro o ho
  unfold specCycle at ho
  simp only [List.mem_append, List.mem_cons, List.mem_map, List.mem_range] at ho
  rcases ho with ⟨i, _, rfl⟩ | rfl | ⟨j, _, rfl⟩ | ho
  · exact Or.inl rfl
  · exact Or.inl rfl
  · cases ys[j]? with
    | some e => exact Or.inl rfl
    | none => exact Or.inr rfl
  · split at ho
    · simp only [List.mem_singleton] at ho; subst ho; exact Or.inl rfl
    · simp at ho

/-- while the caller is inside a call of a cycle, the cycle's program is not exhausted -/
theorem CInv_prog_ne {c : Nat} {ac : Bool} {cy : Cycle} {s : CState} (h : CInv c ac cy s)
    (hnr : ¬ Reported s) (hpc : s.pc ≠ .idle) : s.prog ≠ [] := by
  rcases h with hrep | hpend | ⟨_, hF | hZ | hD | hE⟩
  · exact absurd hrep hnr
  · obtain ⟨_, ⟨e, r, h'⟩ | ⟨r, h'⟩⟩ := hpend <;> rw [h'] <;> simp
  · obtain ⟨xs, todo, ch, cp, hF⟩ := hF
    rw [hF.prog]; cases todo <;> simp
  · obtain ⟨A, cp, hZ⟩ := hZ
    rw [hZ.prog]; simp
  · exact absurd hD.pc hpc
  · exact absurd hE.pc hpc

/-- the caller has returned from the last call of a closed cycle without an error: its outputs
    are those the property demands, every writer has finished, and the sorter is ready for the
    next cycle -/
theorem cycle_over {c : Nat} {ac : Bool} {cy : Cycle} {s : CState} (h : CInv c ac cy s)
    (hnr : ¬ Reported s) (hprog : s.prog = []) (hpc : s.pc = .idle) :
    Final ac cy s ∧ (∀ w ∈ s.writers, w.pc = .done) ∧ (cy.closed ac = true → Fresh c ac 1 s.m) := by
  rcases h with hrep | hpend | ⟨_, hF | hZ | hD | hE⟩
  · exact absurd hrep hnr
  · obtain ⟨_, ⟨e, r, h'⟩ | ⟨r, h'⟩⟩ := hpend <;> rw [hprog] at h' <;> cases h'
  · obtain ⟨xs, todo, ch, cp, hF⟩ := hF
    have := hF.prog; rw [hprog] at this
    cases todo <;> simp at this
  · obtain ⟨A, cp, hZ⟩ := hZ
    have := hZ.prog; rw [hprog] at this; cases this
  · obtain ⟨ds, e, k, hp, hcount, _, _, hcase⟩ := hD.ex
    rw [hprog] at hp
    have hcl : cy.clear = false := by
      cases hcl : cy.clear with
      | false => rfl
      | true => rw [hcl] at hp; cases k <;> simp [List.replicate_succ] at hp
    have hk : k = 0 := by
      cases k with
      | zero => rfl
      | succ k' => simp [List.replicate_succ] at hp
    subst hk
    refine ⟨D_final c ac cy hD hprog hcl, hD.quiet, ?_⟩
    intro hclosed
    simp only [Cycle.closed, hcl, Bool.false_or, Bool.and_eq_true, decide_eq_true_eq] at hclosed
    obtain ⟨hac, hdrain⟩ := hclosed
    rcases hcase with ⟨he, _, hperm, _, _⟩ | ⟨_, _, _, hfr⟩
    · exfalso
      subst he
      have := hperm.length_eq
      simp only [List.length_append] at this
      omega
    · exact hfr hac
  · exact ⟨hE.final, hE.quiet, fun _ => hE.fresh⟩

theorem HistorySpec_snoc (ac : Bool) : ∀ (done : List Cycle) (pre : List Out) (cy : Cycle) (ys : List Elem),
    HistorySpec ac done pre → SortedPermOf ys cy.pushes →
    HistorySpec ac (done ++ [cy]) (pre ++ specCycle ac ys cy) := by
  intro done
  induction done with
  | nil =>
    intro pre cy ys h hys
    simp only [HistorySpec] at h
    subst h
    exact ⟨ys, [], hys, by simp, rfl⟩
  | cons d ds ih =>
    intro pre cy ys h hys
    obtain ⟨zs, outs', hzs, rfl, hrest⟩ := h
    exact ⟨zs, outs' ++ specCycle ac ys cy, hzs, by simp, ih outs' cy ys hrest hys⟩

/-! ### the invariant of a whole history -/

section history
variable (c : Nat) (ac : Bool)

def viewOf (pre : List Out) (todo : List Cycle) (n0 : Nat) : View := ⟨n0, pre.length, (histOps todo).length⟩

/-- the caller is in cycle `cy` of the history `H = done ++ cy :: todo`; `pre` are the outputs of
    the cycles before it, the first `n0` writers were spawned (and have finished) before it -/
structure InCycle (H : List Cycle) (s : CState) (done : List Cycle) (cy : Cycle) (todo : List Cycle)
    (pre : List Out) (n0 : Nat) : Prop where
  hist : H = done ++ cy :: todo
  spec : HistorySpec ac done pre
  wf : wellFormed ac (cy :: todo) = true
  n0le : n0 ≤ s.writers.length
  old : ∀ w ∈ s.writers.take n0, w.pc = .done
  outs : s.outs = (proj (viewOf pre todo n0) s).outs ++ pre.reverse
  prog : s.prog = (proj (viewOf pre todo n0) s).prog ++ histOps todo
  inv : CInv c ac cy (proj (viewOf pre todo n0) s)
  live : (proj (viewOf pre todo n0) s).prog ≠ [] ∨ s.pc ≠ .idle ∨ todo = []

def HInv (H : List Cycle) (s : CState) : Prop :=
  Reported s ∨ ∃ done cy todo pre n0, InCycle c ac H s done cy todo pre n0

theorem cycle_ops_ne (cy : Cycle) : cy.ops ≠ [] := by
  rw [cycle_ops_eq]; cases cy.pushes <;> simp

/-- the first state of the next cycle -/
theorem next_cycle {H : List Cycle} {t : CState} {done : List Cycle} {cy cy' : Cycle} {todo' : List Cycle}
    {pre : List Out} {n0 : Nat} (hs : Str t)
    (hist : H = done ++ cy :: cy' :: todo') (spec : HistorySpec ac done pre)
    (wf : wellFormed ac (cy :: cy' :: todo') = true)
    (old : ∀ w ∈ t.writers.take n0, w.pc = .done)
    (outs : t.outs = (proj (viewOf pre (cy' :: todo') n0) t).outs ++ pre.reverse)
    (prog : t.prog = (proj (viewOf pre (cy' :: todo') n0) t).prog ++ histOps (cy' :: todo'))
    (inv : CInv c ac cy (proj (viewOf pre (cy' :: todo') n0) t))
    (hnr : ¬ Reported (proj (viewOf pre (cy' :: todo') n0) t))
    (hprog : (proj (viewOf pre (cy' :: todo') n0) t).prog = []) (hpc : t.pc = .idle) :
    ∃ ys, InCycle c ac H t (done ++ [cy]) cy' todo' (pre ++ specCycle ac ys cy) t.writers.length := by
  simp only [wellFormed, Bool.and_eq_true] at wf
  obtain ⟨hclosed, wf'⟩ := wf
  obtain ⟨⟨ys, hys, hfinal⟩, hquiet, hfresh⟩ := cycle_over inv hnr hprog hpc
  have hfr : Fresh c ac 1 t.m := hfresh hclosed
  -- every writer has finished
  have hall : ∀ w ∈ t.writers, w.pc = .done := by
    intro w hw
    rw [← List.take_append_drop n0 t.writers] at hw
    rcases List.mem_append.mp hw with h | h
    · exact old w h
    · exact hquiet w h
  have hwb : t.writable.buf = [] := wb_nil_of_done hs (by rw [hpc]; simp) hall
  -- the outputs so far
  have hpo : (proj (viewOf pre (cy' :: todo') n0) t).outs = (specCycle ac ys cy).reverse := by
    rw [← hfinal, List.reverse_reverse]
  have houts : t.outs = (pre ++ specCycle ac ys cy).reverse := by
    rw [outs, hpo, List.reverse_append]
  have hprog' : t.prog = cy'.ops ++ histOps todo' := by
    rw [prog, hprog]; simp [histOps]
  -- the new view
  have v1 : (proj (viewOf (pre ++ specCycle ac ys cy) todo' t.writers.length) t).writers = [] := by
    simp [proj, viewOf]
  have v2 : (proj (viewOf (pre ++ specCycle ac ys cy) todo' t.writers.length) t).outs = [] := by
    simp [proj, viewOf, houts]; left; omega
  have v3 : (proj (viewOf (pre ++ specCycle ac ys cy) todo' t.writers.length) t).prog = cy'.ops := by
    simp [proj, viewOf, hprog']
  refine ⟨ys, ⟨by rw [hist]; simp, HistorySpec_snoc ac done pre cy ys spec hys, wf', Nat.le_refl _, ?_, ?_, ?_, ?_, ?_⟩⟩
  · intro w hw; exact hall w (List.mem_of_mem_take hw)
  · rw [v2, houts]; rfl
  · rw [v3, hprog']
  · refine Or.inr (Or.inr ⟨hfr.err, Or.inl ⟨[], cy'.pushes, [], [], ?_⟩⟩)
    refine ⟨by simp, ?_, ?_, hfr.pos, hfr.len, hfr.cs, hfr.ac, hfr.chunk, by simp,
      fun _ => ⟨hfr.files, hwb⟩, ?_, Or.inl ⟨hpc, rfl, ?_, fun h => absurd v1 h⟩⟩
    · rw [v3]; exact cycle_ops_eq cy'
    · rw [v2]; simp [pushOuts]
    · show DI t.writable.buf (proj _ t).writers t.m.files [] []
      rw [v1, hwb, hfr.files]; exact DI_init
    · rw [v1]; simp
  · left; rw [v3]; exact cycle_ops_ne cy'

/-- re-establishing the invariant after a step that stays in the current view -/
theorem HInv_of_view {H : List Cycle} {t : CState} {done : List Cycle} {cy : Cycle} {todo : List Cycle}
    {pre : List Out} {n0 : Nat} (hs : Str t)
    (hist : H = done ++ cy :: todo) (spec : HistorySpec ac done pre)
    (wf : wellFormed ac (cy :: todo) = true)
    (n0le : n0 ≤ t.writers.length) (old : ∀ w ∈ t.writers.take n0, w.pc = .done)
    (outs : t.outs = (proj (viewOf pre todo n0) t).outs ++ pre.reverse)
    (prog : t.prog = (proj (viewOf pre todo n0) t).prog ++ histOps todo)
    (inv : CInv c ac cy (proj (viewOf pre todo n0) t)) : HInv c ac H t := by
  by_cases hrep : Reported (proj (viewOf pre todo n0) t)
  · exact Or.inl (Reported_of_proj _ hrep)
  · cases todo with
    | nil => exact Or.inr ⟨done, cy, [], pre, n0, hist, spec, wf, n0le, old, outs, prog, inv, Or.inr (Or.inr rfl)⟩
    | cons cy' todo' =>
      by_cases hfin : (proj (viewOf pre (cy' :: todo') n0) t).prog = [] ∧ t.pc = .idle
      · obtain ⟨ys, h⟩ := next_cycle c ac hs hist spec wf old outs prog inv hrep hfin.1 hfin.2
        exact Or.inr ⟨_, _, _, _, _, h⟩
      · refine Or.inr ⟨done, cy, cy' :: todo', pre, n0, hist, spec, wf, n0le, old, outs, prog, inv, ?_⟩
        by_cases h1 : (proj (viewOf pre (cy' :: todo') n0) t).prog = []
        · exact Or.inr (Or.inl (fun h2 => hfin ⟨h1, h2⟩))
        · exact Or.inl h1

theorem take_set_ge {α} (l : List α) (n k : Nat) (a : α) (h : n ≤ k) : (l.set k a).take n = l.take n := by
  induction n generalizing l k with
  | zero => simp
  | succ n ih =>
    cases l with
    | nil => simp
    | cons x xs =>
      cases k with
      | zero => omega
      | succ k => simp only [List.set_cons_succ, List.take_succ_cons, ih xs k (by omega)]

theorem append_len_lt {α} {l p r : List α} (h : l = p ++ r) (hne : p ≠ []) : r.length < l.length := by
  rw [h, List.length_append]
  have : 0 < p.length := List.length_pos_iff.mpr hne
  omega

/-- one step of the history system preserves the invariant -/
theorem HInv_step {H : List Cycle} {s t : CState} {i : Nat} (hc : 1 ≤ c) (hs : Str s) (h : HInv c ac H s)
    (hst : step s i = some t) : HInv c ac H t := by
  have hs' : Str t := Str_step hs hst
  rcases h with hrep | ⟨done, cy, todo, pre, n0, hin⟩
  · exact Or.inl (Reported_step hs hrep hst)
  by_cases hrepv : Reported (proj (viewOf pre todo n0) s)
  · exact Or.inl (Reported_step hs (Reported_of_proj _ hrepv) hst)
  have hSp : Str (proj (viewOf pre todo n0) s) := Str_proj _ hs hin.old
  have hnpre : (viewOf pre todo n0).npre ≤ s.outs.length := by
    have := congrArg List.length hin.outs
    simp only [List.length_append, List.length_reverse] at this
    show pre.length ≤ _; omega
  cases i with
  | zero =>
    have hcs : CStep s t := cstep_cases (show cstep s = some t from hst)
    -- the program of the current cycle is not exhausted
    have hne : (proj (viewOf pre todo n0) s).prog ≠ [] := by
      by_cases hpc : s.pc = .idle
      · intro h0
        rcases hin.live with h1 | h1 | h1
        · exact h1 h0
        · exact h1 hpc
        · have hp0 : s.prog = [] := by rw [hin.prog, h0, h1]; rfl
          have : cstep s = none := by simp [cstep, hpc, hp0]
          rw [show cstep s = some t from hst] at this; cases this
      · exact CInv_prog_ne hin.inv hrepv hpc
    have hnrest : (viewOf pre todo n0).nrest < s.prog.length := append_len_lt hin.prog hne
    have hcs' := proj_CStep (viewOf pre todo n0) hin.n0le hnpre hnrest hcs
    have hinv' : CInv c ac cy (proj (viewOf pre todo n0) t) :=
      CInv_step c ac cy hc hSp hin.inv (i := 0) (cstep_of_CStep hcs')
    rcases CStep_shape hcs with ⟨ho, hp, hw⟩ | ⟨s1, r, x, rfl, ho, hp, hw, hcn⟩
    · -- inside a call
      have hw' : t.writers.take n0 = s.writers.take n0 := by
        rcases hw with hw | hw
        · rw [hw]
        · rw [hw, List.take_append_of_le_length hin.n0le]
      apply HInv_of_view c ac hs' hin.hist hin.spec hin.wf
      · have hl : s.writers.length ≤ t.writers.length := by
          rcases hw with hw | hw <;> rw [hw] <;> simp
        exact Nat.le_trans hin.n0le hl
      · rw [hw']; exact hin.old
      · show t.outs = t.outs.take _ ++ _
        rw [ho]; exact hin.outs
      · show t.prog = t.prog.take _ ++ _
        rw [hp]; exact hin.prog
      · exact hinv'
    · -- the call returns
      have houtsT : (finishOp s1 r x).outs = ⟨r, x, s1.m.len, s1.m.pos⟩ :: s.outs := by
        show _ :: s1.outs = _; rw [ho]
      have hpo : (proj (viewOf pre todo n0) (finishOp s1 r x)).outs
          = ⟨r, x, s1.m.len, s1.m.pos⟩ :: (proj (viewOf pre todo n0) s).outs := by
        show (finishOp s1 r x).outs.take _ = _
        rw [houtsT]; exact take_sub_cons _ _ _ hnpre
      have hgood : (r = .ok ∨ r = .eof ∨ r = .finalised ∨ r = .rejected) → HInv c ac H (finishOp s1 r x) := by
        intro hr
        have hprogT : (finishOp s1 r x).prog = s.prog.tail := by
          show (if r = .panic ∨ r = .hang then [] else if r = .ioerr then _ else s1.prog.tail) = _
          rw [hp]
          rcases hr with rfl | rfl | rfl | rfl <;> simp
        apply HInv_of_view c ac hs' hin.hist hin.spec hin.wf
        · show n0 ≤ s1.writers.length; rw [hw]; exact hin.n0le
        · show ∀ w ∈ s1.writers.take n0, _; rw [hw]; exact hin.old
        · rw [hpo, houtsT]; show _ :: s.outs = _ :: (_ ++ _); rw [← hin.outs]
        · show (finishOp s1 r x).prog = (finishOp s1 r x).prog.take _ ++ _
          rw [hprogT, take_sub_tail _ _ hnrest]
          conv => lhs; rw [hin.prog]
          exact List.tail_append_of_ne_nil hne
        · exact hinv'
      cases r with
      | ok => exact hgood (Or.inl rfl)
      | eof => exact hgood (Or.inr (Or.inl rfl))
      | finalised => exact hgood (Or.inr (Or.inr (Or.inl rfl)))
      | rejected => exact hgood (Or.inr (Or.inr (Or.inr rfl)))
      | ioerr => exact Or.inl (Reported_finish x)
      | hang =>
        by_cases hr2 : Reported (proj (viewOf pre todo n0) (finishOp s1 .hang x))
        · exact Or.inl (Reported_of_proj _ hr2)
        · exfalso
          have hp0 : (proj (viewOf pre todo n0) (finishOp s1 .hang x)).prog = [] := by
            show (finishOp s1 .hang x).prog.take _ = []
            simp [finishOp]
          obtain ⟨⟨ys, _, hfinal⟩, _, _⟩ := cycle_over hinv' hr2 hp0 rfl
          have hm : (⟨.hang, x, s1.m.len, s1.m.pos⟩ : Out) ∈ specCycle ac ys cy := by
            rw [← hfinal, List.mem_reverse, hpo]; simp
          rcases specCycle_res ac ys cy _ hm with h | h <;> cases h
      | panic =>
        by_cases hr2 : Reported (proj (viewOf pre todo n0) (finishOp s1 .panic x))
        · exact Or.inl (Reported_of_proj _ hr2)
        · exfalso
          have hp0 : (proj (viewOf pre todo n0) (finishOp s1 .panic x)).prog = [] := by
            show (finishOp s1 .panic x).prog.take _ = []
            simp [finishOp]
          obtain ⟨⟨ys, _, hfinal⟩, _, _⟩ := cycle_over hinv' hr2 hp0 rfl
          have hm : (⟨.panic, x, s1.m.len, s1.m.pos⟩ : Out) ∈ specCycle ac ys cy := by
            rw [← hfinal, List.mem_reverse, hpo]; simp
          rcases specCycle_res ac ys cy _ hm with h | h <;> cases h
  | succ k =>
    simp only [step] at hst
    cases hk : s.writers[k]? with
    | none => simp [hk] at hst
    | some w =>
      simp only [hk] at hst
      cases hw : wstep s w with
      | none => simp [hw] at hst
      | some p =>
        obtain ⟨w', s1⟩ := p
        simp only [hw, Option.some.injEq] at hst; subst hst
        obtain ⟨e1, e2, e3⟩ := wstep_wop hw
        have hklt : k < s.writers.length := (List.getElem?_eq_some_iff.mp hk).1
        -- a writer of an earlier cycle has finished
        have hge : n0 ≤ k := by
          by_cases hlt : k < n0
          · exfalso
            have hm : w ∈ s.writers.take n0 := by
              apply List.mem_iff_getElem?.mpr
              exact ⟨k, by rw [List.getElem?_take_of_lt hlt]; exact hk⟩
            rw [wstep_done_none s (hin.old w hm)] at hw; cases hw
          · omega
        have hk' : (proj (viewOf pre todo n0) s).writers[k - n0]? = some w := by
          show (s.writers.drop n0)[k - n0]? = some w
          rw [List.getElem?_drop]
          have : n0 + (k - n0) = k := by omega
          rw [this]; exact hk
        have hw' := proj_wstep (viewOf pre todo n0) hw
        have hstep' : step (proj (viewOf pre todo n0) s) (k - n0 + 1)
            = some (proj (viewOf pre todo n0) { s1 with writers := s1.writers.set k w' }) := by
          simp only [step, hk', hw']
          congr 1
          show _ = proj _ _
          simp only [proj]
          rw [show (viewOf pre todo n0).n0 = n0 from rfl, drop_set_ge _ _ _ _ hge]
        have hinv' := CInv_step c ac cy hc hSp hin.inv hstep'
        apply HInv_of_view c ac hs' hin.hist hin.spec hin.wf
        · show n0 ≤ (s1.writers.set k w').length
          rw [List.length_set, e1]; exact hin.n0le
        · show ∀ w ∈ (s1.writers.set k w').take n0, _
          rw [take_set_ge _ _ _ _ hge, e1]; exact hin.old
        · show s1.outs = s1.outs.take _ ++ _
          rw [e2]; exact hin.outs
        · show s1.prog = s1.prog.take _ ++ _
          rw [e3]; exact hin.prog
        · exact hinv'

theorem HInv_init (conc acl : Bool) (flt : Fault) (cy : Cycle) (todo : List Cycle)
    (hwf : wellFormed ac (cy :: todo) = true) (reuse : Bool := false) :
    HInv c ac (cy :: todo) (initState conc c ac acl (histOps (cy :: todo)) flt reuse) := by
  have hp : (proj (viewOf [] todo 0) (initState conc c ac acl (histOps (cy :: todo)) flt reuse))
      = initState conc c ac acl cy.ops flt reuse := by
    simp [proj, viewOf, initState, histOps]
  refine Or.inr ⟨[], cy, todo, [], 0, rfl, rfl, hwf, Nat.zero_le _, by simp, ?_, ?_, ?_, ?_⟩
  · rw [hp]; rfl
  · rw [hp]; simp [initState, histOps]
  · rw [hp]; exact CInv_init c ac cy conc acl flt reuse
  · rw [hp]; exact Or.inl (cycle_ops_ne cy)

/-- the invariant of a whole history holds in every reachable state -/
theorem reach_HInv (hc : 1 ≤ c) {conc acl : Bool} {flt : Fault} {reuse : Bool} {cy : Cycle} {todo : List Cycle}
    (hwf : wellFormed ac (cy :: todo) = true) {s : CState}
    (h : Reach (sys conc c ac acl (histOps (cy :: todo)) flt reuse) s) : HInv c ac (cy :: todo) s := by
  have : Str s ∧ HInv c ac (cy :: todo) s := by
    refine inv_of_reach _ (fun s => Str s ∧ HInv c ac (cy :: todo) s)
      ⟨Str_init _ _ _ _ _ _ _, HInv_init c ac conc acl flt cy todo hwf reuse⟩ ?_ s h
    intro a i b hab hst
    exact ⟨Str_step hab.1 hst, HInv_step c ac hc hab.1 hab.2 hst⟩
  exact this.2

theorem histOps_nil_iff (h : List Cycle) : histOps h = [] ↔ h = [] := by
  cases h with
  | nil => simp [histOps]
  | cons cy t =>
    simp only [histOps, List.flatMap_cons, List.append_eq_nil_iff, reduceCtorEq, iff_false, not_and]
    intro h0; exact absurd h0 (cycle_ops_ne cy)

/-- when the caller has returned from the last call of the history: an I/O error was returned
    to it, or the outputs are, cycle by cycle, those the property demands -/
theorem finished_of_HInv {H : List Cycle} {s : CState} (h : HInv c ac H s) (hfin : finished s = true) :
    Reported s ∨ HistorySpec ac H s.outs.reverse := by
  simp only [finished, Bool.and_eq_true, List.isEmpty_iff, beq_iff_eq] at hfin
  obtain ⟨hprog, hpc⟩ := hfin
  rcases h with hrep | ⟨done, cy, todo, pre, n0, hin⟩
  · exact Or.inl hrep
  by_cases hrepv : Reported (proj (viewOf pre todo n0) s)
  · exact Or.inl (Reported_of_proj _ hrepv)
  right
  have hp := hin.prog
  rw [hprog] at hp
  have hp1 : (proj (viewOf pre todo n0) s).prog = [] := (List.append_eq_nil_iff.mp hp.symm).1
  have htodo : todo = [] := (histOps_nil_iff todo).mp (List.append_eq_nil_iff.mp hp.symm).2
  subst htodo
  obtain ⟨⟨ys, hys, hfinal⟩, _, _⟩ := cycle_over hin.inv hrepv hp1 hpc
  have houts : s.outs.reverse = pre ++ specCycle ac ys cy := by
    rw [hin.outs, List.reverse_append, List.reverse_reverse, hfinal]
  rw [houts, hin.hist]
  exact HistorySpec_snoc ac done pre cy ys hin.spec hys

/-- the view of the last cycle in a finished state without a reported error -/
theorem finished_view {H : List Cycle} {s : CState} (h : HInv c ac H s) (hfin : finished s = true)
    (hnr : ¬ Reported s) :
    ∃ done cy pre n0, H = done ++ [cy] ∧ (∀ w ∈ s.writers.take n0, w.pc = .done)
      ∧ CInv c ac cy (proj (viewOf pre [] n0) s) ∧ finished (proj (viewOf pre [] n0) s) = true := by
  simp only [finished, Bool.and_eq_true, List.isEmpty_iff, beq_iff_eq] at hfin
  obtain ⟨hprog, hpc⟩ := hfin
  rcases h with hrep | ⟨done, cy, todo, pre, n0, hin⟩
  · exact absurd hrep hnr
  have hp := hin.prog
  rw [hprog] at hp
  have hp1 : (proj (viewOf pre todo n0) s).prog = [] := (List.append_eq_nil_iff.mp hp.symm).1
  have htodo : todo = [] := (histOps_nil_iff todo).mp (List.append_eq_nil_iff.mp hp.symm).2
  subst htodo
  refine ⟨done, cy, pre, n0, hin.hist, hin.old, hin.inv, ?_⟩
  simp only [finished, Bool.and_eq_true, List.isEmpty_iff, beq_iff_eq]
  exact ⟨hp1, hpc⟩

end history

end Biogo.MorassConc
