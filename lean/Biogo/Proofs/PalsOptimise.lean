/-
Soundness of the model of `PALS.Optimise`'s parameter search: whatever it returns satisfies the
tests it is supposed to have passed.  Core-only.
-/
import Biogo.Model.PalsOptimise

namespace Biogo.PalsOptimise

theorem inner_sound {i : OptIn} {sl sd : Int} {n : Nat} {k : Int} {p : FParams}
    (h : inner i sl sd n k = some p) :
    ∃ k', k - n < k' ∧ k' ≤ k ∧ p = mkParams i k' sl sd ∧ wordOK i k' sl sd = true := by
  induction n generalizing k with
  | zero => simp [inner] at h
  | succ n ih =>
    simp only [inner] at h
    split at h
    · rename_i hk
      simp only [Option.some.injEq] at h
      exact ⟨k, by omega, Int.le_refl _, h.symm, hk⟩
    · obtain ⟨k', h1, h2, h3, h4⟩ := ih h
      exact ⟨k', by omega, by omega, h3, h4⟩

theorem outer_sound {i : OptIn} {f : Nat} {sl sd : Int} {p : FParams}
    (h : outer i f sl sd = some p) (hsd : 0 ≤ sd) (hsl : 0 ≤ sl) :
    ∃ k' sl' sd', i.minWordSize ≤ k' ∧ k' ≤ maxKmerLen ∧ 0 ≤ sd' ∧ sd' ≤ sd ∧ 0 ≤ sl' ∧ sl' ≤ sl ∧
      p = mkParams i k' sl' sd' ∧ wordOK i k' sl' sd' = true := by
  induction f generalizing sl sd with
  | zero => simp [outer] at h
  | succ f ih =>
    simp only [outer] at h
    split at h
    · rename_i q hq
      simp only [Option.some.injEq] at h
      subst h
      obtain ⟨k', h1, h2, h3, h4⟩ := inner_sound hq
      refine ⟨k', sl, sd, ?_, h2, hsd, Int.le_refl _, hsl, Int.le_refl _, h3, h4⟩
      have : ((maxKmerLen - i.minWordSize + 1).toNat : Int) ≤ max (maxKmerLen - i.minWordSize + 1) 0 := by
        rw [Int.toNat_eq_max]; exact Int.le_refl _
      simp only [maxKmerLen] at *
      omega
    · split at h
      · obtain ⟨k', sl', sd', a1, a2, a3, a4, a5, a6, a7, a8⟩ := ih h hsd (by omega)
        exact ⟨k', sl', sd', a1, a2, a3, a4, a5, by omega, a7, a8⟩
      · split at h
        · obtain ⟨k', sl', sd', a1, a2, a3, a4, a5, a6, a7, a8⟩ := ih h (by omega) hsl
          exact ⟨k', sl', sd', a1, a2, a3, by omega, a5, a6, a7, a8⟩
        · cases h

end Biogo.PalsOptimise
