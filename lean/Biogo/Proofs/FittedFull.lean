/-
`FittedAffine` after the repairs of K1 and K3 (model `Biogo.AlignAff.fitAlign`: fill with the
`up ↔ left` transitions, end row and start layer taken from the best of the three layers of the
last column): the total of the returned pairs is the optimum of the affine score over *all*
alignments of the whole query with a reference segment ending at the reported end
(`Spec.AffineOpt.fittedOpt true`), when gap-open and the scores of a reference letter against
a gap are not positive.

The table of the code is the reference table of `Spec.AffineOpt` for `⟨cross, freeR, freeQ⟩ =
⟨true, true, false⟩` from column 1 on.  Column 0 differs: the code keeps the skipped reference
prefix as `{−∞, 0, −∞}` (the empty alignment in the `up` layer), the reference table as
`{0, u, −∞}` with `u ≤ 0` the best alignment made of reference letters against gaps only —
never better than skipping them, which is where the hypothesis on the signs is used.  Both feed
column 1 with the same values: the match layer through `max3`, the `left` layer through the
`up → left` / `diag → left` transition, both with `gapOpen`.  Core only.
-/
import Biogo.Proofs.FittedAffine

namespace Biogo.Proofs.FittedFull
open Biogo.Spec.Alignment Biogo.AlignAff Biogo.Spec.AffineOpt Biogo.Proofs.AffineAln
open Biogo.Proofs.AffineOpt Biogo.Proofs.AlignAffTable Biogo.Proofs.TraceSum
open Biogo.Proofs.FittedAffine Biogo.Proofs.NWAffine
open Biogo.Spec.AffPairs (lastEnd)

/-- all fitted alignments: free start in the reference, whole query, every transition -/
def flA : Flags := ⟨true, true, false⟩

def specAt (S : Matrix) (o : Int) (r q : List Nat) (i j : Nat) : Cell := rowAt (optRows flA S o r q) i j

/-! ### column 0 of the reference table -/

theorem specAt_first (S : Matrix) (o : Int) (r q : List Nat) (i : Nat) (hi : i < r.length) :
    specAt S o r q (i + 1) 0 =
      optFirst flA S o (if i = 0 then true else false) (specAt S o r q i 0) (r.getD i 0) := by
  simp only [specAt, optRows]
  exact rows_first _ _ q r _ i hi

theorem specAt_inner (S : Matrix) (o : Int) (r q : List Nat) (i j : Nat) (hi : i < r.length)
    (hj : j < q.length) :
    specAt S o r q (i + 1) (j + 1) =
      optCell flA S o (r.getD i 0) (specAt S o r q i j) (specAt S o r q i (j + 1))
        (specAt S o r q (i + 1) j) (q.getD j 0) := by
  simp only [specAt, optRows]
  exact rows_inner _ _ q r _ (row0_ok flA S o q).1 i j hi hj

/-- a column-0 cell of the reference table: the empty alignment in the match layer, nothing
    positive in the `up` layer, nothing in the `left` layer -/
def Col0OK (c : Cell) : Prop := c.d = some 0 ∧ (∀ x, c.u = some x → x ≤ 0) ∧ c.l = none

theorem spec_col0 (S : Matrix) (o : Int) (ho : o ≤ 0) (hg : ∀ x, S x 0 ≤ 0) (r q : List Nat) :
    ∀ i, i ≤ r.length → Col0OK (specAt S o r q i 0) := by
  intro i
  induction i with
  | zero =>
    intro _
    have h0 : specAt S o r q 0 0 = origin := optRows_origin flA S o r q
    rw [h0]
    exact ⟨rfl, (fun x h => by cases h), rfl⟩
  | succ i ih =>
    intro hi
    obtain ⟨hd, hu, hl⟩ := ih (by omega)
    rw [specAt_first S o r q i (by omega)]
    refine ⟨by simp [optFirst, flA, emptyAt], ?_, by simp [optFirst]⟩
    intro x hx
    simp only [optFirst, gapVal, flA, if_true, hd, hl] at hx
    have hgx := hg (r.getD i 0)
    generalize r.getD i 0 = xx at hx hgx
    rcases (max3_spec (vadd (some 0) (o + S xx 0)) (vadd (specAt S o r q i 0).u (S xx 0))
      (vadd none (o + S xx 0))).1 with e | e | e <;> rw [e] at hx
    · simp [vadd] at hx; omega
    · obtain ⟨w, hw, hadd⟩ := vadd_eq_some hx
      have := hu w hw
      omega
    · cases hx

/-! ### the code's table is the reference table from column 1 on -/

theorem optCell_flA (S : Matrix) (o : Int) : optCell flA S o = nwCell true S o := by
  rw [nwCell_eq]
  funext x pd pu lc y
  simp [optCell, flA, flN, gapVal]

/-- what column 0 feeds into column 1: the same from the code's cell and the reference cell -/
theorem col0_feed (o g : Int) (c : Cell) (hc : Col0OK c) :
    max3 c.d c.u c.l = some 0 ∧ gapLayer true o g c.d c.l c.u = some (o + g) := by
  obtain ⟨hd, hu, hl⟩ := hc
  rw [hd, hl]
  rcases hcu : c.u with _ | y
  · simp [max3, vgt, gapLayer, vadd]
  · have := hu y hcu
    constructor
    · have h1 : ¬ (y > 0) := by omega
      simp [max3, vgt, h1]
    · have h1 : ¬ (y + (o + g) > o + g) := by omega
      simp [gapLayer, vadd, max3, vgt, h1]

theorem code_col0_feed (o g : Int) :
    max3 (none : V) (some 0) none = some 0 ∧ gapLayer true o g none none (some 0) = some (o + g) := by
  simp [max3, vgt, gapLayer, vadd]

theorem fit_eq_spec (S : Matrix) (o : Int) (ho : o ≤ 0) (hg : ∀ x, S x 0 ≤ 0) (r q : List Nat) :
    ∀ i, i ≤ r.length → ∀ j, j < q.length → fitAt true S o r q i (j + 1) = specAt S o r q i (j + 1) := by
  intro i
  induction i with
  | zero =>
    intro _ j _
    rw [fitAt_row0 true S o r q (j + 1) true]
    simp only [specAt, rowAt, optRows, List.getD_cons_zero]
    rw [optRow0Tail_congr (flN true) flA S o rfl rfl]
  | succ i ihi =>
    intro hi j
    induction j with
    | zero =>
      intro hj
      rw [fitAt_inner true S o r q i 0 (by omega) hj, specAt_inner S o r q i 0 (by omega) hj, optCell_flA,
        ihi (by omega) 0 hj]
      have hgx := hg (r.getD i 0)
      -- the two column-0 cells feed the same values
      have hS1 := col0_feed o (S 0 (q.getD 0 0)) _ (spec_col0 S o ho hg r q (i + 1) hi)
      have hS0 := col0_feed o (S 0 (q.getD 0 0)) _ (spec_col0 S o ho hg r q i (by omega))
      have hC1 : fitAt true S o r q (i + 1) 0 = ⟨none, some 0, none⟩ := fitAt_col0 true S o r q i (by omega)
      have hC0 : max3 (fitAt true S o r q i 0).d (fitAt true S o r q i 0).u (fitAt true S o r q i 0).l = some 0 := by
        cases i with
        | zero => rw [fitAt_row0 true S o r q 0 true, optRows_origin]; rfl
        | succ i' => rw [fitAt_col0 true S o r q i' (by omega)]; rfl
      simp only [nwCell, hC1, hC0, hS0.1, hS1.2, (code_col0_feed o (S 0 (q.getD 0 0))).2]
    | succ j ihj =>
      intro hj
      rw [fitAt_inner true S o r q i (j + 1) (by omega) hj, specAt_inner S o r q i (j + 1) (by omega) hj,
        optCell_flA, ihi (by omega) j (by omega), ihi (by omega) (j + 1) hj, ihj (by omega)]

/-! ### the end row and the start layer -/

theorem fitEnd3_pos (t : Table) (C : Nat) : ∀ (n y : Nat) (best : Nat × Kind × V), 1 ≤ y →
    (1 ≤ best.1 ∨ (best.2.2 = none ∧ 1 ≤ n)) → 1 ≤ (fitEnd3 t C n y best).1 := by
  intro n
  induction n with
  | zero =>
    intro y best _ h
    rcases h with h | ⟨_, h⟩
    · exact h
    · omega
  | succ n ih =>
    intro y best hy h
    simp only [fitEnd3]
    apply ih (y + 1) _ (by omega)
    left
    split
    · rename_i hgt
      rcases h with h | ⟨h, _⟩
      · exact h
      · rw [h] at hgt; simp [vgt] at hgt
    · exact hy

/-- the start layer is the best layer of the end cell -/
theorem fitEnd3_layer (t : Table) (C : Nat) : ∀ (n y : Nat) (best : Nat × Kind × V),
    (1 ≤ best.1 → best.2.1 = bestLayer (t.at best.1 C)) → 1 ≤ y → 1 ≤ (fitEnd3 t C n y best).1 →
      (fitEnd3 t C n y best).2 = bestLayer (t.at (fitEnd3 t C n y best).1 C) := by
  intro n
  induction n with
  | zero => intro y best h _ h1; exact h h1
  | succ n ih =>
    intro y best h hy h1
    simp only [fitEnd3] at h1 ⊢
    apply ih (y + 1) _ _ (by omega) h1
    split
    · exact h
    · intro _; rfl

/-! ### `fitAlign` -/

/-- The pairs reported by the model of `FittedAffine` end at a row `e ≥ 1`, and their total is
    the best of the three layers of the last column of that row. -/
theorem fitAlign_value (S : Matrix) (o : Int) (r q : List Nat) (hr : r ≠ []) (hq : q ≠ []) :
    ∃ ps e x, fitAlign S o r q = .ok ps ∧ (lastEnd ps).1 = e ∧ 1 ≤ e ∧ e ≤ r.length ∧
      cellBest (fitAt true S o r q e q.length) = some x ∧ total ps = x := by
  have hR : 1 ≤ r.length := by cases r with | nil => exact absurd rfl hr | cons _ _ => simp
  have hC : 1 ≤ q.length := by cases q with | nil => exact absurd rfl hq | cons _ _ => simp
  have hE : (fitEnd3 (fitTable true S o r q) q.length r.length 1 (0, .m, none)).1 ≤ r.length :=
    Biogo.Proofs.TraceWF.fitEnd3_le _ _ _ _ _ _ (Nat.zero_le _) (by omega)
  have hE1 : 1 ≤ (fitEnd3 (fitTable true S o r q) q.length r.length 1 (0, .m, none)).1 :=
    fitEnd3_pos _ _ _ _ _ (Nat.le_refl _) (Or.inr ⟨rfl, hR⟩)
  have hLay := fitEnd3_layer (fitTable true S o r q) q.length r.length 1 (0, .m, none)
    (fun h => absurd h (by simp)) (Nat.le_refl _) hE1
  generalize he : fitEnd3 (fitTable true S o r q) q.length r.length 1 (0, .m, none) = start at hE hE1 hLay
  obtain ⟨e, lay⟩ := start
  simp only [] at hE hE1 hLay
  obtain ⟨e', rfl⟩ : ∃ e', e = e' + 1 := ⟨e - 1, by omega⟩
  obtain ⟨C', hC'⟩ : ∃ C', q.length = C' + 1 := ⟨q.length - 1, by omega⟩
  obtain ⟨xd, hxd⟩ := fit_d_some true S o r q e' C' (by omega) (by omega)
  obtain ⟨x, hx⟩ : ∃ x, cellBest (fitAt true S o r q (e' + 1) q.length) = some x := by
    rw [hC']; exact max3_some (k := .m) hxd
  have hinit : Good (fitTable true S o r q) r.length q.length x
      { i := e' + 1, j := q.length, layer := lay, last := lay, score := 0, maxI := e' + 1,
        maxJ := q.length, aln := [] } := by
    refine ⟨hE, Nat.le_refl _, x, ?_, by simp [total]⟩
    simp only []
    rw [hLay, cellBest_layer, fitTable_at true S o r q _ _ (Nat.le_refl _)]; exact hx
  obtain ⟨st', hloop, ⟨hi', hj', v, hv, hsum⟩, hend⟩ :=
    loop_good_gen true true false r.length q.length (exists_cand_fit true S o r q) x (e' + 1 + q.length) _ hinit
      (Nat.le_refl _)
  have hinv := Biogo.Proofs.TraceWF.loop_inv true true false _ S o r q r.length q.length (e' + 1) q.length _ _ st'
    (Biogo.Proofs.TraceWF.init_inv_layer r.length q.length (e' + 1) q.length lay hE (Nat.le_refl _)) hloop
  obtain ⟨_, hlast, _⟩ := Biogo.Proofs.TraceWF.emit_wf hinv
  have hne : st'.emit.aln ≠ [] := by simp [TB.emit]
  -- the value the loop stops on
  rw [fitTable_at true S o r q _ _ hj'] at hv
  unfold fitAlign fitAlignT
  simp only [if_true, he, hloop]
  by_cases hj0 : st'.j ≠ 0
  · rw [if_pos hj0]
    have hi0 : st'.i = 0 := by
      rcases hend with h | h | h
      · exact h
      · exact absurd h hj0
      · exact absurd h.1 (by simp)
    obtain ⟨j', hj'e⟩ : ∃ j', st'.j = j' + 1 := ⟨st'.j - 1, by omega⟩
    have hl : st'.layer = .l ∧ (fitAt true S o r q 0 (j' + 1)).l = some v := by
      rw [hi0, hj'e, fitAt_row0 true S o r q _ false, optRows_row0 _ S o r q j' (by omega)] at hv
      cases hk : st'.layer <;> rw [hk] at hv <;> simp [Cell.get, flN, emptyAt] at hv
      refine ⟨rfl, ?_⟩
      rw [fitAt_row0 true S o r q _ false, optRows_row0 _ S o r q j' (by omega)]
      exact hv
    refine ⟨_, e' + 1, x, rfl, ?_, hE1, hE, hx, ?_⟩
    · rw [Biogo.Proofs.TraceWF.lastEnd_cons _ _ hne, hlast]
    · simp only [total_cons, TB.emit]
      rw [fitTable_at true S o r q _ _ hj', hi0, hj'e, hl.2]
      simp only [vget]
      omega
  · have hj0' : st'.j = 0 := Decidable.not_not.mp hj0
    rw [if_neg hj0]
    have hv0 : v = 0 := by
      rw [hj0'] at hv
      cases hi0 : st'.i with
      | zero =>
        rw [hi0, fitAt_row0 true S o r q _ false, optRows_origin] at hv
        cases hk : st'.layer <;> rw [hk] at hv <;> simp [Cell.get, origin] at hv
        omega
      | succ i0 =>
        rw [hi0, fitAt_col0 true S o r q i0 (by omega)] at hv
        cases hk : st'.layer <;> rw [hk] at hv <;> simp [Cell.get] at hv
        omega
    refine ⟨_, e' + 1, x, rfl, ?_, hE1, hE, hx, ?_⟩
    · rw [hlast]
    · simp only [total_cons, TB.emit]
      omega

/-- **FittedAffine, C08 at full strength**: the total of the returned pairs is the maximum of
    the affine score over all alignments of the whole query with a reference segment ending at
    the reported end. -/
theorem fitAlign_total (S : Matrix) (o : Int) (ho : o ≤ 0) (hg : ∀ x, S x 0 ≤ 0) (r q : List Nat)
    (hr : r ≠ []) (hq : q ≠ []) :
    ∃ ps, fitAlign S o r q = .ok ps ∧ 1 ≤ (lastEnd ps).1 ∧ (lastEnd ps).1 ≤ r.length ∧
      fittedOpt true S o r q (lastEnd ps).1 = some (total ps) := by
  have hC : 1 ≤ q.length := by cases q with | nil => exact absurd rfl hq | cons _ _ => simp
  obtain ⟨ps, e, x, hps, hend, he1, heR, hx, htot⟩ := fitAlign_value S o r q hr hq
  obtain ⟨C', hC'⟩ : ∃ C', q.length = C' + 1 := ⟨q.length - 1, by omega⟩
  refine ⟨ps, hps, by rw [hend]; exact he1, by rw [hend]; exact heR, ?_⟩
  have hb := fit_eq_spec S o ho hg r q e heR C' (by omega)
  rw [← hC'] at hb
  rw [hend, htot, ← hx, hb]
  rfl

end Biogo.Proofs.FittedFull
