/-
Alignment surgery: when a letter pair never scores less than the two letters against gaps
(`S x 0 + S 0 y ≤ S x y`) and opening a gap costs (`gapOpen ≤ 0`), every alignment can be
turned into one with the same projections, no gap directly next to a gap in the other
sequence, and at least the same affine score: a `u x` next to an `l y` is replaced by `m x y`.
Core only.
-/
import Biogo.Proofs.AffineAln

namespace Biogo.Proofs.NoAdjSuffices
open Biogo.Spec.Alignment Biogo.Proofs.AffineAln

/-- the column two adjacent opposite gap columns are merged into -/
def merge : Col → Col → Col
  | .u x, .l y => .m x y
  | .l y, .u x => .m x y
  | c, _ => c

/-- left to right: keep a column when the next one is compatible with it, otherwise merge
    the two and look again (`fuel` ≥ length suffices) -/
def fixAdj : Nat → Aln → Aln
  | 0, a => a
  | _ + 1, [] => []
  | _ + 1, [c] => [c]
  | n + 1, c :: d :: rest =>
    if compat c.kind d.kind then c :: fixAdj n (d :: rest) else fixAdj n (merge c d :: rest)

theorem incompat_cases {c d : Col} (h : compat c.kind d.kind = false) :
    (∃ x y, c = .u x ∧ d = .l y) ∨ (∃ x y, c = .l y ∧ d = .u x) := by
  cases c <;> cases d <;> simp [compat, Col.kind] at h
  · exact Or.inl ⟨_, _, rfl, rfl⟩
  · exact Or.inr ⟨_, _, rfl, rfl⟩

theorem projR_fixAdj : ∀ (n : Nat) (a : Aln), projR (fixAdj n a) = projR a := by
  intro n
  induction n with
  | zero => intro a; rfl
  | succ n ih =>
    intro a
    match a with
    | [] => rfl
    | [c] => rfl
    | c :: d :: rest =>
      simp only [fixAdj]
      cases h : compat c.kind d.kind
      · simp only [Bool.false_eq_true, if_false]
        rw [ih]
        rcases incompat_cases h with ⟨x, y, rfl, rfl⟩ | ⟨x, y, rfl, rfl⟩ <;> simp [merge, projR]
      · simp only [if_true]
        cases c <;> simp [projR, ih]

theorem projQ_fixAdj : ∀ (n : Nat) (a : Aln), projQ (fixAdj n a) = projQ a := by
  intro n
  induction n with
  | zero => intro a; rfl
  | succ n ih =>
    intro a
    match a with
    | [] => rfl
    | [c] => rfl
    | c :: d :: rest =>
      simp only [fixAdj]
      cases h : compat c.kind d.kind
      · simp only [Bool.false_eq_true, if_false]
        rw [ih]
        rcases incompat_cases h with ⟨x, y, rfl, rfl⟩ | ⟨x, y, rfl, rfl⟩ <;> simp [merge, projQ]
      · simp only [if_true]
        cases c <;> simp [projQ, ih]

/-- the first column (if any) may follow a column of kind `p` -/
def headCompat (p : Kind) : Aln → Bool
  | [] => true
  | c :: _ => compat p c.kind

theorem noAdjFrom_fixAdj : ∀ (n : Nat) (a : Aln) (p : Kind), a.length ≤ n → headCompat p a = true →
    noAdjFrom p (fixAdj n a) = true := by
  intro n
  induction n with
  | zero =>
    intro a p hl _
    have : a = [] := List.eq_nil_of_length_eq_zero (by omega)
    subst this; rfl
  | succ n ih =>
    intro a p hl hc
    match a, hl, hc with
    | [], _, _ => rfl
    | [c], _, hc => simp [fixAdj, noAdjFrom, headCompat] at hc ⊢; exact hc
    | c :: d :: rest, hl, hc =>
      simp only [fixAdj]
      cases h : compat c.kind d.kind
      · simp only [Bool.false_eq_true, if_false]
        apply ih _ p (by simp at hl ⊢; omega)
        rcases incompat_cases h with ⟨x, y, rfl, rfl⟩ | ⟨x, y, rfl, rfl⟩ <;>
          simp [merge, headCompat, Col.kind] <;> cases p <;> rfl
      · simp only [if_true, noAdjFrom, Bool.and_eq_true]
        exact ⟨hc, ih (d :: rest) c.kind (by simp at hl ⊢; omega) h⟩

/-- changing the kind of the preceding column to "match" costs at most one gap opening -/
theorem scoreAffFrom_m_ge (S : Matrix) (o : Int) (ho : o ≤ 0) (k : Kind) (a : Aln) :
    scoreAffFrom S o k a + o ≤ scoreAffFrom S o .m a := by
  cases a with
  | nil => simp [scoreAffFrom]; exact ho
  | cons c rest =>
    simp only [scoreAffFrom]
    have h1 : (if c.kind ≠ Kind.m ∧ c.kind ≠ k then o else 0) ≤ 0 := by split <;> omega
    have h2 : o ≤ (if c.kind ≠ Kind.m ∧ c.kind ≠ Kind.m then o else 0) := by split <;> omega
    omega

theorem scoreAffFrom_fixAdj (S : Matrix) (o : Int) (ho : o ≤ 0)
    (H : ∀ x y, S x 0 + S 0 y ≤ S x y) :
    ∀ (n : Nat) (a : Aln) (p : Kind), scoreAffFrom S o p a ≤ scoreAffFrom S o p (fixAdj n a) := by
  intro n
  induction n with
  | zero => intro a p; exact Int.le_refl _
  | succ n ih =>
    intro a p
    match a with
    | [] => exact Int.le_refl _
    | [c] => exact Int.le_refl _
    | c :: d :: rest =>
      simp only [fixAdj]
      cases h : compat c.kind d.kind
      · simp only [Bool.false_eq_true, if_false]
        refine Int.le_trans ?_ (ih (merge c d :: rest) p)
        rcases incompat_cases h with ⟨x, y, rfl, rfl⟩ | ⟨x, y, rfl, rfl⟩
        · have hm := scoreAffFrom_m_ge S o ho .l rest
          have hH := H x y
          simp only [merge, scoreAffFrom, Col.kind, colScore]
          have h1 : (if Kind.u ≠ Kind.m ∧ Kind.u ≠ p then o else 0) ≤ 0 := by split <;> omega
          simp at h1 ⊢
          omega
        · have hm := scoreAffFrom_m_ge S o ho .u rest
          have hH := H x y
          simp only [merge, scoreAffFrom, Col.kind, colScore]
          have h1 : (if Kind.l ≠ Kind.m ∧ Kind.l ≠ p then o else 0) ≤ 0 := by split <;> omega
          simp at h1 ⊢
          omega
      · simp only [if_true]
        have := ih (d :: rest) c.kind
        show _ + scoreAffFrom S o c.kind (d :: rest) ≤ _ + scoreAffFrom S o c.kind (fixAdj n (d :: rest))
        omega

/-- every global alignment is matched or beaten by one without adjacent opposite gaps -/
theorem exists_noAdj_ge (S : Matrix) (o : Int) (ho : o ≤ 0) (H : ∀ x y, S x 0 + S 0 y ≤ S x y)
    (r q : List Nat) (a : Aln) (h : IsGlobal a r q) :
    ∃ a', IsGlobal a' r q ∧ NoAdj a' ∧ scoreAff S o a ≤ scoreAff S o a' := by
  refine ⟨fixAdj a.length a, ⟨?_, ?_⟩, ?_, scoreAffFrom_fixAdj S o ho H _ a .m⟩
  · rw [projR_fixAdj]; exact h.1
  · rw [projQ_fixAdj]; exact h.2
  · show noAdj _ = true
    rw [noAdj_eq_from]
    apply noAdjFrom_fixAdj _ a .m (Nat.le_refl _)
    cases a with
    | nil => rfl
    | cons c _ => exact compat_mleft c.kind
where
  compat_mleft : ∀ k, compat .m k = true := by intro k; cases k <;> rfl

/-- the same for local alignments: the surgery keeps the aligned segments -/
theorem exists_noAdj_ge_local (S : Matrix) (o : Int) (ho : o ≤ 0) (H : ∀ x y, S x 0 + S 0 y ≤ S x y)
    (r q : List Nat) (a : Aln) (h : IsLocal a r q) :
    ∃ a', IsLocal a' r q ∧ NoAdj a' ∧ scoreAff S o a ≤ scoreAff S o a' := by
  obtain ⟨r1, r2, r3, q1, q2, q3, hr, hq, hg⟩ := h
  obtain ⟨a', hg', hn, hle⟩ := exists_noAdj_ge S o ho H r2 q2 a hg
  exact ⟨a', ⟨r1, r2, r3, q1, q2, q3, hr, hq, hg'⟩, hn, hle⟩

end Biogo.Proofs.NoAdjSuffices
