/-
Helper for the chain "ε-match ⇒ covered by a filter hit ⇒ inside a trapezoid" (C15, part merge):
every hit the filter model pushes has `From ≤ To`.  The tube state machine only ever records
query positions in ascending order, so each tube has `QLo ≤ QHi ≤ current position`.  Core-only.
-/
import Biogo.Proofs.FilterRun
import Biogo.Proofs.FilterComplete

namespace Biogo.Proofs.PalsChain
open Biogo.Filter Biogo.Proofs.FilterRun

/-- every tube has `QLo ≤ QHi ≤ P` (`P` = the query position being processed) and every pushed
    hit has `From + k ≤ To` (it contains a whole k-mer) and `From ≤ P` (it starts at a position
    already scanned) -/
structure TWF (c : Cfg) (P : Nat) (s : St) : Prop where
  tubes : ∀ slot, (getTube s slot).qLo ≤ (getTube s slot).qHi ∧ (getTube s slot).qHi ≤ P
  hits : ∀ h ∈ s.hits, h.from_ + c.k ≤ h.to
  fromLe : ∀ h ∈ s.hits, h.from_ ≤ (P : Int)

theorem TWF.mono {c : Cfg} {P P' : Nat} {s : St} (h : TWF c P s) (hp : P ≤ P') : TWF c P' s :=
  ⟨fun slot => ⟨(h.tubes slot).1, Nat.le_trans (h.tubes slot).2 hp⟩, h.hits,
   fun x hx => by have := h.fromLe x hx; omega⟩

theorem addHit_twf (c : Cfg) {P : Nat} {s : St} (h : TWF c P s) (ti : Int) (a b : Nat) (hab : a ≤ b) (hbP : b ≤ P) :
    TWF c P (addHit c s ti a b) := by
  refine ⟨fun slot => h.tubes slot, ?_, ?_⟩
  · intro x hx
    simp only [addHit, List.mem_cons] at hx
    rcases hx with e | e
    · subst e; simp only; omega
    · exact h.hits x e
  · intro x hx
    simp only [addHit, List.mem_cons] at hx
    rcases hx with e | e
    · subst e; simp only; omega
    · exact h.fromLe x e

theorem set_twf {c : Cfg} {P : Nat} {s : St} (h : TWF c P s) (slot : Nat) (v : Tube) (hv : v.qLo ≤ v.qHi ∧ v.qHi ≤ P) :
    TWF c P { s with tubes := s.tubes.setIfInBounds slot v } := by
  refine ⟨?_, h.hits, h.fromLe⟩
  intro slot'
  rw [getTube_set]
  split
  · exact hv
  · exact h.tubes slot'

theorem hitTube_twf (c : Cfg) {P : Nat} {s : St} (h : TWF c P s) (ti q : Nat) (hq : P ≤ q) :
    TWF c q (hitTube c s ti q) := by
  have h' := h.mono hq
  have ht := h.tubes (ti % c.cap)
  unfold hitTube
  simp only []
  split
  · exact set_twf h' _ _ ⟨Nat.le_refl _, Nat.le_refl _⟩
  · split
    · split
      · exact set_twf (addHit_twf c h' _ _ _ ht.1 (Nat.le_trans ht.2 hq)) _ _ ⟨Nat.le_refl _, Nat.le_refl _⟩
      · exact set_twf h' _ _ ⟨Nat.le_refl _, Nat.le_refl _⟩
    · exact set_twf h' _ _ ⟨by simp only; omega, Nat.le_refl _⟩

theorem commonKmer_twf (c : Cfg) {q : Nat} {s : St} (h : TWF c q s) (t : Nat) : TWF c q (commonKmer c s t q) := by
  unfold commonKmer
  split
  · exact h
  · simp only []
    split
    · exact hitTube_twf c (hitTube_twf c h _ q (Nat.le_refl _)) _ q (Nat.le_refl _)
    · exact hitTube_twf c h _ q (Nat.le_refl _)

theorem fold_twf (c : Cfg) (q : Nat) : ∀ (ts : List Nat) (s : St), TWF c q s →
    TWF c q (ts.foldl (fun s t => commonKmer c s t q) s) := by
  intro ts
  induction ts with
  | nil => intro s h; exact h
  | cons t ts ih => intro s h; exact ih _ (commonKmer_twf c h t)

theorem retire_twf (c : Cfg) {P : Nat} {s : St} (h : TWF c P s) (ti : Int) : TWF c P (retire c s ti) := by
  unfold retire
  simp only []
  split
  · exact ⟨fun slot => h.tubes slot, h.hits, h.fromLe⟩
  · have ht := h.tubes (ti.tmod c.cap).toNat
    split
    · exact set_twf (addHit_twf c h _ _ _ ht.1 ht.2) _ _ ht
    · exact set_twf h _ _ ht

theorem tubeFlush_twf (c : Cfg) {P : Nat} {s : St} (h : TWF c P s) (ti : Nat) : TWF c P (tubeFlush c s ti) := by
  unfold tubeFlush
  simp only []
  have ht := h.tubes (ti % c.cap)
  split
  · exact h
  · exact set_twf (addHit_twf c h _ _ _ ht.1 ht.2) _ _ ht

theorem flushLoop_twf (c : Cfg) {P : Nat} : ∀ (n ti : Nat) (s : St), TWF c P s → TWF c P (flushLoop c n ti s) := by
  intro n
  induction n with
  | zero => intro ti s h; exact h
  | succ n ih => intro ti s h; exact ih _ _ (tubeFlush_twf c h ti)

theorem tickLoop_twf (c : Cfg) {P : Nat} (passed : Nat) : ∀ (fuel : Nat) (st : St) (ticker : Nat),
    TWF c P st → TWF c P (tickLoop c passed fuel st ticker).st := by
  intro fuel
  induction fuel with
  | zero => intro st ticker h; exact h
  | succ n ih =>
    intro st ticker h
    rw [tickLoop]
    split
    · exact ih _ _ (retire_twf c h _)
    · exact h

theorem stepPos_twf (c : Cfg) {P : Nat} {l : Loop} (h : TWF c P l.st) (pos : Nat) (hp : P ≤ pos) (ts : List Nat) :
    TWF c pos (stepPos c l pos ts).st := by
  unfold stepPos tick kmers
  exact tickLoop_twf c _ _ _ _ (fold_twf c pos ts l.st (h.mono hp))

theorem scanN_twf (c : Cfg) (ts : Nat → List Nat) (l0 : Loop) (h0 : TWF c 0 l0.st) :
    ∀ N, TWF c N (scanN c ts l0 N).st := by
  intro N
  induction N with
  | zero => exact h0
  | succ N ih =>
    rw [scanN_succ]
    exact (stepPos_twf c ih N (Nat.le_refl _) (ts N)).mono (Nat.le_succ _)

/-- every hit pushed by a whole run of the filter model has `From + k ≤ To` and `From ≤ N` (the
    number of query positions scanned) -/
theorem runFilter_hits_wf (c : Cfg) (ts : Nat → List Nat) (N qlen : Nat) :
    ∀ h ∈ (runFilter c ts N qlen).hits, h.from_ + c.k ≤ h.to ∧ h.from_ ≤ (N : Int) := by
  have h0 : TWF c 0 (Loop.mk (St.mk (Array.replicate c.cap default) [] false)
      (c.off + c.maxError)).st := by
    refine ⟨?_, by simp, by simp⟩
    intro slot
    show (getTube { tubes := Array.replicate c.cap default, hits := [] } slot).qLo ≤ _ ∧ _
    rw [getTube_init]
    exact ⟨Nat.le_refl _, Nat.le_refl _⟩
  have h1 := scanN_twf c ts _ h0 N
  have h2 := retire_twf c h1 (tubeEndIndex c (qlen - 1))
  unfold runFilter
  simp only []
  intro h hh
  exact ⟨(flushLoop_twf c _ _ _ h2).hits h hh, (flushLoop_twf c _ _ _ h2).fromLe h hh⟩

open Biogo.Proofs.FilterComplete Biogo.Proofs.Kmer Biogo.Spec.Kmer Biogo.Kmer in
/-- the same for `filter` (position-based ticker) on any query -/
theorem filter_hits_wf {lk : Lookup} (hlk : FourLetter lk) (rule : Rule) (ix : Index) (p : Params) (q : List UInt8)
    (selfAlign complement : Bool) (hrule : rule.tickByPosition = true) (hk : 1 ≤ ix.k) (hk2 : 2 * ix.k ≤ wordBits)
    (hkq : ix.k ≤ q.length) (he : p.maxError ≤ p.tubeOffset) (hoff : 1 ≤ p.tubeOffset)
    (hits : List Hit) (hf : filter rule lk ix p q selfAlign complement = .ok hits) :
    ∀ h ∈ hits, h.from_ + ix.k ≤ h.to ∧ h.from_ ≤ (q.length : Int) := by
  have e := filter_eq_run hlk rule ix p q selfAlign complement hrule hk hk2 hkq he hoff
  simp only [] at e
  rw [e] at hf
  split at hf
  · cases hf
  · cases hf
    intro h hh
    have := runFilter_hits_wf (mkCfg rule ix.k ix.seq.length p selfAlign complement) _ (q.length - ix.k + 1) q.length h
      (List.mem_reverse.mp hh)
    refine ⟨this.1, ?_⟩
    have h2 := this.2
    omega

end Biogo.Proofs.PalsChain
