/-
Helper lemmas for C10: the bit operations of the model as arithmetic, the rolling word of
`ForEachKmerOf` against the plain scan, counting sort.  Core-only.
-/
import Biogo.Model.Kmer
import Biogo.Spec.Kmer

namespace Biogo.Proofs.Kmer
open Biogo.Kmer Biogo.Spec.Kmer

/-! ### bit operations as arithmetic -/

theorem pow4_eq (n : Nat) : pow4 n = 4 ^ n := by
  unfold pow4
  rw [Nat.one_shiftLeft, Nat.pow_mul]

theorem four_pow_eq (n : Nat) : (4 : Nat) ^ n = 2 ^ (2 * n) := by
  rw [Nat.pow_mul]

theorem four_pow_pos (n : Nat) : 0 < (4 : Nat) ^ n := Nat.pow_pos (by decide)

theorem four_pow_le (k : Nat) (hk : 2 * k ≤ wordBits) : (4 : Nat) ^ k ≤ 2 ^ wordBits := by
  rw [four_pow_eq]; exact Nat.pow_le_pow_right (by decide) hk

theorem four_pow_dvd (k : Nat) (hk : 2 * k ≤ wordBits) : (4 : Nat) ^ k ∣ 2 ^ wordBits := by
  rw [four_pow_eq]; exact Nat.pow_dvd_pow 2 hk

theorem kMask_eq (k : Nat) (hk : 2 * k ≤ wordBits) : kMask k = 4 ^ k - 1 := by
  unfold kMask trunc
  rw [pow4_eq]
  apply Nat.mod_eq_of_lt
  have := four_pow_le k hk
  have := four_pow_pos k
  omega

/-- `(kmer << 2) | c` on `uint32` -/
theorem push_eq_mod (kmer c : Nat) (hc : c < 4) : push kmer c = kmer * 4 % 2 ^ wordBits + c := by
  unfold push trunc
  rw [Nat.shiftLeft_eq]
  have h1 : kmer * 2 ^ 2 % 2 ^ wordBits = (kmer % 2 ^ 30) <<< 2 := by
    rw [Nat.shiftLeft_eq]
    exact Nat.mul_mod_mul_right (2 ^ 2) kmer (2 ^ 30)
  rw [h1, ← Nat.shiftLeft_add_eq_or_of_lt (by simpa using hc)]

/-- no overflow: the preload loop -/
theorem push_eq (kmer c : Nat) (hc : c < 4) (h : kmer * 4 < 2 ^ wordBits) : push kmer c = kmer * 4 + c := by
  rw [push_eq_mod kmer c hc, Nat.mod_eq_of_lt h]

/-- `((kmer << 2) | c) & kMask` -/
theorem push_mask_eq (kmer c k : Nat) (hc : c < 4) (hk : 2 * k ≤ wordBits) :
    push kmer c &&& kMask k = (kmer * 4 + c) % 4 ^ k := by
  rw [push_eq_mod kmer c hc, kMask_eq k hk, four_pow_eq, Nat.and_two_pow_sub_one_eq_mod, ← four_pow_eq]
  have hd := four_pow_dvd k hk
  rw [Nat.add_mod, Nat.mod_mod_of_dvd _ hd, ← Nat.add_mod]

/-! ### base-4 numerals -/

theorem foldl_encode (w : Nat) (ds : List Nat) :
    ds.foldl (fun w d => w * 4 + d) w = w * 4 ^ ds.length + encode ds := by
  induction ds generalizing w with
  | nil => simp [encode]
  | cons d ds ih =>
    simp only [List.foldl_cons, List.length_cons, encode]
    rw [ih, ih (0 * 4 + d), Nat.pow_succ]
    simp only [Nat.zero_mul, Nat.zero_add, Nat.add_mul]
    rw [Nat.mul_assoc, Nat.mul_comm 4, Nat.add_assoc]

theorem encode_nil : encode [] = 0 := rfl

theorem encode_cons (d : Nat) (ds : List Nat) : encode (d :: ds) = d * 4 ^ ds.length + encode ds := by
  have := foldl_encode (0 * 4 + d) ds
  simpa [encode] using this

theorem encode_append_singleton (ds : List Nat) (d : Nat) : encode (ds ++ [d]) = encode ds * 4 + d := by
  simp [encode, List.foldl_append]

theorem encode_lt (ds : List Nat) (h : ∀ d ∈ ds, d < 4) : encode ds < 4 ^ ds.length := by
  induction ds with
  | nil => simp [encode]
  | cons d ds ih =>
    rw [encode_cons, List.length_cons, Nat.pow_succ]
    have h1 : d < 4 := h d (by simp)
    have h2 := ih (fun x hx => h x (by simp [hx]))
    have h3 : d * 4 ^ ds.length ≤ 3 * 4 ^ ds.length := Nat.mul_le_mul_right _ (by omega)
    omega

/-- the lookup of a four-letter alphabet -/
def FourLetter (lk : Lookup) : Prop := ∀ b d, lk b = some d → d < 4

theorem digits_cons_some {lk : Lookup} {b : UInt8} {bs : List UInt8} {ds : List Nat}
    (h : digits lk (b :: bs) = some ds) :
    ∃ d ds', lk b = some d ∧ digits lk bs = some ds' ∧ ds = d :: ds' := by
  unfold digits at h
  split at h
  · rename_i d ds' h1 h2
    exact ⟨d, ds', h1, h2, by simpa using h.symm⟩
  · simp at h

theorem digits_length {lk : Lookup} {l : List UInt8} {ds : List Nat} (h : digits lk l = some ds) :
    ds.length = l.length := by
  induction l generalizing ds with
  | nil => simp [digits] at h; simp [h]
  | cons b bs ih =>
    obtain ⟨d, ds', _, h2, rfl⟩ := digits_cons_some h
    simp [ih h2]

theorem digits_lt {lk : Lookup} (hlk : FourLetter lk) {l : List UInt8} {ds : List Nat}
    (h : digits lk l = some ds) : ∀ d ∈ ds, d < 4 := by
  induction l generalizing ds with
  | nil => simp [digits] at h; simp [h]
  | cons b bs ih =>
    obtain ⟨d, ds', h1, h2, rfl⟩ := digits_cons_some h
    intro x hx
    rcases List.mem_cons.mp hx with rfl | hx
    · exact hlk b _ h1
    · exact ih h2 x hx

/-! ### the rolling summary: length and numeral of the current run of valid letters -/

def stepVW (lk : Lookup) (vw : Nat × Nat) (b : UInt8) : Nat × Nat :=
  match lk b with
  | some c => (vw.1 + 1, vw.2 * 4 + c)
  | none => (0, 0)

def sumVW (lk : Lookup) (l : List UInt8) (vw : Nat × Nat) : Nat × Nat := l.foldl (stepVW lk) vw

theorem sumVW_nil (lk : Lookup) (vw : Nat × Nat) : sumVW lk [] vw = vw := rfl
theorem sumVW_cons (lk : Lookup) (b : UInt8) (l : List UInt8) (vw : Nat × Nat) :
    sumVW lk (b :: l) vw = sumVW lk l (stepVW lk vw b) := rfl
theorem sumVW_append (lk : Lookup) (l₁ l₂ : List UInt8) (vw : Nat × Nat) :
    sumVW lk (l₁ ++ l₂) vw = sumVW lk l₂ (sumVW lk l₁ vw) := by
  simp [sumVW, List.foldl_append]

theorem sumVW_fst_le (lk : Lookup) (l : List UInt8) (vw : Nat × Nat) :
    (sumVW lk l vw).1 ≤ vw.1 + l.length := by
  induction l generalizing vw with
  | nil => simp [sumVW]
  | cons b bs ih =>
    rw [sumVW_cons]
    have := ih (stepVW lk vw b)
    cases hb : lk b with
    | none => simp only [stepVW, hb, List.length_cons] at this ⊢; omega
    | some c => simp only [stepVW, hb, List.length_cons] at this ⊢; omega

theorem sumVW_window_some {lk : Lookup} {w : List UInt8} {ds : List Nat} (h : digits lk w = some ds)
    (v0 W0 : Nat) : sumVW lk w (v0, W0) = (v0 + w.length, W0 * 4 ^ w.length + encode ds) := by
  induction w generalizing ds v0 W0 with
  | nil => simp [digits] at h; subst h; simp [sumVW, encode]
  | cons b bs ih =>
    obtain ⟨d, ds', h1, h2, rfl⟩ := digits_cons_some h
    rw [sumVW_cons]
    simp only [stepVW, h1]
    rw [ih h2, encode_cons, digits_length h2, List.length_cons, Nat.pow_succ]
    simp only [Prod.mk.injEq]
    refine ⟨by omega, ?_⟩
    rw [Nat.add_mul, Nat.mul_assoc, Nat.mul_comm 4, Nat.add_assoc]

theorem sumVW_window_none {lk : Lookup} {w : List UInt8} (h : digits lk w = none) (vw : Nat × Nat) :
    (sumVW lk w vw).1 < w.length := by
  induction w generalizing vw with
  | nil => simp [digits] at h
  | cons b bs ih =>
    rw [sumVW_cons]
    cases hb : lk b with
    | none =>
      have := sumVW_fst_le lk bs (stepVW lk vw b)
      simp only [stepVW, hb] at this ⊢
      simp at this ⊢; omega
    | some d =>
      cases hbs : digits lk bs with
      | none => have := ih hbs (stepVW lk vw b); simp; omega
      | some ds => simp [digits, hb, hbs] at h

/-! ### the plain scan against the rolling summary -/

theorem wordOf_eq {lk : Lookup} (hlk : FourLetter lk) (k : Nat) (l pre : List UInt8)
    (hl : k ≤ l.length) :
    wordOf lk k l =
      if (sumVW lk (l.take k) (sumVW lk pre (0, 0))).1 ≥ k
      then some ((sumVW lk (l.take k) (sumVW lk pre (0, 0))).2 % 4 ^ k) else none := by
  have hlen : (l.take k).length = k := by simp [List.length_take]; omega
  unfold wordOf
  simp only [hlen, if_true]
  cases hd : digits lk (l.take k) with
  | none =>
    have := sumVW_window_none hd (sumVW lk pre (0, 0))
    rw [hlen] at this
    simp; omega
  | some ds =>
    have h1 : sumVW lk (l.take k) (sumVW lk pre (0, 0)) = _ :=
      sumVW_window_some hd (sumVW lk pre (0, 0)).1 (sumVW lk pre (0, 0)).2
    rw [h1, hlen]
    have h2 := encode_lt ds (digits_lt hlk hd)
    rw [digits_length hd, hlen] at h2
    simp only [ge_iff_le, Nat.le_add_left, if_true, Option.map_some]
    rw [Nat.mul_add_mod_self_right, Nat.mod_eq_of_lt h2]

theorem wordOf_short (lk : Lookup) (k : Nat) (l : List UInt8) (hl : l.length < k) : wordOf lk k l = none := by
  have : (l.take k).length ≠ k := by simp [List.length_take]; omega
  show (if (l.take k).length = k then _ else none) = none
  rw [if_neg this]

theorem wordsFrom_short (lk : Lookup) (k : Nat) (l : List UInt8) (p : Nat) (hl : l.length < k) :
    wordsFrom lk k l p = [] := by
  induction l generalizing p with
  | nil => rfl
  | cons b bs ih =>
    unfold wordsFrom
    rw [wordOf_short lk k (b :: bs) hl]
    exact ih (p + 1) (by simp at hl; omega)

theorem wordsFrom_ne_nil (lk : Lookup) (k : Nat) (l : List UInt8) (p : Nat) (hl : l ≠ []) :
    wordsFrom lk k l p =
      (match wordOf lk k l with | some w => [(p, w)] | none => []) ++ wordsFrom lk k (l.drop 1) (p + 1) := by
  cases l with
  | nil => exact absurd rfl hl
  | cons b bs =>
    rw [wordsFrom]
    cases wordOf lk k (b :: bs) <;> simp

/-- what the loop of `ForEachKmerOf` emits, in terms of the rolling summary -/
def rollOut (lk : Lookup) (k : Nat) : List UInt8 → Nat → Nat × Nat → List (Nat × Nat)
  | [], _, _ => []
  | b :: bs, position, vw =>
    if (stepVW lk vw b).1 ≥ k then
      (position, (stepVW lk vw b).2 % 4 ^ k) :: rollOut lk k bs (position + 1) (stepVW lk vw b)
    else rollOut lk k bs (position + 1) (stepVW lk vw b)

theorem rollOut_eq_wordsFrom {lk : Lookup} (hlk : FourLetter lk) (k : Nat) (hk : 1 ≤ k)
    (bs ctx : List UInt8) (position : Nat) (hctx : k ≤ ctx.length + 1) :
    rollOut lk k bs position (sumVW lk ctx (0, 0)) =
      wordsFrom lk k (ctx.drop (ctx.length + 1 - k) ++ bs) position := by
  induction bs generalizing ctx position with
  | nil =>
    rw [rollOut, List.append_nil, wordsFrom_short]
    simp [List.length_drop]; omega
  | cons b bs ih =>
    have hstep : stepVW lk (sumVW lk ctx (0, 0)) b = sumVW lk (ctx ++ [b]) (0, 0) := by
      rw [sumVW_append]; rfl
    have hm : ctx.length + 1 - k ≤ ctx.length := by omega
    -- the list the scan walks: the last k-1 letters of ctx, then b, then bs
    have hL : ctx.drop (ctx.length + 1 - k) ++ b :: bs = (ctx ++ [b]).drop (ctx.length + 1 - k) ++ bs := by
      rw [List.drop_append_of_le_length hm]; simp
    have hne : (ctx ++ [b]).drop (ctx.length + 1 - k) ++ bs ≠ [] := by
      intro h
      have := congrArg List.length h
      simp [List.length_drop] at this; omega
    have hdrop1 : ((ctx ++ [b]).drop (ctx.length + 1 - k) ++ bs).drop 1
        = (ctx ++ [b]).drop ((ctx ++ [b]).length + 1 - k) ++ bs := by
      rw [List.drop_append_of_le_length (by simp [List.length_drop]; omega), List.drop_drop]
      congr 2; simp; omega
    have htake : ((ctx ++ [b]).drop (ctx.length + 1 - k) ++ bs).take k = (ctx ++ [b]).drop (ctx.length + 1 - k) := by
      rw [List.take_append_of_le_length (by simp [List.length_drop]; omega)]
      apply List.take_of_length_le; simp [List.length_drop]; omega
    have hsum : sumVW lk ((ctx ++ [b]).drop (ctx.length + 1 - k)) (sumVW lk (ctx.take (ctx.length + 1 - k)) (0, 0))
        = sumVW lk (ctx ++ [b]) (0, 0) := by
      rw [← sumVW_append, List.drop_append_of_le_length hm, ← List.append_assoc, List.take_append_drop]
    have hw := wordOf_eq hlk k ((ctx ++ [b]).drop (ctx.length + 1 - k) ++ bs) (ctx.take (ctx.length + 1 - k))
      (by simp [List.length_drop]; omega)
    rw [htake, hsum] at hw
    rw [hL, wordsFrom_ne_nil lk k _ position hne, hdrop1, hw, rollOut, hstep,
      ih (ctx ++ [b]) (position + 1) (by simp; omega)]
    split <;> simp

/-! ### the loop of `ForEachKmerOf` against the rolling summary -/

theorem mod_mul4_add (a c m : Nat) : ((a % m) * 4 + c) % m = (a * 4 + c) % m := by
  rw [Nat.add_mod, Nat.mul_mod, Nat.mod_mod, ← Nat.mul_mod, ← Nat.add_mod]

/-- the loop state `r` at `basePosition = bp` tracks the summary `vw` of the letters consumed -/
structure Tracks (k : Nat) (r : Roll) (vw : Nat × Nat) (bp position : Nat) : Prop where
  kmer : r.kmer = vw.2 % 4 ^ k
  high : r.high + vw.1 = bp ∨ (r.high ≤ position ∧ bp ≤ position + vw.1)

theorem mainLoop_eq_rollOut {lk : Lookup} (hlk : FourLetter lk) (k : Nat) (hk : 1 ≤ k)
    (hk2 : 2 * k ≤ wordBits) (bs : List UInt8) (bp position : Nat) (r : Roll) (vw : Nat × Nat)
    (hpos : bp + 1 = position + k) (ht : Tracks k r vw bp position) :
    mainLoop lk k bs bp position r = rollOut lk k bs position vw := by
  induction bs generalizing bp position r vw with
  | nil => rfl
  | cons b bs ih =>
    rw [mainLoop, rollOut]
    cases hb : lk b with
    | none =>
      have hr : mainStep lk k r bp b = { kmer := 0, high := bp + 1 } := by simp [mainStep, hb]
      have hs : stepVW lk vw b = (0, 0) := by simp [stepVW, hb]
      have ht' : Tracks k { kmer := 0, high := bp + 1 } (0, 0) (bp + 1) (position + 1) :=
        ⟨by simp, Or.inl (by simp)⟩
      simp only [hr, hs]
      rw [if_neg (by omega), if_neg (by omega)]
      exact ih (bp + 1) (position + 1) _ _ (by omega) ht'
    | some c =>
      have hc : c < 4 := hlk b c hb
      have hr : mainStep lk k r bp b = { kmer := (vw.2 * 4 + c) % 4 ^ k, high := r.high } := by
        simp only [mainStep, hb]
        rw [push_mask_eq _ _ _ hc hk2, ht.kmer, mod_mul4_add]
      have hs : stepVW lk vw b = (vw.1 + 1, vw.2 * 4 + c) := by simp [stepVW, hb]
      have ht' : Tracks k { kmer := (vw.2 * 4 + c) % 4 ^ k, high := r.high } (vw.1 + 1, vw.2 * 4 + c)
          (bp + 1) (position + 1) := by
        refine ⟨rfl, ?_⟩
        rcases ht.high with h | h
        · left; simp only []; omega
        · right; simp only []; omega
      have hcond : position ≥ r.high ↔ vw.1 + 1 ≥ k := by
        rcases ht.high with h | h <;> omega
      simp only [hr, hs]
      by_cases hv : vw.1 + 1 ≥ k
      · rw [if_pos (hcond.mpr hv), if_pos hv, ih (bp + 1) (position + 1) _ _ (by omega) ht']
      · rw [if_neg (fun h => hv (hcond.mp h)), if_neg hv]
        exact ih (bp + 1) (position + 1) _ _ (by omega) ht'

theorem preload_tracks {lk : Lookup} (hlk : FourLetter lk) (k : Nat) (hk2 : 2 * k ≤ wordBits)
    (start : Nat) (pre : List UInt8) (bp : Nat) (r : Roll) (v W : Nat)
    (hlen : v + pre.length + 1 ≤ k) (hkm : r.kmer = W) (hW : W < 4 ^ v)
    (hh : (r.high = 0 ∧ bp = start + v) ∨ r.high + v = bp) :
    (preload lk pre bp r).kmer = (sumVW lk pre (v, W)).2 ∧
    (sumVW lk pre (v, W)).2 < 4 ^ (sumVW lk pre (v, W)).1 ∧
    (((preload lk pre bp r).high = 0 ∧ bp + pre.length = start + (sumVW lk pre (v, W)).1) ∨
      (preload lk pre bp r).high + (sumVW lk pre (v, W)).1 = bp + pre.length) := by
  induction pre generalizing bp r v W with
  | nil => simpa [preload, sumVW] using ⟨hkm, hW, hh⟩
  | cons b pre ih =>
    rw [preload, sumVW_cons]
    simp only [List.length_cons] at hlen ⊢
    cases hb : lk b with
    | none =>
      have hr : preStep lk r bp b = { kmer := 0, high := bp + 1 } := by simp [preStep, hb]
      have hs : stepVW lk (v, W) b = (0, 0) := by simp [stepVW, hb]
      rw [hr, hs]
      have := ih (bp + 1) { kmer := 0, high := bp + 1 } 0 0 (by omega) rfl (by simp) (Or.inr (by simp))
      rcases this with ⟨h1, h2, h3⟩
      refine ⟨h1, h2, ?_⟩
      rcases h3 with h | h
      · left; exact ⟨h.1, by omega⟩
      · right; omega
    | some c =>
      have hc : c < 4 := hlk b c hb
      have h4 : (4 : Nat) ^ (v + 1) ≤ 4 ^ k := Nat.pow_le_pow_right (by decide) (by omega)
      have h5 := four_pow_le k hk2
      have hWc : W * 4 + c < 4 ^ (v + 1) := by rw [Nat.pow_succ]; omega
      have hr : preStep lk r bp b = { kmer := W * 4 + c, high := r.high } := by
        simp only [preStep, hb]
        rw [hkm, push_eq _ _ hc (by omega)]
      have hs : stepVW lk (v, W) b = (v + 1, W * 4 + c) := by simp [stepVW, hb]
      rw [hr, hs]
      have := ih (bp + 1) { kmer := W * 4 + c, high := r.high } (v + 1) (W * 4 + c) (by omega) rfl hWc
        (by rcases hh with h | h
            · left; exact ⟨h.1, by omega⟩
            · right; simp only []; omega)
      rcases this with ⟨h1, h2, h3⟩
      refine ⟨h1, h2, ?_⟩
      rcases h3 with h | h
      · left; exact ⟨h.1, by omega⟩
      · right; omega

/-! ### truncating the sequence = filtering the windows -/

theorem mem_wordsFrom_ge (lk : Lookup) (k : Nat) (l : List UInt8) (p : Nat) (c : Nat × Nat)
    (h : c ∈ wordsFrom lk k l p) : p ≤ c.1 := by
  induction l generalizing p with
  | nil => simp [wordsFrom] at h
  | cons b bs ih =>
    rw [wordsFrom] at h
    cases hw : wordOf lk k (b :: bs) with
    | none => simp only [hw] at h; have := ih (p + 1) h; omega
    | some w =>
      simp only [hw, List.mem_cons] at h
      rcases h with rfl | h
      · exact Nat.le_refl _
      · have := ih (p + 1) h; omega

theorem wordOf_take (lk : Lookup) (k m : Nat) (l : List UInt8) :
    wordOf lk k (l.take m) = if k ≤ m then wordOf lk k l else none := by
  by_cases h : k ≤ m
  · rw [if_pos h]; unfold wordOf; rw [List.take_take, Nat.min_eq_left h]
  · rw [if_neg h]; apply wordOf_short; simp [List.length_take]; omega

theorem wordsFrom_take (lk : Lookup) (k : Nat) (hk : 1 ≤ k) (l : List UInt8) (m p : Nat) :
    wordsFrom lk k (l.take m) p = (wordsFrom lk k l p).filter (fun c => c.1 + k ≤ p + m) := by
  induction l generalizing m p with
  | nil => simp [wordsFrom]
  | cons b bs ih =>
    cases m with
    | zero =>
      rw [List.take_zero, wordsFrom]
      symm
      rw [List.filter_eq_nil_iff]
      intro c hc
      have := mem_wordsFrom_ge lk k _ p c hc
      simp; omega
    | succ m =>
      have hw := wordOf_take lk k (m + 1) (b :: bs)
      rw [List.take_succ_cons] at hw ⊢
      rw [wordsFrom, wordsFrom, hw, ih m (p + 1)]
      have hb : ∀ c : Nat × Nat, decide (c.1 + k ≤ p + 1 + m) = decide (c.1 + k ≤ p + (m + 1)) := by
        intro c; congr 1; apply propext; omega
      by_cases hkm : k ≤ m + 1
      · rw [if_pos hkm]
        cases wordOf lk k (b :: bs) with
        | none => simp only [hb]
        | some w =>
          simp only [List.filter_cons, hb]
          rw [if_pos (by simp; omega)]
      · rw [if_neg hkm]
        cases wordOf lk k (b :: bs) with
        | none => simp only [hb]
        | some w =>
          simp only [List.filter_cons, hb]
          rw [if_neg (by simp; omega)]

/-- the callbacks of `ForEachKmerOf(s, start, end)` are exactly the valid windows of the range -/
theorem forEachKmer_calls {lk : Lookup} (hlk : FourLetter lk) (k : Nat) (hk : 1 ≤ k)
    (hk2 : 2 * k ≤ wordBits) (s : List UInt8) (start end_ : Nat) :
    (forEachKmer lk k s start end_).calls = validWindows lk k s start end_ := by
  unfold forEachKmer validWindows
  simp only []
  by_cases hpre : ((s.drop start).take (k - 1)).length < k - 1
  · rw [if_pos hpre]
    rw [wordsFrom_short lk k (s.drop start) start (by rw [List.length_take] at hpre; omega)]
    rfl
  · rw [if_neg hpre]
    simp only []
    have hlen : ((s.drop start).take (k - 1)).length = k - 1 := by
      have := List.length_take_le (k - 1) (s.drop start); omega
    have hp := preload_tracks hlk k hk2 start ((s.drop start).take (k - 1)) start
      { kmer := 0, high := 0 } 0 0 (by omega) rfl (by simp) (Or.inl ⟨rfl, rfl⟩)
    obtain ⟨h1, h2, h3⟩ := hp
    have hv := sumVW_fst_le lk ((s.drop start).take (k - 1)) (0, 0)
    rw [hlen] at hv h3
    simp only [Nat.zero_add] at hv
    have ht : Tracks k (preload lk ((s.drop start).take (k - 1)) start { kmer := 0, high := 0 })
        (sumVW lk ((s.drop start).take (k - 1)) (0, 0)) (start + (k - 1)) (start + (k - 1) + 1 - k) := by
      constructor
      · rw [h1, Nat.mod_eq_of_lt]
        exact Nat.lt_of_lt_of_le h2 (Nat.pow_le_pow_right (by decide) (by omega))
      · rcases h3 with h | h
        · right; omega
        · left; exact h
    rw [mainLoop_eq_rollOut hlk k hk hk2 _ _ _ _ _ (by omega) ht,
      rollOut_eq_wordsFrom hlk k hk _ _ _ (by omega)]
    rw [hlen, show k - 1 + 1 - k = 0 by omega, List.drop_zero]
    have happ : (s.drop start).take (k - 1) ++ (s.drop (start + (k - 1))).take (end_ - (start + (k - 1)))
        = (s.drop start).take ((k - 1) + (end_ - (start + (k - 1)))) := by
      rw [List.take_add, List.drop_drop]
    rw [happ, show start + (k - 1) + 1 - k = start by omega, wordsFrom_take lk k hk]
    apply List.filter_congr
    intro c hc
    have := mem_wordsFrom_ge lk k _ start c hc
    congr 1; apply propext; omega

theorem forEachKmer_err (lk : Lookup) (k : Nat) (s : List UInt8) (start end_ : Nat)
    (h1 : start + (k - 1) ≤ s.length) (h2 : end_ ≤ s.length) :
    (forEachKmer lk k s start end_).err = false := by
  unfold forEachKmer
  simp only []
  have hlen : ((s.drop start).take (k - 1)).length = k - 1 := by
    rw [List.length_take, List.length_drop]; omega
  rw [if_neg (by omega)]
  simp only [List.length_take, List.length_drop, decide_eq_false_iff_not]
  omega

/-! ### the plain scan yields exactly the positions that have a word, in increasing order -/

theorem mem_wordsFrom_iff (lk : Lookup) (k : Nat) (l : List UInt8) (p : Nat) (c : Nat × Nat) :
    c ∈ wordsFrom lk k l p ↔ p ≤ c.1 ∧ c.1 - p < l.length ∧ wordOf lk k (l.drop (c.1 - p)) = some c.2 := by
  induction l generalizing p with
  | nil => simp [wordsFrom]
  | cons b bs ih =>
    have hrest : c ∈ wordsFrom lk k bs (p + 1) ↔
        p + 1 ≤ c.1 ∧ c.1 - (p + 1) < bs.length ∧ wordOf lk k (bs.drop (c.1 - (p + 1))) = some c.2 := ih (p + 1)
    have hstep : p + 1 ≤ c.1 → (b :: bs).drop (c.1 - p) = bs.drop (c.1 - (p + 1)) := by
      intro h
      rw [show c.1 - p = (c.1 - (p + 1)) + 1 by omega, List.drop_succ_cons]
    rw [wordsFrom]
    constructor
    · intro h
      have hcase : c = (p, (wordOf lk k (b :: bs)).getD 0) ∧ (wordOf lk k (b :: bs)).isSome ∨
          c ∈ wordsFrom lk k bs (p + 1) := by
        cases hw : wordOf lk k (b :: bs) with
        | none => right; simpa [hw] using h
        | some w =>
          simp only [hw, List.mem_cons] at h
          rcases h with rfl | h
          · left; simp
          · right; exact h
      rcases hcase with ⟨rfl, hs⟩ | h
      · refine ⟨Nat.le_refl _, by simp, ?_⟩
        simp only [Nat.sub_self, List.drop_zero]
        cases hw : wordOf lk k (b :: bs) with
        | none => simp [hw] at hs
        | some w => simp
      · obtain ⟨h1, h2, h3⟩ := hrest.mp h
        refine ⟨by omega, by simp; omega, ?_⟩
        rw [hstep h1]; exact h3
    · rintro ⟨h1, h2, h3⟩
      by_cases hp : c.1 = p
      · rw [hp, Nat.sub_self, List.drop_zero] at h3
        rw [h3]
        simp only [List.mem_cons]
        left
        exact Prod.ext hp rfl
      · have h1' : p + 1 ≤ c.1 := by omega
        have : c ∈ wordsFrom lk k bs (p + 1) := by
          apply hrest.mpr
          refine ⟨h1', by simp at h2; omega, ?_⟩
          rw [← hstep h1']; exact h3
        cases wordOf lk k (b :: bs) with
        | none => exact this
        | some w => exact List.mem_cons_of_mem _ this

theorem wordsFrom_pairwise (lk : Lookup) (k : Nat) (l : List UInt8) (p : Nat) :
    (wordsFrom lk k l p).Pairwise (fun a b => a.1 < b.1) := by
  induction l generalizing p with
  | nil => simp [wordsFrom]
  | cons b bs ih =>
    rw [wordsFrom]
    cases wordOf lk k (b :: bs) with
    | none => exact ih (p + 1)
    | some w =>
      refine List.Pairwise.cons ?_ (ih (p + 1))
      intro c hc
      have := mem_wordsFrom_ge lk k bs (p + 1) c hc
      simp only []; omega

end Biogo.Proofs.Kmer
