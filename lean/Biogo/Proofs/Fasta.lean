/-
Proofs about the FASTA model: what the reader does on a laid-out file (`renders_read`),
what the writer emits (`write_spec`, `writeAll_renders`), the byte count, totality.
Core Lean only.
-/
import Biogo.Proofs.Bytes
import Biogo.Model.Fasta

namespace Biogo.Fasta
open Biogo.Go.Bytes Biogo.Spec.Seqio

/-! ### from bytes to the lines the reader sees -/

/-- a raw line and what `ReadLine` returns for it: the line itself (unterminated last line)
    or the line without a CR before its LF -/
inductive LinesRel : List Bytes → List Bytes → Prop
  | nil : LinesRel [] []
  | cons (l l' : Bytes) (ls ls' : List Bytes) :
      (l' = l ∨ l' = stripCR l) → LinesRel ls ls' → LinesRel (l :: ls) (l' :: ls')

theorem terminated_splitLines {lines : List Bytes} {bs : Bytes} (h : Terminated lines bs) :
    LinesRel lines (splitLines bs) := by
  induction h with
  | nil => rw [splitLines_nil]; exact .nil
  | last l hne hl => rw [splitLines_last l hl hne]; exact .cons _ _ _ _ (.inl rfl) .nil
  | lf l ls bs hl _ ih => rw [splitLines_line l bs hl]; exact .cons _ _ _ _ (.inr rfl) ih

/-- content whose first and last byte are visible (or that is empty) -/
def EndsVisible (c : Bytes) : Prop :=
  (∀ a, c.head? = some a → a.toNat < 128 ∧ isAsciiSpace a = false) ∧
  (∀ a, c.getLast? = some a → a.toNat < 128 ∧ isAsciiSpace a = false)

theorem dropCR_eq (l : Bytes) : dropCR l = l ∨ ∃ t, l = 13 :: t ∧ dropCR l = t := by
  unfold dropCR
  split
  · exact .inr ⟨_, rfl, rfl⟩
  · exact .inl rfl

/-- trailing blanks stay trailing blanks when the CR before the LF is dropped -/
theorem padded_stripCR {c raw : Bytes} (hc : EndsVisible c) (h : Padded c raw) : Padded c (stripCR raw) := by
  obtain ⟨post, rfl, hp⟩ := h
  unfold stripCR
  rcases dropCR_eq (c ++ post).reverse with e | ⟨t, e1, e2⟩
  · rw [e]; exact ⟨post, by simp, hp⟩
  · rw [e2]
    rw [List.reverse_append] at e1
    -- the CR is the last byte of `post`, or `post` is empty and it would be the last byte of `c`
    cases hpr : post.reverse with
    | nil =>
      have hpost : post = [] := by simpa using hpr
      subst hpost
      simp at e1
      have : c.getLast? = some 13 := by rw [List.getLast?_eq_head?_reverse, e1]; simp
      have := (hc.2 13 this).2
      simp [isAsciiSpace] at this
    | cons z zs =>
      rw [hpr] at e1
      simp at e1
      obtain ⟨hz, ht⟩ := e1
      refine ⟨zs.reverse, ?_, ?_⟩
      · rw [← ht]; simp
      · intro b hb
        apply hp b
        have : b ∈ post.reverse := by rw [hpr]; simp at hb; simp [hb]
        simpa using this

theorem padded_trim {c raw : Bytes} (hc : EndsVisible c) (h : Padded c raw) : trimSpace raw = c := by
  obtain ⟨post, rfl, hp⟩ := h
  exact trimSpace_padded c post hc.1 hc.2 (fun b hb => isBlank_space (hp b hb))

theorem rel_trim {c l l' : Bytes} (hc : EndsVisible c) (h : Padded c l) (hr : l' = l ∨ l' = stripCR l) :
    trimSpace l' = c := by
  rcases hr with rfl | rfl
  · exact padded_trim hc h
  · exact padded_trim hc (padded_stripCR hc h)

theorem endsVisible_nil : EndsVisible [] := ⟨by simp, by simp⟩

theorem endsVisible_of_all {c : Bytes} (h : ∀ b ∈ c, visible b = true) : EndsVisible c := by
  constructor
  · intro a ha
    have : a ∈ c := List.mem_of_mem_head? ha
    exact ⟨visible_lt (h a this), visible_not_space (h a this)⟩
  · intro a ha
    have : a ∈ c := List.mem_of_getLast? ha
    exact ⟨visible_lt (h a this), visible_not_space (h a this)⟩

/-! ### well-formedness, unpacked -/

theorem nameOK_iff {n : Bytes} : nameOK n = true ↔ ∀ b ∈ n, visible b = true := by
  simp [nameOK]

structure DescOK (d : Bytes) : Prop where
  ascii : ∀ b ∈ d, b.toNat < 128
  nolf : ∀ b ∈ d, b ≠ 10
  head : ∀ a, d.head? = some a → isAsciiSpace a = false
  last : ∀ a, d.getLast? = some a → isAsciiSpace a = false

theorem descOK_iff {d : Bytes} : descOK d = true ↔ DescOK d := by
  constructor
  · intro h
    simp only [descOK, Bool.and_eq_true, List.all_eq_true] at h
    obtain ⟨⟨h1, h2⟩, h3⟩ := h
    refine ⟨fun b hb => ?_, fun b hb => ?_, fun a ha => ?_, fun a ha => ?_⟩
    · have := (h1 b hb).1; simpa [UInt8.lt_iff_toNat_lt] using this
    · have := (h1 b hb).2; simpa using this
    · rw [ha] at h2; simpa using h2
    · rw [ha] at h3; simpa using h3
  · intro ⟨h1, h2, h3, h4⟩
    simp only [descOK, Bool.and_eq_true, List.all_eq_true]
    refine ⟨⟨fun b hb => ?_, ?_⟩, ?_⟩
    · simp [UInt8.lt_iff_toNat_lt, h2 b hb]; exact h1 b hb
    · cases hd : d.head? with
      | none => rfl
      | some a => simp [h3 a hd]
    · cases hd : d.getLast? with
      | none => rfl
      | some a => simp [h4 a hd]

/-- the header line starts with the prefix byte and ends with a visible byte -/
theorem headerLine_endsVisible (pfx : UInt8) (hp : visible pfx = true) {n d : Bytes}
    (hn : nameOK n = true) (hd : descOK d = true) : EndsVisible (headerLine pfx n d) := by
  rw [nameOK_iff] at hn
  rw [descOK_iff] at hd
  constructor
  · intro a ha
    simp [headerLine] at ha
    subst ha
    exact ⟨visible_lt hp, visible_not_space hp⟩
  · intro a ha
    unfold headerLine at ha
    by_cases hde : d.isEmpty = true
    · simp only [hde, if_true, List.append_nil] at ha
      have : a ∈ pfx :: n := List.mem_of_getLast? ha
      rcases List.mem_cons.mp this with rfl | hm
      · exact ⟨visible_lt hp, visible_not_space hp⟩
      · exact ⟨visible_lt (hn a hm), visible_not_space (hn a hm)⟩
    · simp only [hde, Bool.false_eq_true, if_false] at ha
      have hdne : d ≠ [] := by intro e; subst e; simp at hde
      have e : (pfx :: n ++ 32 :: d).getLast? = d.getLast? := by
        rw [show pfx :: n ++ 32 :: d = (pfx :: n ++ [32]) ++ d by simp, List.getLast?_append]
        cases hg : d.getLast? with
        | none => exact absurd (List.getLast?_eq_none_iff.mp hg) hdne
        | some x => simp
      rw [e] at ha
      exact ⟨hd.ascii a (List.mem_of_getLast? ha), hd.last a ha⟩

theorem headerLine_nolf (pfx : UInt8) (hp : visible pfx = true) {n d : Bytes}
    (hn : nameOK n = true) (hd : descOK d = true) : ∀ b ∈ headerLine pfx n d, b ≠ 10 := by
  rw [nameOK_iff] at hn
  rw [descOK_iff] at hd
  intro b hb
  unfold headerLine at hb
  simp only [List.mem_cons, List.mem_append] at hb
  rcases hb with (rfl | hb) | hb
  · exact visible_ne_lf hp
  · exact visible_ne_lf (hn b hb)
  · split at hb
    · simp at hb
    · rcases List.mem_cons.mp hb with rfl | hb
      · decide
      · exact hd.nolf b hb

/-! ### the header parser on a well-formed header line -/

def mkWorking (n d : Bytes) : Working := { name := n, desc := d, letters := #[] }

theorem header_headerLine {n d : Bytes} (hn : nameOK n = true) (hd : descOK d = true) :
    header {} (headerLine 62 n d) = .ok (mkWorking n d, none) := by
  rw [nameOK_iff] at hn
  have hcut : sliceFrom (headerLine 62 n d) ([62] : Bytes).length
      = .ok (n ++ (if d.isEmpty then [] else 32 :: d)) := by
    simp [sliceFrom, headerLine]
  unfold header
  simp only [hcut, bind, Except.bind]
  by_cases hde : d.isEmpty = true
  · have hd0 : d = [] := by simpa using hde
    subst hd0
    simp only [List.isEmpty_nil, if_true, List.append_nil]
    rw [indexAnySpTab_visible_nil _ hn]
    simp [mkWorking, pure, Except.pure]
  · simp only [hde, Bool.false_eq_true, if_false]
    have e : indexAnySpTab (n ++ 32 :: d) = some n.length := by
      rw [indexAnySpTab_visible _ hn]
      simp [indexAnySpTab, List.findIdx?_cons]
    rw [e]
    simp [slice, sliceFrom, mkWorking, pure, Except.pure]

/-! ### the reader-level view of a laid-out file -/

def LettersOK (c : Bytes) : Prop := ∀ b ∈ c, visible b = true ∧ b ≠ 62

theorem fastaLettersOK_iff {l : Bytes} : fastaLettersOK l = true ↔ LettersOK l := by
  simp [fastaLettersOK, LettersOK]

/-- One constructor per line, as the reader meets them; `cur` is what is left of the letters
    of the record whose header has been seen. -/
inductive FLT : Option Bytes → List Rec → List Bytes → Prop
  | nil : FLT none [] []
  | blank (raw : Bytes) (recs : List Rec) (lines : List Bytes) :
      trimSpace raw = [] → FLT none recs lines → FLT none recs (raw :: lines)
  | header (r : Rec) (h : Bytes) (rs : List Rec) (lines : List Bytes) :
      trimSpace h = headerLine 62 r.name r.desc → nameOK r.name = true → descOK r.desc = true →
      FLT (some r.letters) rs lines → FLT none (r :: rs) (h :: lines)
  | piece (c raw ls : Bytes) (rs : List Rec) (lines : List Bytes) :
      trimSpace raw = c → LettersOK c → FLT (some ls) rs lines → FLT (some (c ++ ls)) rs (raw :: lines)
  | endrec (rs : List Rec) (lines : List Bytes) : FLT none rs lines → FLT (some []) rs lines

theorem seqLines_flt {ls : Bytes} {body : List Bytes} (hs : SeqLines ls body) (hok : LettersOK ls)
    (rs : List Rec) (rest : List Bytes) (k : ∀ rest', LinesRel rest rest' → FLT none rs rest') :
    ∀ tl', LinesRel (body ++ rest) tl' → FLT (some ls) rs tl' := by
  induction hs with
  | nil => intro tl' h; exact .endrec _ _ (k tl' h)
  | cons c raw ls raws hp _ ih =>
    intro tl' h
    cases h with
    | cons _ raw' _ tl'' hr hrest =>
      have hc : LettersOK c := fun b hb => hok b (by simp [hb])
      have hl : LettersOK ls := fun b hb => hok b (by simp [hb])
      exact .piece c raw' ls rs tl'' (rel_trim (endsVisible_of_all (fun b hb => (hc b hb).1)) hp hr) hc
        (ih hl tl'' hrest)

theorem fastaLines_flt {recs : List Rec} {lines : List Bytes} (h : FastaLines recs lines)
    (hwf : ∀ r ∈ recs, wfFasta r = true) : ∀ lines', LinesRel lines lines' → FLT none recs lines' := by
  induction h with
  | nil => intro lines' h; cases h; exact .nil
  | blank raw recs lines hp _ ih =>
    intro lines' h
    cases h with
    | cons _ raw' _ ls' hr hrest => exact .blank raw' recs ls' (rel_trim endsVisible_nil hp hr) (ih hwf ls' hrest)
  | record r h body rs rest hp hs _ ih =>
    intro lines' hl
    cases hl with
    | cons _ h' _ tl' hr hrest =>
      have hr' := hwf r (by simp)
      simp only [wfFasta, Bool.and_eq_true] at hr'
      obtain ⟨⟨hn, hd⟩, hlet⟩ := hr'
      refine .header r h' rs tl' (rel_trim (headerLine_endsVisible 62 (by decide) hn hd) hp hr) hn hd ?_
      exact seqLines_flt hs (fastaLettersOK_iff.mp hlet) rs rest
        (ih (fun r' hr' => hwf r' (by simp [hr']))) tl' hrest

/-! ### one call of `read` on each kind of line -/

theorem read_blank (st : St) (raw : Bytes) (rest : List Bytes) (h : trimSpace raw = []) :
    read {} st (raw :: rest) = read {} st rest := by
  conv => lhs; unfold read
  simp [h]

theorem hasPrefix_headerLine (n d : Bytes) : hasPrefix (headerLine 62 n d) [62] = true := by
  simp [hasPrefix, headerLine, List.isPrefixOf]

theorem headerLine_length_ne (n d : Bytes) : ((headerLine 62 n d).length == 0) = false := by
  simp [headerLine]

theorem read_header_none (e : Option Err) (r : Rec) (h : Bytes) (rest : List Bytes)
    (ht : trimSpace h = headerLine 62 r.name r.desc) (hn : nameOK r.name = true) (hd : descOK r.desc = true) :
    read {} ⟨none, e⟩ (h :: rest) = read {} ⟨some (mkWorking r.name r.desc), none⟩ rest := by
  conv => lhs; unfold read
  simp only [ht, headerLine_length_ne, hasPrefix_headerLine, header_headerLine hn hd]
  rfl

theorem read_header_some (w : Working) (e : Option Err) (r : Rec) (h : Bytes) (rest : List Bytes)
    (ht : trimSpace h = headerLine 62 r.name r.desc) (hn : nameOK r.name = true) (hd : descOK r.desc = true) :
    read {} ⟨some w, e⟩ (h :: rest)
      = .ok (⟨some w.toRec, e⟩, ⟨some (mkWorking r.name r.desc), none⟩, rest) := by
  conv => lhs; unfold read
  simp only [ht, headerLine_length_ne, hasPrefix_headerLine, header_headerLine hn hd]
  rfl

theorem read_piece (w : Working) (e : Option Err) (c raw : Bytes) (rest : List Bytes)
    (ht : trimSpace raw = c) (hc : LettersOK c) :
    read {} ⟨some w, e⟩ (raw :: rest)
      = read {} ⟨some { w with letters := w.letters.appendList c }, e⟩ rest := by
  cases c with
  | nil => rw [read_blank _ _ _ ht]; simp
  | cons a t =>
    have ha := hc a (by simp)
    have hpre : hasPrefix (a :: t) [62] = false := by
      simp [hasPrefix, List.isPrefixOf]; exact fun h => ha.2 h.symm
    conv => lhs; unfold read
    simp only [ht, hpre]
    simp [hasPrefix, sliceFrom, removeSpaces_visible (a :: t) (fun b hb => (hc b hb).1),
      bind, Except.bind]

theorem read_nil_some (w : Working) (e : Option Err) :
    read {} ⟨some w, e⟩ [] = .ok (⟨some w.toRec, e⟩, ⟨none, none⟩, []) := by
  simp [read, deferred, pure, Except.pure]

theorem read_nil_none (e : Option Err) :
    read {} ⟨none, e⟩ [] = .ok (⟨none, some .eof⟩, ⟨none, none⟩, []) := by
  simp [read, deferred, pure, Except.pure]

theorem readAllAux_congr (fuel : Nat) (st st' : St) (lines lines' : List Bytes)
    (h : read {} st lines = read {} st' lines') :
    readAllAux {} fuel st lines = readAllAux {} fuel st' lines' := by
  cases fuel with
  | zero => rfl
  | succ n => simp only [readAllAux, h]

/-! ### reading a laid-out file -/

def retOK (r : Rec) : Call := .ret ⟨some r, none⟩
def retEOF : Call := .ret ⟨none, some .eof⟩

theorem flt_read {cur : Option Bytes} {recs : List Rec} {lines : List Bytes} (h : FLT cur recs lines) :
    (∀ (w : Working) (fuel : Nat), recs.length + 2 ≤ fuel →
      readAllAux {} fuel ⟨some w, none⟩ lines
        = retOK ⟨w.name, w.desc, w.letters.toList ++ cur.getD []⟩ :: (recs.map retOK ++ [retEOF])) ∧
    (cur = none → ∀ fuel : Nat, recs.length + 1 ≤ fuel →
      readAllAux {} fuel ⟨none, none⟩ lines = recs.map retOK ++ [retEOF]) := by
  induction h with
  | nil =>
    constructor
    · intro w fuel hf
      obtain ⟨f, rfl⟩ : ∃ f, fuel = f + 2 := ⟨fuel - 2, by simp at hf; omega⟩
      simp [readAllAux, read_nil_some, read_nil_none, retOK, retEOF, Working.toRec]
    · intro _ fuel hf
      obtain ⟨f, rfl⟩ : ∃ f, fuel = f + 1 := ⟨fuel - 1, by simp at hf; omega⟩
      simp [readAllAux, read_nil_none, retEOF]
  | blank raw recs lines ht _ ih =>
    constructor
    · intro w fuel hf
      rw [readAllAux_congr fuel _ _ _ _ (read_blank _ raw lines ht)]
      exact ih.1 w fuel hf
    · intro _ fuel hf
      rw [readAllAux_congr fuel _ _ _ _ (read_blank _ raw lines ht)]
      exact ih.2 rfl fuel hf
  | header r h rs lines ht hn hd _ ih =>
    constructor
    · intro w fuel hf
      obtain ⟨f, rfl⟩ : ∃ f, fuel = f + 1 := ⟨fuel - 1, by simp at hf; omega⟩
      have := ih.1 (mkWorking r.name r.desc) f (by simp at hf ⊢; omega)
      simp only [mkWorking] at this
      simp only [readAllAux, read_header_some w none r h lines ht hn hd]
      cases r
      simp_all [retOK, Working.toRec, mkWorking]
    · intro _ fuel hf
      rw [readAllAux_congr fuel _ _ _ _ (read_header_none none r h lines ht hn hd)]
      have := ih.1 (mkWorking r.name r.desc) fuel (by simp at hf ⊢; omega)
      simpa [retOK, mkWorking] using this
  | piece c raw ls rs lines ht hc _ ih =>
    constructor
    · intro w fuel hf
      rw [readAllAux_congr fuel _ _ _ _ (read_piece w none c raw lines ht hc)]
      have := ih.1 { w with letters := w.letters.appendList c } fuel hf
      simpa [List.append_assoc] using this
    · intro h; cases h
  | endrec rs lines _ ih =>
    constructor
    · intro w fuel hf
      simpa using ih.1 w fuel hf
    · intro h; cases h

theorem flt_length {cur : Option Bytes} {recs : List Rec} {lines : List Bytes} (h : FLT cur recs lines) :
    recs.length ≤ lines.length := by
  induction h with
  | nil => simp
  | blank _ _ _ _ _ ih => simp; omega
  | header _ _ _ _ _ _ _ _ ih => simp; omega
  | piece _ _ _ _ _ _ _ _ ih => simp; omega
  | endrec _ _ _ ih => exact ih

/-- Reading any layout of well-formed records returns exactly these records, then `io.EOF`. -/
theorem renders_read (recs : List Rec) (bs : Bytes) (hwf : ∀ r ∈ recs, wfFasta r = true)
    (h : FastaRenders recs bs) : readAll {} bs = recs.map retOK ++ [retEOF] := by
  obtain ⟨lines, hl, ht⟩ := h
  have hflt := fastaLines_flt hl hwf _ (terminated_splitLines ht)
  have := flt_length hflt
  exact (flt_read hflt).2 rfl _ (by omega)

/-! ### the writer -/

/-- what the letter loop of `Write` emits from index `i` on -/
def wrapFrom (w : Nat) (pfx : Bytes) : Nat → Bytes → Bytes
  | _, [] => []
  | i, l :: ls => (if i % w == 0 then pfx else []) ++ l :: wrapFrom w pfx (i + 1) ls

theorem bytes_write (s : Sink) (p : Bytes) : (s.write p).1.bytes = s.bytes ++ p := by
  simp [Sink.write, Sink.bytes]

@[simp] theorem size_appendList (xs : Array UInt8) (l : Bytes) : (xs ++ l).size = xs.size + l.length := by
  rw [← Array.length_toList, Array.toList_appendList, List.length_append, Array.length_toList]

theorem size_write (s : Sink) (p : Bytes) : (s.write p).1.out.size = s.out.size + (s.write p).2 := by
  simp [Sink.write]

theorem writeLoop_spec (w : Nat) (hw : w ≠ 0) (pfx : Bytes) (i : Nat) (ls : Bytes) (sink : Sink) (n : Nat) :
    ∃ sink', writeLoop w pfx i ls sink n = .ok (sink', n + (wrapFrom w pfx i ls).length) ∧
      sink'.bytes = sink.bytes ++ wrapFrom w pfx i ls := by
  induction ls generalizing i sink n with
  | nil => exact ⟨sink, by simp [writeLoop, wrapFrom, pure, Except.pure]⟩
  | cons l ls ih =>
    have hw' : (w == 0) = false := by simpa using hw
    by_cases hi : (i % w == 0) = true
    · obtain ⟨s', h1, h2⟩ := ih (i + 1) ((sink.write pfx).1.write [l]).1 (n + pfx.length + 1)
      refine ⟨s', ?_, ?_⟩
      · simp only [writeLoop, hw', hi]
        simp [Sink.write] at h1 ⊢
        rw [h1]; simp [wrapFrom, hi]; omega
      · rw [h2]; simp [bytes_write, wrapFrom, hi]
    · obtain ⟨s', h1, h2⟩ := ih (i + 1) (sink.write [l]).1 (n + 1)
      refine ⟨s', ?_, ?_⟩
      · simp only [writeLoop, hw', hi]
        simp [Sink.write] at h1 ⊢
        rw [h1]; simp [wrapFrom, hi]; omega
      · rw [h2]; simp [bytes_write, wrapFrom, hi]

/-- the bytes of one record as `Write` lays them out at width `w` -/
def render (w : Nat) (r : Rec) : Bytes :=
  headerLine 62 r.name r.desc ++ wrapFrom w [10] 0 r.letters ++ [10]

theorem header_eq (r : Rec) :
    ([62] : Bytes) ++ r.name ++ (if r.desc.length > 0 then 32 :: r.desc else []) = headerLine 62 r.name r.desc := by
  unfold headerLine
  cases r.desc <;> simp

theorem write_spec (w : Nat) (hw : w ≠ 0) (sink : Sink) (r : Rec) :
    ∃ sink', write { width := w } sink r = .ok (sink', (render w r).length) ∧
      sink'.bytes = sink.bytes ++ render w r := by
  obtain ⟨s', h1, h2⟩ := writeLoop_spec w hw [10] 0 r.letters (sink.write (headerLine 62 r.name r.desc)).1
    (headerLine 62 r.name r.desc).length
  refine ⟨(s'.write [10]).1, ?_, ?_⟩
  · simp only [write, bind, Except.bind, header_eq]
    simp only [Sink.write] at h1 ⊢
    rw [h1]
    simp [pure, Except.pure, render]; omega
  · rw [bytes_write, h2, bytes_write]; simp [render]

theorem writeLoop_count (w : Nat) (pfx : Bytes) (i : Nat) (ls : Bytes) (sink sink' : Sink) (n n' : Nat)
    (h : writeLoop w pfx i ls sink n = .ok (sink', n')) : sink'.out.size + n = sink.out.size + n' := by
  induction ls generalizing i sink n with
  | nil => simp [writeLoop, pure, Except.pure] at h; obtain ⟨rfl, rfl⟩ := h; rfl
  | cons l ls ih =>
    by_cases hw : (w == 0) = true
    · simp [writeLoop, hw, throw, throwThe, MonadExceptOf.throw] at h
    · simp only [writeLoop, hw] at h
      by_cases hi : (i % w == 0) = true
      · simp only [hi, if_true] at h
        have := ih _ _ _ h
        simp [Sink.write] at this; omega
      · simp only [hi] at h
        have := ih _ _ _ h
        simp [Sink.write] at this; omega

/-- The count returned by `Write` is the number of bytes it put on the writer (any width,
    any prefixes, any record). -/
theorem write_count (wr : Writer) (sink sink' : Sink) (r : Rec) (n : Nat)
    (h : write wr sink r = .ok (sink', n)) : sink'.out.size = sink.out.size + n := by
  simp only [write, bind, Except.bind] at h
  split at h
  · cases h
  · rename_i v hv
    obtain ⟨s1, n1⟩ := v
    have := writeLoop_count _ _ _ _ _ _ _ _ hv
    simp [pure, Except.pure] at h
    obtain ⟨rfl, rfl⟩ := h
    simp [Sink.write] at this ⊢
    omega

/-! ### the writer's output is a layout -/

theorem joinLF_cons (l : Bytes) (ls : List Bytes) : joinLF (l :: ls) = l ++ 10 :: joinLF ls := by
  simp [joinLF]

theorem wrap_lines (w : Nat) (ls : Bytes) : ∀ (cur : Bytes) (i : Nat),
    ∃ c0 pieces, cur ++ wrapFrom w [10] i ls ++ [10] = joinLF ((cur ++ c0) :: pieces) ∧
      c0 ++ pieces.flatten = ls ∧ ((i % w == 0) = true → ls ≠ [] → c0 = []) := by
  induction ls with
  | nil => intro cur i; exact ⟨[], [], by simp [wrapFrom, joinLF], rfl, fun _ h => absurd rfl h⟩
  | cons l ls ih =>
    intro cur i
    by_cases hi : (i % w == 0) = true
    · obtain ⟨c0, pieces, h1, h2, _⟩ := ih [l] (i + 1)
      refine ⟨[], ([l] ++ c0) :: pieces, ?_, ?_, fun _ _ => rfl⟩
      · simp only [wrapFrom, hi, if_true, List.append_nil, joinLF_cons]
        simp only [joinLF_cons] at h1
        rw [← h1]; simp
      · simp [← h2]
    · obtain ⟨c0, pieces, h1, h2, _⟩ := ih (cur ++ [l]) (i + 1)
      refine ⟨l :: c0, pieces, ?_, ?_, fun h => absurd h hi⟩
      · simp only [wrapFrom, hi]
        simp only [joinLF_cons] at h1 ⊢
        simp at h1 ⊢
        exact h1
      · simp [← h2]

theorem seqLines_flatten (pieces : List Bytes) : SeqLines pieces.flatten pieces := by
  induction pieces with
  | nil => exact .nil
  | cons p ps ih => exact .cons p p _ ps ⟨[], by simp, by simp⟩ ih

theorem render_lines (w : Nat) (r : Rec) :
    ∃ pieces, render w r = joinLF (headerLine 62 r.name r.desc :: pieces) ∧ SeqLines r.letters pieces ∧
      (∀ p ∈ pieces, ∀ b ∈ p, b ∈ r.letters) := by
  obtain ⟨c0, pieces, h1, h2, h3⟩ := wrap_lines w r.letters (headerLine 62 r.name r.desc) 0
  have hc0 : c0 = [] := by
    by_cases hl : r.letters = []
    · rw [hl] at h2; simp at h2; exact h2.1
    · exact h3 (by simp) hl
  subst hc0
  refine ⟨pieces, by simpa [render] using h1, ?_, ?_⟩
  · simp at h2; rw [← h2]; exact seqLines_flatten pieces
  · intro p hp b hb
    simp at h2; rw [← h2]; exact List.mem_flatten.mpr ⟨p, hp, hb⟩

theorem terminated_joinLF (lines : List Bytes) (h : ∀ l ∈ lines, ∀ b ∈ l, b ≠ 10) :
    Terminated lines (joinLF lines) := by
  induction lines with
  | nil => exact .nil
  | cons l ls ih =>
    rw [joinLF_cons]
    exact .lf l ls _ (h l (by simp)) (ih (fun l' hl' => h l' (by simp [hl'])))

theorem joinLF_append (a b : List Bytes) : joinLF (a ++ b) = joinLF a ++ joinLF b := by
  simp [joinLF]

/-- what `Write` emits for well-formed records at a positive width is a layout of them -/
theorem renders_writer (w : Nat) (recs : List Rec) (hwf : ∀ r ∈ recs, wfFasta r = true) :
    FastaRenders recs (recs.flatMap (render w)) := by
  suffices h : ∃ lines, FastaLines recs lines ∧ recs.flatMap (render w) = joinLF lines ∧
      ∀ l ∈ lines, ∀ b ∈ l, b ≠ 10 by
    obtain ⟨lines, h1, h2, h3⟩ := h
    exact ⟨lines, h1, h2 ▸ terminated_joinLF lines h3⟩
  induction recs with
  | nil => exact ⟨[], .nil, by simp [joinLF], by simp⟩
  | cons r rs ih =>
    obtain ⟨lines, h1, h2, h3⟩ := ih (fun r' hr' => hwf r' (by simp [hr']))
    obtain ⟨pieces, p1, p2, p3⟩ := render_lines w r
    have hr := hwf r (by simp)
    simp only [wfFasta, Bool.and_eq_true] at hr
    obtain ⟨⟨hn, hd⟩, hlet⟩ := hr
    rw [fastaLettersOK_iff] at hlet
    refine ⟨headerLine 62 r.name r.desc :: pieces ++ lines, ?_, ?_, ?_⟩
    · exact .record r _ pieces rs lines ⟨[], by simp, by simp⟩ p2 h1
    · rw [List.flatMap_cons, p1, h2,
        show headerLine 62 r.name r.desc :: pieces ++ lines = (headerLine 62 r.name r.desc :: pieces) ++ lines by simp,
        joinLF_append]
    · intro l hl b hb
      simp only [List.cons_append, List.mem_cons, List.mem_append] at hl
      rcases hl with rfl | hl | hl
      · exact headerLine_nolf 62 (by decide) hn hd b hb
      · exact visible_ne_lf (hlet b (p3 l hl b hb)).1
      · exact h3 l hl b hb

theorem writeAll_spec (w : Nat) (hw : w ≠ 0) (sink : Sink) (recs : List Rec) :
    ∃ sink', writeAll { width := w } sink recs = .ok (sink', recs.map (fun r => (render w r).length)) ∧
      sink'.bytes = sink.bytes ++ recs.flatMap (render w) := by
  induction recs generalizing sink with
  | nil => exact ⟨sink, by simp [writeAll, pure, Except.pure]⟩
  | cons r rs ih =>
    obtain ⟨s1, h1, h2⟩ := write_spec w hw sink r
    obtain ⟨s2, h3, h4⟩ := ih s1
    refine ⟨s2, ?_, ?_⟩
    · simp [writeAll, bind, Except.bind, h1, h3, pure, Except.pure]
    · rw [h4, h2]; simp

/-! ### totality on arbitrary input -/

theorem hasPrefix_length {line p : Bytes} (h : hasPrefix line p = true) : p.length ≤ line.length := by
  simp only [hasPrefix] at h
  exact (List.isPrefixOf_iff_prefix.mp h).length_le

/-- after the fix of `header` (the separator is looked for after the prefix) the header parser
    is total for every `IDPrefix` -/
theorem header_total_cfg (cfg : Cfg) (line : Bytes) (h : hasPrefix line cfg.idPrefix = true) :
    ∃ v, header cfg line = .ok v := by
  have hle := hasPrefix_length h
  unfold header
  simp only [sliceFrom, hle, if_true, bind, Except.bind]
  cases hk : indexAnySpTab (line.drop cfg.idPrefix.length) with
  | none => simp [pure, Except.pure]
  | some k =>
    have hlt : k < (line.drop cfg.idPrefix.length).length := by
      simp only [indexAnySpTab] at hk
      obtain ⟨hlt, _⟩ := List.findIdx?_eq_some_iff_getElem.mp hk
      exact hlt
    simp only [List.length_drop] at hlt
    have h1 : k ≤ line.length - cfg.idPrefix.length := by omega
    have h2 : k + 1 ≤ line.length - cfg.idPrefix.length := by omega
    simp [slice, h1, h2, pure, Except.pure]

theorem header_total (line : Bytes) (h : hasPrefix line [62] = true) : ∃ v, header {} line = .ok v :=
  header_total_cfg {} line h

/-- `read` never panics, whatever the prefixes -/
theorem read_total_cfg (cfg : Cfg) (lines : List Bytes) : ∀ st : St, ∃ v, read cfg st lines = .ok v := by
  induction lines with
  | nil =>
    intro st
    unfold read
    cases st.working <;> simp [pure, Except.pure]
  | cons raw rest ih =>
    intro st
    unfold read
    simp only []
    by_cases h0 : ((trimSpace raw).length == 0) = true
    · simp only [h0, if_true]; exact ih st
    · simp only [h0]
      by_cases h1 : hasPrefix (trimSpace raw) cfg.idPrefix = true
      · simp only [h1, if_true]
        obtain ⟨⟨w, e⟩, hv⟩ := header_total_cfg cfg _ h1
        cases st.working with
        | none => simp only [hv, bind, Except.bind]; exact ih _
        | some w0 => simp [hv, bind, Except.bind, pure, Except.pure]
      · simp only [h1]
        by_cases h2 : hasPrefix (trimSpace raw) cfg.seqPrefix = true
        · simp only [h2, if_true]
          cases st.working with
          | none => simp [pure, Except.pure]
          | some w0 =>
            simp only [sliceFrom, bind, Except.bind, hasPrefix_length h2, if_true]
            exact ih _
        · simp [h2, pure, Except.pure]

/-- what is left to do: the lines not yet read, plus the record that is still to be returned -/
def measure (st : St) (lines : List Bytes) : Nat := lines.length + (if st.working.isSome then 1 else 0)

theorem deferred_working (st : St) : (deferred st).working = st.working := by
  unfold deferred; split <;> rfl

/-- every call that does not return `io.EOF` consumes a line or hands out the pending record;
    and every call returns a sequence or an error -/
theorem read_progress_cfg (cfg : Cfg) (lines : List Bytes) : ∀ (st st' : St) (ret : Ret) (rest : List Bytes),
    read cfg st lines = .ok (ret, st', rest) →
      (ret.s.isSome ∨ ret.e.isSome) ∧ (ret.e ≠ some .eof → measure st' rest < measure st lines) := by
  induction lines with
  | nil =>
    intro st st' ret rest h
    unfold read at h
    cases hw : st.working with
    | none =>
      simp [hw, pure, Except.pure] at h
      obtain ⟨rfl, _, _⟩ := h
      simp
    | some w =>
      simp [hw, pure, Except.pure] at h
      obtain ⟨rfl, rfl, rfl⟩ := h
      simp [measure, deferred_working, hw]
  | cons raw rest0 ih =>
    intro st st' ret rest h
    unfold read at h
    simp only [] at h
    by_cases h0 : ((trimSpace raw).length == 0) = true
    · simp only [h0, if_true] at h
      obtain ⟨a, b⟩ := ih _ _ _ _ h
      exact ⟨a, fun hne => by have := b hne; simp [measure] at this ⊢; omega⟩
    · simp only [h0] at h
      by_cases h1 : hasPrefix (trimSpace raw) cfg.idPrefix = true
      · simp only [h1, if_true] at h
        obtain ⟨⟨w, e⟩, hv⟩ := header_total_cfg cfg _ h1
        cases hw : st.working with
        | none =>
          simp only [hw, hv, bind, Except.bind] at h
          obtain ⟨a, b⟩ := ih _ _ _ _ h
          exact ⟨a, fun hne => by have := b hne; simp [measure, hw] at this ⊢; omega⟩
        | some w0 =>
          simp [hw, hv, bind, Except.bind, pure, Except.pure] at h
          obtain ⟨rfl, rfl, rfl⟩ := h
          simp [measure, deferred_working, hw]
      · simp only [h1] at h
        by_cases h2 : hasPrefix (trimSpace raw) cfg.seqPrefix = true
        · simp only [h2, if_true] at h
          cases hw : st.working with
          | none =>
            simp [hw, pure, Except.pure] at h
            obtain ⟨rfl, rfl, rfl⟩ := h
            simp [measure, deferred_working, hw]
          | some w0 =>
            simp only [hw, sliceFrom, bind, Except.bind, hasPrefix_length h2, if_true] at h
            obtain ⟨a, b⟩ := ih _ _ _ _ h
            exact ⟨a, fun hne => by have := b hne; simp [measure, hw] at this ⊢; omega⟩
        · simp [h2, pure, Except.pure] at h
          obtain ⟨rfl, rfl, rfl⟩ := h
          simp [measure, deferred_working]

theorem getLast?_cons_of_some {α : Type} (y : α) (L : List α) (x : α) (h : L.getLast? = some x) :
    (y :: L).getLast? = some x := by
  cases L with
  | nil => simp at h
  | cons z zs => simpa [List.getLast?_cons_cons] using h

/-- the call history: no panic, never out of budget, at most `fuel` calls, ends with `io.EOF`,
    every call returns a sequence or an error -/
theorem readAllAux_total_cfg (cfg : Cfg) (fuel : Nat) : ∀ (st : St) (lines : List Bytes), measure st lines < fuel →
    (∀ p, Call.panic p ∉ readAllAux cfg fuel st lines) ∧
    Call.unfinished ∉ readAllAux cfg fuel st lines ∧
    (readAllAux cfg fuel st lines).length ≤ measure st lines + 1 ∧
    (∃ r, (readAllAux cfg fuel st lines).getLast? = some (Call.ret r) ∧ r.e = some .eof) ∧
    (∀ r, Call.ret r ∈ readAllAux cfg fuel st lines → r.s.isSome ∨ r.e.isSome) := by
  induction fuel with
  | zero => intro st lines h; omega
  | succ f ih =>
    intro st lines hm
    obtain ⟨⟨ret, st', rest⟩, hv⟩ := read_total_cfg cfg lines st
    obtain ⟨hsome, hdec⟩ := read_progress_cfg cfg lines st st' ret rest hv
    simp only [readAllAux, hv]
    by_cases he : ret.e = some .eof
    · simp only [he, if_true]
      refine ⟨by simp, by simp, by simp, ⟨ret, by simp, he⟩, ?_⟩
      · intro r hr
        simp at hr; subst hr; exact hsome
    · simp only [he, if_false]
      have hlt := hdec he
      obtain ⟨a, b, c, d, e⟩ := ih st' rest (by omega)
      refine ⟨by simpa using a, by simpa using b, by simp; omega, ?_, ?_⟩
      · obtain ⟨r, d1, d2⟩ := d
        exact ⟨r, getLast?_cons_of_some _ _ _ d1, d2⟩
      · intro r hr
        simp at hr
        rcases hr with rfl | hr
        · exact hsome
        · exact e r hr

/-- `read` never panics (default prefixes) -/
theorem read_total (lines : List Bytes) : ∀ st : St, ∃ v, read {} st lines = .ok v :=
  read_total_cfg {} lines

theorem read_progress (lines : List Bytes) : ∀ (st st' : St) (ret : Ret) (rest : List Bytes),
    read {} st lines = .ok (ret, st', rest) →
      (ret.s.isSome ∨ ret.e.isSome) ∧ (ret.e ≠ some .eof → measure st' rest < measure st lines) :=
  read_progress_cfg {} lines

theorem readAllAux_total (fuel : Nat) : ∀ (st : St) (lines : List Bytes), measure st lines < fuel →
    (∀ p, Call.panic p ∉ readAllAux {} fuel st lines) ∧
    Call.unfinished ∉ readAllAux {} fuel st lines ∧
    (readAllAux {} fuel st lines).length ≤ measure st lines + 1 ∧
    (∃ r, (readAllAux {} fuel st lines).getLast? = some (Call.ret r) ∧ r.e = some .eof) ∧
    (∀ r, Call.ret r ∈ readAllAux {} fuel st lines → r.s.isSome ∨ r.e.isSome) :=
  readAllAux_total_cfg {} fuel

/-! ### the readers see lines only through `bytes.TrimSpace` -/

/-- two lists of lines that are pairwise equal after `bytes.TrimSpace` -/
inductive TrimEq : List Bytes → List Bytes → Prop
  | nil : TrimEq [] []
  | cons (l l' : Bytes) (ls ls' : List Bytes) :
      trimSpace l = trimSpace l' → TrimEq ls ls' → TrimEq (l :: ls) (l' :: ls')

theorem TrimEq.refl (ls : List Bytes) : TrimEq ls ls := by
  induction ls with
  | nil => exact .nil
  | cons l ls ih => exact .cons l l ls ls rfl ih

theorem TrimEq.length_eq {a b : List Bytes} (h : TrimEq a b) : a.length = b.length := by
  induction h with
  | nil => rfl
  | cons _ _ _ _ _ _ ih => simp [ih]

theorem read_congr {lines lines' : List Bytes} (h : TrimEq lines lines') : ∀ (st st' : St) (ret : Ret) (rest : List Bytes),
    read {} st lines = .ok (ret, st', rest) →
      ∃ rest', read {} st lines' = .ok (ret, st', rest') ∧ TrimEq rest rest' := by
  induction h with
  | nil => intro st st' ret rest hr; exact ⟨rest, hr, TrimEq.refl rest⟩
  | cons l l' ls ls' heq htail ih =>
    intro st st' ret rest hr
    unfold read at hr ⊢
    simp only [] at hr ⊢
    rw [← heq]
    by_cases h0 : ((trimSpace l).length == 0) = true
    · simp only [h0, if_true] at hr ⊢
      exact ih _ _ _ _ hr
    · simp only [h0] at hr ⊢
      by_cases h1 : hasPrefix (trimSpace l) ({} : Cfg).idPrefix = true
      · simp only [h1, if_true] at hr ⊢
        obtain ⟨⟨w, e⟩, hv⟩ := header_total _ h1
        cases hw : st.working with
        | none =>
          simp only [hw, hv, bind, Except.bind] at hr ⊢
          exact ih _ _ _ _ hr
        | some w0 =>
          simp [hw, hv, bind, Except.bind, pure, Except.pure] at hr ⊢
          obtain ⟨rfl, rfl, rfl⟩ := hr
          exact ⟨ls', ⟨rfl, rfl, rfl⟩, htail⟩
      · simp only [h1] at hr ⊢
        have h2 : hasPrefix (trimSpace l) ({} : Cfg).seqPrefix = true := by simp [hasPrefix]
        simp only [h2, if_true] at hr ⊢
        cases hw : st.working with
        | none =>
          simp [hw, pure, Except.pure] at hr ⊢
          obtain ⟨rfl, rfl, rfl⟩ := hr
          exact ⟨ls', ⟨rfl, rfl, rfl⟩, htail⟩
        | some w0 =>
          simp only [hw, sliceFrom, bind, Except.bind, List.length_nil, Nat.zero_le, if_true] at hr ⊢
          exact ih _ _ _ _ hr

theorem readAllAux_trimEq (fuel : Nat) : ∀ (st : St) (lines lines' : List Bytes), TrimEq lines lines' →
    readAllAux {} fuel st lines = readAllAux {} fuel st lines' := by
  induction fuel with
  | zero => intro _ _ _ _; rfl
  | succ f ih =>
    intro st lines lines' h
    obtain ⟨⟨ret, st', rest⟩, hv⟩ := read_total lines st
    obtain ⟨rest', hv', hrest⟩ := read_congr h st st' ret rest hv
    simp only [readAllAux, hv, hv']
    split
    · rfl
    · rw [ih st' rest rest' hrest]

/-! ### CRLF instead of LF, for every input -/

/-- every LF replaced by CR LF -/
def toCRLF (bs : Bytes) : Bytes := bs.flatMap (fun b => if b == 10 then [13, 10] else [b])

theorem splitLinesAux_toCRLF (bs : Bytes) : ∀ cur : Bytes,
    TrimEq (splitLinesAux (toCRLF bs) cur) (splitLinesAux bs cur) := by
  induction bs with
  | nil => intro cur; exact TrimEq.refl _
  | cons b bs ih =>
    intro cur
    by_cases hb : (b == 10) = true
    · have hb' : b = 10 := by simpa using hb
      have e : toCRLF (b :: bs) = 13 :: 10 :: toCRLF bs := by simp [toCRLF, hb']
      rw [e]
      simp only [splitLinesAux, hb, if_true]
      simp only [show ((13 : UInt8) == 10) = false from rfl, Bool.false_eq_true, if_false,
        show ((10 : UInt8) == 10) = true from rfl, if_true]
      refine .cons _ _ _ _ ?_ (ih [])
      have h1 : (dropCR (13 :: cur)).reverse = cur.reverse := rfl
      rw [h1]
      exact (trimSpace_stripCR cur.reverse |>.symm ▸ by simp [stripCR])
    · have hb' : ¬ b = 10 := by simpa using hb
      have e : toCRLF (b :: bs) = b :: toCRLF bs := by simp [toCRLF, hb']
      rw [e]
      simp only [splitLinesAux, hb]
      exact ih (b :: cur)

/-- **CRLF, every input** (FASTA): for every byte string — a valid file or not — replacing
    each LF by CR LF does not change the call history of the reader. -/
theorem readAll_toCRLF (bs : Bytes) : readAll {} (toCRLF bs) = readAll {} bs := by
  have h := splitLinesAux_toCRLF bs []
  unfold readAll splitLines
  simp only []
  rw [h.length_eq]
  exact readAllAux_trimEq _ _ _ _ h

/-! ### what the FASTA reader sees of an input: its non-blank lines, trimmed -/

theorem TrimEq.symm {a b : List Bytes} (h : TrimEq a b) : TrimEq b a := by
  induction h with
  | nil => exact .nil
  | cons l l' ls ls' e _ ih => exact .cons l' l ls' ls e.symm ih

theorem TrimEq.trans {a b c : List Bytes} (h1 : TrimEq a b) (h2 : TrimEq b c) : TrimEq a c := by
  induction h1 generalizing c with
  | nil => cases h2; exact .nil
  | cons l l' ls ls' e _ ih =>
    cases h2 with
    | cons _ l'' _ ls'' e2 h2' => exact .cons l l'' ls ls'' (e.trans e2) (ih h2')

theorem trimEq_of_map_eq : ∀ (a b : List Bytes), a.map trimSpace = b.map trimSpace → TrimEq a b
  | [], [], _ => .nil
  | [], _ :: _, h => by simp at h
  | _ :: _, [], h => by simp at h
  | x :: xs, y :: ys, h => by
    simp only [List.map_cons, List.cons.injEq] at h
    exact .cons x y xs ys h.1 (trimEq_of_map_eq xs ys h.2)

/-- the lines that are not blank -/
def nonblank (lines : List Bytes) : List Bytes := lines.filter (fun l => !(trimSpace l).isEmpty)

/-- what the FASTA reader can see of a byte string -/
def view (bs : Bytes) : List Bytes := (nonblank (splitLines bs)).map trimSpace

theorem nonblank_cons_blank (l : Bytes) (ls : List Bytes) (h : trimSpace l = []) : nonblank (l :: ls) = nonblank ls := by
  simp [nonblank, h]

theorem nonblank_cons_nonblank (l : Bytes) (ls : List Bytes) (h : trimSpace l ≠ []) :
    nonblank (l :: ls) = l :: nonblank ls := by
  simp [nonblank, h]

/-- blank lines are invisible to one call of `read` -/
theorem read_nonblank (lines : List Bytes) : ∀ (st st' : St) (ret : Ret) (rest : List Bytes),
    read {} st lines = .ok (ret, st', rest) → read {} st (nonblank lines) = .ok (ret, st', nonblank rest) := by
  induction lines with
  | nil => intro st st' ret rest hr
           have : rest = [] := by
             unfold read at hr
             cases hw : st.working <;> simp [hw, pure, Except.pure] at hr <;> exact hr.2.2
           subst this; simpa [nonblank] using hr
  | cons l ls ih =>
    intro st st' ret rest hr
    by_cases hb : trimSpace l = []
    · rw [nonblank_cons_blank l ls hb]
      rw [read_blank st l ls hb] at hr
      exact ih _ _ _ _ hr
    · rw [nonblank_cons_nonblank l ls hb]
      have h0 : ((trimSpace l).length == 0) = false := by
        cases h : trimSpace l with
        | nil => exact absurd h hb
        | cons a t => simp
      unfold read at hr ⊢
      simp only [h0] at hr ⊢
      by_cases h1 : hasPrefix (trimSpace l) ({} : Cfg).idPrefix = true
      · simp only [h1, if_true] at hr ⊢
        obtain ⟨⟨w, e⟩, hv⟩ := header_total _ h1
        cases hw : st.working with
        | none =>
          simp only [hw, hv, bind, Except.bind] at hr ⊢
          exact ih _ _ _ _ hr
        | some w0 =>
          simp [hw, hv, bind, Except.bind, pure, Except.pure] at hr ⊢
          obtain ⟨rfl, rfl, rfl⟩ := hr
          exact ⟨rfl, rfl, rfl⟩
      · simp only [h1] at hr ⊢
        have h2 : hasPrefix (trimSpace l) ({} : Cfg).seqPrefix = true := by simp [hasPrefix]
        simp only [h2, if_true] at hr ⊢
        cases hw : st.working with
        | none =>
          simp [hw, pure, Except.pure] at hr ⊢
          obtain ⟨rfl, rfl, rfl⟩ := hr
          exact ⟨rfl, rfl, rfl⟩
        | some w0 =>
          simp only [hw, sliceFrom, bind, Except.bind, List.length_nil, Nat.zero_le, if_true] at hr ⊢
          exact ih _ _ _ _ hr

theorem readAllAux_nonblank (fuel : Nat) : ∀ (st : St) (lines : List Bytes),
    readAllAux {} fuel st lines = readAllAux {} fuel st (nonblank lines) := by
  induction fuel with
  | zero => intro _ _; rfl
  | succ f ih =>
    intro st lines
    obtain ⟨⟨ret, st', rest⟩, hv⟩ := read_total lines st
    have hv' := read_nonblank lines st st' ret rest hv
    simp only [readAllAux, hv, hv']
    split
    · rfl
    · rw [ih st' rest]

/-- more budget than needed does not change the history -/
theorem readAllAux_fuel (f : Nat) : ∀ (f' : Nat) (st : St) (lines : List Bytes),
    measure st lines < f → measure st lines < f' → readAllAux {} f st lines = readAllAux {} f' st lines := by
  induction f with
  | zero => intro f' st lines h; omega
  | succ f ih =>
    intro f' st lines h1 h2
    obtain ⟨g, rfl⟩ : ∃ g, f' = g + 1 := ⟨f' - 1, by omega⟩
    obtain ⟨⟨ret, st', rest⟩, hv⟩ := read_total lines st
    obtain ⟨_, hdec⟩ := read_progress lines st st' ret rest hv
    simp only [readAllAux, hv]
    split
    · rfl
    · rename_i he
      have := hdec he
      rw [ih g st' rest (by omega) (by omega)]

theorem nonblank_length_le (lines : List Bytes) : (nonblank lines).length ≤ lines.length := by
  simp [nonblank]; exact List.length_filter_le _ _

/-- **The FASTA reader sees an input only through its non-blank lines, trimmed.**  Two byte
    strings — valid files or not — with the same `view` give the same call history. -/
theorem readAll_view (bs bs' : Bytes) (h : view bs = view bs') : readAll {} bs = readAll {} bs' := by
  have hte : TrimEq (nonblank (splitLines bs)) (nonblank (splitLines bs')) := trimEq_of_map_eq _ _ h
  have hlen := hte.length_eq
  have l1 := nonblank_length_le (splitLines bs)
  have l2 := nonblank_length_le (splitLines bs')
  unfold readAll
  simp only []
  rw [readAllAux_nonblank _ _ (splitLines bs), readAllAux_nonblank _ _ (splitLines bs'),
    readAllAux_trimEq _ _ _ _ hte]
  exact readAllAux_fuel _ _ _ _ (by simp [measure]; omega) (by simp [measure]; omega)

theorem view_toCRLF (bs : Bytes) : view (toCRLF bs) = view bs := by
  have h := splitLinesAux_toCRLF bs []
  unfold view splitLines
  generalize splitLinesAux (toCRLF bs) [] = a at h
  generalize splitLinesAux bs [] = b at h
  induction h with
  | nil => rfl
  | cons l l' ls ls' e _ ih =>
    by_cases hb : trimSpace l = []
    · rw [nonblank_cons_blank l ls hb, nonblank_cons_blank l' ls' (e ▸ hb)]; exact ih
    · rw [nonblank_cons_nonblank l ls hb, nonblank_cons_nonblank l' ls' (e ▸ hb)]
      simp [e, ih]

/-- the view of a list of lines -/
def viewOf (lines : List Bytes) : List Bytes := (nonblank lines).map trimSpace

theorem viewOf_cons (l : Bytes) (ls : List Bytes) :
    viewOf (l :: ls) = (if trimSpace l = [] then [] else [trimSpace l]) ++ viewOf ls := by
  by_cases hb : trimSpace l = []
  · simp [viewOf, nonblank_cons_blank l ls hb, hb]
  · simp [viewOf, nonblank_cons_nonblank l ls hb, hb]

theorem view_eq_viewOf (bs : Bytes) : view bs = viewOf (splitLines bs) := rfl

theorem viewOf_snoc_lf (bs : Bytes) : ∀ cur : Bytes,
    viewOf (splitLinesAux (bs ++ [10]) cur) = viewOf (splitLinesAux bs cur) := by
  induction bs with
  | nil =>
    intro cur
    have e : trimSpace (dropCR cur).reverse = trimSpace cur.reverse := by
      have := trimSpace_stripCR cur.reverse
      simpa [stripCR] using this
    simp only [List.nil_append, splitLinesAux, show ((10 : UInt8) == 10) = true from rfl, if_true]
    cases cur with
    | nil => simp [viewOf_cons, dropCR, trimSpace, trimLeft_nil, trimRight, trimRev_nil, viewOf, nonblank]
    | cons c cs =>
      simp only [List.isEmpty_cons, Bool.false_eq_true, if_false, viewOf_cons, e]
      simp
  | cons b bs ih =>
    intro cur
    by_cases hb : (b == 10) = true
    · simp only [List.cons_append, splitLinesAux, hb, if_true, viewOf_cons, ih []]
    · simp only [List.cons_append, splitLinesAux, hb]
      exact ih (b :: cur)

/-- a final newline more or less is invisible -/
theorem view_snoc_lf (bs : Bytes) : view (bs ++ [10]) = view bs := viewOf_snoc_lf bs []

theorem trimSpace_append_blanks (l blanks : Bytes) (hb : ∀ b ∈ blanks, isAsciiSpace b = true) :
    trimSpace (l ++ blanks) = trimSpace l := by
  induction blanks generalizing l with
  | nil => simp
  | cons x xs ih =>
    rw [show l ++ x :: xs = (l ++ [x]) ++ xs by simp, ih _ (fun b hb' => hb b (by simp [hb'])),
      trimSpace_snoc_space l x (hb x (by simp))]

theorem trim_dropCR_reverse (cur : Bytes) : trimSpace (dropCR cur).reverse = trimSpace cur.reverse := by
  have := trimSpace_stripCR cur.reverse
  simpa [stripCR] using this

/-- blanks in front of a line terminator (or at the very end of the input) are invisible -/
theorem viewOf_trailing_blanks (a blanks b : Bytes) (hb : ∀ x ∈ blanks, isBlank x = true) : ∀ cur : Bytes,
    viewOf (splitLinesAux (a ++ blanks ++ 10 :: b) cur) = viewOf (splitLinesAux (a ++ 10 :: b) cur) ∧
    viewOf (splitLinesAux (a ++ blanks) cur) = viewOf (splitLinesAux a cur) := by
  have hnolf : ∀ x ∈ blanks, x ≠ 10 := fun x hx => isBlank_ne_lf (hb x hx)
  have hsp : ∀ x ∈ blanks.reverse.reverse, isAsciiSpace x = true := fun x hx => isBlank_space (hb x (by simpa using hx))
  induction a with
  | nil =>
    intro cur
    have key : trimSpace (blanks.reverse ++ cur).reverse = trimSpace cur.reverse := by
      rw [List.reverse_append]
      exact trimSpace_append_blanks _ _ hsp
    constructor
    · simp only [List.nil_append]
      rw [splitLinesAux_line blanks b cur hnolf]
      have e2 : splitLinesAux (10 :: b) cur = (dropCR cur).reverse :: splitLinesAux b [] := by
        simp [splitLinesAux]
      rw [e2, viewOf_cons, viewOf_cons, trim_dropCR_reverse, trim_dropCR_reverse, key]
    · simp only [List.nil_append]
      rw [splitLinesAux_last blanks cur hnolf]
      simp only [splitLinesAux]
      by_cases hc : cur = []
      · subst hc
        by_cases hbl : blanks = []
        · subst hbl; simp
        · have : trimSpace blanks = [] := by
            have := trimSpace_append_blanks [] blanks (fun x hx => isBlank_space (hb x hx))
            simpa [trimSpace, trimLeft_nil, trimRight, trimRev_nil] using this
          simp [hbl, viewOf_cons, this, viewOf, nonblank]
      · have h1 : (blanks.reverse ++ cur).isEmpty = false := by simp [hc]
        have h2 : cur.isEmpty = false := by simp [hc]
        simp only [h1, h2, Bool.false_eq_true, if_false, viewOf_cons, key]
  | cons x a ih =>
    intro cur
    by_cases hx : (x == 10) = true
    · simp only [List.cons_append, splitLinesAux, hx, if_true, viewOf_cons]
      rw [(ih []).1, (ih []).2]
      exact ⟨rfl, rfl⟩
    · simp only [List.cons_append, splitLinesAux, hx]
      exact ih (x :: cur)

theorem viewOf_blank_line_start (blanks b : Bytes) (hb : ∀ x ∈ blanks, isBlank x = true) :
    viewOf (splitLinesAux (blanks ++ 10 :: b) []) = viewOf (splitLinesAux b []) := by
  have hnolf : ∀ x ∈ blanks, x ≠ 10 := fun x hx => isBlank_ne_lf (hb x hx)
  rw [splitLinesAux_line blanks b [] hnolf, viewOf_cons, trim_dropCR_reverse]
  have : trimSpace blanks = [] := by
    have := trimSpace_append_blanks [] blanks (fun x hx => isBlank_space (hb x hx))
    simpa [trimSpace, trimLeft_nil, trimRight, trimRev_nil] using this
  simp [this]

/-- a blank line more or less (between two lines, before the first, after the last) is invisible -/
theorem viewOf_blank_line (a blanks b : Bytes) (hb : ∀ x ∈ blanks, isBlank x = true) : ∀ cur : Bytes,
    ((a = [] ∧ cur = []) ∨ a.getLast? = some 10) →
    viewOf (splitLinesAux (a ++ (blanks ++ 10 :: b)) cur) = viewOf (splitLinesAux (a ++ b) cur) := by
  induction a with
  | nil =>
    intro cur ha
    rcases ha with ⟨_, rfl⟩ | ha
    · simpa using viewOf_blank_line_start blanks b hb
    · simp at ha
  | cons x a ih =>
    intro cur ha
    have ha' : (x :: a).getLast? = some 10 := by
      rcases ha with ⟨h, _⟩ | h
      · simp at h
      · exact h
    by_cases hx : (x == 10) = true
    · simp only [List.cons_append, splitLinesAux, hx, if_true, viewOf_cons]
      congr 1
      apply ih []
      cases a with
      | nil => exact .inl ⟨rfl, rfl⟩
      | cons y ys => right; simpa [List.getLast?_cons_cons] using ha'
    · simp only [List.cons_append, splitLinesAux, hx]
      apply ih (x :: cur)
      cases a with
      | nil =>
        simp at ha'
        simp [ha'] at hx
      | cons y ys => right; simpa [List.getLast?_cons_cons] using ha'

end Biogo.Fasta
