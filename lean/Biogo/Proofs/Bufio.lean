/-
Refinement of the byte-level `bufio.Reader` model (`Biogo.Go.Bufio`) to functions of the
undelivered byte stream.  Core only.
-/
import Biogo.Go.Bufio
import Biogo.Spec.Bufio

namespace Biogo.Go.Bufio

/-! ### `bytes.IndexByte` -/

theorem indexByte_append (l m : Bytes) (c : UInt8) :
    indexByte (l ++ m) c =
      match indexByte l c with
      | some i => some i
      | none => (indexByte m c).map (· + l.length) := by
  induction l with
  | nil => simp [indexByte]
  | cons x xs ih =>
    simp only [List.cons_append, indexByte]
    by_cases h : (x == c) = true
    · simp [h]
    · simp only [h, Bool.false_eq_true, ↓reduceIte, ih]
      cases indexByte xs c with
      | some i => simp
      | none =>
        cases indexByte m c with
        | none => simp
        | some j => simp [Nat.add_assoc]

theorem indexByte_lt {l : Bytes} {c : UInt8} {i : Nat} (h : indexByte l c = some i) : i < l.length := by
  induction l generalizing i with
  | nil => simp [indexByte] at h
  | cons x xs ih =>
    simp only [indexByte] at h
    by_cases hx : (x == c) = true
    · simp [hx] at h; subst h; simp
    · simp only [hx, Bool.false_eq_true, ↓reduceIte] at h
      cases hi : indexByte xs c with
      | none => simp [hi] at h
      | some j =>
        simp [hi] at h
        have := ih hi
        subst h
        simp; omega

theorem indexByte_none_iff {l : Bytes} {c : UInt8} : indexByte l c = none ↔ c ∉ l := by
  induction l with
  | nil => simp [indexByte]
  | cons x xs ih =>
    simp only [indexByte]
    by_cases hx : (x == c) = true
    · have : x = c := by simpa using hx
      simp [this]
    · have hne : ¬ x = c := by simpa using hx
      simp only [hx, Bool.false_eq_true, ↓reduceIte, Option.map_eq_none_iff, ih, List.mem_cons, not_or]
      constructor
      · intro h; exact ⟨fun e => hne e.symm, h⟩
      · intro h; exact h.2

/-- the first `c` of `l ++ c :: m` when `l` has none -/
theorem indexByte_first {l : Bytes} {c : UInt8} (h : c ∉ l) (m : Bytes) : indexByte (l ++ c :: m) c = some l.length := by
  rw [indexByte_append, indexByte_none_iff.mpr h]
  simp [indexByte]

theorem indexByte_some_split {l : Bytes} {c : UInt8} {i : Nat} (h : indexByte l c = some i) :
    l = l.take i ++ c :: l.drop (i + 1) ∧ c ∉ l.take i := by
  induction l generalizing i with
  | nil => simp [indexByte] at h
  | cons x xs ih =>
    simp only [indexByte] at h
    by_cases hx : (x == c) = true
    · have : x = c := by simpa using hx
      simp [hx] at h; subst h; simp [this]
    · have hne : ¬ x = c := by simpa using hx
      simp only [hx, Bool.false_eq_true, ↓reduceIte] at h
      cases hi : indexByte xs c with
      | none => simp [hi] at h
      | some j =>
        simp [hi] at h
        subst h
        have := ih hi
        simp only [List.take_succ_cons, List.drop_succ_cons, List.cons_append, List.mem_cons, not_or]
        exact ⟨by rw [← this.1], fun e => hne e.symm, this.2⟩

/-! ### invariants -/

/-- the underlying reader makes progress: asked for at least one byte it delivers at least one
    (or its final error), as the `io.Reader` contract asks -/
def Progressing (pol : Nat → Nat → Nat) : Prop := ∀ k n, 1 ≤ n → 1 ≤ pol k n

/-- what holds of a reader at the head of the `ReadSlice` loop -/
structure LInv (b : Reader) : Prop where
  size_ge : 2 ≤ b.size
  fits : b.r + b.data.length ≤ b.size
  prog : Progressing b.src.pol
  fin_ne : b.src.fin ≠ .bufferFull
  err_fin : ∀ e, b.err = some e → e = b.src.fin ∧ b.src.rest = []
  wd : b.src.withData = true → b.src.rest = [] → b.err.isSome = true ∨ b.data = []
  noPanic : b.panicked = false

/-- what holds of a reader between two calls of its methods -/
structure Inv (b : Reader) : Prop extends LInv b where
  err_wd : b.err.isSome = true → b.src.withData = true

/-- the parts of a reader that never change -/
def SameCfg (b b' : Reader) : Prop :=
  b'.size = b.size ∧ b'.src.pol = b.src.pol ∧ b'.src.withData = b.src.withData ∧ b'.src.fin = b.src.fin

theorem SameCfg.refl (b : Reader) : SameCfg b b := ⟨rfl, rfl, rfl, rfl⟩

theorem SameCfg.trans {a b c : Reader} (h₁ : SameCfg a b) (h₂ : SameCfg b c) : SameCfg a c :=
  ⟨h₂.1.trans h₁.1, h₂.2.1.trans h₁.2.1, h₂.2.2.1.trans h₁.2.2.1, h₂.2.2.2.trans h₁.2.2.2⟩

theorem inv_newReaderSize (src : Src) (size : Nat) (hp : Progressing src.pol) (hf : src.fin ≠ .bufferFull) :
    Inv (newReaderSize src size) := by
  refine ⟨⟨?_, ?_, hp, hf, ?_, ?_, rfl⟩, ?_⟩
  · simp only [newReaderSize, minReadBufferSize]; omega
  · simp [newReaderSize]
  · intro e h; simp [newReaderSize] at h
  · intro _ _; right; rfl
  · intro h; simp [newReaderSize] at h

/-! ### `fill` -/

theorem fillLoop_succ (i : Nat) (b : Reader) :
    fillLoop (i + 1) b =
      match b.src.read (b.size - b.w) with
      | (p, some e, src) => { b with data := b.data ++ p, src := src, err := some e }
      | (p, none, src) =>
        if p.length > 0 then { b with data := b.data ++ p, src := src }
        else fillLoop i { b with data := b.data ++ p, src := src } := by
  simp only [fillLoop]
  rcases b.src.read (b.size - b.w) with ⟨p, e, src⟩
  cases e <;> rfl

/-- with room in the buffer, `fill` slides the data to the front and reads -/
theorem fill_eq (b : Reader) (hl : b.data.length < b.size) :
    fill b = fillLoop (99 + 1) { b with r := 0 } := by
  obtain ⟨size, src, r, data, err, panicked⟩ := b
  simp only at hl
  have hw : ¬ (0 + data.length ≥ size) := by omega
  by_cases hr : r > 0
  · simp only [fill, hr, ↓reduceIte, Reader.w, hw, maxConsecutiveEmptyReads]
  · have : r = 0 := by omega
    subst this
    simp only [fill, Nat.lt_irrefl, ↓reduceIte, Reader.w, hw, maxConsecutiveEmptyReads]

/-- One `fill` of a reader whose buffer is not full and that has no pending error: either the
    source is exhausted and its final error becomes pending, or at least one byte arrives. -/
theorem fill_spec (b : Reader) (h : LInv b) (he : b.err = none) (hl : b.data.length < b.size) :
    (b.src.rest = [] ∧
      fill b = { b with r := 0, err := some b.src.fin, src := { b.src with calls := b.src.calls + 1 } }) ∨
    (∃ n, 1 ≤ n ∧ n ≤ b.size - b.data.length ∧ n ≤ b.src.rest.length ∧
      fill b = { b with r := 0, data := b.data ++ b.src.rest.take n,
                        err := if b.src.rest.length = n ∧ b.src.withData = true then some b.src.fin else none,
                        src := { b.src with rest := b.src.rest.drop n, calls := b.src.calls + 1 } }) := by
  rw [fill_eq b hl, fillLoop_succ]
  obtain ⟨size, src, r, data, err, panicked⟩ := b
  obtain ⟨rest, pol, withData, fin, calls⟩ := src
  simp only at he hl ⊢
  subst he
  have hprog : Progressing pol := h.prog
  cases rest with
  | nil =>
    left
    refine ⟨rfl, ?_⟩
    simp only [Src.read, List.isEmpty_nil, ↓reduceIte, List.append_nil]
  | cons x xs =>
    right
    have hcap : 1 ≤ size - (0 + data.length) := by omega
    have hp1 := hprog calls (size - (0 + data.length)) hcap
    have hn : 1 ≤ min (pol calls (size - (0 + data.length))) (min (size - (0 + data.length)) (xs.length + 1)) := by
      simp only [Nat.le_min]; omega
    generalize hN : min (pol calls (size - (0 + data.length))) (min (size - (0 + data.length)) (xs.length + 1)) = n at hn
    have hle : n ≤ xs.length + 1 := by rw [← hN]; exact Nat.le_trans (Nat.min_le_right _ _) (Nat.min_le_right _ _)
    have hle2 : n ≤ size - data.length := by
      rw [← hN]; refine Nat.le_trans (Nat.min_le_right _ _) (Nat.le_trans (Nat.min_le_left _ _) ?_); omega
    refine ⟨n, hn, hle2, by simpa using hle, ?_⟩
    have hpl : ((x :: xs).take n).length > 0 := by simp [List.length_take]; omega
    have hempty : ((x :: xs).drop n).isEmpty = true ↔ xs.length + 1 = n := by
      rw [List.isEmpty_iff, List.drop_eq_nil_iff]; simp only [List.length_cons]; omega
    simp only [Reader.w, Src.read, List.isEmpty_cons, Bool.false_eq_true, ↓reduceIte, List.length_cons, hN]
    by_cases hc : xs.length + 1 = n ∧ withData = true
    · obtain ⟨hc1, hc2⟩ := hc
      subst hc2
      have h1 : ((x :: xs).drop n).isEmpty = true := hempty.mpr hc1
      simp only [h1, Bool.and_self, ↓reduceIte, hc1, and_self]
    · have h1 : (((x :: xs).drop n).isEmpty && withData) = false := by
        rw [Bool.eq_false_iff]; intro hh
        simp only [Bool.and_eq_true] at hh
        exact hc ⟨hempty.mp hh.1, hh.2⟩
      simp only [h1, Bool.false_eq_true, ↓reduceIte, hc, hpl]

end Biogo.Go.Bufio
