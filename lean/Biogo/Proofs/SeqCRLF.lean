/-
The layout relations `FastaRenders` / `FastqRenders` are closed under the explicit
transformation `toCRLF` (every LF replaced by CR LF).  Core only.
-/
import Biogo.Proofs.Fastq

namespace Biogo.Spec.Seqio
open Biogo.Go.Bytes
open Biogo.Fasta (toCRLF)

/-- line by line, the right-hand line is the left-hand line followed by more trailing blanks -/
inductive PadRel : List Bytes → List Bytes → Prop
  | nil : PadRel [] []
  | cons (l post : Bytes) (ls ls' : List Bytes) :
      (∀ b ∈ post, isBlank b = true) → PadRel ls ls' → PadRel (l :: ls) ((l ++ post) :: ls')

theorem padded_more {c raw post : Bytes} (h : Padded c raw) (hp : ∀ b ∈ post, isBlank b = true) :
    Padded c (raw ++ post) := by
  obtain ⟨p, rfl, hb⟩ := h
  refine ⟨p ++ post, by simp, ?_⟩
  intro b hb'
  rcases List.mem_append.mp hb' with h | h
  · exact hb b h
  · exact hp b h

theorem PadRel.append_split {a b x : List Bytes} (h : PadRel (a ++ b) x) :
    ∃ a' b', x = a' ++ b' ∧ PadRel a a' ∧ PadRel b b' := by
  induction a generalizing x with
  | nil => exact ⟨[], x, rfl, .nil, h⟩
  | cons l a ih =>
    cases h with
    | cons _ post _ ls' hp ht =>
      obtain ⟨a', b', rfl, h1, h2⟩ := ih ht
      exact ⟨(l ++ post) :: a', b', rfl, .cons _ _ _ _ hp h1, h2⟩

theorem PadRel.append {a a' b b' : List Bytes} (h1 : PadRel a a') (h2 : PadRel b b') : PadRel (a ++ b) (a' ++ b') := by
  induction h1 with
  | nil => exact h2
  | cons l post ls ls' hp _ ih => exact .cons _ _ _ _ hp ih

theorem seqLines_padRel {ls : Bytes} {raws raws' : List Bytes} (h : SeqLines ls raws) (hr : PadRel raws raws') :
    SeqLines ls raws' := by
  induction h generalizing raws' with
  | nil => cases hr; exact .nil
  | cons c raw ls raws hp _ ih =>
    cases hr with
    | cons _ post _ rs' hb ht => exact .cons c _ ls rs' (padded_more hp hb) (ih ht)

theorem fastaLines_padRel {recs : List Biogo.Fasta.Rec} {lines lines' : List Bytes} (h : FastaLines recs lines)
    (hr : PadRel lines lines') : FastaLines recs lines' := by
  induction h generalizing lines' with
  | nil => cases hr; exact .nil
  | blank raw recs lines hp _ ih =>
    cases hr with
    | cons _ post _ ls' hb ht => exact .blank _ recs ls' (padded_more hp hb) (ih ht)
  | record r h body rs rest hh hs _ ih =>
    cases hr with
    | cons _ post _ ls' hb ht =>
      obtain ⟨body', rest', rfl, h1, h2⟩ := ht.append_split
      exact .record r _ body' rs rest' (padded_more hh hb) (seqLines_padRel hs h1) (ih h2)

theorem fastqLines_padRel {ql : Biogo.Fastq.QRec → Bytes} {recs : List Biogo.Fastq.QRec} {lines lines' : List Bytes}
    (h : FastqLines ql recs lines) (hr : PadRel lines lines') : FastqLines ql recs lines' := by
  induction h generalizing lines' with
  | nil => cases hr; exact .nil
  | blank raw recs lines hp _ ih =>
    cases hr with
    | cons _ post _ ls' hb ht => exact .blank _ recs ls' (padded_more hp hb) (ih ht)
  | record r h s p q rs rest hh hs hp hq _ ih =>
    cases hr with
    | cons _ post1 _ l1 hb1 ht1 =>
      cases ht1 with
      | cons _ post2 _ l2 hb2 ht2 =>
        cases ht2 with
        | cons _ post3 _ l3 hb3 ht3 =>
          cases ht3 with
          | cons _ post4 _ l4 hb4 ht4 =>
            exact .record r _ _ _ _ rs l4 (padded_more hh hb1) (padded_more hs hb2)
              (hp.imp (fun x => padded_more x hb3) (fun x => padded_more x hb3)) (padded_more hq hb4) (ih ht4)

/-! ### `toCRLF` -/

theorem toCRLF_append (a b : Bytes) : toCRLF (a ++ b) = toCRLF a ++ toCRLF b := by
  simp [toCRLF]

theorem toCRLF_nolf {l : Bytes} (h : ∀ b ∈ l, b ≠ 10) : toCRLF l = l := by
  induction l with
  | nil => rfl
  | cons a l ih =>
    have ha : a ≠ 10 := h a (by simp)
    have : toCRLF (a :: l) = a :: toCRLF l := by simp [toCRLF, ha]
    rw [this, ih (fun b hb => h b (by simp [hb]))]

theorem toCRLF_lf (bs : Bytes) : toCRLF (10 :: bs) = 13 :: 10 :: toCRLF bs := by simp [toCRLF]

/-- the CRLF form of a file: every terminated line gains a trailing CR -/
theorem terminated_toCRLF {lines : List Bytes} {bs : Bytes} (h : Terminated lines bs) :
    ∃ lines', PadRel lines lines' ∧ Terminated lines' (toCRLF bs) := by
  induction h with
  | nil => exact ⟨[], .nil, by simpa [toCRLF] using Terminated.nil⟩
  | last l hne hl =>
    refine ⟨[l ++ []], .cons l [] [] [] (by simp) .nil, ?_⟩
    rw [toCRLF_nolf hl, List.append_nil]
    exact .last l hne hl
  | lf l ls bs hl _ ih =>
    obtain ⟨ls', hr, ht⟩ := ih
    refine ⟨(l ++ [13]) :: ls', .cons l [13] ls ls' (by simp [isBlank]) hr, ?_⟩
    rw [toCRLF_append, toCRLF_nolf hl, toCRLF_lf]
    have : l ++ 13 :: 10 :: toCRLF bs = (l ++ [13]) ++ 10 :: toCRLF bs := by simp
    rw [this]
    refine .lf _ _ _ ?_ ht
    intro b hb
    rcases List.mem_append.mp hb with h | h
    · exact hl b h
    · simp at h; subst h; decide

/-- **`FastaRenders` is closed under `toCRLF`**: the CRLF form of a layout of `recs` is a layout
    of `recs`. -/
theorem fastaRenders_toCRLF {recs : List Biogo.Fasta.Rec} {bs : Bytes} (h : FastaRenders recs bs) :
    FastaRenders recs (toCRLF bs) := by
  obtain ⟨lines, hl, ht⟩ := h
  obtain ⟨lines', hr, ht'⟩ := terminated_toCRLF ht
  exact ⟨lines', fastaLines_padRel hl hr, ht'⟩

theorem padRel_map_cr (lines : List Bytes) : PadRel lines (lines.map (· ++ [13])) := by
  induction lines with
  | nil => exact .nil
  | cons l ls ih => exact .cons l [13] ls _ (by simp [isBlank]) ih

theorem toCRLF_joinLF {lines : List Bytes} (h : ∀ l ∈ lines, ∀ b ∈ l, b ≠ 10) :
    toCRLF (joinLF lines) = joinLF (lines.map (· ++ [13])) := by
  induction lines with
  | nil => simp [joinLF, toCRLF]
  | cons l ls ih =>
    have hl : ∀ b ∈ l, b ≠ 10 := h l (by simp)
    have e1 : joinLF (l :: ls) = l ++ 10 :: joinLF ls := by simp [joinLF]
    have e2 : joinLF ((l :: ls).map (· ++ [13])) = (l ++ [13]) ++ 10 :: joinLF (ls.map (· ++ [13])) := by simp [joinLF]
    rw [e1, e2, toCRLF_append, toCRLF_nolf hl, toCRLF_lf, ih (fun l' hl' => h l' (by simp [hl']))]
    simp

open Biogo.Fastq in
/-- **`FastqRenders` is closed under `toCRLF`** (records whose parts contain no LF: `RecOK`). -/
theorem fastqRenders_toCRLF {ql : QRec → Bytes} {recs : List QRec} {bs : Bytes}
    (hok : ∀ r ∈ recs, RecOK ql r) (h : FastqRenders ql recs bs) : FastqRenders ql recs (toCRLF bs) := by
  rcases h with ⟨lines, hl, ht⟩ | ⟨lines, hl, rfl⟩
  · obtain ⟨lines', hr, ht'⟩ := terminated_toCRLF ht
    exact .inl ⟨lines', fastqLines_padRel hl hr, ht'⟩
  · right
    have hno := fastqLines_nolf hl hok
    refine ⟨lines.map (· ++ [13]), ?_, ?_⟩
    · exact fastqLines_padRel hl ((padRel_map_cr lines).append (.cons [] [] [] [] (by simp) .nil))
    · exact toCRLF_joinLF (fun l hl' => hno l (by simp [hl']))

end Biogo.Spec.Seqio
