/-
Helper for the chain "ε-match ⇒ filter hit ⇒ trapezoid" (C15, part merge): **every hit the filter
model pushes lies inside the domain of the merger model** — `-Diagonal ≤ Qlen` and `From ≤ Qlen` —
so that `merge` always answers (`merger_total`) on the filter's output.

A hit carries the tube index it is *emitted under* (`Diagonal = Tlen - index·TubeOffset`): the index
of the common k-mer that evicts a run, of the tick that retires a tube, or of the final flush loop —
not necessarily the index the run was collected under (the tube array is circular).  The bound on
the label therefore needs a global invariant of the tube array (`GInv`): every non-empty slot was
last addressed under an index `I` with `I·off ≤ Tlen + Qlen` that no tick has retired yet (`T ≤ I`,
`T` = number of ticks so far).  The final flush visits the indices from `flushFrom ≤ T` upwards, so
a slot holding a run is first visited under an index `≤ I`.  Core-only.
-/
import Biogo.Proofs.FilterRun
import Biogo.Proofs.FilterComplete

set_option linter.unusedSimpArgs false

namespace Biogo.Proofs.PalsChainDomain
open Biogo.Filter Biogo.Proofs.FilterRun

/-- the hit lies inside the merger model's domain -/
def HitDom (qlen : Nat) (h : Hit) : Prop := -h.diagonal ≤ (qlen : Int) ∧ h.from_ ≤ (qlen : Int)

/-- `T` ticks have happened, positions below `P` have been processed -/
structure GInv (c : Cfg) (qlen T P : Nat) (st : St) : Prop where
  size : st.tubes.size = c.cap
  qlo : ∀ slot, (getTube st slot).qLo ≤ P
  live : ∀ slot, (getTube st slot).count ≠ 0 → ∃ I, I % c.cap = slot ∧ T ≤ I ∧ I * c.off ≤ c.tlen + qlen
  hits : ∀ h ∈ st.hits, HitDom qlen h

theorem GInv.mono {c : Cfg} {qlen T P P' : Nat} {st : St} (h : GInv c qlen T P st) (hp : P ≤ P') :
    GInv c qlen T P' st :=
  ⟨h.size, fun s => Nat.le_trans (h.qlo s) hp, h.live, h.hits⟩

theorem addHit_dom (c : Cfg) (qlen : Nat) (st : St) (ti : Nat) (a b : Nat)
    (hl : ti * c.off ≤ c.tlen + qlen) (ha : a ≤ qlen) (hh : ∀ h ∈ st.hits, HitDom qlen h) :
    ∀ h ∈ (addHit c st (ti : Int) a b).hits, HitDom qlen h := by
  intro h hm
  simp only [addHit, List.mem_cons] at hm
  rcases hm with e | e
  · subst e
    have : ((ti * c.off : Nat) : Int) = (ti : Int) * (c.off : Int) := by simp
    refine ⟨?_, ?_⟩ <;> simp only [] <;> omega
  · exact hh h e

/-- a common k-mer addressed to tube `ti` -/
theorem hitTube_g {c : Cfg} {qlen T P : Nat} {st : St} (inv : GInv c qlen T P st) (ti q : Nat)
    (hcap : 0 < c.cap) (hP : P ≤ q) (hq : q ≤ qlen) (hT : T ≤ ti) (hB : ti * c.off ≤ c.tlen + qlen) :
    GInv c qlen T q (hitTube c st ti q) := by
  obtain ⟨_, hsize, _, hframe, hcase⟩ := hitTube_cases c st ti q inv.size hcap
  have hold := inv.qlo (ti % c.cap)
  refine ⟨by rw [hsize]; exact inv.size, ?_, ?_, ?_⟩
  · intro slot
    by_cases hs : slot = ti % c.cap
    · subst hs
      rcases hcase with ⟨_, hnew, _⟩ | ⟨_, _, hnew, _⟩ | ⟨_, _, hnew, _⟩ <;> rw [hnew] <;> simp only [] <;> omega
    · rw [hframe slot hs]; exact Nat.le_trans (inv.qlo slot) hP
  · intro slot hne
    by_cases hs : slot = ti % c.cap
    · subst hs; exact ⟨ti, rfl, hT, hB⟩
    · rw [hframe slot hs] at hne; exact inv.live slot hne
  · rcases hcase with ⟨_, _, hh⟩ | ⟨_, _, _, ⟨_, hh⟩ | ⟨_, hh⟩⟩ | ⟨_, _, _, hh⟩
    · rw [hh]; exact inv.hits
    · rw [hh]; exact addHit_dom c qlen st ti _ _ hB (by omega) inv.hits
    · rw [hh]; exact inv.hits
    · rw [hh]; exact inv.hits

/-- the two tube indices a common k-mer at query position `p` addresses are not yet retired and
    within the label bound; `hwide`: the query is at least a tube wide (the wrap-around
    `tubeIndex 0 → cap-1` is emitted under index `cap-1`, whose diagonal is up to `off+e-1` beyond
    the target's end) -/
theorem commonKmer_g {c : Cfg} (w : WF c) {qlen T p : Nat} {st : St} (inv : GInv c qlen T p st) (t : Nat)
    (ht : t < c.tlen) (hp : p ≤ qlen) (hTp : T = 0 ∨ tickPos c (T - 1) < p)
    (hwide : c.off + c.maxError ≤ qlen + 1) : GInv c qlen T p (commonKmer c st t p) := by
  have hoff := w.off_pos
  have hcap := w.cap_pos
  unfold commonKmer
  split
  · exact inv
  · simp only []
    have hd1 : p + 1 ≤ diagIndex c t p := by unfold diagIndex; omega
    have hd2 : diagIndex c t p ≤ c.tlen + p := by unfold diagIndex; omega
    have hdm := Nat.div_add_mod (diagIndex c t p) c.off
    have hml := Nat.mod_lt (diagIndex c t p) hoff
    unfold tubeIndex
    generalize diagIndex c t p = d at *
    generalize hD : d / c.off = ti at *
    generalize hM : d % c.off = dm at *
    rw [Nat.mul_comm] at hdm
    -- the primary tube
    have hTti : T ≤ ti ∧ (dm < c.maxError → 1 ≤ T → T + 1 ≤ ti) := by
      rcases hTp with h0 | hlt
      · subst h0; exact ⟨Nat.zero_le _, fun _ h => by omega⟩
      · unfold tickPos at hlt
        by_cases hT0 : T = 0
        · subst hT0; exact ⟨Nat.zero_le _, fun _ h => by omega⟩
        · have e1 : T - 1 + 1 = T := by omega
          rw [e1] at hlt
          have hA : T * c.off < ti * c.off + c.off := by omega
          have hA' : T * c.off < (ti + 1) * c.off := by rw [Nat.add_mul, Nat.one_mul]; exact hA
          have h1 : T < ti + 1 := Nat.lt_of_mul_lt_mul_right hA'
          refine ⟨by omega, fun hdm' _ => ?_⟩
          have hB : T * c.off < ti * c.off := by omega
          have := Nat.lt_of_mul_lt_mul_right hB
          omega
    have inv1 := hitTube_g inv ti p hcap (Nat.le_refl _) hp hTti.1 (by omega)
    split
    · rename_i hprev
      by_cases h0 : ti = 0
      · rw [if_pos h0]
        -- wrap-around: index cap-1; no tick has happened yet
        have hT0 : T = 0 := by
          apply Classical.byContradiction; intro hne
          have := hTti.2 hprev (by omega); omega
        have hc : (c.cap - 1) * c.off ≤ c.tlen + (c.off + c.maxError) - 1 := by
          have h := w.cap_eq
          have : c.cap - 1 = (c.tlen + (c.off + c.maxError) - 1) / c.off := by omega
          rw [this]; exact Nat.div_mul_le_self _ _
        exact hitTube_g inv1 (c.cap - 1) p hcap (Nat.le_refl _) hp (by omega) (by omega)
      · rw [if_neg h0]
        have hT1 : T ≤ ti - 1 := by
          by_cases hT0 : T = 0
          · omega
          · have := hTti.2 hprev (by omega); omega
        have hm : (ti - 1) * c.off ≤ ti * c.off := Nat.mul_le_mul_right _ (by omega)
        exact hitTube_g inv1 (ti - 1) p hcap (Nat.le_refl _) hp hT1 (by omega)
    · exact inv1

theorem fold_g {c : Cfg} (w : WF c) {qlen T p : Nat} (hp : p ≤ qlen) (hTp : T = 0 ∨ tickPos c (T - 1) < p)
    (hwide : c.off + c.maxError ≤ qlen + 1) :
    ∀ (ts : List Nat) (st : St), (∀ t ∈ ts, t < c.tlen) → GInv c qlen T p st →
      GInv c qlen T p (ts.foldl (fun s t => commonKmer c s t p) st) := by
  intro ts
  induction ts with
  | nil => intro st _ h; exact h
  | cons t ts ih =>
    intro st hts h
    exact ih _ (fun x hx => hts x (by simp [hx])) (commonKmer_g w h t (hts t (by simp)) hp hTp hwide)

/-- the tick at `tickPos T` retires tube `T` -/
theorem tick_g {c : Cfg} (w : WF c) {qlen T p : Nat} {st : St} (inv : GInv c qlen T p st)
    (hp : p = tickPos c T) (hpq : p ≤ qlen) : GInv c qlen (T + 1) (p + 1) (retire c st (T : Int)) := by
  have hcap := w.cap_pos
  obtain ⟨_, hsize, _, hframe, hnew, hem⟩ := retire_cases c st T inv.size hcap
  have hlab : T * c.off ≤ c.tlen + qlen := by
    unfold tickPos at hp
    rw [Nat.add_mul, Nat.one_mul] at hp
    have := w.off_pos
    omega
  refine ⟨by rw [hsize]; exact inv.size, ?_, ?_, ?_⟩
  · intro slot
    by_cases hs : slot = T % c.cap
    · subst hs; rw [hnew]; have := inv.qlo (T % c.cap); simp only []; omega
    · rw [hframe slot hs]; have := inv.qlo slot; omega
  · intro slot hne
    by_cases hs : slot = T % c.cap
    · subst hs; rw [hnew] at hne; simp at hne
    · rw [hframe slot hs] at hne
      obtain ⟨I, h1, h2, h3⟩ := inv.live slot hne
      refine ⟨I, h1, ?_, h3⟩
      have : I ≠ T := fun e => hs (by rw [← h1, e])
      omega
  · rcases hem with ⟨_, hh⟩ | ⟨_, hh⟩
    · rw [hh]
      exact addHit_dom c qlen st T _ _ hlab (by have := inv.qlo (T % c.cap); omega) inv.hits
    · rw [hh]; exact inv.hits

/-- retiring any tube whose label is within the bound keeps the invariant (the final `tubeEnd`) -/
theorem retire_g {c : Cfg} (w : WF c) {qlen T P : Nat} {st : St} (inv : GInv c qlen T P st) (j : Nat)
    (hlab : j * c.off ≤ c.tlen + qlen) (hPq : P ≤ qlen) : GInv c qlen T P (retire c st (j : Int)) := by
  have hcap := w.cap_pos
  obtain ⟨_, hsize, _, hframe, hnew, hem⟩ := retire_cases c st j inv.size hcap
  refine ⟨by rw [hsize]; exact inv.size, ?_, ?_, ?_⟩
  · intro slot
    by_cases hs : slot = j % c.cap
    · subst hs; rw [hnew]; exact inv.qlo (j % c.cap)
    · rw [hframe slot hs]; exact inv.qlo slot
  · intro slot hne
    by_cases hs : slot = j % c.cap
    · subst hs; rw [hnew] at hne; simp at hne
    · rw [hframe slot hs] at hne; exact inv.live slot hne
  · rcases hem with ⟨_, hh⟩ | ⟨_, hh⟩
    · rw [hh]
      exact addHit_dom c qlen st j _ _ hlab (by have := inv.qlo (j % c.cap); omega) inv.hits
    · rw [hh]; exact inv.hits

/-- the loop invariant: the tube array and the ticker -/
def GL (c : Cfg) (qlen : Nat) (l : Loop) (p : Nat) : Prop :=
  ∃ T, GInv c qlen T p l.st ∧ l.ticker = tickPos c T + 1 ∧ p ≤ tickPos c T ∧
    (T = 0 ∨ tickPos c (T - 1) < p)

/-- one query position of the scan (`stepPos`: the common k-mers of the position — none where the
    callback is skipped — then `tick(p + 1)`) -/
theorem stepPos_g {c : Cfg} (w : WF c) {qlen p : Nat} {l : Loop} (h : GL c qlen l p) (ts : List Nat)
    (hts : ∀ t ∈ ts, t < c.tlen) (hp : p ≤ qlen) (hwide : c.off + c.maxError ≤ qlen + 1) :
    GL c qlen (stepPos c l p ts) (p + 1) := by
  obtain ⟨T, inv, htk, hle, hTp⟩ := h
  have hoff := w.off_pos
  have inv1 := fold_g w hp hTp hwide ts l.st hts inv
  unfold stepPos kmers
  by_cases hfire : p = tickPos c T
  · rw [tick_one c hoff _ (p + 1) (by show l.ticker = p + 1; omega)]
    refine ⟨T + 1, ?_, ?_, ?_, ?_⟩
    · show GInv c qlen (T + 1) (p + 1) (tubeEnd c _ (p + 1 - 1))
      rw [Nat.add_sub_cancel]
      unfold tubeEnd
      rw [hfire, tubeEndIndex_tick w T, ← hfire]
      exact tick_g w inv1 hfire hp
    · show p + 1 + c.off = _
      rw [tickPos_succ w]; omega
    · rw [tickPos_succ w]; omega
    · right; simp only [Nat.add_sub_cancel]; omega
  · rw [tick_done _ _ _ (by show p + 1 < l.ticker; omega)]
    exact ⟨T, inv1.mono (Nat.le_succ _), htk, by omega, hTp.imp id (by omega)⟩

theorem scan_g {c : Cfg} (w : WF c) (qlen : Nat) (ts : Nat → List Nat) (hts : ∀ p t, t ∈ ts p → t < c.tlen)
    (hwide : c.off + c.maxError ≤ qlen + 1) (l0 : Loop) (h0 : GL c qlen l0 0) :
    ∀ N, N ≤ qlen + 1 → GL c qlen (scanN c ts l0 N) N := by
  intro N
  induction N with
  | zero => intro _; exact h0
  | succ N ih =>
    intro hN
    rw [scanN_succ]
    exact stepPos_g w (ih (by omega)) (ts N) (hts N) (by omega) hwide

/-- invariant of the final flush loop from index `x` on: a slot holding an emittable run was last
    addressed under an index `≥ x` -/
structure FL (c : Cfg) (qlen x : Nat) (st : St) : Prop where
  size : st.tubes.size = c.cap
  qlo : ∀ slot, (getTube st slot).qLo ≤ qlen
  live : ∀ slot, ((getTube st slot).count : Int) ≥ c.minKmers →
    ∃ I, I % c.cap = slot ∧ x ≤ I ∧ I * c.off ≤ c.tlen + qlen
  hits : ∀ h ∈ st.hits, HitDom qlen h

theorem flush_g {c : Cfg} (hcap : 0 < c.cap) (hmin : 0 < c.minKmers) (qlen : Nat) :
    ∀ (n x : Nat) (st : St), FL c qlen x st → FL c qlen (x + n) (flushLoop c n x st) := by
  intro n
  induction n with
  | zero => intro x st h; exact h
  | succ n ih =>
    intro x st h
    rw [flushLoop, show x + (n + 1) = (x + 1) + n by omega]
    apply ih
    have hslot : x % c.cap < st.tubes.size := by rw [h.size]; exact Nat.mod_lt _ hcap
    unfold tubeFlush
    simp only []
    by_cases hthr : ((getTube st (x % c.cap)).count : Int) < c.minKmers
    · rw [if_pos hthr]
      refine ⟨h.size, h.qlo, ?_, h.hits⟩
      intro slot hge
      obtain ⟨I, h1, h2, h3⟩ := h.live slot hge
      refine ⟨I, h1, ?_, h3⟩
      have : I ≠ x := fun e => by subst e; rw [h1] at hthr; omega
      omega
    · rw [if_neg hthr]
      obtain ⟨I, h1, h2, h3⟩ := h.live (x % c.cap) (by omega)
      have hx : x * c.off ≤ I * c.off := Nat.mul_le_mul_right _ h2
      refine ⟨by simp [addHit_tubes]; exact h.size, ?_, ?_, ?_⟩
      · intro slot
        rw [getTube_set]
        split
        · simp only [getTube_addHit]; exact h.qlo _
        · rw [getTube_addHit]; exact h.qlo slot
      · intro slot hge
        rw [getTube_set] at hge
        split at hge
        · simp at hge; omega
        · rename_i hne
          rw [getTube_addHit] at hge
          obtain ⟨I', g1, g2, g3⟩ := h.live slot hge
          refine ⟨I', g1, ?_, g3⟩
          have : I' ≠ x := by
            intro e; subst e
            apply hne
            exact ⟨g1, by rw [addHit_tubes]; exact hslot⟩
          omega
      · exact addHit_dom c qlen st x _ _ (by omega) (h.qlo _) h.hits

/-- **every hit pushed by a whole run of the (repaired) filter model lies in the merger's domain** -/
theorem runFilter_hits_dom {c : Cfg} (w : WF c) (ts : Nat → List Nat) (qlen : Nat)
    (hts : ∀ p t, t ∈ ts p → t < c.tlen) (hk1 : 1 ≤ c.k) (hq : c.k ≤ qlen) (hqe : c.maxError + 1 ≤ qlen)
    (hwide : c.off + c.maxError ≤ qlen + 1) (hmin : 0 < c.minKmers) :
    ∀ h ∈ (runFilter c ts (qlen - c.k + 1) qlen).hits, HitDom qlen h := by
  have hoff := w.off_pos
  have hcap := w.cap_pos
  have h0 : GL c qlen
      { st := { tubes := Array.replicate c.cap default, hits := [] }, ticker := c.off + c.maxError } 0 := by
    refine ⟨0, ⟨by simp, ?_, ?_, by simp⟩, ?_, Nat.zero_le _, Or.inl rfl⟩
    · intro slot; rw [getTube_init]; exact Nat.le_refl _
    · intro slot hne; rw [getTube_init] at hne; exact absurd rfl hne
    · show c.off + c.maxError = _
      unfold tickPos; omega
  obtain ⟨T, inv, _, hle, _⟩ := scan_g w qlen ts hts hwide _ h0 (qlen - c.k + 1) (by omega)
  unfold runFilter
  simp only []
  generalize scanN c ts _ (qlen - c.k + 1) = l at inv
  -- the final tubeEnd
  have hr0 : tubeEndIndex c (qlen - 1) = (((qlen - 1 - c.maxError) / c.off : Nat) : Int) := by
    unfold tubeEndIndex
    simp only [w.rule, if_true]
    have hcast : ((c.tlen : Int) - ((c.tlen : Int) - 1) + (((qlen - 1 : Nat) : Int) - 1) - (c.maxError : Int))
        = ((qlen - 1 - c.maxError : Nat) : Int) := by omega
    rw [hcast]; rfl
  have hr0l : (qlen - 1 - c.maxError) / c.off * c.off ≤ c.tlen + qlen := by
    have := Nat.div_mul_le_self (qlen - 1 - c.maxError) c.off; omega
  have inv2 : GInv c qlen T (qlen - c.k + 1) (tubeEnd c l.st (qlen - 1)) := by
    unfold tubeEnd; rw [hr0]
    exact retire_g w inv _ hr0l (by omega)
  -- the flush starts at or below the first tube no tick has retired
  have hJT : flushFrom c qlen ≤ T := by
    unfold tickPos at hle
    have : flushFrom c qlen < T + 1 := by
      unfold flushFrom
      rw [Nat.div_lt_iff_lt_mul hoff]
      have : 1 ≤ (T + 1) * c.off := Nat.mul_pos (by omega) hoff
      omega
    omega
  rw [flushRange_eq w qlen hq (by omega)]
  simp only []
  have hfl : FL c qlen (flushFrom c qlen) (tubeEnd c l.st (qlen - 1)) := by
    refine ⟨inv2.size, fun s => by have := inv2.qlo s; omega, ?_, inv2.hits⟩
    intro slot hge
    obtain ⟨I, h1, h2, h3⟩ := inv2.live slot (by intro e; rw [e] at hge; simp at hge; omega)
    exact ⟨I, h1, by omega, h3⟩
  exact (flush_g hcap hmin qlen _ _ _ hfl).hits

open Biogo.Proofs.FilterComplete Biogo.Proofs.Kmer Biogo.Proofs.KmerIndex Biogo.Spec.Kmer Biogo.Kmer in
/-- the same for `filter` (repaired rule, ticker on the query position) on the built index of the
    target and **any** query, on either strand: every returned hit has `-Diagonal ≤ Qlen` and
    `From ≤ Qlen`.  (Positions whose window holds a letter outside the alphabet contribute no common
    k-mer — `tsOf … = []` — and the ticks that fall on them are caught up by `tick`, so the
    invariant of the tube array is the one of a query over the alphabet.) -/
theorem filter_hits_dom {lk : Lookup} (hlk : FourLetter lk) (t q : List UInt8) (k : Nat) (p : Params)
    (selfAlign complement : Bool) (hk1 : 1 ≤ k) (hk2 : 2 * k ≤ wordBits) (ht : k ≤ t.length)
    (hkq : k ≤ q.length) (he : p.maxError ≤ p.tubeOffset) (hoff : 1 ≤ p.tubeOffset)
    (hqe : p.maxError + 1 ≤ q.length) (hwide : p.tubeOffset + p.maxError ≤ q.length + 1)
    (hthr : 0 < minWordsPerFilterHit p.minMatch k p.maxError)
    (hits : List Hit) (hf : filter repaired lk (builtIndex lk k t) p q selfAlign complement = .ok hits) :
    ∀ h ∈ hits, HitDom q.length h := by
  have e := filter_eq_run hlk repaired (builtIndex lk k t) p q selfAlign complement rfl hk1 hk2 hkq he hoff
  simp only [] at e
  rw [e] at hf
  split at hf
  · cases hf
  · cases hf
    intro h hh
    have hw : WF (mkCfg repaired k t.length p selfAlign complement) := ⟨hoff, he, rfl, rfl⟩
    refine runFilter_hits_dom hw _ q.length ?_ hk1 hkq hqe hwide hthr h (List.mem_reverse.mp hh)
    intro pos x hx
    unfold tsOf at hx
    rw [builtIndex_k] at hx
    cases hwq : wordAt lk k q pos with
    | none => rw [hwq] at hx; cases hx
    | some wq =>
      rw [hwq] at hx
      simp only [] at hx
      rw [mem_targetPositions hlk k hk1 hk2 t ht _ (wordOf_some hlk k _ _ hwq).2] at hx
      have := (wordOf_some hlk k _ _ hx).1
      rw [List.length_drop] at this
      show x < t.length
      omega

end Biogo.Proofs.PalsChainDomain
