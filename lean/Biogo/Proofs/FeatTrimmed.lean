/-
"Trimmed" strings are fixed points of `bytes.TrimSpace`; a line made of tab-separated fields is
trimmed when its first and last fields are.
-/
import Biogo.Proofs.FeatTrim
import Biogo.Spec.FeatIO

namespace Biogo.BytesFeat
open Biogo.FeatIO

theorem isSpace2_right_ascii (a t : UInt8) (ht : t < 128) : isSpace2 a t = false := by
  cases h : isSpace2 a t with
  | false => rfl
  | true =>
    exfalso
    simp only [isSpace2, Bool.and_eq_true, Bool.or_eq_true, beq_iff_eq] at h
    rcases h with ⟨_, h | h⟩ <;> subst h <;> exact absurd ht (by decide)

theorem isSpace2_left_ascii (t b : UInt8) (ht : t < 128) : isSpace2 t b = false := by
  cases h : isSpace2 t b with
  | false => rfl
  | true =>
    exfalso
    simp only [isSpace2, Bool.and_eq_true, beq_iff_eq] at h
    obtain ⟨h, _⟩ := h
    subst h; exact absurd ht (by decide)

theorem isSpace3_mid_ascii (a t c : UInt8) (ht : t < 128) : isSpace3 a t c = false := by
  cases h : isSpace3 a t c with
  | false => rfl
  | true =>
    exfalso
    simp only [isSpace3, Bool.or_eq_true, Bool.and_eq_true, beq_iff_eq] at h
    rcases h with ((⟨⟨_, h⟩, _⟩ | ⟨⟨_, h⟩, _⟩) | ⟨⟨_, h⟩, _⟩) | ⟨⟨_, h⟩, _⟩ <;> subst h <;> exact absurd ht (by decide)

theorem isSpace3_last_ascii (a b t : UInt8) (ht : t < 128) : isSpace3 a b t = false := by
  cases h : isSpace3 a b t with
  | false => rfl
  | true =>
    exfalso
    have h128 : ¬ ((128 : UInt8) ≤ t) := by
      intro h2; exact absurd (UInt8.lt_of_lt_of_le ht h2) (UInt8.lt_irrefl _)
    simp only [isSpace3, Bool.or_eq_true, Bool.and_eq_true, beq_iff_eq, decide_eq_true_eq] at h
    rcases h with ((⟨_, h⟩ | ⟨_, h⟩) | ⟨_, h⟩) | ⟨_, h⟩
    · subst h; exact absurd ht (by decide)
    · rcases h with ((⟨h, _⟩ | h) | h) | h
      · exact h128 h
      all_goals (subst h; exact absurd ht (by decide))
    · subst h; exact absurd ht (by decide)
    · subst h; exact absurd ht (by decide)

theorem isSpace3_first_ascii (t b c : UInt8) (ht : t < 128) : isSpace3 t b c = false := by
  cases h : isSpace3 t b c with
  | false => rfl
  | true =>
    exfalso
    simp only [isSpace3, Bool.or_eq_true, Bool.and_eq_true, beq_iff_eq] at h
    rcases h with ((⟨⟨h, _⟩, _⟩ | ⟨⟨h, _⟩, _⟩) | ⟨⟨h, _⟩, _⟩) | ⟨⟨h, _⟩, _⟩ <;> subst h <;> exact absurd ht (by decide)

theorem isAsciiSpace_lt (a : UInt8) (h : isAsciiSpace a = true) : a < 128 := by
  simp only [isAsciiSpace, Bool.or_eq_true, beq_iff_eq] at h
  rcases h with ((((h | h) | h) | h) | h) | h <;> subst h <;> decide

/-- a string that does not start with white space is left alone by `TrimLeftFunc` -/
theorem trimLeft_of_spaceLen (s : Bytes) (h : spaceLen s = 0) : trimLeft s = s := by
  match s with
  | [] => rfl
  | [a] =>
    have ha : ¬ isAsciiSpace a = true := by intro e; simp [spaceLen, e] at h
    exact trimLeft_one ha
  | [a, b] =>
    have ha : ¬ isAsciiSpace a = true := by intro e; simp [spaceLen, e] at h
    have hb : ¬ isSpace2 a b = true := by intro e; simp [spaceLen, ha, e] at h
    exact trimLeft_two_keep ha hb
  | a :: b :: c :: r =>
    have ha : ¬ isAsciiSpace a = true := by intro e; simp [spaceLen, e] at h
    have hb : ¬ isSpace2 a b = true := by intro e; simp [spaceLen, ha, e] at h
    have hc : ¬ isSpace3 a b c = true := by intro e; simp [spaceLen, ha, hb, e] at h
    exact trimLeft_three_keep r ha hb hc

theorem dropSpaceRev_of_spaceLenRev (s : Bytes) (h : spaceLenRev s = 0) : dropSpaceRev s = s := by
  match s with
  | [] => rfl
  | [a] =>
    have ha : ¬ isAsciiSpace a = true := by intro e; simp [spaceLenRev, e] at h
    simp [dropSpaceRev, ha]
  | [a, b] =>
    have ha : ¬ isAsciiSpace a = true := by intro e; simp [spaceLenRev, e] at h
    have hb : ¬ isSpace2 b a = true := by intro e; simp [spaceLenRev, ha, e] at h
    simp [dropSpaceRev, ha, hb]
  | a :: b :: c :: r =>
    have ha : ¬ isAsciiSpace a = true := by intro e; simp [spaceLenRev, e] at h
    have hb : ¬ isSpace2 b a = true := by intro e; simp [spaceLenRev, ha, e] at h
    have hc : ¬ isSpace3 c b a = true := by intro e; simp [spaceLenRev, ha, hb, e] at h
    rw [dropSpaceRev.eq_def]; simp [ha, hb, hc]

/-- `bytes.TrimSpace` leaves a trimmed string alone -/
theorem trimSpace_of_trimmed (s : Bytes) (h : trimmed s = true) : trimSpace s = s := by
  simp only [trimmed, startsWithSpace, endsWithSpace, Bool.and_eq_true, Bool.not_eq_true',
    bne_eq_false_iff_eq] at h
  unfold trimSpace trimRight
  rw [trimLeft_of_spaceLen s h.1, dropSpaceRev_of_spaceLenRev _ h.2, List.reverse_reverse]

/-- a non-empty string that does not start with white space still does not after an ASCII byte
    (a tab, a space, …) and anything else is appended -/
theorem spaceLen_append (f : Bytes) (t : UInt8) (rest : Bytes) (hne : f ≠ []) (h : spaceLen f = 0)
    (ht : t < 128) : spaceLen (f ++ t :: rest) = 0 := by
  match f with
  | [] => exact absurd rfl hne
  | [a] =>
    have ha : ¬ isAsciiSpace a = true := by intro e; simp [spaceLen, e] at h
    cases rest with
    | nil => simp [spaceLen, ha, isSpace2_right_ascii a t ht]
    | cons c r => simp [spaceLen, ha, isSpace2_right_ascii a t ht, isSpace3_mid_ascii a t c ht]
  | [a, b] =>
    have ha : ¬ isAsciiSpace a = true := by intro e; simp [spaceLen, e] at h
    have hb : ¬ isSpace2 a b = true := by intro e; simp [spaceLen, ha, e] at h
    simp [spaceLen, ha, hb, isSpace3_last_ascii a b t ht]
  | a :: b :: c :: r =>
    have ha : ¬ isAsciiSpace a = true := by intro e; simp [spaceLen, e] at h
    have hb : ¬ isSpace2 a b = true := by intro e; simp [spaceLen, ha, e] at h
    have hc : ¬ isSpace3 a b c = true := by intro e; simp [spaceLen, ha, hb, e] at h
    simp [spaceLen, ha, hb, hc]

theorem spaceLenRev_append (f : Bytes) (t : UInt8) (rest : Bytes) (hne : f ≠ []) (h : spaceLenRev f = 0)
    (ht : t < 128) : spaceLenRev (f ++ t :: rest) = 0 := by
  match f with
  | [] => exact absurd rfl hne
  | [a] =>
    have ha : ¬ isAsciiSpace a = true := by intro e; simp [spaceLenRev, e] at h
    cases rest with
    | nil => simp [spaceLenRev, ha, isSpace2_left_ascii t a ht]
    | cons c r => simp [spaceLenRev, ha, isSpace2_left_ascii t a ht, isSpace3_mid_ascii c t a ht]
  | [a, b] =>
    have ha : ¬ isAsciiSpace a = true := by intro e; simp [spaceLenRev, e] at h
    have hb : ¬ isSpace2 b a = true := by intro e; simp [spaceLenRev, ha, e] at h
    simp [spaceLenRev, ha, hb, isSpace3_first_ascii t b a ht]
  | a :: b :: c :: r =>
    have ha : ¬ isAsciiSpace a = true := by intro e; simp [spaceLenRev, e] at h
    have hb : ¬ isSpace2 b a = true := by intro e; simp [spaceLenRev, ha, e] at h
    have hc : ¬ isSpace3 c b a = true := by intro e; simp [spaceLenRev, ha, hb, e] at h
    simp [spaceLenRev, ha, hb, hc]

/-- `first ++ t :: mid ++ [u] ++ last` is trimmed when `first`, `last` are non-empty and trimmed
    at their outer ends and `t`, `u` are ASCII -/
theorem trimmed_sandwich (first mid last : Bytes) (t u : UInt8) (h1 : first ≠ []) (h2 : last ≠ [])
    (hs : startsWithSpace first = false) (he : endsWithSpace last = false) (ht : t < 128) (hu : u < 128) :
    trimmed (first ++ t :: (mid ++ u :: last)) = true := by
  simp only [startsWithSpace, endsWithSpace, bne_eq_false_iff_eq] at hs he
  simp only [trimmed, startsWithSpace, endsWithSpace, Bool.and_eq_true, Bool.not_eq_true',
    bne_eq_false_iff_eq]
  refine ⟨spaceLen_append first t _ h1 hs ht, ?_⟩
  have : (first ++ t :: (mid ++ u :: last)).reverse = last.reverse ++ u :: (mid.reverse ++ t :: first.reverse) := by
    simp
  rw [this]
  exact spaceLenRev_append _ u _ (by simpa using h2) he hu

end Biogo.BytesFeat
