/-
Pulling lines from the byte-level `bufio.Reader` model one at a time, as the loops of
`fasta.Reader.Read` / `fastq.Reader.Read` do, is the same as running the loop body over the
drained line-level view `lineInput`.  Core only.
-/
import Biogo.Proofs.BufioImage
import Biogo.Go.BufioLoop

namespace Biogo.Go.Bufio
open Biogo.Spec.Bufio (lineInput endsPendingAux)

/-- the two runs agree: same result, and the reader the lazy run leaves behind is a reader
    between calls whose remaining input is what the drained run has left -/
def Agree {ρ : Type} (b : Reader) : Option (ρ × Reader) → Option (ρ × List Bytes × Bytes) → Prop
  | some (r, b'), some (r', ls', pend') =>
    r = r' ∧ Inv b' ∧ SameCfg b b' ∧ lineInput b'.size b'.src.withData b'.stream = (ls', pend')
  | none, none => True
  | _, _ => False

theorem Agree.of_cfg {ρ : Type} {b b₁ : Reader} (h : SameCfg b b₁) {x : Option (ρ × Reader)}
    {y : Option (ρ × List Bytes × Bytes)} (ha : Agree b₁ x y) : Agree b x y := by
  cases x with
  | none => cases y <;> exact ha
  | some v =>
    cases y with
    | none => exact ha
    | some w =>
      obtain ⟨r, b'⟩ := v
      obtain ⟨r', ls', pend'⟩ := w
      exact ⟨ha.1, ha.2.1, h.trans ha.2.2.1, ha.2.2.2⟩

theorem nextLine_eq (b : Reader) : nextLine b = collectLine (b.stream.length + 1) b [] := rfl

/-- **lazy = drained**, for every loop body, every buffer size, every chunking. -/
theorem runLazy_drained {σ ρ : Type} (body : σ → Bytes → σ ⊕ ρ) (atErr : σ → Bytes → Err → σ ⊕ ρ) :
    ∀ (fuel : Nat) (s : σ) (b : Reader), Inv b →
      Agree b (runLazy body atErr fuel s b)
        (runDrained body atErr b.src.fin fuel s (lineInput b.size b.src.withData b.stream).1
          (lineInput b.size b.src.withData b.stream).2) := by
  intro fuel
  induction fuel with
  | zero => intro s b _; simp [runLazy, runDrained, Agree]
  | succ fuel ih =>
    intro s b hinv
    rw [runLazy]
    rcases first_lf b.stream with hno | ⟨l, post, hbs, hl⟩
    · -- the last, unterminated, line (or nothing)
      obtain ⟨b', h1, h2, h3, h4⟩ := collectLine_last _ b.stream rfl hno b [] (b.stream.length + 1) (b.stream.length + 1)
        hinv rfl (by omega) (by omega)
      have hli' : lineInput b'.size b'.src.withData b'.stream = ([], []) := by rw [h2]; exact lineInput_nil _ _
      rw [nextLine_eq, h1]
      by_cases hnil : b.stream = []
      · -- nothing left: the final error, nothing pending
        simp only [hnil, true_or, ↓reduceIte, List.append_nil, lineInput_nil]
        rw [runDrained]
        cases hat : atErr s [] b.src.fin with
        | inl s' =>
          simp only
          have := ih s' b' h3
          rw [hli', h4.2.2.2] at this
          exact this.of_cfg h4
        | inr r => exact ⟨rfl, h3, h4, hli'⟩
      · simp only [hnil, false_or, List.nil_append]
        rw [lineInput_last _ _ b.stream hno hnil]
        by_cases hc : b.src.withData = false ∧ endsPendingAux b.size (b.stream.length + 1) b.stream = true
        · -- the fragments are pending when the final error arrives
          simp only [hc, and_self, ↓reduceIte]
          rw [runDrained]
          cases hat : atErr s b.stream b.src.fin with
          | inl s' =>
            simp only
            have := ih s' b' h3
            rw [hli', h4.2.2.2] at this
            exact this.of_cfg h4
          | inr r => exact ⟨rfl, h3, h4, hli'⟩
        · -- a complete last line
          simp only [hc, ↓reduceIte]
          rw [runDrained]
          cases hbd : body s b.stream with
          | inl s' =>
            simp only
            have := ih s' b' h3
            rw [hli', h4.2.2.2] at this
            exact this.of_cfg h4
          | inr r => exact ⟨rfl, h3, h4, hli'⟩
    · -- a terminated line
      obtain ⟨b', h1, h2, h3, h4⟩ := collectLine_terminated _ l rfl hl b [] post (b.stream.length + 1) hinv hbs
        (by rw [hbs]; simp only [List.length_append, List.length_cons]; omega)
      have hli' : lineInput b'.size b'.src.withData b'.stream = lineInput b.size b.src.withData post := by
        rw [h2, h4.1, h4.2.2.1]
      rw [nextLine_eq, h1, hbs, lineInput_line _ _ l post hl, ← chompCR_eq_stripCR]
      simp only [List.nil_append]
      rw [runDrained]
      cases hbd : body s (chompCR l) with
      | inl s' =>
        simp only
        have := ih s' b' h3
        rw [hli', h4.2.2.2] at this
        exact this.of_cfg h4
      | inr r => exact ⟨rfl, h3, h4, by rw [hli']⟩

end Biogo.Go.Bufio
