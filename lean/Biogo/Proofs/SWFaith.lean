/-
`SWAffine`: every returned pair carries the score recomputed from letters, matrix and gap
parameters (after the repair of K5), for matrices whose gap scores are not positive.  The
loop-level invariant is the generic one of `Proofs/TraceFaith`; what is specific is the
termination argument: the local traceback stops on a value 0 (`case table[p][layer] == 0`, or
the zero border), and a gap run whose opening step has not been taken yet cannot stand on a
0 — an extension step goes from a positive gap-layer value to one that is at least as large,
because gap scores are ≤ 0 and every entry of the table is ≥ 0.  So when the loop stops the
pending segment is a block or a gap run that has been charged its `gapOpen`.  Core only.
-/
import Biogo.Proofs.SWAffine
import Biogo.Proofs.TraceFaith

namespace Biogo.Proofs.SWFaith
open Biogo.Spec.Alignment Biogo.AlignAff Biogo.Spec.AffineOpt Biogo.Spec.AffPairs
open Biogo.Proofs.AffineOpt Biogo.Proofs.AlignAffTable Biogo.Proofs.TraceSum Biogo.Proofs.SWAffine
open Biogo.Proofs.TraceWF Biogo.Proofs.TraceFaith

theorem clip0_nonneg {w : V} {v : Int} (h : clip0 w = some v) : 0 ≤ v := by
  rcases w with _ | x
  · simp [clip0] at h; omega
  · simp only [clip0] at h
    split at h <;> simp at h <;> omega

/-- every entry written by the inner loop of `SWAffine` is ≥ 0 -/
theorem swCell_nonneg (cross : Bool) (S : Matrix) (o : Int) (x y : Nat) (pd pu lc : Cell) (k : Kind) (v : Int)
    (h : (swCell cross S o x pd pu lc y).get k = some v) : 0 ≤ v := by
  cases k with
  | m =>
    simp only [Cell.get, swCell] at h
    split at h
    · rename_i hgt
      rw [h] at hgt
      simp [vgt] at hgt; omega
    · simp at h; omega
  | u => simp only [Cell.get, swCell] at h; exact clip0_nonneg h
  | l => simp only [Cell.get, swCell] at h; exact clip0_nonneg h

/-- every entry of the table of `SWAffine` is ≥ 0 -/
theorem swTable_nonneg (cross : Bool) (S : Matrix) (o : Int) (r q : List Nat) (i j : Nat) (hi : i ≤ r.length)
    (hj : j ≤ q.length) (k : Kind) (v : Int) (h : ((swTable cross S o r q).at i j).get k = some v) : 0 ≤ v := by
  rw [swTable_at cross S o r q i j hj] at h
  cases i with
  | zero =>
    rw [swAt_row0 cross S o r q j hj] at h
    cases k <;> simp [zeroCell, Cell.get] at h <;> omega
  | succ i =>
    cases j with
    | zero =>
      rw [swAt_first cross S o r q i (by omega)] at h
      cases k <;> simp [zeroCell, Cell.get] at h <;> omega
    | succ j =>
      rw [swAt_inner cross S o r q i j (by omega) (by omega)] at h
      exact swCell_nonneg cross S o _ _ _ _ _ k v h

/-- a gap run whose opening step is still to come stands on a positive value -/
def Pos (T : Table) (st : TB) : Prop :=
  st.last ≠ .m → st.layer = st.last → ∃ w, (T.at st.i st.j).get st.layer = some w ∧ 0 < w

/-- `Pos` is an invariant of the layer-aware local traceback when gap scores are ≤ 0 and the
    entries of the table are ≥ 0 -/
theorem loop_pos (cross : Bool) (T : Table) (S : Matrix) (o : Int) (r q : List Nat) (R C I0 J0 : Nat)
    (hg : ∀ x, S x 0 ≤ 0 ∧ S 0 x ≤ 0)
    (hnn : ∀ i j, i ≤ R → j ≤ C → ∀ k v, (T.at i j).get k = some v → 0 ≤ v) :
    ∀ (fuel : Nat) (st st' : TB), Inv R C I0 J0 st → Pos T st →
      tbLoop true cross true T S o r q R C fuel st = .ok st' → Pos T st' := by
  intro fuel
  induction fuel with
  | zero => intro st st' _ hp hl; simp only [tbLoop] at hl; cases hl; exact hp
  | succ fuel ih =>
    intro st st' hinv hp hl
    unfold tbLoop at hl
    by_cases h0 : st.i = 0 ∨ st.j = 0
    · rw [if_pos h0] at hl; cases hl; exact hp
    rw [if_neg h0] at hl
    simp only [] at hl
    cases hv : (T.at st.i st.j).get st.layer with
    | none => rw [hv] at hl; cases hl
    | some v =>
      rw [hv] at hl
      simp only [] at hl
      by_cases hsw : (True ∧ v = 0)
      · rw [if_pos hsw] at hl; cases hl; exact hp
      rw [if_neg hsw] at hl
      cases hfind : (cands cross true S o (r.getD (st.i - 1) 0) (q.getD (st.j - 1) 0)).find?
          (caseHit true T st v) with
      | none => rw [hfind] at hl; cases hl
      | some cd =>
        obtain ⟨mv, pl, add⟩ := cd
        rw [hfind] at hl
        simp only [] at hl
        have hmem := List.mem_of_find?_eq_some hfind
        have hp' := caseHit_vadd (List.find?_some hfind)
        simp only [] at hp'
        have hiR : st.i ≤ R := by have := hinv.hi; have := hinv.hR; omega
        have hjC : st.j ≤ C := by have := hinv.hj; have := hinv.hC; omega
        have hinv' := move_inv hinv (by omega) (by omega) hiR hjC mv pl v
          (vget ((predOf T st.i st.j mv).get pl))
        apply ih _ _ hinv' ?_ hl
        -- the new state
        have hv0 : 0 < v := by
          have := hnn st.i st.j hiR hjC st.layer v hv
          have : v ≠ 0 := fun e => hsw ⟨trivial, e⟩
          omega
        obtain ⟨w, hw, hadd⟩ := vadd_eq_some hp'
        intro hlast hlay
        rw [move_layer] at hlay ⊢
        have hlast' : (st.move (decide (st.i = R ∧ st.j = C)) mv pl v
            (vget ((predOf T st.i st.j mv).get pl))).last = mv := by
          by_cases hc : st.last ≠ mv ∧ (mv = .m ∨ ¬ decide (st.i = R ∧ st.j = C) = true)
          · rw [move_emit st _ mv pl v _ hc]
          · rw [move_keep st _ mv pl v _ hc]
        rw [hlast'] at hlast hlay
        refine ⟨w, ?_, ?_⟩
        · rw [move_i, move_j, ← predOf_eq]; exact hw
        · subst hlay
          rcases cands_cases hmem with ⟨rfl, hpl⟩ | ⟨rfl, hpl⟩ | ⟨rfl, _⟩
          · rcases hpl with ⟨_, e⟩ | ⟨hh, _⟩
            · have := (hg (r.getD (st.i - 1) 0)).1; omega
            · exact absurd rfl hh
          · rcases hpl with ⟨_, e⟩ | ⟨hh, _⟩
            · have := (hg (q.getD (st.j - 1) 0)).2; omega
            · exact absurd rfl hh
          · exact absurd rfl hlast

/-- a traceback standing on the border does nothing -/
theorem tbLoop_border (aware cross sw : Bool) (T : Table) (S : Matrix) (o : Int) (r q : List Nat) (R C fuel : Nat)
    (st : TB) (h : st.i = 0 ∨ st.j = 0) : tbLoop aware cross sw T S o r q R C fuel st = .ok st := by
  cases fuel with
  | zero => rfl
  | succ n => unfold tbLoop; rw [if_pos h]

/-- the layer-aware traceback of `SWAffine` never raises the ghost flag -/
theorem swAlignT_aware_tie (cross : Bool) (S : Matrix) (o : Int) (r q : List Nat) (ps : List Pair) (t : Bool)
    (h : swAlignT true cross S o r q = .ok (ps, t)) : t = false := by
  unfold swAlignT at h
  simp only [] at h
  split at h
  · cases h
  · rename_i st hl
    have ht := loop_tie_aware cross true _ S o r q _ _ _ _ st hl
    simp only [] at ht
    cases h; exact ht

/-- **Faithful pair scores, `SWAffine`** (either fill): for gap scores ≤ 0 every pair the model
    returns carries the score recomputed from the letters, the matrix and the gap parameters. -/
theorem swAlignT_faithful (cross : Bool) (S : Matrix) (o : Int) (hg : ∀ x, S x 0 ≤ 0 ∧ S 0 x ≤ 0) (r q : List Nat)
    (ps : List Pair) (h : (swAlignT true cross S o r q).map (·.1) = .ok ps) : faithful S o r q ps = true := by
  obtain ⟨hI, hJ⟩ := swBest_bound cross S o r q
  obtain ⟨_, hbest, _⟩ := swBest_spec cross S o r q
  unfold swAlignT at h
  simp only [] at h
  generalize hb : swBest (swRows cross S o r q) = best at hI hJ hbest h
  obtain ⟨s, mi, mj⟩ := best
  simp only [] at hI hJ hbest h
  by_cases hz : mi = 0 ∨ mj = 0
  · -- no positive cell: the empty alignment
    rw [tbLoop_border true cross true _ S o r q _ _ _ _ hz] at h
    simp only [Except.map] at h
    cases h
    show List.all _ (pairOK S o r q) = true
    simp only [TB.emit, List.all_cons, List.all_nil, Bool.and_true]
    have := pairOK_block S o r q mi mi mj mj (Nat.le_refl _) (by omega)
    simpa [blockSum, sumRange_zero] using this
  have hmi : 0 < mi := by omega
  have hmj : 0 < mj := by omega
  have hinit : Good (swTable cross S o r q) r.length q.length s
      { i := mi, j := mj, layer := .m, last := .m, score := 0, maxI := mi, maxJ := mj, aln := [] } := by
    refine ⟨hI, hJ, s, ?_, by simp [total]⟩
    simp only []
    rw [swTable_at cross S o r q mi mj hJ]; exact hbest
  obtain ⟨st, hloop, ⟨hi', hj', v, hv, _⟩, hend⟩ :=
    loop_good_gen true cross true r.length q.length (exists_cand_sw cross S o r q) s (mi + mj) _ hinit (Nat.le_refl _)
  rw [hloop] at h
  simp only [Except.map] at h
  cases h
  -- the loop stops on a value 0
  have hv0 : ((swTable cross S o r q).at st.i st.j).get st.layer = some 0 := by
    rcases hend with h | h | ⟨_, h⟩
    · rw [swTable_at cross S o r q _ _ hj', h, swAt_row0 cross S o r q _ hj']
      cases st.layer <;> rfl
    · rw [swTable_at cross S o r q _ _ hj', h]
      cases hi0 : st.i with
      | zero => rw [swAt_row0 cross S o r q _ (Nat.zero_le _)]; cases st.layer <;> rfl
      | succ i0 => rw [swAt_first cross S o r q i0 (by omega)]; cases st.layer <;> rfl
    · exact h
  have hinv := loop_inv true cross true _ S o r q r.length q.length mi mj _ _ st
    (init_inv r.length q.length mi mj .m hI hJ) hloop
  have hf := loop_faith_aware cross true _ S o r q r.length q.length mi mj _ _ st
    (init_inv r.length q.length mi mj .m hI hJ) rfl (init_faith S o r q mi mj .m hmi hmj) hloop
  have hpos := loop_pos cross _ S o r q r.length q.length mi mj hg
    (fun i j hi hj k v hh => swTable_nonneg cross S o r q i j hi hj k v hh) _ _ st
    (init_inv r.length q.length mi mj .m hI hJ) (fun hh => absurd rfl hh) hloop
  obtain ⟨hi, hj, hmR, hmC, isegm, isegu, isegl, iempty0, _, _, _, _⟩ := hinv
  have hpair : pairOK S o r q ⟨st.i, st.maxI, st.j, st.maxJ, st.score⟩ = true := by
    cases hk : st.last with
    | m => rw [hf.segm hk]; exact pairOK_block S o r q _ _ _ _ hi (isegm hk)
    | u =>
      -- a gap run still in its own layer stands on a positive value: the loop did not stop there
      have hlay : st.layer ≠ .u := by
        intro hl
        obtain ⟨w, hw, hw0⟩ := hpos (by rw [hk]; decide) (by rw [hl, hk])
        rw [hv0] at hw; cases hw; omega
      obtain ⟨e1, e2⟩ := isegu hk
      have e2' : st.i < st.maxI := by
        rcases e2 with e2 | e2
        · exact e2
        · exact absurd e2 hlay
      rw [(hf.segu hk).2 hlay, ← e1]
      exact pairOK_up S o r q _ _ _ e2'
    | l =>
      have hlay : st.layer ≠ .l := by
        intro hl
        obtain ⟨w, hw, hw0⟩ := hpos (by rw [hk]; decide) (by rw [hl, hk])
        rw [hv0] at hw; cases hw; omega
      obtain ⟨e1, e2⟩ := isegl hk
      have e2' : st.j < st.maxJ := by
        rcases e2 with e2 | e2
        · exact e2
        · exact absurd e2 hlay
      rw [(hf.segl hk).2 hlay, ← e1]
      exact pairOK_left S o r q _ _ _ e2'
  show st.emit.aln.all (pairOK S o r q) = true
  simp only [TB.emit, List.all_cons, hpair, hf.done, Bool.and_self]

/-- **Faithful pair scores, `SWAffine`**, the model of the code -/
theorem swAlign_faithful (S : Matrix) (o : Int) (hg : ∀ x, S x 0 ≤ 0 ∧ S 0 x ≤ 0) (r q : List Nat)
    (ps : List Pair) (h : swAlign S o r q = .ok ps) : faithful S o r q ps = true :=
  swAlignT_faithful true S o hg r q ps h

end Biogo.Proofs.SWFaith
