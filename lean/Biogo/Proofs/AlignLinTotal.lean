/-
The `Align` entry points of the model: inversion of a successful call to the core aligner,
totality (no panic), and errors for ill-typed inputs.
-/
import Biogo.Proofs.AlignLinCore

namespace Biogo.Proofs.AlignLin
open Biogo.Spec.Alignment Biogo.AlignLin Biogo.Spec.AlignPairs

/-- the scoring function an `Align` call uses -/
def callS (c : Call) : Matrix := matOf c.mat.flatten.toArray c.mat.length
def callR (c : Call) : List Nat := toIdx c.index c.r
def callQ (c : Call) : List Nat := toIdx c.index c.q

theorem callR_length (c : Call) : (callR c).length = c.r.length := by simp [callR, toIdx]
theorem callQ_length (c : Call) : (callQ c).length = c.q.length := by simp [callQ, toIdx]

def core (al : Aligner) (S : Matrix) (r q : List Nat) : Option (List Pair) :=
  match al with
  | .nw => nwCore S r q
  | .sw => swCore S r q
  | .fit => fitCore S r q

/-- all argument checks of `Align` / `alignType` pass -/
def Accepted (al : Aligner) (c : Call) : Prop :=
  c.refAlpha.isNone = false ∧ c.refAlpha = c.qryAlpha ∧ c.gapIndex = 0 ∧ c.refQ = c.qryQ ∧
  ¬ c.mat.length < c.alphaLen ∧ isSquare c.mat = true ∧ checkLetters al c.index c.r c.q = none

theorem align_of_accepted (al : Aligner) (c : Call) (h : Accepted al c) :
    align al c =
      match al with
      | .nw => (match nwCore (callS c) (callR c) (callQ c) with
        | some ps => .ok ps | none => .panic "align: nw internal error: no path")
      | .sw => (match swCore (callS c) (callR c) (callQ c) with
        | some ps => .ok ps | none => .panic "align: sw internal error: no path")
      | .fit => if (callQ c).isEmpty then .panic "index out of range [-1]"
        else (match fitCore (callS c) (callR c) (callQ c) with
        | some ps => .ok ps | none => .panic "align: fitted nw internal error: no path") := by
  obtain ⟨h1, h2, h3, h4, h5, h6, h7⟩ := h
  simp only [align]
  rw [if_neg (by simp [h1]), if_neg (by simp [h2]), if_neg (by simp [h3]), if_neg (by simp [h4])]
  simp only [alignType, h5, h6, h7, callS, callR, callQ]
  cases al <;> simp <;> rfl

theorem align_not_accepted (al : Aligner) (c : Call) (h : ¬ Accepted al c) : ∃ e, align al c = .error e := by
  simp only [align, alignType]
  by_cases h1 : c.refAlpha.isNone = true
  · exact ⟨_, by rw [if_pos h1]⟩
  · rw [if_neg h1]
    by_cases h2 : c.refAlpha ≠ c.qryAlpha
    · exact ⟨_, by rw [if_pos h2]⟩
    · rw [if_neg h2]
      by_cases h3 : c.gapIndex ≠ 0
      · exact ⟨_, by rw [if_pos h3]⟩
      · rw [if_neg h3]
        by_cases h4 : c.refQ ≠ c.qryQ
        · exact ⟨_, by rw [if_pos h4]⟩
        · rw [if_neg h4]
          by_cases h5 : c.mat.length < c.alphaLen
          · exact ⟨_, by rw [if_pos h5]⟩
          · rw [if_neg h5]
            by_cases h6 : isSquare c.mat = true
            · simp only [h6, Bool.not_true, Bool.false_eq_true, if_false]
              cases h7 : checkLetters al c.index c.r c.q with
              | some e => exact ⟨e, rfl⟩
              | none =>
                exfalso; apply h
                exact ⟨(Bool.not_eq_true _).mp h1, Decidable.not_not.mp h2, Decidable.not_not.mp h3, Decidable.not_not.mp h4, h5, h6, h7⟩
            · exact ⟨.notSquare, by simp [h6]⟩

/-- a successful call ran the core aligner on the index sequences -/
theorem align_ok_inv (al : Aligner) (c : Call) (ps : List Pair) (h : align al c = .ok ps) :
    Accepted al c ∧ core al (callS c) (callR c) (callQ c) = some ps := by
  by_cases ha : Accepted al c
  · refine ⟨ha, ?_⟩
    rw [align_of_accepted al c ha] at h
    cases al with
    | nw =>
      simp only [core]
      cases hc : nwCore (callS c) (callR c) (callQ c) with
      | none => simp [hc] at h
      | some ps' => simp only [hc, Res.ok.injEq] at h; rw [h]
    | sw =>
      simp only [core]
      cases hc : swCore (callS c) (callR c) (callQ c) with
      | none => simp [hc] at h
      | some ps' => simp only [hc, Res.ok.injEq] at h; rw [h]
    | fit =>
      simp only [core]
      by_cases he : (callQ c).isEmpty = true
      · simp [he] at h
      · simp only [he, Bool.false_eq_true, if_false] at h
        cases hc : fitCore (callS c) (callR c) (callQ c) with
        | none => simp [hc] at h
        | some ps' => simp only [hc, Res.ok.injEq] at h; rw [h]
  · obtain ⟨e, he⟩ := align_not_accepted al c ha
    rw [he] at h; simp at h

/-- no input makes NW or SW panic; Fitted panics only for an empty query -/
theorem align_no_panic (al : Aligner) (c : Call) (hq : al = .fit → c.q ≠ []) (msg : String) :
    align al c ≠ .panic msg := by
  by_cases ha : Accepted al c
  · rw [align_of_accepted al c ha]
    cases al with
    | nw => obtain ⟨ps, h, _⟩ := nwCore_spec (callS c) (callR c) (callQ c); simp [h]
    | sw => obtain ⟨ps, _, _, h, _⟩ := swCore_spec (callS c) (callR c) (callQ c); simp [h]
    | fit =>
      obtain ⟨ps, _, h, _⟩ := fitCore_spec (callS c) (callR c) (callQ c)
      have : (callQ c).isEmpty = false := by
        have := hq rfl
        cases hcq : c.q with
        | nil => exact absurd hcq this
        | cons a l => simp [callQ, toIdx, hcq]
      simp [h, this]
  · obtain ⟨e, he⟩ := align_not_accepted al c ha
    rw [he]; simp

/-! ### illegal letters are detected -/

theorem firstIllegal_none (index : UInt8 → Int) : ∀ (ls : List UInt8) (i : Nat),
    firstIllegal index ls i = none ↔ ∀ l ∈ ls, 0 ≤ index l := by
  intro ls
  induction ls with
  | nil => intro i; simp [firstIllegal]
  | cons l ls ih =>
    intro i
    simp only [firstIllegal, List.mem_cons, forall_eq_or_imp]
    by_cases h : index l < 0
    · rw [if_pos h]
      constructor
      · intro h'; simp at h'
      · intro h'; omega
    · rw [if_neg h, ih]
      constructor
      · intro h'; exact ⟨by omega, h'⟩
      · intro h'; exact h'.2

theorem checkInner_none (index : UInt8 → Int) (a : UInt8) (i : Nat) : ∀ (q : List UInt8) (j : Nat),
    q ≠ [] → (checkInner index a i q j = none ↔ (0 ≤ index a ∧ ∀ b ∈ q, 0 ≤ index b)) := by
  intro q
  induction q with
  | nil => intro j h; exact absurd rfl h
  | cons b q ih =>
    intro j _
    simp only [checkInner, List.mem_cons, forall_eq_or_imp]
    by_cases ha : index a < 0
    · rw [if_pos ha]
      constructor
      · intro h'; simp at h'
      · intro h'; omega
    · rw [if_neg ha]
      by_cases hb : index b < 0
      · rw [if_pos hb]
        constructor
        · intro h'; simp at h'
        · intro h'; omega
      · rw [if_neg hb]
        cases q with
        | nil =>
          simp only [checkInner, List.not_mem_nil, false_imp_iff, implies_true, and_true, true_iff]
          omega
        | cons b' q' =>
          rw [ih (j + 1) (by simp)]
          constructor
          · intro h'; exact ⟨h'.1, by omega, h'.2⟩
          · intro h'; exact ⟨h'.1, h'.2.2⟩

theorem checkOuter_none (index : UInt8 → Int) (q : List UInt8) (hq : q ≠ []) : ∀ (r : List UInt8) (i : Nat),
    r ≠ [] → (checkOuter index q r i = none ↔ ((∀ a ∈ r, 0 ≤ index a) ∧ ∀ b ∈ q, 0 ≤ index b)) := by
  intro r
  induction r with
  | nil => intro i h; exact absurd rfl h
  | cons a r ih =>
    intro i _
    simp only [checkOuter, List.mem_cons, forall_eq_or_imp]
    cases hin : checkInner index a i q 0 with
    | some e =>
      have := (not_congr (checkInner_none index a i q 0 hq)).mp (by simp [hin])
      constructor
      · intro h; simp at h
      · intro h; exact absurd ⟨h.1.1, h.2⟩ this
    | none =>
      obtain ⟨ha, hall⟩ := (checkInner_none index a i q 0 hq).mp hin
      cases r with
      | nil =>
        simp only [checkOuter, List.not_mem_nil, false_imp_iff, implies_true, and_true, true_iff]
        exact ⟨ha, hall⟩
      | cons a' r' =>
        rw [ih (i + 1) (by simp)]
        constructor
        · intro h'; exact ⟨⟨ha, h'.1⟩, h'.2⟩
        · intro h'; exact ⟨h'.1.2, h'.2⟩

/-- both sequences non-empty: the letter checks pass exactly when every letter is legal -/
theorem checkLetters_none (al : Aligner) (index : UInt8 → Int) (r q : List UInt8) (hr : r ≠ []) (hq : q ≠ []) :
    checkLetters al index r q = none ↔ ((∀ a ∈ r, 0 ≤ index a) ∧ ∀ b ∈ q, 0 ≤ index b) := by
  have ho := checkOuter_none index q hq r 0 hr
  cases al with
  | sw => simpa [checkLetters] using ho
  | nw =>
    simp only [checkLetters]
    cases h1 : firstIllegal index q 0 with
    | some j =>
      have := (not_congr (firstIllegal_none index q 0)).mp (by simp [h1])
      simp only [reduceCtorEq, false_iff]; intro h; exact this h.2
    | none =>
      cases h2 : firstIllegal index r 0 with
      | some j =>
        have := (not_congr (firstIllegal_none index r 0)).mp (by simp [h2])
        simp only [reduceCtorEq, false_iff]; intro h; exact this h.1
      | none => simpa using ho
  | fit =>
    simp only [checkLetters]
    cases h1 : firstIllegal index q 0 with
    | some j =>
      have := (not_congr (firstIllegal_none index q 0)).mp (by simp [h1])
      simp only [reduceCtorEq, false_iff]; intro h; exact this h.2
    | none => simpa using ho

end Biogo.Proofs.AlignLin
