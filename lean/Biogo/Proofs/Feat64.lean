/-
Helper lemmas for the `Int64` model of `feat.OneToZero` / `feat.ZeroToOne` (C20): the bit-exact
functions seen through `Int64.toInt` are the unbounded ones, except for `ZeroToOne` at
`math.MaxInt64`.  Core-only.
-/
import Biogo.Model.Feat

namespace Biogo.Proofs.Feat64
open Biogo.Feat

theorem toInt_zero64 : (0 : Int64).toInt = 0 := by decide
theorem toInt_one64 : (1 : Int64).toInt = 1 := by decide

theorem bmod64 (n : Int) (h1 : -2 ^ 63 ≤ n) (h2 : n < 2 ^ 63) : n.bmod (2 ^ 64) = n := by
  apply Int.bmod_eq_of_le <;> omega

theorem eq_zero_iff64 (p : Int64) : p = 0 ↔ p.toInt = 0 := by
  rw [← toInt_zero64]; exact Int64.toInt_inj.symm

theorem pos_iff64 (p : Int64) : p > 0 ↔ p.toInt > 0 := by
  show 0 < p ↔ _
  rw [Int64.lt_iff_toInt_lt, toInt_zero64]

theorem nonneg_iff64 (p : Int64) : p ≥ 0 ↔ p.toInt ≥ 0 := by
  show 0 ≤ p ↔ _
  rw [Int64.le_iff_toInt_le, toInt_zero64]

theorem ne_max_iff64 (p : Int64) : p ≠ Int64.maxValue ↔ p.toInt ≠ 2 ^ 63 - 1 := by
  rw [← Int64.toInt_maxValue]
  exact not_congr Int64.toInt_inj.symm

/-- `ZeroToOne` over `Int64` is `ZeroToOne` over the integers, except at `MaxInt64` -/
theorem toInt_zeroToOne64 (p : Int64) (hp : p ≠ Int64.maxValue) :
    (zeroToOne64 p).toInt = zeroToOne p.toInt := by
  have h1 := Int64.le_toInt p
  have h2 := Int64.toInt_lt p
  have hne := (ne_max_iff64 p).mp hp
  unfold zeroToOne64 zeroToOne
  by_cases h : p ≥ 0
  · have h' := (nonneg_iff64 p).mp h
    simp only [h, h', if_true]
    rw [Int64.toInt_add, toInt_one64, bmod64] <;> omega
  · have h' : ¬ p.toInt ≥ 0 := fun x => h ((nonneg_iff64 p).mpr x)
    simp only [h, h', if_false]

/-- `OneToZero` over `Int64` is `OneToZero` over the integers, everywhere (it never overflows) -/
theorem toInt_oneToZero64 (p : Int64) :
    (oneToZero64 p).map Int64.toInt = oneToZero p.toInt := by
  have h1 := Int64.le_toInt p
  have h2 := Int64.toInt_lt p
  unfold oneToZero64 oneToZero
  by_cases h0 : p = 0
  · simp only [h0, if_true]; rfl
  · have h0' : ¬ p.toInt = 0 := fun x => h0 ((eq_zero_iff64 p).mpr x)
    simp only [h0, h0', if_false]
    by_cases h : p > 0
    · have h' := (pos_iff64 p).mp h
      simp only [h, h', if_true, Except.map]
      rw [Int64.toInt_sub, toInt_one64, bmod64] <;> omega
    · have h' : ¬ p.toInt > 0 := fun x => h ((pos_iff64 p).mpr x)
      simp only [h, h', if_false, Except.map]

/-- an `Except` over `Int64` is determined by its image under `toInt` -/
theorem except_toInt_ok {x : Except Panic Int64} {p : Int64}
    (h : x.map Int64.toInt = .ok p.toInt) : x = .ok p := by
  cases x with
  | error e => simp [Except.map] at h
  | ok r =>
    simp only [Except.map, Except.ok.injEq] at h
    rw [Int64.toInt_inj.mp h]

end Biogo.Proofs.Feat64
