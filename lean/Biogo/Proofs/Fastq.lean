/-
Proofs about the FASTQ model: decode ∘ encode on the printable range of the Phred-offset
encodings, one `Read` call on a four-line record, reading a laid-out file, the writer.
Core Lean only.
-/
import Biogo.Proofs.Fasta
import Biogo.Model.Fastq

namespace Biogo.Fastq
open Biogo.Go.Bytes Biogo.Spec.Seqio
open Biogo.Fasta (LinesRel EndsVisible rel_trim padded_trim padded_stripCR endsVisible_nil endsVisible_of_all
  nameOK_iff descOK_iff headerLine_endsVisible headerLine_nolf terminated_splitLines)

/-! ### quality encodings -/

/-- inside the printable range, decoding what was encoded gives the score back, and the
    encoded byte is a visible ASCII byte -/
theorem decode_encode (tabs : QTables) (e : Encoding) (lo hi off : UInt8)
    (hr : phredRange e = some (lo, hi, off)) (q : UInt8) (h1 : lo ≤ q) (h2 : q ≤ hi) :
    decode tabs e (encode tabs e q) = q ∧ visible (encode tabs e q) = true := by
  have key : ∀ n : Nat, n < 256 →
      (∀ e' ∈ [Encoding.sanger, .illumina1_8, .illumina1_9], UInt8.ofNat n ≤ 93 →
        (decode tabs e' (encode tabs e' (UInt8.ofNat n)) = UInt8.ofNat n ∧ visible (encode tabs e' (UInt8.ofNat n)) = true)) ∧
      (UInt8.ofNat n ≤ 62 →
        (decode tabs .illumina1_3 (encode tabs .illumina1_3 (UInt8.ofNat n)) = UInt8.ofNat n ∧
          visible (encode tabs .illumina1_3 (UInt8.ofNat n)) = true)) ∧
      (2 ≤ UInt8.ofNat n → UInt8.ofNat n ≤ 62 →
        (decode tabs .illumina1_5 (encode tabs .illumina1_5 (UInt8.ofNat n)) = UInt8.ofNat n ∧
          visible (encode tabs .illumina1_5 (UInt8.ofNat n)) = true)) := by
    simp only [encode, decode, List.mem_cons, List.mem_nil_iff, or_false, forall_eq_or_imp, forall_eq]
    decide +kernel
  have hq := key q.toNat q.toNat_lt
  simp only [UInt8.ofNat_toNat] at hq
  cases e <;> simp [phredRange] at hr
  · obtain ⟨rfl, rfl, rfl⟩ := hr; exact hq.1 .sanger (by simp) h2
  · obtain ⟨rfl, rfl, rfl⟩ := hr; exact hq.2.1 h2
  · obtain ⟨rfl, rfl, rfl⟩ := hr; exact hq.2.2 h1 h2
  · obtain ⟨rfl, rfl, rfl⟩ := hr; exact hq.1 .illumina1_8 (by simp) h2
  · obtain ⟨rfl, rfl, rfl⟩ := hr; exact hq.1 .illumina1_9 (by simp) h2

/-! ### the header parser on a well-formed header line -/

def hdrRec (n d : Bytes) : QRec := { name := n, desc := d, letters := [], quals := [] }

theorem readHeader_headerLine (pfx : UInt8) (hp : visible pfx = true) {n d : Bytes}
    (hn : nameOK n = true) (hd : descOK d = true) :
    readHeader (headerLine pfx n d) = .ok (hdrRec n d, none) := by
  rw [nameOK_iff] at hn
  have hvis : ∀ b ∈ pfx :: n, visible b = true := by
    intro b hb
    rcases List.mem_cons.mp hb with rfl | hb
    · exact hp
    · exact hn b hb
  unfold readHeader headerLine
  by_cases hde : d.isEmpty = true
  · have hd0 : d = [] := by simpa using hde
    subst hd0
    simp only [List.isEmpty_nil, if_true, List.append_nil]
    rw [indexAnySpTab_visible_nil _ hvis]
    simp [sliceFrom, hdrRec, bind, Except.bind, pure, Except.pure]
  · simp only [hde, Bool.false_eq_true, if_false]
    have e : indexAnySpTab ((pfx :: n) ++ 32 :: d) = some (n.length + 1) := by
      rw [indexAnySpTab_visible _ hvis]
      simp [indexAnySpTab, List.findIdx?_cons]
    rw [show pfx :: n ++ 32 :: d = (pfx :: n) ++ 32 :: d by simp] at *
    rw [e]
    simp [slice, sliceFrom, hdrRec]
    rfl

theorem maybeID1_headerLine (n d : Bytes) : maybeID1 (headerLine 64 n d) = true := by
  simp [maybeID1, headerLine]

theorem maybeID2_headerLine (n d : Bytes) : maybeID2 (headerLine 43 n d) = true := by
  simp [maybeID2, headerLine]

theorem sameLabel_headerLine (n d : Bytes) :
    sameLabel (headerLine 64 n d) (headerLine 43 n d) = .ok true := by
  simp [sameLabel, sliceFrom, headerLine, bind, Except.bind, pure, Except.pure]

/-! ### the loop of `Read`, line by line -/

/-- state after the header line of `r` -/
def stL (n d : Bytes) : LoopSt :=
  { state := .letters, t := some (hdrRec n d), label := headerLine 64 n d, seqBuff := [], err := none }
/-- state after the letters line -/
def stI (n d ls : Bytes) : LoopSt := { stL n d with state := .id2, seqBuff := ls }
/-- state after the `+` line -/
def stQ (n d ls : Bytes) : LoopSt := { stL n d with state := .quality, seqBuff := ls }

theorem loop_blank_id1 (cfg : Cfg) (pend raw : Bytes) (rest : List Bytes) (h : trimSpace raw = []) :
    loop cfg pend {} (raw :: rest) = loop cfg pend {} rest := by
  conv => lhs; unfold loop
  simp [h, maybeID1]

theorem loop_header (cfg : Cfg) (pend h : Bytes) (rest : List Bytes) {n d : Bytes}
    (ht : trimSpace h = headerLine 64 n d) (hn : nameOK n = true) (hd : descOK d = true) :
    loop cfg pend {} (h :: rest) = loop cfg pend (stL n d) rest := by
  conv => lhs; unfold loop
  simp only [ht, maybeID1_headerLine, readHeader_headerLine 64 (by decide) hn hd]
  rfl

def QLettersOK (l : Bytes) : Prop := (∀ b ∈ l, visible b = true) ∧ l.head? ≠ some 43

theorem fastqLettersOK_iff {l : Bytes} : fastqLettersOK l = true ↔ QLettersOK l := by
  simp [fastqLettersOK, QLettersOK]

theorem filter_isSpace_visible (l : Bytes) (h : ∀ b ∈ l, visible b = true) :
    l.filter (fun b => !isSpace b) = l := by
  apply List.filter_eq_self.mpr
  intro b hb
  have := (visible_iff b).mp (h b hb)
  simp [isSpace, ← UInt8.toNat_inj]
  omega

theorem loop_letters (cfg : Cfg) (pend s : Bytes) (rest : List Bytes) (n d ls : Bytes)
    (ht : trimSpace s = ls) (hok : QLettersOK ls) (hne : ls ≠ []) :
    loop cfg pend (stL n d) (s :: rest) = loop cfg pend (stI n d ls) rest := by
  have hm : maybeID2 ls = false := by
    cases ls with
    | nil => rfl
    | cons a t =>
      have : a ≠ 43 := fun e => hok.2 (by simp [e])
      unfold maybeID2
      split
      · rename_i heq; simp at heq; exact absurd heq.1 this
      · rfl
  have hlen : (ls.length > 0) := by cases ls <;> simp_all
  conv => lhs; unfold loop
  simp [ht, stL, hm, hlen, maybeID1, filter_isSpace_visible ls hok.1, stI, bind, Except.bind, pure, Except.pure]

theorem loop_letters_blank (cfg : Cfg) (pend s : Bytes) (rest : List Bytes) (n d : Bytes)
    (ht : trimSpace s = []) :
    loop cfg pend (stL n d) (s :: rest) = loop cfg pend (stL n d) rest := by
  conv => lhs; unfold loop
  simp [ht, stL, maybeID1]

/-- the content of a `+` line: `+` alone, or `+` and the header repeated -/
def PlusOK (n d line : Bytes) : Prop := line = [43] ∨ line = headerLine 43 n d

theorem plus_check (n d line : Bytes) (h : PlusOK n d line) :
    (if line.length != 1 then sameLabel (headerLine 64 n d) line else pure true) = .ok true := by
  rcases h with rfl | rfl
  · rfl
  · split
    · exact sameLabel_headerLine n d
    · rfl

theorem plus_maybeID2 (n d line : Bytes) (h : PlusOK n d line) : maybeID2 line = true := by
  rcases h with rfl | rfl
  · rfl
  · exact maybeID2_headerLine n d

theorem loop_plus_id2 (cfg : Cfg) (pend p : Bytes) (rest : List Bytes) (n d ls : Bytes)
    (ht : PlusOK n d (trimSpace p)) :
    loop cfg pend (stI n d ls) (p :: rest) = loop cfg pend (stQ n d ls) rest := by
  have h1 := plus_check n d _ ht
  have h2 := plus_maybeID2 n d _ ht
  conv => lhs; unfold loop
  simp only [stI, stL, h2]
  simp only [show (State.id2 == State.id1) = false from rfl, Bool.false_and, Bool.false_eq_true, if_false,
    show (State.id2 == State.id2) = true from rfl, Bool.true_and, if_true, h1, bind, Except.bind]
  simp [headerLine, stQ, stL]

theorem loop_plus_letters (cfg : Cfg) (pend p : Bytes) (rest : List Bytes) (n d : Bytes)
    (ht : PlusOK n d (trimSpace p)) :
    loop cfg pend (stL n d) (p :: rest) = loop cfg pend (stQ n d []) rest := by
  have h2 := plus_maybeID2 n d _ ht
  have hlen : (trimSpace p).length > 0 := by
    rcases ht with e | e <;> rw [e] <;> simp [headerLine]
  have h1 : (if (trimSpace p).length == 1 then (pure true : Except Panic Bool)
      else sameLabel (headerLine 64 n d) (trimSpace p)) = .ok true := by
    rcases ht with e | e
    · rw [e]; rfl
    · rw [e]; split
      · rfl
      · exact sameLabel_headerLine n d
  conv => lhs; unfold loop
  simp only [stL, h2]
  simp only [show (State.letters == State.id1) = false from rfl, Bool.false_and, Bool.false_eq_true, if_false,
    show (State.letters == State.id2) = false from rfl,
    show (State.letters == State.letters) = true from rfl, Bool.true_and, hlen, decide_true, if_true, h1,
    bind, Except.bind]
  simp [stQ, stL]

/-- the record a `Read` call builds from header `n d`, letters `ls` and quality line `ql` -/
def built (cfg : Cfg) (n d ls ql : Bytes) : QRec :=
  appendQLetters cfg.tmpl (hdrRec n d) ls (ql.map (decode cfg.tabs cfg.tmpl.enc))

theorem finish_ok (cfg : Cfg) (n d ls ql line : Bytes) (rest : List Bytes × Bytes)
    (hl : removeSpaces line = ql) (hlen : ql.length = ls.length) :
    finish cfg (stQ n d ls) line rest = .ok (⟨some (built cfg n d ls ql), none⟩, rest) := by
  simp [finish, hl, hlen, stQ, stL, built, pure, Except.pure]

theorem loop_quality (cfg : Cfg) (pend q : Bytes) (rest : List Bytes) (n d ls ql : Bytes)
    (ht : trimSpace q = ql) (hvis : ∀ b ∈ ql, visible b = true) (hlen : ql.length = ls.length) :
    loop cfg pend (stQ n d ls) (q :: rest) = .ok (⟨some (built cfg n d ls ql), none⟩, rest, pend) := by
  have hcont : ((trimSpace q).length == 0 && (stQ n d ls).seqBuff.length != 0) = false := by
    rw [ht, hlen]; simp [stQ, stL]
  conv => lhs; unfold loop
  simp only [stQ, stL] at hcont ⊢
  simp only [show (State.quality == State.id1) = false from rfl, Bool.false_and, Bool.false_eq_true, if_false,
    show (State.quality == State.id2) = false from rfl, show (State.quality == State.letters) = false from rfl,
    show (State.quality == State.quality) = true from rfl, if_true, hcont]
  have := finish_ok cfg n d ls ql (trimSpace q) (rest, pend) (by rw [ht]; exact removeSpaces_visible ql hvis) hlen
  simpa [stQ, stL] using this

theorem loop_eof_quality (cfg : Cfg) (pend : Bytes) (n d ls ql : Bytes)
    (hl : removeSpaces pend = ql) (hlen : ql.length = ls.length) :
    loop cfg pend (stQ n d ls) [] = .ok (⟨some (built cfg n d ls ql), none⟩, [], []) := by
  conv => lhs; unfold loop
  have := finish_ok cfg n d ls ql pend ([], []) hl hlen
  simpa [stQ, stL] using this

theorem loop_eof_id1 (cfg : Cfg) (pend : Bytes) : loop cfg pend {} [] = .ok (⟨none, some .eof⟩, [], []) := by
  simp [loop, pure, Except.pure]

/-! ### the reader-level view of a laid-out file -/

/-- the facts about one record and its quality line that the reader relies on -/
structure RecOK (ql : QRec → Bytes) (r : QRec) : Prop where
  name : nameOK r.name = true
  desc : descOK r.desc = true
  letters : QLettersOK r.letters
  qvis : ∀ b ∈ ql r, visible b = true
  qlen : (ql r).length = r.letters.length

/-- Four lines per record as the reader meets them (after `ReadLine` and `TrimSpace`); the
    quality line of the last record may be what is pending at `io.EOF` (`pend`; also the empty
    quality line that vanished together with the final newline). -/
inductive QLT (ql : QRec → Bytes) : List QRec → List Bytes → Bytes → Prop
  | nil (pend : Bytes) : QLT ql [] [] pend
  | blank (raw : Bytes) (recs : List QRec) (lines : List Bytes) (pend : Bytes) :
      trimSpace raw = [] → QLT ql recs lines pend → QLT ql recs (raw :: lines) pend
  | record (r : QRec) (h s p q : Bytes) (rs : List QRec) (rest : List Bytes) (pend : Bytes) :
      RecOK ql r → trimSpace h = headerLine 64 r.name r.desc → trimSpace s = r.letters →
      PlusOK r.name r.desc (trimSpace p) → trimSpace q = ql r →
      QLT ql rs rest pend → QLT ql (r :: rs) (h :: s :: p :: q :: rest) pend
  | lastPending (r : QRec) (h s p pend : Bytes) :
      RecOK ql r → trimSpace h = headerLine 64 r.name r.desc → trimSpace s = r.letters →
      PlusOK r.name r.desc (trimSpace p) → removeSpaces pend = ql r →
      QLT ql [r] [h, s, p] pend

def retOK (r : QRec) : Call := .ret ⟨some r, none⟩
def retEOF : Call := .ret ⟨none, some .eof⟩

/-- one `Read` call on the first three lines of a record leaves the loop in state `quality` -/
theorem loop_three (cfg : Cfg) (pend : Bytes) (r : QRec) (h s p : Bytes) (rest : List Bytes) (ql : QRec → Bytes)
    (ok : RecOK ql r) (th : trimSpace h = headerLine 64 r.name r.desc) (ts : trimSpace s = r.letters)
    (tp : PlusOK r.name r.desc (trimSpace p)) :
    loop cfg pend {} (h :: s :: p :: rest) = loop cfg pend (stQ r.name r.desc r.letters) rest := by
  rw [loop_header cfg pend h _ th ok.name ok.desc]
  by_cases hl : r.letters = []
  · rw [hl] at ts ⊢
    rw [loop_letters_blank cfg pend s _ _ _ ts, loop_plus_letters cfg pend p _ _ _ tp]
  · rw [loop_letters cfg pend s _ _ _ _ ts ok.letters hl, loop_plus_id2 cfg pend p _ _ _ _ tp]

theorem read_record (cfg : Cfg) (pend : Bytes) (r : QRec) (h s p q : Bytes) (rest : List Bytes) (ql : QRec → Bytes)
    (ok : RecOK ql r) (th : trimSpace h = headerLine 64 r.name r.desc) (ts : trimSpace s = r.letters)
    (tp : PlusOK r.name r.desc (trimSpace p)) (tq : trimSpace q = ql r) :
    read cfg (h :: s :: p :: q :: rest) pend
      = .ok (⟨some (built cfg r.name r.desc r.letters (ql r)), none⟩, rest, pend) := by
  unfold read
  rw [loop_three cfg pend r h s p _ ql ok th ts tp]
  exact loop_quality cfg pend q rest _ _ _ _ tq ok.qvis ok.qlen

theorem read_lastPending (cfg : Cfg) (pend : Bytes) (r : QRec) (h s p : Bytes) (ql : QRec → Bytes)
    (ok : RecOK ql r) (th : trimSpace h = headerLine 64 r.name r.desc) (ts : trimSpace s = r.letters)
    (tp : PlusOK r.name r.desc (trimSpace p)) (tq : removeSpaces pend = ql r) :
    read cfg [h, s, p] pend = .ok (⟨some (built cfg r.name r.desc r.letters (ql r)), none⟩, [], []) := by
  unfold read
  rw [loop_three cfg pend r h s p _ ql ok th ts tp]
  exact loop_eof_quality cfg pend _ _ _ _ tq ok.qlen

theorem readAllAux_congr (cfg : Cfg) (fuel : Nat) (lines lines' : List Bytes) (pend pend' : Bytes)
    (h : read cfg lines pend = read cfg lines' pend') :
    readAllAux cfg fuel lines pend = readAllAux cfg fuel lines' pend' := by
  cases fuel with
  | zero => rfl
  | succ n => simp only [readAllAux, h]

/-- reading a laid-out file: the records in order, then `io.EOF` -/
theorem qlt_read (cfg : Cfg) {ql : QRec → Bytes} {recs : List QRec} {lines : List Bytes} {pend : Bytes}
    (h : QLT ql recs lines pend) : ∀ fuel : Nat, recs.length + 1 ≤ fuel →
      readAllAux cfg fuel lines pend
        = recs.map (fun r => retOK (built cfg r.name r.desc r.letters (ql r))) ++ [retEOF] := by
  induction h with
  | nil pend =>
    intro fuel hf
    obtain ⟨f, rfl⟩ : ∃ f, fuel = f + 1 := ⟨fuel - 1, by simp at hf; omega⟩
    simp [readAllAux, read, loop_eof_id1, retEOF]
  | blank raw recs lines pend ht _ ih =>
    intro fuel hf
    rw [readAllAux_congr cfg fuel (raw :: lines) lines pend pend (by unfold read; exact loop_blank_id1 cfg pend raw lines ht)]
    exact ih fuel hf
  | record r h s p q rs rest pend ok th ts tp tq _ ih =>
    intro fuel hf
    obtain ⟨f, rfl⟩ : ∃ f, fuel = f + 1 := ⟨fuel - 1, by simp at hf; omega⟩
    simp only [readAllAux, read_record cfg pend r h s p q rest ql ok th ts tp tq]
    simp [retOK, ih f (by simp at hf ⊢; omega)]
  | lastPending r h s p pend ok th ts tp tq =>
    intro fuel hf
    obtain ⟨f, rfl⟩ : ∃ f, fuel = f + 2 := ⟨fuel - 2, by simp at hf; omega⟩
    simp only [readAllAux, read_lastPending cfg pend r h s p ql ok th ts tp tq]
    simp [retOK, retEOF, read, loop_eof_id1]

theorem qlt_length {ql : QRec → Bytes} {recs : List QRec} {lines : List Bytes} {pend : Bytes}
    (h : QLT ql recs lines pend) : recs.length ≤ lines.length := by
  induction h with
  | nil => simp
  | blank _ _ _ _ _ _ ih => simp; omega
  | record _ _ _ _ _ _ _ _ _ _ _ _ _ _ ih => simp; omega
  | lastPending => simp

/-! ### from the layout relation of the specification to the reader-level view -/

theorem endsVisible_plus : EndsVisible [43] := endsVisible_of_all (by decide)

theorem plus_trim {n d p p' : Bytes} (hn : nameOK n = true) (hd : descOK d = true)
    (hp : Padded [43] p ∨ Padded (headerLine 43 n d) p) (hr : p' = p ∨ p' = Biogo.Go.Bytes.stripCR p) :
    PlusOK n d (trimSpace p') := by
  rcases hp with hp | hp
  · exact .inl (rel_trim endsVisible_plus hp hr)
  · exact .inr (rel_trim (headerLine_endsVisible 43 (by decide) hn hd) hp hr)

theorem padded_removeSpaces {c l l' : Bytes} (hc : ∀ b ∈ c, visible b = true) (hp : Padded c l)
    (hr : l' = l ∨ l' = Biogo.Go.Bytes.stripCR l) : removeSpaces l' = c := by
  have hp' : Padded c l' := by
    rcases hr with rfl | rfl
    · exact hp
    · exact padded_stripCR (endsVisible_of_all hc) hp
  obtain ⟨post, rfl, hpost⟩ := hp'
  exact removeSpaces_padded c post hc (fun b hb => isBlank_space (hpost b hb))

theorem fastqLines_nil {ql : QRec → Bytes} {recs : List QRec} (h : FastqLines ql recs []) : recs = [] := by
  cases h; rfl

theorem linesRel_nil_left {ls' : List Bytes} (h : LinesRel [] ls') : ls' = [] := by cases h; rfl
theorem linesRel_nil_right {ls : List Bytes} (h : LinesRel ls []) : ls = [] := by cases h; rfl

theorem linesRel_concat {a a' : List Bytes} (h : LinesRel a a') (x : Bytes) : LinesRel (a ++ [x]) (a' ++ [x]) := by
  induction h with
  | nil => exact .cons _ _ _ _ (.inl rfl) .nil
  | cons l l' ls ls' hr _ ih => exact .cons l l' _ _ hr ih

theorem fastqLines_qlt {ql : QRec → Bytes} {recs : List QRec} {lines : List Bytes}
    (h : FastqLines ql recs lines) (hok : ∀ r ∈ recs, RecOK ql r) :
    ∀ lines', LinesRel lines lines' → ∀ pend, QLT ql recs lines' pend := by
  induction h with
  | nil => intro lines' h pend; cases h; exact .nil pend
  | blank raw recs lines hp _ ih =>
    intro lines' h pend
    cases h with
    | cons _ raw' _ ls' hr hrest =>
      exact .blank raw' recs ls' pend (rel_trim endsVisible_nil hp hr) (ih hok ls' hrest pend)
  | record r h s p q rs rest hh hs hp hq _ ih =>
    intro lines' hl pend
    cases hl with
    | cons _ h' _ t1 rh hl =>
    cases hl with
    | cons _ s' _ t2 rs' hl =>
    cases hl with
    | cons _ p' _ t3 rp hl =>
    cases hl with
    | cons _ q' _ t4 rq hl =>
      have ok := hok r (by simp)
      exact .record r h' s' p' q' rs t4 pend ok
        (rel_trim (headerLine_endsVisible 64 (by decide) ok.name ok.desc) hh rh)
        (rel_trim (endsVisible_of_all ok.letters.1) hs rs')
        (plus_trim ok.name ok.desc hp rp)
        (rel_trim (endsVisible_of_all ok.qvis) hq rq)
        (ih (fun r' hr' => hok r' (by simp [hr'])) t4 hl pend)

/-- the same, when the last line the reader would see is set apart (it is what is pending
    at `io.EOF`, or the empty line after a final LF) -/
theorem fastqLines_qlt_last {ql : QRec → Bytes} {recs : List QRec} {lines : List Bytes}
    (h : FastqLines ql recs lines) (hok : ∀ r ∈ recs, RecOK ql r) :
    ∀ lines', LinesRel lines lines' → ∀ init' l, lines' = init' ++ [l] → QLT ql recs init' l := by
  induction h with
  | nil => intro lines' h init' l e; cases h; simp at e
  | blank raw recs lines hp hrest ih =>
    intro lines' h init' l e
    cases h with
    | cons _ raw' _ ls' hr hrel =>
      cases init' with
      | nil =>
        simp at e
        obtain ⟨rfl, rfl⟩ := e
        have := linesRel_nil_right hrel
        subst this
        have := fastqLines_nil hrest
        subst this
        exact .nil _
      | cons a init0 =>
        simp at e
        obtain ⟨rfl, rfl⟩ := e
        exact .blank _ recs init0 l (rel_trim endsVisible_nil hp hr) (ih hok _ hrel init0 l rfl)
  | record r h s p q rs rest hh hs hp hq hrest ih =>
    intro lines' hl init' l e
    cases hl with
    | cons _ h' _ t1 rh hl =>
    cases hl with
    | cons _ s' _ t2 rs' hl =>
    cases hl with
    | cons _ p' _ t3 rp hl =>
    cases hl with
    | cons _ q' _ t4 rq hl =>
      have ok := hok r (by simp)
      have th := rel_trim (headerLine_endsVisible 64 (by decide) ok.name ok.desc) hh rh
      have ts := rel_trim (endsVisible_of_all ok.letters.1) hs rs'
      have tp := plus_trim ok.name ok.desc hp rp
      rcases List.eq_nil_or_concat t4 with e4 | ⟨L, b, e4⟩
      · subst e4
        have := linesRel_nil_right hl
        subst this
        have := fastqLines_nil hrest
        subst this
        have e' : init' ++ [l] = [h', s', p'] ++ [q'] := by simpa using e.symm
        obtain ⟨rfl, e2⟩ := List.append_inj' e' rfl
        simp at e2
        subst e2
        exact .lastPending r h' s' p' l ok th ts tp (padded_removeSpaces ok.qvis hq rq)
      · rw [List.concat_eq_append] at e4
        subst e4
        have e' : init' ++ [l] = (h' :: s' :: p' :: q' :: L) ++ [b] := by simpa using e.symm
        obtain ⟨rfl, e2⟩ := List.append_inj' e' rfl
        simp at e2
        subst e2
        exact .record r h' s' p' q' rs L l ok th ts tp (rel_trim (endsVisible_of_all ok.qvis) hq rq)
          (ih (fun r' hr' => hok r' (by simp [hr'])) _ hl L l rfl)

/-! ### reading any layout -/

theorem eq_dropLast_append {α : Type} (L : List α) (l : α) (h : L.getLast? = some l) : L = L.dropLast ++ [l] := by
  obtain ⟨ys, rfl⟩ := List.getLast?_eq_some_iff.mp h
  simp

theorem readLineInput_cases (e : Bool) (bs : Bytes) :
    readLineInput e bs = (splitLines bs, []) ∨
    (∃ l, splitLines bs = (splitLines bs).dropLast ++ [l] ∧ bs.getLast? ≠ some 10 ∧
      readLineInput e bs = ((splitLines bs).dropLast, l)) := by
  unfold readLineInput
  simp only []
  cases e with
  | true => exact .inl rfl
  | false =>
    simp only [Bool.false_eq_true, if_false]
    cases hb : bs.getLast? with
    | none => exact .inl rfl
    | some b =>
      cases hl : (splitLines bs).getLast? with
      | none => exact .inl rfl
      | some l =>
        simp only []
        by_cases hc : (b != 10 && endsPending l) = true
        · simp only [hc, if_true]
          refine .inr ⟨l, ?_, ?_, rfl⟩
          · exact eq_dropLast_append _ l hl
          · simp only [Bool.and_eq_true, bne_iff_ne, ne_eq] at hc
            intro h; simp at h; exact hc.1 h
        · simp only [hc]; exact .inl rfl

theorem padded_nolf {c raw : Bytes} (hc : ∀ b ∈ c, b ≠ 10) (h : Padded c raw) : ∀ b ∈ raw, b ≠ 10 := by
  obtain ⟨post, rfl, hp⟩ := h
  intro b hb
  rcases List.mem_append.mp hb with hb | hb
  · exact hc b hb
  · exact isBlank_ne_lf (hp b hb)

theorem fastqLines_nolf {ql : QRec → Bytes} {recs : List QRec} {lines : List Bytes}
    (h : FastqLines ql recs lines) (hok : ∀ r ∈ recs, RecOK ql r) : ∀ l ∈ lines, ∀ b ∈ l, b ≠ 10 := by
  induction h with
  | nil => simp
  | blank raw recs lines hp _ ih =>
    intro l hl
    rcases List.mem_cons.mp hl with rfl | hl
    · exact padded_nolf (by simp) hp
    · exact ih hok l hl
  | record r h s p q rs rest hh hs hp hq _ ih =>
    have ok := hok r (by simp)
    intro l hl
    simp only [List.mem_cons] at hl
    rcases hl with rfl | rfl | rfl | rfl | hl
    · exact padded_nolf (headerLine_nolf 64 (by decide) ok.name ok.desc) hh
    · exact padded_nolf (fun b hb => visible_ne_lf (ok.letters.1 b hb)) hs
    · rcases hp with hp | hp
      · exact padded_nolf (by decide) hp
      · exact padded_nolf (headerLine_nolf 43 (by decide) ok.name ok.desc) hp
    · exact padded_nolf (fun b hb => visible_ne_lf (ok.qvis b hb)) hq
    · exact ih (fun r' hr' => hok r' (by simp [hr'])) l hl

theorem getLast?_joinLF (lines : List Bytes) : (joinLF lines).getLast? = none ∨ (joinLF lines).getLast? = some 10 := by
  rcases List.eq_nil_or_concat lines with rfl | ⟨L, b, rfl⟩
  · left; simp [joinLF]
  · right
    rw [List.concat_eq_append, Biogo.Fasta.joinLF_append]
    simp [joinLF, List.getLast?_append]

/-- Reading any layout of records whose parts are well formed returns, call by call, the
    record built from each header, letters and quality line, then `io.EOF` — whatever the
    `io.Reader` does at the end of the input. -/
theorem renders_read (cfg : Cfg) (eofWithData : Bool) (ql : QRec → Bytes) (recs : List QRec) (bs : Bytes)
    (hok : ∀ r ∈ recs, RecOK ql r) (h : FastqRenders ql recs bs) :
    readAll cfg eofWithData bs
      = recs.map (fun r => retOK (built cfg r.name r.desc r.letters (ql r))) ++ [retEOF] := by
  unfold readAll
  rcases h with ⟨lines, hl, ht⟩ | ⟨lines, hl, rfl⟩
  · have hrel := terminated_splitLines ht
    rcases readLineInput_cases eofWithData bs with e | ⟨l, e1, _, e2⟩
    · rw [e]
      have hq := fastqLines_qlt hl hok _ hrel []
      have := qlt_length hq
      exact qlt_read cfg hq _ (by simp [lineCount]; omega)
    · rw [e2]
      have hq := fastqLines_qlt_last hl hok _ hrel _ l e1
      have := qlt_length hq
      have : (splitLines bs).dropLast.length ≤ (splitLines bs).length := by simp
      exact qlt_read cfg hq _ (by simp [lineCount] at *; omega)
  · have hnolf : ∀ l ∈ lines, ∀ b ∈ l, b ≠ 10 :=
      fun l hl' => fastqLines_nolf hl hok l (by simp [hl'])
    have hrel := terminated_splitLines (Biogo.Fasta.terminated_joinLF lines hnolf)
    have hq := fastqLines_qlt_last hl hok _ (linesRel_concat hrel []) _ [] rfl
    have hlen := qlt_length hq
    rcases readLineInput_cases eofWithData (joinLF lines) with e | ⟨l, _, e1, _⟩
    · rw [e]
      exact qlt_read cfg hq _ (by show recs.length + 1 ≤ (splitLines (joinLF lines)).length + 1; omega)
    · rcases getLast?_joinLF lines with g | g
      · have : joinLF lines = [] := List.getLast?_eq_none_iff.mp g
        rw [this] at hq ⊢
        simp [readLineInput, splitLines_nil] at hq ⊢
        have h0 := qlt_length hq
        exact qlt_read cfg hq _ (by simp [lineCount, splitLines_nil] at h0 ⊢; omega)
      · exact absurd g e1

/-! ### the writer -/

open Biogo.Fasta (bytes_write joinLF_cons joinLF_append terminated_joinLF)

@[simp] theorem write_fst_bytes (s : Sink) (p : Bytes) : (s.write p).1.bytes = s.bytes ++ p := bytes_write s p
@[simp] theorem write_snd (s : Sink) (p : Bytes) : (s.write p).2 = p.length := rfl

theorem writeHeader_spec (sink : Sink) (pfx : UInt8) (r : QRec) :
    (writeHeader sink pfx r).1.bytes = sink.bytes ++ (headerLine pfx r.name r.desc ++ [10]) ∧
    (writeHeader sink pfx r).2 = (headerLine pfx r.name r.desc ++ [10]).length := by
  unfold writeHeader headerLine
  cases hd : r.desc with
  | nil => simp [Sink.write, Sink.bytes]; omega
  | cons a t => simp [Sink.write, Sink.bytes]; omega

theorem writeEach_spec (f : UInt8 → UInt8) (xs : Bytes) (sink : Sink) (n : Nat) :
    (writeEach f xs sink n).1.bytes = sink.bytes ++ xs.map f ∧ (writeEach f xs sink n).2 = n + xs.length := by
  induction xs generalizing sink n with
  | nil => simp [writeEach]
  | cons x xs ih =>
    obtain ⟨h1, h2⟩ := ih (sink.write [f x]).1 (n + (sink.write [f x]).2)
    simp only [writeEach]
    constructor
    · rw [h1]; simp
    · rw [h2]; simp; omega

/-- the four lines `Write` emits for one record -/
def renderQ (tabs : QTables) (qid : Bool) (enc : Encoding) (r : QRec) : Bytes :=
  joinLF [headerLine 64 r.name r.desc, r.letters,
          if qid then headerLine 43 r.name r.desc else [43], r.quals.map (encode tabs enc)]

theorem write_eq (tabs : QTables) (qid : Bool) (enc : Encoding) (sink : Sink) (r : QRec) :
    write tabs qid enc sink r =
      (let w1 := writeHeader sink 64 r
       let w2 := writeEach id r.letters w1.1 w1.2
       let s3 := w2.1.write [10]
       let w4 : Sink × Nat :=
         if qid then ((writeHeader s3.1 43 r).1, w2.2 + s3.2 + (writeHeader s3.1 43 r).2)
         else ((s3.1.write [43, 10]).1, w2.2 + s3.2 + (s3.1.write [43, 10]).2)
       let w5 := writeEach (encode tabs enc) r.quals w4.1 w4.2
       let s6 := w5.1.write [10]
       (s6.1, w5.2 + s6.2)) := by
  cases qid <;> rfl

theorem write_spec (tabs : QTables) (qid : Bool) (enc : Encoding) (sink : Sink) (r : QRec) :
    (write tabs qid enc sink r).1.bytes = sink.bytes ++ renderQ tabs qid enc r ∧
    (write tabs qid enc sink r).2 = (renderQ tabs qid enc r).length := by
  rw [write_eq]
  cases qid
  · simp only [Bool.false_eq_true, if_false, write_fst_bytes, write_snd,
      (writeEach_spec _ _ _ _).1, (writeEach_spec _ _ _ _).2, (writeHeader_spec _ _ _).1, (writeHeader_spec _ _ _).2]
    simp [renderQ, joinLF]
    omega
  · simp only [if_true, write_fst_bytes, write_snd,
      (writeEach_spec _ _ _ _).1, (writeEach_spec _ _ _ _).2, (writeHeader_spec _ _ _).1, (writeHeader_spec _ _ _).2]
    simp [renderQ, joinLF]
    omega

theorem writeAll_spec (tabs : QTables) (qid : Bool) (enc : Encoding) (sink : Sink) (recs : List QRec) :
    (writeAll tabs qid enc sink recs).1.bytes = sink.bytes ++ recs.flatMap (renderQ tabs qid enc) ∧
    (writeAll tabs qid enc sink recs).2 = recs.map (fun r => (renderQ tabs qid enc r).length) := by
  induction recs generalizing sink with
  | nil => simp [writeAll]
  | cons r rs ih =>
    have e : writeAll tabs qid enc sink (r :: rs) =
        ((writeAll tabs qid enc (write tabs qid enc sink r).1 rs).1,
         (write tabs qid enc sink r).2 :: (writeAll tabs qid enc (write tabs qid enc sink r).1 rs).2) := rfl
    rw [e]
    obtain ⟨h1, h2⟩ := ih (write tabs qid enc sink r).1
    obtain ⟨w1, w2⟩ := write_spec tabs qid enc sink r
    simp only [h1, h2, w1, w2]
    simp

/-- The count returned by `Write` is the number of bytes it put on the writer. -/
theorem write_count (tabs : QTables) (qid : Bool) (enc : Encoding) (sink : Sink) (r : QRec) :
    (write tabs qid enc sink r).1.out.size = sink.out.size + (write tabs qid enc sink r).2 := by
  obtain ⟨w1, w2⟩ := write_spec tabs qid enc sink r
  have : (write tabs qid enc sink r).1.bytes.length = (sink.bytes ++ renderQ tabs qid enc r).length := by rw [w1]
  simp only [Sink.bytes, Array.length_toList, List.length_append] at this
  omega

/-- the quality line the writer emits for a record -/
def qlineOf (tabs : QTables) (enc : Encoding) (r : QRec) : Bytes := r.quals.map (encode tabs enc)

/-- what `Write` emits is a layout of the records (four lines each, LF terminated) -/
theorem renders_writer (tabs : QTables) (qid : Bool) (enc : Encoding) (recs : List QRec)
    (hok : ∀ r ∈ recs, RecOK (qlineOf tabs enc) r) :
    FastqRenders (qlineOf tabs enc) recs (recs.flatMap (renderQ tabs qid enc)) := by
  suffices h : ∃ lines, FastqLines (qlineOf tabs enc) recs lines ∧
      recs.flatMap (renderQ tabs qid enc) = joinLF lines by
    obtain ⟨lines, h1, h2⟩ := h
    exact .inl ⟨lines, h1, h2 ▸ terminated_joinLF lines (fastqLines_nolf h1 hok)⟩
  clear hok
  induction recs with
  | nil => exact ⟨[], .nil, by simp [joinLF]⟩
  | cons r rs ih =>
    obtain ⟨lines, h1, h2⟩ := ih
    refine ⟨headerLine 64 r.name r.desc :: r.letters ::
      (if qid then headerLine 43 r.name r.desc else [43]) :: qlineOf tabs enc r :: lines, ?_, ?_⟩
    · refine .record r _ _ _ _ rs lines ⟨[], by simp, by simp⟩ ⟨[], by simp, by simp⟩ ?_ ⟨[], by simp, by simp⟩ h1
      cases qid
      · exact .inl ⟨[], by simp, by simp⟩
      · exact .inr ⟨[], by simp, by simp⟩
    · rw [List.flatMap_cons, h2]
      simp [renderQ, joinLF, qlineOf]

/-! ### well-formed records satisfy what the reader relies on -/

theorem recOK_of_wf (tabs : QTables) (enc : Encoding) (r : QRec) (h : wfFastq enc r = true) :
    RecOK (qlineOf tabs enc) r ∧ (qlineOf tabs enc r).map (decode tabs enc) = r.quals := by
  simp only [wfFastq, Bool.and_eq_true, beq_iff_eq] at h
  obtain ⟨⟨⟨⟨hn, hd⟩, hl⟩, hq⟩, hlen⟩ := h
  have hq' : ∀ q ∈ r.quals, decode tabs enc (encode tabs enc q) = q ∧ visible (encode tabs enc q) = true := by
    unfold qualsOK at hq
    cases hr : phredRange enc with
    | none => simp [hr] at hq
    | some v =>
      obtain ⟨lo, hi, off⟩ := v
      simp only [hr, List.all_eq_true, Bool.and_eq_true, decide_eq_true_eq] at hq
      intro q hqm
      exact decode_encode tabs enc lo hi off hr q (hq q hqm).1 (hq q hqm).2
  refine ⟨⟨hn, hd, fastqLettersOK_iff.mp hl, ?_, by simp [qlineOf, hlen]⟩, ?_⟩
  · intro b hb
    simp only [qlineOf, List.mem_map] at hb
    obtain ⟨q, hqm, rfl⟩ := hb
    exact (hq' q hqm).2
  · simp only [qlineOf, List.map_map]
    conv => rhs; rw [← List.map_id r.quals]
    exact List.map_congr_left (fun q hqm => (hq' q hqm).1)

theorem built_qseq (tabs : QTables) (enc : Encoding) (r : QRec)
    (h : (qlineOf tabs enc r).map (decode tabs enc) = r.quals) :
    built ⟨.qseq enc, tabs⟩ r.name r.desc r.letters (qlineOf tabs enc r) = r := by
  cases r
  simp_all [built, appendQLetters, hdrRec, Template.enc]

/-- a plain `linear.Seq` written as FASTQ: every score is 40, written `I` -/
theorem recOK_of_wfPlain (tabs : QTables) (r : QRec) (h : wfFastqPlain r = true) :
    RecOK (qlineOf tabs .sanger) (ofPlain r) := by
  simp only [wfFastqPlain, Bool.and_eq_true] at h
  obtain ⟨⟨⟨hn, hd⟩, hl⟩, _⟩ := h
  refine ⟨hn, hd, fastqLettersOK_iff.mp hl, ?_, by simp [qlineOf, ofPlain]⟩
  intro b hb
  simp only [qlineOf, ofPlain, List.map_replicate, List.mem_replicate] at hb
  rw [hb.2]; simp [encode]; decide

theorem built_seq (tabs : QTables) (r : QRec) (h : wfFastqPlain r = true) (ql : Bytes) :
    built ⟨.seq, tabs⟩ (ofPlain r).name (ofPlain r).desc (ofPlain r).letters ql = r := by
  simp only [wfFastqPlain, Bool.and_eq_true, List.isEmpty_iff] at h
  cases r
  simp_all [built, appendQLetters, hdrRec, ofPlain]

/-! ### totality on arbitrary input -/

theorem readHeader_total (line : Bytes) (h : maybeID1 line = true) : ∃ v, readHeader line = .ok v := by
  cases line with
  | nil => simp [maybeID1] at h
  | cons a t =>
    have ha : a = 64 := by
      unfold maybeID1 at h
      split at h
      · rename_i heq; simp at heq; exact heq.1
      · simp at h
    subst ha
    unfold readHeader
    have e : indexAnySpTab (64 :: t) = (indexAnySpTab t).map (· + 1) := by
      simp [indexAnySpTab, List.findIdx?_cons]
    rw [e]
    cases hk : indexAnySpTab t with
    | none => simp [sliceFrom, bind, Except.bind, pure, Except.pure]
    | some k =>
      have hlt : k < t.length := by
        simp only [indexAnySpTab] at hk
        obtain ⟨hlt, _⟩ := List.findIdx?_eq_some_iff_getElem.mp hk
        exact hlt
      simp only [Option.map_some]
      have h1 : k ≤ t.length := by omega
      have h2 : k + 1 ≤ t.length := by omega
      simp [slice, sliceFrom, h1, h2, bind, Except.bind, pure, Except.pure]

theorem maybeID_ne_nil {line : Bytes} (h : maybeID1 line = true ∨ maybeID2 line = true) : line ≠ [] := by
  intro e; subst e; simp [maybeID1, maybeID2] at h

theorem sameLabel_total (label line : Bytes) (h1 : label ≠ []) (h2 : line ≠ []) :
    ∃ b, sameLabel label line = .ok b := by
  cases label with
  | nil => exact absurd rfl h1
  | cons a t =>
    cases line with
    | nil => exact absurd rfl h2
    | cons c u => simp [sameLabel, sliceFrom, bind, Except.bind, pure, Except.pure]

/-- what holds of the loop variables: outside state `id1` a header has been parsed -/
def Inv (st : LoopSt) : Prop := st.state = .id1 ∨ (st.t.isSome = true ∧ st.label ≠ [])

theorem finish_total (cfg : Cfg) (st : LoopSt) (line : Bytes) (rest : List Bytes × Bytes)
    (ht : st.t.isSome = true) (he : st.err = none) :
    ∃ ret, finish cfg st line rest = .ok (ret, rest) ∧ (ret.s.isSome ∨ ret.e.isSome) ∧ ret.e ≠ some .eof := by
  unfold finish
  simp only []
  split
  · exact ⟨_, rfl, by simp, by simp⟩
  · cases ht' : st.t with
    | none => simp [ht'] at ht
    | some t => exact ⟨_, rfl, by simp, by simp [he]⟩

/-- The loop never panics; it returns a sequence or an error; it never gives lines back; and
    unless it was already in state `quality`, a call that does not return `io.EOF` has
    consumed at least one line. -/
theorem loop_total (cfg : Cfg) (pend : Bytes) (lines : List Bytes) : ∀ st : LoopSt, Inv st →
    ∃ ret rest p', loop cfg pend st lines = .ok (ret, rest, p') ∧ (ret.s.isSome ∨ ret.e.isSome) ∧
      rest.length ≤ lines.length ∧
      (ret.e ≠ some .eof → st.state ≠ .quality → rest.length < lines.length) := by
  induction lines with
  | nil =>
    intro st _
    unfold loop
    by_cases hc : (st.t.isSome && st.state == .quality) = true
    · simp only [hc, if_true]
      have ht : st.t.isSome = true := by simp at hc; exact hc.1
      obtain ⟨ret, h1, h2, _⟩ := finish_total cfg { st with err := none } pend ([], []) ht rfl
      refine ⟨ret, [], [], h1, h2, by simp, ?_⟩
      intro _ hq; simp at hc; exact absurd hc.2 hq
    · simp only [hc]
      exact ⟨_, [], [], rfl, by simp, by simp, by simp⟩
  | cons raw rest0 ih =>
    intro st hinv
    -- the invariant gives a header once the state is not id1
    have hlab : st.state ≠ .id1 → st.t.isSome = true ∧ st.label ≠ [] := by
      intro h; rcases hinv with h' | h'
      · exact absurd h' h
      · exact h'
    -- every recursive call is on `rest0`
    have recur : ∀ st' : LoopSt, Inv st' →
        ∃ ret rest p', loop cfg pend st' rest0 = .ok (ret, rest, p') ∧ (ret.s.isSome ∨ ret.e.isSome) ∧
          rest.length ≤ (raw :: rest0).length ∧
          (ret.e ≠ some .eof → st.state ≠ .quality → rest.length < (raw :: rest0).length) := by
      intro st' hi
      obtain ⟨ret, rest, p', h1, h2, h3, _⟩ := ih st' hi
      exact ⟨ret, rest, p', h1, h2, by simp; omega, fun _ _ => by simp; omega⟩
    unfold loop
    simp only []
    by_cases c1 : (st.state == .id1 && maybeID1 (trimSpace raw)) = true
    · simp only [c1, if_true]
      obtain ⟨⟨t, e⟩, hv⟩ := readHeader_total (trimSpace raw) (by simp at c1; exact c1.2)
      simp only [hv, bind, Except.bind]
      exact recur _ (.inr ⟨rfl, maybeID_ne_nil (.inl (by simp at c1; exact c1.2))⟩)
    · simp only [c1]
      by_cases c2 : (st.state == .id2 && maybeID2 (trimSpace raw)) = true
      · simp only [c2, if_true]
        have hs : st.state = .id2 := by simp at c2; exact c2.1
        obtain ⟨ht, hl⟩ := hlab (by rw [hs]; decide)
        have hll : (st.label.length == 0) = false := by
          cases hlb : st.label with
          | nil => exact absurd hlb hl
          | cons a t => simp
        simp only [hll, bind, Except.bind]
        have hne : trimSpace raw ≠ [] := maybeID_ne_nil (.inr (by simp at c2; exact c2.2))
        have hsame : ∃ b, (if (trimSpace raw).length != 1 then sameLabel st.label (trimSpace raw) else pure true)
            = Except.ok b := by
          split
          · exact sameLabel_total _ _ hl hne
          · exact ⟨true, rfl⟩
        obtain ⟨b, hb⟩ := hsame
        simp only [Bool.false_eq_true, if_false, hb]
        cases b with
        | false =>
          simp only [Bool.not_false, if_true]
          exact ⟨_, rest0, pend, rfl, by simp, by simp, fun _ _ => by simp⟩
        | true =>
          simp only [Bool.not_true, Bool.false_eq_true, if_false]
          exact recur _ (.inr ⟨ht, hl⟩)
      · simp only [c2]
        by_cases c3 : (st.state == .letters && decide ((trimSpace raw).length > 0)) = true
        · simp only [c3, if_true]
          have hs : st.state = .letters := by simp at c3; exact c3.1
          obtain ⟨ht, hl⟩ := hlab (by rw [hs]; decide)
          have hne : trimSpace raw ≠ [] := by
            intro e; rw [e] at c3; simp at c3
          have hplus : ∃ b, (if maybeID2 (trimSpace raw) = true then
              (if (trimSpace raw).length == 1 then pure true else sameLabel st.label (trimSpace raw))
              else (pure false : Except Panic Bool)) = Except.ok b := by
            split
            · split
              · exact ⟨true, rfl⟩
              · exact sameLabel_total _ _ hl hne
            · exact ⟨false, rfl⟩
          obtain ⟨b, hb⟩ := hplus
          simp only [hb, bind, Except.bind]
          cases b with
          | true => simp only [if_true]; exact recur _ (.inr ⟨ht, hl⟩)
          | false => simp only [Bool.false_eq_true, if_false]; exact recur _ (.inr ⟨ht, hl⟩)
        · simp only [c3]
          by_cases c4 : (st.state == .quality) = true
          · simp only [c4, if_true]
            have hs : st.state = .quality := by simpa using c4
            obtain ⟨ht, hl⟩ := hlab (by rw [hs]; decide)
            by_cases c5 : ((trimSpace raw).length == 0 && st.seqBuff.length != 0) = true
            · simp only [c5, if_true]
              exact recur _ (.inr ⟨ht, hl⟩)
            · simp only [c5]
              obtain ⟨ret, h1, h2, _⟩ := finish_total cfg { st with err := none } (trimSpace raw) (rest0, pend) ht rfl
              exact ⟨ret, rest0, pend, h1, h2, by simp, fun _ _ => by simp⟩
          · simp only [c4]
            refine recur _ ?_
            rcases hinv with h | h
            · exact .inl h
            · exact .inr h

theorem read_total (cfg : Cfg) (lines : List Bytes) (pend : Bytes) :
    ∃ ret rest p', read cfg lines pend = .ok (ret, rest, p') ∧ (ret.s.isSome ∨ ret.e.isSome) ∧
      (ret.e ≠ some .eof → rest.length < lines.length) := by
  obtain ⟨ret, rest, p', h1, h2, _, h4⟩ := loop_total cfg pend lines {} (.inl rfl)
  exact ⟨ret, rest, p', h1, h2, fun he => h4 he (by decide)⟩

/-- the call history: no panic, never out of budget, at most one call per line plus one,
    ends with `io.EOF`, every call returns a sequence or an error -/
theorem readAllAux_total (cfg : Cfg) (fuel : Nat) : ∀ (lines : List Bytes) (pend : Bytes), lines.length < fuel →
    (∀ p, Call.panic p ∉ readAllAux cfg fuel lines pend) ∧
    Call.unfinished ∉ readAllAux cfg fuel lines pend ∧
    (readAllAux cfg fuel lines pend).length ≤ lines.length + 1 ∧
    (∃ r, (readAllAux cfg fuel lines pend).getLast? = some (Call.ret r) ∧ r.e = some .eof) ∧
    (∀ r, Call.ret r ∈ readAllAux cfg fuel lines pend → r.s.isSome ∨ r.e.isSome) := by
  induction fuel with
  | zero => intro lines pend h; omega
  | succ f ih =>
    intro lines pend hm
    obtain ⟨ret, rest, p', hv, hsome, hdec⟩ := read_total cfg lines pend
    simp only [readAllAux, hv]
    by_cases he : ret.e = some .eof
    · simp only [he, if_true]
      refine ⟨by simp, by simp, by simp, ⟨ret, by simp, he⟩, ?_⟩
      intro r hr
      simp at hr; subst hr; exact hsome
    · simp only [he, if_false]
      have hlt := hdec he
      obtain ⟨a, b, c, d, e⟩ := ih rest p' (by omega)
      refine ⟨by simpa using a, by simpa using b, by simp; omega, ?_, ?_⟩
      · obtain ⟨r, d1, d2⟩ := d
        exact ⟨r, Biogo.Fasta.getLast?_cons_of_some _ _ _ d1, d2⟩
      · intro r hr
        simp at hr
        rcases hr with rfl | hr
        · exact hsome
        · exact e r hr

theorem readLineInput_length (e : Bool) (bs : Bytes) : (readLineInput e bs).1.length ≤ lineCount bs := by
  rcases readLineInput_cases e bs with h | ⟨l, _, _, h⟩
  · rw [h]; simp [lineCount]
  · rw [h]; simp [lineCount]

/-! ### structurally invalid records are rejected -/

theorem readHeader_err_none (line : Bytes) (v : QRec × Option Err) (h : readHeader line = .ok v) : v.2 = none := by
  unfold readHeader at h
  split at h
  · cases hs : sliceFrom line 1 with
    | error e => simp [hs, bind, Except.bind] at h
    | ok n => simp [hs, bind, Except.bind, pure, Except.pure] at h; rw [← h]
  · rename_i fm _
    cases hs : slice line 1 fm with
    | error e => simp [hs, bind, Except.bind] at h
    | ok n =>
      cases hd : sliceFrom line (fm + 1) with
      | error e => simp [hs, hd, bind, Except.bind] at h
      | ok d => simp [hs, hd, bind, Except.bind, pure, Except.pure] at h; rw [← h]

/-- loop states after a header line with trimmed content `hl` that parsed to `t` -/
def sL (t : QRec) (hl : Bytes) : LoopSt := { state := .letters, t := some t, label := hl, seqBuff := [], err := none }
def sI (t : QRec) (hl ls : Bytes) : LoopSt := { sL t hl with state := .id2, seqBuff := ls }
def sQ (t : QRec) (hl ls : Bytes) : LoopSt := { sL t hl with state := .quality, seqBuff := ls }

/-- a blank line is skipped in every state, except that in state `quality` it is the quality
    line of a record without letters -/
theorem loop_skip_blank (cfg : Cfg) (pend raw : Bytes) (rest : List Bytes) (st : LoopSt)
    (he : st.err = none) (hq : st.state = .quality → st.seqBuff ≠ []) (hb : trimSpace raw = []) :
    loop cfg pend st (raw :: rest) = loop cfg pend st rest := by
  have hst : ({ st with err := none } : LoopSt) = st := by cases st; simp_all
  conv => lhs; unfold loop
  simp only [hb, hst]
  cases hs : st.state with
  | id1 => simp [maybeID1]
  | letters => simp [maybeID1, maybeID2]
  | id2 => simp [maybeID1, maybeID2]
  | quality =>
    have : st.seqBuff ≠ [] := hq hs
    simp [maybeID1, maybeID2, this]

theorem loop_skip_blanks (cfg : Cfg) (pend : Bytes) (blanks rest : List Bytes) (st : LoopSt)
    (he : st.err = none) (hq : st.state = .quality → st.seqBuff ≠ []) (hb : ∀ l ∈ blanks, trimSpace l = []) :
    loop cfg pend st (blanks ++ rest) = loop cfg pend st rest := by
  induction blanks with
  | nil => rfl
  | cons b bs ih =>
    rw [List.cons_append, loop_skip_blank cfg pend b _ st he hq (hb b (by simp))]
    exact ih (fun l hl => hb l (by simp [hl]))

theorem loop_any_header (cfg : Cfg) (pend h : Bytes) (rest : List Bytes) (hm : maybeID1 (trimSpace h) = true) :
    ∃ t, loop cfg pend {} (h :: rest) = loop cfg pend (sL t (trimSpace h)) rest := by
  obtain ⟨⟨t, e⟩, hv⟩ := readHeader_total _ hm
  have : e = none := readHeader_err_none _ _ hv
  subst this
  refine ⟨t, ?_⟩
  conv => lhs; unfold loop
  simp only [hm, hv, bind, Except.bind]
  rfl

theorem loop_any_letters (cfg : Cfg) (pend s : Bytes) (rest : List Bytes) (t : QRec) (hl : Bytes)
    (hne : trimSpace s ≠ []) (hm : maybeID2 (trimSpace s) = false) :
    loop cfg pend (sL t hl) (s :: rest)
      = loop cfg pend (sI t hl ((trimSpace s).filter (fun b => !isSpace b))) rest := by
  have hlen : decide ((trimSpace s).length > 0) = true := by
    cases h : trimSpace s with
    | nil => exact absurd h hne
    | cons a u => simp
  conv => lhs; unfold loop
  simp only [sL, hm]
  simp only [show (State.letters == State.id1) = false from rfl, Bool.false_and, Bool.false_eq_true, if_false,
    show (State.letters == State.id2) = false from rfl,
    show (State.letters == State.letters) = true from rfl, Bool.true_and, hlen, if_true, bind, Except.bind, pure,
    Except.pure]
  rfl

/-- **rejects a different header on the `+` line** -/
theorem loop_rejects_qhdr (cfg : Cfg) (pend p : Bytes) (rest : List Bytes) (t : QRec) (hl ls : Bytes)
    (hne : hl ≠ []) (hm : maybeID2 (trimSpace p) = true) (hlen : (trimSpace p).length ≠ 1)
    (hdiff : hl.drop 1 ≠ (trimSpace p).drop 1) :
    loop cfg pend (sI t hl ls) (p :: rest) = .ok (⟨none, some .qualHeader⟩, rest, pend) := by
  have hll : (hl.length == 0) = false := by cases hl with | nil => exact absurd rfl hne | cons a u => simp
  have hpne : trimSpace p ≠ [] := maybeID_ne_nil (.inr hm)
  have hsame : sameLabel hl (trimSpace p) = .ok false := by
    cases hl with
    | nil => exact absurd rfl hne
    | cons a u =>
      cases hp : trimSpace p with
      | nil => exact absurd hp hpne
      | cons c v =>
        rw [hp] at hdiff
        simp [sameLabel, sliceFrom, bind, Except.bind, pure, Except.pure]
        simpa using hdiff
  have hl1 : ((trimSpace p).length != 1) = true := by simpa using hlen
  conv => lhs; unfold loop
  simp only [sI, sL, hm]
  simp only [show (State.id2 == State.id1) = false from rfl, Bool.false_and, Bool.false_eq_true, if_false,
    show (State.id2 == State.id2) = true from rfl, Bool.true_and, if_true, hll, hl1, hsame, bind, Except.bind]
  rfl

theorem loop_any_plus (cfg : Cfg) (pend p : Bytes) (rest : List Bytes) (t : QRec) (hl ls : Bytes)
    (hne : hl ≠ []) (hm : maybeID2 (trimSpace p) = true)
    (hsame : (trimSpace p).length = 1 ∨ hl.drop 1 = (trimSpace p).drop 1) :
    loop cfg pend (sI t hl ls) (p :: rest) = loop cfg pend (sQ t hl ls) rest := by
  have hll : (hl.length == 0) = false := by cases hl with | nil => exact absurd rfl hne | cons a u => simp
  have hpne : trimSpace p ≠ [] := maybeID_ne_nil (.inr hm)
  have hchk : (if (trimSpace p).length != 1 then sameLabel hl (trimSpace p) else pure true) = .ok true := by
    split
    · rename_i h1
      have h1' : (trimSpace p).length ≠ 1 := by simpa using h1
      rcases hsame with h | h
      · exact absurd h h1'
      · cases hl with
        | nil => exact absurd rfl hne
        | cons a u =>
          cases hp : trimSpace p with
          | nil => exact absurd hp hpne
          | cons c v =>
            rw [hp] at h
            simp [sameLabel, sliceFrom, bind, Except.bind, pure, Except.pure]
            simpa using h
    · rfl
  conv => lhs; unfold loop
  simp only [sI, sL, hm]
  simp only [show (State.id2 == State.id1) = false from rfl, Bool.false_and, Bool.false_eq_true, if_false,
    show (State.id2 == State.id2) = true from rfl, Bool.true_and, if_true, hll, hchk, bind, Except.bind]
  rfl

/-- **rejects a quality line of another length than the sequence line** -/
theorem loop_rejects_len (cfg : Cfg) (pend q : Bytes) (rest : List Bytes) (t : QRec) (hl ls : Bytes)
    (hq : trimSpace q ≠ []) (hlen : (removeSpaces (trimSpace q)).length ≠ ls.length) :
    loop cfg pend (sQ t hl ls) (q :: rest) = .ok (⟨none, some .lengthMismatch⟩, rest, pend) := by
  have h0 : ((trimSpace q).length == 0) = false := by
    cases h : trimSpace q with
    | nil => exact absurd h hq
    | cons a u => simp
  conv => lhs; unfold loop
  simp only [sQ, sL]
  simp only [show (State.quality == State.id1) = false from rfl, Bool.false_and, Bool.false_eq_true, if_false,
    show (State.quality == State.id2) = false from rfl, show (State.quality == State.letters) = false from rfl,
    show (State.quality == State.quality) = true from rfl, if_true, h0]
  simp [finish, hlen, pure, Except.pure]

theorem loop_rejects_len_eof (cfg : Cfg) (pend : Bytes) (t : QRec) (hl ls : Bytes)
    (hlen : (removeSpaces pend).length ≠ ls.length) :
    loop cfg pend (sQ t hl ls) [] = .ok (⟨none, some .lengthMismatch⟩, [], []) := by
  conv => lhs; unfold loop
  simp [sQ, sL, finish, hlen, pure, Except.pure]

/-! ### the reader sees complete lines only through `bytes.TrimSpace` -/

open Biogo.Fasta (TrimEq toCRLF)

/-- one iteration of the loop of `Read` on a trimmed line: the next loop state, or the
    returned pair -/
def step (cfg : Cfg) (st : LoopSt) (line : Bytes) : Except Panic (LoopSt ⊕ Ret) :=
  let st := { st with err := none }
  if st.state == .id1 && maybeID1 line then do
    let (t, _err) ← readHeader line
    pure (.inl { st with state := .letters, t := some t, err := _err, label := line })
  else if st.state == .id2 && maybeID2 line then do
    if st.label.length == 0 then pure (.inr ⟨none, some .noHeader⟩)
    else
      let same ← (if line.length != 1 then sameLabel st.label line else pure true)
      if !same then pure (.inr ⟨none, some .qualHeader⟩)
      else pure (.inl { st with state := .quality })
  else if st.state == .letters && line.length > 0 then do
    let plus ← (if maybeID2 line then
                  (if line.length == 1 then pure true else sameLabel st.label line)
                else pure false)
    if plus then pure (.inl { st with state := .quality })
    else pure (.inl { st with state := .id2, seqBuff := line.filter (fun b => !isSpace b) })
  else if st.state == .quality then
    if line.length == 0 && st.seqBuff.length != 0 then pure (.inl st)
    else do
      let (ret, _) ← finish cfg st line ([], [])
      pure (.inr ret)
  else pure (.inl st)

theorem finish_rest (cfg : Cfg) (st : LoopSt) (line : Bytes) (rest : List Bytes × Bytes) :
    finish cfg st line rest = (finish cfg st line ([], [])).map (fun p => (p.1, rest)) := by
  unfold finish
  simp only []
  split
  · rfl
  · cases st.t <;> rfl

theorem loop_step (cfg : Cfg) (pend : Bytes) (st : LoopSt) (raw : Bytes) (rest : List Bytes) :
    loop cfg pend st (raw :: rest) =
      (match step cfg st (trimSpace raw) with
       | .error p => .error p
       | .ok (.inl st') => loop cfg pend st' rest
       | .ok (.inr ret) => .ok (ret, rest, pend)) := by
  conv => lhs; unfold loop
  unfold step
  simp only []
  split
  · cases readHeader (trimSpace raw) with
    | error e => simp [bind, Except.bind]
    | ok v => simp [bind, Except.bind, pure, Except.pure]
  · split
    · split
      · simp [bind, Except.bind, pure, Except.pure]
      · generalize (if (trimSpace raw).length != 1 then sameLabel st.label (trimSpace raw) else pure true) = c
        cases c with
        | error e => simp [bind, Except.bind]
        | ok b => cases b <;> simp [bind, Except.bind, pure, Except.pure]
    · split
      · generalize (if maybeID2 (trimSpace raw) = true then
            if ((trimSpace raw).length == 1) = true then pure true else sameLabel st.label (trimSpace raw)
            else (pure false : Except Panic Bool)) = c
        cases c with
        | error e => simp [bind, Except.bind]
        | ok b => cases b <;> simp [bind, Except.bind, pure, Except.pure]
      · split
        · split
          · simp [pure, Except.pure]
          · rw [finish_rest]
            cases finish cfg { st with err := none } (trimSpace raw) ([], []) with
            | error e => simp [bind, Except.bind, Except.map]
            | ok v => simp [bind, Except.bind, Except.map, pure, Except.pure]
        · simp [pure, Except.pure]


theorem loop_congr (cfg : Cfg) (pend : Bytes) {lines lines' : List Bytes} (h : TrimEq lines lines') :
    ∀ st : LoopSt,
      (match loop cfg pend st lines, loop cfg pend st lines' with
       | .ok (ret, rest, p), .ok (ret', rest', p') => ret = ret' ∧ p = p' ∧ TrimEq rest rest'
       | .error e, .error e' => e = e'
       | _, _ => False) := by
  induction h with
  | nil =>
    intro st
    cases loop cfg pend st [] with
    | error e => rfl
    | ok v => exact ⟨rfl, rfl, TrimEq.refl _⟩
  | cons l l' ls ls' heq htail ih =>
    intro st
    rw [loop_step, loop_step, ← heq]
    cases step cfg st (trimSpace l) with
    | error e => rfl
    | ok v =>
      cases v with
      | inl st' => exact ih st'
      | inr ret => exact ⟨rfl, rfl, htail⟩

theorem readAllAux_trimEq (cfg : Cfg) (fuel : Nat) : ∀ (lines lines' : List Bytes) (pend : Bytes),
    TrimEq lines lines' → readAllAux cfg fuel lines pend = readAllAux cfg fuel lines' pend := by
  induction fuel with
  | zero => intro _ _ _ _; rfl
  | succ f ih =>
    intro lines lines' pend h
    have hc := loop_congr cfg pend h {}
    simp only [readAllAux, read]
    cases h1 : loop cfg pend {} lines with
    | error e =>
      cases h2 : loop cfg pend {} lines' with
      | error e' => rw [h1, h2] at hc; simp at hc; simp [hc]
      | ok v' => rw [h1, h2] at hc; simp at hc
    | ok v =>
      cases h2 : loop cfg pend {} lines' with
      | error e' => rw [h1, h2] at hc; simp at hc
      | ok v' =>
        rw [h1, h2] at hc
        obtain ⟨ret, rest, p⟩ := v
        obtain ⟨ret', rest', p'⟩ := v'
        simp only [] at hc
        obtain ⟨rfl, rfl, hr⟩ := hc
        simp only []
        split
        · rfl
        · rw [ih rest rest' p hr]

/-! ### the input in two parts: terminated lines, and what follows the last LF -/

/-- the LF-terminated lines (CR dropped), and the bytes after the last LF -/
def splitParts : Bytes → Bytes → List Bytes × Bytes
  | [], cur => ([], cur.reverse)
  | b :: bs, cur =>
    if b == 10 then ((dropCR cur).reverse :: (splitParts bs []).1, (splitParts bs []).2)
    else splitParts bs (b :: cur)

def optLine (f : Bytes) : List Bytes := if f.isEmpty then [] else [f]

theorem splitLinesAux_parts (bs : Bytes) : ∀ cur : Bytes,
    splitLinesAux bs cur = (splitParts bs cur).1 ++ optLine (splitParts bs cur).2 := by
  induction bs with
  | nil => intro cur; simp [splitLinesAux, splitParts, optLine]
  | cons b bs ih =>
    intro cur
    by_cases hb : (b == 10) = true
    · simp [splitLinesAux, splitParts, hb, ih []]
    · simp only [splitLinesAux, splitParts, hb]; exact ih (b :: cur)

theorem splitParts_final (bs : Bytes) : ∀ cur : Bytes,
    ((splitParts bs cur).2 = [] ↔ (bs = [] ∧ cur = []) ∨ bs.getLast? = some 10) := by
  induction bs with
  | nil => intro cur; simp [splitParts]
  | cons b bs ih =>
    intro cur
    by_cases hb : (b == 10) = true
    · have hb' : b = 10 := by simpa using hb
      simp only [splitParts, hb, if_true]
      rw [ih []]
      cases bs with
      | nil => simp [hb']
      | cons c cs => simp [List.getLast?_cons_cons]
    · have hb' : ¬ b = 10 := by simpa using hb
      simp only [splitParts, hb, Bool.false_eq_true, if_false]
      rw [ih (b :: cur)]
      cases bs with
      | nil => simp [hb']
      | cons c cs => simp [List.getLast?_cons_cons]

theorem getLast?_append_optLine (ls : List Bytes) (f : Bytes) (hf : f ≠ []) :
    (ls ++ optLine f).getLast? = some f ∧ (ls ++ optLine f).dropLast = ls := by
  have : optLine f = [f] := by simp [optLine, hf]
  rw [this]; simp

theorem readLineInput_parts (e : Bool) (bs : Bytes) :
    readLineInput e bs =
      (if !e && !(splitParts bs []).2.isEmpty && endsPending (splitParts bs []).2
       then ((splitParts bs []).1, (splitParts bs []).2)
       else ((splitParts bs []).1 ++ optLine (splitParts bs []).2, [])) := by
  have hsl : splitLines bs = (splitParts bs []).1 ++ optLine (splitParts bs []).2 := splitLinesAux_parts bs []
  have hfin := splitParts_final bs []
  unfold readLineInput
  simp only [hsl]
  cases e with
  | true => simp
  | false =>
    simp only [Bool.false_eq_true, if_false, Bool.not_false, Bool.true_and]
    by_cases hf : (splitParts bs []).2 = []
    · -- nothing after the last LF: the input is empty or ends in LF
      have hcase := hfin.mp hf
      simp only [hf, List.isEmpty_nil, Bool.not_true, Bool.false_and, Bool.false_eq_true, if_false, optLine,
        if_true, List.append_nil]
      rcases hcase with ⟨rfl, _⟩ | hl
      · simp
      · rw [hl]
        cases (splitParts bs []).1.getLast? <;> simp
    · have hne : bs.getLast? ≠ some 10 := fun h => hf (hfin.mpr (.inr h))
      have hbs : bs ≠ [] := fun h => hf (hfin.mpr (.inl ⟨h, rfl⟩))
      obtain ⟨g1, g2⟩ := getLast?_append_optLine (splitParts bs []).1 _ hf
      have hfe : (splitParts bs []).2.isEmpty = false := by simp [hf]
      cases hb : bs.getLast? with
      | none => exact absurd (List.getLast?_eq_none_iff.mp hb) hbs
      | some b =>
        have hb10 : (b != 10) = true := by
          simp only [bne_iff_ne, ne_eq]; intro h; subst h; exact hne hb
        simp only [g1, hb10, Bool.true_and, hfe, Bool.not_false, g2]

theorem trimEq_append {a b : List Bytes} (h : TrimEq a b) (c : List Bytes) : TrimEq (a ++ c) (b ++ c) := by
  induction h with
  | nil => exact TrimEq.refl c
  | cons l l' ls ls' e _ ih => exact .cons l l' _ _ e ih

theorem splitParts_toCRLF (bs : Bytes) : ∀ cur : Bytes,
    TrimEq (splitParts (toCRLF bs) cur).1 (splitParts bs cur).1 ∧
    (splitParts (toCRLF bs) cur).2 = (splitParts bs cur).2 := by
  induction bs with
  | nil => intro cur; exact ⟨TrimEq.refl _, rfl⟩
  | cons b bs ih =>
    intro cur
    by_cases hb : (b == 10) = true
    · have hb' : b = 10 := by simpa using hb
      have e : toCRLF (b :: bs) = 13 :: 10 :: toCRLF bs := by simp [toCRLF, hb']
      rw [e]
      simp only [splitParts, hb, if_true, show ((13 : UInt8) == 10) = false from rfl, Bool.false_eq_true, if_false,
        show ((10 : UInt8) == 10) = true from rfl]
      refine ⟨.cons _ _ _ _ ?_ (ih []).1, (ih []).2⟩
      have h1 : (dropCR (13 :: cur)).reverse = cur.reverse := rfl
      rw [h1]
      have := trimSpace_stripCR cur.reverse
      simpa [stripCR] using this.symm
    · have hb' : ¬ b = 10 := by simpa using hb
      have e : toCRLF (b :: bs) = b :: toCRLF bs := by simp [toCRLF, hb']
      rw [e]
      simp only [splitParts, hb]
      exact ih (b :: cur)

/-- **CRLF, every input** (FASTQ): replacing each LF by CR LF does not change the call
    history, for every byte string, template, tables and `io.Reader` behaviour. -/
theorem readAll_toCRLF (cfg : Cfg) (e : Bool) (bs : Bytes) : readAll cfg e (toCRLF bs) = readAll cfg e bs := by
  obtain ⟨h1, h2⟩ := splitParts_toCRLF bs []
  have hlc : lineCount (toCRLF bs) = lineCount bs := by
    simp only [lineCount, splitLines, splitLinesAux_parts, h2, List.length_append, h1.length_eq]
  unfold readAll
  rw [readLineInput_parts e (toCRLF bs), readLineInput_parts e bs, hlc, h2]
  by_cases hc : (!e && !(splitParts bs []).2.isEmpty && endsPending (splitParts bs []).2) = true
  · simp only [hc, if_true]
    exact readAllAux_trimEq cfg _ _ _ _ h1
  · simp only [hc]
    exact readAllAux_trimEq cfg _ _ _ _ (trimEq_append h1 _)

theorem splitParts_line (l rest cur : Bytes) (h : ∀ x ∈ l, x ≠ 10) :
    splitParts (l ++ 10 :: rest) cur
      = ((dropCR (l.reverse ++ cur)).reverse :: (splitParts rest []).1, (splitParts rest []).2) := by
  induction l generalizing cur with
  | nil => simp [splitParts]
  | cons a l ih =>
    have ha : a ≠ 10 := h a (by simp)
    have hl : ∀ x ∈ l, x ≠ 10 := fun x hx => h x (by simp [hx])
    simp [splitParts, ha, ih _ hl]

theorem splitParts_trailing (a blanks b : Bytes) (hb : ∀ x ∈ blanks, isBlank x = true) : ∀ cur : Bytes,
    TrimEq (splitParts (a ++ blanks ++ 10 :: b) cur).1 (splitParts (a ++ 10 :: b) cur).1 ∧
    (splitParts (a ++ blanks ++ 10 :: b) cur).2 = (splitParts (a ++ 10 :: b) cur).2 := by
  have hnolf : ∀ x ∈ blanks, x ≠ 10 := fun x hx => isBlank_ne_lf (hb x hx)
  induction a with
  | nil =>
    intro cur
    have key : trimSpace (blanks.reverse ++ cur).reverse = trimSpace cur.reverse := by
      rw [List.reverse_append]
      exact Biogo.Fasta.trimSpace_append_blanks _ _ (fun x hx => isBlank_space (hb x (by simpa using hx)))
    simp only [List.nil_append]
    have e2 : splitParts (10 :: b) cur = ((dropCR cur).reverse :: (splitParts b []).1, (splitParts b []).2) := by
      simp [splitParts]
    rw [splitParts_line blanks b cur hnolf, e2]
    refine ⟨.cons _ _ _ _ ?_ (TrimEq.refl _), rfl⟩
    rw [Biogo.Fasta.trim_dropCR_reverse, Biogo.Fasta.trim_dropCR_reverse, key]
  | cons x a ih =>
    intro cur
    by_cases hx : (x == 10) = true
    · simp only [List.cons_append, splitParts, hx, if_true]
      exact ⟨.cons _ _ _ _ rfl (ih []).1, (ih []).2⟩
    · simp only [List.cons_append, splitParts, hx, Bool.false_eq_true, if_false]
      exact ih (x :: cur)

/-- **trailing white space, every input** (FASTQ): blanks in front of a line terminator do not
    change the call history. -/
theorem readAll_trailing_blanks (cfg : Cfg) (e : Bool) (a blanks b : Bytes) (hb : ∀ x ∈ blanks, isBlank x = true) :
    readAll cfg e (a ++ blanks ++ 10 :: b) = readAll cfg e (a ++ 10 :: b) := by
  obtain ⟨h1, h2⟩ := splitParts_trailing a blanks b hb []
  have hlc : lineCount (a ++ blanks ++ 10 :: b) = lineCount (a ++ 10 :: b) := by
    simp only [lineCount, splitLines, splitLinesAux_parts, h2, List.length_append, h1.length_eq]
  unfold readAll
  rw [readLineInput_parts e (a ++ blanks ++ 10 :: b), readLineInput_parts e (a ++ 10 :: b), hlc, h2]
  by_cases hc : (!e && !(splitParts (a ++ 10 :: b) []).2.isEmpty && endsPending (splitParts (a ++ 10 :: b) []).2) = true
  · simp only [hc, if_true]
    exact readAllAux_trimEq cfg _ _ _ _ h1
  · simp only [hc]
    exact readAllAux_trimEq cfg _ _ _ _ (trimEq_append h1 _)

end Biogo.Fastq
