/-
Bridge from the row-major table fill of the model (`fill`, `swFill`, flattened into `table`)
to the recursive forms of `Proofs/AlignLinRec.lean`: the cell `table[i*c+j]` is the recursion
on the reversed prefixes `(r.take i).reverse`, `(q.take j).reverse`.
-/
import Biogo.Proofs.AlignLinRec

namespace Biogo.Proofs.AlignLin
open Biogo.Spec.Alignment Biogo.AlignLin

/-! ### Specification of rows: values of `f` on growing reversed prefixes of `q` -/

def rowSpecGo (f : List Nat → Int) (Q : List Nat) : List Nat → List Int
  | [] => []
  | b :: rest => f (b :: Q) :: rowSpecGo f (b :: Q) rest

def rowSpec (f : List Nat → Int) (q : List Nat) : List Int := f [] :: rowSpecGo f [] q

def rowsSpec (F : List Nat → List Nat → Int) (q : List Nat) (R : List Nat) : List Nat → List (List Int)
  | [] => []
  | a :: rest => rowSpec (F (a :: R)) q :: rowsSpec F q (a :: R) rest

theorem rowSpecGo_length (f : List Nat → Int) (Q rest : List Nat) :
    (rowSpecGo f Q rest).length = rest.length := by
  induction rest generalizing Q with
  | nil => rfl
  | cons b rest ih => simp [rowSpecGo, ih]

theorem rowSpec_length (f : List Nat → Int) (q : List Nat) : (rowSpec f q).length = q.length + 1 := by
  simp [rowSpec, rowSpecGo_length]

theorem rowSpecGo_get (f : List Nat → Int) : ∀ (rest Q : List Nat) (j : Nat), j < rest.length →
    (rowSpecGo f Q rest)[j]? = some (f ((rest.take (j + 1)).reverse ++ Q)) := by
  intro rest
  induction rest with
  | nil => intro Q j h; simp at h
  | cons b rest ih =>
    intro Q j h
    cases j with
    | zero => simp [rowSpecGo]
    | succ j =>
      simp only [rowSpecGo, List.getElem?_cons_succ]
      rw [ih (b :: Q) j (by simpa using h)]
      simp [List.take_succ_cons]

theorem rowSpec_get (f : List Nat → Int) (q : List Nat) (j : Nat) (h : j ≤ q.length) :
    (rowSpec f q)[j]? = some (f (q.take j).reverse) := by
  cases j with
  | zero => simp [rowSpec]
  | succ j =>
    simp only [rowSpec, List.getElem?_cons_succ]
    rw [rowSpecGo_get f q [] j (by omega)]
    simp

theorem rowsSpec_length (F : List Nat → List Nat → Int) (q R rest : List Nat) :
    (rowsSpec F q R rest).length = rest.length := by
  induction rest generalizing R with
  | nil => rfl
  | cons a rest ih => simp [rowsSpec, ih]

theorem rowsSpec_get (F : List Nat → List Nat → Int) (q : List Nat) : ∀ (rest R : List Nat) (i : Nat),
    i ≤ rest.length →
    (rowSpec (F R) q :: rowsSpec F q R rest)[i]? = some (rowSpec (F ((rest.take i).reverse ++ R)) q) := by
  intro rest
  induction rest with
  | nil => intro R i h; have : i = 0 := by simpa using h
           subst this; simp
  | cons a rest ih =>
    intro R i h
    cases i with
    | zero => simp
    | succ i =>
      simp only [rowsSpec, List.getElem?_cons_succ]
      rw [ih (a :: R) i (by simpa using h)]
      simp [List.take_succ_cons]

theorem rowsSpec_all_length (F : List Nat → List Nat → Int) (q R rest : List Nat) :
    ∀ row ∈ rowSpec (F R) q :: rowsSpec F q R rest, row.length = q.length + 1 := by
  induction rest generalizing R with
  | nil => intro row h; simp [rowsSpec] at h; subst h; exact rowSpec_length _ _
  | cons a rest ih =>
    intro row h
    simp only [rowsSpec, List.mem_cons] at h
    rcases h with h | h
    · subst h; exact rowSpec_length _ _
    · exact ih (a :: R) row (by simpa using h)

/-! ### Indexing a flattened table -/

theorem flatten_get (c : Nat) : ∀ (L : List (List Int)) (i j : Nat),
    (∀ row ∈ L, row.length = c) → j < c →
    L.flatten[i * c + j]? = (L[i]?).bind (·[j]?) := by
  intro L
  induction L with
  | nil => intro i j _ _; simp
  | cons row L ih =>
    intro i j hl hj
    have hrow : row.length = c := hl row (by simp)
    cases i with
    | zero =>
      simp only [List.flatten_cons, Nat.zero_mul, Nat.zero_add, List.getElem?_cons_zero, Option.bind_some]
      rw [List.getElem?_append_left (by omega)]
    | succ i =>
      simp only [List.flatten_cons, List.getElem?_cons_succ]
      rw [List.getElem?_append_right (by rw [hrow, Nat.succ_mul]; omega)]
      have : (i + 1) * c + j - row.length = i * c + j := by rw [hrow, Nat.succ_mul]; omega
      rw [this]
      exact ih i j (fun r hr => hl r (by simp [hr])) hj

theorem flatten_length (c : Nat) : ∀ (L : List (List Int)), (∀ row ∈ L, row.length = c) →
    L.flatten.length = L.length * c := by
  intro L
  induction L with
  | nil => simp
  | cons row L ih =>
    intro hl
    simp only [List.flatten_cons, List.length_append, List.length_cons]
    rw [ih (fun r hr => hl r (by simp [hr])), hl row (by simp), Nat.succ_mul]; omega

/-! ### NW / Fitted rows -/

theorem firstRowGo_spec (S : Matrix) (free : Bool) : ∀ (rest Q : List Nat),
    firstRowGo S (gRec S free [] Q) rest = rowSpecGo (gRec S free []) Q rest := by
  intro rest
  induction rest with
  | nil => intro Q; rfl
  | cons b rest ih =>
    intro Q
    have : gRec S free [] Q + S 0 b = gRec S free [] (b :: Q) := by simp [gRec]
    simp only [firstRowGo, rowSpecGo, this, ih]

theorem firstRow_spec (S : Matrix) (free : Bool) (q : List Nat) :
    firstRow S q = rowSpec (gRec S free []) q := by
  have h0 : gRec S free [] [] = 0 := by simp [gRec]
  have := firstRowGo_spec S free q []
  rw [h0] at this
  simp [firstRow, rowSpec, this, h0]

theorem rowGo_spec (S : Matrix) (free : Bool) (a : Nat) (R : List Nat) : ∀ (rest Q : List Nat),
    rowGo S a (gRec S free R Q) (gRec S free (a :: R) Q) (rowSpecGo (gRec S free R) Q rest) rest
      = rowSpecGo (gRec S free (a :: R)) Q rest := by
  intro rest
  induction rest with
  | nil => intro Q; simp [rowGo, rowSpecGo]
  | cons b rest ih =>
    intro Q
    have : max3 (gRec S free R Q + S a b) (gRec S free R (b :: Q) + S a 0) (gRec S free (a :: R) Q + S 0 b)
        = gRec S free (a :: R) (b :: Q) := by simp [gRec]
    simp only [rowGo, rowSpecGo, this, ih]

theorem nextRow_spec (S : Matrix) (free : Bool) (a : Nat) (R q : List Nat) :
    nextRow S free a (rowSpec (gRec S free R) q) q = rowSpec (gRec S free (a :: R)) q := by
  have h0 : (if free then 0 else gRec S free R [] + S a 0) = gRec S free (a :: R) [] := by
    cases free <;> simp [gRec]
  simp only [nextRow, rowSpec, h0]
  rw [rowGo_spec]

theorem rowsFrom_spec (S : Matrix) (free : Bool) (q : List Nat) : ∀ (rest R : List Nat),
    rowsFrom S free q (rowSpec (gRec S free R) q) rest = rowsSpec (gRec S free) q R rest := by
  intro rest
  induction rest with
  | nil => intro R; rfl
  | cons a rest ih =>
    intro R
    simp only [rowsFrom, rowsSpec, nextRow_spec, ih]

theorem fill_spec (S : Matrix) (free : Bool) (r q : List Nat) :
    fill S free r q = rowSpec (gRec S free []) q :: rowsSpec (gRec S free) q [] r := by
  simp only [fill, firstRow_spec S free, rowsFrom_spec]

/-- value of a table cell as a function of `i`, `j` -/
def cellG (S : Matrix) (free : Bool) (r q : List Nat) (i j : Nat) : Int :=
  gRec S free (r.take i).reverse (q.take j).reverse

theorem toArray_getD (l : List Int) (p : Nat) : l.toArray.getD p 0 = (l[p]?).getD 0 := by
  by_cases h : p < l.length
  · simp [Array.getD, h]
  · simp [Array.getD, h]

theorem flat_getD (L : List (List Int)) (p : Nat) : (flat L).getD p 0 = (L.flatten[p]?).getD 0 :=
  toArray_getD _ _

theorem flat_size (L : List (List Int)) : (flat L).size = L.flatten.length := by
  simp only [flat, List.size_toArray]

theorem fill_cell (S : Matrix) (free : Bool) (r q : List Nat) (i j : Nat)
    (hi : i ≤ r.length) (hj : j ≤ q.length) :
    (flat (fill S free r q)).getD (i * (q.length + 1) + j) 0 = cellG S free r q i j := by
  have hall := rowsSpec_all_length (gRec S free) q [] r
  have h1 := flatten_get (q.length + 1) _ i j hall (by omega)
  rw [rowsSpec_get _ _ _ _ _ hi] at h1
  simp only [Option.bind_some, List.append_nil] at h1
  rw [rowSpec_get _ _ _ hj] at h1
  rw [flat_getD, fill_spec, h1]
  rfl

theorem fill_size (S : Matrix) (free : Bool) (r q : List Nat) :
    (flat (fill S free r q)).size = (r.length + 1) * (q.length + 1) := by
  rw [flat_size, fill_spec, flatten_length (q.length + 1) _ (rowsSpec_all_length _ _ _ _)]
  simp [rowsSpec_length]

/-! ### the recurrence in index form -/

theorem take_succ_reverse (l : List Nat) (i : Nat) (h : i < l.length) :
    (l.take (i + 1)).reverse = l.getD i 0 :: (l.take i).reverse := by
  rw [List.take_add_one, List.reverse_append]
  simp [List.getD, h]

theorem cellG_zero_zero (S : Matrix) (free : Bool) (r q : List Nat) : cellG S free r q 0 0 = 0 := by
  simp [cellG, gRec]

theorem cellG_zero_succ (S : Matrix) (free : Bool) (r q : List Nat) (j : Nat) (hj : j < q.length) :
    cellG S free r q 0 (j + 1) = cellG S free r q 0 j + S 0 (q.getD j 0) := by
  simp only [cellG, List.take_zero, List.reverse_nil, take_succ_reverse q j hj, gRec]

theorem cellG_succ_zero (S : Matrix) (free : Bool) (r q : List Nat) (i : Nat) (hi : i < r.length) :
    cellG S free r q (i + 1) 0 = if free then 0 else cellG S free r q i 0 + S (r.getD i 0) 0 := by
  simp only [cellG, List.take_zero, List.reverse_nil, take_succ_reverse r i hi, gRec]

theorem cellG_succ_succ (S : Matrix) (free : Bool) (r q : List Nat) (i j : Nat)
    (hi : i < r.length) (hj : j < q.length) :
    cellG S free r q (i + 1) (j + 1) =
      max3 (cellG S free r q i j + S (r.getD i 0) (q.getD j 0))
           (cellG S free r q i (j + 1) + S (r.getD i 0) 0)
           (cellG S free r q (i + 1) j + S 0 (q.getD j 0)) := by
  simp only [cellG, take_succ_reverse r i hi, take_succ_reverse q j hj, gRec]

/-! ### SW rows -/

theorem rowSpecGo_swRec_nil (S : Matrix) : ∀ (rest Q : List Nat),
    rowSpecGo (swRec S []) Q rest = List.replicate rest.length 0 := by
  intro rest
  induction rest with
  | nil => intro Q; rfl
  | cons b rest ih => intro Q; simp [rowSpecGo, ih, swRec, List.replicate_succ]

theorem sw_firstRow (S : Matrix) (q : List Nat) :
    List.replicate (q.length + 1) 0 = rowSpec (swRec S []) q := by
  simp [rowSpec, rowSpecGo_swRec_nil, swRec, List.replicate_succ]

theorem swRec_cons_cons (S : Matrix) (a b : Nat) (R Q : List Nat) :
    swRec S (a :: R) (b :: Q) =
      (if max3 (swRec S R Q + S a b) (swRec S R (b :: Q) + S a 0) (swRec S (a :: R) Q + S 0 b) > 0
       then max3 (swRec S R Q + S a b) (swRec S R (b :: Q) + S a 0) (swRec S (a :: R) Q + S 0 b) else 0) := by
  simp only [swRec]

theorem swRowGo_fst (S : Matrix) (a i : Nat) (R : List Nat) : ∀ (rest Q : List Nat) (j : Nat) (best : Best),
    (swRowGo S a i j (swRec S R Q) (swRec S (a :: R) Q) (rowSpecGo (swRec S R) Q rest) rest best).1
      = rowSpecGo (swRec S (a :: R)) Q rest := by
  intro rest
  induction rest with
  | nil => intro Q j best; simp [swRowGo, rowSpecGo]
  | cons b rest ih =>
    intro Q j best
    simp only [swRowGo, rowSpecGo, ← swRec_cons_cons]
    rw [ih]

theorem swRowsFrom_fst (S : Matrix) (q : List Nat) : ∀ (rest R : List Nat) (i : Nat) (best : Best),
    (swRowsFrom S q i (rowSpec (swRec S R) q) rest best).1 = rowsSpec (swRec S) q R rest := by
  intro rest
  induction rest with
  | nil => intro R i best; rfl
  | cons a rest ih =>
    intro R i best
    have h1 := swRowGo_fst S a i R q [] 1 best
    rw [swRec_nil_right S (a :: R), swRec_nil_right S R] at h1
    have h2 := ih (a :: R) (i + 1) (swRowGo S a i 1 0 0 (rowSpecGo (swRec S R) [] q) q best).2
    simp only [rowSpec, swRec_nil_right] at h2
    simp only [swRowsFrom, rowSpec, rowsSpec, swRec_nil_right, h1, h2]

theorem swFill_fst (S : Matrix) (r q : List Nat) :
    (swFill S r q).1 = rowSpec (swRec S []) q :: rowsSpec (swRec S) q [] r := by
  simp only [swFill, sw_firstRow S q, swRowsFrom_fst]

def cellS (S : Matrix) (r q : List Nat) (i j : Nat) : Int :=
  swRec S (r.take i).reverse (q.take j).reverse

theorem swFill_cell (S : Matrix) (r q : List Nat) (i j : Nat)
    (hi : i ≤ r.length) (hj : j ≤ q.length) :
    (flat (swFill S r q).1).getD (i * (q.length + 1) + j) 0 = cellS S r q i j := by
  have hall := rowsSpec_all_length (swRec S) q [] r
  have h1 := flatten_get (q.length + 1) _ i j hall (by omega)
  rw [rowsSpec_get _ _ _ _ _ hi] at h1
  simp only [Option.bind_some, List.append_nil] at h1
  rw [rowSpec_get _ _ _ hj] at h1
  rw [flat_getD, swFill_fst, h1]
  rfl

theorem swFill_size (S : Matrix) (r q : List Nat) :
    (flat (swFill S r q).1).size = (r.length + 1) * (q.length + 1) := by
  rw [flat_size, swFill_fst, flatten_length (q.length + 1) _ (rowsSpec_all_length _ _ _ _)]
  simp [rowsSpec_length]

theorem cellS_zero_left (S : Matrix) (r q : List Nat) (j : Nat) : cellS S r q 0 j = 0 := by
  simp [cellS, swRec]

theorem cellS_zero_right (S : Matrix) (r q : List Nat) (i : Nat) : cellS S r q i 0 = 0 := by
  simp [cellS, swRec_nil_right]

theorem cellS_succ_succ (S : Matrix) (r q : List Nat) (i j : Nat)
    (hi : i < r.length) (hj : j < q.length) (hne : cellS S r q (i + 1) (j + 1) ≠ 0) :
    cellS S r q (i + 1) (j + 1) =
      max3 (cellS S r q i j + S (r.getD i 0) (q.getD j 0))
           (cellS S r q i (j + 1) + S (r.getD i 0) 0)
           (cellS S r q (i + 1) j + S 0 (q.getD j 0)) := by
  simp only [cellS, take_succ_reverse r i hi, take_succ_reverse q j hj] at hne ⊢
  rw [swRec_cons_cons] at hne ⊢
  split at hne
  · rename_i h; rw [if_pos h]
  · exact absurd rfl hne

end Biogo.Proofs.AlignLin
