/-
Helper lemmas for C11: sorting, the invariants of the sequential sorter model, and the
per-operation preservation lemmas.  Core Lean only.
-/
import Biogo.Model.Morass
import Biogo.Spec.Morass

namespace Biogo.Morass

/-! ### sorting -/

theorem insertSorted_perm (e : Elem) (l : List Elem) : (insertSorted e l).Perm (e :: l) := by
  induction l with
  | nil => exact List.Perm.refl _
  | cons x xs ih =>
    simp only [insertSorted]
    split
    · exact (List.Perm.cons x ih).trans (List.Perm.swap e x xs)
    · exact List.Perm.refl _

theorem sortRun_perm (l : List Elem) : (sortRun l).Perm l := by
  induction l with
  | nil => exact List.Perm.refl _
  | cons x xs ih =>
    show (insertSorted x (sortRun xs)).Perm (x :: xs)
    exact (insertSorted_perm x _).trans (List.Perm.cons x ih)

theorem insertSorted_sorted (e : Elem) (l : List Elem) (h : Sorted l) : Sorted (insertSorted e l) := by
  induction l with
  | nil => simp [insertSorted, Sorted]
  | cons x xs ih =>
    simp only [insertSorted]
    have hx := List.pairwise_cons.mp h
    split
    · rename_i hle
      refine List.pairwise_cons.mpr ⟨?_, ih hx.2⟩
      intro a ha
      have := (insertSorted_perm e xs).mem_iff.mp ha
      rcases List.mem_cons.mp this with rfl | hm
      · exact hle
      · exact hx.1 a hm
    · rename_i hnle
      refine List.pairwise_cons.mpr ⟨?_, h⟩
      intro a ha
      rcases List.mem_cons.mp ha with rfl | hm
      · omega
      · have := hx.1 a hm; omega

theorem sortRun_sorted (l : List Elem) : Sorted (sortRun l) := by
  induction l with
  | nil => simp [sortRun, Sorted]
  | cons x xs ih => exact insertSorted_sorted x _ ih

theorem sortRun_length (l : List Elem) : (sortRun l).length = l.length := (sortRun_perm l).length_eq

theorem sortRun_ne_nil {l : List Elem} (h : l ≠ []) : sortRun l ≠ [] := by
  intro h0
  have := sortRun_length l
  rw [h0] at this
  cases l with
  | nil => exact h rfl
  | cons _ _ => simp at this


/-! ### invariants of the sequential model -/

/-- ready for a new cycle; `p0` bounds the buffers waiting in `pool` (0 in the sequential mode,
    1 with background writing, where `pool` is pre-seeded) -/
structure Fresh (c : Nat) (ac : Bool) (p0 : Nat) (s : State) : Prop where
  cs : s.chunkSize = c
  ac : s.autoClear = ac
  err : s.err = none
  pool : s.pool ≤ p0
  pos : s.pos = 0
  len : s.len = 0
  chunk : s.chunk = some []
  files : s.files = []

/-- `xs` has been pushed in this cycle; `ch` is the current in-memory chunk -/
structure Filling (c : Nat) (ac : Bool) (s : State) (xs ch : List Elem) : Prop where
  cs : s.chunkSize = c
  ac : s.autoClear = ac
  err : s.err = none
  pool : s.pool = 0
  pos : s.pos = xs.length
  len : s.len = xs.length
  chunk : s.chunk = some ch
  chLe : ch.length ≤ c
  count : xs.length = s.files.length * c + ch.length
  chPos : s.files ≠ [] → ch ≠ []
  perm : (s.files.flatMap (·.data) ++ ch).Perm xs
  runs : ∀ f ∈ s.files, Sorted f.data ∧ f.data ≠ []

theorem Fresh.filling {c ac s} (h : Fresh c ac 0 s) : Filling c ac s [] [] := by
  refine ⟨h.cs, h.ac, h.err, Nat.le_zero.mp h.pool, by simp [h.pos], by simp [h.len], h.chunk, by simp, by simp [h.files], ?_, by simp [h.files], by simp [h.files]⟩
  intro hf; exact absurd h.files hf

theorem push_full {s : State} {ch : List Elem} (e : Elem) (he : s.err = none) (hch : s.chunk = some ch)
    (hf : ch.length = s.chunkSize) :
    push s e = ({ s with files := s.files ++ [mkFile (sortRun ch)], chunk := some [e],
                         pos := s.pos + 1, len := s.len + 1 }, .ok) := by
  simp [push, he, hch, hf]

theorem push_room {s : State} {ch : List Elem} (e : Elem) (he : s.err = none) (hch : s.chunk = some ch)
    (hf : ch.length ≠ s.chunkSize) :
    push s e = ({ s with chunk := some (ch ++ [e]), pos := s.pos + 1, len := s.len + 1 }, .ok) := by
  simp [push, he, hch, hf]

theorem push_filling {c ac s xs ch} (hc : 1 ≤ c) (h : Filling c ac s xs ch) (e : Elem) :
    ∃ ch', (push s e).2 = .ok ∧ Filling c ac (push s e).1 (xs ++ [e]) ch' := by
  by_cases hfull : ch.length = s.chunkSize
  · rw [push_full e h.err h.chunk hfull]
    have hcc : ch.length = c := hfull.trans h.cs
    refine ⟨[e], rfl, ?_⟩
    have hne : ch ≠ [] := by intro h0; rw [h0] at hcc; simp at hcc; omega
    refine ⟨h.cs, h.ac, h.err, h.pool, by simp [h.pos], by simp [h.len], rfl, by simpa using hc, ?_, by simp, ?_, ?_⟩
    · simp only [List.length_append, List.length_cons, List.length_nil, Nat.add_mul, Nat.one_mul]
      have := h.count; omega
    · simp only [List.flatMap_append, List.flatMap_cons, List.flatMap_nil, mkFile, List.append_nil]
      refine List.Perm.append_right [e] ?_
      exact (List.Perm.append_left _ (sortRun_perm ch)).trans h.perm
    · intro f hf
      rcases List.mem_append.mp hf with hf | hf
      · exact h.runs f hf
      · simp only [List.mem_singleton] at hf
        subst hf
        exact ⟨sortRun_sorted ch, sortRun_ne_nil hne⟩
  · rw [push_room e h.err h.chunk hfull]
    refine ⟨ch ++ [e], rfl, ?_⟩
    refine ⟨h.cs, h.ac, h.err, h.pool, by simp [h.pos], by simp [h.len], rfl, ?_, ?_, by simp, ?_, h.runs⟩
    · have := h.chLe; have := h.cs; simp; omega
    · have := h.count; simp; omega
    · show (List.flatMap (·.data) s.files ++ (ch ++ [e])).Perm (xs ++ [e])
      rw [← List.append_assoc]; exact List.Perm.append_right [e] h.perm

/-! ### running operation lists -/

def Clean (outs : List Out) : Prop := ∀ o ∈ outs, o.res ≠ .hang ∧ o.res ≠ .panic

theorem run_cons_clean (s : State) (op : Op) (ops : List Op)
    (h : (step s op).2.res ≠ .hang ∧ (step s op).2.res ≠ .panic) :
    run s (op :: ops) = ((run (step s op).1 ops).1, (step s op).2 :: (run (step s op).1 ops).2) := by
  simp only [run]
  rw [if_neg (by intro h'; rcases h' with h' | h'; exact h.1 h'; exact h.2 h')]

theorem run_append (s : State) (a b : List Op) (h : Clean (run s a).2) :
    run s (a ++ b) = ((run (run s a).1 b).1, (run s a).2 ++ (run (run s a).1 b).2) := by
  induction a generalizing s with
  | nil => simp [run]
  | cons op a ih =>
    by_cases hb : (step s op).2.res = .hang ∨ (step s op).2.res = .panic
    · exfalso
      have : (run s (op :: a)).2 = [(step s op).2] := by simp only [run]; rw [if_pos hb]
      have hm := h (step s op).2 (by rw [this]; simp)
      rcases hb with hb | hb
      · exact hm.1 hb
      · exact hm.2 hb
    · have hb' : (step s op).2.res ≠ .hang ∧ (step s op).2.res ≠ .panic :=
        ⟨fun x => hb (Or.inl x), fun x => hb (Or.inr x)⟩
      rw [List.cons_append, run_cons_clean s op (a ++ b) hb', run_cons_clean s op a hb']
      have hcl : Clean (run (step s op).1 a).2 := by
        intro o ho
        apply h o
        rw [run_cons_clean s op a hb']
        exact List.mem_cons_of_mem _ ho
      rw [ih (step s op).1 hcl]
      simp

theorem pushes_run {c ac} (hc : 1 ≤ c) (es : List Elem) :
    ∀ {s xs ch}, Filling c ac s xs ch →
    ∃ ch', (run s (es.map Op.push)).2
        = (List.range es.length).map (fun i => (⟨.ok, none, xs.length + i + 1, xs.length + i + 1⟩ : Out))
      ∧ Filling c ac (run s (es.map Op.push)).1 (xs ++ es) ch' := by
  induction es with
  | nil => intro s xs ch h; exact ⟨ch, by simp [run], by simpa [run] using h⟩
  | cons e es ih =>
    intro s xs ch h
    obtain ⟨ch1, hres, hfill⟩ := push_filling hc h e
    have hstep : step s (Op.push e) = ((push s e).1, ⟨.ok, none, xs.length + 1, xs.length + 1⟩) := by
      simp only [step]
      rw [← hres]
      have h1 := hfill.len
      have h2 := hfill.pos
      simp only [List.length_append, List.length_cons, List.length_nil] at h1 h2
      rw [h1, h2]
    obtain ⟨ch2, hout, hfill2⟩ := ih hfill
    refine ⟨ch2, ?_, ?_⟩
    · rw [List.map_cons, run_cons_clean _ _ _ (by rw [hstep]; simp)]
      simp only [hstep, List.length_cons, List.range_succ_eq_map, List.map_cons, List.map_map]
      rw [hout]
      congr 1
      apply List.map_congr_left
      intro i _
      simp only [List.length_append, List.length_cons, List.length_nil, Function.comp, Nat.succ_eq_add_one]
      have e1 : xs.length + 1 + i + 1 = xs.length + (i + 1) + 1 := by omega
      rw [e1]
    · rw [List.map_cons, run_cons_clean _ _ _ (by rw [hstep]; simp)]
      simp only [hstep]
      have : xs ++ e :: es = xs ++ [e] ++ es := by simp
      rw [this]; exact hfill2

/-! ### the draining phase -/

def fileElems (f : File) : List Elem :=
  match f.head with
  | some h => h :: f.rest
  | none => f.rest

def FileOK (f : File) : Prop := ∃ h, f.head = some h ∧ Sorted (h :: f.rest)

/-- the values still to be delivered in this cycle -/
def remaining (s : State) : List Elem :=
  if s.fast then (match s.chunk with | some L => L.drop s.pos | none => [])
  else s.files.flatMap fileElems

structure Draining (c : Nat) (ac : Bool) (p0 : Nat) (s : State) (n : Nat) : Prop where
  cs : s.chunkSize = c
  ac : s.autoClear = ac
  err : s.err = none
  len : s.len = n
  cnt : s.pos + (remaining s).length = n
  shape : (s.fast = true ∧ s.files = [] ∧
            ((∃ L, s.chunk = some L ∧ Sorted L ∧ s.pool ≤ p0)
              ∨ (s.chunk = none ∧ (1 ≤ s.pool ∧ s.pool ≤ p0 + 1))))
          ∨ (s.fast = false ∧ s.chunk = none ∧ (1 ≤ s.pool ∧ s.pool ≤ p0 + 1) ∧ ∀ f ∈ s.files, FileOK f)

theorem primeFile_ok {f : File} (hs : Sorted f.data) (hne : f.data ≠ []) :
    FileOK (primeFile f) ∧ fileElems (primeFile f) = f.data := by
  unfold primeFile
  cases hd : f.data with
  | nil => exact absurd hd hne
  | cons e r =>
    simp only
    refine ⟨⟨e, rfl, ?_⟩, ?_⟩
    · rw [hd] at hs; exact hs
    · simp [fileElems]

theorem flatMap_primeFile (fs : List File) (h : ∀ f ∈ fs, Sorted f.data ∧ f.data ≠ []) :
    (fs.map primeFile).flatMap fileElems = fs.flatMap (·.data) := by
  induction fs with
  | nil => rfl
  | cons f fs ih =>
    simp only [List.map_cons, List.flatMap_cons]
    rw [(primeFile_ok (h f (by simp)).1 (h f (by simp)).2).2, ih (fun g hg => h g (List.mem_cons_of_mem _ hg))]

/-- the state after a spilling `Finalise` -/
def diskFinal (s : State) (ch : List Elem) : State :=
  { s with fast := false, chunk := none, pool := s.pool + 1, pos := 0, files := (s.files ++ [mkFile (sortRun ch)]).map primeFile }

theorem finalise_filling {c ac s xs ch} (hc : 1 ≤ c) (h : Filling c ac s xs ch) :
    (finalise s).2 = .ok ∧ Draining c ac 0 (finalise s).1 xs.length ∧ (finalise s).1.pos = 0
      ∧ (remaining (finalise s).1).Perm xs := by
  have hcount := h.count
  by_cases hlt : s.pos < s.chunkSize
  · have hfin : finalise s = ({ s with fast := true, chunk := some (sortRun ch), pos := 0 }, .ok) := by
      simp [finalise, h.err, h.chunk, hlt]
    rw [hfin]
    have hfiles : s.files = [] := by
      cases hf : s.files with
      | nil => rfl
      | cons f fs =>
        exfalso
        rw [hf] at hcount
        simp only [List.length_cons, Nat.add_mul, Nat.one_mul] at hcount
        have := h.pos; have := h.cs; omega
    have hperm : (sortRun ch).Perm xs := by
      have := h.perm; rw [hfiles] at this
      exact (sortRun_perm ch).trans (by simpa using this)
    have hrem : remaining { s with fast := true, chunk := some (sortRun ch), pos := 0 } = sortRun ch := by
      simp [remaining]
    refine ⟨rfl, ⟨h.cs, h.ac, h.err, h.len, ?_, Or.inl ⟨rfl, hfiles, Or.inl ⟨_, rfl, sortRun_sorted ch, Nat.le_of_eq h.pool⟩⟩⟩, rfl, ?_⟩
    · rw [hrem]; simp [hperm.length_eq]
    · rw [hrem]; exact hperm
  · have hchpos : 0 < ch.length := by
      cases hf : s.files with
      | nil =>
        rw [hf] at hcount
        simp only [List.length_nil, Nat.zero_mul, Nat.zero_add] at hcount
        have := h.pos; have := h.cs; omega
      | cons f fs =>
        have := h.chPos (by rw [hf]; simp)
        cases ch with
        | nil => exact absurd rfl this
        | cons _ _ => simp
    have hfin : finalise s = (diskFinal s ch, .ok) := by
      simp [finalise, h.err, h.chunk, hlt, hchpos, h.pool, diskFinal]
    rw [hfin]
    have hne : ch ≠ [] := by intro h0; rw [h0] at hchpos; simp at hchpos
    have hruns : ∀ f ∈ s.files ++ [mkFile (sortRun ch)], Sorted f.data ∧ f.data ≠ [] := by
      intro f hf
      rcases List.mem_append.mp hf with hf | hf
      · exact h.runs f hf
      · simp only [List.mem_singleton] at hf
        subst hf
        exact ⟨sortRun_sorted ch, sortRun_ne_nil hne⟩
    have hrem : remaining (diskFinal s ch)
        = s.files.flatMap (·.data) ++ sortRun ch := by
      simp only [remaining, diskFinal, Bool.false_eq_true, if_false]
      rw [flatMap_primeFile _ hruns]
      simp [mkFile]
    have hperm : (s.files.flatMap (·.data) ++ sortRun ch).Perm xs :=
      (List.Perm.append_left _ (sortRun_perm ch)).trans h.perm
    refine ⟨rfl, ⟨h.cs, h.ac, h.err, h.len, ?_, Or.inr ⟨rfl, rfl, by simp [diskFinal, h.pool], ?_⟩⟩, rfl, ?_⟩
    · rw [hrem]; simp [hperm.length_eq, diskFinal]
    · intro f hf
      obtain ⟨g, hg, rfl⟩ := List.mem_map.mp hf
      exact (primeFile_ok (hruns g hg).1 (hruns g hg).2).1
    · rw [hrem]; exact hperm

theorem popMin_none {fs : List File} (h : popMin fs = none) : fs = [] := by
  cases fs with
  | nil => rfl
  | cons f fs =>
    simp only [popMin] at h
    split at h
    · simp at h
    · split at h <;> simp at h

theorem popMin_spec : ∀ (fs : List File) (low : File) (others : List File),
    popMin fs = some (low, others) →
    fs.Perm (low :: others) ∧ ∀ g ∈ others, headKey low ≤ headKey g := by
  intro fs
  induction fs with
  | nil => intro low others h; simp [popMin] at h
  | cons f fs ih =>
    intro low others h
    simp only [popMin] at h
    split at h
    · rename_i hn
      have := popMin_none hn
      subst this
      simp only [Option.some.injEq, Prod.mk.injEq] at h
      obtain ⟨rfl, rfl⟩ := h
      exact ⟨List.Perm.refl _, by simp⟩
    · rename_i g gs hs
      obtain ⟨hp, hmin⟩ := ih g gs hs
      split at h
      · rename_i hle
        simp only [Option.some.injEq, Prod.mk.injEq] at h
        obtain ⟨rfl, rfl⟩ := h
        refine ⟨List.Perm.refl _, ?_⟩
        intro x hx
        rcases List.mem_cons.mp (hp.mem_iff.mp hx) with rfl | hx'
        · exact hle
        · exact Int.le_trans hle (hmin x hx')
      · rename_i hnle
        simp only [Option.some.injEq, Prod.mk.injEq] at h
        obtain ⟨rfl, rfl⟩ := h
        refine ⟨(List.Perm.cons f hp).trans (List.Perm.swap _ _ _), ?_⟩
        intro x hx
        rcases List.mem_cons.mp hx with rfl | hx'
        · omega
        · exact hmin x hx'

theorem fileElems_ok {f : File} (h : FileOK f) :
    ∃ hd, f.head = some hd ∧ fileElems f = hd :: f.rest ∧ Sorted (hd :: f.rest) := by
  obtain ⟨hd, hh, hs⟩ := h
  exact ⟨hd, hh, by simp [fileElems, hh], hs⟩

theorem headKey_le_elems {f : File} (h : FileOK f) : ∀ x ∈ fileElems f, headKey f ≤ x.key := by
  obtain ⟨hd, hh, he, hs⟩ := fileElems_ok h
  intro x hx
  rw [he] at hx
  simp only [headKey, hh]
  rcases List.mem_cons.mp hx with rfl | hx'
  · exact Int.le_refl _
  · exact (List.pairwise_cons.mp hs).1 x hx'

/-- A `Pull` with values remaining delivers a minimum of them. -/
theorem pull_some {c ac p0 s n} (h : Draining c ac p0 s n) (hne : remaining s ≠ []) :
    ∃ e, (pull s).2.1 = .ok ∧ (pull s).2.2 = some e ∧ Draining c ac p0 (pull s).1 n
      ∧ (remaining s).Perm (e :: remaining (pull s).1)
      ∧ ∀ x ∈ remaining (pull s).1, e.key ≤ x.key := by
  rcases h.shape with ⟨hfast, hfiles, hch⟩ | ⟨hfast, hch, hpool, hok⟩
  · rcases hch with ⟨L, hL, hsort, hpool⟩ | ⟨hnone, _⟩
    · have hrem : remaining s = L.drop s.pos := by simp [remaining, hfast, hL]
      have hlt : s.pos < L.length := by
        rw [hrem] at hne
        cases Nat.lt_or_ge s.pos L.length with
        | inl h => exact h
        | inr h => exact absurd (List.drop_eq_nil_of_le h) hne
      have hpull : pull s = ({ s with pos := s.pos + 1 }, .ok, some L[s.pos]) := by
        simp [pull, hfast, hL, List.getElem?_eq_getElem hlt]
      rw [hpull]
      have hrem' : remaining { s with pos := s.pos + 1 } = L.drop (s.pos + 1) := by
        simp [remaining, hfast, hL]
      have hdrop := List.drop_eq_getElem_cons hlt
      refine ⟨L[s.pos], rfl, rfl, ⟨h.cs, h.ac, h.err, h.len, ?_, Or.inl ⟨hfast, hfiles, Or.inl ⟨L, hL, hsort, hpool⟩⟩⟩, ?_, ?_⟩
      · have := h.cnt
        rw [hrem, hdrop] at this
        rw [hrem']
        simp only [List.length_cons] at this
        show s.pos + 1 + _ = n
        omega
      · rw [hrem, hrem', hdrop]
      · rw [hrem']
        have hs : Sorted (L.drop s.pos) := List.Pairwise.drop hsort
        rw [hdrop] at hs
        exact (List.pairwise_cons.mp hs).1
    · exfalso; apply hne; simp [remaining, hfast, hnone]
  · have hrem : remaining s = s.files.flatMap fileElems := by simp [remaining, hfast]
    cases hpm : popMin s.files with
    | none =>
      exfalso; apply hne; rw [hrem, popMin_none hpm]; rfl
    | some p =>
      obtain ⟨low, others⟩ := p
      obtain ⟨hperm, hmin⟩ := popMin_spec _ _ _ hpm
      have hlow : FileOK low := hok low (hperm.mem_iff.mpr (by simp))
      have hothers : ∀ g ∈ others, FileOK g := fun g hg => hok g (hperm.mem_iff.mpr (List.mem_cons_of_mem _ hg))
      obtain ⟨hd, hh, he, hs⟩ := fileElems_ok hlow
      have hpermR : (remaining s).Perm (hd :: (low.rest ++ others.flatMap fileElems)) := by
        rw [hrem]
        refine (List.Perm.flatMap_right fileElems hperm).trans ?_
        simp [List.flatMap_cons, he]
      have hminO : ∀ x ∈ others.flatMap fileElems, hd.key ≤ x.key := by
        intro x hx
        obtain ⟨g, hg, hxg⟩ := List.mem_flatMap.mp hx
        have h1 := hmin g hg
        have h2 := headKey_le_elems (hothers g hg) x hxg
        simp only [headKey, hh] at h1
        exact Int.le_trans h1 h2
      have hminR : ∀ x ∈ low.rest, hd.key ≤ x.key := (List.pairwise_cons.mp hs).1
      cases hr : low.rest with
      | nil =>
        have hpull : pull s = ({ s with files := others, pos := s.pos + 1 }, .ok, some hd) := by
          simp [pull, hfast, hpm, hh, hr]
        rw [hpull]
        have hrem' : remaining { s with files := others, pos := s.pos + 1 } = others.flatMap fileElems := by
          simp [remaining, hfast]
        rw [hr] at hpermR
        refine ⟨hd, rfl, rfl, ⟨h.cs, h.ac, h.err, h.len, ?_, Or.inr ⟨hfast, hch, hpool, hothers⟩⟩, ?_, ?_⟩
        · have := h.cnt
          rw [hpermR.length_eq] at this
          rw [hrem']
          simp only [List.length_cons, List.nil_append] at this
          show s.pos + 1 + _ = n
          omega
        · rw [hrem']; simpa using hpermR
        · rw [hrem']; exact hminO
      | cons nx r =>
        have hpull : pull s = ({ s with files := { low with head := some nx, rest := r } :: others, pos := s.pos + 1 }, .ok, some hd) := by
          simp [pull, hfast, hpm, hh, hr]
        rw [hpull]
        have hrem' : remaining { s with files := { low with head := some nx, rest := r } :: others, pos := s.pos + 1 }
            = (nx :: r) ++ others.flatMap fileElems := by
          simp [remaining, hfast, fileElems]
        rw [hr] at hpermR hminR hs
        have hnew : FileOK { low with head := some nx, rest := r } :=
          ⟨nx, rfl, (List.pairwise_cons.mp hs).2⟩
        refine ⟨hd, rfl, rfl, ⟨h.cs, h.ac, h.err, h.len, ?_, Or.inr ⟨hfast, hch, hpool, ?_⟩⟩, ?_, ?_⟩
        · have := h.cnt
          rw [hpermR.length_eq] at this
          rw [hrem']
          simp only [List.length_cons, List.length_append] at this ⊢
          show s.pos + 1 + _ = n
          omega
        · intro g hg
          rcases List.mem_cons.mp hg with rfl | hg'
          · exact hnew
          · exact hothers g hg'
        · rw [hrem']; exact hpermR
        · rw [hrem']
          intro x hx
          rcases List.mem_append.mp hx with hx | hx
          · exact hminR x hx
          · exact hminO x hx

/-! ### `Clear`, `io.EOF` -/

theorem clear_fresh_of {c ac p0} {s : State} (hcs : s.chunkSize = c) (hac : s.autoClear = ac)
    (hp : s.pool ≤ p0 + 1) (hch : s.pool = 0 → s.chunk ≠ none) : Fresh c ac p0 (clear s) := by
  unfold clear
  by_cases h0 : 0 < s.pool
  · rw [if_pos h0]
    exact ⟨hcs, hac, rfl, by show s.pool - 1 ≤ p0; omega, rfl, rfl, rfl, rfl⟩
  · rw [if_neg h0]
    have hp0 : s.pool = 0 := by omega
    refine ⟨hcs, hac, rfl, by show s.pool ≤ p0; omega, rfl, rfl, ?_, rfl⟩
    show s.chunk.map (fun _ => []) = some []
    cases hc : s.chunk with
    | none => exact absurd hc (hch hp0)
    | some _ => rfl

theorem clear_draining {c ac p0 s n} (h : Draining c ac p0 s n) : Fresh c ac p0 (clear s) := by
  apply clear_fresh_of h.cs h.ac
  · rcases h.shape with ⟨_, _, ⟨L, _, _, hp⟩ | ⟨_, hp⟩⟩ | ⟨_, _, hp, _⟩ <;> omega
  · intro hp0
    rcases h.shape with ⟨_, _, ⟨L, hL, _, _⟩ | ⟨_, hp⟩⟩ | ⟨_, _, hp, _⟩
    · rw [hL]; simp
    · omega
    · omega

theorem clear_fresh {c ac p0 s} (h : Fresh c ac p0 s) : Fresh c ac p0 (clear s) := by
  apply clear_fresh_of h.cs h.ac
  · have := h.pool; omega
  · intro _; rw [h.chunk]; simp

/-- the sorter has reported (or is about to report) `io.EOF` for this cycle -/
def AtEof (c : Nat) (ac : Bool) (p0 : Nat) (s : State) (n : Nat) : Prop :=
  (Draining c ac p0 s n ∧ remaining s = []) ∨ (ac = true ∧ Fresh c ac p0 s)

def eofOut (ac : Bool) (n : Nat) : Out := ⟨.eof, none, if ac then 0 else n, if ac then 0 else n⟩

theorem files_nil_of_remaining {s : State} (hok : ∀ f ∈ s.files, FileOK f)
    (h : s.files.flatMap fileElems = []) : s.files = [] := by
  cases hf : s.files with
  | nil => rfl
  | cons f fs =>
    exfalso
    rw [hf] at h hok
    obtain ⟨hd, _, he, _⟩ := fileElems_ok (hok f (by simp))
    simp [List.flatMap_cons, he] at h

/-- the state after the in-memory path has handed its buffer back -/
def eofState (s : State) : State := { s with pool := s.pool + 1, chunk := none }

theorem eofState_clear_fresh {c ac p0} {s : State} (hcs : s.chunkSize = c) (hac : s.autoClear = ac)
    (hp : s.pool ≤ p0) : Fresh c ac p0 (clear (eofState s)) := by
  apply clear_fresh_of (s := eofState s) hcs hac
  · show s.pool + 1 ≤ p0 + 1; omega
  · intro h; exfalso; have : s.pool + 1 = 0 := h; omega

theorem pull_eof {c ac p0 s n} (hp0 : p0 ≤ 1) (h : Draining c ac p0 s n) (hr : remaining s = []) :
    (pull s).2 = (.eof, none) ∧ AtEof c ac p0 (pull s).1 n
      ∧ (ac = true → Fresh c ac p0 (pull s).1) ∧ (ac = false → (pull s).1.len = n ∧ (pull s).1.pos = n) := by
  have hcnt := h.cnt
  rw [hr] at hcnt
  simp only [List.length_nil, Nat.add_zero] at hcnt
  rcases h.shape with ⟨hfast, hfiles, hch⟩ | ⟨hfast, hch, hpool, hok⟩
  · rcases hch with ⟨L, hL, hsort, hpool⟩ | ⟨hnone, hpool⟩
    · have hge : L.length ≤ s.pos := by
        have : L.drop s.pos = [] := by simpa [remaining, hfast, hL] using hr
        exact List.drop_eq_nil_iff.mp this
      have hget : L[s.pos]? = none := List.getElem?_eq_none hge
      have hlt2 : ¬ 2 ≤ s.pool := by omega
      cases ac with
      | true =>
        have hpull : pull s = (clear (eofState s), .eof, none) := by
          simp [pull, hfast, hL, hget, hlt2, h.ac, eofState]
        rw [hpull]
        have hf : Fresh c true p0 (clear (eofState s)) := eofState_clear_fresh h.cs h.ac hpool
        exact ⟨rfl, Or.inr ⟨rfl, hf⟩, fun _ => hf, fun hc => by simp at hc⟩
      | false =>
        have hpull : pull s = (eofState s, .eof, none) := by
          simp [pull, hfast, hL, hget, hlt2, h.ac, eofState]
        rw [hpull]
        have hrem' : remaining (eofState s) = [] := by
          simp [remaining, hfast, eofState]
        have hd : Draining c false p0 (eofState s) n :=
          ⟨h.cs, h.ac, h.err, h.len, by rw [hrem']; simpa [eofState] using hcnt,
           Or.inl ⟨hfast, hfiles, Or.inr ⟨rfl, by show 1 ≤ s.pool + 1 ∧ s.pool + 1 ≤ p0 + 1; omega⟩⟩⟩
        exact ⟨rfl, Or.inl ⟨hd, hrem'⟩, fun hc => by simp at hc, fun _ => ⟨h.len, hcnt⟩⟩
    · cases ac with
      | true =>
        have hpull : pull s = (clear s, .eof, none) := by simp [pull, hfast, hnone, h.ac]
        rw [hpull]
        have hf : Fresh c true p0 (clear s) := clear_draining h
        exact ⟨rfl, Or.inr ⟨rfl, hf⟩, fun _ => hf, fun hc => by simp at hc⟩
      | false =>
        have hpull : pull s = (s, .eof, none) := by simp [pull, hfast, hnone, h.ac]
        rw [hpull]
        exact ⟨rfl, Or.inl ⟨h, hr⟩, fun hc => by simp at hc, fun _ => ⟨h.len, hcnt⟩⟩
  · have hfl : s.files = [] := files_nil_of_remaining hok (by simpa [remaining, hfast] using hr)
    cases ac with
    | true =>
      have hpull : pull s = (clear s, .eof, none) := by simp [pull, hfast, hfl, popMin, h.ac]
      rw [hpull]
      have hf : Fresh c true p0 (clear s) := clear_draining h
      exact ⟨rfl, Or.inr ⟨rfl, hf⟩, fun _ => hf, fun hc => by simp at hc⟩
    | false =>
      have hpull : pull s = (s, .eof, none) := by simp [pull, hfast, hfl, popMin, h.ac]
      rw [hpull]
      exact ⟨rfl, Or.inl ⟨h, hr⟩, fun hc => by simp at hc, fun _ => ⟨h.len, hcnt⟩⟩

theorem pull_fresh_ac {c p0 s} (hp0 : p0 ≤ 1) (h : Fresh c true p0 s) : (pull s).2 = (.eof, none) ∧ Fresh c true p0 (pull s).1 := by
  cases hfast : s.fast with
  | true =>
    have hpull : pull s = (clear (eofState s), .eof, none) := by
      have hlt2 : ¬ 2 ≤ s.pool := by have := h.pool; omega
      simp [pull, hfast, h.chunk, hlt2, h.ac, eofState]
    rw [hpull]
    exact ⟨rfl, eofState_clear_fresh h.cs h.ac h.pool⟩
  | false =>
    have hpull : pull s = (clear s, .eof, none) := by simp [pull, hfast, h.files, popMin, h.ac]
    rw [hpull]
    exact ⟨rfl, clear_fresh h⟩

theorem step_pull_ateof {c ac p0 s n} (hp0 : p0 ≤ 1) (h : AtEof c ac p0 s n) :
    (step s .pull).2 = eofOut ac n ∧ AtEof c ac p0 (step s .pull).1 n
      ∧ (ac = true → Fresh c ac p0 (step s .pull).1) := by
  have hstep : step s .pull = ((pull s).1, ⟨(pull s).2.1, (pull s).2.2, (pull s).1.len, (pull s).1.pos⟩) := rfl
  rw [hstep]
  rcases h with ⟨hd, hr⟩ | ⟨hac, hf⟩
  · obtain ⟨h1, h2, h3, h4⟩ := pull_eof hp0 hd hr
    refine ⟨?_, h2, h3⟩
    cases ac with
    | true =>
      have hf := h3 rfl
      simp only [h1, eofOut, if_true]
      rw [hf.len, hf.pos]
    | false =>
      obtain ⟨hl, hp⟩ := h4 rfl
      simp only [h1, eofOut, Bool.false_eq_true, if_false]
      rw [hl, hp]
  · subst hac
    obtain ⟨h1, h2⟩ := pull_fresh_ac hp0 hf
    refine ⟨?_, Or.inr ⟨rfl, h2⟩, fun _ => h2⟩
    simp only [h1, eofOut, if_true]
    rw [h2.len, h2.pos]

/-! ### sequences of pulls -/

theorem run_pull_cons (s : State) (k : Nat)
    (h : (step s .pull).2.res ≠ .hang ∧ (step s .pull).2.res ≠ .panic) :
    run s (List.replicate (k + 1) Op.pull)
      = ((run (step s .pull).1 (List.replicate k Op.pull)).1,
         (step s .pull).2 :: (run (step s .pull).1 (List.replicate k Op.pull)).2) := by
  rw [List.replicate_succ]; exact run_cons_clean s _ _ h

theorem eofs_run {c ac p0 n} (hp0 : p0 ≤ 1) : ∀ (k : Nat) {s : State}, AtEof c ac p0 s n →
    (run s (List.replicate k Op.pull)).2 = (List.range k).map (fun _ => eofOut ac n)
    ∧ AtEof c ac p0 (run s (List.replicate k Op.pull)).1 n
    ∧ (ac = true → (0 < k ∨ Fresh c ac p0 s) → Fresh c ac p0 (run s (List.replicate k Op.pull)).1) := by
  intro k
  induction k with
  | zero =>
    intro s h
    refine ⟨by simp [run], by simpa [run] using h, ?_⟩
    intro _ hk
    rcases hk with hk | hk
    · omega
    · simpa [run] using hk
  | succ k ih =>
    intro s h
    obtain ⟨h1, h2, h3⟩ := step_pull_ateof hp0 h
    have hclean : (step s .pull).2.res ≠ .hang ∧ (step s .pull).2.res ≠ .panic := by
      rw [h1]; simp [eofOut]
    obtain ⟨i1, i2, i3⟩ := ih h2
    rw [run_pull_cons s k hclean]
    refine ⟨?_, i2, ?_⟩
    · simp only [List.range_succ_eq_map, List.map_cons, List.map_map]
      rw [h1, i1]
      simp [Function.comp_def]
    · intro hac _
      exact i3 hac (Or.inr (h3 hac))

def pullOuts (ac : Bool) (n p : Nat) (ys : List Elem) (k : Nat) : List Out :=
  (List.range k).map (fun j =>
    match ys[j]? with
    | some e => (⟨.ok, some e, n, p + j + 1⟩ : Out)
    | none => eofOut ac n)

theorem pullOuts_succ (ac : Bool) (n p : Nat) (e : Elem) (ys : List Elem) (k : Nat) :
    pullOuts ac n p (e :: ys) (k + 1) = ⟨.ok, some e, n, p + 1⟩ :: pullOuts ac n (p + 1) ys k := by
  simp only [pullOuts, List.range_succ_eq_map, List.map_cons, List.map_map]
  congr 1
  apply List.map_congr_left
  intro j _
  simp only [Function.comp, Nat.succ_eq_add_one, List.getElem?_cons_succ]
  have : p + (j + 1) + 1 = p + 1 + j + 1 := by omega
  rw [this]

/-- `k` pulls from a draining state deliver the first `k` entries of one sorted enumeration
    `ys` of the remaining values, then `io.EOF`. -/
theorem pulls_run {c ac p0 n} (hp0 : p0 ≤ 1) : ∀ (m : Nat) {s : State}, Draining c ac p0 s n → (remaining s).length = m →
    ∃ ys, ys.Perm (remaining s) ∧ Sorted ys ∧ ∀ k,
      (run s (List.replicate k Op.pull)).2 = pullOuts ac n s.pos ys k
      ∧ (Draining c ac p0 (run s (List.replicate k Op.pull)).1 n ∨ Fresh c ac p0 (run s (List.replicate k Op.pull)).1)
      ∧ (ac = true → m < k → Fresh c ac p0 (run s (List.replicate k Op.pull)).1) := by
  intro m
  induction m with
  | zero =>
    intro s h hm
    have hr : remaining s = [] := List.eq_nil_of_length_eq_zero hm
    refine ⟨[], by rw [hr], by simp [Sorted], ?_⟩
    intro k
    obtain ⟨h1, h2, h3⟩ := eofs_run (c := c) (ac := ac) (n := n) hp0 k (Or.inl ⟨h, hr⟩)
    refine ⟨?_, ?_, fun hac hk => h3 hac (Or.inl hk)⟩
    · rw [h1]; simp [pullOuts]
    · rcases h2 with ⟨hd, _⟩ | ⟨_, hf⟩
      · exact Or.inl hd
      · exact Or.inr hf
  | succ m ih =>
    intro s h hm
    have hne : remaining s ≠ [] := by intro h0; rw [h0] at hm; simp at hm
    obtain ⟨e, hres, hval, hd', hperm, hmin⟩ := pull_some h hne
    have hlen' : (remaining (pull s).1).length = m := by
      have := hperm.length_eq; simp only [List.length_cons] at this; omega
    obtain ⟨ys', hp', hs', hk'⟩ := ih hd' hlen'
    have hpos' : (pull s).1.pos = s.pos + 1 := by
      have a := h.cnt; have b := hd'.cnt; omega
    have hstep : step s .pull = ((pull s).1, ⟨.ok, some e, n, s.pos + 1⟩) := by
      show ((pull s).1, (⟨(pull s).2.1, (pull s).2.2, (pull s).1.len, (pull s).1.pos⟩ : Out)) = _
      rw [hres, hval, hd'.len, hpos']
    refine ⟨e :: ys', ((List.Perm.cons e hp').trans hperm.symm), ?_, ?_⟩
    · refine List.pairwise_cons.mpr ⟨?_, hs'⟩
      intro x hx
      exact hmin x (hp'.mem_iff.mp hx)
    · intro k
      cases k with
      | zero =>
        refine ⟨by simp [run, pullOuts], Or.inl (by simpa [run] using h), fun _ hk => by omega⟩
      | succ k =>
        obtain ⟨o1, o2, o3⟩ := hk' k
        rw [run_pull_cons s k (by rw [hstep]; simp)]
        simp only [hstep]
        rw [hpos'] at o1
        refine ⟨?_, o2, fun hac hk => o3 hac (by omega)⟩
        rw [pullOuts_succ, o1]

theorem step_finalise (s : State) :
    step s .finalise = ((finalise s).1, ⟨(finalise s).2, none, (finalise s).1.len, (finalise s).1.pos⟩) := rfl

theorem step_clear (s : State) : step s .clear = (clear s, ⟨.ok, none, (clear s).len, (clear s).pos⟩) := rfl

/-! ### one whole cycle -/

theorem pullOuts_clean (ac : Bool) (n p : Nat) (ys : List Elem) (k : Nat) : Clean (pullOuts ac n p ys k) := by
  intro o ho
  simp only [pullOuts, List.mem_map] at ho
  obtain ⟨j, _, rfl⟩ := ho
  split <;> simp [eofOut]

theorem pullOuts_zero (ac : Bool) (n : Nat) (ys : List Elem) (k : Nat) :
    pullOuts ac n 0 ys k = (List.range k).map (fun j =>
          match ys[j]? with
          | some e => (⟨.ok, some e, n, j + 1⟩ : Out)
          | none => ⟨.eof, none, if ac then 0 else n, if ac then 0 else n⟩) := by
  simp [pullOuts, eofOut]

theorem run_tail_clear {c ac p0 n} (b : Bool) {s : State} (h : Draining c ac p0 s n ∨ Fresh c ac p0 s) :
    (run s (if b then [Op.clear] else [])).2 = (if b then [(⟨.ok, none, 0, 0⟩ : Out)] else [])
    ∧ (b = true → Fresh c ac p0 (run s (if b then [Op.clear] else [])).1)
    ∧ (b = false → (run s (if b then [Op.clear] else [])).1 = s) := by
  cases b with
  | false => simp [run]
  | true =>
    have hf : Fresh c ac p0 (clear s) := by
      rcases h with h | h
      · exact clear_draining h
      · exact clear_fresh h
    have hrun : run s [Op.clear] = (clear s, [⟨.ok, none, (clear s).len, (clear s).pos⟩]) := by
      rw [run_cons_clean s .clear [] (by rw [step_clear]; simp)]
      simp [run, step_clear]
    simp only [if_true]
    rw [hrun, hf.len, hf.pos]
    exact ⟨rfl, fun _ => hf, fun h => by simp at h⟩

/-- One use cycle started in a fresh state produces exactly the outputs the property demands,
    for some sorted enumeration `ys` of what was pushed; a closed cycle ends fresh. -/
theorem cycle_spec {c : Nat} {ac : Bool} (hc : 1 ≤ c) (cy : Cycle) {s : State} (h : Fresh c ac 0 s) :
    ∃ ys, SortedPermOf ys cy.pushes ∧ (run s cy.ops).2 = specCycle ac ys cy
      ∧ Clean (run s cy.ops).2 ∧ (cy.closed ac = true → Fresh c ac 0 (run s cy.ops).1) := by
  -- pushes
  obtain ⟨ch1, hout1, hfill1⟩ := pushes_run (c := c) (ac := ac) hc cy.pushes h.filling
  simp only [List.length_nil, Nat.zero_add, List.nil_append] at hout1 hfill1
  have hclean1 : Clean (run s (cy.pushes.map Op.push)).2 := by
    rw [hout1]; intro o ho
    simp only [List.mem_map] at ho
    obtain ⟨i, _, rfl⟩ := ho
    simp
  -- finalise
  obtain ⟨hres2, hdr2, hpos2, hperm2⟩ := finalise_filling hc hfill1
  -- pulls
  obtain ⟨ys, hpys, hsys, hk⟩ := pulls_run (c := c) (ac := ac) (p0 := 0) (n := cy.pushes.length) (Nat.zero_le 1) _ hdr2 rfl
  obtain ⟨hout3, hend3, hfresh3⟩ := hk cy.pulls
  rw [hpos2] at hout3
  have hysperm : ys.Perm cy.pushes := hpys.trans hperm2
  obtain ⟨hout4, hfresh4, hsame4⟩ := run_tail_clear (c := c) (ac := ac) (p0 := 0) cy.clear hend3
  refine ⟨ys, ⟨hysperm, hsys⟩, ?_⟩
  -- assemble the run
  have hfinclean : (step (run s (cy.pushes.map Op.push)).1 .finalise).2.res ≠ .hang
      ∧ (step (run s (cy.pushes.map Op.push)).1 .finalise).2.res ≠ .panic := by
    rw [step_finalise]; simp [hres2]
  have hrun : run s cy.ops = ((run (run (finalise (run s (cy.pushes.map Op.push)).1).1 (List.replicate cy.pulls Op.pull)).1
        (if cy.clear then [Op.clear] else [])).1, specCycle ac ys cy) := by
    unfold Cycle.ops
    rw [run_append s _ _ hclean1, run_cons_clean _ _ _ hfinclean]
    simp only [step_finalise]
    rw [run_append _ _ _ (by rw [hout3]; exact pullOuts_clean _ _ _ _ _)]
    rw [hout1, hout3, hout4, hres2, hdr2.len, hpos2, pullOuts_zero]
    rfl
  rw [hrun]
  refine ⟨rfl, ?_, ?_⟩
  · intro o ho
    simp only [specCycle, List.mem_append, List.mem_cons, List.mem_map] at ho
    rcases ho with ⟨i, _, rfl⟩ | rfl | ⟨j, _, rfl⟩ | ho
    · simp
    · simp
    · split <;> simp
    · split at ho
      · simp only [List.mem_singleton] at ho; subst ho; simp
      · simp at ho
  · intro hclosed
    simp only [Cycle.closed, Bool.or_eq_true, Bool.and_eq_true, decide_eq_true_eq] at hclosed
    show Fresh c ac 0 (run _ (if cy.clear then [Op.clear] else [])).1
    cases hcl : cy.clear with
    | true => rw [hcl] at hfresh4; exact hfresh4 rfl
    | false =>
      rw [hcl] at hsame4 hclosed
      rw [hsame4 rfl]
      rcases hclosed with hcc | ⟨hac, hlt⟩
      · simp at hcc
      · apply hfresh3 hac
        rw [hperm2.length_eq]; exact hlt

end Biogo.Morass
