/-
`NWAffine` (model `Biogo.AlignAff.nwAlign`): the table it fills is the reference table of
`Spec.AffineOpt` without the cross transitions, and its traceback reports pairs whose total
is the best value of the last cell.  Core only.
-/
import Biogo.Proofs.AffineOpt
import Biogo.Proofs.AlignAffTable
import Biogo.Proofs.TraceSum

namespace Biogo.Proofs.NWAffine
open Biogo.Spec.Alignment Biogo.AlignAff Biogo.Spec.AffineOpt Biogo.Proofs.AffineAln
open Biogo.Proofs.AffineOpt Biogo.Proofs.AlignAffTable Biogo.Proofs.TraceSum

/-- the class of alignments `NWAffine` explores: global, no gap next to an opposite gap -/
def flN : Flags := ⟨false, false, false⟩

theorem max2_none_left (v : V) : max2 none v = v := by cases v <;> rfl

theorem max3_none (a b : V) : max3 a b none = max2 a b := by
  rcases a with _ | x <;> rcases b with _ | y <;> simp [max3, max2, vgt]
  by_cases h1 : x < y <;> by_cases h2 : y < x <;> simp [h1, h2] <;> omega

theorem gapVal_flN (o g : Int) (pd ps po : V) :
    gapVal flN o g pd ps po = max2 (vadd pd (o + g)) (vadd ps g) := by
  simp [gapVal, flN, max3_none]

theorem nwCell_eq (S : Matrix) (o : Int) : nwCell S o = optCell flN S o := by
  funext x pd pu lc y
  simp only [nwCell, optCell, gapVal_flN]
  simp [flN, emptyAt, max2_none_left]

theorem row0Tail_eq (S : Matrix) (o : Int) :
    ∀ (ys : List Nat) (l : V), row0Tail S l ys = optRow0Tail flN S o ⟨none, none, l⟩ ys := by
  intro ys
  induction ys with
  | nil => intro l; rfl
  | cons y ys ih =>
    intro l
    simp only [row0Tail, optRow0Tail, gapVal_flN]
    have : max2 (vadd none (o + S 0 y)) (vadd l (S 0 y)) = vadd l (S 0 y) := max2_none_left _
    rw [this, ih]
    simp [flN, emptyAt]

theorem nwRow0_eq (S : Matrix) (o : Int) (q : List Nat) :
    nwRow0 S o q = origin :: optRow0Tail flN S o origin q := by
  cases q with
  | nil => rfl
  | cons y ys =>
    simp only [nwRow0, optRow0Tail, gapVal_flN, origin]
    have : max2 (vadd (some 0) (o + S 0 y)) (vadd none (S 0 y)) = some (o + S 0 y) := by
      simp [vadd, max2, vgt]
    rw [this, row0Tail_eq S o]
    simp [flN, emptyAt]

theorem fillRows_nw_eq (S : Matrix) (o : Int) (q : List Nat) :
    ∀ (xs : List Nat) (b : Bool) (prev : List Cell),
      (if b then prev.headD noCell = origin
       else (prev.headD noCell).d = none ∧ (prev.headD noCell).l = none) →
      fillRows (nwFirst S o) (optCell flN S o) q b prev xs =
        fillRows (optFirst flN S o) (optCell flN S o) q b prev xs := by
  intro xs
  induction xs with
  | nil => intro b prev _; rfl
  | cons x xs ih =>
    intro b prev h
    have hfc : nwFirst S o b (prev.headD noCell) x = optFirst flN S o b (prev.headD noCell) x := by
      cases b with
      | true =>
        simp only [if_true] at h
        rw [h]
        simp only [nwFirst, optFirst, gapVal_flN, origin, if_true]
        simp [vadd, max2, vgt, flN, emptyAt]
      | false =>
        simp only [Bool.false_eq_true, if_false] at h
        simp only [nwFirst, optFirst, gapVal_flN, h.1, Bool.false_eq_true, if_false]
        simp [vadd, max2_none_left, flN, emptyAt]
    simp only [fillRows]
    rw [← hfc]
    congr 1
    apply ih
    simp only [Bool.false_eq_true, if_false, List.headD_cons]
    cases b <;> simp [nwFirst]

theorem nwRows_eq (S : Matrix) (o : Int) (r q : List Nat) :
    nwRows S o r q = optRows flN S o r q := by
  simp only [nwRows, optRows, nwRow0_eq, nwCell_eq]
  congr 1
  apply fillRows_nw_eq
  simp

/-! ### what the traceback needs to know about the table -/

structure NWFacts (T : Table) (S : Matrix) (o : Int) (r q : List Nat) : Prop where
  inner : ∀ i j, i < r.length → j < q.length →
    T.at (i + 1) (j + 1) =
      nwCell S o (r.getD i 0) (T.at i j) (T.at i (j + 1)) (T.at (i + 1) j) (q.getD j 0)
  orig : ∀ k v, (T.at 0 0).get k = some v → k = .m ∧ v = 0
  row0 : ∀ j, j < q.length → ∀ k v, (T.at 0 (j + 1)).get k = some v → k = .l
  col0 : ∀ i, i < r.length → ∀ k v, (T.at (i + 1) 0).get k = some v → k = .u

theorem nwTable_at (S : Matrix) (o : Int) (r q : List Nat) (i j : Nat) (hj : j ≤ q.length) :
    (nwTable S o r q).at i j = rowAt (optRows flN S o r q) i j := by
  unfold nwTable
  rw [nwRows_eq]
  exact mkTable_at _ _ i j
    (rows_all_len _ _ q r _ (row0_ok flN S o q).1) (by omega)

theorem nwTable_cellOK (S : Matrix) (o : Int) (r q : List Nat) (i j : Nat)
    (hi : i ≤ r.length) (hj : j ≤ q.length) :
    CellOK flN S o (r.take i) (q.take j) ((nwTable S o r q).at i j) := by
  rw [nwTable_at S o r q i j hj]
  exact optRows_ok flN S o r q i j hi hj

theorem nwTable_facts (S : Matrix) (o : Int) (r q : List Nat) : NWFacts (nwTable S o r q) S o r q where
  inner := by
    intro i j hi hj
    rw [nwTable_at S o r q (i + 1) (j + 1) (by omega), nwTable_at S o r q i j (by omega),
      nwTable_at S o r q i (j + 1) (by omega), nwTable_at S o r q (i + 1) j (by omega), nwCell_eq]
    exact rows_inner _ _ q r _ (row0_ok flN S o q).1 i j hi hj
  orig := by
    intro k v h
    have hc := nwTable_cellOK S o r q 0 0 (by omega) (by omega)
    simp only [List.take_zero] at hc
    have e := isOpt_unique (hc k) (cellOK_origin flN S o k)
    rw [e] at h
    cases k <;> simp [origin, Cell.get] at h
    exact ⟨rfl, h.symm⟩
  row0 := by
    intro j hj k v h
    have hc := nwTable_cellOK S o r q 0 (j + 1) (by omega) (by omega)
    simp only [List.take_zero] at hc
    cases k with
    | l => rfl
    | m =>
      have e := isOpt_unique (hc .m) (isOpt_m_rnil flN S o _)
      rw [e] at h
      have : (List.take (j + 1) q).isEmpty = false := by
        cases q with
        | nil => simp at hj
        | cons y ys => simp
      simp [flN, emptyAt, this] at h
    | u =>
      have e := isOpt_unique (hc .u) (isOpt_u_rnil flN S o _)
      rw [e] at h; cases h
  col0 := by
    intro i hi k v h
    have hc := nwTable_cellOK S o r q (i + 1) 0 (by omega) (by omega)
    simp only [List.take_zero] at hc
    cases k with
    | u => rfl
    | m =>
      have e := isOpt_unique (hc .m) (isOpt_m_qnil flN S o _)
      rw [e] at h
      have : (List.take (i + 1) r).isEmpty = false := by
        cases r with
        | nil => simp at hi
        | cons y ys => simp
      simp [flN, emptyAt, this] at h
    | l =>
      have e := isOpt_unique (hc .l) (isOpt_l_qnil flN S o _)
      rw [e] at h; cases h

/-! ### the traceback: some `case` always matches and the reported scores telescope -/

/-- in an inner cell some `case` of the traceback switch matches the current value -/
theorem exists_cand_of_inner {T : Table} {S : Matrix} {o : Int} {r q : List Nat} (i j : Nat)
    (hin : T.at (i + 1) (j + 1) =
      nwCell S o (r.getD i 0) (T.at i j) (T.at i (j + 1)) (T.at (i + 1) j) (q.getD j 0))
    (k : Kind) (v : Int) (h : (T.at (i + 1) (j + 1)).get k = some v) :
    ∃ cd ∈ cands false S o (r.getD i 0) (q.getD j 0), cd.1 = k ∧
      vadd ((predOf T (i + 1) (j + 1) cd.1).get cd.2.1) cd.2.2 = some v := by
  rw [hin] at h
  cases k with
  | m =>
    simp only [Cell.get, nwCell] at h
    obtain ⟨hsel, _⟩ := max3_spec (T.at i j).d (T.at i j).u (T.at i j).l
    rcases hsel with e | e | e <;> rw [e] at h
    · exact ⟨(.m, .m, S (r.getD i 0) (q.getD j 0)), by simp [cands], rfl, by simpa [predOf, Cell.get] using h⟩
    · exact ⟨(.m, .u, S (r.getD i 0) (q.getD j 0)), by simp [cands], rfl, by simpa [predOf, Cell.get] using h⟩
    · exact ⟨(.m, .l, S (r.getD i 0) (q.getD j 0)), by simp [cands], rfl, by simpa [predOf, Cell.get] using h⟩
  | u =>
    simp only [Cell.get, nwCell] at h
    obtain ⟨hsel, _⟩ := max2_spec (vadd (T.at i (j + 1)).d (o + S (r.getD i 0) 0)) (vadd (T.at i (j + 1)).u (S (r.getD i 0) 0))
    rcases hsel with e | e <;> rw [e] at h
    · exact ⟨(.u, .m, o + S (r.getD i 0) 0), by simp [cands], rfl, by simpa [predOf, Cell.get] using h⟩
    · exact ⟨(.u, .u, S (r.getD i 0) 0), by simp [cands], rfl, by simpa [predOf, Cell.get] using h⟩
  | l =>
    simp only [Cell.get, nwCell] at h
    obtain ⟨hsel, _⟩ := max2_spec (vadd (T.at (i + 1) j).d (o + S 0 (q.getD j 0))) (vadd (T.at (i + 1) j).l (S 0 (q.getD j 0)))
    rcases hsel with e | e <;> rw [e] at h
    · exact ⟨(.l, .m, o + S 0 (q.getD j 0)), by simp [cands], rfl, by simpa [predOf, Cell.get] using h⟩
    · exact ⟨(.l, .l, S 0 (q.getD j 0)), by simp [cands], rfl, by simpa [predOf, Cell.get] using h⟩

theorem exists_cand {T : Table} {S : Matrix} {o : Int} {r q : List Nat} (F : NWFacts T S o r q)
    (i j : Nat) (hi : i < r.length) (hj : j < q.length) (k : Kind) (v : Int)
    (h : (T.at (i + 1) (j + 1)).get k = some v) :
    ∃ cd ∈ cands false S o (r.getD i 0) (q.getD j 0), cd.1 = k ∧
      vadd ((predOf T (i + 1) (j + 1) cd.1).get cd.2.1) cd.2.2 = some v :=
  exists_cand_of_inner i j (F.inner i j hi hj) k v h

theorem loop_good (aware : Bool) {T : Table} {S : Matrix} {o : Int} {r q : List Nat} (F : NWFacts T S o r q)
    (B : Int) :
    ∀ (fuel : Nat) (st : TB), Good T r.length q.length B st → st.i + st.j ≤ fuel →
      ∃ st', tbLoop aware false T S o r q r.length q.length fuel st = .ok st' ∧
        Good T r.length q.length B st' ∧ (st'.i = 0 ∨ st'.j = 0) := by
  intro fuel st hg hf
  obtain ⟨st', h1, h2, h3⟩ := loop_good_gen aware false r.length q.length
    (fun i j hi hj k v hv _ => exists_cand F i j hi hj k v hv) B fuel st hg hf
  refine ⟨st', h1, h2, ?_⟩
  rcases h3 with h | h | h
  · exact Or.inl h
  · exact Or.inr h
  · exact absurd h.1 (by simp)

/-! ### a witness: non-empty sequences have a global alignment without adjacent opposite gaps -/

theorem projR_mapU (xs : List Nat) : projR (xs.map .u) = xs := by
  induction xs with
  | nil => rfl
  | cons x xs ih => simp [projR, ih]

theorem projQ_mapU (xs : List Nat) : projQ (xs.map .u) = [] := by
  induction xs with
  | nil => rfl
  | cons x xs ih => simp [projQ, ih]

theorem projR_mapL (ys : List Nat) : projR (ys.map .l) = [] := by
  induction ys with
  | nil => rfl
  | cons y ys ih => simp [projR, ih]

theorem projQ_mapL (ys : List Nat) : projQ (ys.map .l) = ys := by
  induction ys with
  | nil => rfl
  | cons y ys ih => simp [projQ, ih]

theorem noAdjFrom_mapL (ys : List Nat) : ∀ p, p ≠ Kind.u → noAdjFrom p (ys.map .l) = true := by
  induction ys with
  | nil => intro p _; rfl
  | cons y ys ih =>
    intro p hp
    simp only [List.map_cons, noAdjFrom, Col.kind, Bool.and_eq_true]
    exact ⟨(compat_l p).mpr hp, ih .l (by decide)⟩

theorem noAdjFrom_mapU_append (xs : List Nat) (b : Aln) (hb : noAdjFrom .u b = true) :
    ∀ p, p ≠ Kind.l → noAdjFrom p b = true → noAdjFrom p (xs.map .u ++ b) = true := by
  induction xs with
  | nil => intro p _ h; exact h
  | cons x xs ih =>
    intro p hp _
    simp only [List.map_cons, List.cons_append, noAdjFrom, Col.kind, Bool.and_eq_true]
    exact ⟨(compat_u p).mpr hp, ih .u (by decide) hb⟩

theorem exists_global_noAdj (r q : List Nat) (hr : r ≠ []) (hq : q ≠ []) :
    ∃ a, IsGlobal a r q ∧ NoAdj a := by
  obtain ⟨r', x, rfl⟩ : ∃ r' x, r = r' ++ [x] := by
    rcases List.eq_nil_or_concat r with h | ⟨r', x, h⟩
    · exact absurd h hr
    · exact ⟨r', x, by rw [h, List.concat_eq_append]⟩
  obtain ⟨y, q', rfl⟩ : ∃ y q', q = y :: q' := by
    cases q with
    | nil => exact absurd rfl hq
    | cons y q' => exact ⟨y, q', rfl⟩
  refine ⟨r'.map .u ++ (.m x y :: q'.map .l), ⟨?_, ?_⟩, ?_⟩
  · rw [projR_append, projR_mapU]; simp [projR, projR_mapL]
  · rw [projQ_append, projQ_mapU]; simp [projQ, projQ_mapL]
  · show noAdj _ = true
    rw [noAdj_eq_from]
    have hm : ∀ p, noAdjFrom p (Col.m x y :: q'.map .l) = true := by
      intro p
      simp only [noAdjFrom, Col.kind, Bool.and_eq_true]
      exact ⟨compat_m p, noAdjFrom_mapL q' .m (by decide)⟩
    exact noAdjFrom_mapU_append r' _ (hm .u) .m (by decide) (hm .m)

/-! ### `nwAlign` -/

theorem cellBest_layer (e : Cell) :
    e.get (if vgt e.u e.d then (if vgt e.l e.u then .l else .u) else (if vgt e.l e.d then .l else .m))
      = cellBest e := by
  unfold cellBest max3
  cases h1 : vgt e.u e.d <;> simp only [Bool.false_eq_true, if_false, if_true]
  · cases h2 : vgt e.l e.d <;> simp [Cell.get]
  · cases h2 : vgt e.l e.u <;> simp [Cell.get]

/-- The pairs reported by the model of `NWAffine` add up to the best value of the last cell,
    which is the optimum over the global alignments without adjacent opposite gaps. -/
theorem nwAlign_total (S : Matrix) (o : Int) (r q : List Nat) (hr : r ≠ []) (hq : q ≠ []) :
    ∃ ps x, nwAlign S o r q = .ok ps ∧ globalOpt false S o r q = some x ∧ total ps = x := by
  have F := nwTable_facts S o r q
  have hbest : cellBest ((nwTable S o r q).at r.length q.length) = globalOpt false S o r q := by
    rw [nwTable_at S o r q _ _ (Nat.le_refl _)]; rfl
  obtain ⟨a, hga, hna⟩ := exists_global_noAdj r q hr hq
  obtain ⟨x, hx, _⟩ := (globalOpt_isOpt false S o r q).1 a ⟨hga, Or.inr hna⟩
  have hinit : Good (nwTable S o r q) r.length q.length x
      { i := r.length, j := q.length,
        layer := (if vgt ((nwTable S o r q).at r.length q.length).u ((nwTable S o r q).at r.length q.length).d
          then (if vgt ((nwTable S o r q).at r.length q.length).l ((nwTable S o r q).at r.length q.length).u then .l else .u)
          else (if vgt ((nwTable S o r q).at r.length q.length).l ((nwTable S o r q).at r.length q.length).d then .l else .m)),
        last := .m, score := 0, maxI := r.length, maxJ := q.length, aln := [] } := by
    refine ⟨Nat.le_refl _, Nat.le_refl _, x, ?_, by simp [total]⟩
    simp only []
    rw [cellBest_layer, hbest, hx]
  obtain ⟨st', hloop, ⟨_, _, v, hv, hsum⟩, hend⟩ :=
    loop_good true F x (r.length + q.length) _ hinit (Nat.le_refl _)
  unfold nwAlign nwAlignT
  simp only [hloop]
  by_cases hij : st'.i ≠ st'.j
  · rw [if_pos hij]
    refine ⟨_, x, rfl, hx, ?_⟩
    rw [total_cons]
    simp only [TB.emit, total_cons]
    by_cases hi0 : st'.i = 0
    · obtain ⟨j', hj'⟩ : ∃ j', st'.j = j' + 1 := ⟨st'.j - 1, by omega⟩
      have hv' : (nwTable S o r q).at 0 (j' + 1) = (nwTable S o r q).at st'.i st'.j := by rw [hi0, hj']
      have hl := F.row0 j' (by omega) st'.layer v (by rw [hv']; exact hv)
      simp only [hi0, if_true]
      rw [hl, hi0] at hv
      show vget (((nwTable S o r q).at 0 st'.j).get .l) + _ = x
      rw [hv]; simp only [vget]; omega
    · have hj0 : st'.j = 0 := by rcases hend with h | h; exact absurd h hi0; exact h
      obtain ⟨i', hi'⟩ : ∃ i', st'.i = i' + 1 := ⟨st'.i - 1, by omega⟩
      have hv' : (nwTable S o r q).at (i' + 1) 0 = (nwTable S o r q).at st'.i st'.j := by rw [hj0, hi']
      have hl := F.col0 i' (by omega) st'.layer v (by rw [hv']; exact hv)
      simp only [hi0, if_false]
      rw [hl] at hv
      rw [hv]; simp only [vget]; omega
  · have hij' : st'.i = st'.j := Decidable.not_not.mp hij
    rw [if_neg hij]
    refine ⟨_, x, rfl, hx, ?_⟩
    have hi0 : st'.i = 0 := by rcases hend with h | h; exact h; omega
    have hj0 : st'.j = 0 := by omega
    rw [hi0, hj0] at hv
    have := (F.orig st'.layer v hv).2
    simp only [TB.emit, total_cons]
    omega

end Biogo.Proofs.NWAffine
