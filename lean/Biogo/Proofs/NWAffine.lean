/-
`NWAffine` (model `Biogo.AlignAff.nwAlign`): the table it fills is the reference table of
`Spec.AffineOpt` — with the cross transitions since the repair of K1 (`cross = true`, the
code), without them before (`cross = false`) — and its traceback reports pairs whose total
is the best value of the last cell.  Core only.
-/
import Biogo.Proofs.AffineOpt
import Biogo.Proofs.AlignAffTable
import Biogo.Proofs.TraceSum

namespace Biogo.Proofs.NWAffine
open Biogo.Spec.Alignment Biogo.AlignAff Biogo.Spec.AffineOpt Biogo.Proofs.AffineAln
open Biogo.Proofs.AffineOpt Biogo.Proofs.AlignAffTable Biogo.Proofs.TraceSum

/-- the class of alignments `NWAffine` explores: global; all of them since the repair of K1
    (`cross = true`), before it those with no gap next to an opposite gap -/
def flN (cross : Bool) : Flags := ⟨cross, false, false⟩

theorem max2_none_left (v : V) : max2 none v = v := by cases v <;> rfl

theorem max3_none (a b : V) : max3 a b none = max2 a b := by
  rcases a with _ | x <;> rcases b with _ | y <;> simp [max3, max2, vgt]
  by_cases h1 : x < y <;> by_cases h2 : y < x <;> simp [h1, h2] <;> omega

/-- the model's gap layer is the reference recurrence, for either fill -/
theorem gapLayer_eq (fl : Flags) (o g : Int) (pd ps po : V) :
    gapLayer fl.cross o g pd ps po = gapVal fl o g pd ps po := by
  cases h : fl.cross <;> simp [gapLayer, gapVal, h, max3_none]

theorem gapVal_none_none (fl : Flags) (o g : Int) (ps : V) : gapVal fl o g none ps none = vadd ps g := by
  cases h : fl.cross <;> cases ps <;> simp [gapVal, h, vadd, max3, vgt]

theorem gapVal_some_none_none (fl : Flags) (o g d : Int) :
    gapVal fl o g (some d) none none = some (d + (o + g)) := by
  cases h : fl.cross <;> simp [gapVal, h, vadd, max3, vgt]

theorem nwCell_eq (cross : Bool) (S : Matrix) (o : Int) : nwCell cross S o = optCell (flN cross) S o := by
  funext x pd pu lc y
  have e1 := gapLayer_eq (flN cross) o (S x 0) pu.d pu.u pu.l
  have e2 := gapLayer_eq (flN cross) o (S 0 y) lc.d lc.l lc.u
  simp only [flN] at e1 e2
  simp only [nwCell, optCell, e1, e2]
  simp [flN, emptyAt, max2_none_left]

theorem row0Tail_eq (cross : Bool) (S : Matrix) (o : Int) :
    ∀ (ys : List Nat) (l : V), row0Tail S l ys = optRow0Tail (flN cross) S o ⟨none, none, l⟩ ys := by
  intro ys
  induction ys with
  | nil => intro l; rfl
  | cons y ys ih =>
    intro l
    simp only [row0Tail, optRow0Tail, gapVal_none_none]
    rw [ih]
    simp [flN, emptyAt]

theorem nwRow0_eq (cross : Bool) (S : Matrix) (o : Int) (q : List Nat) :
    nwRow0 S o q = origin :: optRow0Tail (flN cross) S o origin q := by
  cases q with
  | nil => rfl
  | cons y ys =>
    simp only [nwRow0, optRow0Tail, origin, gapVal_some_none_none]
    rw [row0Tail_eq cross S o]
    simp [flN, emptyAt]

theorem fillRows_nw_eq (cross : Bool) (S : Matrix) (o : Int) (q : List Nat) :
    ∀ (xs : List Nat) (b : Bool) (prev : List Cell),
      (if b then prev.headD noCell = origin
       else (prev.headD noCell).d = none ∧ (prev.headD noCell).l = none) →
      fillRows (nwFirst S o) (optCell (flN cross) S o) q b prev xs =
        fillRows (optFirst (flN cross) S o) (optCell (flN cross) S o) q b prev xs := by
  intro xs
  induction xs with
  | nil => intro b prev _; rfl
  | cons x xs ih =>
    intro b prev h
    have hfc : nwFirst S o b (prev.headD noCell) x = optFirst (flN cross) S o b (prev.headD noCell) x := by
      cases b with
      | true =>
        simp only [if_true] at h
        rw [h]
        simp only [nwFirst, optFirst, origin, if_true, gapVal_some_none_none]
        simp [flN, emptyAt]
      | false =>
        simp only [Bool.false_eq_true, if_false] at h
        simp only [nwFirst, optFirst, h.1, h.2, Bool.false_eq_true, if_false, gapVal_none_none]
        simp [flN, emptyAt]
    simp only [fillRows]
    rw [← hfc]
    congr 1
    apply ih
    simp only [Bool.false_eq_true, if_false, List.headD_cons]
    cases b <;> simp [nwFirst]

theorem nwRows_eq (cross : Bool) (S : Matrix) (o : Int) (r q : List Nat) :
    nwRows cross S o r q = optRows (flN cross) S o r q := by
  simp only [nwRows, optRows, nwRow0_eq cross, nwCell_eq]
  congr 1
  apply fillRows_nw_eq
  simp

/-! ### what the traceback needs to know about the table -/

structure NWFacts (cross : Bool) (T : Table) (S : Matrix) (o : Int) (r q : List Nat) : Prop where
  inner : ∀ i j, i < r.length → j < q.length →
    T.at (i + 1) (j + 1) =
      nwCell cross S o (r.getD i 0) (T.at i j) (T.at i (j + 1)) (T.at (i + 1) j) (q.getD j 0)
  orig : ∀ k v, (T.at 0 0).get k = some v → k = .m ∧ v = 0
  row0 : ∀ j, j < q.length → ∀ k v, (T.at 0 (j + 1)).get k = some v → k = .l
  col0 : ∀ i, i < r.length → ∀ k v, (T.at (i + 1) 0).get k = some v → k = .u

theorem nwTable_at (cross : Bool) (S : Matrix) (o : Int) (r q : List Nat) (i j : Nat) (hj : j ≤ q.length) :
    (nwTable cross S o r q).at i j = rowAt (optRows (flN cross) S o r q) i j := by
  unfold nwTable
  rw [nwRows_eq]
  exact mkTable_at _ _ i j
    (rows_all_len _ _ q r _ (row0_ok (flN cross) S o q).1) (by omega)

theorem nwTable_cellOK (cross : Bool) (S : Matrix) (o : Int) (r q : List Nat) (i j : Nat)
    (hi : i ≤ r.length) (hj : j ≤ q.length) :
    CellOK (flN cross) S o (r.take i) (q.take j) ((nwTable cross S o r q).at i j) := by
  rw [nwTable_at cross S o r q i j hj]
  exact optRows_ok (flN cross) S o r q i j hi hj

theorem nwTable_facts (cross : Bool) (S : Matrix) (o : Int) (r q : List Nat) :
    NWFacts cross (nwTable cross S o r q) S o r q where
  inner := by
    intro i j hi hj
    rw [nwTable_at cross S o r q (i + 1) (j + 1) (by omega), nwTable_at cross S o r q i j (by omega),
      nwTable_at cross S o r q i (j + 1) (by omega), nwTable_at cross S o r q (i + 1) j (by omega), nwCell_eq]
    exact rows_inner _ _ q r _ (row0_ok (flN cross) S o q).1 i j hi hj
  orig := by
    intro k v h
    have hc := nwTable_cellOK cross S o r q 0 0 (by omega) (by omega)
    simp only [List.take_zero] at hc
    have e := isOpt_unique (hc k) (cellOK_origin (flN cross) S o k)
    rw [e] at h
    cases k <;> simp [origin, Cell.get] at h
    exact ⟨rfl, h.symm⟩
  row0 := by
    intro j hj k v h
    have hc := nwTable_cellOK cross S o r q 0 (j + 1) (by omega) (by omega)
    simp only [List.take_zero] at hc
    cases k with
    | l => rfl
    | m =>
      have e := isOpt_unique (hc .m) (isOpt_m_rnil (flN cross) S o _)
      rw [e] at h
      have : (List.take (j + 1) q).isEmpty = false := by
        cases q with
        | nil => simp at hj
        | cons y ys => simp
      simp [flN, emptyAt, this] at h
    | u =>
      have e := isOpt_unique (hc .u) (isOpt_u_rnil (flN cross) S o _)
      rw [e] at h; cases h
  col0 := by
    intro i hi k v h
    have hc := nwTable_cellOK cross S o r q (i + 1) 0 (by omega) (by omega)
    simp only [List.take_zero] at hc
    cases k with
    | u => rfl
    | m =>
      have e := isOpt_unique (hc .m) (isOpt_m_qnil (flN cross) S o _)
      rw [e] at h
      have : (List.take (i + 1) r).isEmpty = false := by
        cases r with
        | nil => simp at hi
        | cons y ys => simp
      simp [flN, emptyAt, this] at h
    | l =>
      have e := isOpt_unique (hc .l) (isOpt_l_qnil (flN cross) S o _)
      rw [e] at h; cases h

/-! ### the traceback: some `case` always matches and the reported scores telescope -/

/-- a value of a gap layer comes from one of its predecessors: the match layer or (`cross`) the
    other gap layer with `gapOpen`, or the same gap layer without -/
theorem gapLayer_sel (cross : Bool) (o g : Int) (pd ps po : V) (v : Int)
    (h : gapLayer cross o g pd ps po = some v) :
    vadd pd (o + g) = some v ∨ vadd ps g = some v ∨ (cross = true ∧ vadd po (o + g) = some v) := by
  cases cross with
  | false =>
    simp only [gapLayer, Bool.false_eq_true, if_false] at h
    rcases (max2_spec (vadd pd (o + g)) (vadd ps g)).1 with e | e <;> rw [e] at h
    · exact Or.inl h
    · exact Or.inr (Or.inl h)
  | true =>
    simp only [gapLayer, if_true] at h
    rcases (max3_spec (vadd pd (o + g)) (vadd ps g) (vadd po (o + g))).1 with e | e | e <;> rw [e] at h
    · exact Or.inl h
    · exact Or.inr (Or.inl h)
    · exact Or.inr (Or.inr ⟨rfl, h⟩)

/-- in an inner cell some `case` of the traceback switch matches the current value -/
theorem exists_cand_of_inner {cross : Bool} {T : Table} {S : Matrix} {o : Int} {r q : List Nat} (i j : Nat)
    (hin : T.at (i + 1) (j + 1) =
      nwCell cross S o (r.getD i 0) (T.at i j) (T.at i (j + 1)) (T.at (i + 1) j) (q.getD j 0))
    (k : Kind) (v : Int) (h : (T.at (i + 1) (j + 1)).get k = some v) :
    ∃ cd ∈ cands cross false S o (r.getD i 0) (q.getD j 0), cd.1 = k ∧
      vadd ((predOf T (i + 1) (j + 1) cd.1).get cd.2.1) cd.2.2 = some v := by
  rw [hin] at h
  cases k with
  | m =>
    simp only [Cell.get, nwCell] at h
    obtain ⟨hsel, _⟩ := max3_spec (T.at i j).d (T.at i j).u (T.at i j).l
    rcases hsel with e | e | e <;> rw [e] at h
    · exact ⟨(.m, .m, S (r.getD i 0) (q.getD j 0)), by cases cross <;> simp [cands], rfl, by simpa [predOf, Cell.get] using h⟩
    · exact ⟨(.m, .u, S (r.getD i 0) (q.getD j 0)), by cases cross <;> simp [cands], rfl, by simpa [predOf, Cell.get] using h⟩
    · exact ⟨(.m, .l, S (r.getD i 0) (q.getD j 0)), by cases cross <;> simp [cands], rfl, by simpa [predOf, Cell.get] using h⟩
  | u =>
    simp only [Cell.get, nwCell] at h
    rcases gapLayer_sel cross o _ _ _ _ v h with e | e | ⟨hc, e⟩
    · exact ⟨(.u, .m, o + S (r.getD i 0) 0), by cases cross <;> simp [cands], rfl, by simpa [predOf, Cell.get] using e⟩
    · exact ⟨(.u, .u, S (r.getD i 0) 0), by cases cross <;> simp [cands], rfl, by simpa [predOf, Cell.get] using e⟩
    · subst hc
      exact ⟨(.u, .l, o + S (r.getD i 0) 0), by simp [cands], rfl, by simpa [predOf, Cell.get] using e⟩
  | l =>
    simp only [Cell.get, nwCell] at h
    rcases gapLayer_sel cross o _ _ _ _ v h with e | e | ⟨hc, e⟩
    · exact ⟨(.l, .m, o + S 0 (q.getD j 0)), by cases cross <;> simp [cands], rfl, by simpa [predOf, Cell.get] using e⟩
    · exact ⟨(.l, .l, S 0 (q.getD j 0)), by cases cross <;> simp [cands], rfl, by simpa [predOf, Cell.get] using e⟩
    · subst hc
      exact ⟨(.l, .u, o + S 0 (q.getD j 0)), by simp [cands], rfl, by simpa [predOf, Cell.get] using e⟩

theorem exists_cand {cross : Bool} {T : Table} {S : Matrix} {o : Int} {r q : List Nat} (F : NWFacts cross T S o r q)
    (i j : Nat) (hi : i < r.length) (hj : j < q.length) (k : Kind) (v : Int)
    (h : (T.at (i + 1) (j + 1)).get k = some v) :
    ∃ cd ∈ cands cross false S o (r.getD i 0) (q.getD j 0), cd.1 = k ∧
      vadd ((predOf T (i + 1) (j + 1) cd.1).get cd.2.1) cd.2.2 = some v :=
  exists_cand_of_inner i j (F.inner i j hi hj) k v h

theorem loop_good (aware : Bool) {cross : Bool} {T : Table} {S : Matrix} {o : Int} {r q : List Nat}
    (F : NWFacts cross T S o r q) (B : Int) :
    ∀ (fuel : Nat) (st : TB), Good T r.length q.length B st → st.i + st.j ≤ fuel →
      ∃ st', tbLoop aware cross false T S o r q r.length q.length fuel st = .ok st' ∧
        Good T r.length q.length B st' ∧ (st'.i = 0 ∨ st'.j = 0) := by
  intro fuel st hg hf
  obtain ⟨st', h1, h2, h3⟩ := loop_good_gen aware cross false r.length q.length
    (fun i j hi hj k v hv _ => exists_cand F i j hi hj k v hv) B fuel st hg hf
  refine ⟨st', h1, h2, ?_⟩
  rcases h3 with h | h | h
  · exact Or.inl h
  · exact Or.inr h
  · exact absurd h.1 (by simp)

/-! ### a witness: non-empty sequences have a global alignment without adjacent opposite gaps -/

theorem projR_mapU (xs : List Nat) : projR (xs.map .u) = xs := by
  induction xs with
  | nil => rfl
  | cons x xs ih => simp [projR, ih]

theorem projQ_mapU (xs : List Nat) : projQ (xs.map .u) = [] := by
  induction xs with
  | nil => rfl
  | cons x xs ih => simp [projQ, ih]

theorem projR_mapL (ys : List Nat) : projR (ys.map .l) = [] := by
  induction ys with
  | nil => rfl
  | cons y ys ih => simp [projR, ih]

theorem projQ_mapL (ys : List Nat) : projQ (ys.map .l) = ys := by
  induction ys with
  | nil => rfl
  | cons y ys ih => simp [projQ, ih]

theorem noAdjFrom_mapL (ys : List Nat) : ∀ p, p ≠ Kind.u → noAdjFrom p (ys.map .l) = true := by
  induction ys with
  | nil => intro p _; rfl
  | cons y ys ih =>
    intro p hp
    simp only [List.map_cons, noAdjFrom, Col.kind, Bool.and_eq_true]
    exact ⟨(compat_l p).mpr hp, ih .l (by decide)⟩

theorem noAdjFrom_mapU_append (xs : List Nat) (b : Aln) (hb : noAdjFrom .u b = true) :
    ∀ p, p ≠ Kind.l → noAdjFrom p b = true → noAdjFrom p (xs.map .u ++ b) = true := by
  induction xs with
  | nil => intro p _ h; exact h
  | cons x xs ih =>
    intro p hp _
    simp only [List.map_cons, List.cons_append, noAdjFrom, Col.kind, Bool.and_eq_true]
    exact ⟨(compat_u p).mpr hp, ih .u (by decide) hb⟩

theorem exists_global_noAdj (r q : List Nat) (hr : r ≠ []) (hq : q ≠ []) :
    ∃ a, IsGlobal a r q ∧ NoAdj a := by
  obtain ⟨r', x, rfl⟩ : ∃ r' x, r = r' ++ [x] := by
    rcases List.eq_nil_or_concat r with h | ⟨r', x, h⟩
    · exact absurd h hr
    · exact ⟨r', x, by rw [h, List.concat_eq_append]⟩
  obtain ⟨y, q', rfl⟩ : ∃ y q', q = y :: q' := by
    cases q with
    | nil => exact absurd rfl hq
    | cons y q' => exact ⟨y, q', rfl⟩
  refine ⟨r'.map .u ++ (.m x y :: q'.map .l), ⟨?_, ?_⟩, ?_⟩
  · rw [projR_append, projR_mapU]; simp [projR, projR_mapL]
  · rw [projQ_append, projQ_mapU]; simp [projQ, projQ_mapL]
  · show noAdj _ = true
    rw [noAdj_eq_from]
    have hm : ∀ p, noAdjFrom p (Col.m x y :: q'.map .l) = true := by
      intro p
      simp only [noAdjFrom, Col.kind, Bool.and_eq_true]
      exact ⟨compat_m p, noAdjFrom_mapL q' .m (by decide)⟩
    exact noAdjFrom_mapU_append r' _ (hm .u) .m (by decide) (hm .m)

/-! ### `nwAlign` -/

theorem cellBest_layer (e : Cell) : e.get (bestLayer e) = cellBest e := by
  unfold cellBest max3 bestLayer
  cases h1 : vgt e.u e.d <;> simp only [Bool.false_eq_true, if_false, if_true]
  · cases h2 : vgt e.l e.d <;> simp [Cell.get]
  · cases h2 : vgt e.l e.u <;> simp [Cell.get]

/-- The pairs reported by the model of `NWAffine` add up to the best value of the last cell,
    which is the optimum over the global alignments — all of them for the fill of the code
    (`cross = true`), those without adjacent opposite gaps for the fill before the repair of K1. -/
theorem nwAlignT_total (cross : Bool) (S : Matrix) (o : Int) (r q : List Nat) (hr : r ≠ []) (hq : q ≠ []) :
    ∃ ps x, (nwAlignT true cross S o r q).map (·.1) = .ok ps ∧ globalOpt cross S o r q = some x ∧
      total ps = x := by
  have F := nwTable_facts cross S o r q
  have hbest : cellBest ((nwTable cross S o r q).at r.length q.length) = globalOpt cross S o r q := by
    rw [nwTable_at cross S o r q _ _ (Nat.le_refl _)]; rfl
  obtain ⟨a, hga, hna⟩ := exists_global_noAdj r q hr hq
  obtain ⟨x, hx, _⟩ := (globalOpt_isOpt cross S o r q).1 a ⟨hga, Or.inr hna⟩
  have hinit : Good (nwTable cross S o r q) r.length q.length x
      { i := r.length, j := q.length,
        layer := bestLayer ((nwTable cross S o r q).at r.length q.length),
        last := .m, score := 0, maxI := r.length, maxJ := q.length, aln := [] } := by
    refine ⟨Nat.le_refl _, Nat.le_refl _, x, ?_, by simp [total]⟩
    simp only []
    rw [cellBest_layer, hbest, hx]
  obtain ⟨st', hloop, ⟨_, _, v, hv, hsum⟩, hend⟩ :=
    loop_good true F x (r.length + q.length) _ hinit (Nat.le_refl _)
  unfold nwAlignT
  simp only [hloop]
  by_cases hij : st'.i ≠ st'.j
  · rw [if_pos hij]
    refine ⟨_, x, rfl, hx, ?_⟩
    rw [total_cons]
    simp only [TB.emit, total_cons]
    by_cases hi0 : st'.i = 0
    · obtain ⟨j', hj'⟩ : ∃ j', st'.j = j' + 1 := ⟨st'.j - 1, by omega⟩
      have hv' : (nwTable cross S o r q).at 0 (j' + 1) = (nwTable cross S o r q).at st'.i st'.j := by rw [hi0, hj']
      have hl := F.row0 j' (by omega) st'.layer v (by rw [hv']; exact hv)
      simp only [hi0, if_true]
      rw [hl, hi0] at hv
      show vget (((nwTable cross S o r q).at 0 st'.j).get .l) + _ = x
      rw [hv]; simp only [vget]; omega
    · have hj0 : st'.j = 0 := by rcases hend with h | h; exact absurd h hi0; exact h
      obtain ⟨i', hi'⟩ : ∃ i', st'.i = i' + 1 := ⟨st'.i - 1, by omega⟩
      have hv' : (nwTable cross S o r q).at (i' + 1) 0 = (nwTable cross S o r q).at st'.i st'.j := by rw [hj0, hi']
      have hl := F.col0 i' (by omega) st'.layer v (by rw [hv']; exact hv)
      simp only [hi0, if_false]
      rw [hl] at hv
      rw [hv]; simp only [vget]; omega
  · have hij' : st'.i = st'.j := Decidable.not_not.mp hij
    rw [if_neg hij]
    refine ⟨_, x, rfl, hx, ?_⟩
    have hi0 : st'.i = 0 := by rcases hend with h | h; exact h; omega
    have hj0 : st'.j = 0 := by omega
    rw [hi0, hj0] at hv
    have := (F.orig st'.layer v hv).2
    simp only [TB.emit, total_cons]
    omega

/-- `nwAlign`, the model of the code: the total is the optimum over *all* global alignments -/
theorem nwAlign_total (S : Matrix) (o : Int) (r q : List Nat) (hr : r ≠ []) (hq : q ≠ []) :
    ∃ ps x, nwAlign S o r q = .ok ps ∧ globalOpt true S o r q = some x ∧ total ps = x :=
  nwAlignT_total true S o r q hr hq

/-- the fill before the repair of K1: the total is the optimum over the global alignments
    without adjacent opposite gaps -/
theorem nwAlignNoCross_total (S : Matrix) (o : Int) (r q : List Nat) (hr : r ≠ []) (hq : q ≠ []) :
    ∃ ps x, nwAlignNoCross S o r q = .ok ps ∧ globalOpt false S o r q = some x ∧ total ps = x :=
  nwAlignT_total false S o r q hr hq

end Biogo.Proofs.NWAffine
