/-
Lemmas about `trimSpace`, `lines` and `crlf` (Biogo.Go.BytesFeat) used by C02–C04 (feat).
-/
import Biogo.Go.BytesFeat

namespace Biogo.BytesFeat

theorem isSpace2_not_ascii {a b : UInt8} (h : isSpace2 a b = true) : isAsciiSpace b = false := by
  simp only [isSpace2, Bool.and_eq_true, Bool.or_eq_true, beq_iff_eq] at h
  rcases h with ⟨_, h | h⟩ <;> subst h <;> decide

theorem isSpace2_ascii_false {a c : UInt8} (hc : isAsciiSpace c = true) : isSpace2 a c = false := by
  cases h : isSpace2 a c with
  | false => rfl
  | true => rw [isSpace2_not_ascii h] at hc; exact absurd hc (by decide)

theorem isSpace3_ascii_false {a b c : UInt8} (hc : isAsciiSpace c = true) : isSpace3 a b c = false := by
  cases h : isSpace3 a b c with
  | false => rfl
  | true =>
    exfalso
    simp only [isAsciiSpace, Bool.or_eq_true, beq_iff_eq] at hc
    rcases hc with ((((h1 | h1) | h1) | h1) | h1) | h1 <;> subst h1 <;>
      simp [isSpace3] at h

/-! unfolding lemmas for `trimLeft` -/

theorem trimLeft_space {a : UInt8} (r : Bytes) (h : isAsciiSpace a = true) :
    trimLeft (a :: r) = trimLeft r := by
  rw [trimLeft.eq_def]; simp [h]

theorem trimLeft_one {a : UInt8} (h : ¬ isAsciiSpace a = true) : trimLeft [a] = [a] := by
  simp [trimLeft, h]

theorem trimLeft_two {a b : UInt8} (r : Bytes) (h : ¬ isAsciiSpace a = true) (h2 : isSpace2 a b = true) :
    trimLeft (a :: b :: r) = trimLeft r := by
  rw [trimLeft.eq_def]; simp [h, h2]

theorem trimLeft_two_keep {a b : UInt8} (h : ¬ isAsciiSpace a = true) (h2 : ¬ isSpace2 a b = true) :
    trimLeft [a, b] = [a, b] := by
  simp [trimLeft, h, h2]

theorem trimLeft_three {a b c : UInt8} (r : Bytes) (h : ¬ isAsciiSpace a = true) (h2 : ¬ isSpace2 a b = true)
    (h3 : isSpace3 a b c = true) : trimLeft (a :: b :: c :: r) = trimLeft r := by
  rw [trimLeft]; simp [h, h2, h3]

theorem trimLeft_three_keep {a b c : UInt8} (r : Bytes) (h : ¬ isAsciiSpace a = true) (h2 : ¬ isSpace2 a b = true)
    (h3 : ¬ isSpace3 a b c = true) : trimLeft (a :: b :: c :: r) = a :: b :: c :: r := by
  rw [trimLeft]; simp [h, h2, h3]

/-- appending an ASCII white-space byte does not change what is left after trimming on the
    left, except that an all-white string stays empty -/
theorem trimLeft_append_space (c : UInt8) (hc : isAsciiSpace c = true) (l : Bytes) :
    trimLeft (l ++ [c]) = trimLeft l ++ [c] ∨ (trimLeft (l ++ [c]) = [] ∧ trimLeft l = []) := by
  fun_induction trimLeft l with
  | case1 => right; simp [trimLeft, hc]
  | case2 a r ha ih =>
    rw [List.cons_append, trimLeft_space _ ha]
    exact ih
  | case3 a ha =>
    left
    have h2 : ¬ isSpace2 a c = true := by simp [isSpace2_ascii_false hc]
    show trimLeft [a, c] = [a] ++ [c]
    rw [trimLeft_two_keep ha h2]; rfl
  | case4 a ha b r hb ih =>
    rw [List.cons_append, List.cons_append, trimLeft_two _ ha hb]
    exact ih
  | case5 a ha b hb =>
    left
    have h3 : ¬ isSpace3 a b c = true := by simp [isSpace3_ascii_false hc]
    show trimLeft [a, b, c] = [a, b] ++ [c]
    rw [trimLeft_three_keep [] ha hb h3]; rfl
  | case6 a ha b hb c' r hc' ih =>
    rw [List.cons_append, List.cons_append, List.cons_append, trimLeft_three _ ha hb hc']
    exact ih
  | case7 a ha b hb c' r hc' =>
    left
    rw [List.cons_append, List.cons_append, List.cons_append, trimLeft_three_keep _ ha hb hc']

theorem trimRight_nil : trimRight [] = [] := by simp [trimRight, dropSpaceRev]

theorem trimRight_append_space (c : UInt8) (hc : isAsciiSpace c = true) (l : Bytes) :
    trimRight (l ++ [c]) = trimRight l := by
  unfold trimRight
  rw [List.reverse_append, List.reverse_singleton, List.singleton_append, dropSpaceRev.eq_def]
  simp [hc]

/-- `bytes.TrimSpace` ignores a trailing ASCII white-space byte (`\n`, `\r`, …) -/
theorem trimSpace_append_space (c : UInt8) (hc : isAsciiSpace c = true) (l : Bytes) :
    trimSpace (l ++ [c]) = trimSpace l := by
  unfold trimSpace
  rcases trimLeft_append_space c hc l with h | ⟨h1, h2⟩
  · rw [h, trimRight_append_space c hc]
  · rw [h1, h2]

theorem trimSpace_append_nl (l : Bytes) : trimSpace (l ++ [10]) = trimSpace l :=
  trimSpace_append_space 10 (by decide) l

theorem trimSpace_append_crnl (l : Bytes) : trimSpace (l ++ [13, 10]) = trimSpace l := by
  have : l ++ [13, 10] = (l ++ [13]) ++ [10] := by simp
  rw [this, trimSpace_append_nl, trimSpace_append_space 13 (by decide)]

/-! ### lines -/

theorem lines_nl (r : Bytes) : lines (10 :: r) = [10] :: lines r := by
  rw [lines]; simp

theorem lines_cons_nil {c : UInt8} (h : c ≠ 10) {r : Bytes} (hr : lines r = []) :
    lines (c :: r) = [[c]] := by
  rw [lines]; simp [h, hr]

theorem lines_cons_cons {c : UInt8} (h : c ≠ 10) {r l : Bytes} {ls : List Bytes} (hr : lines r = l :: ls) :
    lines (c :: r) = (c :: l) :: ls := by
  rw [lines]; simp [h, hr]

theorem crlf_nl (r : Bytes) : crlf (10 :: r) = 13 :: 10 :: crlf r := by
  rw [crlf]; simp

theorem crlf_cons_ne {c : UInt8} (h : c ≠ 10) (r : Bytes) : crlf (c :: r) = c :: crlf r := by
  rw [crlf]; simp [h]

/-- the lines of the CRLF form of a file are the CRLF forms of its lines -/
theorem lines_crlf (bs : Bytes) : lines (crlf bs) = (lines bs).map crlf := by
  induction bs with
  | nil => simp [lines, crlf]
  | cons c r ih =>
    by_cases h : c = 10
    · subst h
      rw [crlf_nl, lines_nl, lines_cons_cons (by decide) (lines_nl _), ih]
      simp [crlf]
    · rw [crlf_cons_ne h]
      cases hr : lines r with
      | nil =>
        rw [hr] at ih
        rw [lines_cons_nil h hr, lines_cons_nil h (by simpa using ih)]
        simp [crlf, h]
      | cons l ls =>
        rw [hr] at ih
        rw [lines_cons_cons h hr, lines_cons_cons h (by simpa using ih)]
        simp [crlf_cons_ne h]

/-- a result of `ReadBytes('\n')`: no newline, or exactly one, at the end -/
def LineShape (l : Bytes) : Prop := 10 ∉ l ∨ ∃ body, l = body ++ [10] ∧ 10 ∉ body

theorem lineShape_cons {c : UInt8} (h : c ≠ 10) {l : Bytes} (hl : LineShape l) : LineShape (c :: l) := by
  rcases hl with hl | ⟨body, rfl, hb⟩
  · left; simp [hl, Ne.symm h]
  · right; exact ⟨c :: body, by simp, by simp [hb, Ne.symm h]⟩

theorem lines_shape (bs : Bytes) : ∀ l ∈ lines bs, LineShape l := by
  induction bs with
  | nil => simp [lines]
  | cons c r ih =>
    by_cases h : c = 10
    · subst h
      rw [lines_nl]
      intro l hl
      rcases List.mem_cons.mp hl with rfl | hl
      · right; exact ⟨[], by simp, by simp⟩
      · exact ih l hl
    · cases hr : lines r with
      | nil =>
        rw [lines_cons_nil h hr]
        intro l hl
        simp at hl
        subst hl
        left; simp [Ne.symm h]
      | cons l0 ls =>
        rw [hr] at ih
        rw [lines_cons_cons h hr]
        intro l hl
        rcases List.mem_cons.mp hl with rfl | hl
        · exact lineShape_cons h (ih l0 (by simp))
        · exact ih l (by simp [hl])

theorem crlf_no_nl {l : Bytes} (h : 10 ∉ l) : crlf l = l := by
  induction l with
  | nil => simp [crlf]
  | cons c r ih =>
    have hc : c ≠ 10 := by intro e; subst e; simp at h
    have hr : 10 ∉ r := by intro e; exact h (List.mem_cons_of_mem _ e)
    rw [crlf_cons_ne hc, ih hr]

theorem crlf_body_nl {body : Bytes} (h : 10 ∉ body) : crlf (body ++ [10]) = body ++ [13, 10] := by
  induction body with
  | nil => simp [crlf]
  | cons c r ih =>
    have hc : c ≠ 10 := by intro e; subst e; simp at h
    have hr : 10 ∉ r := by intro e; exact h (List.mem_cons_of_mem _ e)
    rw [List.cons_append, crlf_cons_ne hc, ih hr]; rfl

theorem trimSpace_crlf_line {l : Bytes} (h : LineShape l) : trimSpace (crlf l) = trimSpace l := by
  rcases h with h | ⟨body, rfl, hb⟩
  · rw [crlf_no_nl h]
  · rw [crlf_body_nl hb, trimSpace_append_crnl, trimSpace_append_nl]

/-- C04: the trimmed lines of a file do not depend on LF vs CRLF -/
theorem map_trimSpace_lines_crlf (bs : Bytes) :
    (lines (crlf bs)).map trimSpace = (lines bs).map trimSpace := by
  rw [lines_crlf, List.map_map]
  apply List.map_congr_left
  intro l hl
  exact trimSpace_crlf_line (lines_shape bs l hl)

/-- appending the missing final newline only terminates the last line -/
theorem lines_append_nl (x : Bytes) (hx : x ≠ []) (hlast : x.getLast hx ≠ 10) :
    ∃ init last, lines x = init ++ [last] ∧ lines (x ++ [10]) = init ++ [last ++ [10]] := by
  induction x with
  | nil => exact absurd rfl hx
  | cons c r ih =>
    cases r with
    | nil =>
      have hc : c ≠ 10 := by simpa using hlast
      refine ⟨[], [c], ?_, ?_⟩
      · rw [lines_cons_nil hc (by simp [lines])]; rfl
      · show lines (c :: [10]) = _
        rw [lines_cons_cons hc (lines_nl [])]; simp [lines]
    | cons d r' =>
      have hlast' : (d :: r').getLast (by simp) ≠ 10 := by
        simpa [List.getLast_cons] using hlast
      obtain ⟨init, last, h1, h2⟩ := ih (by simp) hlast'
      by_cases hc : c = 10
      · subst hc
        refine ⟨[10] :: init, last, ?_, ?_⟩
        · rw [lines_nl, h1]; rfl
        · rw [List.cons_append, lines_nl, h2]; rfl
      · cases init with
        | nil =>
          refine ⟨[], c :: last, ?_, ?_⟩
          · rw [lines_cons_cons hc h1]; rfl
          · rw [List.cons_append, lines_cons_cons hc h2]; rfl
        | cons i is =>
          refine ⟨(c :: i) :: is, last, ?_, ?_⟩
          · rw [lines_cons_cons hc h1]; rfl
          · rw [List.cons_append, lines_cons_cons hc h2]; rfl

/-- C04: the trimmed lines of a file do not depend on the presence of the final newline -/
theorem map_trimSpace_lines_append_nl (x : Bytes) (hx : x ≠ []) (hlast : x.getLast hx ≠ 10) :
    (lines (x ++ [10])).map trimSpace = (lines x).map trimSpace := by
  obtain ⟨init, last, h1, h2⟩ := lines_append_nl x hx hlast
  rw [h1, h2]
  simp [trimSpace_append_nl]

theorem lines_length_append_nl (x : Bytes) (hx : x ≠ []) (hlast : x.getLast hx ≠ 10) :
    (lines (x ++ [10])).length = (lines x).length := by
  have := congrArg List.length (map_trimSpace_lines_append_nl x hx hlast)
  simpa using this

end Biogo.BytesFeat
