/-
The heap storage of `SubAnnotations` (Model/ContAnn.lean) refines the value model
(`Aln.subs`): for the fixed `Clone`, in every state of every history, every alignment's
annotation slice reads exactly the value the model holds, the slices of different alignments
lie in different arrays, and so the observation read from the heap is the observation of the
value model.  Core-only.
-/
import Biogo.Model.ContAnn
import Biogo.Proofs.ContAnnHeap
import Biogo.Proofs.ContFrame
import Biogo.Proofs.ContSep

namespace Biogo.Containers
open Biogo.Go

/-- the row annotations of an object (column-stored alignments only) -/
def Obj.subs? : Obj → Option (List Ann)
  | .aln a => some a.subs
  | _ => none

def annOfSpec (sp : SeqSpec) : Ann := ⟨sp.name, sp.off, sp.strand⟩

/-- the effect of an operation on the row annotations of every object, in the value model -/
def specSubs (cx : Ctx) (w : World) (op : Op) : List (Option (List Ann)) :=
  match op with
  | .clone k =>
    match w.objs[k]? with
    | some (.aln a) => w.objs.map Obj.subs? ++ [some a.subs]
    | some (.lin _) => w.objs.map Obj.subs? ++ [none]
    | some (.multi _) => w.objs.map Obj.subs? ++ [none]
    | _ => w.objs.map Obj.subs?
  | .rowRevComp k r =>
    match w.objs[k]? with
    | some (.aln a) =>
      if r < a.rows then (w.objs.map Obj.subs?).set k (some (a.subs.modify r negStrand)) else w.objs.map Obj.subs?
    | _ => w.objs.map Obj.subs?
  | .rowReverse k r =>
    match w.objs[k]? with
    | some (.aln a) =>
      if r < a.rows then (w.objs.map Obj.subs?).set k (some (a.subs.modify r noStrand)) else w.objs.map Obj.subs?
    | _ => w.objs.map Obj.subs?
  | .delete k i =>
    match w.objs[k]? with
    | some (.aln a) =>
      if i < a.rows then (w.objs.map Obj.subs?).set k (some (a.subs.eraseIdx i)) else w.objs.map Obj.subs?
    | _ => w.objs.map Obj.subs?
  | .add k seqs =>
    match w.objs[k]? with
    | some (.aln a) => (w.objs.map Obj.subs?).set k (some (a.subs ++ seqs.map annOfSpec))
    | _ => w.objs.map Obj.subs?
  | .subseq k st en =>
    w.objs.map Obj.subs? ++ List.replicate ((apply cx w (.subseq k st en)).1.objs.length - w.objs.length) none
  | _ => w.objs.map Obj.subs?

theorem map_setObj (w : World) (k : Nat) (h : Cells) (o' : Obj) :
    (w.setObj k h o').objs.map Obj.subs? = (w.objs.map Obj.subs?).set k o'.subs? := by
  simp only [World.setObj, List.map_set]

theorem map_setObj_same (w : World) (k : Nat) (h : Cells) (o o' : Obj) (hk : w.objs[k]? = some o)
    (hs : o'.subs? = o.subs?) : (w.setObj k h o').objs.map Obj.subs? = w.objs.map Obj.subs? := by
  rw [map_setObj, hs]
  apply set_getElem?_self
  rw [List.getElem?_map, hk]; rfl

theorem Aln.appendColumns_subs (cx : Ctx) (h : Cells) (a : Aln) (rows : Nat) (colsIn : List (List QL))
    (h' : Cells) (a' : Aln) (happ : a.appendColumns cx h rows colsIn = some (h', a')) : a'.subs = a.subs := by
  unfold Aln.appendColumns at happ
  split at happ
  · cases happ
  · simp only [Option.some.injEq, Prod.mk.injEq] at happ
    rw [← happ.2]

theorem eachFold_subs (cx : Ctx) (rows : Nat) (runs : List (List QL)) : ∀ (idx : List Nat) (h : Cells) (a : Aln)
    (h' : Cells) (a' : Aln), idx.foldl (Aln.eachStep cx rows runs) (some (h, a)) = some (h', a') → a'.subs = a.subs := by
  intro idx
  induction idx with
  | nil => intro h a h' a' e; simp only [List.foldl_nil, Option.some.injEq, Prod.mk.injEq] at e; rw [← e.2]
  | cons i is ih =>
    intro h a h' a' e
    simp only [List.foldl_cons, Aln.eachStep] at e
    cases hstep : a.appendColumns cx h rows [Aln.eachColumn cx runs i] with
    | none =>
      rw [hstep] at e
      have : ∀ (l : List Nat), l.foldl (Aln.eachStep cx rows runs) none = none := by
        intro l; induction l with
        | nil => rfl
        | cons x xs ihx => simp only [List.foldl_cons, Aln.eachStep]; exact ihx
      rw [this] at e; cases e
    | some res =>
      obtain ⟨h1, a1⟩ := res
      rw [hstep] at e
      rw [ih h1 a1 h' a' e, Aln.appendColumns_subs cx h a rows _ h1 a1 hstep]

theorem Aln.appendEach_subs (cx : Ctx) (h : Cells) (a : Aln) (rows : Nat) (runs : List (List QL))
    (h' : Cells) (a' : Aln) (happ : a.appendEach cx h rows runs = some (h', a')) : a'.subs = a.subs := by
  unfold Aln.appendEach at happ
  split at happ
  · cases happ
  · exact eachFold_subs cx rows runs _ h a h' a' happ

theorem newLins_anns (cx : Ctx) : ∀ (sps : List SeqSpec) (h : Cells) (acc : List Lin),
    ((sps.foldl (fun (acc : Cells × List Lin) sp =>
        ((newLin cx acc.1 sp).1, acc.2 ++ [(newLin cx acc.1 sp).2])) (h, acc)).2.map
          fun (ss : Lin) => (⟨ss.name, ss.off, ss.strand⟩ : Ann))
      = (acc.map fun (ss : Lin) => (⟨ss.name, ss.off, ss.strand⟩ : Ann)) ++ sps.map annOfSpec := by
  intro sps
  induction sps with
  | nil => intro h acc; simp
  | cons sp sps ih =>
    intro h acc
    simp only [List.foldl_cons]
    rw [ih]
    simp [newLin, annOfSpec]

/-- **the value model's row annotations after one operation** -/
theorem apply_subs (cx : Ctx) (w : World) (op : Op) :
    (apply cx w op).1.objs.map Obj.subs? = specSubs cx w op := by
  cases op with
  | mkbuf cells extra => simp only [apply, specSubs]
  | mutbuf b i c => simp only [apply, specSubs]; cases w.bufs[b]? <;> rfl
  | revComp k =>
    simp only [specSubs]
    cases hk : w.objs[k]? with
    | none => simp only [apply, hk]
    | some o => cases o <;> simp only [apply, hk] <;> exact map_setObj_same w k _ _ _ hk rfl
  | reverse k =>
    simp only [specSubs]
    cases hk : w.objs[k]? with
    | none => simp only [apply, hk]
    | some o => cases o <;> simp only [apply, hk] <;> exact map_setObj_same w k _ _ _ hk rfl
  | set k r pos c =>
    simp only [specSubs]
    cases hk : w.objs[k]? with
    | none => simp only [apply, hk]
    | some o =>
      cases o <;> simp only [apply, hk] <;> split <;> first | rfl | exact map_setObj_same w k _ _ _ hk rfl
  | clone k =>
    simp only [specSubs]
    cases hk : w.objs[k]? with
    | none => simp only [apply, hk]
    | some o => cases o <;> simp only [apply, hk, List.map_append, List.map_cons, List.map_nil, Obj.subs?] <;> rfl
  | rowRevComp k r =>
    simp only [specSubs]
    cases hk : w.objs[k]? with
    | none => simp only [apply, hk]
    | some o =>
      cases o with
      | lin l => simp only [apply, hk]
      | aln a =>
        simp only [apply, hk]
        split
        · rw [map_setObj]; rfl
        · rfl
      | multi m => simp only [apply, hk]; split <;> first | rfl | exact map_setObj_same w k _ _ _ hk rfl
      | set m => simp only [apply, hk]; split <;> first | rfl | exact map_setObj_same w k _ _ _ hk rfl
  | rowReverse k r =>
    simp only [specSubs]
    cases hk : w.objs[k]? with
    | none => simp only [apply, hk]
    | some o =>
      cases o with
      | lin l => simp only [apply, hk]
      | aln a =>
        simp only [apply, hk]
        split
        · rw [map_setObj]; rfl
        · rfl
      | multi m => simp only [apply, hk]; split <;> first | rfl | exact map_setObj_same w k _ _ _ hk rfl
      | set m => simp only [apply, hk]; split <;> first | rfl | exact map_setObj_same w k _ _ _ hk rfl
  | appendCols k bs =>
    simp only [specSubs]
    cases hk : w.objs[k]? with
    | none => simp only [apply, hk]
    | some o =>
      cases o with
      | lin l => simp only [apply, hk]
      | set m => simp only [apply, hk]
      | aln a =>
        simp only [apply, hk]
        cases hr : a.rows? with
        | none => rfl
        | some rows =>
          simp only
          cases happ : a.appendColumns cx w.cells rows (w.bufCells bs) with
          | none => rfl
          | some res =>
            exact map_setObj_same w k _ _ _ hk (by
              simp only [Obj.subs?, Aln.appendColumns_subs cx w.cells a rows _ res.1 res.2 happ])
      | multi m =>
        simp only [apply, hk]
        cases happ : m.appendColumns cx w.cells (w.bufCells bs) with
        | none => rfl
        | some res => exact map_setObj_same w k _ _ _ hk rfl
  | appendEach k bs =>
    simp only [specSubs]
    cases hk : w.objs[k]? with
    | none => simp only [apply, hk]
    | some o =>
      cases o with
      | lin l => simp only [apply, hk]
      | set m => simp only [apply, hk]
      | aln a =>
        simp only [apply, hk]
        cases hr : a.rows? with
        | none => rfl
        | some rows =>
          simp only
          cases happ : a.appendEach cx w.cells rows (w.bufCells bs) with
          | none => rfl
          | some res =>
            exact map_setObj_same w k _ _ _ hk (by
              simp only [Obj.subs?, Aln.appendEach_subs cx w.cells a rows _ res.1 res.2 happ])
      | multi m =>
        simp only [apply, hk]
        cases happ : m.appendEach cx w.cells (w.bufCells bs) with
        | none => rfl
        | some res => exact map_setObj_same w k _ _ _ hk rfl
  | add k seqs =>
    simp only [specSubs]
    cases hk : w.objs[k]? with
    | none => simp only [apply, hk]
    | some o =>
      cases o with
      | lin l => simp only [apply, hk]
      | set m => simp only [apply, hk]
      | multi m => simp only [apply, hk]; exact map_setObj_same w k _ _ _ hk rfl
      | aln a =>
        simp only [apply, hk]
        rw [map_setObj]
        congr 1
        have := newLins_anns cx seqs w.cells []
        simp only [List.map_nil, List.nil_append] at this
        show some (a.subs ++ (newLins cx w.cells seqs).2.map fun ss => (⟨ss.name, ss.off, ss.strand⟩ : Ann)) = _
        rw [newLins_eq, this]
  | delete k i =>
    simp only [specSubs]
    cases hk : w.objs[k]? with
    | none => simp only [apply, hk]
    | some o =>
      cases o with
      | lin l => simp only [apply, hk]
      | set m => simp only [apply, hk]
      | aln a =>
        simp only [apply, hk]
        split
        · rw [map_setObj]; rfl
        · rfl
      | multi m => simp only [apply, hk]; split <;> first | rfl | exact map_setObj_same w k _ _ _ hk rfl
  | flush k wh fill =>
    simp only [specSubs]
    cases hk : w.objs[k]? with
    | none => simp only [apply, hk]
    | some o => cases o <;> simp only [apply, hk] <;> exact map_setObj_same w k _ _ _ hk rfl
  | truncate k st en =>
    simp only [specSubs]
    cases hk : w.objs[k]? with
    | none => simp only [apply, hk]
    | some o => cases o <;> simp only [apply, hk] <;> exact map_setObj_same w k _ _ _ hk rfl
  | subseq k st en =>
    simp only [specSubs]
    cases hk : w.objs[k]? with
    | none => simp only [apply, hk]; simp
    | some o =>
      cases o with
      | lin l => simp only [apply, hk]; simp
      | set m => simp only [apply, hk]; simp
      | aln a => simp only [apply, hk]; simp
      | multi m =>
        simp only [apply, hk]
        cases hres : m.subseq cx w.cells st en with
        | mk h' om =>
          cases om with
          | none => simp
          | some m' => simp [Obj.subs?]

/-! ### the simulation invariant -/

/-- the annotation storage represents the row annotations `L` (one entry per object): every
    alignment's slice is valid, reads its value, and different alignments use different arrays -/
structure AnnSim (L : List (Option (List Ann))) (st : AnnStore) : Prop where
  len : st.subs.length = L.length
  read : ∀ (k : Nat) (xs : List Ann) (s : Slice), L[k]? = some (some xs) → st.subs[k]? = some s →
    CapValidG st.anns s ∧ st.anns.read s = xs
  disj : ∀ (i j : Nat) (xi xj : List Ann) (si sj : Slice), i ≠ j → L[i]? = some (some xi) → L[j]? = some (some xj) →
    st.subs[i]? = some si → st.subs[j]? = some sj → si.arr ≠ sj.arr

theorem AnnStore.pad_noop (st : AnnStore) (n : Nat) (h : n ≤ st.subs.length) : st.pad n = st := by
  simp only [AnnStore.pad]
  have : n - st.subs.length = 0 := by omega
  rw [this]; simp

theorem AnnSim.slice_of {L : List (Option (List Ann))} {st : AnnStore} (hs : AnnSim L st) {k : Nat}
    {x : Option (List Ann)} (hk : L[k]? = some x) : ∃ s, st.subs[k]? = some s := by
  have hlt : k < st.subs.length := by rw [hs.len]; exact (List.getElem?_eq_some_iff.mp hk).1
  exact ⟨st.subs[k], List.getElem?_eq_getElem hlt⟩

/-- objects without row annotations are appended -/
theorem AnnSim.padNone {L : List (Option (List Ann))} {st : AnnStore} (hs : AnnSim L st) (d : Nat) :
    AnnSim (L ++ List.replicate d none) (st.pad (L.length + d)) := by
  have hpad : (st.pad (L.length + d)).subs = st.subs ++ List.replicate d Slice.nil := by
    simp only [AnnStore.pad, hs.len]; congr 2; omega
  have hanns : (st.pad (L.length + d)).anns = st.anns := rfl
  have hold : ∀ (k : Nat) (xs : List Ann), (L ++ List.replicate d none)[k]? = some (some xs) → L[k]? = some (some xs) := by
    intro k xs hk
    by_cases hlt : k < L.length
    · rwa [List.getElem?_append_left hlt] at hk
    · rw [List.getElem?_append_right (by omega), List.getElem?_replicate] at hk
      split at hk <;> simp at hk
  have holds : ∀ (k : Nat) (s : Slice), k < L.length → (st.subs ++ List.replicate d Slice.nil)[k]? = some s →
      st.subs[k]? = some s := by
    intro k s hlt hk
    rwa [List.getElem?_append_left (by rw [hs.len]; exact hlt)] at hk
  refine ⟨by rw [hpad]; simp [hs.len], ?_, ?_⟩
  · intro k xs s hk hsk
    rw [hpad] at hsk; rw [hanns]
    have hk' := hold k xs hk
    exact hs.read k xs s hk' (holds k s (List.getElem?_eq_some_iff.mp hk').1 hsk)
  · intro i j xi xj si sj hij hi hj hsi hsj
    rw [hpad] at hsi hsj
    have hi' := hold i xi hi
    have hj' := hold j xj hj
    exact hs.disj i j xi xj si sj hij hi' hj' (holds i si (List.getElem?_eq_some_iff.mp hi').1 hsi)
      (holds j sj (List.getElem?_eq_some_iff.mp hj').1 hsj)

/-- the annotations of alignment `k` are replaced, through a heap update that writes only that
    alignment's array or a new one -/
theorem AnnSim.update {L : List (Option (List Ann))} {st : AnnStore} (hs : AnnSim L st) (k : Nat)
    (xs xs' : List Ann) (s s' : Slice) (hk : L[k]? = some (some xs)) (hsk : st.subs[k]? = some s)
    (anns' : Heap Ann) (hvalid : CapValidG anns' s') (hread : anns'.read s' = xs')
    (hfoot : s'.arr = s.arr ∨ st.anns.arrays.length ≤ s'.arr)
    (hframe : ∀ b, b ≠ s.arr → b < st.anns.arrays.length → anns'.arr b = st.anns.arr b)
    (hsize : st.anns.arrays.length ≤ anns'.arrays.length) :
    AnnSim (L.set k (some xs')) { anns := anns', subs := st.subs.set k s' } := by
  have hkL : k < L.length := (List.getElem?_eq_some_iff.mp hk).1
  have hkS : k < st.subs.length := (List.getElem?_eq_some_iff.mp hsk).1
  have hLget : ∀ j, (L.set k (some xs'))[j]? = if k = j then some (some xs') else L[j]? := by
    intro j; rw [List.getElem?_set]; by_cases e : k = j
    · subst e; simp [hkL]
    · simp [e]
  have hSget : ∀ j, (st.subs.set k s')[j]? = if k = j then some s' else st.subs[j]? := by
    intro j; rw [List.getElem?_set]; by_cases e : k = j
    · subst e; simp [hkS]
    · simp [e]
  -- another alignment's slice is untouched
  have hother : ∀ (j : Nat) (xj : List Ann) (sj : Slice), j ≠ k → L[j]? = some (some xj) → st.subs[j]? = some sj →
      CapValidG anns' sj ∧ anns'.read sj = xj ∧ sj.arr ≠ s'.arr := by
    intro j xj sj hjk hj hsj
    obtain ⟨v, r⟩ := hs.read j xj sj hj hsj
    have hne : sj.arr ≠ s.arr := hs.disj j k xj xs sj s hjk hj hk hsj hsk
    have hsame := hframe sj.arr hne v.1
    refine ⟨v.mono hsize hsame, by rw [← r]; exact read_congr_arr _ _ _ hsame, ?_⟩
    rcases hfoot with e | e
    · rw [e]; exact hne
    · have := v.1; omega
  refine ⟨by simp [hs.len], ?_, ?_⟩
  · intro j xj sj hj hsj
    simp only at hsj ⊢
    rw [hLget] at hj; rw [hSget] at hsj
    by_cases e : k = j
    · simp only [e, if_true, Option.some.injEq] at hj hsj
      subst hj; subst hsj
      exact ⟨hvalid, hread⟩
    · simp only [e, if_false] at hj hsj
      obtain ⟨a, b, _⟩ := hother j xj sj (Ne.symm e) hj hsj
      exact ⟨a, b⟩
  · intro i j xi xj si sj hij hi hj hsi hsj
    simp only at hsi hsj
    rw [hLget] at hi hj; rw [hSget] at hsi hsj
    by_cases ei : k = i
    · simp only [ei, if_true, Option.some.injEq] at hi hsi
      have ej : ¬ k = j := fun e => hij (ei.symm.trans e)
      simp only [ej, if_false] at hj hsj
      subst hsi
      exact (hother j xj sj (Ne.symm ej) hj hsj).2.2.symm
    · simp only [ei, if_false] at hi hsi
      by_cases ej : k = j
      · simp only [ej, if_true, Option.some.injEq] at hj hsj
        subst hsj
        exact (hother i xi si (Ne.symm ei) hi hsi).2.2
      · simp only [ej, if_false] at hj hsj
        exact hs.disj i j xi xj si sj hij hi hj hsi hsj

/-- a new alignment whose annotations live in a new array is appended -/
theorem AnnSim.push {L : List (Option (List Ann))} {st : AnnStore} (hs : AnnSim L st) (xs : List Ann)
    (cap : Nat) :
    AnnSim (L ++ [some xs]) { anns := (st.anns.ofList xs cap zeroAnn).1,
                              subs := st.subs ++ [(st.anns.ofList xs cap zeroAnn).2] } := by
  obtain ⟨oarr, _, osz, ovalid, oold, oread⟩ := ofList_factsG st.anns xs cap zeroAnn
  have hLget : ∀ (j : Nat) (x : Option (List Ann)), (L ++ [some xs])[j]? = some x →
      L[j]? = some x ∨ (j = L.length ∧ x = some xs) := by
    intro j x hj
    rw [getElem?_append_one] at hj
    by_cases hlt : j < L.length
    · simp only [hlt, if_true] at hj; exact Or.inl hj
    · simp only [hlt, if_false] at hj
      by_cases e : j = L.length
      · simp only [e, if_true, Option.some.injEq] at hj; exact Or.inr ⟨e, hj.symm⟩
      · simp [e] at hj
  have hSold : ∀ (j : Nat) (s : Slice), j < L.length →
      (st.subs ++ [(st.anns.ofList xs cap zeroAnn).2])[j]? = some s → st.subs[j]? = some s := by
    intro j s hlt hj
    rwa [List.getElem?_append_left (by rw [hs.len]; exact hlt)] at hj
  have hSnew : ∀ (s : Slice), (st.subs ++ [(st.anns.ofList xs cap zeroAnn).2])[L.length]? = some s →
      s = (st.anns.ofList xs cap zeroAnn).2 := by
    intro s hj
    rw [List.getElem?_append_right (by rw [hs.len]; exact Nat.le_refl _), hs.len, Nat.sub_self] at hj
    simp only [List.getElem?_cons_zero, Option.some.injEq] at hj
    exact hj.symm
  have hkeep : ∀ (j : Nat) (xj : List Ann) (sj : Slice), L[j]? = some (some xj) → st.subs[j]? = some sj →
      CapValidG (st.anns.ofList xs cap zeroAnn).1 sj ∧ (st.anns.ofList xs cap zeroAnn).1.read sj = xj ∧
      sj.arr < st.anns.arrays.length := by
    intro j xj sj hj hsj
    obtain ⟨v, r⟩ := hs.read j xj sj hj hsj
    exact ⟨v.mono (by omega) (oold _ v.1), by rw [← r]; exact read_congr_arr _ _ _ (oold _ v.1), v.1⟩
  refine ⟨by simp [hs.len], ?_, ?_⟩
  · intro j xj sj hj hsj
    simp only at hsj ⊢
    rcases hLget j _ hj with h1 | ⟨e, hx⟩
    · have hlt := (List.getElem?_eq_some_iff.mp h1).1
      obtain ⟨a, b, _⟩ := hkeep j xj sj h1 (hSold j sj hlt hsj)
      exact ⟨a, b⟩
    · subst e
      simp only [Option.some.injEq] at hx
      subst hx
      rw [hSnew sj hsj]
      exact ⟨ovalid, oread⟩
  · intro i j xi xj si sj hij hi hj hsi hsj
    simp only at hsi hsj
    rcases hLget i _ hi with h1 | ⟨e1, _⟩
    · have hlt1 := (List.getElem?_eq_some_iff.mp h1).1
      have k1 := hkeep i xi si h1 (hSold i si hlt1 hsi)
      rcases hLget j _ hj with h2 | ⟨e2, _⟩
      · have hlt2 := (List.getElem?_eq_some_iff.mp h2).1
        exact hs.disj i j xi xj si sj hij h1 h2 (hSold i si hlt1 hsi) (hSold j sj hlt2 hsj)
      · subst e2
        rw [hSnew sj hsj, oarr]
        have := k1.2.2; omega
    · subst e1
      rcases hLget j _ hj with h2 | ⟨e2, _⟩
      · have hlt2 := (List.getElem?_eq_some_iff.mp h2).1
        have k2 := hkeep j xj sj h2 (hSold j sj hlt2 hsj)
        rw [hSnew si hsi, oarr]
        have := k2.2.2; omega
      · omega

theorem specSubs_length (cx : Ctx) (w : World) (op : Op) : (specSubs cx w op).length = (apply cx w op).1.objs.length := by
  rw [← apply_subs, List.length_map]

/-- **one operation**: with the fixed `Clone` the annotation storage keeps representing the
    value model's row annotations -/
theorem annSim_step (cx : Ctx) (w : World) (st : AnnStore) (hs : AnnSim (w.objs.map Obj.subs?) st) (op : Op) :
    AnnSim ((apply cx w op).1.objs.map Obj.subs?) (applyAnn false cx w st op) := by
  rw [apply_subs]
  have hlenL : (w.objs.map Obj.subs?).length = w.objs.length := List.length_map _
  -- the operation does not concern the annotations
  have hsame : specSubs cx w op = w.objs.map Obj.subs? → applyAnn false cx w st op = st.pad (apply cx w op).1.objs.length →
      AnnSim (specSubs cx w op) (applyAnn false cx w st op) := by
    intro e1 e2
    rw [e2, AnnStore.pad_noop _ _ (by rw [← specSubs_length, e1, hs.len]; exact Nat.le_refl _), e1]
    exact hs
  have hLk : ∀ (k : Nat) (o : Obj), w.objs[k]? = some o → (w.objs.map Obj.subs?)[k]? = some o.subs? := by
    intro k o hk; rw [List.getElem?_map, hk]; rfl
  cases op with
  | mkbuf cells extra => exact hsame rfl rfl
  | mutbuf b i c => exact hsame rfl rfl
  | revComp k => exact hsame rfl rfl
  | reverse k => exact hsame rfl rfl
  | set k r pos c => exact hsame rfl rfl
  | appendCols k bs => exact hsame rfl rfl
  | appendEach k bs => exact hsame rfl rfl
  | flush k wh fill => exact hsame rfl rfl
  | truncate k s e => exact hsame rfl rfl
  | subseq k s e =>
    have hsp : specSubs cx w (.subseq k s e) = w.objs.map Obj.subs? ++
        List.replicate ((apply cx w (.subseq k s e)).1.objs.length - w.objs.length) none := rfl
    have hle : w.objs.length ≤ (apply cx w (.subseq k s e)).1.objs.length := by
      have := specSubs_length cx w (.subseq k s e)
      rw [hsp, List.length_append, List.length_map, List.length_replicate] at this
      omega
    have hap : applyAnn false cx w st (.subseq k s e) = st.pad (apply cx w (.subseq k s e)).1.objs.length := rfl
    rw [hap, hsp]
    have := hs.padNone ((apply cx w (.subseq k s e)).1.objs.length - w.objs.length)
    rw [hlenL] at this
    have e2 : w.objs.length + ((apply cx w (.subseq k s e)).1.objs.length - w.objs.length)
        = (apply cx w (.subseq k s e)).1.objs.length := by omega
    rw [e2] at this
    exact this
  | clone k =>
    cases hk : w.objs[k]? with
    | none => exact hsame (by simp only [specSubs, hk]) (by simp only [applyAnn, hk])
    | some o =>
      have hlenA : (apply cx w (.clone k)).1.objs.length = (specSubs cx w (.clone k)).length :=
        (specSubs_length cx w (.clone k)).symm
      cases o with
      | set m => exact hsame (by simp only [specSubs, hk]) (by simp only [applyAnn, hk])
      | lin l =>
        have hsp : specSubs cx w (.clone k) = w.objs.map Obj.subs? ++ List.replicate 1 none := by
          simp only [specSubs, hk]; rfl
        have hap : applyAnn false cx w st (.clone k) = st.pad (apply cx w (.clone k)).1.objs.length := by
          simp only [applyAnn, hk]
        rw [hap, hlenA, hsp]
        have := hs.padNone 1
        simpa using this
      | multi m =>
        have hsp : specSubs cx w (.clone k) = w.objs.map Obj.subs? ++ List.replicate 1 none := by
          simp only [specSubs, hk]; rfl
        have hap : applyAnn false cx w st (.clone k) = st.pad (apply cx w (.clone k)).1.objs.length := by
          simp only [applyAnn, hk]
        rw [hap, hlenA, hsp]
        have := hs.padNone 1
        simpa using this
      | aln a =>
        obtain ⟨s, hsk⟩ := hs.slice_of (hLk k _ hk)
        obtain ⟨v, r⟩ := hs.read k a.subs s (hLk k _ hk) hsk
        have hsp : specSubs cx w (.clone k) = w.objs.map Obj.subs? ++ [some a.subs] := by
          simp only [specSubs, hk]
        have hap : applyAnn false cx w st (.clone k) =
            ({ anns := (st.anns.ofList (st.anns.read s) (cx.grow 0 s.len) zeroAnn).1,
               subs := st.subs ++ [(st.anns.ofList (st.anns.read s) (cx.grow 0 s.len) zeroAnn).2] } : AnnStore).pad
              (apply cx w (.clone k)).1.objs.length := by
          simp only [applyAnn, hk, hsk, Bool.false_eq_true, if_false]
        rw [hap, AnnStore.pad_noop _ _ (by rw [hlenA, hsp]; simp [hs.len]), hsp, r]
        exact hs.push a.subs _
  | rowRevComp k r =>
    cases hk : w.objs[k]? with
    | none => exact hsame (by simp only [specSubs, hk]) (by simp only [applyAnn, hk])
    | some o =>
      cases o with
      | lin l => exact hsame (by simp only [specSubs, hk]) (by simp only [applyAnn, hk])
      | multi m => exact hsame (by simp only [specSubs, hk]) (by simp only [applyAnn, hk])
      | set m => exact hsame (by simp only [specSubs, hk]) (by simp only [applyAnn, hk])
      | aln a =>
        obtain ⟨s, hsk⟩ := hs.slice_of (hLk k _ hk)
        by_cases hp : r < a.rows
        · obtain ⟨v, rd⟩ := hs.read k a.subs s (hLk k _ hk) hsk
          obtain ⟨m1, m2, m3, m4⟩ := modSlice_spec st.anns s r negStrand v
          have hsp : specSubs cx w (.rowRevComp k r)
              = (w.objs.map Obj.subs?).set k (some (a.subs.modify r negStrand)) := by
            simp only [specSubs, hk, hp, if_true]
          have hap : applyAnn false cx w st (.rowRevComp k r) =
              ({ st with anns := modSlice st.anns s r negStrand } : AnnStore).pad
                (apply cx w (.rowRevComp k r)).1.objs.length := by
            simp only [applyAnn, hk, hsk, hp, if_true]
          rw [hap, AnnStore.pad_noop _ _ (by rw [← specSubs_length, hsp]; simp [hs.len]), hsp]
          have hu := hs.update k a.subs (a.subs.modify r negStrand) s s (hLk k _ hk) hsk
            (modSlice st.anns s r negStrand) m2 (by rw [m1, rd]) (Or.inl rfl) (fun b hb _ => m3 b hb)
            (by rw [m4]; exact Nat.le_refl _)
          rw [set_getElem?_self st.subs k s hsk] at hu
          exact hu
        · exact hsame (by simp only [specSubs, hk, hp, if_false]) (by simp only [applyAnn, hk, hsk, hp, if_false])
  | rowReverse k r =>
    cases hk : w.objs[k]? with
    | none => exact hsame (by simp only [specSubs, hk]) (by simp only [applyAnn, hk])
    | some o =>
      cases o with
      | lin l => exact hsame (by simp only [specSubs, hk]) (by simp only [applyAnn, hk])
      | multi m => exact hsame (by simp only [specSubs, hk]) (by simp only [applyAnn, hk])
      | set m => exact hsame (by simp only [specSubs, hk]) (by simp only [applyAnn, hk])
      | aln a =>
        obtain ⟨s, hsk⟩ := hs.slice_of (hLk k _ hk)
        by_cases hp : r < a.rows
        · obtain ⟨v, rd⟩ := hs.read k a.subs s (hLk k _ hk) hsk
          obtain ⟨m1, m2, m3, m4⟩ := modSlice_spec st.anns s r noStrand v
          have hsp : specSubs cx w (.rowReverse k r)
              = (w.objs.map Obj.subs?).set k (some (a.subs.modify r noStrand)) := by
            simp only [specSubs, hk, hp, if_true]
          have hap : applyAnn false cx w st (.rowReverse k r) =
              ({ st with anns := modSlice st.anns s r noStrand } : AnnStore).pad
                (apply cx w (.rowReverse k r)).1.objs.length := by
            simp only [applyAnn, hk, hsk, hp, if_true]
          rw [hap, AnnStore.pad_noop _ _ (by rw [← specSubs_length, hsp]; simp [hs.len]), hsp]
          have hu := hs.update k a.subs (a.subs.modify r noStrand) s s (hLk k _ hk) hsk
            (modSlice st.anns s r noStrand) m2 (by rw [m1, rd]) (Or.inl rfl) (fun b hb _ => m3 b hb)
            (by rw [m4]; exact Nat.le_refl _)
          rw [set_getElem?_self st.subs k s hsk] at hu
          exact hu
        · exact hsame (by simp only [specSubs, hk, hp, if_false]) (by simp only [applyAnn, hk, hsk, hp, if_false])
  | delete k i =>
    cases hk : w.objs[k]? with
    | none => exact hsame (by simp only [specSubs, hk]) (by simp only [applyAnn, hk])
    | some o =>
      cases o with
      | lin l => exact hsame (by simp only [specSubs, hk]) (by simp only [applyAnn, hk])
      | multi m => exact hsame (by simp only [specSubs, hk]) (by simp only [applyAnn, hk])
      | set m => exact hsame (by simp only [specSubs, hk]) (by simp only [applyAnn, hk])
      | aln a =>
        obtain ⟨s, hsk⟩ := hs.slice_of (hLk k _ hk)
        by_cases hp : i < a.rows
        · obtain ⟨v, rd⟩ := hs.read k a.subs s (hLk k _ hk) hsk
          have hsp : specSubs cx w (.delete k i)
              = (w.objs.map Obj.subs?).set k (some (a.subs.eraseIdx i)) := by
            simp only [specSubs, hk, hp, if_true]
          have hap : applyAnn false cx w st (.delete k i) =
              ({ anns := (delSlice st.anns s i).1, subs := st.subs.set k (delSlice st.anns s i).2 } : AnnStore).pad
                (apply cx w (.delete k i)).1.objs.length := by
            simp only [applyAnn, hk, hsk, hp, if_true]
          rw [hap, AnnStore.pad_noop _ _ (by rw [← specSubs_length, hsp]; simp [hs.len]), hsp]
          by_cases hin : i < s.len
          · obtain ⟨d1, d2, d3, d4, d5⟩ := delSlice_spec st.anns s i v hin
            exact hs.update k a.subs (a.subs.eraseIdx i) s _ (hLk k _ hk) hsk _ d2 (by rw [d1, rd]) (Or.inl d3)
              (fun b hb _ => d4 b hb) (by rw [d5]; exact Nat.le_refl _)
          · -- fewer annotations than rows: the slice expression fails, nothing is erased
            have hnone : delSlice st.anns s i = (st.anns, s) := by
              simp only [delSlice, Slice.slice]
              have : ¬ (i + 1 ≤ s.len ∧ s.len ≤ s.cap) := by omega
              simp [this]
            have hlen := v.length_read
            rw [hnone]
            have := hs.update k a.subs (a.subs.eraseIdx i) s s (hLk k _ hk) hsk st.anns v
              (by rw [rd, List.eraseIdx_of_length_le (by rw [← rd, hlen]; omega)]) (Or.inl rfl)
              (fun _ _ _ => rfl) (Nat.le_refl _)
            exact this
        · exact hsame (by simp only [specSubs, hk, hp, if_false]) (by simp only [applyAnn, hk, hsk, hp, if_false])
  | add k seqs =>
    cases hk : w.objs[k]? with
    | none => exact hsame (by simp only [specSubs, hk]) (by simp only [applyAnn, hk])
    | some o =>
      cases o with
      | lin l => exact hsame (by simp only [specSubs, hk]) (by simp only [applyAnn, hk])
      | multi m => exact hsame (by simp only [specSubs, hk]) (by simp only [applyAnn, hk])
      | set m => exact hsame (by simp only [specSubs, hk]) (by simp only [applyAnn, hk])
      | aln a =>
        obtain ⟨s, hsk⟩ := hs.slice_of (hLk k _ hk)
        obtain ⟨v, rd⟩ := hs.read k a.subs s (hLk k _ hk) hsk
        have hsp : specSubs cx w (.add k seqs)
            = (w.objs.map Obj.subs?).set k (some (a.subs ++ seqs.map annOfSpec)) := by
          simp only [specSubs, hk]
        have hap : applyAnn false cx w st (.add k seqs) =
            ({ anns := (appendAnns cx.grow st.anns s (seqs.map annOfSpec)).1,
               subs := st.subs.set k (appendAnns cx.grow st.anns s (seqs.map annOfSpec)).2 } : AnnStore).pad
              (apply cx w (.add k seqs)).1.objs.length := by
          simp only [applyAnn, hk, hsk]; rfl
        rw [hap, AnnStore.pad_noop _ _ (by rw [← specSubs_length, hsp]; simp [hs.len]), hsp]
        obtain ⟨a1, a2, a3, a4, a5⟩ := appendAnns_spec cx.grow (seqs.map annOfSpec) st.anns s v
        exact hs.update k a.subs _ s _ (hLk k _ hk) hsk _ a2 (by rw [a1, rd]) a3 a4 a5

/-! ### the constructor, the observation, whole histories -/

theorem initAnn_fold_sim : ∀ (objs : List Obj) (L : List (Option (List Ann))) (st : AnnStore), AnnSim L st →
    AnnSim (L ++ objs.map Obj.subs?)
      (objs.foldl (fun (st : AnnStore) o =>
        match o with
        | .aln a => { anns := (st.anns.ofList a.subs a.subs.length zeroAnn).1,
                      subs := st.subs ++ [(st.anns.ofList a.subs a.subs.length zeroAnn).2] }
        | _ => { st with subs := st.subs ++ [Slice.nil] }) st) := by
  intro objs
  induction objs with
  | nil => intro L st hs; simpa using hs
  | cons o os ih =>
    intro L st hs
    simp only [List.foldl_cons, List.map_cons]
    rw [show L ++ o.subs? :: os.map Obj.subs? = (L ++ [o.subs?]) ++ os.map Obj.subs? by simp]
    apply ih
    cases o with
    | aln a => exact hs.push a.subs _
    | lin l =>
      have := hs.padNone 1
      simp only [AnnStore.pad, hs.len] at this
      simpa [Obj.subs?] using this
    | multi m =>
      have := hs.padNone 1
      simp only [AnnStore.pad, hs.len] at this
      simpa [Obj.subs?] using this
    | set m =>
      have := hs.padNone 1
      simp only [AnnStore.pad, hs.len] at this
      simpa [Obj.subs?] using this

/-- the storage the constructors allocate represents the initial row annotations -/
theorem initAnn_sim (w : World) : AnnSim (w.objs.map Obj.subs?) (initAnn w) := by
  have h0 : AnnSim [] (⟨Heap.empty, []⟩ : AnnStore) :=
    ⟨rfl, fun k xs s hk => by simp at hk, fun i j xi xj si sj _ hi => by simp at hi⟩
  have := initAnn_fold_sim w.objs [] _ h0
  simp only [List.nil_append] at this
  exact this

theorem zipIdx_map_eq {α β : Type} (l : List α) (f : α × Nat → β) (g : α → β)
    (hfg : ∀ (k : Nat) (x : α), l[k]? = some x → f (x, k) = g x) : l.zipIdx.map f = l.map g := by
  apply List.ext_getElem?
  intro k
  rw [List.getElem?_map, List.getElem?_map, List.getElem?_zipIdx]
  cases hk : l[k]? with
  | none => rfl
  | some x => simp only [Option.map_some, Nat.zero_add]; rw [hfg k x hk]

/-- **reading the row annotations from the heap gives the observation of the value model** -/
theorem viewA_eq_view (cx : Ctx) (w : World) (st : AnnStore) (hs : AnnSim (w.objs.map Obj.subs?) st) :
    viewA cx w st = w.view cx := by
  simp only [viewA, World.view]
  apply zipIdx_map_eq
  intro k o hk
  simp only
  cases o with
  | aln a =>
    have hL : (w.objs.map Obj.subs?)[k]? = some (some a.subs) := by rw [List.getElem?_map, hk]; rfl
    obtain ⟨s, hsk⟩ := hs.slice_of hL
    obtain ⟨_, rd⟩ := hs.read k a.subs s hL hsk
    have : st.subs.getD k Slice.nil = s := by
      simp only [List.getD_eq_getElem?_getD, hsk, Option.getD_some]
    rw [this, rd]
    rfl
  | lin l => rfl
  | multi m => rfl
  | set m => rfl

/-- the value model and the annotation storage run in lockstep -/
def runOpsA (pinned : Bool) (cx : Ctx) (ws : World × AnnStore) (ops : List Op) : World × AnnStore :=
  ops.foldl (fun ws op => ((apply cx ws.1 op).1, applyAnn pinned cx ws.1 ws.2 op)) ws

theorem runOpsA_sim (cx : Ctx) (ops : List Op) : ∀ (w : World) (st : AnnStore), AnnSim (w.objs.map Obj.subs?) st →
    (runOpsA false cx (w, st) ops).1 = runOps cx w ops ∧
    AnnSim ((runOps cx w ops).objs.map Obj.subs?) (runOpsA false cx (w, st) ops).2 := by
  induction ops with
  | nil => intro w st hs; exact ⟨rfl, hs⟩
  | cons op ops ih =>
    intro w st hs
    exact ih (apply cx w op).1 (applyAnn false cx w st op) (annSim_step cx w st hs op)

theorem runHistoryA_fold (cx : Ctx) : ∀ (ops : List Op) (w : World) (st : AnnStore) (acc : List (String × List ObjV)),
    AnnSim (w.objs.map Obj.subs?) st →
    (ops.foldl (fun (acc : (World × AnnStore) × List (String × List ObjV)) op =>
      (((apply cx acc.1.1 op).1, applyAnn false cx acc.1.1 acc.1.2 op),
       acc.2 ++ [((apply cx acc.1.1 op).2, viewA cx (apply cx acc.1.1 op).1 (applyAnn false cx acc.1.1 acc.1.2 op))]))
      ((w, st), acc)).2
    = (ops.foldl (fun (st : World × List (String × List ObjV)) op =>
        ((apply cx st.1 op).1, st.2 ++ [((apply cx st.1 op).2, (apply cx st.1 op).1.view cx)])) (w, acc)).2 := by
  intro ops
  induction ops with
  | nil => intro w st acc _; rfl
  | cons op ops ih =>
    intro w st acc hs
    simp only [List.foldl_cons]
    have hs' := annSim_step cx w st hs op
    rw [viewA_eq_view cx _ _ hs']
    exact ih _ _ _ hs'

/-- **the function the driver executes** (`runHistoryA false`: row annotations stored in slices on
    a heap, `Clone` as fixed) **reports exactly the observations of the value model** -/
theorem runHistoryA_eq (cx : Ctx) (w : World) (ops : List Op) :
    runHistoryA false cx w ops = runHistory cx w ops := by
  have hs := initAnn_sim w
  simp only [runHistoryA, runHistory]
  rw [viewA_eq_view cx w _ hs]
  exact runHistoryA_fold cx ops w (initAnn w) _ hs

end Biogo.Containers
