/-
`NWAffine`: every returned pair carries the score recomputed from letters, matrix and gap
parameters (`nwAlign_faithful`, the layer-aware traceback after the repair of K5); for the
layer-blind traceback it replaced the same holds whenever it never left its layer
(`nwAlignT_faithful` with `aware = false`, `tie = false`).  Core only.
-/
import Biogo.Proofs.NWAffine
import Biogo.Proofs.TraceFaith

namespace Biogo.Proofs.NWFaith
open Biogo.Spec.Alignment Biogo.AlignAff Biogo.Spec.AffineOpt Biogo.Spec.AffPairs
open Biogo.Proofs.AffineOpt Biogo.Proofs.AlignAffTable Biogo.Proofs.TraceSum Biogo.Proofs.NWAffine
open Biogo.Proofs.TraceWF Biogo.Proofs.TraceFaith

/-- first row of the table: `left` layer = gap-open + the gap scores of the query prefix -/
theorem nw_row0_l (S : Matrix) (o : Int) (r q : List Nat) :
    ∀ j, j < q.length → ((nwTable S o r q).at 0 (j + 1)).l = some (o + leftSum S q 0 (j + 1)) ∧
      ((nwTable S o r q).at 0 (j + 1)).d = none := by
  intro j
  induction j with
  | zero =>
    intro hj
    rw [nwTable_at S o r q 0 1 (by omega), optRows_row0 flN S o r q 0 hj, optRows_origin]
    refine ⟨?_, by simp [flN, emptyAt]⟩
    simp only [gapVal_flN, origin, vadd]
    rw [leftSum_succ]
    simp [leftSum, sumRange_zero, max2, vgt]
  | succ j ih =>
    intro hj
    obtain ⟨hl, hd⟩ := ih (by omega)
    rw [nwTable_at S o r q 0 (j + 1) (by omega)] at hl hd
    rw [nwTable_at S o r q 0 (j + 2) (by omega), optRows_row0 flN S o r q (j + 1) hj]
    refine ⟨?_, by simp [flN, emptyAt]⟩
    simp only [gapVal_flN, hl, hd, vadd]
    rw [max2_none_left]
    have : leftSum S q 0 (j + 1 + 1) = leftSum S q 0 (j + 1) + S 0 (q.getD (j + 1) 0) := by
      simp only [leftSum]; rw [sumRange_succ_last]; simp
    rw [this]
    congr 1; omega

theorem optRows_first (fl : Flags) (S : Matrix) (o : Int) (r q : List Nat) (i : Nat) (hi : i < r.length) :
    rowAt (optRows fl S o r q) (i + 1) 0 =
      optFirst fl S o (if i = 0 then true else false) (rowAt (optRows fl S o r q) i 0) (r.getD i 0) := by
  simp only [optRows]
  exact rows_first _ _ q r _ i hi

/-- first column of the table: `up` layer = gap-open + the gap scores of the reference prefix -/
theorem nw_col0_u (S : Matrix) (o : Int) (r q : List Nat) :
    ∀ i, i < r.length → ((nwTable S o r q).at (i + 1) 0).u = some (o + upSum S r 0 (i + 1)) ∧
      ((nwTable S o r q).at (i + 1) 0).d = none := by
  intro i
  induction i with
  | zero =>
    intro hi
    rw [nwTable_at S o r q 1 0 (by omega), optRows_first flN S o r q 0 hi, optRows_origin]
    refine ⟨?_, by simp [optFirst, flN, emptyAt]⟩
    simp only [optFirst, gapVal_flN, origin, vadd]
    rw [upSum_succ]
    simp [upSum, sumRange_zero, max2, vgt]
  | succ i ih =>
    intro hi
    obtain ⟨hu, hd⟩ := ih (by omega)
    rw [nwTable_at S o r q (i + 1) 0 (by omega)] at hu hd
    rw [nwTable_at S o r q (i + 2) 0 (by omega), optRows_first flN S o r q (i + 1) hi]
    refine ⟨?_, by simp [optFirst, flN, emptyAt]⟩
    simp only [optFirst, gapVal_flN, hu, hd, vadd]
    rw [max2_none_left]
    have : upSum S r 0 (i + 1 + 1) = upSum S r 0 (i + 1) + S (r.getD (i + 1) 0) 0 := by
      simp only [upSum]; rw [sumRange_succ_last]; simp
    rw [this]
    congr 1; omega

/-- Faithful pair scores for either switch: if the traceback of the model of `NWAffine` only
    takes cases of its current layer, every pair's score is the recomputed one. -/
theorem nwAlignT_faithful (aware : Bool) (S : Matrix) (o : Int) (r q : List Nat) (hr : r ≠ []) (hq : q ≠ [])
    (ps : List Pair) (h : nwAlignT aware S o r q = .ok (ps, false)) : faithful S o r q ps = true := by
  have hR : 0 < r.length := by cases r with | nil => exact absurd rfl hr | cons _ _ => simp
  have hC : 0 < q.length := by cases q with | nil => exact absurd rfl hq | cons _ _ => simp
  have F := nwTable_facts S o r q
  unfold nwAlignT at h
  simp only [] at h
  cases hl : tbLoop aware false (nwTable S o r q) S o r q r.length q.length (r.length + q.length)
      { i := r.length, j := q.length,
        layer := (if vgt ((nwTable S o r q).at r.length q.length).u ((nwTable S o r q).at r.length q.length).d
          then (if vgt ((nwTable S o r q).at r.length q.length).l ((nwTable S o r q).at r.length q.length).u then .l else .u)
          else (if vgt ((nwTable S o r q).at r.length q.length).l ((nwTable S o r q).at r.length q.length).d then .l else .m)),
        last := .m, score := 0, maxI := r.length, maxJ := q.length, aln := [] } with
  | error e => rw [hl] at h; cases h
  | ok st =>
    rw [hl] at h
    simp only [] at h
    have hinv := loop_inv aware false _ S o r q r.length q.length r.length q.length _ _ st
      (init_inv r.length q.length r.length q.length _ (Nat.le_refl _) (Nat.le_refl _)) hl
    have hfaith := loop_faith aware false _ S o r q r.length q.length r.length q.length _ _ st
      (init_inv r.length q.length r.length q.length _ (Nat.le_refl _) (Nat.le_refl _))
      (fun _ => init_faith S o r q r.length q.length _ hR hC) hl
    have hstop := loop_stops aware _ S o r q r.length q.length _ _ st hl (Nat.le_refl _)
    -- the value invariant, to know the layer the loop stopped in
    obtain ⟨x, hx⟩ : ∃ x, cellBest ((nwTable S o r q).at r.length q.length) = some x := by
      obtain ⟨a, hga, hna⟩ := exists_global_noAdj r q hr hq
      obtain ⟨x, hx, _⟩ := (globalOpt_isOpt false S o r q).1 a ⟨hga, Or.inr hna⟩
      exact ⟨x, by rw [nwTable_at S o r q _ _ (Nat.le_refl _)]; exact hx⟩
    have hinit : Good (nwTable S o r q) r.length q.length x
        { i := r.length, j := q.length,
          layer := (if vgt ((nwTable S o r q).at r.length q.length).u ((nwTable S o r q).at r.length q.length).d
            then (if vgt ((nwTable S o r q).at r.length q.length).l ((nwTable S o r q).at r.length q.length).u then .l else .u)
            else (if vgt ((nwTable S o r q).at r.length q.length).l ((nwTable S o r q).at r.length q.length).d then .l else .m)),
          last := .m, score := 0, maxI := r.length, maxJ := q.length, aln := [] } := by
      refine ⟨Nat.le_refl _, Nat.le_refl _, x, ?_, by simp [total]⟩
      simp only []
      rw [cellBest_layer, hx]
    obtain ⟨st2, hloop2, ⟨_, _, v, hv, _⟩, _⟩ := loop_good aware F x (r.length + q.length) _ hinit (Nat.le_refl _)
    rw [hl] at hloop2
    cases hloop2
    -- the tie flag of the result is the state's
    have htie : st.tie = false := by
      by_cases hij : st.i ≠ st.j
      · rw [if_pos hij] at h; exact (Prod.mk.inj (Except.ok.inj h)).2
      · rw [if_neg hij] at h; exact (Prod.mk.inj (Except.ok.inj h)).2
    have hf := hfaith htie
    obtain ⟨hi, hj, hmR, hmC, isegm, isegu, isegl, iempty0, _, _, _, _⟩ := hinv
    -- the loop can only stop in a block
    have hlast : st.last = .m := by
      cases hk : st.last with
      | m => rfl
      | u =>
        exfalso
        have hj0 : st.j ≠ 0 := fun e => hf.termj e hk
        have hi0 : st.i = 0 := by rcases hstop with e | e; exact e; exact absurd e hj0
        obtain ⟨j', hj'⟩ : ∃ j', st.j = j' + 1 := ⟨st.j - 1, by omega⟩
        rw [hi0, hj'] at hv
        exact (hf.segu hk).2.2 (F.row0 j' (by omega) _ v hv)
      | l =>
        exfalso
        have hi0 : st.i ≠ 0 := fun e => hf.termi e hk
        have hj0 : st.j = 0 := by rcases hstop with e | e; exact absurd e hi0; exact e
        obtain ⟨i', hi'⟩ : ∃ i', st.i = i' + 1 := ⟨st.i - 1, by omega⟩
        rw [hj0, hi'] at hv
        exact (hf.segl hk).2.2 (F.col0 i' (by omega) _ v hv)
    have hpair : pairOK S o r q ⟨st.i, st.maxI, st.j, st.maxJ, st.score⟩ = true := by
      rw [hf.segm hlast]; exact pairOK_block S o r q _ _ _ _ hi (isegm hlast)
    have hemit : st.emit.aln.all (pairOK S o r q) = true := by
      simp only [TB.emit, List.all_cons, hpair, hf.done, Bool.and_self]
    by_cases hij : st.i ≠ st.j
    · rw [if_pos hij] at h
      rw [← (Prod.mk.inj (Except.ok.inj h)).1]
      show (_ :: st.emit.aln).all (pairOK S o r q) = true
      simp only [List.all_cons, hemit, Bool.and_true]
      by_cases hi0 : st.i = 0
      · obtain ⟨j', hj'⟩ : ∃ j', st.j = j' + 1 := ⟨st.j - 1, by omega⟩
        simp only [hi0, if_true]
        rw [hj']; simp only [Cell.get]; rw [(nw_row0_l S o r q j' (by omega)).1]
        have := pairOK_left S o r q 0 0 (j' + 1) (by omega)
        simpa [vget] using this
      · have hj0 : st.j = 0 := by rcases hstop with e | e; exact absurd e hi0; exact e
        obtain ⟨i', hi'⟩ : ∃ i', st.i = i' + 1 := ⟨st.i - 1, by omega⟩
        simp only [hi0, if_false]
        rw [hj0, hi']; simp only [Cell.get]; rw [(nw_col0_u S o r q i' (by omega)).1]
        have := pairOK_up S o r q 0 (i' + 1) 0 (by omega)
        simpa [vget] using this
    · rw [if_neg hij] at h
      rw [← (Prod.mk.inj (Except.ok.inj h)).1]
      exact hemit

/-- the layer-aware traceback of `NWAffine` never raises the ghost flag -/
theorem nwAlignT_aware_tie (S : Matrix) (o : Int) (r q : List Nat) (ps : List Pair) (t : Bool)
    (h : nwAlignT true S o r q = .ok (ps, t)) : t = false := by
  unfold nwAlignT at h
  simp only [] at h
  split at h
  · cases h
  · rename_i st hl
    have ht := loop_tie_aware false _ S o r q _ _ _ _ st hl
    simp only [] at ht
    split at h <;> (cases h; exact ht)

/-- **Faithful pair scores, `NWAffine`** (after the repair of K5): every pair the model returns
    carries the score recomputed from the letters, the matrix and the gap parameters. -/
theorem nwAlign_faithful (S : Matrix) (o : Int) (r q : List Nat) (hr : r ≠ []) (hq : q ≠ [])
    (ps : List Pair) (h : nwAlign S o r q = .ok ps) : faithful S o r q ps = true := by
  unfold nwAlign at h
  cases hT : nwAlignT true S o r q with
  | error e => rw [hT] at h; cases h
  | ok res =>
    obtain ⟨ps', t⟩ := res
    rw [hT] at h
    simp only [Except.map] at h
    cases h
    have := nwAlignT_aware_tie S o r q ps t hT
    subst this
    exact nwAlignT_faithful true S o r q hr hq ps hT

end Biogo.Proofs.NWFaith
