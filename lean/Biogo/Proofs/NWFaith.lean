/-
`NWAffine`: every returned pair carries the score recomputed from letters, matrix and gap
parameters (`nwAlign_faithful`, the layer-aware traceback after the repair of K5); for the
layer-blind traceback it replaced the same holds whenever it never left its layer
(`nwAlignT_faithful` with `aware = false`, `tie = false`).  Core only.
-/
import Biogo.Proofs.NWAffine
import Biogo.Proofs.TraceFaith

namespace Biogo.Proofs.NWFaith
open Biogo.Spec.Alignment Biogo.AlignAff Biogo.Spec.AffineOpt Biogo.Spec.AffPairs
open Biogo.Proofs.AffineOpt Biogo.Proofs.AlignAffTable Biogo.Proofs.TraceSum Biogo.Proofs.NWAffine
open Biogo.Proofs.TraceWF Biogo.Proofs.TraceFaith

/-- first row of the table: `left` layer = gap-open + the gap scores of the query prefix -/
theorem nw_row0_l (cross : Bool) (S : Matrix) (o : Int) (r q : List Nat) :
    ∀ j, j < q.length → ((nwTable cross S o r q).at 0 (j + 1)).l = some (o + leftSum S q 0 (j + 1)) ∧
      ((nwTable cross S o r q).at 0 (j + 1)).d = none ∧ ((nwTable cross S o r q).at 0 (j + 1)).u = none := by
  intro j
  induction j with
  | zero =>
    intro hj
    rw [nwTable_at cross S o r q 0 1 (by omega), optRows_row0 (flN cross) S o r q 0 hj, optRows_origin]
    refine ⟨?_, by simp [flN, emptyAt], rfl⟩
    simp only [origin, gapVal_some_none_none]
    rw [leftSum_succ]
    simp [leftSum, sumRange_zero]
  | succ j ih =>
    intro hj
    obtain ⟨hl, hd, hu⟩ := ih (by omega)
    rw [nwTable_at cross S o r q 0 (j + 1) (by omega)] at hl hd hu
    rw [nwTable_at cross S o r q 0 (j + 2) (by omega), optRows_row0 (flN cross) S o r q (j + 1) hj]
    refine ⟨?_, by simp [flN, emptyAt], rfl⟩
    simp only [hl, hd, hu, gapVal_none_none, vadd]
    have : leftSum S q 0 (j + 1 + 1) = leftSum S q 0 (j + 1) + S 0 (q.getD (j + 1) 0) := by
      simp only [leftSum]; rw [sumRange_succ_last]; simp
    rw [this]
    congr 1; omega

theorem optRows_first (fl : Flags) (S : Matrix) (o : Int) (r q : List Nat) (i : Nat) (hi : i < r.length) :
    rowAt (optRows fl S o r q) (i + 1) 0 =
      optFirst fl S o (if i = 0 then true else false) (rowAt (optRows fl S o r q) i 0) (r.getD i 0) := by
  simp only [optRows]
  exact rows_first _ _ q r _ i hi

/-- first column of the table: `up` layer = gap-open + the gap scores of the reference prefix -/
theorem nw_col0_u (cross : Bool) (S : Matrix) (o : Int) (r q : List Nat) :
    ∀ i, i < r.length → ((nwTable cross S o r q).at (i + 1) 0).u = some (o + upSum S r 0 (i + 1)) ∧
      ((nwTable cross S o r q).at (i + 1) 0).d = none ∧ ((nwTable cross S o r q).at (i + 1) 0).l = none := by
  intro i
  induction i with
  | zero =>
    intro hi
    rw [nwTable_at cross S o r q 1 0 (by omega), optRows_first (flN cross) S o r q 0 hi, optRows_origin]
    refine ⟨?_, by simp [optFirst, flN, emptyAt], rfl⟩
    simp only [optFirst, origin, gapVal_some_none_none]
    rw [upSum_succ]
    simp [upSum, sumRange_zero]
  | succ i ih =>
    intro hi
    obtain ⟨hu, hd, hl⟩ := ih (by omega)
    rw [nwTable_at cross S o r q (i + 1) 0 (by omega)] at hu hd hl
    rw [nwTable_at cross S o r q (i + 2) 0 (by omega), optRows_first (flN cross) S o r q (i + 1) hi]
    refine ⟨?_, by simp [optFirst, flN, emptyAt], rfl⟩
    simp only [optFirst, hu, hd, hl, gapVal_none_none, vadd]
    have : upSum S r 0 (i + 1 + 1) = upSum S r 0 (i + 1) + S (r.getD (i + 1) 0) 0 := by
      simp only [upSum]; rw [sumRange_succ_last]; simp
    rw [this]
    congr 1; omega

/-- Faithful pair scores for either switch and either fill: if the traceback of the model of
    `NWAffine` only takes cases of its current layer, every pair's score is the recomputed one. -/
theorem nwAlignT_faithful (aware cross : Bool) (S : Matrix) (o : Int) (r q : List Nat) (hr : r ≠ []) (hq : q ≠ [])
    (ps : List Pair) (h : nwAlignT aware cross S o r q = .ok (ps, false)) : faithful S o r q ps = true := by
  have hR : 0 < r.length := by cases r with | nil => exact absurd rfl hr | cons _ _ => simp
  have hC : 0 < q.length := by cases q with | nil => exact absurd rfl hq | cons _ _ => simp
  have F := nwTable_facts cross S o r q
  unfold nwAlignT at h
  simp only [] at h
  split at h
  · cases h
  · rename_i st hl
    have hinv := loop_inv aware cross false _ S o r q r.length q.length r.length q.length _ _ st
      (init_inv r.length q.length r.length q.length _ (Nat.le_refl _) (Nat.le_refl _)) hl
    have hfaith := loop_faith aware cross false _ S o r q r.length q.length r.length q.length _ _ st
      (init_inv r.length q.length r.length q.length _ (Nat.le_refl _) (Nat.le_refl _))
      (fun _ => init_faith S o r q r.length q.length _ hR hC) hl
    have hstop := loop_stops aware cross _ S o r q r.length q.length _ _ st hl (Nat.le_refl _)
    -- the value invariant, to know the layer the loop stopped in
    obtain ⟨x, hx⟩ : ∃ x, cellBest ((nwTable cross S o r q).at r.length q.length) = some x := by
      obtain ⟨a, hga, hna⟩ := exists_global_noAdj r q hr hq
      obtain ⟨x, hx, _⟩ := (globalOpt_isOpt cross S o r q).1 a ⟨hga, Or.inr hna⟩
      exact ⟨x, by rw [nwTable_at cross S o r q _ _ (Nat.le_refl _)]; exact hx⟩
    have hinit : Good (nwTable cross S o r q) r.length q.length x
        { i := r.length, j := q.length,
          layer := bestLayer ((nwTable cross S o r q).at r.length q.length),
          last := .m, score := 0, maxI := r.length, maxJ := q.length, aln := [] } := by
      refine ⟨Nat.le_refl _, Nat.le_refl _, x, ?_, by simp [total]⟩
      simp only []
      rw [cellBest_layer, hx]
    obtain ⟨st2, hloop2, ⟨_, _, v, hv, _⟩, _⟩ := loop_good aware F x (r.length + q.length) _ hinit (Nat.le_refl _)
    rw [hl] at hloop2
    cases hloop2
    -- the tie flag of the result is the state's
    have htie : st.tie = false := by
      by_cases hij : st.i ≠ st.j
      · rw [if_pos hij] at h; exact (Prod.mk.inj (Except.ok.inj h)).2
      · rw [if_neg hij] at h; exact (Prod.mk.inj (Except.ok.inj h)).2
    have hf := hfaith htie
    obtain ⟨hi, hj, hmR, hmC, isegm, isegu, isegl, iempty0, _, _, _, _⟩ := hinv
    -- the loop stops in a block, or (since the repair of K1) in a gap run that has just been
    -- opened from the other gap layer on the border: row 0 holds values only in the `left`
    -- layer, column 0 only in the `up` layer
    have hpair : pairOK S o r q ⟨st.i, st.maxI, st.j, st.maxJ, st.score⟩ = true := by
      cases hk : st.last with
      | m => rw [hf.segm hk]; exact pairOK_block S o r q _ _ _ _ hi (isegm hk)
      | u =>
        have hj0 : st.j ≠ 0 := fun e => hf.termj e hk
        have hi0 : st.i = 0 := by rcases hstop with e | e; exact e; exact absurd e hj0
        obtain ⟨j', hj'⟩ : ∃ j', st.j = j' + 1 := ⟨st.j - 1, by omega⟩
        rw [hi0, hj'] at hv
        have hlay : st.layer = .l := F.row0 j' (by omega) _ v hv
        obtain ⟨e1, e2⟩ := isegu hk
        have e2' : st.i < st.maxI := by
          rcases e2 with e2 | e2
          · exact e2
          · rw [hlay] at e2; cases e2
        rw [(hf.segu hk).2 (by rw [hlay]; decide), ← e1]
        exact pairOK_up S o r q _ _ _ e2'
      | l =>
        have hi0 : st.i ≠ 0 := fun e => hf.termi e hk
        have hj0 : st.j = 0 := by rcases hstop with e | e; exact absurd e hi0; exact e
        obtain ⟨i', hi'⟩ : ∃ i', st.i = i' + 1 := ⟨st.i - 1, by omega⟩
        rw [hj0, hi'] at hv
        have hlay : st.layer = .u := F.col0 i' (by omega) _ v hv
        obtain ⟨e1, e2⟩ := isegl hk
        have e2' : st.j < st.maxJ := by
          rcases e2 with e2 | e2
          · exact e2
          · rw [hlay] at e2; cases e2
        rw [(hf.segl hk).2 (by rw [hlay]; decide), ← e1]
        exact pairOK_left S o r q _ _ _ e2'
    have hemit : st.emit.aln.all (pairOK S o r q) = true := by
      simp only [TB.emit, List.all_cons, hpair, hf.done, Bool.and_self]
    by_cases hij : st.i ≠ st.j
    · rw [if_pos hij] at h
      rw [← (Prod.mk.inj (Except.ok.inj h)).1]
      show (_ :: st.emit.aln).all (pairOK S o r q) = true
      simp only [List.all_cons, hemit, Bool.and_true]
      by_cases hi0 : st.i = 0
      · obtain ⟨j', hj'⟩ : ∃ j', st.j = j' + 1 := ⟨st.j - 1, by omega⟩
        simp only [hi0, if_true]
        rw [hj']; simp only [Cell.get]; rw [(nw_row0_l cross S o r q j' (by omega)).1]
        have := pairOK_left S o r q 0 0 (j' + 1) (by omega)
        simpa [vget] using this
      · have hj0 : st.j = 0 := by rcases hstop with e | e; exact absurd e hi0; exact e
        obtain ⟨i', hi'⟩ : ∃ i', st.i = i' + 1 := ⟨st.i - 1, by omega⟩
        simp only [hi0, if_false]
        rw [hj0, hi']; simp only [Cell.get]; rw [(nw_col0_u cross S o r q i' (by omega)).1]
        have := pairOK_up S o r q 0 (i' + 1) 0 (by omega)
        simpa [vget] using this
    · rw [if_neg hij] at h
      rw [← (Prod.mk.inj (Except.ok.inj h)).1]
      exact hemit

/-- the layer-aware traceback of `NWAffine` never raises the ghost flag -/
theorem nwAlignT_aware_tie (cross : Bool) (S : Matrix) (o : Int) (r q : List Nat) (ps : List Pair) (t : Bool)
    (h : nwAlignT true cross S o r q = .ok (ps, t)) : t = false := by
  unfold nwAlignT at h
  simp only [] at h
  split at h
  · cases h
  · rename_i st hl
    have ht := loop_tie_aware cross false _ S o r q _ _ _ _ st hl
    simp only [] at ht
    split at h <;> (cases h; exact ht)

/-- **Faithful pair scores, `NWAffine`** (after the repairs of K5 and K1): every pair the model
    returns carries the score recomputed from the letters, the matrix and the gap parameters. -/
theorem nwAlign_faithful (S : Matrix) (o : Int) (r q : List Nat) (hr : r ≠ []) (hq : q ≠ [])
    (ps : List Pair) (h : nwAlign S o r q = .ok ps) : faithful S o r q ps = true := by
  obtain ⟨t, hT⟩ := map_fst_ok h
  have := nwAlignT_aware_tie true S o r q ps t hT
  subst this
  exact nwAlignT_faithful true true S o r q hr hq ps hT

end Biogo.Proofs.NWFaith
