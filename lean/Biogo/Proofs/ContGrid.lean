/-
Lemmas for C07: the column view of a container is a function of its row view.  Core-only.
-/
import Biogo.Model.ContWorld
import Biogo.Proofs.Containers
import Biogo.Proofs.ContFrame

namespace Biogo.Containers
open Biogo.Go

/-- the body of the loop of `Column`/`ColumnQL`:
    `if covers { c = append(c, x) } else if fill { c = append(c, g) }` -/
def colStep {β : Type} (p : Lin → Bool) (x : Lin → β) (g : β) (fill : Bool) (c : List β) (r : Lin) : List β :=
  if p r then c ++ [x r] else if fill then c ++ [g] else c

theorem foldl_colStep {β : Type} (p : Lin → Bool) (x : Lin → β) (g : β) (fill : Bool) :
    ∀ (rows : List Lin) (acc : List β),
      rows.foldl (colStep p x g fill) acc
        = acc ++ rows.filterMap (fun r => if p r then some (x r) else if fill then some g else none) := by
  intro rows
  induction rows with
  | nil => intro acc; simp
  | cons r rs ih =>
    intro acc
    rw [List.foldl_cons, ih, List.filterMap_cons]
    unfold colStep
    by_cases hp : p r = true
    · simp [hp]
    · cases fill <;> simp [hp]

theorem foldl_column_fill {β : Type} (p : Lin → Bool) (x : Lin → β) (g : β) (rows : List Lin) :
    rows.foldl (colStep p x g true) [] = rows.map (fun r => if p r then x r else g) := by
  rw [foldl_colStep, List.nil_append, ← List.filterMap_eq_map]
  congr 1
  funext r
  by_cases hp : p r = true <;> simp [hp]

theorem foldl_column_nofill {β : Type} (p : Lin → Bool) (x : Lin → β) (g : β) (rows : List Lin) :
    rows.foldl (colStep p x g false) [] = rows.filterMap (fun r => if p r then some (x r) else none) := by
  rw [foldl_colStep, List.nil_append]
  rfl

/-- what row `r` shows at `pos` through the column view: its letter, or nothing -/
def Multi.cell (h : Cells) (r : Lin) (pos : Int) : Option QL :=
  if Multi.covers r pos then some ((r.at? h pos).getD zeroQL) else none

theorem Multi.columnQL_fill (cx : Ctx) (h : Cells) (m : Multi) (pos : Int) :
    m.columnQL cx h pos true = m.rows.map fun r => (Multi.cell h r pos).getD ⟨cx.gap, 0⟩ := by
  show m.rows.foldl (colStep (fun r => Multi.covers r pos) (fun r => (r.at? h pos).getD zeroQL) ⟨cx.gap, 0⟩ true) [] = _
  rw [foldl_column_fill]
  apply List.map_congr_left
  intro r _
  simp only [Multi.cell]
  cases Multi.covers r pos <;> simp

theorem Multi.column_fill (cx : Ctx) (h : Cells) (m : Multi) (pos : Int) :
    m.column cx h pos true = m.rows.map fun r => ((Multi.cell h r pos).map (·.L)).getD cx.gap := by
  show m.rows.foldl (colStep (fun r => Multi.covers r pos) (fun r => ((r.at? h pos).getD zeroQL).L) cx.gap true) [] = _
  rw [foldl_column_fill]
  apply List.map_congr_left
  intro r _
  simp only [Multi.cell]
  cases Multi.covers r pos <;> simp

theorem Multi.column_nofill (cx : Ctx) (h : Cells) (m : Multi) (pos : Int) :
    m.column cx h pos false = m.rows.filterMap fun r => (Multi.cell h r pos).map (·.L) := by
  show m.rows.foldl (colStep (fun r => Multi.covers r pos) (fun r => ((r.at? h pos).getD zeroQL).L) cx.gap false) [] = _
  rw [foldl_column_nofill]
  congr 1
  funext r
  simp only [Multi.cell]
  cases Multi.covers r pos <;> simp

/-- a covered position inside a valid row is a real `At` (no index panic) -/
theorem Lin.at?_isSome_of_covers (h : Cells) (r : Lin) (hv : r.Valid h) (pos : Int)
    (hc : Multi.covers r pos = true) : (r.at? h pos).isSome = true := by
  simp only [Multi.covers, Lin.start, Lin.«end», Bool.and_eq_true] at hc
  have hc1 := of_decide_eq_true hc.1
  have hc2 := of_decide_eq_true hc.2
  simp only [Lin.at?]
  have h1 : ¬ pos < r.off := by omega
  simp only [h1, if_false, Option.isSome_map]
  simp only [Heap.get?]
  have h2 : (pos - r.off).toNat < r.s.len := by omega
  simp only [h2, if_true]
  have h3 : r.s.off + (pos - r.off).toNat < (h.arr r.s.arr).length := by have := hv.2; omega
  rw [List.getElem?_eq_getElem h3]
  rfl

/-! ### column-stored alignments -/

theorem Aln.at?_col (h : Cells) (a : Aln) (r i : Nat) :
    a.at? h r (a.off + (i : Int)) = (a.cols[i]?).bind fun c => (h.get? c r).map (Lin.shown a.q) := by
  simp only [Aln.at?]
  have h1 : ¬ (a.off + (i : Int) < a.off) := by omega
  have h2 : (a.off + (i : Int) - a.off).toNat = i := by omega
  simp only [h1, if_false, h2]
  cases a.cols[i]? <;> rfl

theorem Aln.columnQL_get (h : Cells) (a : Aln) (r i : Nat) :
    (a.columnQL h i)[r]? = (a.cols[i]?).bind fun c => (h.get? c r).map (Lin.shown a.q) := by
  simp only [Aln.columnQL]
  cases a.cols[i]? with
  | none => simp
  | some c => simp only [List.getElem?_map, Heap.get?_eq_read]; rfl

theorem Aln.column_get (cx : Ctx) (h : Cells) (a : Aln) (r i : Nat) :
    (a.column cx h i)[r]? = (a.cols[i]?).bind fun c => (h.get? c r).map fun x =>
      if a.q then (if x.Q ≥ alnThreshold then x.L else cx.amb) else x.L := by
  simp only [Aln.column]
  cases a.cols[i]? with
  | none => simp
  | some c => simp only [List.getElem?_map, Heap.get?_eq_read]; rfl

/-! ### Truncate / Subseq -/

theorem read_slice {α : Type} (h : Heap α) (s s' : Slice) (lo hi : Nat) (hs : s.slice lo hi = some s')
    (hhi : hi ≤ s.len) : h.read s' = ((h.read s).drop lo).take (hi - lo) := by
  simp only [Slice.slice] at hs
  split at hs
  · simp only [Option.some.injEq] at hs
    subst hs
    simp only [Heap.read]
    rw [List.drop_take, List.take_take, List.drop_drop]
    congr 1
    omega
  · cases hs

/-- `sequtils.Truncate(r, r, start, end)` on a linear sequence keeps exactly the letters at
    `[start,end)` and moves the offset to `start` -/
theorem Lin.truncate_spec (h : Cells) (l l' : Lin) (st en : Int) (ht : l.truncate st en = some l') :
    l'.letters h = ((l.letters h).drop (st - l.start).toNat).take (en - st).toNat ∧
    l'.start = st ∧ l'.«end» = en ∧ l'.q = l.q ∧ l'.name = l.name ∧ l'.strand = l.strand ∧
    l'.s.arr = l.s.arr ∧ l.start ≤ st ∧ st ≤ en ∧ en ≤ l.«end» := by
  simp only [Lin.truncate] at ht
  split at ht
  · cases ht
  · rename_i hr
    simp only [Bool.or_eq_true, decide_eq_true_eq, not_or, Int.not_lt, Int.not_lt] at hr
    split at ht
    · rename_i hse
      split at ht
      · rename_i s' hs
        simp only [Option.some.injEq] at ht
        subst ht
        have hsl := hs
        simp only [Slice.slice] at hsl
        split at hsl
        · simp only [Option.some.injEq] at hsl
          simp only [Lin.start, Lin.«end»] at hr
          refine ⟨?_, rfl, ?_, rfl, rfl, rfl, ?_, hr.1, hse, hr.2⟩
          · simp only [Lin.letters, Lin.start]
            rw [read_slice h l.s s' _ _ hs (by omega), ← List.map_drop, ← List.map_take]
            congr 2
            omega
          · simp only [Lin.«end»]; subst hsl; simp only; omega
          · subst hsl; rfl
        · cases hsl
      · cases ht
    · cases ht

/-- a range inside a well-formed row can always be truncated to -/
theorem Lin.truncate_isSome (l : Lin) (st en : Int) (h1 : l.start ≤ st) (h2 : st ≤ en) (h3 : en ≤ l.«end»)
    (hcap : l.s.len ≤ l.s.cap) : (l.truncate st en).isSome = true := by
  have e1 : l.start = l.off := rfl
  have e2 : l.«end» = l.off + (l.s.len : Int) := rfl
  unfold Lin.truncate
  have c1 : (decide (st < l.start) || decide (en > l.«end»)) = false := by
    simp only [Bool.or_eq_false_iff, decide_eq_false_iff_not]; omega
  rw [c1]
  simp only [Bool.false_eq_true, if_false, h2, if_true]
  have : ((st - l.off).toNat ≤ (en - l.off).toNat ∧ (en - l.off).toNat ≤ l.s.cap) := by omega
  simp only [Slice.slice, this, and_self, if_true, Option.isSome_some]

theorem Lin.truncate_valid (h : Cells) (l l' : Lin) (st en : Int) (ht : l.truncate st en = some l')
    (hv : l.Valid h) : l'.Valid h := by
  have hspec := Lin.truncate_spec h l l' st en ht
  simp only [Lin.truncate] at ht
  split at ht
  · cases ht
  · split at ht
    · split at ht
      · rename_i s' hs
        simp only [Option.some.injEq] at ht
        subst ht
        simp only [Slice.slice] at hs
        split at hs
        · simp only [Option.some.injEq] at hs
          subst hs
          obtain ⟨_, _, _, _, _, _, _, h1, h2, h3⟩ := hspec
          simp only [Lin.start, Lin.«end»] at h1 h3
          refine ⟨hv.1, ?_⟩
          have := hv.2
          simp only
          omega
        · cases hs
      · cases ht
    · cases ht

/-- **Truncate over a range every row covers**: every row is truncated, no error -/
theorem Multi.truncate_spec (m : Multi) (st en : Int)
    (hall : ∀ r ∈ m.rows, (r.truncate st en).isSome = true) :
    (m.truncate st en).2 = true ∧
    All2 (fun r r' => r.truncate st en = some r') m.rows (m.truncate st en).1.rows := by
  have key : ∀ (rows : List Lin) (acc : List Lin), (∀ r ∈ rows, (r.truncate st en).isSome = true) →
      ∃ rs', rows.foldl (Multi.truncStep st en) (acc, true) = (acc ++ rs', true) ∧
        All2 (fun r r' => r.truncate st en = some r') rows rs' := by
    intro rows
    induction rows with
    | nil => intro acc _; exact ⟨[], by simp, .nil⟩
    | cons r rs ih =>
      intro acc hall
      have hr := hall r List.mem_cons_self
      obtain ⟨r', hr'⟩ := Option.isSome_iff_exists.mp hr
      obtain ⟨rs', h1, h2⟩ := ih (acc ++ [r']) (fun x hx => hall x (List.mem_cons_of_mem _ hx))
      refine ⟨r' :: rs', ?_, .cons hr' h2⟩
      have hstep : Multi.truncStep st en (acc, true) r = (acc ++ [r'], true) := by
        simp only [Multi.truncStep, Bool.not_true, Bool.false_eq_true, if_false, hr']
      rw [List.foldl_cons, hstep, h1]; simp
  obtain ⟨rs', h1, h2⟩ := key m.rows [] hall
  simp only [Multi.truncate]
  rw [h1]
  exact ⟨rfl, by simpa using h2⟩

/-- what `Subseq(st, en)` makes of one row -/
def SubRel (h : Cells) (st en : Int) (h' : Cells) (r c : Lin) : Prop :=
  c.letters h' = ((r.letters h).drop (st - r.start).toNat).take (en - st).toNat ∧
  c.start = st ∧ c.«end» = en ∧ c.q = r.q ∧ c.name = r.name ∧ c.strand = r.strand

theorem clone_cap (cx : Ctx) (h : Cells) (l : Lin) : (l.clone cx h).2.s.len ≤ (l.clone cx h).2.s.cap := by
  simp only [Lin.clone, Heap.ofList]; omega

theorem subseqFold_spec (cx : Ctx) (st en : Int) : ∀ (rows : List Lin) (h : Cells) (acc : List Lin),
    (∀ r ∈ rows, r.Valid h ∧ r.start ≤ st ∧ st ≤ en ∧ en ≤ r.«end») →
    ∃ cs, (rows.foldl (Multi.subseqStep cx st en) (h, acc, true)).2 = (acc ++ cs, true) ∧
      All2 (fun r c => SubRel h st en (rows.foldl (Multi.subseqStep cx st en) (h, acc, true)).1 r c ∧
          h.arrays.length ≤ c.s.arr ∧ c.Valid (rows.foldl (Multi.subseqStep cx st en) (h, acc, true)).1) rows cs ∧
      cs.Pairwise (fun a b => a.s.arr ≠ b.s.arr) ∧
      h.arrays.length ≤ (rows.foldl (Multi.subseqStep cx st en) (h, acc, true)).1.arrays.length ∧
      (∀ b, b < h.arrays.length → (rows.foldl (Multi.subseqStep cx st en) (h, acc, true)).1.arr b = h.arr b) := by
  intro rows
  induction rows with
  | nil => intro h acc _; exact ⟨[], by simp, .nil, List.Pairwise.nil, Nat.le_refl _, fun _ _ => rfl⟩
  | cons r rs ih =>
    intro h acc hv
    obtain ⟨hvr, hr1, hr2, hr3⟩ := hv r List.mem_cons_self
    obtain ⟨hlet, harr, hvalid, hsize, hold, hoff, hstr, hname, hq, hlen⟩ := Lin.clone_fresh cx h r hvr
    -- the clone covers the same range, so its truncation succeeds
    have hcs : (r.clone cx h).2.start = r.start := hoff
    have hce : (r.clone cx h).2.«end» = r.«end» := by simp only [Lin.«end», hoff, hlen]
    have hsome := Lin.truncate_isSome (r.clone cx h).2 st en (by rw [hcs]; exact hr1) hr2 (by rw [hce]; exact hr3)
      (clone_cap cx h r)
    obtain ⟨c', hc'⟩ := Option.isSome_iff_exists.mp hsome
    have hspec := Lin.truncate_spec (r.clone cx h).1 _ c' st en hc'
    have hcv := Lin.truncate_valid (r.clone cx h).1 _ c' st en hc' hvalid
    have hv' : ∀ x ∈ rs, x.Valid (r.clone cx h).1 ∧ x.start ≤ st ∧ st ≤ en ∧ en ≤ x.«end» := fun x hx => by
      obtain ⟨hxv, hx2⟩ := hv x (List.mem_cons_of_mem _ hx)
      exact ⟨Lin.valid_mono (by omega) (hold _ hxv.1) hxv, hx2⟩
    obtain ⟨cs, h2, hall, hpw, hsz, hfr⟩ := ih (r.clone cx h).1 (acc ++ [c']) hv'
    have hstep : Multi.subseqStep cx st en (h, acc, true) r = ((r.clone cx h).1, acc ++ [c'], true) := by
      simp only [Multi.subseqStep, Bool.not_true, Bool.false_eq_true, if_false, hc']
    rw [List.foldl_cons, hstep]
    have hc'arr : c'.s.arr = h.arrays.length := by rw [hspec.2.2.2.2.2.2.1, harr]
    have hkeep : (rs.foldl (Multi.subseqStep cx st en) ((r.clone cx h).1, acc ++ [c'], true)).1.arr c'.s.arr
        = (r.clone cx h).1.arr c'.s.arr := hfr _ (by rw [hc'arr, hsize]; omega)
    refine ⟨c' :: cs, by rw [h2]; simp, .cons ⟨?_, by omega, ?_⟩ ?_, ?_, by omega, ?_⟩
    · obtain ⟨s1, s2, s3, s4, s5, s6, _⟩ := hspec
      refine ⟨?_, s2, s3, by rw [s4, hq], by rw [s5, hname], by rw [s6, hstr]⟩
      rw [Lin.letters_congr hkeep, s1, hlet, hcs]
    · exact Lin.valid_mono hsz hkeep hcv
    · refine hall.imp_mem fun a b ha hab => ⟨?_, by have := hab.2.1; omega, hab.2.2⟩
      obtain ⟨t1, t2⟩ := hab.1
      refine ⟨?_, t2⟩
      rw [t1, Lin.letters_congr (hold _ (hv a (List.mem_cons_of_mem _ ha)).1.1)]
    · refine List.pairwise_cons.mpr ⟨?_, hpw⟩
      intro c hc
      obtain ⟨a, _, hr⟩ := hall.exists_left c hc
      have := hr.2.1
      rw [hc'arr]; omega
    · intro b hb
      rw [hfr b (by omega), hold b hb]

/-! ### AppendColumns / AppendEach on column-stored alignments -/

theorem newColumn_fresh (cx : Ctx) (q : Bool) (h : Cells) (col : List QL) :
    (Aln.newColumn cx q h col).1.read (Aln.newColumn cx q h col).2 = col.map (Lin.stored q) ∧
    (Aln.newColumn cx q h col).2.arr = h.arrays.length ∧
    (Aln.newColumn cx q h col).2.len = col.length ∧
    (Aln.newColumn cx q h col).1.arrays.length = h.arrays.length + 1 ∧
    (∀ b, b < h.arrays.length → (Aln.newColumn cx q h col).1.arr b = h.arr b) := by
  refine ⟨?_, rfl, ?_, ?_, ?_⟩
  · simp only [Aln.newColumn]; exact Heap.read_ofList _ _ _ _
  · simp only [Aln.newColumn, Heap.ofList, List.length_map]
  · simp only [Aln.newColumn]; exact Heap.size_ofList _ _ _ _
  · intro b hb
    simp only [Aln.newColumn, Heap.ofList]
    exact Heap.arr_alloc_old _ _ _ hb

/-- the loop of `AppendColumns`: one new backing array per appended column -/
def colsFold (cx : Ctx) (q : Bool) (colsIn : List (List QL)) (acc : Cells × List Slice) : Cells × List Slice :=
  colsIn.foldl (fun (acc : Cells × List Slice) c =>
    ((Aln.newColumn cx q acc.1 c).1, acc.2 ++ [(Aln.newColumn cx q acc.1 c).2])) acc

theorem colsFold_spec (cx : Ctx) (q : Bool) : ∀ (colsIn : List (List QL)) (h : Cells) (acc : List Slice),
    ∃ news, (colsFold cx q colsIn (h, acc)).2 = acc ++ news ∧
      All2 (fun c s => (colsFold cx q colsIn (h, acc)).1.read s = c.map (Lin.stored q) ∧
          h.arrays.length ≤ s.arr ∧ s.arr < (colsFold cx q colsIn (h, acc)).1.arrays.length ∧
          s.len = c.length) colsIn news ∧
      h.arrays.length ≤ (colsFold cx q colsIn (h, acc)).1.arrays.length ∧
      (∀ b, b < h.arrays.length → (colsFold cx q colsIn (h, acc)).1.arr b = h.arr b) := by
  intro colsIn
  induction colsIn with
  | nil => intro h acc; exact ⟨[], by simp [colsFold], .nil, Nat.le_refl _, fun _ _ => rfl⟩
  | cons c cs ih =>
    intro h acc
    obtain ⟨hread, harr, hlen, hsize, hold⟩ := newColumn_fresh cx q h c
    obtain ⟨news, h2, hall, hsz, hfr⟩ := ih (Aln.newColumn cx q h c).1 (acc ++ [(Aln.newColumn cx q h c).2])
    have hfold : colsFold cx q (c :: cs) (h, acc)
        = colsFold cx q cs ((Aln.newColumn cx q h c).1, acc ++ [(Aln.newColumn cx q h c).2]) := rfl
    rw [hfold]
    refine ⟨(Aln.newColumn cx q h c).2 :: news, by rw [h2]; simp, .cons ⟨?_, by omega, by omega, hlen⟩ ?_, by omega, ?_⟩
    · rw [read_congr_arr _ _ _ (hfr _ (by rw [harr, hsize]; omega))]; exact hread
    · exact hall.imp fun a b hab => ⟨hab.1, by have := hab.2.1; omega, hab.2.2⟩
    · intro b hb
      rw [hfr b (by omega), hold b hb]

theorem Aln.appendColumns_eq (cx : Ctx) (h : Cells) (a : Aln) (rows : Nat) (colsIn : List (List QL))
    (hok : colsIn.any (fun c => c.length != rows) = false) :
    a.appendColumns cx h rows colsIn =
      some ((colsFold cx a.q colsIn (h, a.cols)).1, { a with cols := (colsFold cx a.q colsIn (h, a.cols)).2 }) := by
  simp only [Aln.appendColumns, hok, Bool.false_eq_true, if_false]
  rfl

/-- every column slice of the alignment lies in an allocated array -/
def Aln.ColsValid (h : Cells) (a : Aln) : Prop := ∀ c ∈ a.cols, c.arr < h.arrays.length

/-! ### AppendEach on column-stored alignments -/

theorem eachColumn_length (cx : Ctx) (runs : List (List QL)) (i : Nat) :
    (Aln.eachColumn cx runs i).length = runs.length := by
  simp [Aln.eachColumn]

/-- invariant of the loop of `AppendEach` after `k` columns -/
theorem appendEach_prefix (cx : Ctx) (rows : Nat) (runs : List (List QL)) (hr : runs.length = rows)
    (h : Cells) (a : Aln) :
    ∀ k, ∃ hk ak news,
      (List.range k).foldl (Aln.eachStep cx rows runs) (some (h, a)) = some (hk, ak) ∧
      ak.cols = a.cols ++ news ∧ news.length = k ∧
      (∀ j s, news[j]? = some s →
        hk.read s = (Aln.eachColumn cx runs j).map (Lin.stored a.q) ∧
        h.arrays.length ≤ s.arr ∧ s.arr < hk.arrays.length) ∧
      (∀ b, b < h.arrays.length → hk.arr b = h.arr b) ∧ h.arrays.length ≤ hk.arrays.length ∧
      ak.q = a.q ∧ ak.subs = a.subs ∧ ak.strand = a.strand ∧ ak.off = a.off := by
  intro k
  induction k with
  | zero =>
    exact ⟨h, a, [], rfl, by simp, rfl, fun j s hs => by simp at hs, fun _ _ => rfl, Nat.le_refl _,
      rfl, rfl, rfl, rfl⟩
  | succ k ih =>
    obtain ⟨hk, ak, news, hfold, hcols, hlen, hnews, hold, hsz, hq, hsubs, hstr, hoff⟩ := ih
    rw [List.range_succ, List.foldl_append, hfold]
    simp only [List.foldl_cons, List.foldl_nil, Aln.eachStep]
    have hok : [Aln.eachColumn cx runs k].any (fun c => c.length != rows) = false := by
      simp [eachColumn_length, hr]
    rw [Aln.appendColumns_eq cx hk ak rows _ hok]
    obtain ⟨one, h2, hall, hsz2, hfr⟩ := colsFold_spec cx ak.q [Aln.eachColumn cx runs k] hk ak.cols
    cases hall with
    | cons hcs hrest =>
      cases hrest
      rename_i s
      refine ⟨_, _, news ++ [s], rfl, ?_, by simp [hlen], ?_, ?_, by omega, hq, hsubs, hstr, hoff⟩
      · simp only; rw [h2, hcols]; simp
      · intro j s' hs'
        by_cases hj : j < news.length
        · rw [List.getElem?_append_left hj] at hs'
          obtain ⟨e1, e2, e3⟩ := hnews j s' hs'
          refine ⟨?_, e2, by omega⟩
          rw [read_congr_arr _ _ _ (hfr _ e3)]; exact e1
        · rw [List.getElem?_append_right (by omega)] at hs'
          have hj0 : j - news.length = 0 := by
            cases hx : j - news.length with
            | zero => rfl
            | succ m => rw [hx] at hs'; simp at hs'
          rw [hj0] at hs'
          simp only [List.getElem?_cons_zero, Option.some.injEq] at hs'
          subst hs'
          have hjk : j = k := by omega
          subst hjk
          refine ⟨by rw [hcs.1, hq], by have := hcs.2.1; omega, hcs.2.2.1⟩
      · intro b hb
        rw [hfr b (by omega), hold b hb]

end Biogo.Containers
