/-
Lemmas for C07: the column view of a container is a function of its row view.  Core-only.
-/
import Biogo.Model.ContWorld
import Biogo.Proofs.Containers

namespace Biogo.Containers
open Biogo.Go

/-- the body of the loop of `Column`/`ColumnQL`:
    `if covers { c = append(c, x) } else if fill { c = append(c, g) }` -/
def colStep {β : Type} (p : Lin → Bool) (x : Lin → β) (g : β) (fill : Bool) (c : List β) (r : Lin) : List β :=
  if p r then c ++ [x r] else if fill then c ++ [g] else c

theorem foldl_colStep {β : Type} (p : Lin → Bool) (x : Lin → β) (g : β) (fill : Bool) :
    ∀ (rows : List Lin) (acc : List β),
      rows.foldl (colStep p x g fill) acc
        = acc ++ rows.filterMap (fun r => if p r then some (x r) else if fill then some g else none) := by
  intro rows
  induction rows with
  | nil => intro acc; simp
  | cons r rs ih =>
    intro acc
    rw [List.foldl_cons, ih, List.filterMap_cons]
    unfold colStep
    by_cases hp : p r = true
    · simp [hp]
    · cases fill <;> simp [hp]

theorem foldl_column_fill {β : Type} (p : Lin → Bool) (x : Lin → β) (g : β) (rows : List Lin) :
    rows.foldl (colStep p x g true) [] = rows.map (fun r => if p r then x r else g) := by
  rw [foldl_colStep, List.nil_append, ← List.filterMap_eq_map]
  congr 1
  funext r
  by_cases hp : p r = true <;> simp [hp]

theorem foldl_column_nofill {β : Type} (p : Lin → Bool) (x : Lin → β) (g : β) (rows : List Lin) :
    rows.foldl (colStep p x g false) [] = rows.filterMap (fun r => if p r then some (x r) else none) := by
  rw [foldl_colStep, List.nil_append]
  rfl

/-- what row `r` shows at `pos` through the column view: its letter, or nothing -/
def Multi.cell (h : Cells) (r : Lin) (pos : Int) : Option QL :=
  if Multi.covers r pos then some ((r.at? h pos).getD zeroQL) else none

theorem Multi.columnQL_fill (cx : Ctx) (h : Cells) (m : Multi) (pos : Int) :
    m.columnQL cx h pos true = m.rows.map fun r => (Multi.cell h r pos).getD ⟨cx.gap, 0⟩ := by
  show m.rows.foldl (colStep (fun r => Multi.covers r pos) (fun r => (r.at? h pos).getD zeroQL) ⟨cx.gap, 0⟩ true) [] = _
  rw [foldl_column_fill]
  apply List.map_congr_left
  intro r _
  simp only [Multi.cell]
  cases Multi.covers r pos <;> simp

theorem Multi.column_fill (cx : Ctx) (h : Cells) (m : Multi) (pos : Int) :
    m.column cx h pos true = m.rows.map fun r => ((Multi.cell h r pos).map (·.L)).getD cx.gap := by
  show m.rows.foldl (colStep (fun r => Multi.covers r pos) (fun r => ((r.at? h pos).getD zeroQL).L) cx.gap true) [] = _
  rw [foldl_column_fill]
  apply List.map_congr_left
  intro r _
  simp only [Multi.cell]
  cases Multi.covers r pos <;> simp

theorem Multi.column_nofill (cx : Ctx) (h : Cells) (m : Multi) (pos : Int) :
    m.column cx h pos false = m.rows.filterMap fun r => (Multi.cell h r pos).map (·.L) := by
  show m.rows.foldl (colStep (fun r => Multi.covers r pos) (fun r => ((r.at? h pos).getD zeroQL).L) cx.gap false) [] = _
  rw [foldl_column_nofill]
  congr 1
  funext r
  simp only [Multi.cell]
  cases Multi.covers r pos <;> simp

/-- a covered position inside a valid row is a real `At` (no index panic) -/
theorem Lin.at?_isSome_of_covers (h : Cells) (r : Lin) (hv : r.Valid h) (pos : Int)
    (hc : Multi.covers r pos = true) : (r.at? h pos).isSome = true := by
  simp only [Multi.covers, Lin.start, Lin.«end», Bool.and_eq_true] at hc
  have hc1 := of_decide_eq_true hc.1
  have hc2 := of_decide_eq_true hc.2
  simp only [Lin.at?]
  have h1 : ¬ pos < r.off := by omega
  simp only [h1, if_false, Option.isSome_map]
  simp only [Heap.get?]
  have h2 : (pos - r.off).toNat < r.s.len := by omega
  simp only [h2, if_true]
  have h3 : r.s.off + (pos - r.off).toNat < (h.arr r.s.arr).length := by have := hv.2; omega
  rw [List.getElem?_eq_getElem h3]
  rfl

/-! ### column-stored alignments -/

theorem Aln.at?_col (h : Cells) (a : Aln) (r i : Nat) :
    a.at? h r (a.off + (i : Int)) = (a.cols[i]?).bind fun c => (h.get? c r).map (Lin.shown a.q) := by
  simp only [Aln.at?]
  have h1 : ¬ (a.off + (i : Int) < a.off) := by omega
  have h2 : (a.off + (i : Int) - a.off).toNat = i := by omega
  simp only [h1, if_false, h2]
  cases a.cols[i]? <;> rfl

theorem Aln.columnQL_get (h : Cells) (a : Aln) (r i : Nat) :
    (a.columnQL h i)[r]? = (a.cols[i]?).bind fun c => (h.get? c r).map (Lin.shown a.q) := by
  simp only [Aln.columnQL]
  cases a.cols[i]? with
  | none => simp
  | some c => simp only [List.getElem?_map, Heap.get?_eq_read]; rfl

theorem Aln.column_get (cx : Ctx) (h : Cells) (a : Aln) (r i : Nat) :
    (a.column cx h i)[r]? = (a.cols[i]?).bind fun c => (h.get? c r).map fun x =>
      if a.q then (if x.Q ≥ alnThreshold then x.L else cx.amb) else x.L := by
  simp only [Aln.column]
  cases a.cols[i]? with
  | none => simp
  | some c => simp only [List.getElem?_map, Heap.get?_eq_read]; rfl

end Biogo.Containers
