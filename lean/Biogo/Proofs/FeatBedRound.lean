/-
BED: what the parsers return on the columns the writer prints (C02).
-/
import Biogo.Proofs.FeatInt
import Biogo.Proofs.FeatSplit
import Biogo.Proofs.FeatTrimmed
import Biogo.Proofs.FeatTotal

namespace Biogo.BytesFeat
open Biogo.FeatIO

/-! ### characters of formatted numbers -/

theorem formatInt_chars (i : Int) : ∀ c ∈ formatInt i, c = 45 ∨ (48 ≤ c ∧ c ≤ 57) := by
  intro c hc
  unfold formatInt at hc
  split at hc
  · rcases List.mem_cons.mp hc with h | h
    · left; exact h
    · right; exact natDigits_digits _ c h
  · right; exact natDigits_digits _ c hc

theorem digit_facts (c : UInt8) (h : c = 45 ∨ (48 ≤ c ∧ c ≤ 57)) :
    c ≠ 9 ∧ c ≠ 10 ∧ c ≠ 44 ∧ c ≠ 32 ∧ c ≠ 59 ∧ c < 128 ∧ isAsciiSpace c = false := by
  rcases h with rfl | ⟨h1, h2⟩
  · decide
  · have h1' : 48 ≤ c.toNat := UInt8.le_iff_toNat_le.mp h1
    have h2' : c.toNat ≤ 57 := UInt8.le_iff_toNat_le.mp h2
    have hv : ∀ k : UInt8, k.toNat < 48 ∨ 57 < k.toNat → c ≠ k := by
      intro k hk e; subst e; omega
    refine ⟨hv 9 (by decide), hv 10 (by decide), hv 44 (by decide), hv 32 (by decide), hv 59 (by decide), ?_, ?_⟩
    · exact UInt8.lt_iff_toNat_lt.mpr (by simp; omega)
    · simp only [isAsciiSpace, Bool.or_eq_false_iff, beq_eq_false_iff_ne]
      exact ⟨⟨⟨⟨⟨hv 9 (by decide), hv 10 (by decide)⟩, hv 11 (by decide)⟩, hv 12 (by decide)⟩, hv 13 (by decide)⟩, hv 32 (by decide)⟩

theorem formatInt_not_mem (i : Int) (k : UInt8) (hk : k = 9 ∨ k = 10 ∨ k = 44 ∨ k = 32 ∨ k = 59) :
    k ∉ formatInt i := by
  intro hm
  have := digit_facts k (formatInt_chars i k hm)
  rcases hk with rfl | rfl | rfl | rfl | rfl <;> simp_all

theorem formatInt_ne_nil (i : Int) : formatInt i ≠ [] := by
  unfold formatInt
  split
  · simp
  · exact natDigits_ne_nil _

theorem spaceLen_ascii_head (a : UInt8) (r : Bytes) (h1 : a < 128) (h2 : isAsciiSpace a = false) :
    spaceLen (a :: r) = 0 := by
  match r with
  | [] => simp [spaceLen, h2]
  | [b] => simp [spaceLen, h2, isSpace2_left_ascii a b h1]
  | b :: c :: r => simp [spaceLen, h2, isSpace2_left_ascii a b h1, isSpace3_first_ascii a b c h1]

theorem spaceLenRev_ascii_head (a : UInt8) (r : Bytes) (h1 : a < 128) (h2 : isAsciiSpace a = false) :
    spaceLenRev (a :: r) = 0 := by
  match r with
  | [] => simp [spaceLenRev, h2]
  | [b] => simp [spaceLenRev, h2, isSpace2_right_ascii b a h1]
  | b :: c :: r => simp [spaceLenRev, h2, isSpace2_right_ascii b a h1, isSpace3_last_ascii c b a h1]

/-- a non-empty string of ASCII non-space characters is trimmed at both ends -/
theorem ends_of_ascii (s : Bytes) (hne : s ≠ []) (h : ∀ c ∈ s, c < 128 ∧ isAsciiSpace c = false) :
    startsWithSpace s = false ∧ endsWithSpace s = false := by
  constructor
  · cases s with
    | nil => exact absurd rfl hne
    | cons a r =>
      simp only [startsWithSpace, bne_eq_false_iff_eq]
      exact spaceLen_ascii_head a r (h a (by simp)).1 (h a (by simp)).2
  · simp only [endsWithSpace, bne_eq_false_iff_eq]
    cases hr : s.reverse with
    | nil => simp at hr; exact absurd hr hne
    | cons a r =>
      have : a ∈ s := by
        have : a ∈ s.reverse := by rw [hr]; simp
        simpa using this
      exact spaceLenRev_ascii_head a r (h a this).1 (h a this).2

theorem formatInt_ends (i : Int) : startsWithSpace (formatInt i) = false ∧ endsWithSpace (formatInt i) = false :=
  ends_of_ascii _ (formatInt_ne_nil i) (fun c hc =>
    let f := digit_facts c (formatInt_chars i c hc); ⟨f.2.2.2.2.2.1, f.2.2.2.2.2.2⟩)

end Biogo.BytesFeat

namespace Biogo.Bed
open Biogo.BytesFeat Biogo.FeatIO

theorem mustAtoi_formatInt (i : Int) (h : inInt64 i = true) (c : Nat) : mustAtoi (formatInt i) c = .ok i := by
  simp [mustAtoi, parseInt_formatInt i h]

theorem mustAtos_strandText (s : Int) (h : strandOK s = true) (c : Nat) : mustAtos (strandText s) c = .ok s := by
  simp only [strandOK, Bool.or_eq_true, beq_iff_eq] at h
  rcases h with (rfl | rfl) | rfl <;> rfl

theorem natDigits_no_comma (n : Nat) : (44 : UInt8) ∉ natDigits n := by
  intro h
  have := natDigits_digits n 44 h
  exact absurd this.1 (by decide)

theorem mustAtob_natDigits (x : UInt8) (c : Nat) : mustAtob (natDigits x.toNat) c = .ok x := by
  simp [mustAtob, parseUint8_natDigits x.toNat x.toNat_lt]

theorem mustAtoRgb_rgbText (c : Rgb) (h : rgbOK c = true) (col : Nat) : mustAtoRgb (rgbText c) col = .ok c := by
  by_cases hz : c = {}
  · subst hz
    have : rgbText {} = formatInt 0 := by
      simp [rgbText, formatInt, natDigits_zero]
    rw [this]
    unfold mustAtoRgb
    have hs : splitN 44 4 (formatInt 0) = [formatInt 0] :=
      splitN_nosep 44 4 (by omega) _ (formatInt_not_mem 0 44 (by simp))
    simp only [hs]
    rw [mustAtoi_formatInt 0 (by decide)]
    rfl
  · have ha : c.a = 255 := by
      simp only [rgbOK, Bool.or_eq_true, beq_iff_eq] at h
      rcases h with h | h
      · exact absurd h hz
      · exact h
    have ht : rgbText c = joinWith 44 [natDigits c.r.toNat, natDigits c.g.toNat, natDigits c.b.toNat] := by
      simp [rgbText, hz, joinWith]
    rw [ht]
    unfold mustAtoRgb
    have hs := splitN_joinWith 44 [natDigits c.r.toNat, natDigits c.g.toNat, natDigits c.b.toNat] (by simp)
      (by intro f hf; simp at hf; rcases hf with rfl | rfl | rfl <;> exact natDigits_no_comma _) 4 (by omega)
    simp only [List.length_cons, List.length_nil] at hs
    rw [hs]
    simp only [show (0 + 1 + 1 + 1 ≤ 4) from by omega, if_true]
    simp only [mustAtob_natDigits, bind_ok]
    cases c
    simp_all

theorem mustAtoaLoop_formatInt (col : Nat) (xs : List Int) (h : int64s xs = true) :
    mustAtoaLoop col (xs.map formatInt) = .ok xs := by
  induction xs with
  | nil => rfl
  | cons x xs ih =>
    simp only [int64s, List.all_cons, Bool.and_eq_true] at h
    have hne : (formatInt x).isEmpty = false := by
      cases hf : formatInt x with
      | nil => exact absurd hf (formatInt_ne_nil x)
      | cons _ _ => rfl
    simp only [List.map_cons, mustAtoaLoop, hne, Bool.false_eq_true, if_false,
      mustAtoi_formatInt x h.1, bind_ok, ih h.2]

theorem mustAtoa_commaInts (xs : List Int) (hne : xs ≠ []) (h : int64s xs = true) (col : Nat) :
    mustAtoa (commaInts xs) col = .ok xs := by
  unfold mustAtoa commaInts
  rw [splitOn_joinWith 44 _ (by simpa using hne)
    (by intro f hf; obtain ⟨x, _, rfl⟩ := List.mem_map.mp hf; exact formatInt_not_mem x 44 (by simp))]
  exact mustAtoaLoop_formatInt col xs h

end Biogo.Bed

namespace Biogo.Bed
open Biogo.BytesFeat Biogo.FeatIO

/-- the well-formedness predicate, unpacked -/
theorem bedWF_unpack {n : Nat} {b : Rec} (h : bedWF n b = true) :
    textField b.chrom = true ∧ inInt64 b.start = true ∧ inInt64 b.stop = true ∧
    (4 ≤ n → textField b.name = true) ∧ (5 ≤ n → inInt64 b.score = true) ∧
    (6 ≤ n → strandOK b.strand = true) ∧
    (12 ≤ n → inInt64 b.thickStart = true ∧ inInt64 b.thickEnd = true ∧ rgbOK b.rgb = true ∧
      b.blockSizes.length ≥ 1 ∧ inInt64 b.blockCount = true ∧ b.blockCount = b.blockSizes.length ∧
      b.blockStarts.length = b.blockSizes.length ∧ int64s b.blockSizes = true ∧ int64s b.blockStarts = true) := by
  simp only [bedWF, Bool.and_eq_true, Bool.or_eq_true, decide_eq_true_eq, beq_iff_eq] at h
  obtain ⟨⟨⟨⟨⟨⟨h1, h2⟩, h3⟩, h4⟩, h5⟩, h6⟩, h7⟩ := h
  refine ⟨h1, h2, h3, ?_, ?_, ?_, ?_⟩
  · intro hn; rcases h4 with h4 | h4
    · omega
    · exact h4
  · intro hn; rcases h5 with h5 | h5
    · omega
    · exact h5
  · intro hn; rcases h6 with h6 | h6
    · omega
    · exact h6
  · intro hn; rcases h7 with h7 | h7
    · omega
    · obtain ⟨⟨⟨⟨⟨⟨⟨⟨a1, a2⟩, a3⟩, a4⟩, a5⟩, a6⟩, a7⟩, a8⟩, a9⟩ := h7
      exact ⟨a1, a2, a3, a4, a5, a6, a7, a8, a9⟩

theorem bedWF_mono {n m : Nat} {b : Rec} (h : bedWF n b = true) (hm : m ≤ n) : bedWF m b = true := by
  have := bedWF_unpack h
  obtain ⟨h1, h2, h3, h4, h5, h6, h7⟩ := this
  simp only [bedWF, Bool.and_eq_true, Bool.or_eq_true, decide_eq_true_eq, beq_iff_eq]
  refine ⟨⟨⟨⟨⟨⟨h1, h2⟩, h3⟩, ?_⟩, ?_⟩, ?_⟩, ?_⟩
  · by_cases hn : m < 4
    · left; exact hn
    · right; exact h4 (by omega)
  · by_cases hn : m < 5
    · left; exact hn
    · right; exact h5 (by omega)
  · by_cases hn : m < 6
    · left; exact hn
    · right; exact h6 (by omega)
  · by_cases hn : m < 12
    · left; exact hn
    · right
      obtain ⟨a1, a2, a3, a4, a5, a6, a7, a8, a9⟩ := h7 (by omega)
      exact ⟨⟨⟨⟨⟨⟨⟨⟨a1, a2⟩, a3⟩, a4⟩, a5⟩, a6⟩, a7⟩, a8⟩, a9⟩

/-- the fields `f` the reader got agree with the first `m` printed columns of `b` -/
def Agrees (f : List Bytes) (b : Rec) (m : Nat) : Prop := ∀ i, i < m → f[i]? = (cols b)[i]?

theorem Agrees.mono {f : List Bytes} {b : Rec} {m k : Nat} (h : Agrees f b m) (hk : k ≤ m) : Agrees f b k :=
  fun i hi => h i (by omega)

theorem parse3_ok (f : List Bytes) (b : Rec) (h : Agrees f b 3) (hwf : bedWF 3 b = true) :
    parse3 f = .ok (firstCols 3 b) := by
  obtain ⟨_, hs, he, _⟩ := bedWF_unpack hwf
  have h0 := h 0 (by omega)
  have h1 := h 1 (by omega)
  have h2 := h 2 (by omega)
  simp only [cols, List.getElem?_cons_zero, List.getElem?_cons_succ] at h0 h1 h2
  simp [parse3, idx_of_getElem? h0, idx_of_getElem? h1, idx_of_getElem? h2,
    mustAtoi_formatInt _ hs, mustAtoi_formatInt _ he, firstCols]

theorem parse4_ok (f : List Bytes) (b : Rec) (h : Agrees f b 4) (hwf : bedWF 4 b = true) :
    parse4 f = .ok (firstCols 4 b) := by
  have h3 := h 3 (by omega)
  simp only [cols, List.getElem?_cons_zero, List.getElem?_cons_succ] at h3
  simp [parse4, parse3_ok f b (h.mono (by omega)) (bedWF_mono hwf (by omega)), idx_of_getElem? h3, firstCols]

theorem parse5_ok (f : List Bytes) (b : Rec) (h : Agrees f b 5) (hwf : bedWF 5 b = true) :
    parse5 f = .ok (firstCols 5 b) := by
  have hs := (bedWF_unpack hwf).2.2.2.2.1 (by omega)
  have h4 := h 4 (by omega)
  simp only [cols, List.getElem?_cons_zero, List.getElem?_cons_succ] at h4
  simp [parse5, parse4_ok f b (h.mono (by omega)) (bedWF_mono hwf (by omega)), idx_of_getElem? h4,
    mustAtoi_formatInt _ hs, firstCols]

theorem parse6_ok (f : List Bytes) (b : Rec) (h : Agrees f b 6) (hwf : bedWF 6 b = true) :
    parse6 f = .ok (firstCols 6 b) := by
  have hs := (bedWF_unpack hwf).2.2.2.2.2.1 (by omega)
  have h5 := h 5 (by omega)
  simp only [cols, List.getElem?_cons_zero, List.getElem?_cons_succ] at h5
  simp [parse6, parse5_ok f b (h.mono (by omega)) (bedWF_mono hwf (by omega)), idx_of_getElem? h5,
    mustAtos_strandText _ hs, firstCols]

theorem parse12_ok (f : List Bytes) (b : Rec) (h : Agrees f b 12) (hwf : bedWF 12 b = true) :
    parse12 f = .ok (firstCols 12 b) := by
  obtain ⟨hts, hte, hrgb, hlen, hc64, hcnt, hst, hsz, hss⟩ := (bedWF_unpack hwf).2.2.2.2.2.2 (by omega)
  have h6 := h 6 (by omega)
  have h7 := h 7 (by omega)
  have h8 := h 8 (by omega)
  have h9 := h 9 (by omega)
  have h10 := h 10 (by omega)
  have h11 := h 11 (by omega)
  simp only [cols, List.getElem?_cons_zero, List.getElem?_cons_succ] at h6 h7 h8 h9 h10 h11
  have hne1 : b.blockSizes ≠ [] := by intro e; rw [e] at hlen; simp at hlen
  have hne2 : b.blockStarts ≠ [] := by intro e; rw [e] at hst; simp at hst; omega
  have hck : (b.blockCount != ↑b.blockSizes.length || b.blockCount != ↑b.blockStarts.length) = false := by
    rw [hst, hcnt]; simp
  simp [parse12, parse6_ok f b (h.mono (by omega)) (bedWF_mono hwf (by omega)), idx_of_getElem? h6,
    idx_of_getElem? h7, idx_of_getElem? h8, idx_of_getElem? h9, idx_of_getElem? h10, idx_of_getElem? h11,
    mustAtoi_formatInt _ hts, mustAtoi_formatInt _ hte, mustAtoRgb_rgbText _ hrgb, mustAtoi_formatInt _ hc64,
    mustAtoa_commaInts _ hne1 hsz, mustAtoa_commaInts _ hne2 hss, firstCols]
  exact ⟨hcnt, by rw [hst, hcnt]⟩

end Biogo.Bed

namespace Biogo.BytesFeat
open Biogo.FeatIO

theorem mem_joinWith {sep c : UInt8} {fs : List Bytes} (h : c ∈ joinWith sep fs) :
    c = sep ∨ ∃ f ∈ fs, c ∈ f := by
  induction fs with
  | nil => simp [joinWith] at h
  | cons p ps ih =>
    cases ps with
    | nil => right; exact ⟨p, by simp, by simpa [joinWith] using h⟩
    | cons q qs =>
      rw [joinWith] at h
      rcases List.mem_append.mp h with h | h
      · right; exact ⟨p, by simp, h⟩
      · rcases List.mem_cons.mp h with h | h
        · left; exact h
        · rcases ih h with h | ⟨f, hf, hc⟩
          · left; exact h
          · right; exact ⟨f, List.mem_cons_of_mem _ hf, hc⟩

theorem joinWith_snoc (sep : UInt8) (fs : List Bytes) (l : Bytes) (h : fs ≠ []) :
    joinWith sep (fs ++ [l]) = joinWith sep fs ++ sep :: l := by
  induction fs with
  | nil => exact absurd rfl h
  | cons p ps ih =>
    cases ps with
    | nil => simp [joinWith]
    | cons q qs =>
      have := ih (by simp)
      simp only [List.cons_append] at this ⊢
      rw [joinWith, this, joinWith]
      simp

/-- a line of at least three tab-separated fields is trimmed when its first and last fields are
    non-empty and trimmed at their outer ends -/
theorem trimmed_joinWith (first last : Bytes) (mids : List Bytes) (hm : mids ≠ []) (h1 : first ≠ [])
    (h2 : last ≠ []) (hs : startsWithSpace first = false) (he : endsWithSpace last = false) :
    trimmed (joinWith 9 (first :: (mids ++ [last]))) = true := by
  have : joinWith 9 (first :: (mids ++ [last])) = first ++ 9 :: (joinWith 9 mids ++ 9 :: last) := by
    cases hml : mids ++ [last] with
    | nil => simp at hml
    | cons x xs =>
      rw [joinWith, ← hml, joinWith_snoc 9 mids last hm]
  rw [this]
  exact trimmed_sandwich first _ last 9 9 h1 h2 hs he (by decide) (by decide)

theorem lines_single (l : Bytes) (h : (10 : UInt8) ∉ l) : lines (l ++ [10]) = [l ++ [10]] := by
  induction l with
  | nil => simp [lines]
  | cons c r ih =>
    have hc : c ≠ 10 := by intro e; subst e; simp at h
    have hr : (10 : UInt8) ∉ r := fun e => h (List.mem_cons_of_mem _ e)
    rw [List.cons_append, lines_cons_cons hc (ih hr)]

theorem textField_unpack {s : Bytes} (h : textField s = true) :
    s ≠ [] ∧ (9 : UInt8) ∉ s ∧ (10 : UInt8) ∉ s ∧ trimmed s = true ∧ s.head? ≠ some 35 := by
  simp only [textField, Bool.and_eq_true, Bool.not_eq_true', List.isEmpty_eq_false_iff, bne_iff_ne] at h
  obtain ⟨⟨⟨⟨h1, h2⟩, h3⟩, h4⟩, h5⟩ := h
  refine ⟨h1, ?_, ?_, h4, h5⟩
  · intro hm; have := List.contains_iff_mem.mpr hm; rw [h2] at this; cases this
  · intro hm; have := List.contains_iff_mem.mpr hm; rw [h3] at this; cases this

theorem trimmed_unpack {s : Bytes} (h : trimmed s = true) : startsWithSpace s = false ∧ endsWithSpace s = false := by
  simpa [trimmed] using h

end Biogo.BytesFeat

namespace Biogo.Bed
open Biogo.BytesFeat Biogo.FeatIO

/-- free of tab and newline -/
def Clean (f : Bytes) : Prop := (9 : UInt8) ∉ f ∧ (10 : UInt8) ∉ f

theorem clean_text {s : Bytes} (h : textField s = true) : Clean s :=
  ⟨(textField_unpack h).2.1, (textField_unpack h).2.2.1⟩

theorem clean_int (i : Int) : Clean (formatInt i) :=
  ⟨formatInt_not_mem i 9 (by simp), formatInt_not_mem i 10 (by simp)⟩

theorem strandText_cases {s : Int} (h : strandOK s = true) : strandText s = [43] ∨ strandText s = [46] ∨ strandText s = [45] := by
  simp only [strandOK, Bool.or_eq_true, beq_iff_eq] at h
  rcases h with (rfl | rfl) | rfl
  · right; right; rfl
  · right; left; rfl
  · left; rfl

theorem clean_strand {s : Int} (h : strandOK s = true) : Clean (strandText s) := by
  rcases strandText_cases h with e | e | e <;> rw [e] <;> exact ⟨by decide, by decide⟩

theorem natDigits_clean (n : Nat) : Clean (natDigits n) := by
  constructor <;> intro h <;> have := natDigits_digits n _ h <;> exact absurd this.1 (by decide)

theorem clean_rgb (c : Rgb) : Clean (rgbText c) := by
  unfold rgbText
  split
  · exact ⟨by decide, by decide⟩
  · have hr := natDigits_clean c.r.toNat
    have hg := natDigits_clean c.g.toNat
    have hb := natDigits_clean c.b.toNat
    constructor
    · simp only [List.mem_append, List.mem_cons, not_or]
      exact ⟨⟨hr.1, by decide, hg.1⟩, by decide, hb.1⟩
    · simp only [List.mem_append, List.mem_cons, not_or]
      exact ⟨⟨hr.2, by decide, hg.2⟩, by decide, hb.2⟩

theorem commaInts_chars (xs : List Int) : ∀ c ∈ commaInts xs, c = 44 ∨ c = 45 ∨ (48 ≤ c ∧ c ≤ 57) := by
  intro c hc
  rcases mem_joinWith hc with h | ⟨f, hf, hcf⟩
  · left; exact h
  · obtain ⟨x, _, rfl⟩ := List.mem_map.mp hf
    right; exact formatInt_chars x c hcf

theorem clean_commaInts (xs : List Int) : Clean (commaInts xs) := by
  constructor <;> intro h <;> rcases commaInts_chars xs _ h with e | e | ⟨e1, e2⟩
  · exact absurd e (by decide)
  · exact absurd e (by decide)
  · exact absurd e1 (by decide)
  · exact absurd e (by decide)
  · exact absurd e (by decide)
  · exact absurd e1 (by decide)

theorem commaInts_ne_nil (xs : List Int) (h : xs ≠ []) : commaInts xs ≠ [] := by
  cases xs with
  | nil => exact absurd rfl h
  | cons x xs =>
    unfold commaInts
    cases xs with
    | nil => simpa [joinWith] using formatInt_ne_nil x
    | cons y ys =>
      simp only [List.map_cons, joinWith]
      intro e
      have := congrArg List.length e
      simp at this

theorem commaInts_ends (xs : List Int) (h : xs ≠ []) :
    startsWithSpace (commaInts xs) = false ∧ endsWithSpace (commaInts xs) = false := by
  apply ends_of_ascii _ (commaInts_ne_nil xs h)
  intro c hc
  rcases commaInts_chars xs c hc with e | e
  · subst e; exact ⟨by decide, by decide⟩
  · have := digit_facts c e
    exact ⟨this.2.2.2.2.2.1, this.2.2.2.2.2.2⟩

theorem strand_ends {s : Int} (h : strandOK s = true) :
    strandText s ≠ [] ∧ endsWithSpace (strandText s) = false := by
  rcases strandText_cases h with e | e | e <;> rw [e] <;> exact ⟨by simp, by decide⟩

end Biogo.Bed

namespace Biogo.Bed
open Biogo.BytesFeat Biogo.FeatIO

theorem validWidth_cases {n : Nat} (h : validWidth n = true) : n = 3 ∨ n = 4 ∨ n = 5 ∨ n = 6 ∨ n = 12 := by
  have : (((n = 3 ∨ n = 4) ∨ n = 5) ∨ n = 6) ∨ n = 12 := by simpa [validWidth] using h
  omega

/-- every printed column is free of tabs and newlines -/
theorem cols_clean (b : Rec) (w : Nat) (hw : validWidth w = true) (hwf : bedWF w b = true) :
    ∀ f ∈ (cols b).take w, Clean f := by
  obtain ⟨h1, _, _, h4, _, h6, _⟩ := bedWF_unpack hwf
  have c0 := clean_text h1
  have ci := clean_int
  rcases validWidth_cases hw with rfl | rfl | rfl | rfl | rfl <;> intro f hf <;>
    simp only [cols, List.take_succ_cons, List.take_zero, List.take_nil, List.mem_cons, List.not_mem_nil, or_false] at hf
  · rcases hf with rfl | rfl | rfl <;> first | exact c0 | exact ci _
  · rcases hf with rfl | rfl | rfl | rfl <;> first | exact c0 | exact ci _ | exact clean_text (h4 (by omega))
  · rcases hf with rfl | rfl | rfl | rfl | rfl <;> first | exact c0 | exact ci _ | exact clean_text (h4 (by omega))
  · rcases hf with rfl | rfl | rfl | rfl | rfl | rfl <;>
      first | exact c0 | exact ci _ | exact clean_text (h4 (by omega)) | exact clean_strand (h6 (by omega))
  · rcases hf with rfl | rfl | rfl | rfl | rfl | rfl | rfl | rfl | rfl | rfl | rfl | rfl <;>
      first | exact c0 | exact ci _ | exact clean_text (h4 (by omega)) | exact clean_strand (h6 (by omega))
            | exact clean_rgb _ | exact clean_commaInts _

/-- the printed line is a fixed point of `bytes.TrimSpace` -/
theorem format_trimmed (b : Rec) (w : Nat) (hw : validWidth w = true) (hwf : bedWF w b = true) :
    trimmed (format w b) = true := by
  obtain ⟨h1, _, _, h4, _, h6, h12⟩ := bedWF_unpack hwf
  obtain ⟨hne, _, _, htr, _⟩ := textField_unpack h1
  have hs := (trimmed_unpack htr).1
  unfold format
  rcases validWidth_cases hw with rfl | rfl | rfl | rfl | rfl
  · exact trimmed_joinWith b.chrom (formatInt b.stop) [formatInt b.start] (by simp) hne
      (formatInt_ne_nil _) hs (formatInt_ends _).2
  · obtain ⟨hn, _, _, htn, _⟩ := textField_unpack (h4 (by omega))
    exact trimmed_joinWith b.chrom b.name [formatInt b.start, formatInt b.stop] (by simp) hne hn hs
      (trimmed_unpack htn).2
  · exact trimmed_joinWith b.chrom (formatInt b.score) [formatInt b.start, formatInt b.stop, b.name] (by simp) hne
      (formatInt_ne_nil _) hs (formatInt_ends _).2
  · have := strand_ends (h6 (by omega))
    exact trimmed_joinWith b.chrom (strandText b.strand) [formatInt b.start, formatInt b.stop, b.name, formatInt b.score]
      (by simp) hne this.1 hs this.2
  · obtain ⟨_, _, _, hlen, _, _, hst, _, _⟩ := h12 (by omega)
    have hne2 : b.blockStarts ≠ [] := by intro e; rw [e] at hst; simp at hst; omega
    exact trimmed_joinWith b.chrom (commaInts b.blockStarts)
      [formatInt b.start, formatInt b.stop, b.name, formatInt b.score, strandText b.strand, formatInt b.thickStart,
       formatInt b.thickEnd, rgbText b.rgb, formatInt b.blockCount, commaInts b.blockSizes]
      (by simp) hne (commaInts_ne_nil _ hne2) hs (commaInts_ends _ hne2).2

theorem format_no_newline (b : Rec) (w : Nat) (hw : validWidth w = true) (hwf : bedWF w b = true) :
    (10 : UInt8) ∉ format w b := by
  intro h
  rcases mem_joinWith h with e | ⟨f, hf, hc⟩
  · exact absurd e (by decide)
  · exact (cols_clean b w hw hwf f hf).2 hc

/-- what the reader of width `r` makes of the line printed at width `w ≥ r` -/
theorem parseBed_format (b : Rec) (w r : Nat) (hw : validWidth w = true) (hr : validWidth r = true)
    (hrw : r ≤ w) (hwf : bedWF w b = true) : parseBed r (format w b) = .ok (firstCols r b) := by
  have hlen : ((cols b).take w).length = w := by
    rcases validWidth_cases hw with rfl | rfl | rfl | rfl | rfl <;> rfl
  have hr1 : 1 ≤ r := by rcases validWidth_cases hr with rfl | rfl | rfl | rfl | rfl <;> omega
  obtain ⟨hl, hget⟩ := splitN_joinWith_get 9 ((cols b).take w)
    (fun f hf => (cols_clean b w hw hwf f hf).1) r (by omega) hr1
  have hag : Agrees (splitN 9 (r + 1) (format w b)) b r := by
    intro i hi
    have := hget i hi
    unfold format
    rw [this, List.getElem?_take_of_lt (by omega)]
  have hwfr := bedWF_mono hwf hrw
  have hnl : ¬ (splitN 9 (r + 1) (format w b)).length < r := by
    unfold format; omega
  unfold parseBed parseBody
  simp only [hnl, if_false]
  rcases validWidth_cases hr with rfl | rfl | rfl | rfl | rfl
  · simp only [beq_self_eq_true, if_true, parse3_ok _ b hag hwfr]; rfl
  · simp only [show ((4:Nat) == 3) = false from rfl, beq_self_eq_true, if_true, Bool.false_eq_true, if_false,
      parse4_ok _ b hag hwfr]; rfl
  · simp only [show ((5:Nat) == 3) = false from rfl, show ((5:Nat) == 4) = false from rfl,
      beq_self_eq_true, if_true, Bool.false_eq_true, if_false, parse5_ok _ b hag hwfr]; rfl
  · simp only [show ((6:Nat) == 3) = false from rfl, show ((6:Nat) == 4) = false from rfl,
      show ((6:Nat) == 5) = false from rfl, beq_self_eq_true, if_true, Bool.false_eq_true, if_false,
      parse6_ok _ b hag hwfr]; rfl
  · simp only [show ((12:Nat) == 3) = false from rfl, show ((12:Nat) == 4) = false from rfl,
      show ((12:Nat) == 5) = false from rfl, show ((12:Nat) == 6) = false from rfl,
      Bool.false_eq_true, if_false, parse12_ok _ b hag hwfr]; rfl

/-- write at width `w`, read at width `r ≤ w`: exactly the first `r` columns, then `io.EOF` -/
theorem readAll_format (b : Rec) (w r : Nat) (hw : validWidth w = true) (hr : validWidth r = true)
    (hrw : r ≤ w) (hwf : bedWF w b = true) :
    readAll r (format w b ++ [10]) = [.record (firstCols r b), .eof] := by
  unfold readAll trimmedLines
  rw [lines_single _ (format_no_newline b w hw hwf)]
  simp only [List.map_cons, List.map_nil, trimSpace_append_nl,
    trimSpace_of_trimmed _ (format_trimmed b w hw hwf)]
  simp [readLines, readLine, parseBed_format b w r hw hr hrw hwf]

end Biogo.Bed
