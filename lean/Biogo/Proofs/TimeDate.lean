/-
`time.Parse("2006-1-02", ·)` reads back what `Time.Format("2006-1-02")` writes.  Core only.
-/
import Biogo.Go.TimeDate

namespace Biogo.Go.TimeDate

theorem digit_fin : ∀ k : Fin 10, isDigit (UInt8.ofNat (48 + k.val)) = true ∧ dval (UInt8.ofNat (48 + k.val)) = k.val := by
  decide

theorem digit_spec (n : Nat) : isDigit (digit n) = true ∧ dval (digit n) = n % 10 :=
  digit_fin ⟨n % 10, Nat.mod_lt _ (by decide)⟩

theorem isDigit_dash : isDigit 45 = false := by decide

theorem getnum_one (n : Nat) (rest : Bytes) : getnum (digit n :: 45 :: rest) = some (n % 10, 45 :: rest) := by
  simp [getnum, (digit_spec n).1, (digit_spec n).2, isDigit_dash]

theorem getnum_two (a b : Nat) (rest : Bytes) :
    getnum (digit a :: digit b :: rest) = some (a % 10 * 10 + b % 10, rest) := by
  simp [getnum, (digit_spec a).1, (digit_spec a).2, (digit_spec b).1, (digit_spec b).2]

/-- **`##date` round trip**: for every date of the years 0..9999, the text `Format("2006-1-02")`
    produces is parsed by `Parse("2006-1-02", ·)` as that date. -/
theorem parse_format (year month day : Nat) (hy : year ≤ 9999) (hm1 : 1 ≤ month) (hm2 : month ≤ 12)
    (hd1 : 1 ≤ day) (hd2 : day ≤ daysIn month year) :
    parseAstronomical (formatAstronomical year month day) = some (year, month, day) := by
  have hd31 : daysIn month year ≤ 31 := by
    unfold daysIn; split
    · split <;> omega
    · split <;> omega
  have hyear : year / 1000 % 10 * 1000 + year / 100 % 10 * 100 + year / 10 % 10 * 10 + year % 10 = year := by omega
  have hday : day / 10 % 10 * 10 + day % 10 = day := by omega
  have hnd : ¬ (day < 1 ∨ daysIn month year < day) := by omega
  by_cases hm : month < 10
  · have hmm : month % 10 = month := by omega
    have hmr : ¬ (month = 0 ∨ 12 < month) := by omega
    simp only [formatAstronomical, hm, if_true, List.cons_append, List.nil_append, parseAstronomical,
      (digit_spec _).1, (digit_spec _).2, Bool.and_self, Bool.not_true, Bool.false_eq_true, if_false,
      getnum_one, hmm, hyear, hday, beq_iff_eq, Bool.or_eq_true, decide_eq_true_eq, hmr, hnd, GT.gt]
  · have hmm : month / 10 % 10 * 10 + month % 10 = month := by omega
    have hmr : ¬ (month = 0 ∨ 12 < month) := by omega
    simp only [formatAstronomical, hm, if_false, List.cons_append, List.nil_append, parseAstronomical,
      (digit_spec _).1, (digit_spec _).2, Bool.and_self, Bool.not_true, Bool.false_eq_true,
      getnum_two, hmm, hyear, hday, beq_iff_eq, Bool.or_eq_true, decide_eq_true_eq, hmr, hnd, GT.gt]

end Biogo.Go.TimeDate
