/-
GFF: what the reader makes of the text the writer prints (C02).
-/
import Biogo.Proofs.FeatBedRound

namespace Biogo.BytesFeat
open Biogo.FeatIO

/-- `first ++ t :: last` is trimmed when the outer ends are and `t` is ASCII -/
theorem trimmed_pair (first last : Bytes) (t : UInt8) (h1 : first ≠ []) (h2 : last ≠ [])
    (hs : startsWithSpace first = false) (he : endsWithSpace last = false) (ht : t < 128) :
    trimmed (first ++ t :: last) = true := by
  simp only [startsWithSpace, endsWithSpace, bne_eq_false_iff_eq] at hs he
  simp only [trimmed, startsWithSpace, endsWithSpace, Bool.and_eq_true, Bool.not_eq_true',
    bne_eq_false_iff_eq]
  refine ⟨spaceLen_append first t _ h1 hs ht, ?_⟩
  have : (first ++ t :: last).reverse = last.reverse ++ t :: first.reverse := by simp
  rw [this]
  exact spaceLenRev_append _ t _ (by simpa using h2) he ht

end Biogo.BytesFeat

namespace Biogo.Gff
open Biogo.BytesFeat Biogo.FeatIO

theorem alphaNum_facts_nat : ∀ n, n < 256 → alphaNum (UInt8.ofNat n) = true →
    isSpaceByte (UInt8.ofNat n) = false ∧ UInt8.ofNat n < 128 ∧ isAsciiSpace (UInt8.ofNat n) = false ∧
    UInt8.ofNat n ≠ 59 ∧ UInt8.ofNat n ≠ 9 ∧ UInt8.ofNat n ≠ 10 ∧ UInt8.ofNat n ≠ 32 := by decide +kernel

theorem alphaNum_facts (b : UInt8) (h : alphaNum b = true) :
    isSpaceByte b = false ∧ b < 128 ∧ isAsciiSpace b = false ∧ b ≠ 59 ∧ b ≠ 9 ∧ b ≠ 10 ∧ b ≠ 32 := by
  have := alphaNum_facts_nat b.toNat b.toNat_lt
  simp only [UInt8.ofNat_toNat] at this
  exact this h

theorem tagOK_unpack {t : Bytes} (h : tagOK t = true) : t ≠ [] ∧ ∀ b ∈ t, alphaNum b = true := by
  simp only [tagOK, Bool.and_eq_true, Bool.not_eq_true', List.isEmpty_eq_false_iff, List.all_eq_true] at h
  exact h

theorem tag_ends {t : Bytes} (h : tagOK t = true) : startsWithSpace t = false ∧ endsWithSpace t = false := by
  obtain ⟨hne, hall⟩ := tagOK_unpack h
  exact ends_of_ascii t hne (fun c hc => ⟨(alphaNum_facts c (hall c hc)).2.1, (alphaNum_facts c (hall c hc)).2.2.1⟩)

theorem valueOK_unpack {v : Bytes} (h : valueOK v = true) :
    (59 : UInt8) ∉ v ∧ (9 : UInt8) ∉ v ∧ (10 : UInt8) ∉ v ∧ trimmed v = true ∧
    (∀ b r, v = b :: r → isSpaceByte b = false) := by
  simp only [valueOK, Bool.and_eq_true, Bool.not_eq_true'] at h
  obtain ⟨⟨⟨⟨h1, h2⟩, h3⟩, h4⟩, h5⟩ := h
  refine ⟨?_, ?_, ?_, h4, ?_⟩
  · intro hm; have := List.contains_iff_mem.mpr hm; rw [h1] at this; cases this
  · intro hm; have := List.contains_iff_mem.mpr hm; rw [h2] at this; cases this
  · intro hm; have := List.contains_iff_mem.mpr hm; rw [h3] at this; cases this
  · intro b r e; subst e; simpa using h5

/-- the tag scan of `splitAnnot` walks over the tag's letters -/
theorem splitAnnotAux_tag (col : Nat) (t rest acc : Bytes) (h : ∀ b ∈ t, alphaNum b = true) :
    splitAnnotAux col (t ++ rest) acc = splitAnnotAux col rest (t.reverse ++ acc) := by
  induction t generalizing acc with
  | nil => rfl
  | cons b r ih =>
    have hb := h b (by simp)
    have hs := (alphaNum_facts b hb).1
    rw [List.cons_append, splitAnnotAux]
    simp only [hs, Bool.false_eq_true, if_false, hb, if_true]
    rw [ih _ (fun c hc => h c (List.mem_cons_of_mem _ hc))]
    simp

/-- `splitAnnot("tag value") = (tag, value)` -/
theorem splitAnnot_pair (col : Nat) (t v : Bytes) (ht : tagOK t = true) (hv : valueOK v = true) (hne : v ≠ []) :
    splitAnnot (t ++ 32 :: v) col = .ok (t, some v) := by
  obtain ⟨_, hall⟩ := tagOK_unpack ht
  unfold splitAnnot
  rw [splitAnnotAux_tag col t _ [] hall, splitAnnotAux]
  cases v with
  | nil => exact absurd rfl hne
  | cons b r =>
    have hb := (valueOK_unpack hv).2.2.2.2 b r rfl
    have hd : List.dropWhile isSpaceByte (b :: r) = b :: r := by simp [List.dropWhile, hb]
    have h32 : isSpaceByte 32 = true := by decide
    simp only [h32, if_true, hd]
    simp

/-- `splitAnnot("tag") = (tag, nil)` -/
theorem splitAnnot_tag (col : Nat) (t : Bytes) (ht : tagOK t = true) :
    splitAnnot t col = .ok (t, none) := by
  obtain ⟨_, hall⟩ := tagOK_unpack ht
  unfold splitAnnot
  have := splitAnnotAux_tag col t [] [] hall
  simp only [List.append_nil] at this
  rw [this]
  simp [splitAnnotAux]

end Biogo.Gff

namespace Biogo.Gff
open Biogo.BytesFeat Biogo.FeatIO

/-- `tag value` as `Attributes.Format` prints one attribute -/
def piece (a : Attr) : Bytes := a.tag ++ 32 :: a.value

theorem attrOK_unpack {a : Attr} (h : attrOK a = true) : tagOK a.tag = true ∧ valueOK a.value = true := by
  simpa [attrOK] using h

theorem tag_trimSpace {t : Bytes} (h : tagOK t = true) : trimSpace t = t := by
  apply trimSpace_of_trimmed
  have := tag_ends h
  simp [trimmed, this.1, this.2]

/-- one piece between semicolons, possibly without the space after a tag whose value is empty -/
theorem attrLoop_piece (col : Nat) (a : Attr) (ha : attrOK a = true) (q : Bytes) (ps : List Bytes)
    (hq : q = piece a ∨ (a.value = [] ∧ q = a.tag)) :
    attrLoop col (q :: ps) = (attrLoop col ps >>= fun rest => .ok (a :: rest)) := by
  obtain ⟨ht, hv⟩ := attrOK_unpack ha
  obtain ⟨htne, hall⟩ := tagOK_unpack ht
  have htag_empty : a.tag.isEmpty = false := by
    cases h : a.tag with
    | nil => exact absurd h htne
    | cons _ _ => rfl
  by_cases hve : a.value = []
  · -- the trimmed piece is the tag alone
    have htrim : trimSpace q = a.tag := by
      rcases hq with rfl | ⟨_, rfl⟩
      · simp only [piece, hve]
        rw [trimSpace_append_space 32 (by decide), tag_trimSpace ht]
      · exact tag_trimSpace ht
    rw [attrLoop]
    simp only [htrim, htag_empty, Bool.false_eq_true, if_false, splitAnnot_tag col a.tag ht, bind_ok]
    have : ({ tag := a.tag, value := (none : Option Bytes).getD [] } : Attr) = a := by
      cases a; simp_all
    rw [this]
  · have hq' : q = piece a := by
      rcases hq with h | ⟨h, _⟩
      · exact h
      · exact absurd h hve
    subst hq'
    have hvt := (valueOK_unpack hv).2.2.2.1
    have htrim : trimSpace (piece a) = piece a := by
      apply trimSpace_of_trimmed
      exact trimmed_pair a.tag a.value 32 htne hve (tag_ends ht).1 (trimmed_unpack hvt).2 (by decide)
    have hne : (piece a).isEmpty = false := by
      unfold piece
      cases h : a.tag with
      | nil => exact absurd h htne
      | cons _ _ => rfl
    rw [attrLoop]
    simp only [htrim, hne, Bool.false_eq_true, if_false]
    unfold piece
    simp only [splitAnnot_pair col a.tag a.value ht hv hve, bind_ok, htag_empty, Bool.false_eq_true, if_false]
    have : ({ tag := a.tag, value := (some a.value).getD [] } : Attr) = a := by cases a; rfl
    rw [this]

/-- the texts the attribute column can hold for the list `as` after the line has been trimmed:
    `Attributes.Format`'s output, or that output without its final space when the last value is empty -/
def AttrText : List Attr → Bytes → Prop
  | [], X => X = []
  | [a], X => X = piece a ∨ (a.value = [] ∧ X = a.tag)
  | a :: a2 :: rest, X => ∃ Y, X = piece a ++ 59 :: 32 :: Y ∧ AttrText (a2 :: rest) Y

theorem piece_no_semicolon {a : Attr} (ha : attrOK a = true) : (59 : UInt8) ∉ piece a := by
  obtain ⟨ht, hv⟩ := attrOK_unpack ha
  obtain ⟨_, hall⟩ := tagOK_unpack ht
  unfold piece
  simp only [List.mem_append, List.mem_cons, not_or]
  refine ⟨fun h => (alphaNum_facts _ (hall _ h)).2.2.2.1 rfl, by decide, (valueOK_unpack hv).1⟩

theorem attrLoop_leading_space (col : Nat) (p : Bytes) (ps : List Bytes) :
    attrLoop col ((32 :: p) :: ps) = attrLoop col (p :: ps) := by
  rw [attrLoop, attrLoop]
  have : trimSpace (32 :: p) = trimSpace p := by
    unfold trimSpace
    rw [trimLeft_space p (by decide)]
  rw [this]

theorem splitOn_cons_ne (sep c : UInt8) (r : Bytes) (h : c ≠ sep) :
    ∃ p ps, splitOn sep r = p :: ps ∧ splitOn sep (c :: r) = (c :: p) :: ps := by
  have hc : (c == sep) = false := beq_false_of_ne h
  cases hs : splitOn sep r with
  | nil =>
    -- `splitOn` never returns the empty list
    exfalso
    cases r with
    | nil => simp [splitOn] at hs
    | cons d r' =>
      rw [splitOn] at hs
      split at hs
      · cases hs
      · split at hs <;> cases hs
  | cons p ps =>
    refine ⟨p, ps, rfl, ?_⟩
    rw [splitOn]; simp [hc, hs]

/-- `mustAtoa` reads back the attribute list from any of its admissible texts -/
theorem attrLoop_attrText (col : Nat) (as : List Attr) (has : ∀ a ∈ as, attrOK a = true) (X : Bytes)
    (hX : AttrText as X) : attrLoop col (splitOn 59 X) = .ok as := by
  induction as generalizing X with
  | nil =>
    simp only [AttrText] at hX
    subst hX
    simp [splitOn, attrLoop, trimSpace, trimLeft, trimRight_nil]
  | cons a rest ih =>
    cases rest with
    | nil =>
      simp only [AttrText] at hX
      have ha := has a (by simp)
      have hns : (59 : UInt8) ∉ X := by
        rcases hX with rfl | ⟨_, rfl⟩
        · exact piece_no_semicolon ha
        · obtain ⟨_, hall⟩ := tagOK_unpack (attrOK_unpack ha).1
          exact fun h => (alphaNum_facts _ (hall _ h)).2.2.2.1 rfl
      rw [splitOn_nosep 59 X hns, attrLoop_piece col a ha X [] hX]
      simp [attrLoop]
    | cons a2 rest2 =>
      simp only [AttrText] at hX
      obtain ⟨Y, rfl, hY⟩ := hX
      have ha := has a (by simp)
      rw [splitOn_field 59 (piece a) _ (piece_no_semicolon ha)]
      obtain ⟨p, ps, hsp, hsp2⟩ := splitOn_cons_ne 59 32 Y (by decide)
      rw [hsp2, attrLoop_piece col a ha (piece a) _ (Or.inl rfl), attrLoop_leading_space, ← hsp,
        ih (fun x hx => has x (List.mem_cons_of_mem _ hx)) Y hY]
      rfl

/-- `Attributes.Format`'s own output is admissible -/
theorem attrText_attrsText (as : List Attr) : AttrText as (attrsText as) := by
  induction as with
  | nil => simp [AttrText, attrsText, joinWithS]
  | cons a rest ih =>
    cases rest with
    | nil => simp [AttrText, attrsText, joinWithS, piece]
    | cons a2 rest2 =>
      simp only [AttrText]
      refine ⟨attrsText (a2 :: rest2), ?_, ih⟩
      simp [attrsText, joinWithS, piece]

end Biogo.Gff

namespace Biogo.Gff
open Biogo.BytesFeat Biogo.FeatIO

/-- the attribute column as it stands at the end of a trimmed line: `Attributes.Format`'s output
    without the final space that follows a last tag with an empty value -/
def attrsTrim : List Attr → Bytes
  | [] => []
  | [a] => if a.value = [] then a.tag else piece a
  | a :: a2 :: rest => piece a ++ 59 :: 32 :: attrsTrim (a2 :: rest)

theorem attrText_attrsTrim (as : List Attr) : AttrText as (attrsTrim as) := by
  induction as with
  | nil => simp [AttrText, attrsTrim]
  | cons a rest ih =>
    cases rest with
    | nil =>
      simp only [AttrText, attrsTrim]
      by_cases h : a.value = []
      · right; simp [h]
      · left; simp [h]
    | cons a2 rest2 => exact ⟨_, rfl, ih⟩

/-- `Attributes.Format`'s output is `attrsTrim` plus at most one space -/
theorem attrsText_eq (as : List Attr) : attrsText as = attrsTrim as ∨ attrsText as = attrsTrim as ++ [32] := by
  induction as with
  | nil => left; simp [attrsText, attrsTrim, joinWithS]
  | cons a rest ih =>
    cases rest with
    | nil =>
      simp only [attrsText, attrsTrim, List.map_cons, List.map_nil, joinWithS]
      by_cases h : a.value = []
      · right; simp [h, piece]
      · left; simp [h, piece]
    | cons a2 rest2 =>
      have e : attrsText (a :: a2 :: rest2) = piece a ++ 59 :: 32 :: attrsText (a2 :: rest2) := by
        simp [attrsText, joinWithS, piece]
      rw [e]
      rcases ih with h | h
      · left; rw [h]; rfl
      · right; rw [h]; simp [attrsTrim]

theorem endsWithSpace_append_ascii (P Z : Bytes) (t : UInt8) (hZ : Z ≠ []) (he : endsWithSpace Z = false)
    (ht : t < 128) : endsWithSpace (P ++ t :: Z) = false := by
  simp only [endsWithSpace, bne_eq_false_iff_eq] at he ⊢
  have : (P ++ t :: Z).reverse = Z.reverse ++ t :: P.reverse := by simp
  rw [this]
  exact spaceLenRev_append _ t _ (by simpa using hZ) he ht

theorem piece_ne_nil (a : Attr) : piece a ≠ [] := by
  unfold piece; cases a.tag <;> simp

theorem attrsTrim_end (as : List Attr) (hne : as ≠ []) (has : ∀ a ∈ as, attrOK a = true) :
    attrsTrim as ≠ [] ∧ endsWithSpace (attrsTrim as) = false := by
  induction as with
  | nil => exact absurd rfl hne
  | cons a rest ih =>
    cases rest with
    | nil =>
      obtain ⟨ht, hv⟩ := attrOK_unpack (has a (by simp))
      simp only [attrsTrim]
      by_cases h : a.value = []
      · simp only [h, if_true]
        exact ⟨(tagOK_unpack ht).1, (tag_ends ht).2⟩
      · simp only [h, if_false]
        refine ⟨piece_ne_nil a, ?_⟩
        unfold piece
        exact endsWithSpace_append_ascii a.tag a.value 32 h (trimmed_unpack (valueOK_unpack hv).2.2.2.1).2 (by decide)
    | cons a2 rest2 =>
      obtain ⟨h1, h2⟩ := ih (by simp) (fun x hx => has x (List.mem_cons_of_mem _ hx))
      simp only [attrsTrim]
      refine ⟨by simp, ?_⟩
      have : piece a ++ 59 :: 32 :: attrsTrim (a2 :: rest2) = (piece a ++ [59]) ++ 32 :: attrsTrim (a2 :: rest2) := by simp
      rw [this]
      exact endsWithSpace_append_ascii _ _ 32 h1 h2 (by decide)

theorem attrsText_chars (as : List Attr) (c : UInt8) (h : c ∈ attrsText as) :
    c = 59 ∨ c = 32 ∨ ∃ a ∈ as, c ∈ a.tag ∨ c ∈ a.value := by
  induction as with
  | nil => simp [attrsText, joinWithS] at h
  | cons a rest ih =>
    have hp : c ∈ piece a → c = 32 ∨ c ∈ a.tag ∨ c ∈ a.value := by
      intro hc
      unfold piece at hc
      rcases List.mem_append.mp hc with hc | hc
      · right; left; exact hc
      · rcases List.mem_cons.mp hc with hc | hc
        · left; exact hc
        · right; right; exact hc
    cases rest with
    | nil =>
      have : attrsText [a] = piece a := by simp [attrsText, joinWithS, piece]
      rw [this] at h
      rcases hp h with h | h
      · right; left; exact h
      · right; right; exact ⟨a, by simp, h⟩
    | cons a2 rest2 =>
      have e : attrsText (a :: a2 :: rest2) = piece a ++ 59 :: 32 :: attrsText (a2 :: rest2) := by
        simp [attrsText, joinWithS, piece]
      rw [e] at h
      rcases List.mem_append.mp h with h | h
      · rcases hp h with h | h
        · right; left; exact h
        · right; right; exact ⟨a, by simp, h⟩
      · rcases List.mem_cons.mp h with h | h
        · left; exact h
        · rcases List.mem_cons.mp h with h | h
          · right; left; exact h
          · rcases ih h with h | h | ⟨x, hx, hc⟩
            · left; exact h
            · right; left; exact h
            · right; right; exact ⟨x, List.mem_cons_of_mem _ hx, hc⟩

theorem attrsText_clean (as : List Attr) (has : ∀ a ∈ as, attrOK a = true) : Bed.Clean (attrsText as) := by
  constructor <;> intro h <;> rcases attrsText_chars as _ h with e | e | ⟨a, ha, hc⟩
  · exact absurd e (by decide)
  · exact absurd e (by decide)
  · obtain ⟨ht, hv⟩ := attrOK_unpack (has a ha)
    rcases hc with hc | hc
    · exact (alphaNum_facts _ ((tagOK_unpack ht).2 _ hc)).2.2.2.2.1 rfl
    · exact (valueOK_unpack hv).2.1 hc
  · exact absurd e (by decide)
  · exact absurd e (by decide)
  · obtain ⟨ht, hv⟩ := attrOK_unpack (has a ha)
    rcases hc with hc | hc
    · exact (alphaNum_facts _ ((tagOK_unpack ht).2 _ hc)).2.2.2.2.2.1 rfl
    · exact (valueOK_unpack hv).2.2.1 hc

theorem attrsTrim_clean (as : List Attr) (has : ∀ a ∈ as, attrOK a = true) : Bed.Clean (attrsTrim as) := by
  have hc := attrsText_clean as has
  rcases attrsText_eq as with h | h
  · rw [← h]; exact hc
  · rw [h] at hc
    exact ⟨fun m => hc.1 (List.mem_append_left _ m), fun m => hc.2 (List.mem_append_left _ m)⟩

end Biogo.Gff

namespace Biogo.Gff
open Biogo.BytesFeat Biogo.FeatIO

/-- the assumed law about float formatting (trusted base; sampled on the real code on every
    run): for the score at hand, `%v` prints a clean token other than `.` which
    `strconv.ParseFloat` reads back as the same float64 -/
def FloatLaw (o : Oracles) (score : Option Nat) : Prop :=
  match score with
  | some x => floatTokenOK (o.formatFloat x) = true ∧ o.parseFloat (o.formatFloat x) = some x
  | none => True

theorem gffWF_unpack {f : Feature} (h : gffWF f = true) :
    textField f.seqName = true ∧ textField f.source = true ∧ textField f.feature = true ∧
    inInt64 f.start = true ∧ inInt64 f.stop = true ∧ f.start < f.stop ∧
    (∀ x, f.score = some x → isNaN x = false) ∧ strandOK f.strand = true ∧
    (-1 ≤ f.frame ∧ f.frame ≤ 2) ∧ (∀ as, f.attrs = some as → ∀ a ∈ as, attrOK a = true) ∧
    commentOK f.comments = true := by
  simp only [gffWF, Bool.and_eq_true, decide_eq_true_eq] at h
  obtain ⟨⟨⟨⟨⟨⟨⟨⟨⟨⟨h1, h2⟩, h3⟩, h4⟩, h5⟩, h6⟩, h7⟩, h8⟩, h9⟩, h10⟩, h11⟩ := h
  refine ⟨h1, h2, h3, h4, h5, h6, ?_, h8, h9, ?_, h11⟩
  · intro x hx; rw [hx] at h7; simp at h7; exact h7.1
  · intro as has; rw [has] at h10; simpa using h10

/-- the eight mandatory columns as the writer prints them -/
def fields8 (o : Oracles) (f : Feature) : List Bytes :=
  [f.seqName, f.source, f.feature, formatInt (zeroToOne f.start), formatInt f.stop,
   scoreText o f.score, strandText f.strand, frameText f.frame]

theorem mustAtoi_of {F : List Bytes} {i : Nat} {v : Int} (h : F[i]? = some (formatInt v)) (hv : inInt64 v = true) :
    mustAtoi F i = .ok v := by
  simp [mustAtoi, idx_of_getElem? h, parseInt_formatInt v hv]

theorem oneToZero_zeroToOne' (p : Int) : oneToZero (zeroToOne p) = some p := by
  unfold oneToZero zeroToOne
  by_cases h : p ≥ 0
  · have h1 : ¬ (p + 1 = 0) := by omega
    have h2 : p + 1 > 0 := by omega
    simp [h, h1, h2]
  · have h1 : ¬ (p = 0) := by omega
    have h2 : ¬ (p > 0) := by omega
    simp [h, h1, h2]

theorem mustAtoPos_of {F : List Bytes} {i : Nat} {s : Int} (h : F[i]? = some (formatInt (zeroToOne s)))
    (hv : inInt64 (zeroToOne s) = true) : mustAtoPos F i = .ok s := by
  simp [mustAtoPos, mustAtoi_of h hv, oneToZero_zeroToOne']

theorem mustAtofPtr_of (o : Oracles) {F : List Bytes} {i : Nat} {sc : Option Nat}
    (h : F[i]? = some (scoreText o sc)) (hnan : ∀ x, sc = some x → isNaN x = false) (hfl : FloatLaw o sc) :
    mustAtofPtr o F i = .ok sc := by
  cases sc with
  | none => simp [mustAtofPtr, idx_of_getElem? h, scoreText]
  | some x =>
    have hn := hnan x rfl
    simp only [FloatLaw] at hfl
    have hne : o.formatFloat x ≠ [46] := by
      intro e
      have := hfl.1
      simp [floatTokenOK, e] at this
    simp only [mustAtofPtr, idx_of_getElem? h, scoreText, hn, Bool.false_eq_true, if_false, bind_ok]
    have : (o.formatFloat x == [46]) = false := by
      apply beq_false_of_ne hne
    simp [this, hfl.2]

theorem mustAtos_of {F : List Bytes} {i : Nat} {s : Int} (h : F[i]? = some (strandText s)) (hs : strandOK s = true) :
    mustAtos F i = .ok s := by
  simp only [strandOK, Bool.or_eq_true, beq_iff_eq] at hs
  rcases hs with (rfl | rfl) | rfl <;> simp [mustAtos, idx_of_getElem? h, strandText]

theorem frameText_cases {fr : Int} (h : -1 ≤ fr ∧ fr ≤ 2) :
    (fr = -1 ∧ frameText fr = [46]) ∨ (fr = 0 ∧ frameText fr = [48]) ∨ (fr = 1 ∧ frameText fr = [49]) ∨
    (fr = 2 ∧ frameText fr = [50]) := by
  have : fr = -1 ∨ fr = 0 ∨ fr = 1 ∨ fr = 2 := by omega
  rcases this with rfl | rfl | rfl | rfl
  · left; exact ⟨rfl, by simp [frameText]⟩
  · right; left; exact ⟨rfl, by simp [frameText, natDigits_lt, digitChar]⟩
  · right; right; left; exact ⟨rfl, by simp [frameText, natDigits_lt, digitChar]⟩
  · right; right; right; exact ⟨rfl, by simp [frameText, natDigits_lt, digitChar]⟩

theorem mustAtoFr_of {F : List Bytes} {i : Nat} {fr : Int} (h : F[i]? = some (frameText fr)) (hf : -1 ≤ fr ∧ fr ≤ 2) :
    mustAtoFr F i = .ok fr := by
  have p0 : parseInt [48] 8 = .ok 0 := by rfl
  have p1 : parseInt [49] 8 = .ok 1 := by rfl
  have p2 : parseInt [50] 8 = .ok 2 := by rfl
  rcases frameText_cases hf with ⟨rfl, e⟩ | ⟨rfl, e⟩ | ⟨rfl, e⟩ | ⟨rfl, e⟩ <;> rw [e] at h <;>
    simp [mustAtoFr, idx_of_getElem? h, p0, p1, p2]

theorem mustAtoa_of {F : List Bytes} {i : Nat} {X : Bytes} {as : List Attr} (h : F[i]? = some X)
    (has : ∀ a ∈ as, attrOK a = true) (hX : AttrText as X) : mustAtoa F i = .ok as := by
  simp [mustAtoa, idx_of_getElem? h, attrLoop_attrText i as has X hX]

end Biogo.Gff

namespace Biogo.Gff
open Biogo.BytesFeat Biogo.FeatIO

theorem commentOK_unpack {c : Bytes} (h : commentOK c = true) :
    (9 : UInt8) ∉ c ∧ (10 : UInt8) ∉ c ∧ trimmed c = true := by
  simp only [commentOK, Bool.and_eq_true, Bool.not_eq_true'] at h
  obtain ⟨⟨h1, h2⟩, h3⟩ := h
  refine ⟨?_, ?_, h3⟩
  · intro hm; have := List.contains_iff_mem.mpr hm; rw [h1] at this; cases this
  · intro hm; have := List.contains_iff_mem.mpr hm; rw [h2] at this; cases this

theorem frame_clean_end {fr : Int} (h : -1 ≤ fr ∧ fr ≤ 2) :
    Bed.Clean (frameText fr) ∧ frameText fr ≠ [] ∧ endsWithSpace (frameText fr) = false := by
  rcases frameText_cases h with ⟨_, e⟩ | ⟨_, e⟩ | ⟨_, e⟩ | ⟨_, e⟩ <;> rw [e] <;>
    exact ⟨⟨by decide, by decide⟩, by simp, by decide⟩

theorem score_clean (o : Oracles) (sc : Option Nat) (hfl : FloatLaw o sc) : Bed.Clean (scoreText o sc) := by
  cases sc with
  | none => exact ⟨by simp [scoreText], by simp [scoreText]⟩
  | some x =>
    simp only [scoreText]
    split
    · exact ⟨by decide, by decide⟩
    · simp only [FloatLaw, floatTokenOK, Bool.and_eq_true, Bool.not_eq_true'] at hfl
      obtain ⟨⟨⟨⟨⟨_, _⟩, h9⟩, h10⟩, _⟩, _⟩ := hfl
      constructor
      · intro hm; have := List.contains_iff_mem.mpr hm; rw [h9] at this; cases this
      · intro hm; have := List.contains_iff_mem.mpr hm; rw [h10] at this; cases this

/-- the eight mandatory columns are free of tabs and newlines -/
theorem fields8_clean (o : Oracles) (f : Feature) (hwf : gffWF f = true) (hfl : FloatLaw o f.score) :
    ∀ x ∈ fields8 o f, Bed.Clean x := by
  obtain ⟨h1, h2, h3, _, _, _, _, hs, hf, _, _⟩ := gffWF_unpack hwf
  intro x hx
  simp only [fields8, List.mem_cons, List.not_mem_nil, or_false] at hx
  rcases hx with rfl | rfl | rfl | rfl | rfl | rfl | rfl | rfl
  · exact Bed.clean_text h1
  · exact Bed.clean_text h2
  · exact Bed.clean_text h3
  · exact Bed.clean_int _
  · exact Bed.clean_int _
  · exact score_clean o _ hfl
  · exact Bed.clean_strand hs
  · exact (frame_clean_end hf).1

/-- the columns of the line as the reader sees it after `bytes.TrimSpace` -/
def effFields (o : Oracles) (f : Feature) : List Bytes :=
  if f.comments.isEmpty then
    match f.attrs with
    | none => fields8 o f
    | some [] => fields8 o f
    | some (a :: as) => fields8 o f ++ [attrsTrim (a :: as)]
  else fields8 o f ++ [attrsText (f.attrs.getD []), f.comments]

theorem joinWith_fields8_snoc (o : Oracles) (f : Feature) (x : Bytes) :
    joinWith 9 (fields8 o f ++ [x]) = joinWith 9 (fields8 o f) ++ 9 :: x :=
  joinWith_snoc 9 _ x (by simp [fields8])

theorem joinWith_fields8_snoc2 (o : Oracles) (f : Feature) (x y : Bytes) :
    joinWith 9 (fields8 o f ++ [x, y]) = joinWith 9 (fields8 o f) ++ 9 :: x ++ 9 :: y := by
  have : fields8 o f ++ [x, y] = (fields8 o f ++ [x]) ++ [y] := by simp
  rw [this, joinWith_snoc 9 _ y (by simp [fields8]), joinWith_fields8_snoc]

/-- lines of 8, 9 and 10 columns are trimmed -/
theorem trimmed_fields8 (o : Oracles) (f : Feature) (hwf : gffWF f = true) :
    trimmed (joinWith 9 (fields8 o f)) = true := by
  obtain ⟨h1, _, _, _, _, _, _, _, hf, _, _⟩ := gffWF_unpack hwf
  obtain ⟨hne, _, _, htr, _⟩ := textField_unpack h1
  have := frame_clean_end hf
  exact trimmed_joinWith f.seqName (frameText f.frame)
    [f.source, f.feature, formatInt (zeroToOne f.start), formatInt f.stop, scoreText o f.score, strandText f.strand]
    (by simp) hne this.2.1 (trimmed_unpack htr).1 this.2.2

theorem trimmed_fields8_snoc (o : Oracles) (f : Feature) (hwf : gffWF f = true) (x : Bytes) (hx : x ≠ [])
    (he : endsWithSpace x = false) : trimmed (joinWith 9 (fields8 o f ++ [x])) = true := by
  obtain ⟨h1, _, _, _, _, _, _, _, _, _, _⟩ := gffWF_unpack hwf
  obtain ⟨hne, _, _, htr, _⟩ := textField_unpack h1
  exact trimmed_joinWith f.seqName x
    [f.source, f.feature, formatInt (zeroToOne f.start), formatInt f.stop, scoreText o f.score, strandText f.strand,
     frameText f.frame]
    (by simp) hne hx (trimmed_unpack htr).1 he

theorem trimmed_fields8_snoc2 (o : Oracles) (f : Feature) (hwf : gffWF f = true) (a x : Bytes) (hx : x ≠ [])
    (he : endsWithSpace x = false) : trimmed (joinWith 9 (fields8 o f ++ [a, x])) = true := by
  obtain ⟨h1, _, _, _, _, _, _, _, _, _, _⟩ := gffWF_unpack hwf
  obtain ⟨hne, _, _, htr, _⟩ := textField_unpack h1
  exact trimmed_joinWith f.seqName x
    [f.source, f.feature, formatInt (zeroToOne f.start), formatInt f.stop, scoreText o f.score, strandText f.strand,
     frameText f.frame, a]
    (by simp) hne hx (trimmed_unpack htr).1 he

/-- what `bytes.TrimSpace` leaves of the feature line -/
theorem trimSpace_featureText (o : Oracles) (f : Feature) (hwf : gffWF f = true) :
    trimSpace (featureText o f) = joinWith 9 (effFields o f) := by
  obtain ⟨_, _, _, _, _, _, _, _, _, hattrs, hcom⟩ := gffWF_unpack hwf
  have hJ : featureText o f = joinWith 9 (fields8 o f)
      ++ (match f.attrs with
          | some as => 9 :: attrsText as
          | none => if f.comments.isEmpty then [] else [9])
      ++ (if f.comments.isEmpty then [] else 9 :: f.comments) := rfl
  rw [hJ]
  by_cases hc : f.comments.isEmpty = true
  · simp only [hc, if_true, List.append_nil, effFields]
    cases hatt : f.attrs with
    | none =>
      simp only [List.append_nil]
      exact trimSpace_of_trimmed _ (trimmed_fields8 o f hwf)
    | some as =>
      cases as with
      | nil =>
        simp only [attrsText, List.map_nil, joinWithS]
        rw [trimSpace_append_space 9 (by decide)]
        exact trimSpace_of_trimmed _ (trimmed_fields8 o f hwf)
      | cons a rest =>
        have has := hattrs (a :: rest) hatt
        have hend := attrsTrim_end (a :: rest) (by simp) has
        have htr := trimmed_fields8_snoc o f hwf (attrsTrim (a :: rest)) hend.1 hend.2
        simp only []
        rcases attrsText_eq (a :: rest) with h | h
        · rw [h, ← joinWith_fields8_snoc]
          exact trimSpace_of_trimmed _ htr
        · rw [h]
          have : joinWith 9 (fields8 o f) ++ 9 :: (attrsTrim (a :: rest) ++ [32]) =
              (joinWith 9 (fields8 o f) ++ 9 :: attrsTrim (a :: rest)) ++ [32] := by simp
          rw [this, trimSpace_append_space 32 (by decide), ← joinWith_fields8_snoc]
          exact trimSpace_of_trimmed _ htr
  · have hc' : f.comments.isEmpty = false := by simpa using hc
    have hcne : f.comments ≠ [] := by
      intro e; rw [e] at hc'; simp at hc'
    obtain ⟨_, _, hct⟩ := commentOK_unpack hcom
    simp only [hc', Bool.false_eq_true, if_false, effFields]
    have htr := fun a => trimmed_fields8_snoc2 o f hwf a f.comments hcne (trimmed_unpack hct).2
    cases hatt : f.attrs with
    | none =>
      simp only [Option.getD_none]
      have : joinWith 9 (fields8 o f) ++ [9] ++ 9 :: f.comments =
          joinWith 9 (fields8 o f ++ [attrsText [], f.comments]) := by
        rw [joinWith_fields8_snoc2]; simp [attrsText, joinWithS]
      rw [this]
      exact trimSpace_of_trimmed _ (htr _)
    | some as =>
      simp only [Option.getD_some]
      rw [← joinWith_fields8_snoc2]
      exact trimSpace_of_trimmed _ (htr _)

end Biogo.Gff

namespace Biogo.Gff
open Biogo.BytesFeat Biogo.FeatIO

/-- the feature the reader returns for `f`: equal to `f` except that nil and empty attribute
    lists are not told apart by the text -/
def parsed (f : Feature) : Feature :=
  if f.comments.isEmpty then
    match f.attrs with
    | none => f
    | some [] => { f with attrs := none }
    | some (a :: as) => f
  else { f with attrs := some (f.attrs.getD []) }

theorem norm_parsed (f : Feature) : norm (parsed f) = norm f := by
  unfold parsed norm normAttrs
  split
  · split <;> simp_all
  · cases h : f.attrs <;> simp

/-- the first eight columns of any line that starts with `fields8` -/
theorem parse_first8 (o : Oracles) (f : Feature) (hwf : gffWF f = true) (hfl : FloatLaw o f.score)
    (extra : List Bytes) :
    let F := fields8 o f ++ extra
    idx F 0 = (.ok f.seqName : Res Bytes) ∧ idx F 1 = (.ok f.source : Res Bytes) ∧ idx F 2 = (.ok f.feature : Res Bytes) ∧
    mustAtoPos F 3 = .ok f.start ∧ mustAtoi F 4 = .ok f.stop ∧ mustAtofPtr o F 5 = .ok f.score ∧
    mustAtos F 6 = .ok f.strand ∧ mustAtoFr F 7 = .ok f.frame := by
  obtain ⟨_, _, _, hs64, he64, hlt, hnan, hst, hfr, _, _⟩ := gffWF_unpack hwf
  have hz : inInt64 (zeroToOne f.start) = true := by
    rw [inInt64_iff] at hs64 he64 ⊢
    unfold zeroToOne
    split <;> omega
  intro F
  refine ⟨idx_of_getElem? (by simp [F, fields8]), idx_of_getElem? (by simp [F, fields8]),
    idx_of_getElem? (by simp [F, fields8]), ?_, ?_, ?_, ?_, ?_⟩
  · exact mustAtoPos_of (by simp [F, fields8]) hz
  · exact mustAtoi_of (by simp [F, fields8]) he64
  · exact mustAtofPtr_of o (by simp [F, fields8]) hnan hfl
  · exact mustAtos_of (by simp [F, fields8]) hst
  · exact mustAtoFr_of (by simp [F, fields8]) hfr

theorem effFields_shape (o : Oracles) (f : Feature) :
    ∃ extra, effFields o f = fields8 o f ++ extra ∧ extra.length ≤ 2 := by
  unfold effFields
  split
  · split
    · exact ⟨[], by simp, by simp⟩
    · exact ⟨[], by simp, by simp⟩
    · exact ⟨[_], rfl, by simp⟩
  · exact ⟨[_, _], rfl, by simp⟩

theorem effFields_clean (o : Oracles) (f : Feature) (hwf : gffWF f = true) (hfl : FloatLaw o f.score) :
    ∀ x ∈ effFields o f, Bed.Clean x := by
  obtain ⟨_, _, _, _, _, _, _, _, _, hattrs, hcom⟩ := gffWF_unpack hwf
  have h8 := fields8_clean o f hwf hfl
  unfold effFields
  split
  · split
    · exact h8
    · exact h8
    · rename_i a as hatt
      intro x hx
      rcases List.mem_append.mp hx with hx | hx
      · exact h8 x hx
      · simp at hx; subst hx
        exact attrsTrim_clean _ (hattrs _ hatt)
  · intro x hx
    rcases List.mem_append.mp hx with hx | hx
    · exact h8 x hx
    · simp at hx
      rcases hx with rfl | rfl
      · cases hatt : f.attrs with
        | none => simp [attrsText, joinWithS, Bed.Clean]
        | some as => exact attrsText_clean as (hattrs as hatt)
      · exact ⟨(commentOK_unpack hcom).1, (commentOK_unpack hcom).2.1⟩

/-- `SplitN(line, "\t", 10)` recovers the columns -/
theorem splitN_effFields (o : Oracles) (f : Feature) (hwf : gffWF f = true) (hfl : FloatLaw o f.score) :
    splitN 9 10 (joinWith 9 (effFields o f)) = effFields o f := by
  obtain ⟨extra, he, hl⟩ := effFields_shape o f
  have hne : effFields o f ≠ [] := by rw [he]; simp [fields8]
  rw [splitN_joinWith 9 _ hne (fun x hx => (effFields_clean o f hwf hfl x hx).1) 10 (by omega)]
  have : (effFields o f).length ≤ 10 := by rw [he]; simp [fields8]; omega
  simp [this]

/-- the feature-line parser on the trimmed line the writer produced -/
theorem parseFeature_eff (o : Oracles) (f : Feature) (hwf : gffWF f = true) (hfl : FloatLaw o f.score) :
    parseFeature o (joinWith 9 (effFields o f)) = .ok (parsed f) := by
  obtain ⟨_, _, _, _, _, _, _, _, _, hattrs, _⟩ := gffWF_unpack hwf
  unfold parseFeature
  simp only [splitN_effFields o f hwf hfl]
  unfold effFields parsed
  by_cases hc : f.comments.isEmpty = true
  · have hcn : f.comments = [] := by simpa using hc
    simp only [hc, if_true]
    cases hatt : f.attrs with
    | none =>
      obtain ⟨p0, p1, p2, p3, p4, p5, p6, p7⟩ := parse_first8 o f hwf hfl []
      simp only [List.append_nil] at p0 p1 p2 p3 p4 p5 p6 p7
      have hl : (fields8 o f).length = 8 := rfl
      simp only [hl, show ¬ (8 ≤ 7) by omega, if_false, p0, p1, p2, p3, p4, p5, p6, p7, bind_ok,
        show (8 ≤ 8) by omega, if_true, pure_eq_ok]
      cases f; simp_all
    | some as =>
      cases as with
      | nil =>
        obtain ⟨p0, p1, p2, p3, p4, p5, p6, p7⟩ := parse_first8 o f hwf hfl []
        simp only [List.append_nil] at p0 p1 p2 p3 p4 p5 p6 p7
        have hl : (fields8 o f).length = 8 := rfl
        simp only [hl, show ¬ (8 ≤ 7) by omega, if_false, p0, p1, p2, p3, p4, p5, p6, p7, bind_ok,
          show (8 ≤ 8) by omega, if_true, pure_eq_ok]
        cases f; simp_all
      | cons a rest =>
        obtain ⟨p0, p1, p2, p3, p4, p5, p6, p7⟩ := parse_first8 o f hwf hfl [attrsTrim (a :: rest)]
        have hl : (fields8 o f ++ [attrsTrim (a :: rest)]).length = 9 := rfl
        have pa : mustAtoa (fields8 o f ++ [attrsTrim (a :: rest)]) 8 = .ok (a :: rest) :=
          mustAtoa_of (X := attrsTrim (a :: rest)) (by simp [fields8]) (hattrs _ hatt) (attrText_attrsTrim _)
        simp only [hl, show ¬ (9 ≤ 7) by omega, if_false, p0, p1, p2, p3, p4, p5, p6, p7, bind_ok,
          show ¬ (9 ≤ 8) by omega, pa, show (9 ≤ 9) by omega, if_true, pure_eq_ok]
        cases f; simp_all
  · have hc' : f.comments.isEmpty = false := by simpa using hc
    simp only [hc', Bool.false_eq_true, if_false]
    obtain ⟨p0, p1, p2, p3, p4, p5, p6, p7⟩ := parse_first8 o f hwf hfl [attrsText (f.attrs.getD []), f.comments]
    have hl : (fields8 o f ++ [attrsText (f.attrs.getD []), f.comments]).length = 10 := rfl
    have has : ∀ a ∈ f.attrs.getD [], attrOK a = true := by
      cases hatt : f.attrs with
      | none => simp
      | some as => simpa using hattrs as hatt
    have pa : mustAtoa (fields8 o f ++ [attrsText (f.attrs.getD []), f.comments]) 8 = .ok (f.attrs.getD []) :=
      mustAtoa_of (X := attrsText (f.attrs.getD [])) (by simp [fields8]) has (attrText_attrsText _)
    have p9 : idx (fields8 o f ++ [attrsText (f.attrs.getD []), f.comments]) 9 = (.ok f.comments : Res Bytes) :=
      idx_of_getElem? (by simp [fields8])
    simp only [hl, show ¬ (10 ≤ 7) by omega, if_false, p0, p1, p2, p3, p4, p5, p6, p7, bind_ok,
      show ¬ (10 ≤ 8) by omega, pa, show ¬ (10 ≤ 9) by omega, p9, pure_eq_ok]

end Biogo.Gff

namespace Biogo.BytesFeat

theorem lines_append_line (l rest : Bytes) (h : (10 : UInt8) ∉ l) :
    lines (l ++ 10 :: rest) = (l ++ [10]) :: lines rest := by
  induction l with
  | nil => simp [lines_nl]
  | cons c r ih =>
    have hc : c ≠ 10 := by intro e; subst e; simp at h
    have hr : (10 : UInt8) ∉ r := fun e => h (List.mem_cons_of_mem _ e)
    rw [List.cons_append, lines_cons_cons hc (ih hr)]; rfl

end Biogo.BytesFeat

namespace Biogo.Gff
open Biogo.BytesFeat Biogo.FeatIO

/-- `##gff-version 2` without its terminator -/
def headerLine : Bytes := ofString "##gff-version 2"

theorem headerText_eq : headerText = headerLine ++ [10] := by decide

theorem headerLine_facts : (10 : UInt8) ∉ headerLine ∧ trimSpace headerLine = headerLine := by decide +kernel

theorem header_step (o : Oracles) (md : Meta) :
    commentMetaline o md (headerLine.drop 2) = .continue_ { md with version := 2 } := by
  rfl

theorem featureText_no_newline (o : Oracles) (f : Feature) (hwf : gffWF f = true) (hfl : FloatLaw o f.score) :
    (10 : UInt8) ∉ featureText o f := by
  obtain ⟨_, _, _, _, _, _, _, _, _, hattrs, hcom⟩ := gffWF_unpack hwf
  have h8 : (10 : UInt8) ∉ joinWith 9 (fields8 o f) := by
    intro h
    rcases mem_joinWith h with e | ⟨x, hx, hc⟩
    · exact absurd e (by decide)
    · exact (fields8_clean o f hwf hfl x hx).2 hc
  have hJ : featureText o f = joinWith 9 (fields8 o f)
      ++ (match f.attrs with
          | some as => 9 :: attrsText as
          | none => if f.comments.isEmpty then [] else [9])
      ++ (if f.comments.isEmpty then [] else 9 :: f.comments) := rfl
  rw [hJ]
  simp only [List.mem_append, not_or]
  refine ⟨⟨h8, ?_⟩, ?_⟩
  · cases hatt : f.attrs with
    | none => simp only []; split <;> simp
    | some as =>
      simp only [List.mem_cons, not_or]
      exact ⟨by decide, (attrsText_clean as (hattrs as hatt)).2⟩
  · split
    · simp
    · simp only [List.mem_cons, not_or]
      exact ⟨by decide, (commentOK_unpack hcom).2.1⟩

theorem featureLine_eff (o : Oracles) (f : Feature) (hwf : gffWF f = true) :
    (joinWith 9 (effFields o f)).isEmpty = false ∧ hasPrefix [35, 35] (joinWith 9 (effFields o f)) = false ∧
    (joinWith 9 (effFields o f)).head? ≠ some 35 := by
  obtain ⟨h1, _⟩ := gffWF_unpack hwf
  obtain ⟨hne, _, _, _, hh⟩ := textField_unpack h1
  obtain ⟨extra, he, _⟩ := effFields_shape o f
  have : ∃ rest, joinWith 9 (effFields o f) = f.seqName ++ 9 :: rest := by
    rw [he]
    simp only [fields8, List.cons_append]
    exact ⟨_, by rw [joinWith]⟩
  obtain ⟨rest, hr⟩ := this
  rw [hr]
  cases hs : f.seqName with
  | nil => exact absurd hs hne
  | cons c r =>
    rw [hs] at hh
    have hc : c ≠ 35 := by simpa using hh
    refine ⟨rfl, ?_, by simpa using hc⟩
    simp only [hasPrefix, List.cons_append, List.isPrefixOf]
    have : ((35 : UInt8) == c) = false := beq_false_of_ne (fun e => hc e.symm)
    simp [this]

theorem read_nil (o : Oracles) (st : St) : read o [] st = (.eof, [], st) := by rw [read]

/-- reading the text `[##gff-version 2\\n] <feature line>\\n` -/
theorem readAll_feature (o : Oracles) (f : Feature) (hdr : Bool) (hwf : gffWF f = true) (hfl : FloatLaw o f.score) :
    readAll o ((if hdr then headerText else []) ++ (featureText o f ++ [10])) =
      ([.item (.feature (parsed f)), .eof],
       { line := if hdr then 2 else 1, md := { version := if hdr then 2 else 0 } }) := by
  have hnl := featureText_no_newline o f hwf hfl
  have hfeat := featureLine_eff o f hwf
  have hparse := parseFeature_eff o f hwf hfl
  have htrim := trimSpace_featureText o f hwf
  -- one call on the trimmed feature line
  have hread : ∀ st : St, read o [joinWith 9 (effFields o f)] st =
      (.item (.feature (parsed f)), [], { st with line := st.line + 1 }) := by
    intro st
    rw [read]
    simp only [hfeat.1, hfeat.2.1, Bool.false_eq_true, if_false]
    have hb : ((joinWith 9 (effFields o f)).head? == some 35) = false := beq_false_of_ne hfeat.2.2
    simp only [hb, Bool.false_eq_true, if_false, hparse]
    rfl
  cases hdr with
  | false =>
    simp only [Bool.false_eq_true, if_false, List.nil_append]
    unfold readAll trimmedLines
    rw [lines_single _ hnl]
    simp only [List.map_cons, List.map_nil, trimSpace_append_nl, htrim, List.length_cons, List.length_nil]
    simp only [readCalls, hread, read_nil]
  | true =>
    simp only [if_true]
    unfold readAll trimmedLines
    rw [headerText_eq]
    have : headerLine ++ [10] ++ (featureText o f ++ [10]) = headerLine ++ 10 :: (featureText o f ++ [10]) := by simp
    rw [this, lines_append_line _ _ headerLine_facts.1, lines_single _ hnl]
    simp only [List.map_cons, List.map_nil, trimSpace_append_nl, htrim, headerLine_facts.2, List.length_cons,
      List.length_nil]
    have hhdr : ∀ st : St, read o [headerLine, joinWith 9 (effFields o f)] st =
        (.item (.feature (parsed f)), [], { line := st.line + 2, md := { st.md with version := 2 } }) := by
      intro st
      rw [read]
      have h1 : headerLine.isEmpty = false := by decide
      have h2 : hasPrefix [35, 35] headerLine = true := by decide
      simp only [h1, h2, Bool.false_eq_true, if_false, if_true, header_step, hread]
    simp only [readCalls, hhdr, read_nil]

end Biogo.Gff

namespace Biogo.Gff
open Biogo.BytesFeat Biogo.FeatIO

/-- the `##sequence-region` line without its terminator -/
def regionLine (name : Bytes) (s e : Int) : Bytes :=
  35 :: 35 :: joinWith 32 [ofString "sequence-region", name, formatInt (zeroToOne s), formatInt e]

theorem writeRegion_eq (name : Bytes) (s e : Int) (h : s < e) :
    writeRegion name s e = .ok (regionLine name s e ++ [10], (regionLine name s e ++ [10]).length) := by
  have : ¬ (s ≥ e) := by omega
  simp only [writeRegion, this, if_false, regionLine, joinWith]
  congr 2 <;> simp [ofString]

theorem nameOK_unpack {s : Bytes} (h : nameOK s = true) :
    s ≠ [] ∧ (∀ c ∈ s, isAsciiSpace c = false) ∧ trimmed s = true := by
  simp only [nameOK, Bool.and_eq_true, Bool.not_eq_true', List.isEmpty_eq_false_iff, List.any_eq_false] at h
  exact ⟨h.1.1, fun c hc => by simpa using h.1.2 c hc, h.2⟩

theorem name_not_mem {s : Bytes} (h : nameOK s = true) (k : UInt8) (hk : isAsciiSpace k = true) : k ∉ s := by
  intro hm
  have := (nameOK_unpack h).2.1 k hm
  rw [hk] at this; cases this

theorem regionLine_facts (name : Bytes) (s e : Int) (hn : nameOK name = true) :
    (10 : UInt8) ∉ regionLine name s e ∧ trimSpace (regionLine name s e) = regionLine name s e := by
  constructor
  · unfold regionLine
    intro h
    rcases List.mem_cons.mp h with h | h
    · exact absurd h (by decide)
    · rcases List.mem_cons.mp h with h | h
      · exact absurd h (by decide)
      · rcases mem_joinWith h with e1 | ⟨x, hx, hc⟩
        · exact absurd e1 (by decide)
        · simp only [List.mem_cons, List.not_mem_nil, or_false] at hx
          rcases hx with rfl | rfl | rfl | rfl
          · revert hc; decide
          · exact name_not_mem hn 10 (by decide) hc
          · exact formatInt_not_mem _ 10 (by simp) hc
          · exact formatInt_not_mem _ 10 (by simp) hc
  · apply trimSpace_of_trimmed
    have : regionLine name s e =
        (35 :: 35 :: (ofString "sequence-region" ++ 32 :: (name ++ 32 :: formatInt (zeroToOne s)))) ++ 32 :: formatInt e := by
      simp [regionLine, joinWith]
    rw [this]
    apply trimmed_pair _ _ 32 (by simp) (formatInt_ne_nil e) _ (formatInt_ends e).2 (by decide)
    simp only [startsWithSpace, bne_eq_false_iff_eq]
    exact spaceLen_ascii_head 35 _ (by decide) (by decide)

theorem region_step (o : Oracles) (md : Meta) (name : Bytes) (s e : Int) (hn : nameOK name = true)
    (hs : inInt64 s = true) (he : inInt64 e = true) (hlt : s < e) :
    commentMetaline o md ((regionLine name s e).drop 2) = .done (.ok (.region name md.moltype s e)) := by
  have hsplit : splitOn 32 ((regionLine name s e).drop 2) =
      [ofString "sequence-region", name, formatInt (zeroToOne s), formatInt e] := by
    simp only [regionLine, List.drop_succ_cons, List.drop_zero]
    apply splitOn_joinWith 32 _ (by simp)
    intro x hx
    simp only [List.mem_cons, List.not_mem_nil, or_false] at hx
    rcases hx with rfl | rfl | rfl | rfl
    · decide
    · exact name_not_mem hn 32 (by decide)
    · exact formatInt_not_mem _ 32 (by simp)
    · exact formatInt_not_mem _ 32 (by simp)
  have hz : inInt64 (zeroToOne s) = true := by
    rw [inInt64_iff] at hs he ⊢
    unfold zeroToOne
    split <;> omega
  unfold commentMetaline
  simp only [hsplit]
  have p2 : mustAtoPos [ofString "sequence-region", name, formatInt (zeroToOne s), formatInt e] 2 = .ok s :=
    mustAtoPos_of (by simp) hz
  have p3 : mustAtoi [ofString "sequence-region", name, formatInt (zeroToOne s), formatInt e] 3 = .ok e :=
    mustAtoi_of (by simp) he
  have p1 : idx [ofString "sequence-region", name, formatInt (zeroToOne s), formatInt e] 1 = (.ok name : Res Bytes) :=
    idx_of_getElem? (by simp)
  simp (decide := true) only [p1, p2, p3, bind_ok, pure_eq_ok, List.length_cons, List.length_nil, if_false, if_true]

/-- reading `[##gff-version 2\\n] ##sequence-region name s+1 e\\n` -/
theorem readAll_region (o : Oracles) (name : Bytes) (s e : Int) (hdr : Bool) (hn : nameOK name = true)
    (hs : inInt64 s = true) (he : inInt64 e = true) (hlt : s < e) :
    (readAll o ((if hdr then headerText else []) ++ (regionLine name s e ++ [10]))).1 =
      [.item (.region name (-1) s e), .eof] := by
  obtain ⟨hnl, htrim⟩ := regionLine_facts name s e hn
  have hne : (regionLine name s e).isEmpty = false := rfl
  have hpre : hasPrefix [35, 35] (regionLine name s e) = true := by simp [regionLine, hasPrefix]
  have hread : ∀ (st : St) (ls : List Bytes), read o (regionLine name s e :: ls) st =
      (.item (.region name st.md.moltype s e), ls, { st with line := st.line + 1 }) := by
    intro st ls
    rw [read]
    simp only [hne, hpre, Bool.false_eq_true, if_false, if_true, region_step o _ name s e hn hs he hlt]
    rfl
  cases hdr with
  | false =>
    simp only [Bool.false_eq_true, if_false, List.nil_append]
    unfold readAll trimmedLines
    rw [lines_single _ hnl]
    simp only [List.map_cons, List.map_nil, trimSpace_append_nl, htrim, List.length_cons, List.length_nil]
    simp only [readCalls, hread, read_nil]
  | true =>
    simp only [if_true]
    unfold readAll trimmedLines
    rw [headerText_eq]
    have : headerLine ++ [10] ++ (regionLine name s e ++ [10]) = headerLine ++ 10 :: (regionLine name s e ++ [10]) := by simp
    rw [this, lines_append_line _ _ headerLine_facts.1, lines_single _ hnl]
    simp only [List.map_cons, List.map_nil, trimSpace_append_nl, htrim, headerLine_facts.2, List.length_cons,
      List.length_nil]
    have hhdr : ∀ st : St, read o [headerLine, regionLine name s e] st =
        (.item (.region name st.md.moltype s e), [], { line := st.line + 2, md := { st.md with version := 2 } }) := by
      intro st
      rw [read]
      have h1 : headerLine.isEmpty = false := by decide
      have h2 : hasPrefix [35, 35] headerLine = true := by decide
      simp only [h1, h2, Bool.false_eq_true, if_false, if_true, header_step, hread]
    simp only [readCalls, hhdr, read_nil]

end Biogo.Gff
