/-
`Biogo.Spec.AffineOpt.optRows` is optimal: every layer of every cell is the maximum of
`scoreAff` over the alignments of the corresponding prefixes that end in that layer's kind
(`IsOpt`: an upper bound for every member of the class, attained by a member; `none` iff the
class is empty).  Core only.
-/
import Biogo.Spec.AffineOpt
import Biogo.Proofs.AffineAln
import Biogo.Proofs.AlignAffTable

namespace Biogo.Proofs.AffineOpt
open Biogo.Spec.Alignment Biogo.AlignAff Biogo.Spec.AffineOpt Biogo.Proofs.AffineAln

/-! ### order on table entries -/

/-- `a ≤ b` with `none` = −∞ -/
def vle : V → V → Prop
  | none, _ => True
  | some _, none => False
  | some x, some y => x ≤ y

theorem max2_spec (a b : V) : (max2 a b = a ∨ max2 a b = b) ∧ vle a (max2 a b) ∧ vle b (max2 a b) := by
  rcases a with _ | x <;> rcases b with _ | y <;> simp [max2, vgt, vle]
  by_cases h : y < x <;> simp [h] <;> omega

theorem max3_spec (a b c : V) :
    (max3 a b c = a ∨ max3 a b c = b ∨ max3 a b c = c) ∧
      vle a (max3 a b c) ∧ vle b (max3 a b c) ∧ vle c (max3 a b c) := by
  rcases a with _ | x <;> rcases b with _ | y <;> rcases c with _ | z <;> simp [max3, vgt, vle]
  · by_cases h : y < z <;> simp [h] <;> omega
  · by_cases h : x < z <;> simp [h] <;> omega
  · by_cases h : x < y <;> simp [h] <;> omega
  · by_cases h : x < y <;> simp [h]
    · by_cases h' : y < z <;> simp [h'] <;> omega
    · by_cases h' : x < z <;> simp [h'] <;> omega

theorem vle_some {v : V} {x : Int} (h : vle (some x) v) : ∃ y, v = some y ∧ x ≤ y := by
  cases v with
  | none => exact absurd h (by simp [vle])
  | some y => exact ⟨y, rfl, h⟩

/-! ### optimum of a class of alignments -/

/-- `v` is the maximum of `f` over `P` (`none` iff `P` is empty) -/
def IsOpt (P : Aln → Prop) (f : Aln → Int) (v : V) : Prop :=
  (∀ a, P a → ∃ x, v = some x ∧ f a ≤ x) ∧ (∀ x, v = some x → ∃ a, P a ∧ f a = x)

theorem isOpt_none {P : Aln → Prop} {f : Aln → Int} (h : ∀ a, ¬ P a) : IsOpt P f none :=
  ⟨fun a ha => absurd ha (h a), fun _ hx => by cases hx⟩

theorem isOpt_congr {P Q : Aln → Prop} {f : Aln → Int} {v : V} (h : ∀ a, P a ↔ Q a)
    (hp : IsOpt P f v) : IsOpt Q f v :=
  ⟨fun a ha => hp.1 a ((h a).mpr ha), fun x hx => let ⟨a, ha, e⟩ := hp.2 x hx; ⟨a, (h a).mp ha, e⟩⟩

theorem isOpt_unique {P : Aln → Prop} {f : Aln → Int} {v w : V} (hv : IsOpt P f v) (hw : IsOpt P f w) :
    v = w := by
  cases v with
  | none =>
    cases w with
    | none => rfl
    | some y =>
      obtain ⟨a, ha, _⟩ := hw.2 y rfl
      obtain ⟨x, hx, _⟩ := hv.1 a ha
      cases hx
  | some x =>
    obtain ⟨a, ha, e⟩ := hv.2 x rfl
    obtain ⟨y, hy, hle⟩ := hw.1 a ha
    subst hy
    obtain ⟨b, hb, e'⟩ := hw.2 y rfl
    obtain ⟨x', hx', hle'⟩ := hv.1 b hb
    cases hx'
    congr 1; omega

theorem isOpt_max2 {P Q : Aln → Prop} {f : Aln → Int} {v w : V} (hp : IsOpt P f v) (hq : IsOpt Q f w) :
    IsOpt (fun a => P a ∨ Q a) f (max2 v w) := by
  obtain ⟨hsel, hl, hr⟩ := max2_spec v w
  constructor
  · intro a ha
    rcases ha with ha | ha
    · obtain ⟨x, hx, hle⟩ := hp.1 a ha
      subst hx
      obtain ⟨y, hy, hxy⟩ := vle_some hl
      exact ⟨y, hy, by omega⟩
    · obtain ⟨x, hx, hle⟩ := hq.1 a ha
      subst hx
      obtain ⟨y, hy, hxy⟩ := vle_some hr
      exact ⟨y, hy, by omega⟩
  · intro x hx
    rcases hsel with h | h
    · rw [h] at hx
      obtain ⟨a, ha, e⟩ := hp.2 x hx
      exact ⟨a, Or.inl ha, e⟩
    · rw [h] at hx
      obtain ⟨a, ha, e⟩ := hq.2 x hx
      exact ⟨a, Or.inr ha, e⟩

theorem isOpt_max3 {P Q R : Aln → Prop} {f : Aln → Int} {u v w : V}
    (hp : IsOpt P f u) (hq : IsOpt Q f v) (hr : IsOpt R f w) :
    IsOpt (fun a => P a ∨ Q a ∨ R a) f (max3 u v w) := by
  obtain ⟨hsel, h1, h2, h3⟩ := max3_spec u v w
  constructor
  · intro a ha
    rcases ha with ha | ha | ha
    · obtain ⟨x, hx, hle⟩ := hp.1 a ha
      subst hx
      obtain ⟨y, hy, hxy⟩ := vle_some h1
      exact ⟨y, hy, by omega⟩
    · obtain ⟨x, hx, hle⟩ := hq.1 a ha
      subst hx
      obtain ⟨y, hy, hxy⟩ := vle_some h2
      exact ⟨y, hy, by omega⟩
    · obtain ⟨x, hx, hle⟩ := hr.1 a ha
      subst hx
      obtain ⟨y, hy, hxy⟩ := vle_some h3
      exact ⟨y, hy, by omega⟩
  · intro x hx
    rcases hsel with h | h | h
    · rw [h] at hx
      obtain ⟨a, ha, e⟩ := hp.2 x hx
      exact ⟨a, Or.inl ha, e⟩
    · rw [h] at hx
      obtain ⟨a, ha, e⟩ := hq.2 x hx
      exact ⟨a, Or.inr (Or.inl ha), e⟩
    · rw [h] at hx
      obtain ⟨a, ha, e⟩ := hr.2 x hx
      exact ⟨a, Or.inr (Or.inr ha), e⟩

/-- appending a fixed column whose cost on members of `P` is `x` -/
theorem isOpt_snoc {P : Aln → Prop} {f : Aln → Int} {v : V} (c : Col) (x : Int)
    (h : ∀ a, P a → f (a ++ [c]) = f a + x) (hp : IsOpt P f v) :
    IsOpt (fun b => ∃ a, P a ∧ b = a ++ [c]) f (vadd v x) := by
  constructor
  · rintro b ⟨a, ha, rfl⟩
    obtain ⟨y, hy, hle⟩ := hp.1 a ha
    exact ⟨y + x, by rw [hy]; rfl, by rw [h a ha]; omega⟩
  · intro y hy
    cases v with
    | none => cases hy
    | some z =>
      have : z + x = y := by simpa [vadd] using hy
      obtain ⟨a, ha, e⟩ := hp.2 z rfl
      exact ⟨a ++ [c], ⟨a, ha, rfl⟩, by rw [h a ha]; omega⟩

theorem isOpt_emptyAt (S : Matrix) (o : Int) (ok : Bool) :
    IsOpt (fun a => ok = true ∧ a = []) (scoreAff S o) (emptyAt ok) := by
  cases ok with
  | false => exact isOpt_none (fun a h => by cases h.1)
  | true =>
    refine ⟨?_, ?_⟩
    · rintro a ⟨_, rfl⟩; exact ⟨0, rfl, by simp [scoreAff, scoreAffFrom]⟩
    · intro x hx
      have : x = 0 := by simpa [emptyAt] using hx.symm
      subst this
      exact ⟨[], ⟨rfl, rfl⟩, by simp [scoreAff, scoreAffFrom]⟩

/-! ### the class of a cell -/

/-- `x` is all of `p`, or (free start) a suffix of it -/
def fits (free : Bool) (x p : List Nat) : Prop := if free then x <:+ p else x = p

theorem fits_snoc (free : Bool) (x p : List Nat) (a b : Nat) :
    fits free (x ++ [a]) (p ++ [b]) ↔ a = b ∧ fits free x p := by
  cases free with
  | false =>
    simp only [fits, Bool.false_eq_true, if_false]
    constructor
    · intro h
      have := List.append_inj' h rfl
      exact ⟨by simpa using this.2, this.1⟩
    · rintro ⟨rfl, rfl⟩; rfl
  | true =>
    simp only [fits, if_true]
    rw [List.suffix_concat_iff]
    constructor
    · rintro (h | ⟨t, ht, hs⟩)
      · exact absurd h (by simp)
      · have := List.append_inj' ht rfl
        exact ⟨by simpa using this.2, by rw [this.1]; exact hs⟩
    · rintro ⟨rfl, hs⟩
      exact Or.inr ⟨x, rfl, hs⟩

theorem fits_nil_left (free : Bool) (p : List Nat) : fits free [] p ↔ (free = true ∨ p = []) := by
  cases free with
  | false => simp [fits, eq_comm]
  | true => simp [fits]

theorem fits_nil_right (free : Bool) (x : List Nat) : fits free x [] ↔ x = [] := by
  cases free <;> simp [fits]

def Adm (fl : Flags) (rp qp : List Nat) (a : Aln) : Prop :=
  fits fl.freeR (projR a) rp ∧ fits fl.freeQ (projQ a) qp ∧ (fl.cross = true ∨ noAdj a = true)

/-- the alignments a layer of cell `(rp, qp)` stands for -/
def Cls (fl : Flags) (rp qp : List Nat) (k : Kind) (a : Aln) : Prop := Adm fl rp qp a ∧ endK a = k

def CellOK (fl : Flags) (S : Matrix) (o : Int) (rp qp : List Nat) (c : Cell) : Prop :=
  ∀ k, IsOpt (Cls fl rp qp k) (scoreAff S o) (c.get k)

theorem projR_nil_of_endK {a : Aln} (h : projR a = []) : endK a ≠ .m ∧ endK a ≠ .u ∨ a = [] := by
  rcases List.eq_nil_or_concat a with rfl | ⟨a', c, rfl⟩
  · exact Or.inr rfl
  · left
    rw [List.concat_eq_append] at h ⊢
    rw [projR_append] at h
    rw [endK_snoc]
    cases c <;> simp [projR, Col.kind] at h ⊢

theorem projQ_nil_of_endK {a : Aln} (h : projQ a = []) : endK a ≠ .m ∧ endK a ≠ .l ∨ a = [] := by
  rcases List.eq_nil_or_concat a with rfl | ⟨a', c, rfl⟩
  · exact Or.inr rfl
  · left
    rw [List.concat_eq_append] at h ⊢
    rw [projQ_append] at h
    rw [endK_snoc]
    cases c <;> simp [projQ, Col.kind] at h ⊢

theorem compat_u (k : Kind) : compat k .u = true ↔ k ≠ .l := by cases k <;> simp [compat]
theorem compat_l (k : Kind) : compat k .l = true ↔ k ≠ .u := by cases k <;> simp [compat]
theorem compat_m (k : Kind) : compat k .m = true := by cases k <;> rfl

/-- last column a gap in the query -/
theorem cls_u_snoc (fl : Flags) (rp Q : List Nat) (x : Nat) (a : Aln) :
    Cls fl (rp ++ [x]) Q .u a ↔
      ∃ a', a = a' ++ [.u x] ∧ Adm fl rp Q a' ∧ (fl.cross = true ∨ endK a' ≠ .l) := by
  constructor
  · rintro ⟨⟨hr, hq, hn⟩, he⟩
    have hne : a ≠ [] := endK_ne_m_ne_nil a (by rw [he]; decide)
    obtain ⟨a', c, rfl⟩ := eq_snoc_of_ne_nil a hne
    rw [endK_snoc] at he
    cases c with
    | m _ _ => cases he
    | l _ => cases he
    | u x' =>
      rw [projR_append] at hr
      rw [projQ_append] at hq
      simp only [projR, projQ, List.append_nil] at hr hq
      rw [fits_snoc] at hr
      obtain ⟨rfl, hr⟩ := hr
      refine ⟨a', rfl, ⟨hr, hq, ?_⟩, ?_⟩
      · rcases hn with hn | hn
        · exact Or.inl hn
        · rw [noAdj_snoc] at hn; exact Or.inr (by simp at hn; exact hn.1)
      · rcases hn with hn | hn
        · exact Or.inl hn
        · rw [noAdj_snoc] at hn
          simp only [Bool.and_eq_true] at hn
          exact Or.inr ((compat_u _).mp hn.2)
  · rintro ⟨a', rfl, ⟨hr, hq, hn⟩, hc⟩
    refine ⟨⟨?_, ?_, ?_⟩, by rw [endK_snoc]; rfl⟩
    · rw [projR_append]; simp only [projR]; rw [fits_snoc]; exact ⟨rfl, hr⟩
    · rw [projQ_append]; simpa [projQ] using hq
    · rcases hn with hn | hn
      · exact Or.inl hn
      · rcases hc with hc | hc
        · exact Or.inl hc
        · right; rw [noAdj_snoc, hn]; exact (compat_u _).mpr hc

/-- last column a gap in the reference -/
theorem cls_l_snoc (fl : Flags) (R qp : List Nat) (y : Nat) (a : Aln) :
    Cls fl R (qp ++ [y]) .l a ↔
      ∃ a', a = a' ++ [.l y] ∧ Adm fl R qp a' ∧ (fl.cross = true ∨ endK a' ≠ .u) := by
  constructor
  · rintro ⟨⟨hr, hq, hn⟩, he⟩
    have hne : a ≠ [] := endK_ne_m_ne_nil a (by rw [he]; decide)
    obtain ⟨a', c, rfl⟩ := eq_snoc_of_ne_nil a hne
    rw [endK_snoc] at he
    cases c with
    | m _ _ => cases he
    | u _ => cases he
    | l y' =>
      rw [projR_append] at hr
      rw [projQ_append] at hq
      simp only [projR, projQ, List.append_nil] at hr hq
      rw [fits_snoc] at hq
      obtain ⟨rfl, hq⟩ := hq
      refine ⟨a', rfl, ⟨hr, hq, ?_⟩, ?_⟩
      · rcases hn with hn | hn
        · exact Or.inl hn
        · rw [noAdj_snoc] at hn; exact Or.inr (by simp at hn; exact hn.1)
      · rcases hn with hn | hn
        · exact Or.inl hn
        · rw [noAdj_snoc] at hn
          simp only [Bool.and_eq_true] at hn
          exact Or.inr ((compat_l _).mp hn.2)
  · rintro ⟨a', rfl, ⟨hr, hq, hn⟩, hc⟩
    refine ⟨⟨?_, ?_, ?_⟩, by rw [endK_snoc]; rfl⟩
    · rw [projR_append]; simpa [projR] using hr
    · rw [projQ_append]; simp only [projQ]; rw [fits_snoc]; exact ⟨rfl, hq⟩
    · rcases hn with hn | hn
      · exact Or.inl hn
      · rcases hc with hc | hc
        · exact Or.inl hc
        · right; rw [noAdj_snoc, hn]; exact (compat_l _).mpr hc

/-- last column a match, or empty -/
theorem cls_m_snoc (fl : Flags) (rp qp : List Nat) (x y : Nat) (a : Aln) :
    Cls fl (rp ++ [x]) (qp ++ [y]) .m a ↔
      ((fl.freeR && fl.freeQ) = true ∧ a = []) ∨ ∃ a', a = a' ++ [.m x y] ∧ Adm fl rp qp a' := by
  constructor
  · rintro ⟨⟨hr, hq, hn⟩, he⟩
    rcases List.eq_nil_or_concat a with rfl | ⟨a', c, rfl⟩
    · left
      simp only [projR, projQ, fits_nil_left] at hr hq
      refine ⟨?_, rfl⟩
      rcases hr with hr | hr
      · rcases hq with hq | hq
        · simp [hr, hq]
        · exact absurd hq (by simp)
      · exact absurd hr (by simp)
    · right
      rw [List.concat_eq_append] at *
      rw [endK_snoc] at he
      cases c with
      | u _ => cases he
      | l _ => cases he
      | m x' y' =>
        rw [projR_append] at hr
        rw [projQ_append] at hq
        simp only [projR, projQ] at hr hq
        rw [fits_snoc] at hr hq
        obtain ⟨rfl, hr⟩ := hr
        obtain ⟨rfl, hq⟩ := hq
        refine ⟨a', rfl, hr, hq, ?_⟩
        rcases hn with hn | hn
        · exact Or.inl hn
        · rw [noAdj_snoc] at hn; exact Or.inr (by simp at hn; exact hn.1)
  · rintro (⟨hf, rfl⟩ | ⟨a', rfl, hr, hq, hn⟩)
    · simp only [Bool.and_eq_true] at hf
      exact ⟨⟨by simp [projR, fits_nil_left, hf.1], by simp [projQ, fits_nil_left, hf.2], Or.inr rfl⟩, rfl⟩
    · refine ⟨⟨?_, ?_, ?_⟩, by rw [endK_snoc]; rfl⟩
      · rw [projR_append]; simp only [projR]; rw [fits_snoc]; exact ⟨rfl, hr⟩
      · rw [projQ_append]; simp only [projQ]; rw [fits_snoc]; exact ⟨rfl, hq⟩
      · rcases hn with hn | hn
        · exact Or.inl hn
        · right; rw [noAdj_snoc, hn]; exact compat_m _

/-! ### one cell from its neighbours -/

theorem cost_u (S : Matrix) (o : Int) (x : Nat) (a : Aln) :
    scoreAff S o (a ++ [.u x]) = scoreAff S o a + ((if endK a = .u then 0 else o) + S x 0) := by
  rw [scoreAff_snoc]
  cases h : endK a <;> simp [stepCost, Col.kind, colScore]

theorem cost_l (S : Matrix) (o : Int) (y : Nat) (a : Aln) :
    scoreAff S o (a ++ [.l y]) = scoreAff S o a + ((if endK a = .l then 0 else o) + S 0 y) := by
  rw [scoreAff_snoc]
  cases h : endK a <;> simp [stepCost, Col.kind, colScore]

theorem cost_m (S : Matrix) (o : Int) (x y : Nat) (a : Aln) :
    scoreAff S o (a ++ [.m x y]) = scoreAff S o a + S x y := by
  rw [scoreAff_snoc]
  simp [stepCost, Col.kind, colScore]

theorem isOpt_cross (fl : Flags) {P : Aln → Prop} {f : Aln → Int} {v : V} (h : IsOpt P f v) :
    IsOpt (fun a => fl.cross = true ∧ P a) f (if fl.cross then v else none) := by
  cases hc : fl.cross with
  | false => exact isOpt_none (fun a ha => by simp at ha)
  | true => exact isOpt_congr (fun a => by simp) h

theorem cellOK_u_step {fl : Flags} {S : Matrix} {o : Int} {rp Q : List Nat} {c : Cell} (x : Nat)
    (h : CellOK fl S o rp Q c) :
    IsOpt (Cls fl (rp ++ [x]) Q .u) (scoreAff S o) (gapVal fl o (S x 0) c.d c.u c.l) := by
  have hA := isOpt_snoc (.u x) (o + S x 0)
    (fun a (ha : Cls fl rp Q .m a) => by rw [cost_u, ha.2]; simp) (h .m)
  have hB := isOpt_snoc (.u x) (S x 0)
    (fun a (ha : Cls fl rp Q .u a) => by rw [cost_u, ha.2]; simp) (h .u)
  have hC := isOpt_cross fl (isOpt_snoc (.u x) (o + S x 0)
    (fun a (ha : Cls fl rp Q .l a) => by rw [cost_u, ha.2]; simp) (h .l))
  refine isOpt_congr ?_ (isOpt_max3 hA hB hC)
  intro b
  rw [cls_u_snoc]
  constructor
  · rintro (⟨a, ha, rfl⟩ | ⟨a, ha, rfl⟩ | ⟨hc, a, ha, rfl⟩)
    · exact ⟨a, rfl, ha.1, Or.inr (by rw [ha.2]; decide)⟩
    · exact ⟨a, rfl, ha.1, Or.inr (by rw [ha.2]; decide)⟩
    · exact ⟨a, rfl, ha.1, Or.inl hc⟩
  · rintro ⟨a, rfl, ha, hc⟩
    cases hk : endK a with
    | m => exact Or.inl ⟨a, ⟨ha, hk⟩, rfl⟩
    | u => exact Or.inr (Or.inl ⟨a, ⟨ha, hk⟩, rfl⟩)
    | l =>
      rcases hc with hc | hc
      · exact Or.inr (Or.inr ⟨hc, a, ⟨ha, hk⟩, rfl⟩)
      · exact absurd hk hc

theorem cellOK_l_step {fl : Flags} {S : Matrix} {o : Int} {R qp : List Nat} {c : Cell} (y : Nat)
    (h : CellOK fl S o R qp c) :
    IsOpt (Cls fl R (qp ++ [y]) .l) (scoreAff S o) (gapVal fl o (S 0 y) c.d c.l c.u) := by
  have hA := isOpt_snoc (.l y) (o + S 0 y)
    (fun a (ha : Cls fl R qp .m a) => by rw [cost_l, ha.2]; simp) (h .m)
  have hB := isOpt_snoc (.l y) (S 0 y)
    (fun a (ha : Cls fl R qp .l a) => by rw [cost_l, ha.2]; simp) (h .l)
  have hC := isOpt_cross fl (isOpt_snoc (.l y) (o + S 0 y)
    (fun a (ha : Cls fl R qp .u a) => by rw [cost_l, ha.2]; simp) (h .u))
  refine isOpt_congr ?_ (isOpt_max3 hA hB hC)
  intro b
  rw [cls_l_snoc]
  constructor
  · rintro (⟨a, ha, rfl⟩ | ⟨a, ha, rfl⟩ | ⟨hc, a, ha, rfl⟩)
    · exact ⟨a, rfl, ha.1, Or.inr (by rw [ha.2]; decide)⟩
    · exact ⟨a, rfl, ha.1, Or.inr (by rw [ha.2]; decide)⟩
    · exact ⟨a, rfl, ha.1, Or.inl hc⟩
  · rintro ⟨a, rfl, ha, hc⟩
    cases hk : endK a with
    | m => exact Or.inl ⟨a, ⟨ha, hk⟩, rfl⟩
    | l => exact Or.inr (Or.inl ⟨a, ⟨ha, hk⟩, rfl⟩)
    | u =>
      rcases hc with hc | hc
      · exact Or.inr (Or.inr ⟨hc, a, ⟨ha, hk⟩, rfl⟩)
      · exact absurd hk hc

theorem cellOK_m_step {fl : Flags} {S : Matrix} {o : Int} {rp qp : List Nat} {c : Cell} (x y : Nat)
    (h : CellOK fl S o rp qp c) :
    IsOpt (Cls fl (rp ++ [x]) (qp ++ [y]) .m) (scoreAff S o)
      (max2 (emptyAt (fl.freeR && fl.freeQ)) (vadd (max3 c.d c.u c.l) (S x y))) := by
  have hE := isOpt_emptyAt S o (fl.freeR && fl.freeQ)
  have hM := isOpt_snoc (.m x y) (S x y) (fun a _ => cost_m S o x y a)
    (isOpt_max3 (h .m) (h .u) (h .l))
  refine isOpt_congr ?_ (isOpt_max2 hE hM)
  intro b
  rw [cls_m_snoc]
  constructor
  · rintro (h | ⟨a, (ha | ha | ha), rfl⟩)
    · exact Or.inl h
    · exact Or.inr ⟨a, rfl, ha.1⟩
    · exact Or.inr ⟨a, rfl, ha.1⟩
    · exact Or.inr ⟨a, rfl, ha.1⟩
  · rintro (h | ⟨a, rfl, ha⟩)
    · exact Or.inl h
    · refine Or.inr ⟨a, ?_, rfl⟩
      cases hk : endK a with
      | m => exact Or.inl ⟨ha, hk⟩
      | u => exact Or.inr (Or.inl ⟨ha, hk⟩)
      | l => exact Or.inr (Or.inr ⟨ha, hk⟩)

/-- no alignment of an empty reference prefix ends with a reference letter -/
theorem isOpt_u_rnil (fl : Flags) (S : Matrix) (o : Int) (Q : List Nat) :
    IsOpt (Cls fl [] Q .u) (scoreAff S o) none := by
  refine isOpt_none ?_
  rintro a ⟨⟨hr, _, _⟩, he⟩
  rw [fits_nil_right] at hr
  rcases projR_nil_of_endK hr with h | rfl
  · exact h.2 he
  · cases he

theorem isOpt_l_qnil (fl : Flags) (S : Matrix) (o : Int) (R : List Nat) :
    IsOpt (Cls fl R [] .l) (scoreAff S o) none := by
  refine isOpt_none ?_
  rintro a ⟨⟨_, hq, _⟩, he⟩
  rw [fits_nil_right] at hq
  rcases projQ_nil_of_endK hq with h | rfl
  · exact h.2 he
  · cases he

/-- with an empty reference prefix only the empty alignment ends "in a match" -/
theorem isOpt_m_rnil (fl : Flags) (S : Matrix) (o : Int) (Q : List Nat) :
    IsOpt (Cls fl [] Q .m) (scoreAff S o) (emptyAt (fl.freeQ || Q.isEmpty)) := by
  refine isOpt_congr ?_ (isOpt_emptyAt S o (fl.freeQ || Q.isEmpty))
  intro a
  constructor
  · rintro ⟨hf, rfl⟩
    refine ⟨⟨by simp [projR, fits_nil_left], ?_, Or.inr rfl⟩, rfl⟩
    simp only [projQ, fits_nil_left]
    simpa [List.isEmpty_iff] using hf
  · rintro ⟨⟨hr, hq, _⟩, he⟩
    rw [fits_nil_right] at hr
    rcases projR_nil_of_endK hr with h | rfl
    · exact absurd he h.1
    · simp only [projQ, fits_nil_left] at hq
      exact ⟨by simpa [List.isEmpty_iff] using hq, rfl⟩

theorem isOpt_m_qnil (fl : Flags) (S : Matrix) (o : Int) (R : List Nat) :
    IsOpt (Cls fl R [] .m) (scoreAff S o) (emptyAt (fl.freeR || R.isEmpty)) := by
  refine isOpt_congr ?_ (isOpt_emptyAt S o (fl.freeR || R.isEmpty))
  intro a
  constructor
  · rintro ⟨hf, rfl⟩
    refine ⟨⟨?_, by simp [projQ, fits_nil_left], Or.inr rfl⟩, rfl⟩
    simp only [projR, fits_nil_left]
    simpa [List.isEmpty_iff] using hf
  · rintro ⟨⟨hr, hq, _⟩, he⟩
    rw [fits_nil_right] at hq
    rcases projQ_nil_of_endK hq with h | rfl
    · exact absurd he h.1
    · simp only [projR, fits_nil_left] at hr
      exact ⟨by simpa [List.isEmpty_iff] using hr, rfl⟩

/-! ### the cells of `optRows` -/

theorem cellOK_origin (fl : Flags) (S : Matrix) (o : Int) : CellOK fl S o [] [] origin := by
  intro k
  cases k with
  | m => simpa [origin, Cell.get, emptyAt] using isOpt_m_rnil fl S o []
  | u => exact isOpt_u_rnil fl S o []
  | l => exact isOpt_l_qnil fl S o []

theorem cellOK_row0 {fl : Flags} {S : Matrix} {o : Int} {qp : List Nat} {lc : Cell} (y : Nat)
    (h : CellOK fl S o [] qp lc) :
    CellOK fl S o [] (qp ++ [y])
      { d := emptyAt fl.freeQ, u := none, l := gapVal fl o (S 0 y) lc.d lc.l lc.u } := by
  intro k
  cases k with
  | m =>
    have h := isOpt_m_rnil fl S o (qp ++ [y])
    have e : (qp ++ [y]).isEmpty = false := by simp
    rw [e, Bool.or_false] at h
    exact h
  | u => exact isOpt_u_rnil fl S o _
  | l => exact cellOK_l_step y h

theorem cellOK_first {fl : Flags} {S : Matrix} {o : Int} {rp : List Nat} {pc : Cell} (b : Bool) (x : Nat)
    (h : CellOK fl S o rp [] pc) :
    CellOK fl S o (rp ++ [x]) [] (optFirst fl S o b pc x) := by
  intro k
  cases k with
  | m =>
    have h := isOpt_m_qnil fl S o (rp ++ [x])
    have e : (rp ++ [x]).isEmpty = false := by simp
    rw [e, Bool.or_false] at h
    exact h
  | u => exact cellOK_u_step x h
  | l => exact isOpt_l_qnil fl S o _

theorem cellOK_inner {fl : Flags} {S : Matrix} {o : Int} {rp qp : List Nat} {pd pu lc : Cell} (x y : Nat)
    (hd : CellOK fl S o rp qp pd) (hu : CellOK fl S o rp (qp ++ [y]) pu)
    (hl : CellOK fl S o (rp ++ [x]) qp lc) :
    CellOK fl S o (rp ++ [x]) (qp ++ [y]) (optCell fl S o x pd pu lc y) := by
  intro k
  cases k with
  | m => exact cellOK_m_step x y hd
  | u => exact cellOK_u_step x hu
  | l => exact cellOK_l_step y hl

/-- first row: the cells after `lc`, which stands at query prefix `done` -/
theorem row0Tail_ok (fl : Flags) (S : Matrix) (o : Int) :
    ∀ (ys done : List Nat) (lc : Cell), CellOK fl S o [] done lc →
      (optRow0Tail fl S o lc ys).length = ys.length ∧
      ∀ j, j < ys.length →
        CellOK fl S o [] (done ++ ys.take (j + 1)) ((optRow0Tail fl S o lc ys).getD j noCell) := by
  intro ys
  induction ys with
  | nil => intro done lc _; exact ⟨rfl, fun j hj => absurd hj (by simp)⟩
  | cons y ys ih =>
    intro done lc h
    have hc := cellOK_row0 y h
    obtain ⟨hlen, hrest⟩ := ih (done ++ [y]) _ hc
    refine ⟨by simp [optRow0Tail, hlen], ?_⟩
    intro j hj
    cases j with
    | zero => simpa [optRow0Tail] using hc
    | succ j =>
      have := hrest j (by simpa using hj)
      simpa [optRow0Tail, List.append_assoc] using this

/-- a row of cells for the reference prefix `rp` -/
def RowOK (fl : Flags) (S : Matrix) (o : Int) (q rp : List Nat) (row : List Cell) : Prop :=
  row.length = q.length + 1 ∧ ∀ j, j ≤ q.length → CellOK fl S o rp (q.take j) (row.getD j noCell)

theorem row0_ok (fl : Flags) (S : Matrix) (o : Int) (q : List Nat) :
    RowOK fl S o q [] (origin :: optRow0Tail fl S o origin q) := by
  obtain ⟨hlen, hrest⟩ := row0Tail_ok fl S o q [] origin (cellOK_origin fl S o)
  refine ⟨by simp [hlen], ?_⟩
  intro j hj
  cases j with
  | zero => simpa using cellOK_origin fl S o
  | succ j => simpa using hrest j (by omega)

/-- the inner loop over one row: `prevTail` is the row above from the current column on -/
theorem scanRow_ok (fl : Flags) (S : Matrix) (o : Int) (rp : List Nat) (x : Nat) :
    ∀ (ys done : List Nat) (prevTail : List Cell) (lc : Cell),
      prevTail.length = ys.length + 1 →
      (∀ j, j ≤ ys.length → CellOK fl S o rp (done ++ ys.take j) (prevTail.getD j noCell)) →
      CellOK fl S o (rp ++ [x]) done lc →
      (scanRow (optCell fl S o x) prevTail lc ys).length = ys.length ∧
      ∀ j, j < ys.length →
        CellOK fl S o (rp ++ [x]) (done ++ ys.take (j + 1))
          ((scanRow (optCell fl S o x) prevTail lc ys).getD j noCell) := by
  intro ys
  induction ys with
  | nil => intro done prevTail lc _ _ _; exact ⟨by cases prevTail <;> simp [scanRow] <;> (rename_i t; cases t <;> simp [scanRow]), fun j hj => absurd hj (by simp)⟩
  | cons y ys ih =>
    intro done prevTail lc hlen hprev hlc
    match prevTail, hlen, hprev with
    | pd :: pu :: rest, hlen, hprev =>
      have hd : CellOK fl S o rp done pd := by simpa using hprev 0 (by simp)
      have hu : CellOK fl S o rp (done ++ [y]) pu := by simpa using hprev 1 (by simp)
      have hc := cellOK_inner x y hd hu hlc
      have hprev' : ∀ j, j ≤ ys.length →
          CellOK fl S o rp ((done ++ [y]) ++ ys.take j) ((pu :: rest).getD j noCell) := by
        intro j hj
        have := hprev (j + 1) (by simpa using hj)
        simpa [List.append_assoc] using this
      obtain ⟨hl', hrest⟩ := ih (done ++ [y]) (pu :: rest) _ (by simpa using hlen) hprev' hc
      refine ⟨by simp [scanRow, hl'], ?_⟩
      intro j hj
      cases j with
      | zero => simpa [scanRow] using hc
      | succ j =>
        have := hrest j (by simpa using hj)
        simpa [scanRow, List.append_assoc] using this
    | [], hlen, _ => simp at hlen
    | [_], hlen, _ => simp at hlen

theorem rowStep_ok {fl : Flags} {S : Matrix} {o : Int} {q rp : List Nat} {prev : List Cell} (b : Bool) (x : Nat)
    (h : RowOK fl S o q rp prev) :
    RowOK fl S o q (rp ++ [x])
      (optFirst fl S o b (prev.headD noCell) x ::
        scanRow (optCell fl S o x) prev (optFirst fl S o b (prev.headD noCell) x) q) := by
  obtain ⟨hlen, hcells⟩ := h
  have h0 : CellOK fl S o rp [] (prev.headD noCell) := by
    have := hcells 0 (by omega)
    cases prev with
    | nil => simp at hlen
    | cons c cs => simpa using this
  have hfc := cellOK_first b x h0
  obtain ⟨hl', hrest⟩ := scanRow_ok fl S o rp x q [] prev _ hlen
    (fun j hj => by simpa using hcells j hj) hfc
  refine ⟨by rw [List.length_cons, hl'], ?_⟩
  intro j hj
  cases j with
  | zero => simpa using hfc
  | succ j =>
    have := hrest j (by omega)
    rw [List.nil_append] at this
    rw [List.getD_cons_succ]
    exact this

theorem fillRows_ok (fl : Flags) (S : Matrix) (o : Int) (q : List Nat) :
    ∀ (xs rp : List Nat) (prev : List Cell) (b : Bool), RowOK fl S o q rp prev →
      (fillRows (optFirst fl S o) (optCell fl S o) q b prev xs).length = xs.length ∧
      ∀ i, i < xs.length →
        RowOK fl S o q (rp ++ xs.take (i + 1))
          ((fillRows (optFirst fl S o) (optCell fl S o) q b prev xs).getD i []) := by
  intro xs
  induction xs with
  | nil => intro rp prev b _; exact ⟨rfl, fun i hi => absurd hi (by simp)⟩
  | cons x xs ih =>
    intro rp prev b h
    have hrow := rowStep_ok b x h
    obtain ⟨hl', hrest⟩ := ih (rp ++ [x]) _ false hrow
    refine ⟨by rw [fillRows, List.length_cons, hl', List.length_cons], ?_⟩
    intro i hi
    cases i with
    | zero =>
      rw [fillRows, List.getD_cons_zero]
      simpa using hrow
    | succ i =>
      have := hrest i (by simpa using hi)
      rw [fillRows, List.getD_cons_succ, List.take_succ_cons]
      rw [List.append_assoc] at this
      exact this

/-- every cell of the reference table is the optimum of its class -/
theorem optRows_ok (fl : Flags) (S : Matrix) (o : Int) (r q : List Nat) (i j : Nat)
    (hi : i ≤ r.length) (hj : j ≤ q.length) :
    CellOK fl S o (r.take i) (q.take j) (rowAt (optRows fl S o r q) i j) := by
  have h0 := row0_ok fl S o q
  obtain ⟨_, hrows⟩ := fillRows_ok fl S o q r [] _ true h0
  cases i with
  | zero => simpa [rowAt, optRows] using h0.2 j hj
  | succ i =>
    have := (hrows i (by omega)).2 j hj
    simpa [rowAt, optRows] using this

/-! ### the three optima -/

theorem adm_iff_cls (fl : Flags) (rp qp : List Nat) (a : Aln) :
    (Cls fl rp qp .m a ∨ Cls fl rp qp .u a ∨ Cls fl rp qp .l a) ↔ Adm fl rp qp a := by
  constructor
  · rintro (h | h | h) <;> exact h.1
  · intro h
    cases hk : endK a with
    | m => exact Or.inl ⟨h, hk⟩
    | u => exact Or.inr (Or.inl ⟨h, hk⟩)
    | l => exact Or.inr (Or.inr ⟨h, hk⟩)

theorem cellBest_isOpt {fl : Flags} {S : Matrix} {o : Int} {rp qp : List Nat} {c : Cell}
    (h : CellOK fl S o rp qp c) : IsOpt (Adm fl rp qp) (scoreAff S o) (cellBest c) :=
  isOpt_congr (adm_iff_cls fl rp qp) (isOpt_max3 (h .m) (h .u) (h .l))

/-- `globalOpt cross` is the maximum of the affine score over the global alignments of `r`
    and `q` (all of them when `cross`, those without adjacent opposite gaps otherwise) -/
theorem globalOpt_isOpt (cross : Bool) (S : Matrix) (o : Int) (r q : List Nat) :
    IsOpt (fun a => IsGlobal a r q ∧ (cross = true ∨ NoAdj a)) (scoreAff S o)
      (globalOpt cross S o r q) := by
  have h := cellBest_isOpt (optRows_ok ⟨cross, false, false⟩ S o r q r.length q.length
    (Nat.le_refl _) (Nat.le_refl _))
  simp only [List.take_length] at h
  exact isOpt_congr (fun a => by simp [Adm, fits, IsGlobal, NoAdj, and_assoc]) h

/-- local alignments are the alignments of the cells' classes -/
theorem local_iff (a : Aln) (r q : List Nat) :
    IsLocal a r q ↔ ∃ i j, i ≤ r.length ∧ j ≤ q.length ∧ projR a <:+ r.take i ∧ projQ a <:+ q.take j := by
  constructor
  · rintro ⟨r1, r2, r3, q1, q2, q3, hr, hq, har, haq⟩
    refine ⟨(r1 ++ r2).length, (q1 ++ q2).length, ?_, ?_, ?_, ?_⟩
    · rw [hr]; simp
    · rw [hq]; simp
    · rw [hr, List.take_left, har]; exact List.suffix_append r1 r2
    · rw [hq, List.take_left, haq]; exact List.suffix_append q1 q2
  · rintro ⟨i, j, _, _, ⟨r1, hr1⟩, ⟨q1, hq1⟩⟩
    refine ⟨r1, projR a, r.drop i, q1, projQ a, q.drop j, ?_, ?_, rfl, rfl⟩
    · rw [hr1, List.take_append_drop]
    · rw [hq1, List.take_append_drop]

theorem maxOver_isOpt {f : Aln → Int} (Ps : Nat → Aln → Prop) :
    ∀ (cells : List Cell) (base : Nat) (init : V) (P0 : Aln → Prop), IsOpt P0 f init →
      (∀ k, k < cells.length → IsOpt (Ps (base + k)) f (cellBest (cells.getD k noCell))) →
      IsOpt (fun a => P0 a ∨ ∃ k, k < cells.length ∧ Ps (base + k) a) f (maxOver cells init) := by
  intro cells
  induction cells with
  | nil =>
    intro base init P0 h0 _
    exact isOpt_congr (fun a => by simp) h0
  | cons c cs ih =>
    intro base init P0 h0 hcells
    have hc : IsOpt (Ps base) f (cellBest c) := by simpa using hcells 0 (by simp)
    have hrest : ∀ k, k < cs.length → IsOpt (Ps (base + 1 + k)) f (cellBest (cs.getD k noCell)) := by
      intro k hk
      have := hcells (k + 1) (by simpa using hk)
      simpa [Nat.add_assoc, Nat.add_comm 1 k] using this
    have := ih (base + 1) _ _ (isOpt_max2 h0 hc) hrest
    simp only [maxOver, List.foldl_cons] at this ⊢
    refine isOpt_congr ?_ this
    intro a
    constructor
    · rintro ((h | h) | ⟨k, hk, h⟩)
      · exact Or.inl h
      · exact Or.inr ⟨0, by simp, by simpa using h⟩
      · exact Or.inr ⟨k + 1, by simpa using hk, by simpa [Nat.add_assoc, Nat.add_comm 1 k] using h⟩
    · rintro (h | ⟨k, hk, h⟩)
      · exact Or.inl (Or.inl h)
      · cases k with
        | zero => exact Or.inl (Or.inr (by simpa using h))
        | succ k =>
          exact Or.inr ⟨k, by simpa using hk, by simpa [Nat.add_assoc, Nat.add_comm 1 k] using h⟩

theorem maxRows_isOpt {f : Aln → Int} (Ps : Nat → Nat → Aln → Prop) :
    ∀ (rows : List (List Cell)) (base : Nat) (init : V) (P0 : Aln → Prop), IsOpt P0 f init →
      (∀ i, i < rows.length → ∀ k, k < (rows.getD i []).length →
        IsOpt (Ps (base + i) k) f (cellBest ((rows.getD i []).getD k noCell))) →
      IsOpt (fun a => P0 a ∨ ∃ i, i < rows.length ∧ ∃ k, k < (rows.getD i []).length ∧ Ps (base + i) k a) f
        (rows.foldl (fun acc row => maxOver row acc) init) := by
  intro rows
  induction rows with
  | nil =>
    intro base init P0 h0 _
    exact isOpt_congr (fun a => by simp) h0
  | cons row rows ih =>
    intro base init P0 h0 hrows
    have hrow := maxOver_isOpt (Ps base) row 0 init P0 h0 (fun k hk => by
      have := hrows 0 (by simp) k (by simpa using hk)
      simpa using this)
    have hrest : ∀ i, i < rows.length → ∀ k, k < (rows.getD i []).length →
        IsOpt (Ps (base + 1 + i) k) f (cellBest ((rows.getD i []).getD k noCell)) := by
      intro i hi k hk
      have := hrows (i + 1) (by simpa using hi) k (by simpa using hk)
      simpa [Nat.add_assoc, Nat.add_comm 1 i] using this
    have := ih (base + 1) _ _ hrow hrest
    simp only [List.foldl_cons]
    refine isOpt_congr ?_ this
    intro a
    constructor
    · rintro ((h | ⟨k, hk, h⟩) | ⟨i, hi, k, hk, h⟩)
      · exact Or.inl h
      · exact Or.inr ⟨0, by simp, k, by simpa using hk, by simpa using h⟩
      · exact Or.inr ⟨i + 1, by simpa using hi, k, by simpa using hk,
          by simpa [Nat.add_assoc, Nat.add_comm 1 i] using h⟩
    · rintro (h | ⟨i, hi, k, hk, h⟩)
      · exact Or.inl (Or.inl h)
      · cases i with
        | zero => exact Or.inl (Or.inr ⟨k, by simpa using hk, by simpa using h⟩)
        | succ i =>
          exact Or.inr ⟨i, by simpa using hi, k, by simpa using hk,
            by simpa [Nat.add_assoc, Nat.add_comm 1 i] using h⟩

/-- `localOpt cross` is the maximum of the affine score over the local alignments of `r` and
    `q`, the empty alignment (score 0) included -/
theorem localOpt_isOpt (cross : Bool) (S : Matrix) (o : Int) (r q : List Nat) :
    IsOpt (fun a => IsLocal a r q ∧ (cross = true ∨ NoAdj a)) (scoreAff S o)
      (localOpt cross S o r q) := by
  have hlen : (optRows ⟨cross, true, true⟩ S o r q).length = r.length + 1 := by
    simp [optRows, Biogo.Proofs.AlignAffTable.fillRows_length]
  have hrowlen : ∀ i, i ≤ r.length → ((optRows ⟨cross, true, true⟩ S o r q).getD i []).length = q.length + 1 := by
    intro i hi
    exact Biogo.Proofs.AlignAffTable.rows_getD_len _ _ q r _ (row0_ok ⟨cross, true, true⟩ S o q).1 i hi
  have h0 : IsOpt (fun a => a = []) (scoreAff S o) (some 0) :=
    isOpt_congr (fun a => by simp) (isOpt_emptyAt S o true)
  have h := maxRows_isOpt (f := scoreAff S o)
    (fun i k a => Adm ⟨cross, true, true⟩ (r.take i) (q.take k) a)
    (optRows ⟨cross, true, true⟩ S o r q) 0 (some 0) _ h0 (by
      intro i hi k hk
      rw [hlen] at hi
      rw [hrowlen i (by omega)] at hk
      simpa [rowAt] using cellBest_isOpt (optRows_ok ⟨cross, true, true⟩ S o r q i k (by omega) (by omega)))
  refine isOpt_congr ?_ h
  intro a
  simp only [Nat.zero_add]
  constructor
  · rintro (rfl | ⟨i, hi, k, hk, hr, hq, hn⟩)
    · exact ⟨(local_iff [] r q).mpr ⟨0, 0, Nat.zero_le _, Nat.zero_le _, by simp [projR], by simp [projQ]⟩,
        Or.inr rfl⟩
    · rw [hlen] at hi
      rw [hrowlen i (by omega)] at hk
      exact ⟨(local_iff a r q).mpr ⟨i, k, by omega, by omega, by simpa [fits] using hr, by simpa [fits] using hq⟩, hn⟩
  · rintro ⟨hloc, hn⟩
    obtain ⟨i, j, hi, hj, hr, hq⟩ := (local_iff a r q).mp hloc
    exact Or.inr ⟨i, by rw [hlen]; omega, j, by rw [hrowlen i hi]; omega,
      by simpa [fits] using hr, by simpa [fits] using hq, hn⟩

/-- `fittedOpt cross … e` is the maximum of the affine score over the alignments of all of `q`
    with a segment of `r` that ends just before `e` -/
theorem fittedOpt_isOpt (cross : Bool) (S : Matrix) (o : Int) (r q : List Nat) (e : Nat) (he : e ≤ r.length) :
    IsOpt (fun a => IsFitted a r q e ∧ (cross = true ∨ NoAdj a)) (scoreAff S o)
      (fittedOpt cross S o r q e) := by
  have h := cellBest_isOpt (optRows_ok ⟨cross, true, false⟩ S o r q e q.length he (Nat.le_refl _))
  simp only [List.take_length] at h
  refine isOpt_congr ?_ h
  intro a
  simp only [Adm, fits, if_true, Bool.false_eq_true, if_false, IsFitted, IsGlobal, NoAdj]
  constructor
  · rintro ⟨hr, hq, hn⟩
    refine ⟨⟨(r.take e).length - (projR a).length, ?_, he, ?_, hq⟩, hn⟩
    · have := List.length_take_le e r; omega
    · exact List.suffix_iff_eq_drop.mp hr
  · rintro ⟨⟨i, _, _, hr, hq⟩, hn⟩
    exact ⟨by rw [hr]; exact List.drop_suffix i _, hq, hn⟩

end Biogo.Proofs.AffineOpt
