/-
The loops of `fastq.Reader.Read` and `fasta.Reader.Read` run lazily over the byte-level
`bufio.Reader` model (`Biogo.Go.Bufio.runLazy`: one `ReadLine` at a time, as the Go code does)
compute the line-level reader models of C01–C04.  Core only.
-/
import Biogo.Proofs.BufioLazy
import Biogo.Proofs.Fastq

/-! ## FASTQ -/

namespace Biogo.Fastq
open Biogo.Go.Bytes
open Biogo.Go.Bufio (Reader runLazy runDrained SameCfg Agree)
open Biogo.Spec.Bufio (lineInput)

/-- what one call of `Read` returns: the pair, or a panic -/
abbrev Out := Except Panic Ret

/-- the body of the loop of `fastq.Reader.Read` on a complete line (`bytes.TrimSpace`, then the
    `switch`): go round again with a new state, or return -/
def lazyBody (cfg : Cfg) (st : LoopSt) (raw : Bytes) : LoopSt ⊕ Out :=
  match step cfg st (trimSpace raw) with
  | .error p => .inr (.error p)
  | .ok (.inl st') => .inl st'
  | .ok (.inr ret) => .inr (.ok ret)

/-- `if err != nil { if t != nil && state == quality && err == io.EOF { err = nil; break }; return nil, err }`
    for `io.EOF`, `line` holding the fragments collected so far -/
def lazyAtErr (cfg : Cfg) (st : LoopSt) (line : Bytes) (_e : Biogo.Go.Bufio.Err) : LoopSt ⊕ Out :=
  .inr (if st.t.isSome && st.state == .quality then (finish cfg { st with err := none } line ([], [])).map (·.1)
        else .ok ⟨none, some .eof⟩)

/-- the drained run of the loop is the model's `loop` -/
theorem loop_drained (cfg : Cfg) (pend : Bytes) (lines : List Bytes) : ∀ (st : LoopSt) (fuel : Nat) (ret : Ret)
    (rest : List Bytes) (p : Bytes), lines.length + 1 < fuel → loop cfg pend st lines = .ok (ret, rest, p) →
    runDrained (lazyBody cfg) (lazyAtErr cfg) .eof fuel st lines pend = some (.ok ret, rest, p) := by
  induction lines with
  | nil =>
    intro st fuel ret rest p hf h
    obtain ⟨f, rfl⟩ : ∃ f, fuel = f + 1 := ⟨fuel - 1, by omega⟩
    unfold loop at h
    simp only [runDrained, lazyAtErr]
    by_cases hc : (st.t.isSome && st.state == .quality) = true
    · simp only [hc, if_true] at h ⊢
      rw [finish_rest] at h
      cases hfin : finish cfg { st with err := none } pend ([], []) with
      | error e => rw [hfin] at h; simp [Except.map] at h
      | ok v =>
        rw [hfin] at h
        simp only [Except.map, Except.ok.injEq, Prod.mk.injEq] at h
        obtain ⟨rfl, rfl, rfl⟩ := h
        rfl
    · simp only [hc] at h ⊢
      simp only [pure, Except.pure, Except.ok.injEq, Prod.mk.injEq] at h
      obtain ⟨rfl, rfl, rfl⟩ := h
      rfl
  | cons raw rest0 ih =>
    intro st fuel ret rest p hf h
    obtain ⟨f, rfl⟩ : ∃ f, fuel = f + 1 := ⟨fuel - 1, by omega⟩
    rw [loop_step] at h
    simp only [runDrained, lazyBody]
    cases hs : step cfg st (trimSpace raw) with
    | error e => rw [hs] at h; simp at h
    | ok v =>
      rw [hs] at h
      cases v with
      | inl st' =>
        simp only at h ⊢
        exact ih st' f ret rest p (by simp only [List.length_cons] at hf; omega) h
      | inr r =>
        simp only [Except.ok.injEq, Prod.mk.injEq] at h ⊢
        obtain ⟨rfl, rfl, rfl⟩ := h
        rfl

open Biogo.Go.Bufio (first_lf lineInput_nil lineInput_line lineInput_last) in
theorem lineInput_length_le (size : Nat) (wd : Bool) : ∀ (n : Nat) (bs : Bytes), bs.length = n →
    (lineInput size wd bs).1.length ≤ bs.length := by
  intro n
  induction n using Nat.strongRecOn with
  | _ n ih =>
    intro bs hn
    rcases first_lf bs with hno | ⟨l, post, hbs, hl⟩
    · by_cases hnil : bs = []
      · subst hnil; simp [lineInput_nil]
      · rw [lineInput_last _ _ bs hno hnil]
        have : 0 < bs.length := List.length_pos_iff.mpr hnil
        split <;> simp <;> omega
    · subst hbs
      rw [lineInput_line _ _ l post hl]
      have hlt : post.length < n := by rw [← hn]; simp only [List.length_append, List.length_cons]; omega
      have := ih _ hlt post rfl
      simp only [List.length_cons, List.length_append]
      omega

/-- one call of `fastq.Reader.Read`, the lines pulled from the `bufio.Reader` as the loop goes -/
def readLazy (cfg : Cfg) (b : Reader) : Option (Out × Reader) :=
  runLazy (lazyBody cfg) (lazyAtErr cfg) (b.stream.length + 3) {} b

/-- **One call of `Read`, lazily over the byte-level model, is one call of the model's `read`**
    on the line-level view of the remaining input, and leaves a reader whose remaining input
    is what `read` leaves. -/
theorem readLazy_spec (cfg : Cfg) (b : Reader) (hinv : Biogo.Go.Bufio.Inv b) (hfin : b.src.fin = .eof) :
    ∃ ret rest p b', read cfg (lineInput b.size b.src.withData b.stream).1 (lineInput b.size b.src.withData b.stream).2
        = .ok (ret, rest, p) ∧
      readLazy cfg b = some (.ok ret, b') ∧ Biogo.Go.Bufio.Inv b' ∧ SameCfg b b' ∧
      lineInput b'.size b'.src.withData b'.stream = (rest, p) := by
  obtain ⟨ret, rest, p, hread, _, _⟩ := read_total cfg (lineInput b.size b.src.withData b.stream).1
    (lineInput b.size b.src.withData b.stream).2
  have hlen := lineInput_length_le b.size b.src.withData _ b.stream rfl
  have hd := loop_drained cfg _ _ {} (b.stream.length + 3) ret rest p (by omega) hread
  have ha := Biogo.Go.Bufio.runLazy_drained (lazyBody cfg) (lazyAtErr cfg) (b.stream.length + 3) {} b hinv
  rw [hfin, hd] at ha
  refine ⟨ret, rest, p, ?_⟩
  unfold readLazy
  cases hl : runLazy (lazyBody cfg) (lazyAtErr cfg) (b.stream.length + 3) {} b with
  | none => rw [hl] at ha; exact absurd ha (by simp [Agree])
  | some v =>
    obtain ⟨r, b'⟩ := v
    rw [hl] at ha
    obtain ⟨h1, h2, h3, h4⟩ := ha
    subst h1
    exact ⟨b', hread, rfl, h2, h3, h4⟩

/-- the call history of a reader, every call run lazily over the byte-level model -/
def readAllLazy (cfg : Cfg) : Nat → Reader → List Call
  | 0, _ => [.unfinished]
  | fuel + 1, b =>
    match readLazy cfg b with
    | none => [.unfinished]
    | some (.error p, _) => [.panic p]
    | some (.ok ret, b') => if ret.e = some .eof then [.ret ret] else .ret ret :: readAllLazy cfg fuel b'

/-- **The whole call history, lazily over the byte-level model, is the model's history** on the
    line-level view of the input. -/
theorem readAllLazy_eq (cfg : Cfg) : ∀ (fuel : Nat) (b : Reader), Biogo.Go.Bufio.Inv b → b.src.fin = .eof →
    readAllLazy cfg fuel b = readAllAux cfg fuel (lineInput b.size b.src.withData b.stream).1
      (lineInput b.size b.src.withData b.stream).2 := by
  intro fuel
  induction fuel with
  | zero => intro b _ _; rfl
  | succ f ih =>
    intro b hinv hfin
    obtain ⟨ret, rest, p, b', h1, h2, h3, h4, h5⟩ := readLazy_spec cfg b hinv hfin
    simp only [readAllLazy, readAllAux, h1, h2]
    split
    · rfl
    · rw [ih b' h3 (by rw [h4.2.2.2]; exact hfin), h5]

end Biogo.Fastq

/-! ## FASTA -/

namespace Biogo.Fasta
open Biogo.Go.Bytes
open Biogo.Go.Bufio (Reader runLazy runDrained SameCfg Agree)
open Biogo.Spec.Bufio (lineInput)

/-- what one call of `Read` returns (the pair and the reader's persistent fields), or a panic -/
abbrev Out := Except Panic (Ret × St)

/-- the body of the loop of `fasta.Reader.Read` on a complete line: `bytes.TrimSpace`, blank lines
    skipped, header / sequence / badly formed line -/
def lazyBody (cfg : Cfg) (st : St) (raw : Bytes) : St ⊕ Out :=
  let line := trimSpace raw
  if line.length == 0 then .inl st
  else if hasPrefix line cfg.idPrefix then
    match header cfg line with
    | .error p => .inr (.error p)
    | .ok (w', e') =>
      match st.working with
      | none => .inl { working := some w', err := e' }
      | some w => .inr (.ok (⟨some w.toRec, st.err⟩, deferred { working := some w', err := e' }))
  else if hasPrefix line cfg.seqPrefix then
    match st.working with
    | none => .inr (.ok (⟨none, some (.badLine line)⟩, deferred st))
    | some w =>
      match sliceFrom line cfg.seqPrefix.length with
      | .error p => .inr (.error p)
      | .ok body => .inl { st with working := some { w with letters := w.letters.appendList (removeSpaces body) } }
  else .inr (.ok (⟨none, some (.badLine line)⟩, deferred st))

/-- `ReadLine` returned `io.EOF`: with fragments collected (`len(line) > 0`, fix `02b768f`) they are
    processed as a line; otherwise the pending record, or `io.EOF`, is returned -/
def lazyAtErr (cfg : Cfg) (st : St) (line : Bytes) (_e : Biogo.Go.Bufio.Err) : St ⊕ Out :=
  if line.length == 0 then
    match st.working with
    | none => .inr (.ok (⟨none, some .eof⟩, deferred st))
    | some w => .inr (.ok (⟨some w.toRec, st.err⟩, deferred { st with working := none }))
  else lazyBody cfg st line

/-- one iteration of the model's `read` is `lazyBody` -/
theorem read_step (cfg : Cfg) (st : St) (raw : Bytes) (rest : List Bytes) :
    read cfg st (raw :: rest) =
      (match lazyBody cfg st raw with
       | .inl st' => read cfg st' rest
       | .inr (.ok (ret, st'')) => .ok (ret, st'', rest)
       | .inr (.error p) => .error p) := by
  conv => lhs; unfold read
  unfold lazyBody
  simp only []
  split
  · rfl
  · split
    · cases header cfg (trimSpace raw) with
      | error e => cases st.working <;> simp [bind, Except.bind]
      | ok v => cases st.working <;> simp [bind, Except.bind, pure, Except.pure]
    · split
      · cases st.working with
        | none => simp [pure, Except.pure]
        | some w =>
          cases sliceFrom (trimSpace raw) cfg.seqPrefix.length with
          | error e => simp [bind, Except.bind]
          | ok v => simp [bind, Except.bind]
      · simp [pure, Except.pure]

/-- fragments pending at `io.EOF`, as the line the FASTA reader makes of them -/
def optLine (pend : Bytes) : List Bytes := if pend = [] then [] else [pend]

/-- the drained run of the loop is the model's `read` on the lines followed by the pending
    fragments as a last line -/
theorem read_drained (cfg : Cfg) (pend : Bytes) (lines : List Bytes) : ∀ (st : St) (fuel : Nat) (ret : Ret) (st' : St)
    (rest : List Bytes), lines.length + 2 < fuel → read cfg st (lines ++ optLine pend) = .ok (ret, st', rest) →
    ∃ rest' pend', runDrained (lazyBody cfg) (lazyAtErr cfg) .eof fuel st lines pend = some (.ok (ret, st'), rest', pend') ∧
      rest = rest' ++ optLine pend' := by
  induction lines with
  | nil =>
    intro st fuel ret st' rest hf h
    obtain ⟨f, rfl⟩ : ∃ f, fuel = f + 2 := ⟨fuel - 2, by simp at hf; omega⟩
    by_cases hp : pend = []
    · subst hp
      simp only [optLine, ↓reduceIte, List.append_nil] at h
      unfold read at h
      simp only [runDrained, lazyAtErr, List.length_nil, beq_self_eq_true, ↓reduceIte]
      cases hw : st.working with
      | none =>
        rw [hw] at h; simp only [pure, Except.pure, Except.ok.injEq, Prod.mk.injEq] at h
        obtain ⟨rfl, rfl, rfl⟩ := h
        exact ⟨[], [], rfl, rfl⟩
      | some w =>
        rw [hw] at h; simp only [pure, Except.pure, Except.ok.injEq, Prod.mk.injEq] at h
        obtain ⟨rfl, rfl, rfl⟩ := h
        exact ⟨[], [], rfl, rfl⟩
    · have hl : (pend.length == 0) = false := by
        rw [beq_eq_false_iff_ne]; exact fun h0 => hp (List.eq_nil_of_length_eq_zero h0)
      simp only [optLine, hp, ↓reduceIte, List.nil_append] at h
      rw [read_step] at h
      simp only [runDrained, lazyAtErr, hl, Bool.false_eq_true, ↓reduceIte]
      cases hb : lazyBody cfg st pend with
      | inl st1 =>
        rw [hb] at h
        simp only at h ⊢
        -- the line was consumed without returning: the next `ReadLine` reports `io.EOF` again
        unfold read at h
        simp only [lazyAtErr, List.length_nil, beq_self_eq_true, ↓reduceIte]
        cases hw : st1.working with
        | none =>
          rw [hw] at h; simp only [pure, Except.pure, Except.ok.injEq, Prod.mk.injEq] at h
          obtain ⟨rfl, rfl, rfl⟩ := h
          exact ⟨[], [], rfl, rfl⟩
        | some w =>
          rw [hw] at h; simp only [pure, Except.pure, Except.ok.injEq, Prod.mk.injEq] at h
          obtain ⟨rfl, rfl, rfl⟩ := h
          exact ⟨[], [], rfl, rfl⟩
      | inr o =>
        rw [hb] at h
        cases o with
        | error e => simp at h
        | ok v =>
          obtain ⟨r, s2⟩ := v
          simp only [Except.ok.injEq, Prod.mk.injEq] at h
          obtain ⟨rfl, rfl, rfl⟩ := h
          exact ⟨[], [], rfl, rfl⟩
  | cons raw rest0 ih =>
    intro st fuel ret st' rest hf h
    obtain ⟨f, rfl⟩ : ∃ f, fuel = f + 1 := ⟨fuel - 1, by omega⟩
    rw [List.cons_append, read_step] at h
    simp only [runDrained]
    cases hb : lazyBody cfg st raw with
    | inl st1 =>
      rw [hb] at h
      simp only at h ⊢
      exact ih st1 f ret st' rest (by simp only [List.length_cons] at hf; omega) h
    | inr o =>
      rw [hb] at h
      cases o with
      | error e => simp at h
      | ok v =>
        obtain ⟨r, s2⟩ := v
        simp only [Except.ok.injEq, Prod.mk.injEq] at h
        obtain ⟨rfl, rfl, rfl⟩ := h
        exact ⟨rest0, pend, rfl, rfl⟩

/-- one call of `fasta.Reader.Read`, the lines pulled from the `bufio.Reader` as the loop goes;
    `st` = the fields `working` / `err` that persist between calls -/
def readLazy (cfg : Cfg) (st : St) (b : Reader) : Option (Out × Reader) :=
  runLazy (lazyBody cfg) (lazyAtErr cfg) (b.stream.length + 4) st b

/-- **One call of `Read`, lazily over the byte-level model, is one call of the model's `read`**
    on the lines of the remaining input (fragments pending at `io.EOF` as a last line). -/
theorem readLazy_spec (cfg : Cfg) (st : St) (b : Reader) (hinv : Biogo.Go.Bufio.Inv b) (hfin : b.src.fin = .eof) :
    ∃ ret st' rest b',
      read cfg st ((lineInput b.size b.src.withData b.stream).1 ++ optLine (lineInput b.size b.src.withData b.stream).2)
        = .ok (ret, st', rest) ∧
      readLazy cfg st b = some (.ok (ret, st'), b') ∧ Biogo.Go.Bufio.Inv b' ∧ SameCfg b b' ∧
      rest = (lineInput b'.size b'.src.withData b'.stream).1 ++ optLine (lineInput b'.size b'.src.withData b'.stream).2 := by
  obtain ⟨⟨ret, st', rest⟩, hread⟩ := read_total_cfg cfg
    ((lineInput b.size b.src.withData b.stream).1 ++ optLine (lineInput b.size b.src.withData b.stream).2) st
  have hlen := Biogo.Fastq.lineInput_length_le b.size b.src.withData _ b.stream rfl
  obtain ⟨rest', pend', hd, hrest⟩ := read_drained cfg _ _ st (b.stream.length + 4) ret st' rest (by omega) hread
  have ha := Biogo.Go.Bufio.runLazy_drained (lazyBody cfg) (lazyAtErr cfg) (b.stream.length + 4) st b hinv
  rw [hfin, hd] at ha
  refine ⟨ret, st', rest, ?_⟩
  unfold readLazy
  cases hl : runLazy (lazyBody cfg) (lazyAtErr cfg) (b.stream.length + 4) st b with
  | none => rw [hl] at ha; exact absurd ha (by simp [Agree])
  | some v =>
    obtain ⟨r, b'⟩ := v
    rw [hl] at ha
    obtain ⟨h1, h2, h3, h4⟩ := ha
    subst h1
    exact ⟨b', hread, rfl, h2, h3, by rw [h4]; exact hrest⟩

/-- the call history of a reader, every call run lazily over the byte-level model -/
def readAllLazy (cfg : Cfg) : Nat → St → Reader → List Call
  | 0, _, _ => [.unfinished]
  | fuel + 1, st, b =>
    match readLazy cfg st b with
    | none => [.unfinished]
    | some (.error p, _) => [.panic p]
    | some (.ok (ret, st'), b') => if ret.e = some .eof then [.ret ret] else .ret ret :: readAllLazy cfg fuel st' b'

/-- **The whole call history, lazily over the byte-level model, is the model's history.** -/
theorem readAllLazy_eq (cfg : Cfg) : ∀ (fuel : Nat) (st : St) (b : Reader), Biogo.Go.Bufio.Inv b → b.src.fin = .eof →
    readAllLazy cfg fuel st b = readAllAux cfg fuel st
      ((lineInput b.size b.src.withData b.stream).1 ++ optLine (lineInput b.size b.src.withData b.stream).2) := by
  intro fuel
  induction fuel with
  | zero => intro st b _ _; rfl
  | succ f ih =>
    intro st b hinv hfin
    obtain ⟨ret, st', rest, b', h1, h2, h3, h4, h5⟩ := readLazy_spec cfg st b hinv hfin
    simp only [readAllLazy, readAllAux, h1, h2]
    split
    · rfl
    · rw [ih st' b' h3 (by rw [h4.2.2.2]; exact hfin), h5]

end Biogo.Fasta
