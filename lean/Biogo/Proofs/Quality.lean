/-
Helper lemmas for C18: the order on exact probabilities is transitive, so a table whose
adjacent entries are ordered is ordered between any two positions.  Core-only.
-/
import Biogo.Model.Quality
import Biogo.Spec.Quality

namespace Biogo.Quality

theorem frac_le_trans {a b c x y z : Nat} (hy : 0 < y)
    (h1 : a * y ≤ b * x) (h2 : b * z ≤ c * y) : a * z ≤ c * x := by
  have h3 : a * z * y ≤ c * x * y := by
    calc a * z * y = a * y * z := Nat.mul_right_comm a z y
      _ ≤ b * x * z := Nat.mul_le_mul_right z h1
      _ = b * z * x := Nat.mul_right_comm b x z
      _ ≤ c * y * x := Nat.mul_le_mul_right x h2
      _ = c * x * y := Nat.mul_right_comm c y x
  exact Nat.le_of_mul_le_mul_right h3 hy

theorem Prob.le_trans {a b c : Prob} (h1 : a.le b = true) (h2 : b.le c = true) : a.le c = true := by
  cases a <;> cases b <;> cases c <;> simp only [Prob.le, decide_eq_true_eq] at * <;> try contradiction
  rename_i m1 k1 m2 k2 m3 k3
  exact frac_le_trans (Nat.pow_pos (by decide)) h1 h2

/-- every entry is at most the one before it -/
def adjacentLe : List Prob → Bool
  | a :: b :: rest => Prob.le b a && adjacentLe (b :: rest)
  | _ => true

theorem adjacentLe_head {a : Prob} {l : List Prob} (h : adjacentLe (a :: l) = true) :
    ∀ x ∈ l, Prob.le x a = true := by
  induction l generalizing a with
  | nil => intro x hx; cases hx
  | cons b rest ih =>
    simp only [adjacentLe, Bool.and_eq_true] at h
    intro x hx
    cases hx with
    | head => exact h.1
    | tail _ hx => exact Prob.le_trans (ih h.2 x hx) h.1

theorem adjacentLe_pairwise {l : List Prob} (h : adjacentLe l = true) :
    l.Pairwise (fun a b => Prob.le b a = true) := by
  induction l with
  | nil => exact List.Pairwise.nil
  | cons a rest ih =>
    refine List.Pairwise.cons (adjacentLe_head h) (ih ?_)
    cases rest with
    | nil => rfl
    | cons b r => simp only [adjacentLe, Bool.and_eq_true] at h; exact h.2

/-- a table with ordered adjacent entries is antitone between any two positions -/
theorem adjacentLe_getD {l : List Prob} (h : adjacentLe l = true) {i j : Nat} (hij : i < j)
    (hj : j < l.length) : Prob.le (l.getD j .bad) (l.getD i .bad) = true := by
  have hp := List.pairwise_iff_getElem.mp (adjacentLe_pairwise h) i j (by omega) hj hij
  simpa [List.getD, List.getElem?_eq_getElem hj, List.getElem?_eq_getElem (show i < l.length by omega)] using hp

theorem getD_take' {α} (l : List α) (n j : Nat) (d : α) (h : j < n) :
    (l.take n).getD j d = l.getD j d := by
  simp [List.getD_eq_getElem?_getD, h]

theorem getD_drop' {α} (l : List α) (n j : Nat) (d : α) :
    (l.drop n).getD j d = l.getD (n + j) d := by
  simp [List.getD_eq_getElem?_getD, List.getElem?_drop]

/-- table index of a Phred score -/
theorem phred_index (q : Nat) (h : q < 256) : (UInt8.ofNat q).toNat = q := by
  simp [UInt8.toNat_ofNat']; omega

/-- table index of the Solexa score `n - 128` is `n` -/
theorem solexa_index (n : Nat) (h : n < 256) :
    ((Int8.ofInt ((n : Int) - 128)).toInt + 128).toNat = n := by
  have : (Int8.ofInt ((n : Int) - 128)).toInt = (n : Int) - 128 := by
    rw [Int8.toInt_ofInt]
    simp only [Int8.size, Int.bmod]
    omega
  rw [this]; omega

end Biogo.Quality
