/-
Helper lemmas for C20 (gene model): sorting, the heap of backing arrays, `Add`.  Core-only.
-/
import Biogo.Model.Gene
import Biogo.Spec.Gene

namespace Biogo.Proofs.Gene
open Biogo.Gene Biogo.Spec.Gene

/-! ### what is assumed of `sort.Sort`: a permutation sorted by `Start` -/

def SortedByStart (l : List Exon) : Prop := l.Pairwise (fun a b => a.start ≤ b.start)

structure SortSpec (sort : List Exon → List Exon) : Prop where
  perm : ∀ l, (sort l).Perm l
  sorted : ∀ l, SortedByStart (sort l)

theorem SortSpec.length {sort} (hs : SortSpec sort) (l : List Exon) : (sort l).length = l.length :=
  (hs.perm l).length_eq

theorem insertByStart_perm (e : Exon) (l : List Exon) : (insertByStart e l).Perm (e :: l) := by
  induction l with
  | nil => exact List.Perm.refl _
  | cons x xs ih =>
    unfold insertByStart
    split
    · exact List.Perm.refl _
    · exact (List.Perm.cons x ih).trans (List.Perm.swap e x xs)

theorem insertByStart_sorted (e : Exon) (l : List Exon) (h : SortedByStart l) :
    SortedByStart (insertByStart e l) := by
  induction l with
  | nil => simp [insertByStart, SortedByStart]
  | cons x xs ih =>
    unfold insertByStart
    have hx := List.pairwise_cons.mp h
    split
    · rename_i hle
      refine List.pairwise_cons.mpr ⟨?_, h⟩
      intro b hb
      rcases List.mem_cons.mp hb with rfl | hb
      · exact hle
      · exact Int.le_trans hle (hx.1 b hb)
    · rename_i hle
      refine List.pairwise_cons.mpr ⟨?_, ih hx.2⟩
      intro b hb
      have := (insertByStart_perm e xs).mem_iff.mp hb
      rcases List.mem_cons.mp this with rfl | hb'
      · omega
      · exact hx.1 b hb'

theorem sortByStart_perm (l : List Exon) : (sortByStart l).Perm l := by
  induction l with
  | nil => exact List.Perm.refl _
  | cons e l ih =>
    exact (insertByStart_perm e _).trans (List.Perm.cons e ih)

theorem sortByStart_sorted (l : List Exon) : SortedByStart (sortByStart l) := by
  induction l with
  | nil => simp [sortByStart, SortedByStart]
  | cons e l ih => exact insertByStart_sorted e _ ih

theorem sortByStart_spec : SortSpec sortByStart := ⟨sortByStart_perm, sortByStart_sorted⟩

/-! ### the heap -/


theorem arr_append_lt (h : Heap) (x : List Exon) (a : Nat) (ha : a < h.length) :
    Heap.arr (h ++ [x]) a = Heap.arr h a := by
  simp [Heap.arr, List.getD_eq_getElem?_getD, List.getElem?_append_left ha]

theorem arr_append_eq (h : Heap) (x : List Exon) : Heap.arr (h ++ [x]) h.length = x := by
  simp [Heap.arr, List.getD_eq_getElem?_getD]

theorem arr_set_ne (h : Heap) (a b : Nat) (v : List Exon) (hab : a ≠ b) :
    Heap.arr (h.set a v) b = Heap.arr h b := by
  simp [Heap.arr, List.getD_eq_getElem?_getD, List.getElem?_set_ne hab]

theorem set_append_last (h : Heap) (x v : List Exon) : (h ++ [x]).set h.length v = h ++ [v] := by
  induction h with
  | nil => rfl
  | cons y ys ih => simp [ih]

/-- `s` is a slice of heap `h`: its array exists and offset + length is within it -/
structure WF (h : Heap) (s : Slice) : Prop where
  arr_lt : s.arr < h.length
  fits : s.off + s.len ≤ (Heap.arr h s.arr).length

theorem read_length {h : Heap} {s : Slice} (w : WF h s) : (read h s).length = s.len := by
  have := w.fits
  simp [Biogo.Gene.read, cells, List.length_take, List.length_drop]
  omega

theorem writeAt_last (h : Heap) (x : List Exon) (i : Nat) (xs : List Exon) :
    writeAt (h ++ [x]) h.length i xs = h ++ [x.take i ++ xs ++ x.drop (i + xs.length)] := by
  simp only [writeAt, arr_append_eq, set_append_last]

theorem read_append_heap (h : Heap) (x : List Exon) (s : Slice) (hs : s.arr < h.length) :
    read (h ++ [x]) s = read h s := by
  simp [Biogo.Gene.read, cells, arr_append_lt h x s.arr hs]

theorem cells_append_heap (h : Heap) (x : List Exon) (s : Slice) (hs : s.arr < h.length) :
    cells (h ++ [x]) s = cells h s := by
  simp [cells, arr_append_lt h x s.arr hs]

/-- what `Add` needs of its receiver: reading it gives `len` elements, and allocating a new
    array does not change what is read -/
structure Readable (h : Heap) (s : Slice) : Prop where
  len : (read h s).length = s.len
  stable : ∀ x, read (h ++ [x]) s = read h s

theorem WF.readable {h : Heap} {s : Slice} (w : WF h s) : Readable h s :=
  ⟨read_length w, fun x => read_append_heap h x s w.arr_lt⟩

/-- an empty slice (in particular the nil slice) is readable in every heap -/
theorem readable_of_len_zero (h : Heap) (s : Slice) (hs : s.len = 0) : Readable h s :=
  ⟨by simp [Biogo.Gene.read, hs], fun x => by simp [Biogo.Gene.read, hs]⟩

/-- The heap part of `Add` (make, copy, append, sort) leaves the heap as it was plus one new
    array that holds the sorted union. -/
theorem addWith_eq (grow : Nat → Nat → Nat) (sort : List Exon → List Exon)
    (hlen : ∀ l, (sort l).length = l.length)
    (h : Heap) (s : Slice) (xs : List Exon) (w : Readable h s) :
    addWith grow sort h s xs =
      addChecks (h ++ [sort (read h s ++ xs)]) s ⟨h.length, 0, s.len + xs.length⟩ := by
  have hold : (read h s).length = s.len := w.len
  unfold addWith goMake goCopy goAppend goSort
  simp only []
  -- copy
  have e1 : read (h ++ [List.replicate (s.len + xs.length) zeroExon]) s = read h s :=
    w.stable _
  rw [e1]
  generalize read h s = old at hold ⊢
  clear e1
  have e2 : (old).take s.len = old := by
    rw [← hold]; exact List.take_length
  rw [e2, writeAt_last]
  have e3 : (List.replicate (s.len + xs.length) zeroExon).take 0 ++ old ++
      (List.replicate (s.len + xs.length) zeroExon).drop (0 + (old).length)
      = old ++ List.replicate xs.length zeroExon := by
    simp [hold]
  rw [e3]
  -- append: fits
  have e4 : cap (h ++ [old ++ List.replicate xs.length zeroExon]) ⟨h.length, 0, s.len⟩
      = s.len + xs.length := by
    simp [cap, cells, arr_append_eq, hold]
  simp only [e4, Nat.le_refl, if_true]
  rw [writeAt_last]
  have e5 : (old ++ List.replicate xs.length zeroExon).take (0 + s.len) ++ xs ++
      (old ++ List.replicate xs.length zeroExon).drop (0 + s.len + xs.length)
      = old ++ xs := by
    have : (old ++ List.replicate xs.length zeroExon).take (0 + s.len) = old := by
      rw [Nat.zero_add, ← hold]; simp
    rw [this]
    have : (old ++ List.replicate xs.length zeroExon).drop (0 + s.len + xs.length) = [] := by
      apply List.drop_eq_nil_of_le; simp [hold]
    rw [this]; simp
  rw [e5]
  -- sort
  have e6 : read (h ++ [old ++ xs]) ⟨h.length, 0, s.len + xs.length⟩ = old ++ xs := by
    simp only [Biogo.Gene.read, cells, arr_append_eq, List.drop_zero]
    apply List.take_of_length_le; simp [hold]
  rw [e6, writeAt_last]
  have e7 : (old ++ xs).take 0 ++ sort (old ++ xs) ++
      (old ++ xs).drop (0 + (sort (old ++ xs)).length) = sort (old ++ xs) := by
    rw [hlen]; simp
  rw [e7]


theorem read_new (h : Heap) (new : List Exon) (n : Nat) (hn : new.length = n) :
    read (h ++ [new]) ⟨h.length, 0, n⟩ = new := by
  simp only [Biogo.Gene.read, cells, arr_append_eq, List.drop_zero]
  apply List.take_of_length_le; omega

/-- `Add`, all cases, in terms of lists: `new` is the sorted union. -/
theorem addWith_cases (grow : Nat → Nat → Nat) (sort : List Exon → List Exon)
    (hlen : ∀ l, (sort l).length = l.length)
    (h : Heap) (s : Slice) (xs : List Exon) (w : Readable h s) :
    addWith grow sort h s xs =
      (match checkSorted (sort (read h s ++ xs)) with
       | some e => (h ++ [sort (read h s ++ xs)], s, some e)
       | none =>
         if locOf (read h s) ≠ 0 ∧ locOf (read h s) ≠ locOf (sort (read h s ++ xs)) then
           (h ++ [sort (read h s ++ xs)], s, some .newLocDiffer)
         else (h ++ [sort (read h s ++ xs)], ⟨h.length, 0, s.len + xs.length⟩, none)) := by
  rw [addWith_eq grow sort hlen h s xs w]
  unfold addChecks
  have hn : (sort (read h s ++ xs)).length = s.len + xs.length := by
    rw [hlen, List.length_append, w.len]
  rw [read_new h _ _ hn, w.stable]
  cases checkSorted (sort (read h s ++ xs)) <;> rfl

/-! ### frame -/

/-- `h'` has all arrays of `h` below index `n` unchanged (and no array was removed) -/
def Keeps (n : Nat) (h h' : Heap) : Prop := h.length ≤ h'.length ∧ ∀ a < n, Heap.arr h' a = Heap.arr h a

theorem Keeps.refl (n : Nat) (h : Heap) : Keeps n h h := ⟨Nat.le_refl _, fun _ _ => rfl⟩

theorem Keeps.trans {n : Nat} {h1 h2 h3 : Heap} (a : Keeps n h1 h2) (b : Keeps n h2 h3) : Keeps n h1 h3 :=
  ⟨Nat.le_trans a.1 b.1, fun x hx => (b.2 x hx).trans (a.2 x hx)⟩

theorem keeps_writeAt (n : Nat) (h : Heap) (a i : Nat) (xs : List Exon) (ha : n ≤ a) :
    Keeps n h (writeAt h a i xs) := by
  refine ⟨by simp [writeAt], fun b hb => ?_⟩
  exact arr_set_ne h a b _ (by omega)

theorem keeps_append (n : Nat) (h : Heap) (x : List Exon) (hn : n ≤ h.length) : Keeps n h (h ++ [x]) :=
  ⟨by simp, fun a ha => arr_append_lt h x a (by omega)⟩

theorem addChecks_heap (h : Heap) (s ns : Slice) : (addChecks h s ns).1 = h := by
  unfold addChecks; split
  · rfl
  · split <;> rfl

theorem keeps_goAppend (grow : Nat → Nat → Nat) (n : Nat) (h : Heap) (s : Slice) (xs : List Exon)
    (hn : n ≤ h.length) (hs : n ≤ s.arr) :
    Keeps n h (goAppend grow h s xs).1 ∧ n ≤ (goAppend grow h s xs).2.arr := by
  unfold goAppend; split
  · exact ⟨keeps_writeAt n h _ _ _ hs, hs⟩
  · exact ⟨keeps_append n h _ hn, hn⟩

/-- `Add` writes to no array that existed before the call — whatever the receiver's capacity,
    the growth policy or the sorting function. -/
theorem addWith_keeps (grow : Nat → Nat → Nat) (sort : List Exon → List Exon) (h : Heap) (s : Slice)
    (xs : List Exon) : Keeps h.length h (addWith grow sort h s xs).1 := by
  unfold addWith goMake goCopy goSort
  simp only [addChecks_heap]
  have k1 : Keeps h.length h (h ++ [List.replicate (s.len + xs.length) zeroExon]) :=
    keeps_append _ _ _ (Nat.le_refl _)
  refine k1.trans ?_
  have k2 := keeps_writeAt h.length (h ++ [List.replicate (s.len + xs.length) zeroExon]) h.length 0
    ((read (h ++ [List.replicate (s.len + xs.length) zeroExon]) s).take s.len) (Nat.le_refl _)
  refine k2.trans ?_
  have k3 := keeps_goAppend grow h.length _ ⟨h.length, 0, s.len⟩ xs
    (Nat.le_trans k1.1 k2.1) (Nat.le_refl _)
  refine k3.1.trans ?_
  exact keeps_writeAt _ _ _ _ _ k3.2


/-! ### the checks of `Add` -/

theorem checkAdj_none_cons {p e : Exon} {rest : List Exon} (h : checkAdj p (e :: rest) = none) :
    p.stop ≤ e.start ∧ e.loc = p.loc ∧ checkAdj e rest = none := by
  unfold checkAdj at h
  split at h
  · cases h
  · split at h
    · cases h
    · rename_i h1 h2
      exact ⟨by omega, by simpa using h2, h⟩

theorem sortedDisjoint_of_check : ∀ (p : Exon) (l : List Exon),
    SortedByStart (p :: l) → checkAdj p l = none → sortedDisjoint (p :: l) = true
  | _, [], _, _ => rfl
  | p, e :: rest, hs, hc => by
    have ⟨h1, h2, h3⟩ := checkAdj_none_cons hc
    have hs' := List.pairwise_cons.mp hs
    have ih := sortedDisjoint_of_check e rest hs'.2 h3
    have := hs'.1 e (List.mem_cons_self ..)
    simp [sortedDisjoint, adjOK, ih, h1, h2, this]

theorem sortedDisjoint_of_checkSorted (l : List Exon) (hs : SortedByStart l)
    (hc : checkSorted l = none) : sortedDisjoint l = true := by
  cases l with
  | nil => rfl
  | cons p l => exact sortedDisjoint_of_check p l hs hc

/-- The pairwise reading of `sortedDisjoint`: every earlier exon starts no later than, ends no
    later than the start of, and shares the location of every later exon. -/
def Disjoint (l : List Exon) : Prop :=
  l.Pairwise (fun a b => a.start ≤ b.start ∧ a.stop ≤ b.start ∧ a.loc = b.loc)

theorem disjoint_of_sortedDisjoint : ∀ (l : List Exon), sortedDisjoint l = true → Disjoint l
  | [], _ => List.Pairwise.nil
  | [_], _ => List.pairwise_singleton _ _
  | a :: b :: rest, h => by
    simp only [sortedDisjoint, adjOK, Bool.and_eq_true, decide_eq_true_eq] at h
    obtain ⟨⟨⟨h1, h2⟩, h3⟩, h4⟩ := h
    have ih := disjoint_of_sortedDisjoint (b :: rest) h4
    have ih' := List.pairwise_cons.mp ih
    refine List.pairwise_cons.mpr ⟨?_, ih⟩
    intro c hc
    rcases List.mem_cons.mp hc with rfl | hc
    · exact ⟨h1, h2, h3⟩
    · have := ih'.1 c hc
      exact ⟨by omega, by omega, h3.trans this.2.2⟩

theorem sortedDisjoint_loc : ∀ (a : Exon) (l : List Exon), sortedDisjoint (a :: l) = true →
    ∀ e ∈ a :: l, e.loc = a.loc := by
  intro a l h e he
  have := disjoint_of_sortedDisjoint _ h
  rcases List.mem_cons.mp he with rfl | he
  · rfl
  · exact ((List.pairwise_cons.mp this).1 e he).2.2.symm

/-! ### introns and tiling -/

theorem introns_length : ∀ (e : Exon) (l : List Exon), (introns (e :: l)).length = l.length
  | _, [] => rfl
  | _, b :: rest => by simp [introns, introns_length b rest]

theorem alternate_introns (es : List Exon) : alternate es (introns es) = true := by
  cases es with
  | nil => rfl
  | cons e l => simp [alternate, introns_length]

theorem intronsFit_introns : ∀ (es : List Exon), intronsFit es (introns es) = true
  | [] => rfl
  | [_] => rfl
  | a :: b :: rest => by
    have ih := intronsFit_introns (b :: rest)
    simp only [introns, intronsFit, ih, Bool.and_true, Bool.and_eq_true, decide_eq_true_eq]
    refine ⟨⟨trivial, ?_⟩, trivial⟩
    show a.stop + (b.start - a.stop) = b.start
    omega

theorem endOf_cons_cons (a b : Exon) (rest : List Exon) : endOf (a :: b :: rest) = endOf (b :: rest) := rfl

/-- exons and introns, interleaved, tile `[Start of first exon, End of last exon)` exactly -/
theorem tiles_interleave : ∀ (e : Exon) (l : List Exon), sortedDisjoint (e :: l) = true →
    nonNeg (e :: l) = true → tiles e.start (endOf (e :: l)) (interleave (e :: l) (introns (e :: l))) = true
  | e, [], _, hn => by
    simp only [nonNeg, List.all_cons, List.all_nil, Bool.and_true, decide_eq_true_eq] at hn
    simp only [introns, interleave, tiles, endOf, Exon.stop, decide_true, Bool.and_true, Bool.true_and,
      decide_eq_true_eq]
    omega
  | a, b :: rest, hd, hn => by
    simp only [sortedDisjoint, adjOK, Bool.and_eq_true, decide_eq_true_eq] at hd
    obtain ⟨⟨⟨_, h2⟩, _⟩, h4⟩ := hd
    have hn' : nonNeg (b :: rest) = true := by
      simp only [nonNeg, List.all_cons, Bool.and_eq_true] at hn ⊢; exact hn.2
    have ha : 0 ≤ a.len := by
      simp only [nonNeg, List.all_cons, Bool.and_eq_true, decide_eq_true_eq] at hn; exact hn.1
    have ih := tiles_interleave b rest h4 hn'
    simp only [introns, interleave, tiles, endOf_cons_cons, Intron.stop, decide_true, Bool.true_and,
      Bool.and_eq_true, decide_eq_true_eq]
    refine ⟨by simp only [Exon.stop]; omega, by simp only [Exon.stop] at h2 ⊢; omega, ?_⟩
    have : a.stop + (b.start - a.stop) = b.start := by omega
    rw [this]; exact ih

theorem tiles_le : ∀ (a b : Int) (ps : List Piece), tiles a b ps = true → a ≤ b
  | a, b, [], h => by simp only [tiles, decide_eq_true_eq] at h; omega
  | a, b, x :: rest, h => by
    simp only [tiles, Bool.and_eq_true, decide_eq_true_eq] at h
    have := tiles_le x.2 b rest h.2
    omega

/-- an exact tiling covers every position of `[a, b)` exactly once and nothing outside -/
theorem tiles_cover : ∀ (a b : Int) (ps : List Piece), tiles a b ps = true →
    ∀ p, cover ps p = if a ≤ p ∧ p < b then 1 else 0
  | a, b, [], h, p => by
    simp only [tiles, decide_eq_true_eq] at h
    have : ¬ (a ≤ p ∧ p < b) := by omega
    simp [cover, this]
  | a, b, x :: rest, h, p => by
    simp only [tiles, Bool.and_eq_true, decide_eq_true_eq] at h
    obtain ⟨⟨h1, h2⟩, h3⟩ := h
    have ih := tiles_cover x.2 b rest h3 p
    have hle := tiles_le x.2 b rest h3
    simp only [cover] at ih ⊢
    by_cases hx : x.has p = true
    · have hx' := hx
      simp only [Piece.has, Bool.and_eq_true, decide_eq_true_eq] at hx'
      simp only [List.filter_cons, hx, if_true, List.length_cons, ih]
      have c1 : ¬ (x.2 ≤ p ∧ p < b) := by omega
      have c2 : a ≤ p ∧ p < b := by omega
      rw [if_neg c1, if_pos c2]
    · have hx' := hx
      simp only [Piece.has, Bool.and_eq_true, decide_eq_true_eq, not_and] at hx'
      simp only [List.filter_cons, hx, Bool.false_eq_true, if_false, ih]
      by_cases c : x.2 ≤ p ∧ p < b
      · have c2 : a ≤ p ∧ p < b := by omega
        simp [c, c2]
      · have c2 : ¬ (a ≤ p ∧ p < b) := by
          intro hc; apply c; refine ⟨?_, hc.2⟩
          by_cases hp : x.1 ≤ p
          · have := hx' hp; omega
          · omega
        simp [c, c2]

theorem tiles_abuts : ∀ (a b : Int) (ps : List Piece), tiles a b ps = true → abuts a b ps = true
  | _, _, [], h => h
  | a, b, x :: rest, h => by
    simp only [tiles, abuts, Bool.and_eq_true] at h ⊢
    exact ⟨h.1.1, tiles_abuts _ _ _ h.2⟩

theorem addWith_is_addChecks (grow : Nat → Nat → Nat) (sort : List Exon → List Exon) (h : Heap) (s : Slice)
    (xs : List Exon) : ∃ h4 ns, addWith grow sort h s xs = addChecks h4 s ns := by
  unfold addWith goMake
  simp only []
  generalize goAppend grow _ _ xs = p
  obtain ⟨h3, ns⟩ := p
  exact ⟨_, _, rfl⟩

theorem addChecks_err {h : Heap} {s ns : Slice} {h' : Heap} {r : Slice} {e : Err}
    (hc : addChecks h s ns = (h', r, some e)) : r = s := by
  unfold addChecks at hc
  split at hc
  · cases hc; rfl
  · split at hc
    · cases hc; rfl
    · cases hc

/-- on error `Add` returns the receiver -/
theorem addWith_err_slice {grow : Nat → Nat → Nat} {sort : List Exon → List Exon} {h : Heap} {s : Slice}
    {xs : List Exon} {h' : Heap} {r : Slice} {e : Err}
    (hc : addWith grow sort h s xs = (h', r, some e)) : r = s := by
  obtain ⟨h4, ns, heq⟩ := addWith_is_addChecks grow sort h s xs
  rw [heq] at hc
  exact addChecks_err hc

theorem cells_of_keeps {n : Nat} {h h' : Heap} (k : Keeps n h h') (s : Slice) (hs : s.arr < n) :
    cells h' s = cells h s := by
  simp only [cells, k.2 s.arr hs]

theorem read_of_keeps {n : Nat} {h h' : Heap} (k : Keeps n h h') (s : Slice) (hs : s.arr < n) :
    read h' s = read h s := by
  simp only [Biogo.Gene.read, cells_of_keeps k s hs]

/-! ### buildExonsFor / SetExons -/

theorem buildExonsFor_heap (grow : Nat → Nat → Nat) (sort : List Exon → List Exon) (h : Heap) (tid : Nat)
    (xs : List Exon) : (buildExonsForWith grow sort h tid xs).1 = (addWith grow sort h Slice.nil xs).1 := by
  unfold buildExonsForWith
  generalize addWith grow sort h Slice.nil xs = p
  obtain ⟨h1, ns, e⟩ := p
  cases e with
  | some e => rfl
  | none => simp only []; split <;> (try split) <;> rfl

theorem setExons_heap (grow : Nat → Nat → Nat) (sort : List Exon → List Exon) (h : Heap) (t : Tx)
    (xs : List Exon) : (setExonsWith grow sort h t xs).1 = (addWith grow sort h Slice.nil xs).1 := by
  rw [← buildExonsFor_heap grow sort h t.id xs]
  unfold setExonsWith
  generalize buildExonsForWith grow sort h t.id xs = p
  obtain ⟨h1, ns, e⟩ := p
  cases e <;> rfl

theorem setExons_keeps (grow : Nat → Nat → Nat) (sort : List Exon → List Exon) (h : Heap) (t : Tx)
    (xs : List Exon) : Keeps h.length h (setExonsWith grow sort h t xs).1 := by
  rw [setExons_heap]; exact addWith_keeps grow sort h Slice.nil xs

theorem setExons_err {grow : Nat → Nat → Nat} {sort : List Exon → List Exon} {h : Heap} {t : Tx}
    {xs : List Exon} {h' : Heap} {t' : Tx} {e : Err}
    (hc : setExonsWith grow sort h t xs = (h', t', some e)) : t' = t := by
  unfold setExonsWith at hc
  generalize buildExonsForWith grow sort h t.id xs = p at hc
  obtain ⟨h1, ns, e1⟩ := p
  cases e1 with
  | some e1 => simp only [] at hc; cases hc; rfl
  | none => simp only [] at hc; cases hc

/-- what an accepted `SetExons` stores, in terms of lists -/
theorem setExons_ok {grow : Nat → Nat → Nat} {sort : List Exon → List Exon} (hsort : SortSpec sort)
    {h : Heap} {t : Tx} {xs : List Exon} {h' : Heap} {t' : Tx}
    (hc : setExonsWith grow sort h t xs = (h', t', none)) :
    t'.id = t.id ∧ read h' t'.exons = sort xs ∧ checkSorted (sort xs) = none ∧
      locOf (sort xs) = t.id ∧ startOf (sort xs) = 0 ∧
      h' = h ++ [sort xs] ∧ t'.exons = ⟨h.length, 0, xs.length⟩ := by
  unfold setExonsWith buildExonsForWith at hc
  rw [addWith_cases grow sort hsort.length h Slice.nil xs (readable_of_len_zero h _ rfl)] at hc
  have hnil : read h Slice.nil = [] := by simp [Biogo.Gene.read, Slice.nil]
  rw [hnil, List.nil_append] at hc
  cases hcs : checkSorted (sort xs) with
  | some e => rw [hcs] at hc; simp only [] at hc; cases hc
  | none =>
    rw [hcs] at hc
    have h0 : locOf ([] : List Exon) = 0 := rfl
    simp only [h0, ne_eq, not_true_eq_false, false_and, if_false] at hc
    have hn : (sort xs).length = Slice.nil.len + xs.length := by
      rw [hsort.length]; simp [Slice.nil]
    rw [read_new h _ _ hn] at hc
    by_cases h1 : locOf (sort xs) = t.id
    · by_cases h2 : startOf (sort xs) = 0
      · simp only [h1, h2, not_true_eq_false, if_false, Prod.mk.injEq] at hc
        obtain ⟨rfl, rfl, _⟩ := hc
        exact ⟨rfl, read_new h _ _ hn, rfl, h1, h2, rfl, by simp [Slice.nil]⟩
      · simp only [h1, h2, not_true_eq_false, not_false_eq_true, if_false, if_true] at hc
        cases hc
    · simp only [h1, not_false_eq_true, if_true] at hc
      cases hc

/-! ### histories keep slices well-formed -/

theorem WF.append {h : Heap} {s : Slice} (w : WF h s) (x : List Exon) : WF (h ++ [x]) s :=
  ⟨by have := w.arr_lt; simp; omega, by rw [arr_append_lt h x s.arr w.arr_lt]; exact w.fits⟩

theorem WF.new (h : Heap) (new : List Exon) (n : Nat) (hn : new.length = n) :
    WF (h ++ [new]) ⟨h.length, 0, n⟩ :=
  ⟨by simp, by simp [arr_append_eq, hn]⟩

/-- a slice stays well-formed when the heap only gains arrays and its own array is kept -/
theorem WF.of_keeps {h h' : Heap} {s : Slice} (w : WF h s) (k : Keeps h.length h h') : WF h' s :=
  ⟨Nat.lt_of_lt_of_le w.arr_lt k.1, by rw [k.2 _ w.arr_lt]; exact w.fits⟩

/-- `s[:min(j, cap(s))]` of a well-formed slice is well-formed (same array, same offset) -/
theorem resliceTo_wf {h : Heap} {s : Slice} (w : WF h s) (j : Nat) : WF h (resliceTo h s j) := by
  refine ⟨w.arr_lt, ?_⟩
  have := w.fits
  simp only [resliceTo, cap, cells, List.length_drop]
  omega

/-- after `Add` (driver instance) both the receiver and the returned slice are well-formed -/
theorem add_wf {h : Heap} {s : Slice} (w : WF h s) (xs : List Exon) :
    WF (add h s xs).1 s ∧ WF (add h s xs).1 (add h s xs).2.1 := by
  unfold add
  rw [addWith_cases exactGrow sortByStart sortByStart_spec.length h s xs w.readable]
  have hn : (sortByStart (read h s ++ xs)).length = s.len + xs.length := by
    rw [sortByStart_spec.length, List.length_append, w.readable.len]
  cases checkSorted (sortByStart (read h s ++ xs)) with
  | some e => exact ⟨w.append _, w.append _⟩
  | none =>
    simp only []
    split
    · exact ⟨w.append _, w.append _⟩
    · exact ⟨w.append _, WF.new h _ _ hn⟩

theorem xsApply_wf {st : Heap × Slice} (w : WF st.1 st.2) (op : XsOp) :
    WF (xsApply st op).1 (xsApply st op).2 := by
  cases op with
  | add xs keep =>
    have := add_wf w xs
    simp only [xsApply]
    generalize add st.1 st.2 xs = p at this
    obtain ⟨h', r, e⟩ := p
    cases keep
    · exact this.1
    · exact this.2
  | upTo j =>
    refine ⟨w.arr_lt, ?_⟩
    have := w.fits
    simp only [xsApply, cap, cells, List.length_drop]
    omega
  | drop j =>
    refine ⟨w.arr_lt, ?_⟩
    have := w.fits
    simp only [xsApply]
    omega

theorem xsInit_wf (n : Nat) (cells0 : List Exon) (hn : n ≤ cells0.length) :
    WF (xsInit n cells0).1 (xsInit n cells0).2 :=
  ⟨by simp [xsInit, Heap.init], by simp [xsInit, Heap.init, Heap.arr]; exact hn⟩

theorem xsRun_wf {st : Heap × Slice} (w : WF st.1 st.2) (ops : List XsOp) :
    WF (xsRun st ops).1 (xsRun st ops).2 := by
  induction ops generalizing st with
  | nil => exact w
  | cons op ops ih => exact ih (xsApply_wf w op)

/-- histories with `held`: both `s` and `held` are slices of the heap -/
theorem xhApply_wf {st : (Heap × Slice) × Slice} (w : WF st.1.1 st.1.2) (wh : st.2.arr < st.1.1.length)
    (op : XhOp) : WF (xhApply st op).1.1 (xhApply st op).1.2 ∧ (xhApply st op).2.arr < (xhApply st op).1.1.length := by
  cases op with
  | hold => exact ⟨w, w.arr_lt⟩
  | op o =>
    refine ⟨xsApply_wf w o, ?_⟩
    simp only [xhApply]
    cases o with
    | add xs keep =>
      have hk := addWith_keeps exactGrow sortByStart st.1.1 st.1.2 xs
      change Keeps st.1.1.length st.1.1 (add st.1.1 st.1.2 xs).1 at hk
      simp only [xsApply]
      generalize add st.1.1 st.1.2 xs = p at hk
      obtain ⟨h', r, e⟩ := p
      exact Nat.lt_of_lt_of_le wh hk.1
    | upTo j => exact wh
    | drop j => exact wh

theorem xhInit_wf (n : Nat) (cells0 : List Exon) (hn : n ≤ cells0.length) :
    WF (xhInit n cells0).1.1 (xhInit n cells0).1.2 ∧ (xhInit n cells0).2.arr < (xhInit n cells0).1.1.length :=
  ⟨xsInit_wf n cells0 hn, by simp [xhInit, xsInit, Heap.init, Slice.nil]⟩

theorem xhRun_wf {st : (Heap × Slice) × Slice} (w : WF st.1.1 st.1.2) (wh : st.2.arr < st.1.1.length)
    (ops : List XhOp) : WF (xhRun st ops).1.1 (xhRun st ops).1.2 ∧ (xhRun st ops).2.arr < (xhRun st ops).1.1.length := by
  induction ops generalizing st with
  | nil => exact ⟨w, wh⟩
  | cons op ops ih =>
    have := xhApply_wf w wh op
    exact ih this.1 this.2

/-- the transcript's exon slice is well-formed -/
def TxWF (st : Heap × Tx) : Prop := WF st.1 st.2.exons

theorem setExons_wf {h : Heap} {t : Tx} (w : WF h t.exons) (xs : List Exon) :
    WF (setExons h t xs).1 (setExons h t xs).2.1.exons := by
  have hk := setExons_keeps exactGrow sortByStart h t xs
  cases hres : setExons h t xs with
  | mk h' p =>
    obtain ⟨t', e⟩ := p
    unfold setExons at hres
    rw [hres] at hk
    cases e with
    | some e =>
      have := setExons_err hres; subst this
      exact ⟨Nat.lt_of_lt_of_le w.arr_lt hk.1, by rw [hk.2 _ w.arr_lt]; exact w.fits⟩
    | none =>
      obtain ⟨_, _, _, _, _, rfl, he⟩ := setExons_ok sortByStart_spec hres
      rw [he]
      exact WF.new h _ _ (sortByStart_spec.length xs)

theorem txApply_wf {st : Heap × Tx} (w : TxWF st) (op : TxOp) : TxWF (txApply st op).1 := by
  unfold TxWF at *
  cases op with
  | set xs =>
    have := setExons_wf w xs
    simp only [txApply]
    generalize setExons st.1 st.2 xs = p at this
    obtain ⟨h', t', e⟩ := p
    exact this
  | addDrop xs =>
    have := (add_wf w xs).1
    simp only [txApply]
    generalize add st.1 st.2.exons xs = p at this
    obtain ⟨h', r, e⟩ := p
    exact this
  | addSet xs =>
    have := (add_wf w xs).1
    simp only [txApply]
    generalize add st.1 st.2.exons xs = p at this
    obtain ⟨h', r, e⟩ := p
    cases e with
    | some e => exact this
    | none =>
      simp only []
      have h2 := setExons_wf (t := st.2) this (read h' r)
      generalize setExons h' st.2 (read h' r) = q at h2
      obtain ⟨h'', t', e'⟩ := q
      exact h2
  | resliceAdd j xs =>
    -- the receiver is `t.Exons()[:j]`; the transcript's own slice stays well-formed because
    -- `Add` only appends a new array to the heap
    have hk := addWith_keeps exactGrow sortByStart st.1 (resliceTo st.1 st.2.exons j) xs
    simp only [txApply]
    change Keeps st.1.length st.1 (add st.1 (resliceTo st.1 st.2.exons j) xs).1 at hk
    generalize add st.1 (resliceTo st.1 st.2.exons j) xs = p at hk
    obtain ⟨h', r, e⟩ := p
    exact w.of_keeps hk

theorem txInit_wf (id : Nat) : TxWF (txInit id) :=
  ⟨by simp [txInit, Heap.init, Slice.nil], by simp [txInit, Slice.nil]⟩

theorem txRun_wf {st : Heap × Tx} (w : TxWF st) (ops : List TxOp) : TxWF (txRun st ops) := by
  induction ops generalizing st with
  | nil => exact w
  | cons op ops ih => exact ih (txApply_wf w op)

/-! ### three pieces -/


theorem utrOrder_fwd (a b c : Piece) : utrOrder 1 a b c = [a, b, c] := by simp [utrOrder]
theorem utrOrder_rev (a b c : Piece) : utrOrder (-1) a b c = [c, b, a] := by simp [utrOrder]

theorem abuts3 (a b L : Int) : abuts 0 L [(0, 0 + a), (a, a + (b - a)), (b, b + (L - b))] = true := by
  simp only [abuts, Bool.and_eq_true, decide_eq_true_eq, true_and]
  omega

theorem tiles3 (a b L : Int) (h1 : 0 ≤ a) (h2 : a ≤ b) (h3 : b ≤ L) :
    tiles 0 L [(0, 0 + a), (a, a + (b - a)), (b, b + (L - b))] = true := by
  simp only [tiles, Bool.and_eq_true, decide_eq_true_eq, true_and]
  omega

/-! ### SetFeatures -/

/-- the loop of `SetFeatures`: what a run without location error computes -/
theorem scanFeats_ok : ∀ (gid : Nat) (fs : List FeatIv) (pos e pos' e' : Int),
    scanFeats gid fs pos e = .ok (pos', e') →
    (∀ f ∈ fs, f.loc = gid ∧ pos' ≤ f.start ∧ f.stop ≤ e') ∧ pos' ≤ pos ∧ e ≤ e' ∧
      (pos' = pos ∨ ∃ f ∈ fs, f.start = pos') ∧ (e' = e ∨ ∃ f ∈ fs, f.stop = e')
  | _, [], pos, e, pos', e', h => by
    simp only [scanFeats, Except.ok.injEq, Prod.mk.injEq] at h
    obtain ⟨rfl, rfl⟩ := h
    exact ⟨fun _ hf => absurd hf (List.not_mem_nil), Int.le_refl _, Int.le_refl _, Or.inl rfl, Or.inl rfl⟩
  | gid, f :: fs, pos, e, pos', e', h => by
    unfold scanFeats at h
    split at h
    · cases h
    · rename_i hloc
      have hloc : f.loc = gid := by simpa using hloc
      have ih := scanFeats_ok gid fs _ _ pos' e' h
      obtain ⟨h1, h2, h3, h4, h5⟩ := ih
      refine ⟨?_, ?_, ?_, ?_, ?_⟩
      · intro x hx
        rcases List.mem_cons.mp hx with rfl | hx
        · refine ⟨hloc, ?_, ?_⟩
          · split at h2 <;> omega
          · split at h3 <;> omega
        · exact h1 x hx
      · split at h2 <;> omega
      · split at h3 <;> omega
      · rcases h4 with h4 | ⟨x, hx, hxs⟩
        · split at h4
          · exact Or.inr ⟨f, List.mem_cons_self .., h4.symm⟩
          · exact Or.inl h4
        · exact Or.inr ⟨x, List.mem_cons_of_mem _ hx, hxs⟩
      · rcases h5 with h5 | ⟨x, hx, hxs⟩
        · split at h5
          · exact Or.inr ⟨f, List.mem_cons_self .., h5.symm⟩
          · exact Or.inl h5
        · exact Or.inr ⟨x, List.mem_cons_of_mem _ hx, hxs⟩

end Biogo.Proofs.Gene
