/-
`strconv.ParseInt(strconv.FormatInt(n, 10), 0, bits) = n` and the unsigned analogue, for the
model of Biogo.Go.BytesFeat.
-/
import Biogo.Go.BytesFeat

namespace Biogo.BytesFeat

theorem digitVal_digitChar : ∀ d, d < 10 → digitVal (digitChar d) = some d := by decide

theorem digitChar_ne_underscore : ∀ d, d < 10 → (digitChar d == 95) = false := by decide

theorem digitChar_range : ∀ d, d < 10 → 48 ≤ digitChar d ∧ digitChar d ≤ 57 := by decide

theorem digitChar_eq_48 : ∀ d, d < 10 → digitChar d = 48 → d = 0 := by decide

theorem natDigits_lt (n : Nat) (h : n < 10) : natDigits n = [digitChar n] := by
  rw [natDigits]; simp [h]

theorem natDigits_ge (n : Nat) (h : ¬ n < 10) : natDigits n = natDigits (n / 10) ++ [digitChar (n % 10)] := by
  rw [natDigits]; simp [h]

theorem natDigits_ne_nil (n : Nat) : natDigits n ≠ [] := by
  by_cases h : n < 10
  · rw [natDigits_lt n h]; simp
  · rw [natDigits_ge n h]; simp

/-- every character is a decimal digit -/
theorem natDigits_digits (n : Nat) : ∀ c ∈ natDigits n, 48 ≤ c ∧ c ≤ 57 := by
  induction n using Nat.strongRecOn with
  | _ n ih =>
    by_cases h : n < 10
    · rw [natDigits_lt n h]
      intro c hc
      simp at hc; subst hc
      exact digitChar_range n h
    · rw [natDigits_ge n h]
      intro c hc
      rcases List.mem_append.mp hc with hc | hc
      · exact ih (n / 10) (by omega) c hc
      · simp at hc; subst hc
        exact digitChar_range (n % 10) (by omega)

/-- no leading zero -/
theorem natDigits_head (n : Nat) (hn : n ≠ 0) : ∃ c r, natDigits n = c :: r ∧ 49 ≤ c ∧ c ≤ 57 := by
  induction n using Nat.strongRecOn with
  | _ n ih =>
    by_cases h : n < 10
    · rw [natDigits_lt n h]
      refine ⟨digitChar n, [], rfl, ?_⟩
      have h1 := digitChar_range n h
      have h2 := digitChar_eq_48 n h
      refine ⟨?_, h1.2⟩
      have : digitChar n ≠ 48 := fun e => hn (h2 e)
      have h48 := h1.1
      rcases UInt8.le_iff_toNat_le.mp h48 |> Nat.lt_or_eq_of_le with hlt | heq
      · exact UInt8.le_iff_toNat_le.mpr hlt
      · exact absurd (UInt8.toNat_inj.mp heq).symm this
    · rw [natDigits_ge n h]
      obtain ⟨c, r, hc, hr⟩ := ih (n / 10) (by omega) (by omega)
      exact ⟨c, r ++ [digitChar (n % 10)], by rw [hc]; rfl, hr⟩

theorem uintLoop_append (base maxVal : Nat) (l1 l2 : Bytes) (n : Nat) (us : Bool) :
    uintLoop base maxVal (l1 ++ l2) n us =
      match uintLoop base maxVal l1 n us with
      | .ok (m, u) => uintLoop base maxVal l2 m u
      | .error e => .error e := by
  induction l1 generalizing n us with
  | nil => simp [uintLoop]
  | cons c r ih =>
    simp only [List.cons_append, uintLoop]
    split
    · exact ih _ _
    · split
      · rfl
      · split
        · rfl
        · split
          · rfl
          · split
            · rfl
            · exact ih _ _

theorem uintLoop_digit (maxVal acc d : Nat) (us : Bool) (hd : d < 10) (hm : acc * 10 + d ≤ maxVal)
    (hmax : maxVal ≤ 2 ^ 64 - 1) :
    uintLoop 10 maxVal [digitChar d] acc us = .ok (acc * 10 + d, us) := by
  have h1 : ¬ (acc ≥ (2 ^ 64 - 1) / 10 + 1) := by omega
  have h2 : ¬ (acc * 10 + d > maxVal) := by omega
  have h3 : ¬ (d ≥ 10) := by omega
  simp only [uintLoop, digitChar_ne_underscore d hd, digitVal_digitChar d hd]
  simp [h1, h2, h3]

/-- the digit loop reads back a decimal numeral -/
theorem uintLoop_natDigits (maxVal : Nat) (hmax : maxVal ≤ 2 ^ 64 - 1) (n : Nat) (hn : n ≤ maxVal) (us : Bool) :
    uintLoop 10 maxVal (natDigits n) 0 us = .ok (n, us) := by
  induction n using Nat.strongRecOn with
  | _ n ih =>
    by_cases h : n < 10
    · rw [natDigits_lt n h]
      have := uintLoop_digit maxVal 0 n us h (by omega) hmax
      simpa using this
    · rw [natDigits_ge n h, uintLoop_append, ih (n / 10) (by omega) (by omega)]
      simp only []
      have := uintLoop_digit maxVal (n / 10) (n % 10) us (by omega) (by omega) hmax
      rw [this]
      congr 2
      omega

theorem natDigits_zero : natDigits 0 = [48] := by
  rw [natDigits_lt 0 (by omega)]; rfl

/-- `strconv.ParseUint(strconv.FormatUint(n, 10), 0, bits) = n` -/
theorem parseUint_natDigits (bits : Nat) (hb : bits ≤ 64) (n : Nat) (hn : n ≤ 2 ^ bits - 1) :
    parseUint (natDigits n) bits = .ok n := by
  have hmax : 2 ^ bits - 1 ≤ 2 ^ 64 - 1 := by
    have := Nat.pow_le_pow_right (show 0 < 2 by omega) hb
    omega
  by_cases h0 : n = 0
  · subst h0
    rw [natDigits_zero]
    simp [parseUint, basePrefix, uintLoop]
  · obtain ⟨c, r, hc, h49, h57⟩ := natDigits_head n h0
    have hne : natDigits n ≠ [] := natDigits_ne_nil n
    have hc48 : (c == 48) = false := by
      apply beq_false_of_ne
      intro e; subst e
      exact absurd h49 (by decide)
    have hbase : basePrefix (natDigits n) = (10, natDigits n) := by
      rw [hc]; simp [basePrefix, hc48]
    unfold parseUint
    have hemp : (natDigits n).isEmpty = false := by
      cases hnd : natDigits n with
      | nil => exact absurd hnd hne
      | cons _ _ => rfl
    simp only [hemp, hbase]
    rw [uintLoop_natDigits _ hmax n hn false]
    simp

theorem formatInt_nonneg (i : Int) (h : 0 ≤ i) : formatInt i = natDigits i.natAbs := by
  unfold formatInt; simp [Int.not_lt.mpr h]

theorem formatInt_neg (i : Int) (h : i < 0) : formatInt i = 45 :: natDigits i.natAbs := by
  unfold formatInt; simp [h]

/-- `strconv.ParseInt(strconv.FormatInt(i, 10), 0, 64) = i` for every `int64` -/
theorem parseInt_formatInt (i : Int) (h : inInt64 i = true) : parseInt (formatInt i) 64 = .ok i := by
  simp only [inInt64, minInt64, maxInt64, Bool.and_eq_true] at h
  have hlo : -(2 ^ 63 : Int) ≤ i := of_decide_eq_true h.1
  have hhi : i ≤ (2 ^ 63 : Int) - 1 := of_decide_eq_true h.2
  by_cases hneg : i < 0
  · rw [formatInt_neg i hneg]
    have hn : i.natAbs ≤ 2 ^ 64 - 1 := by omega
    simp only [parseInt, show ((45:UInt8) == 43) = false from rfl, show ((45:UInt8) == 45) = true from rfl,
      Bool.or_true, if_true]
    rw [parseUint_natDigits 64 (Nat.le_refl _) _ hn]
    have h1 : ¬ (i.natAbs > 2 ^ (64 - 1)) := by omega
    simp [h1]
    omega
  · have hnn : 0 ≤ i := Int.not_lt.mp hneg
    rw [formatInt_nonneg i hnn]
    by_cases h0 : i.natAbs = 0
    · have : i = 0 := by omega
      subst this
      simp [natDigits_zero, parseInt, parseUint, basePrefix, uintLoop]
    · obtain ⟨c, r, hc, h49, h57⟩ := natDigits_head _ h0
      have hc43 : (c == 43) = false := by
        apply beq_false_of_ne; intro e; subst e; exact absurd h49 (by decide)
      have hc45 : (c == 45) = false := by
        apply beq_false_of_ne; intro e; subst e; exact absurd h49 (by decide)
      have hn : i.natAbs ≤ 2 ^ 64 - 1 := by omega
      have hp := parseUint_natDigits 64 (Nat.le_refl _) _ hn
      rw [hc] at hp ⊢
      simp only [parseInt, hc43, hc45, Bool.or_self, Bool.false_eq_true, if_false, hp]
      have h1 : ¬ (i.natAbs ≥ 2 ^ (64 - 1)) := by omega
      simp [h1]
      omega

theorem inInt64_iff (i : Int) : inInt64 i = true ↔ -(2 ^ 63 : Int) ≤ i ∧ i ≤ (2 ^ 63 : Int) - 1 := by
  simp only [inInt64, minInt64, maxInt64, Bool.and_eq_true]
  constructor
  · intro h; exact ⟨of_decide_eq_true h.1, of_decide_eq_true h.2⟩
  · intro h; exact ⟨decide_eq_true h.1, decide_eq_true h.2⟩

/-- `strconv.ParseUint(strconv.Itoa(n), 0, 8) = n` for a byte -/
theorem parseUint8_natDigits (n : Nat) (h : n < 256) : parseUint (natDigits n) 8 = .ok n :=
  parseUint_natDigits 8 (by omega) n (by omega)

end Biogo.BytesFeat
