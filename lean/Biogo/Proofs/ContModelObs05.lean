/-
The model's observations satisfy `Laws.RevCompSpec` / `Laws.RowRevCompSpec` (the declarative
statements the executable laws of C05 are proved to imply): `RevComp` on a linear sequence, a
column-stored alignment, a multi and a set; `Row(r).RevComp()` on a column-stored alignment.
Core-only.
-/
import Biogo.Proofs.ContLawsSound
import Biogo.Proofs.ContSepWorld
import Biogo.Proofs.ContRow

namespace Biogo.Containers
open Biogo.Go Biogo.Containers.Laws

theorem getElem?_singleton_some {α : Type} {x y : α} {i : Nat} (h : [x][i]? = some y) : i = 0 ∧ y = x := by
  cases i with
  | zero => simp at h; exact ⟨rfl, h.symm⟩
  | succ i => simp at h

/-- `RevComp` of a linear sequence, on observations -/
theorem model_revcomp_lin (cx : Ctx) (h : Cells) (l : Lin) (hv : l.Valid h) :
    RevCompSpec cx.comp (viewObj cx h (.lin l)) (viewObj cx (l.revComp cx h).1 (.lin (l.revComp cx h).2)) := by
  obtain ⟨s1, s2, s3, s4⟩ := Lin.revComp_spec cx h l hv
  have hq : (l.revComp cx h).2.q = l.q := rfl
  have hkind : (viewObj cx h (.lin l)).kind = if l.q then "qlin" else "lin" := rfl
  refine ⟨by simp only [viewObj, hq], rfl, rfl, ?_, ?_⟩
  · intro i rb ra hb ha
    obtain ⟨_, rfl⟩ := getElem?_singleton_some hb
    obtain ⟨_, rfl⟩ := getElem?_singleton_some ha
    exact ⟨s1, rfl⟩
  · have hn1 : ¬ ((viewObj cx h (.lin l)).kind = "aln" ∨ (viewObj cx h (.lin l)).kind = "qaln") := by
      rw [hkind]; cases l.q <;> decide
    have hn2 : ¬ (viewObj cx h (.lin l)).kind = "multi" := by rw [hkind]; cases l.q <;> decide
    rw [if_neg hn1, if_neg hn2]
    intro i rb ra hb ha
    obtain ⟨_, rfl⟩ := getElem?_singleton_some hb
    obtain ⟨_, rfl⟩ := getElem?_singleton_some ha
    exact ⟨s2, s3, s4⟩

/-- `RevComp` of a column-stored alignment, on observations -/
theorem model_revcomp_aln (cx : Ctx) (h : Cells) (a : Aln) (n : Nat) (hc : ColsCapWF h n a.cols) :
    RevCompSpec cx.comp (viewObj cx h (.aln a)) (viewObj cx (a.revComp cx h).1 (.aln (a.revComp cx h).2)) := by
  obtain ⟨_, s2, s3, s4, s5, s6, _⟩ := Aln.revComp_spec cx h a n hc.toColsWF
  have hq : (a.revComp cx h).2.q = a.q := rfl
  have hcols : (a.revComp cx h).2.cols = a.cols := rfl
  have hrows : (a.revComp cx h).2.rows = a.rows := rfl
  have hkind : (viewObj cx h (.aln a)).kind = if a.q then "qaln" else "aln" := rfl
  have hrn : ∀ r, r < a.rows → r < n := by
    intro r hr
    cases hcs : a.cols with
    | nil => simp [Aln.rows, Aln.rows?, hcs] at hr
    | cons c cs =>
      simp only [Aln.rows, Aln.rows?, hcs, List.head?_cons, Option.map_some, Option.getD_some] at hr
      rw [← hc.2 c (by rw [hcs]; exact List.mem_cons_self)]; exact hr
  refine ⟨by simp only [viewObj, hq], by simp only [viewObj, hrows], by simp [viewObj, hrows], ?_, ?_⟩
  · intro i rb ra hb ha
    simp only [viewObj, List.getElem?_map] at hb ha
    cases hx : (List.range a.rows)[i]? with
    | none => rw [hx] at hb; cases hb
    | some r =>
      have hri : r = i ∧ i < a.rows := by
        obtain ⟨hl, hg⟩ := List.getElem?_eq_some_iff.mp hx
        simp at hl hg; exact ⟨hg.symm, hl⟩
      have hx' : (List.range (a.revComp cx h).2.rows)[i]? = some r := by rw [hrows]; exact hx
      rw [hx] at hb; rw [hx'] at ha
      simp only [Option.map_some, Option.some.injEq] at hb ha
      subst hb; subst ha
      refine ⟨?_, by simp only [s6]⟩
      simp only [revCompCells]
      rw [hri.1]
      exact s2 i (hrn i hri.2)
  · have h1 : (viewObj cx h (.aln a)).kind = "aln" ∨ (viewObj cx h (.aln a)).kind = "qaln" := by
      rw [hkind]; cases a.q <;> simp
    rw [if_pos h1]
    exact ⟨s3, s4, s5⟩

/-- `RevComp` of a multi, on observations: every row reverse-complemented, strand negated and
    mirrored about the span, which is kept -/
theorem model_revcomp_multi (cx : Ctx) (h : Cells) (m : Multi) (hwf : RowsWF h m.rows) (hr : m.InRange) :
    RevCompSpec cx.comp (viewObj cx h (.multi m)) (viewObj cx (m.revComp cx h).1 (.multi (m.revComp cx h).2)) := by
  obtain ⟨hall, _⟩ := Multi.revComp_rows cx h m hwf
  obtain ⟨sp1, sp2, _⟩ := Multi.span_mirror m (m.revComp cx h).2 hr
    (hall.imp fun a b hab => ⟨hab.2.2.1, hab.2.2.2.1⟩)
  have hlen : (m.revComp cx h).2.rows.length = m.rows.length := hall.length_eq.symm
  have hrow : ∀ (i : Nat) (rb ra : RowV), (viewObj cx h (.multi m)).rows[i]? = some rb →
      (viewObj cx (m.revComp cx h).1 (.multi (m.revComp cx h).2)).rows[i]? = some ra →
      ∃ l l', m.rows[i]? = some l ∧ (m.revComp cx h).2.rows[i]? = some l' ∧ rb = linRowV h l ∧
        ra = linRowV (m.revComp cx h).1 l' := by
    intro i rb ra hb ha
    simp only [viewObj, List.getElem?_map] at hb ha
    cases hl : m.rows[i]? with
    | none => rw [hl] at hb; cases hb
    | some l =>
      cases hl' : (m.revComp cx h).2.rows[i]? with
      | none => rw [hl'] at ha; cases ha
      | some l' =>
        rw [hl] at hb; rw [hl'] at ha
        simp only [Option.map_some, Option.some.injEq] at hb ha
        exact ⟨l, l', rfl, rfl, hb.symm, ha.symm⟩
  refine ⟨rfl, by simp only [viewObj, Multi.nrows, hlen], by simp [viewObj, hlen], ?_, ?_⟩
  · intro i rb ra hb ha
    obtain ⟨l, l', hl, hl', rfl, rfl⟩ := hrow i rb ra hb ha
    obtain ⟨r1, _, _, _, _, r6⟩ := hall.get i l l' hl hl'
    exact ⟨r1, r6⟩
  · have hk : (viewObj cx h (.multi m)).kind = "multi" := rfl
    have hn1 : ¬ ((viewObj cx h (.multi m)).kind = "aln" ∨ (viewObj cx h (.multi m)).kind = "qaln") := by
      rw [hk]; decide
    rw [if_neg hn1, if_pos hk]
    refine ⟨?_, sp1, sp2⟩
    intro i rb ra hb ha
    obtain ⟨l, l', hl, hl', rfl, rfl⟩ := hrow i rb ra hb ha
    obtain ⟨_, r2, r3, r4, _, _⟩ := hall.get i l l' hl hl'
    exact ⟨r2, r3, r4⟩

/-- `RevComp` of a set, on observations: every row reverse-complemented in place -/
theorem model_revcomp_set (cx : Ctx) (h : Cells) (m : Multi) (hwf : RowsWF h m.rows) :
    RevCompSpec cx.comp (viewObj cx h (.set m)) (viewObj cx (m.setRevComp cx h).1 (.set (m.setRevComp cx h).2)) := by
  obtain ⟨rows', h2, hall0, _, _⟩ := rowsFold_spec (fun h r => r.revComp cx h) (inPlace_revComp cx)
    (fun bl r al r' => al = bl.reverse.map (compQL cx.comp) ∧ r'.strand = -r.strand ∧ r'.start = r.start ∧
      r'.«end» = r.«end» ∧ r'.q = r.q ∧ r'.name = r.name)
    (fun h r hv => ⟨(Lin.revComp_spec cx h r hv).1, rfl, rfl, rfl, rfl, rfl⟩) m.rows h [] hwf
  have hm : m.setRevComp cx h = ((rowsFold (fun h r => r.revComp cx h) m.rows (h, [])).1,
      { m with rows := (rowsFold (fun h r => r.revComp cx h) m.rows (h, [])).2 }) := rfl
  simp only [List.nil_append] at h2
  have hall : All2 (fun r r' => r'.letters (m.setRevComp cx h).1 = (r.letters h).reverse.map (compQL cx.comp) ∧
      r'.strand = -r.strand ∧ r'.start = r.start ∧ r'.«end» = r.«end» ∧ r'.q = r.q ∧ r'.name = r.name)
      m.rows (m.setRevComp cx h).2.rows := by
    rw [hm]; simp only [h2]
    exact hall0.imp_mem fun a b _ hab => hab.1
  have hlen : (m.setRevComp cx h).2.rows.length = m.rows.length := hall.length_eq.symm
  have hrow : ∀ (i : Nat) (rb ra : RowV), (viewObj cx h (.set m)).rows[i]? = some rb →
      (viewObj cx (m.setRevComp cx h).1 (.set (m.setRevComp cx h).2)).rows[i]? = some ra →
      ∃ l l', m.rows[i]? = some l ∧ (m.setRevComp cx h).2.rows[i]? = some l' ∧ rb = linRowV h l ∧
        ra = linRowV (m.setRevComp cx h).1 l' := by
    intro i rb ra hb ha
    simp only [viewObj, List.getElem?_map] at hb ha
    cases hl : m.rows[i]? with
    | none => rw [hl] at hb; cases hb
    | some l =>
      cases hl' : (m.setRevComp cx h).2.rows[i]? with
      | none => rw [hl'] at ha; cases ha
      | some l' =>
        rw [hl] at hb; rw [hl'] at ha
        simp only [Option.map_some, Option.some.injEq] at hb ha
        exact ⟨l, l', rfl, rfl, hb.symm, ha.symm⟩
  refine ⟨rfl, by simp only [viewObj, Multi.nrows, hlen], by simp [viewObj, hlen], ?_, ?_⟩
  · intro i rb ra hb ha
    obtain ⟨l, l', hl, hl', rfl, rfl⟩ := hrow i rb ra hb ha
    obtain ⟨r1, _, _, _, _, r6⟩ := hall.get i l l' hl hl'
    exact ⟨r1, r6⟩
  · have hk : (viewObj cx h (.set m)).kind = "set" := rfl
    have hn1 : ¬ ((viewObj cx h (.set m)).kind = "aln" ∨ (viewObj cx h (.set m)).kind = "qaln") := by
      rw [hk]; decide
    have hn2 : ¬ (viewObj cx h (.set m)).kind = "multi" := by rw [hk]; decide
    rw [if_neg hn1, if_neg hn2]
    intro i rb ra hb ha
    obtain ⟨l, l', hl, hl', rfl, rfl⟩ := hrow i rb ra hb ha
    obtain ⟨_, r2, r3, r4, _, _⟩ := hall.get i l l' hl hl'
    exact ⟨r2, r3, r4⟩

/-- `Row(r).RevComp()` of a column-stored alignment, on observations -/
theorem model_rowRevComp_aln (cx : Ctx) (h : Cells) (a : Aln) (n : Nat) (hc : ColsCapWF h n a.cols) (r : Nat)
    (hr : r < a.rows) :
    RowRevCompSpec cx.comp (viewObj cx h (.aln a)) (viewObj cx (a.rowRevComp cx h r).1 (.aln (a.rowRevComp cx h r).2)) r := by
  have hrn : r < n := by
    cases hcs : a.cols with
    | nil => simp [Aln.rows, Aln.rows?, hcs] at hr
    | cons c cs =>
      simp only [Aln.rows, Aln.rows?, hcs, List.head?_cons, Option.map_some, Option.getD_some] at hr
      rw [← hc.2 c (by rw [hcs]; exact List.mem_cons_self)]; exact hr
  obtain ⟨s1, s2, _, _⟩ := Aln.rowRevComp_spec cx h a n hc.toColsWF r hrn
  have hrows : (a.rowRevComp cx h r).2.rows = a.rows := rfl
  have hsub : ∀ i, (a.rowRevComp cx h r).2.subs.getD i ⟨0, 0, 0⟩ =
      if r = i then (fun (s : Ann) => ({ s with strand := -s.strand } : Ann)) (a.subs.getD i ⟨0, 0, 0⟩)
      else a.subs.getD i ⟨0, 0, 0⟩ := by
    intro i
    have hmod := getElem?_modify_if a.subs r i fun s => { s with strand := -s.strand }
    show (Aln.modSub a.subs r _).getD i _ = _
    simp only [Aln.modSub, List.getD_eq_getElem?_getD, hmod]
    by_cases e : r = i
    · simp only [e, if_true]
      cases hx : a.subs[i]? with
      | none => simp
      | some s => simp
    · simp only [e, if_false]
  refine ⟨by simp [viewObj, hrows], ?_⟩
  intro i rb hb
  simp only [viewObj, List.getElem?_map] at hb
  cases hx : (List.range a.rows)[i]? with
  | none => rw [hx] at hb; cases hb
  | some j =>
    have hji : j = i ∧ i < a.rows := by
      obtain ⟨hl, hg⟩ := List.getElem?_eq_some_iff.mp hx
      simp at hl hg; exact ⟨hg.symm, hl⟩
    rw [hx] at hb
    simp only [Option.map_some, Option.some.injEq] at hb
    obtain ⟨rfl, hi⟩ := hji
    refine ⟨_, by simp only [viewObj, List.getElem?_map, hrows, hx, Option.map_some]; rfl, ?_⟩
    subst hb
    by_cases e : j = r
    · rw [if_pos e]
      subst e
      simp only [hsub, if_true, revCompCells, s1, Aln.len]
      exact ⟨trivial, trivial, trivial, trivial, rfl⟩
    · rw [if_neg e]
      have e' : ¬ r = j := fun x => e x.symm
      simp only [hsub, e', if_false, s2 j e, Aln.len]
      rfl

/-- **revcomp_spec, on observations, every kind of object of a well-formed world**: the
    observation after `RevComp` of object `k` is related to the observation before by
    `RevCompSpec` (for a multi under `Multi.InRange`: at least one row, coordinates inside the
    Go int range) -/
theorem model_revcomp (cx : Ctx) (w : World) (hw : WorldWF w) (k : Nat) (o : Obj) (hk : w.objs[k]? = some o)
    (hrange : ∀ m, o = .multi m → m.InRange) :
    ∃ b a, (w.view cx)[k]? = some b ∧ ((apply cx w (.revComp k)).1.view cx)[k]? = some a ∧
      RevCompSpec cx.comp b a := by
  have hwf := hw.obj k o hk
  have hklt : k < w.objs.length := (List.getElem?_eq_some_iff.mp hk).1
  have hb : (w.view cx)[k]? = some (viewObj cx w.cells o) := by
    simp only [World.view, List.getElem?_map, hk, Option.map_some]
  have hset : ∀ (h' : Cells) (o' : Obj), ((w.setObj k h' o').view cx)[k]? = some (viewObj cx h' o') := by
    intro h' o'
    simp only [World.view, World.setObj, List.getElem?_map, List.getElem?_set, hklt, if_true, Option.map_some]
  cases o with
  | lin l =>
    refine ⟨_, _, hb, ?_, model_revcomp_lin cx w.cells l (CapValid.toValid hwf)⟩
    simp only [apply, hk]; exact hset _ _
  | aln a =>
    obtain ⟨_, n, hc, _⟩ := hwf
    refine ⟨_, _, hb, ?_, model_revcomp_aln cx w.cells a n hc⟩
    simp only [apply, hk]; exact hset _ _
  | multi m =>
    refine ⟨_, _, hb, ?_, model_revcomp_multi cx w.cells m (RowsCapWF.toRowsWF hwf) (hrange m rfl)⟩
    simp only [apply, hk]; exact hset _ _
  | set m =>
    refine ⟨_, _, hb, ?_, model_revcomp_set cx w.cells m (RowsCapWF.toRowsWF hwf)⟩
    simp only [apply, hk]; exact hset _ _

end Biogo.Containers
