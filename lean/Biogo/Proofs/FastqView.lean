/-
The FASTQ reader sees its input only through `viewQ`: the complete lines after
`bytes.TrimSpace`, and the fragments pending at `io.EOF` with their white space removed.
Core only.
-/
import Biogo.Proofs.Fastq

namespace Biogo.Fastq
open Biogo.Go.Bytes Biogo.Spec.Seqio
open Biogo.Fasta (TrimEq trimEq_of_map_eq)

/-- what the FASTQ reader can see of an input: the lines `ReadLine` delivers completely, trimmed,
    and the bytes pending at `io.EOF` without their white space (`finish` uses them only through
    `bytes.Join(bytes.Fields(line), nil)`) -/
def viewQ (eofWithData : Bool) (bs : Bytes) : List Bytes × Bytes :=
  ((readLineInput eofWithData bs).1.map trimSpace, removeSpaces (readLineInput eofWithData bs).2)

theorem finish_removeSpaces (cfg : Cfg) (st : LoopSt) (l l' : Bytes) (rest : List Bytes × Bytes)
    (h : removeSpaces l = removeSpaces l') : finish cfg st l rest = finish cfg st l' rest := by
  unfold finish
  simp only [h]

/-- the loop depends on the pending fragments only through `removeSpaces` -/
theorem loop_pend (cfg : Cfg) (pend pend' : Bytes) (h : removeSpaces pend = removeSpaces pend') (lines : List Bytes) :
    ∀ st : LoopSt,
      (match loop cfg pend st lines, loop cfg pend' st lines with
       | .ok (ret, rest, p), .ok (ret', rest', p') => ret = ret' ∧ rest = rest' ∧ removeSpaces p = removeSpaces p'
       | .error e, .error e' => e = e'
       | _, _ => False) := by
  induction lines with
  | nil =>
    intro st
    unfold loop
    by_cases hc : (st.t.isSome && st.state == .quality) = true
    · simp only [hc, if_true]
      rw [finish_removeSpaces cfg _ pend pend' _ h]
      cases finish cfg { st with err := none } pend' ([], []) with
      | error e => rfl
      | ok v => exact ⟨rfl, rfl, rfl⟩
    · simp only [hc]
      exact ⟨rfl, rfl, rfl⟩
  | cons raw rest ih =>
    intro st
    rw [loop_step, loop_step]
    cases step cfg st (trimSpace raw) with
    | error e => rfl
    | ok v =>
      cases v with
      | inl st' => exact ih st'
      | inr ret => exact ⟨rfl, rfl, h⟩

theorem readAllAux_pend (cfg : Cfg) (fuel : Nat) : ∀ (lines : List Bytes) (pend pend' : Bytes),
    removeSpaces pend = removeSpaces pend' → readAllAux cfg fuel lines pend = readAllAux cfg fuel lines pend' := by
  induction fuel with
  | zero => intro _ _ _ _; rfl
  | succ f ih =>
    intro lines pend pend' h
    have hc := loop_pend cfg pend pend' h lines {}
    simp only [readAllAux, read]
    cases h1 : loop cfg pend {} lines with
    | error e =>
      cases h2 : loop cfg pend' {} lines with
      | error e' => rw [h1, h2] at hc; simp at hc; simp [hc]
      | ok v' => rw [h1, h2] at hc; simp at hc
    | ok v =>
      cases h2 : loop cfg pend' {} lines with
      | error e' => rw [h1, h2] at hc; simp at hc
      | ok v' =>
        rw [h1, h2] at hc
        obtain ⟨ret, rest, p⟩ := v
        obtain ⟨ret', rest', p'⟩ := v'
        simp only [] at hc
        obtain ⟨rfl, rfl, hr⟩ := hc
        simp only []
        split
        · rfl
        · rw [ih rest p p' hr]

/-- more budget than needed does not change the history -/
theorem readAllAux_fuel (cfg : Cfg) (f : Nat) : ∀ (f' : Nat) (lines : List Bytes) (pend : Bytes),
    lines.length < f → lines.length < f' → readAllAux cfg f lines pend = readAllAux cfg f' lines pend := by
  induction f with
  | zero => intro f' lines pend h; omega
  | succ f ih =>
    intro f' lines pend h1 h2
    obtain ⟨g, rfl⟩ : ∃ g, f' = g + 1 := ⟨f' - 1, by omega⟩
    obtain ⟨ret, rest, p', hv, _, hdec⟩ := read_total cfg lines pend
    simp only [readAllAux, hv]
    split
    · rfl
    · rename_i he
      have := hdec he
      rw [ih g rest p' (by omega) (by omega)]

/-- **The FASTQ reader sees an input only through `viewQ`.**  Two byte strings — valid files or
    not — with the same view (under either behaviour of the `io.Reader` at the end of each) give
    the same call history. -/
theorem readAll_viewQ (cfg : Cfg) (e e' : Bool) (bs bs' : Bytes) (h : viewQ e bs = viewQ e' bs') :
    readAll cfg e bs = readAll cfg e' bs' := by
  simp only [viewQ, Prod.mk.injEq] at h
  obtain ⟨h1, h2⟩ := h
  have hte : TrimEq (readLineInput e bs).1 (readLineInput e' bs').1 := trimEq_of_map_eq _ _ h1
  have hlen := hte.length_eq
  have l1 := readLineInput_length e bs
  have l2 := readLineInput_length e' bs'
  unfold readAll
  simp only []
  rw [readAllAux_fuel cfg _ (lineCount bs' + 1) _ _ (by omega) (by omega),
    readAllAux_trimEq cfg _ _ _ _ hte, readAllAux_pend cfg _ _ _ _ h2]

end Biogo.Fastq
