/-
A rejected `Push` (a value of another type) is a no-op of the concurrent sorter model: erasing
the rejected calls from the caller's program and their outputs from what it has observed
commutes with every atomic block of every actor (`erase_step`), so every state reachable with
the rejected calls is, after erasure, reachable without them (`reach_erase`).  Core Lean only.
-/
import Biogo.Model.MorassConc
import Biogo.Spec.Morass
import Biogo.Proofs.MorassConc
import Biogo.Proofs.MorassCycle
import Biogo.Proofs.MorassHistory
import Biogo.Proofs.MorassTermination

namespace Biogo.MorassConc
open Biogo.Morass Biogo.Interleave

/-- forget the rejected pushes still to make and the outputs of those already made -/
def erase (s : CState) : CState :=
  { s with prog := dropRejects s.prog, outs := dropRejOuts s.outs }

theorem erase_eq (s : CState) : erase s = withWOP s s.writers (dropRejOuts s.outs) (dropRejects s.prog) := rfl

/-- the error slot never holds the type-mismatch error (it is returned, never stored) -/
def ErrOK (s : CState) : Prop := s.m.err ≠ some .rejected

/-! ### lists -/

theorem dropRejects_cons_ne {op : Op} (h : op ≠ Op.reject) (l : List Op) :
    dropRejects (op :: l) = op :: dropRejects l := by
  simp [dropRejects, List.filter_cons, h]

theorem dropRejects_cons_rej (l : List Op) : dropRejects (Op.reject :: l) = dropRejects l := by
  simp [dropRejects, List.filter_cons]

theorem dropRejects_dropWhile (l : List Op) :
    dropRejects (l.dropWhile (· != Op.clear)) = (dropRejects l).dropWhile (· != Op.clear) := by
  induction l with
  | nil => rfl
  | cons x t ih =>
    by_cases hx : x = Op.reject
    · subst hx
      rw [dropRejects_cons_rej]
      simp only [List.dropWhile_cons]
      have : (Op.reject != Op.clear) = true := by decide
      simp only [this, if_true]
      exact ih
    · rw [dropRejects_cons_ne hx]
      simp only [List.dropWhile_cons]
      split
      · exact ih
      · exact dropRejects_cons_ne hx t

theorem dropRejOuts_cons_ne {o : Out} (h : o.res ≠ .rejected) (l : List Out) :
    dropRejOuts (o :: l) = o :: dropRejOuts l := by
  simp [dropRejOuts, List.filter_cons, h]

/-! ### the end of a call -/

theorem erase_finishOp (s1 : CState) (r : Res) (x : Option Elem) (op : Op) (rest : List Op)
    (hr : r ≠ .rejected) (hprog : s1.prog = op :: rest) (hop : op ≠ Op.reject) :
    erase (finishOp s1 r x) = finishOp (erase s1) r x := by
  have houts : dropRejOuts (finishOp s1 r x).outs = (⟨r, x, s1.m.len, s1.m.pos⟩ : Out) :: dropRejOuts s1.outs :=
    dropRejOuts_cons_ne (o := ⟨r, x, s1.m.len, s1.m.pos⟩) hr s1.outs
  have hprog' : dropRejects (finishOp s1 r x).prog = (finishOp (erase s1) r x).prog := by
    simp only [finishOp, erase]
    rw [hprog, dropRejects_cons_ne hop]
    simp only [List.tail_cons]
    by_cases h1 : r = .panic ∨ r = .hang
    · simp [h1, dropRejects]
    · simp only [h1, if_false]
      by_cases h2 : r = .ioerr
      · simp only [h2, if_true]
        by_cases hc : (s1.conc && !s1.reuse) = true
        · simp only [hc, if_true]; simp [dropRejects]
        · simp only [hc, Bool.false_eq_true, if_false]
          exact dropRejects_dropWhile rest
      · simp only [h2, if_false]
  unfold erase
  rw [houts, hprog']
  rfl

theorem erase_prog_cons {s : CState} {op : Op} {rest : List Op} (h : s.prog = op :: rest) (hop : op ≠ Op.reject) :
    (erase s).prog = op :: dropRejects rest := by
  show dropRejects s.prog = _
  rw [h, dropRejects_cons_ne hop]

/-! ### results of `Pull` and `Clear` -/

theorem clearF_res (s : CState) : (clearF s).2 ≠ .rejected := by
  rcases clearF_spec s with ⟨h, _⟩ | ⟨h, _⟩ <;> rw [h] <;> simp

theorem pullF_res (s : CState) : (pullF s).2.1 ≠ .rejected := by
  cases hf : s.m.fast
  · cases hpm : popMin s.m.files with
    | none => simp [pullF, hf, hpm]
    | some p =>
      obtain ⟨low, others⟩ := p
      cases ht : tick s.flt .pdecode with
      | mk bad flt =>
        cases bad <;> cases hr : low.rest <;> cases hh : low.head <;> simp [pullF, hf, hpm, ht, hr, hh]
  · cases hch : s.m.chunk with
    | none => simp [pullF, hf, hch]
    | some ch =>
      cases hg : ch[s.m.pos]? with
      | some e => simp [pullF, hf, hch, hg]
      | none =>
        by_cases h2 : 2 ≤ s.m.pool
        · simp [pullF, hf, hch, hg, h2]
        · simp [pullF, hf, hch, hg, h2]

theorem erase_pullF (s : CState) :
    erase (pullF s).1 = (pullF (erase s)).1 ∧ (pullF (erase s)).2 = (pullF s).2 := by
  have fr := pullF_frame s
  rw [erase_eq s, pullF_with, erase_eq, fr.writers, fr.outs, fr.prog]
  exact ⟨rfl, rfl⟩

theorem erase_clearF (s : CState) :
    erase (clearF s).1 = (clearF (erase s)).1 ∧ (clearF (erase s)).2 = (clearF s).2 := by
  have fr := clearF_frame s
  rw [erase_eq s, clearF_with, erase_eq, fr.writers, fr.outs, fr.prog]
  exact ⟨rfl, rfl⟩

theorem erase_wstep {s s' : CState} {w w' : Writer} (h : wstep s w = some (w', s')) :
    wstep (erase s) w = some (w', erase s') := by
  obtain ⟨h1, h2, h3⟩ := wstep_wop h
  rw [erase_eq, wstep_with, h, erase_eq, h1, h2, h3]
  rfl

/-! ### two small invariants: the error slot, and what the caller is in the middle of -/

/-- inside `Finalise` the current call of the program is `Finalise` -/
def FinProg (s : CState) : Prop :=
  (s.pc = .finSend ∨ s.pc = .finWrite ∨ s.pc = .finWait) → ∃ rest, s.prog = Op.finalise :: rest

theorem pullF_err (s : CState) : (pullF s).1.m.err = s.m.err ∨ (pullF s).1.m.err = none := by
  have eofcase : ∀ s1 : CState, s1.m.err = s.m.err →
      (atEof (if s.m.autoClear = true then (clearF s1).1 else s1)).m.err = s.m.err
      ∨ (atEof (if s.m.autoClear = true then (clearF s1).1 else s1)).m.err = none := by
    intro s1 h1
    rw [atEof_m]
    cases s.m.autoClear
    · left; exact h1
    · simp only [if_true]
      rcases clearF_spec s1 with ⟨_, h⟩ | ⟨_, h⟩ <;> rw [h]
      · left; exact h1
      · right; exact (clear_len_pos s1.m).2.2
  cases hf : s.m.fast
  · cases hpm : popMin s.m.files with
    | none =>
      have e1 : pullF s = (atEof (if s.m.autoClear = true then (clearF s).1 else s), .eof, none) := by
        simp [pullF, hf, hpm]
      rw [e1]; exact eofcase s rfl
    | some p =>
      obtain ⟨low, others⟩ := p
      cases ht : tick s.flt .pdecode with
      | mk bad flt =>
        cases bad <;> cases hr : low.rest <;> cases hh : low.head <;> simp [pullF, hf, hpm, ht, hr, hh]
  · cases hch : s.m.chunk with
    | none =>
      have e1 : pullF s = (atEof (if s.m.autoClear = true then (clearF s).1 else s), .eof, none) := by
        simp [pullF, hf, hch]
      rw [e1]; exact eofcase s rfl
    | some ch =>
      cases hg : ch[s.m.pos]? with
      | some e => simp [pullF, hf, hch, hg]
      | none =>
        by_cases h2 : 2 ≤ s.m.pool
        · simp [pullF, hf, hch, hg, h2]
        · have e1 : pullF s = (atEof (if s.m.autoClear = true
                then (clearF { s with m := { s.m with pool := s.m.pool + 1, chunk := none } }).1
                else { s with m := { s.m with pool := s.m.pool + 1, chunk := none } }), .eof, none) := by
            simp [pullF, hf, hch, hg, h2]
          rw [e1]; exact eofcase _ rfl

theorem Inv_CStep {s t : CState} (he : ErrOK s) (hf : FinProg s) (h : CStep s t) : ErrOK t ∧ FinProg t := by
  have idle : ∀ (s1 : CState) (r : Res) (x : Option Elem), s1.m.err ≠ some .rejected →
      ErrOK (finishOp s1 r x) ∧ FinProg (finishOp s1 r x) := by
    intro s1 r x h1
    refine ⟨h1, ?_⟩
    intro hp; rcases hp with hp | hp | hp <;> simp [finishOp] at hp
  cases h with
  | reject rest hpc hprog => exact idle s _ _ he
  | pushErr e rest r hpc hprog herr => exact idle s _ _ he
  | pushNil e rest hpc hprog herr hch => exact idle s _ _ he
  | pushFull e rest ch hpc hprog herr hch hfull =>
    refine ⟨he, ?_⟩
    intro hp; rcases hp with hp | hp | hp <;> simp at hp
  | pushRoom e rest ch hpc hprog herr hch hfull =>
    apply idle
    show (push s.m e).1.err ≠ _
    rw [push_room e herr hch hfull]; exact he
  | finErr rest r hpc hprog herr => exact idle s _ _ he
  | finNil rest hpc hprog herr hch => exact idle s _ _ he
  | finFast rest ch hpc hprog herr hch hlt =>
    apply idle
    show (finalise s.m).1.err ≠ _
    simp [finalise, herr, hch, hlt]
  | finDisk rest ch hpc hprog herr hch hlt hpos =>
    exact ⟨he, fun _ => ⟨rest, hprog⟩⟩
  | finEmpty rest ch flt fs ok hpc hprog herr hch hlt hpos hprime => exact idle _ _ _ he
  | pull rest hpc hprog =>
    apply idle
    rcases pullF_err s with h | h <;> rw [h]
    · exact he
    · simp
  | clear rest hpc hprog =>
    apply idle
    rcases clearF_spec s with ⟨_, h⟩ | ⟨_, h⟩ <;> rw [h]
    · exact he
    · rw [(clear_len_pos s.m).2.2]; simp
  | send ch wr hpc hch hsend =>
    refine ⟨he, ?_⟩
    intro hp; rcases hp with hp | hp | hp <;> simp at hp
  | recvErr e rest r hpc hpool hprog herr => exact idle _ _ _ he
  | recvOk e rest hpc hpool hprog herr => exact idle _ _ _ he
  | fsend ch wr hpc hch hsend =>
    exact ⟨he, fun _ => hf (Or.inl hpc)⟩
  | fwrite w s' hpc hw =>
    obtain ⟨_, _, e3⟩ := wstep_wop hw
    refine ⟨?_, fun _ => by show ∃ rest, s'.prog = _; rw [e3]; exact hf (Or.inr (Or.inl hpc))⟩
    show s'.m.err ≠ _
    rcases wstep_err hw with h | h <;> rw [h]
    · exact he
    · simp
  | waitErr r hpc hwg herr => exact idle s _ _ he
  | waitOk flt fs ok hpc hwg herr hprime => exact idle _ _ _ he

/-! ### every block of the caller -/

theorem erase_CStep {s t : CState} (he : ErrOK s) (hf : FinProg s) (h : CStep s t) :
    erase t = erase s ∨ CStep (erase s) (erase t) := by
  have ne : ∀ {r : Res}, s.m.err = some r → r ≠ .rejected := by
    intro r hr h0; subst h0; exact he hr
  cases h with
  | reject rest hpc hprog =>
    left
    simp only [erase, finishOp, hprog, List.tail_cons, dropRejects_cons_rej]
    have e1 : dropRejOuts ((⟨.rejected, none, s.m.len, s.m.pos⟩ : Out) :: s.outs) = dropRejOuts s.outs := by
      simp [dropRejOuts, List.filter_cons]
    simp only [reduceCtorEq, or_self, if_false, e1]
    rw [← hpc]
  | pushErr e rest r hpc hprog herr =>
    right
    rw [erase_finishOp s r none _ rest (ne herr) hprog (by simp)]
    exact .pushErr e _ r hpc (erase_prog_cons hprog (by simp)) herr
  | pushNil e rest hpc hprog herr hch =>
    right
    rw [erase_finishOp s _ none _ rest (by simp) hprog (by simp)]
    exact .pushNil e _ hpc (erase_prog_cons hprog (by simp)) herr hch
  | pushFull e rest ch hpc hprog herr hch hfull =>
    right
    exact .pushFull e _ ch hpc (erase_prog_cons hprog (by simp)) herr hch hfull
  | pushRoom e rest ch hpc hprog herr hch hfull =>
    right
    rw [erase_finishOp { s with m := (push s.m e).1 } .ok none _ rest (by simp) hprog (by simp)]
    exact .pushRoom e _ ch hpc (erase_prog_cons hprog (by simp)) herr hch hfull
  | finErr rest r hpc hprog herr =>
    right
    rw [erase_finishOp s r none _ rest (ne herr) hprog (by simp)]
    exact .finErr _ r hpc (erase_prog_cons hprog (by simp)) herr
  | finNil rest hpc hprog herr hch =>
    right
    rw [erase_finishOp s _ none _ rest (by simp) hprog (by simp)]
    exact .finNil _ hpc (erase_prog_cons hprog (by simp)) herr hch
  | finFast rest ch hpc hprog herr hch hlt =>
    right
    rw [erase_finishOp { s with m := (finalise s.m).1 } .ok none _ rest (by simp) hprog (by simp)]
    exact .finFast _ ch hpc (erase_prog_cons hprog (by simp)) herr hch hlt
  | finDisk rest ch hpc hprog herr hch hlt hpos =>
    right
    exact .finDisk _ ch hpc (erase_prog_cons hprog (by simp)) herr hch hlt hpos
  | finEmpty rest ch flt fs ok hpc hprog herr hch hlt hpos hprime =>
    right
    rw [erase_finishOp { s with flt := flt, m := { s.m with fast := false, pos := 0, files := fs } } _ none _ rest
      (by cases ok <;> simp) hprog (by simp)]
    exact .finEmpty _ ch flt fs ok hpc (erase_prog_cons hprog (by simp)) herr hch hlt hpos hprime
  | pull rest hpc hprog =>
    right
    have fr := pullF_frame s
    rw [erase_finishOp (pullF s).1 _ _ _ rest (pullF_res s) (by rw [fr.prog]; exact hprog) (by simp)]
    obtain ⟨e1, e2⟩ := erase_pullF s
    rw [e1, ← e2]
    exact .pull _ hpc (erase_prog_cons hprog (by simp))
  | clear rest hpc hprog =>
    right
    have fr := clearF_frame s
    rw [erase_finishOp (clearF s).1 _ _ _ rest (clearF_res s) (by rw [fr.prog]; exact hprog) (by simp)]
    obtain ⟨e1, e2⟩ := erase_clearF s
    rw [e1, ← e2]
    exact .clear _ hpc (erase_prog_cons hprog (by simp))
  | send ch wr hpc hch hsend =>
    right
    exact .send ch wr hpc hch hsend
  | recvErr e rest r hpc hpool hprog herr =>
    right
    rw [erase_finishOp { s with m := { s.m with pool := s.m.pool - 1, chunk := some [] } } r none _ rest (ne herr) hprog (by simp)]
    exact .recvErr e _ r hpc hpool (erase_prog_cons hprog (by simp)) herr
  | recvOk e rest hpc hpool hprog herr =>
    right
    rw [erase_finishOp { s with m := { s.m with pool := s.m.pool - 1, chunk := some [e], pos := s.m.pos + 1, len := s.m.len + 1 } } .ok none _ rest (by simp) hprog (by simp)]
    exact .recvOk e _ hpc hpool (erase_prog_cons hprog (by simp)) herr
  | fsend ch wr hpc hch hsend =>
    right
    exact .fsend ch wr hpc hch hsend
  | fwrite w s' hpc hw' =>
    right
    exact .fwrite w (erase s') hpc (erase_wstep hw')
  | waitErr r hpc hwg herr =>
    right
    obtain ⟨rest, hprog⟩ := hf (Or.inr (Or.inr hpc))
    rw [erase_finishOp s r none _ rest (ne herr) hprog (by simp)]
    exact .waitErr r hpc hwg herr
  | waitOk flt fs ok hpc hwg herr hprime =>
    right
    obtain ⟨rest, hprog⟩ := hf (Or.inr (Or.inr hpc))
    rw [erase_finishOp { s with flt := flt, m := { s.m with pos := 0, files := fs } } _ none _ rest
      (by cases ok <;> simp) hprog (by simp)]
    exact .waitOk flt fs ok hpc hwg herr hprime

/-! ### every actor, every reachable state -/

/-- **erasing the rejected pushes commutes with every atomic block**: a block of the system with
    rejected pushes is invisible after erasure (the rejected call itself) or is the same block
    of the system without them -/
theorem erase_step {s t : CState} {i : Nat} (he : ErrOK s) (hf : FinProg s) (h : step s i = some t) :
    (erase t = erase s ∨ step (erase s) i = some (erase t)) ∧ ErrOK t ∧ FinProg t := by
  cases i with
  | zero =>
    have hcs := cstep_cases (show cstep s = some t from h)
    refine ⟨?_, Inv_CStep he hf hcs⟩
    rcases erase_CStep he hf hcs with h1 | h1
    · exact Or.inl h1
    · exact Or.inr (cstep_of_CStep h1)
  | succ k =>
    simp only [step] at h
    cases hk : s.writers[k]? with
    | none => simp [hk] at h
    | some w =>
      simp only [hk] at h
      cases hw : wstep s w with
      | none => simp [hw] at h
      | some p =>
        obtain ⟨w', s'⟩ := p
        simp only [hw, Option.some.injEq] at h; subst h
        obtain ⟨e1, e2, e3⟩ := wstep_wop hw
        refine ⟨Or.inr ?_, ?_, ?_⟩
        · have hk' : (erase s).writers[k]? = some w := hk
          simp only [step, hk', erase_wstep hw]
          rfl
        · show s'.m.err ≠ _
          rcases wstep_err hw with h | h <;> rw [h]
          · exact he
          · simp
        · intro hp
          have hpc : s'.pc = s.pc := (wstep_mu hw).2.2
          show ∃ rest, s'.prog = _
          rw [e3]; exact hf (by rw [← hpc]; exact hp)

/-- **every state reachable with rejected pushes in the program is, after erasure, reachable
    without them** — every program, schedule, fault, mode -/
theorem reach_erase {conc : Bool} {c : Nat} {ac acl : Bool} {ops : List Op} {flt : Fault} {reuse : Bool} {s : CState}
    (h : Reach (sys conc c ac acl ops flt reuse) s) :
    Reach (sys conc c ac acl (dropRejects ops) flt reuse) (erase s) := by
  have : Reach (sys conc c ac acl (dropRejects ops) flt reuse) (erase s) ∧ ErrOK s ∧ FinProg s := by
    induction h with
    | init =>
      refine ⟨Reach.init, by simp [ErrOK, sys, initState], ?_⟩
      intro hp; rcases hp with hp | hp | hp <;> simp [sys, initState] at hp
    | @step a b i _ hst ih =>
      obtain ⟨hr, he, hf⟩ := ih
      obtain ⟨h1, he', hf'⟩ := erase_step he hf hst
      refine ⟨?_, he', hf'⟩
      rcases h1 with h1 | h1
      · rw [h1]; exact hr
      · exact Reach.step hr h1
  exact this.1

theorem finished_erase {s : CState} (h : finished s = true) : finished (erase s) = true := by
  simp only [finished, Bool.and_eq_true, List.isEmpty_iff, beq_iff_eq] at h ⊢
  exact ⟨by show dropRejects s.prog = []; rw [h.1]; rfl, h.2⟩

end Biogo.MorassConc
