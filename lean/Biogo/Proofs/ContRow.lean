/-
`alignment.Row.RevComp` / `Row.Reverse` (and `QRow`): the two-pointer loop over the columns that
touches only entry `r` of every column refines the two-pointer loop on the list of the letters
of row `r`; every other row is untouched.  Core-only.
-/
import Biogo.Proofs.ContAln
import Biogo.Proofs.ContSepOps

namespace Biogo.Containers
open Biogo.Go

/-- the cells of row `r`, one per column -/
def rowVec (h : Cells) (cols : List Slice) (r : Nat) : List QL := cols.map fun c => h.get c r zeroQL

theorem Aln.rowLetters_eq_rowVec (h : Cells) (a : Aln) (r : Nat) :
    a.rowLetters h r = (rowVec h a.cols r).map (Lin.shown a.q) := by
  simp only [Aln.rowLetters, rowVec, List.map_map]; rfl

theorem get_congr_arr {h h' : Cells} {s : Slice} (e : h'.arr s.arr = h.arr s.arr) (i : Nat) (d : QL) :
    h'.get s i d = h.get s i d := by
  simp only [Heap.get, get?_congr_arr e]

/-- one write `c[r] = v` through column `i`, seen on the vector of any row `r'` -/
theorem rowVec_set (h : Cells) (n : Nat) (cols : List Slice) (hw : ColsWF h n cols) (i : Nat) (ci : Slice)
    (hi : cols[i]? = some ci) (r : Nat) (hr : r < n) (v : QL) (r' : Nat) :
    rowVec (h.set ci r v) cols r' = if r' = r then (rowVec h cols r').set i v else rowVec h cols r' := by
  have hvi := hw.1 ci (List.mem_of_getElem? hi)
  have hil : i < cols.length := (List.getElem?_eq_some_iff.mp hi).1
  apply List.ext_getElem?
  intro k
  have hlhs : (rowVec (h.set ci r v) cols r')[k]? = (cols[k]?).map fun c => (h.set ci r v).get c r' zeroQL := by
    simp only [rowVec, List.getElem?_map]
  rw [hlhs]
  -- the entry of column `k`
  have hentry : ∀ ck, cols[k]? = some ck →
      (h.set ci r v).get ck r' zeroQL = if k = i ∧ r' = r then v else h.get ck r' zeroQL := by
    intro ck hk
    by_cases eki : k = i
    · subst eki
      have : ck = ci := by rw [hi] at hk; exact (Option.some.inj hk).symm
      subst this
      simp only [Heap.get, Heap.get?_eq_read]
      rw [Heap.read_set_same h ck r v hvi.1, List.getElem?_set]
      have hlen := hvi.length_read
      by_cases err : r' = r
      · subst err
        simp only [true_and, if_true]
        have : r' < (h.read ck).length := by omega
        simp [this]
      · have : ¬ r = r' := fun e => err e.symm
        simp [this, err]
    · have hne : ci.arr ≠ ck.arr := cols_ne_of_pairwise hw.2 (Ne.symm eki) hi hk
      rw [get_congr_arr (Heap.arr_set_other h ci r v ck.arr hne)]
      simp [eki]
  by_cases err : r' = r
  · subst err
    simp only [if_true]
    rw [List.getElem?_set]
    cases hk : cols[k]? with
    | none =>
      have hkl : cols.length ≤ k := List.getElem?_eq_none_iff.mp hk
      have : ¬ i = k := by omega
      simp only [Option.map_none, this, if_false]
      rw [eq_comm, List.getElem?_eq_none_iff]
      simp only [rowVec, List.length_map]; exact hkl
    | some ck =>
      simp only [Option.map_some]
      rw [hentry ck hk]
      by_cases eki : i = k
      · subst eki
        simp only [rowVec, List.length_map, hil, and_self, if_true]
      · have : ¬ k = i := fun e => eki e.symm
        simp only [this, false_and, if_false, eki]
        simp only [rowVec, List.getElem?_map, hk, Option.map_some]
  · simp only [err, if_false]
    cases hk : cols[k]? with
    | none => simp only [Option.map_none, rowVec, List.getElem?_map, hk]
    | some ck =>
      simp only [Option.map_some]
      rw [hentry ck hk]
      simp only [err, and_false, if_false, rowVec, List.getElem?_map, hk, Option.map_some]

theorem ColsWF.sameShape {A : List Nat} {h h' : Cells} {n : Nat} {cols : List Slice} (hs : SameShape A h h')
    (hw : ColsWF h n cols) : ColsWF h' n cols := hw.congr hs.size hs.arrlen

theorem rowVec_getElem? (h : Cells) (cols : List Slice) (r i : Nat) (ci : Slice) (hi : cols[i]? = some ci) :
    (rowVec h cols r)[i]? = some (h.get ci r zeroQL) := by
  simp only [rowVec, List.getElem?_map, hi, Option.map_some]

theorem get?_of_colValid {h : Cells} {n : Nat} {c : Slice} (hv : ColValid h n c) {r : Nat} (hr : r < n) :
    h.get? c r = some (h.get c r zeroQL) := by
  simp only [Heap.get, Heap.get?_eq_read]
  have := hv.length_read
  have hlt : r < (h.read c).length := by omega
  rw [List.getElem?_eq_getElem hlt]; rfl

/-- one exchange of the loop, seen on the vector of row `r` and on every other row -/
theorem rowVec_rowSwap (f : QL → QL) (h : Cells) (n : Nat) (cols : List Slice) (hw : ColsWF h n cols)
    (i j : Nat) (ci cj : Slice) (hi : cols[i]? = some ci) (hj : cols[j]? = some cj)
    (r : Nat) (hr : r < n) :
    rowVec (Aln.rowSwap f h ci cj r) cols r = swapAt f (rowVec h cols r) i j ∧
    ∀ r', r' ≠ r → rowVec (Aln.rowSwap f h ci cj r) cols r' = rowVec h cols r' := by
  have hvi := hw.1 ci (List.mem_of_getElem? hi)
  have hvj := hw.1 cj (List.mem_of_getElem? hj)
  have hsw : Aln.rowSwap f h ci cj r
      = (h.set ci r (f (h.get cj r zeroQL))).set cj r (f (h.get ci r zeroQL)) := by
    simp only [Aln.rowSwap, get?_of_colValid hvi hr, get?_of_colValid hvj hr]
  have hw1 : ColsWF (h.set ci r (f (h.get cj r zeroQL))) n cols :=
    hw.sameShape (SameShape.set (A := [ci.arr]) h ci r _ (by simp))
  rw [hsw]
  refine ⟨?_, ?_⟩
  · rw [rowVec_set _ n cols hw1 j cj hj r hr _ r, rowVec_set h n cols hw i ci hi r hr _ r]
    simp only [if_true, swapAt, rowVec_getElem? h cols r i ci hi, rowVec_getElem? h cols r j cj hj]
  · intro r' hne
    rw [rowVec_set _ n cols hw1 j cj hj r hr _ r', rowVec_set h n cols hw i ci hi r hr _ r']
    simp only [hne, if_false]

theorem rowVec_hModAt (f : QL → QL) (h : Cells) (n : Nat) (cols : List Slice) (hw : ColsWF h n cols)
    (i : Nat) (ci : Slice) (hi : cols[i]? = some ci) (r : Nat) (hr : r < n) :
    rowVec (hModAt f h ci r) cols r = modAt f (rowVec h cols r) i ∧
    ∀ r', r' ≠ r → rowVec (hModAt f h ci r) cols r' = rowVec h cols r' := by
  have hvi := hw.1 ci (List.mem_of_getElem? hi)
  have hm : hModAt f h ci r = h.set ci r (f (h.get ci r zeroQL)) := by
    simp only [hModAt, get?_of_colValid hvi hr]
  rw [hm]
  refine ⟨?_, ?_⟩
  · rw [rowVec_set h n cols hw i ci hi r hr _ r]
    simp only [if_true, modAt, rowVec_getElem? h cols r i ci hi]
  · intro r' hne
    rw [rowVec_set h n cols hw i ci hi r hr _ r']
    simp only [hne, if_false]

/-- **the loop of `Row.RevComp` / `Row.Reverse` refines the two-pointer loop on the letters of
    that row, and leaves every other row as it was** -/
theorem rowVec_rowLoop (f : QL → QL) (mid : Bool) (n : Nat) (cols : List Slice) (r : Nat) (hr : r < n) :
    ∀ (fuel i j1 : Nat) (h : Cells), ColsWF h n cols → j1 ≤ cols.length →
      rowVec (Aln.rowLoop f mid cols r fuel i j1 h) cols r = twoPtr f mid fuel i j1 (rowVec h cols r) ∧
      ∀ r', r' ≠ r → rowVec (Aln.rowLoop f mid cols r fuel i j1 h) cols r' = rowVec h cols r' := by
  intro fuel
  induction fuel with
  | zero => intro i j1 h _ _; exact ⟨rfl, fun _ _ => rfl⟩
  | succ fuel ih =>
    intro i j1 h hw hj1
    unfold Aln.rowLoop twoPtr
    by_cases h1 : i + 1 < j1
    · simp only [h1, if_true]
      have hil : i < cols.length := by omega
      have hjl : j1 - 1 < cols.length := by omega
      have hi := List.getElem?_eq_getElem hil
      have hj := List.getElem?_eq_getElem hjl
      rw [hi, hj]
      simp only
      obtain ⟨s1, s2⟩ := rowVec_rowSwap f h n cols hw i (j1 - 1) _ _ hi hj r hr
      have hw' : ColsWF (Aln.rowSwap f h cols[i] cols[j1 - 1] r) n cols :=
        hw.sameShape (SameShape.rowSwap (A := cols.map (·.arr)) f h _ _ r
          (mem_arrs_of_getElem? hi) (mem_arrs_of_getElem? hj))
      obtain ⟨t1, t2⟩ := ih (i + 1) (j1 - 1) _ hw' (by omega)
      exact ⟨by rw [t1, s1], fun r' hne => by rw [t2 r' hne, s2 r' hne]⟩
    · simp only [h1, if_false]
      by_cases h2 : (mid && i + 1 == j1) = true
      · simp only [h2, if_true]
        have hil : i < cols.length := by
          simp only [Bool.and_eq_true, beq_iff_eq] at h2; omega
        have hi := List.getElem?_eq_getElem hil
        rw [hi]
        simp only
        exact rowVec_hModAt f h n cols hw i _ hi r hr
      · simp only [h2]; exact ⟨rfl, fun _ _ => rfl⟩

theorem rowVec_length (h : Cells) (cols : List Slice) (r : Nat) : (rowVec h cols r).length = cols.length := by
  simp [rowVec]

/-- **`Row(r).RevComp()` of a column-stored alignment** -/
theorem Aln.rowRevComp_spec (cx : Ctx) (h : Cells) (a : Aln) (n : Nat) (hw : ColsWF h n a.cols) (r : Nat)
    (hr : r < n) :
    (a.rowRevComp cx h r).2.rowLetters (a.rowRevComp cx h r).1 r
        = (a.rowLetters h r).reverse.map (compQL cx.comp) ∧
    (∀ r', r' ≠ r → (a.rowRevComp cx h r).2.rowLetters (a.rowRevComp cx h r).1 r' = a.rowLetters h r') ∧
    ColsWF (a.rowRevComp cx h r).1 n (a.rowRevComp cx h r).2.cols ∧
    (∀ b, b ∉ a.cols.map (·.arr) → (a.rowRevComp cx h r).1.arr b = h.arr b) := by
  obtain ⟨t1, t2⟩ := rowVec_rowLoop (compQL cx.comp) true n a.cols r hr (loopFuel a.cols.length) 0
    a.cols.length h hw (Nat.le_refl _)
  have hs : SameShape (a.cols.map (·.arr)) h (a.rowRevComp cx h r).1 := SameShape.rowLoop _ _ a.cols r _ _ _ h
  have hcols : (a.rowRevComp cx h r).2.cols = a.cols := rfl
  have hq : (a.rowRevComp cx h r).2.q = a.q := rfl
  refine ⟨?_, ?_, by rw [hcols]; exact hw.sameShape hs, hs.frame⟩
  · rw [Aln.rowLetters_eq_rowVec, Aln.rowLetters_eq_rowVec, hcols, hq]
    have e : (a.rowRevComp cx h r).1
        = Aln.rowLoop (compQL cx.comp) true a.cols r (loopFuel a.cols.length) 0 a.cols.length h := rfl
    rw [e, t1]
    have := twoPtr_spec (compQL cx.comp) (rowVec h a.cols r)
    rw [rowVec_length] at this
    rw [this, ← List.map_reverse, List.map_map, List.map_map]
    apply List.map_congr_left
    intro c _
    exact shown_compQL a.q cx.comp c
  · intro r' hne
    rw [Aln.rowLetters_eq_rowVec, Aln.rowLetters_eq_rowVec, hcols, hq]
    have e : (a.rowRevComp cx h r).1
        = Aln.rowLoop (compQL cx.comp) true a.cols r (loopFuel a.cols.length) 0 a.cols.length h := rfl
    rw [e, t2 r' hne]

/-- **`Row(r).Reverse()` of a column-stored alignment** -/
theorem Aln.rowReverse_spec (h : Cells) (a : Aln) (n : Nat) (hw : ColsWF h n a.cols) (r : Nat) (hr : r < n) :
    (a.rowReverse h r).2.rowLetters (a.rowReverse h r).1 r = (a.rowLetters h r).reverse ∧
    (∀ r', r' ≠ r → (a.rowReverse h r).2.rowLetters (a.rowReverse h r).1 r' = a.rowLetters h r') ∧
    ColsWF (a.rowReverse h r).1 n (a.rowReverse h r).2.cols ∧
    (∀ b, b ∉ a.cols.map (·.arr) → (a.rowReverse h r).1.arr b = h.arr b) := by
  obtain ⟨t1, t2⟩ := rowVec_rowLoop id false n a.cols r hr (loopFuel a.cols.length) 0
    a.cols.length h hw (Nat.le_refl _)
  have hs : SameShape (a.cols.map (·.arr)) h (a.rowReverse h r).1 := SameShape.rowLoop _ _ a.cols r _ _ _ h
  have hcols : (a.rowReverse h r).2.cols = a.cols := rfl
  have hq : (a.rowReverse h r).2.q = a.q := rfl
  refine ⟨?_, ?_, by rw [hcols]; exact hw.sameShape hs, hs.frame⟩
  · rw [Aln.rowLetters_eq_rowVec, Aln.rowLetters_eq_rowVec, hcols, hq]
    have e : (a.rowReverse h r).1 = Aln.rowLoop id false a.cols r (loopFuel a.cols.length) 0 a.cols.length h := rfl
    rw [e, t1]
    have := twoPtr_reverse (rowVec h a.cols r)
    rw [rowVec_length] at this
    rw [this, List.map_reverse]
  · intro r' hne
    rw [Aln.rowLetters_eq_rowVec, Aln.rowLetters_eq_rowVec, hcols, hq]
    have e : (a.rowReverse h r).1 = Aln.rowLoop id false a.cols r (loopFuel a.cols.length) 0 a.cols.length h := rfl
    rw [e, t2 r' hne]

theorem getElem?_modify_if {α : Type} (l : List α) (r i : Nat) (f : α → α) :
    (l.modify r f)[i]? = if r = i then (l[i]?).map f else l[i]? := by
  rw [List.getElem?_modify]
  by_cases e : r = i <;> cases l[i]? <;> simp [e]

end Biogo.Containers
