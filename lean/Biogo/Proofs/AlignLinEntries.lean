/-
Matrices larger than the alphabet (C08/C09 part `lin`).  `Align` accepts every square matrix
with at least `alpha.Len()` rows; the model reads the flattened matrix with the row stride
`let = len(a)` (`callS c = matOf la let`).  This file shows that this scoring function is the
matrix entry `a[x][y]` the caller wrote, for a matrix of any accepted size, and that alignments
of the call's sequences score the same under both.  Core-only.
-/
import Biogo.Proofs.AlignLinTotal

namespace Biogo.Proofs.AlignLin
open Biogo.AlignLin Biogo.Spec.AlignPairs Biogo.Spec.Alignment

/-- entry `a[x][y]` of the scoring matrix as the caller wrote it (0 outside the matrix) -/
def entry (m : List (List Int)) : Matrix := fun x y => ((m[x]?).bind (·[y]?)).getD 0

/-- "the letters are indexed by the alphabet": `alpha.LetterIndex()` maps every byte to `-1` or
    to an index below `alpha.Len()` -/
def IndexInAlphabet (c : Call) : Prop := ∀ l, (c.index l).toNat < c.alphaLen

/-- "non-positive gap scores": the entries `a[x][0]` and `a[0][x]` for the letters `x` of the
    alphabet (the further rows and columns of an oversized matrix belong to no letter) -/
def GapEntriesNonPos (c : Call) : Prop :=
  ∀ x, x < c.alphaLen → entry c.mat x 0 ≤ 0 ∧ entry c.mat 0 x ≤ 0

/-- `c'` is a call on the same sequences and alphabet whose matrix agrees with that of `c` on
    the block the alphabet addresses (the matrices may have different sizes) -/
def SameBlock (c c' : Call) : Prop :=
  c'.index = c.index ∧ c'.alphaLen = c.alphaLen ∧ c'.r = c.r ∧ c'.q = c.q ∧
  ∀ x y, x < c.alphaLen → y < c.alphaLen → entry c'.mat x y = entry c.mat x y

theorem callS_entry (c : Call) (hsq : ∀ row ∈ c.mat, row.length = c.mat.length)
    (x y : Nat) (hy : y < c.mat.length) : callS c x y = entry c.mat x y := by
  simp only [callS, matOf, entry]
  rw [toArray_getD, flatten_get c.mat.length c.mat x y hsq hy]

/-- two scoring functions that agree on the letters below `n` give every alignment of letters
    below `n` the same score -/
theorem scoreLin_congr (S S' : Matrix) (n : Nat) (hn : 0 < n)
    (h : ∀ x y, x < n → y < n → S x y = S' x y) :
    ∀ a : Aln, (∀ x ∈ projR a, x < n) → (∀ y ∈ projQ a, y < n) → scoreLin S a = scoreLin S' a := by
  intro a
  induction a with
  | nil => intros; rfl
  | cons col a ih =>
    intro hr hq
    cases col with
    | m x y =>
      simp only [projR, projQ, List.mem_cons, forall_eq_or_imp] at hr hq
      simp only [scoreLin, colScore, h x y hr.1 hq.1, ih hr.2 hq.2]
    | u x =>
      simp only [projR, projQ, List.mem_cons, forall_eq_or_imp] at hr hq
      simp only [scoreLin, colScore, h x 0 hr.1 hn, ih hr.2 hq]
    | l y =>
      simp only [projR, projQ, List.mem_cons, forall_eq_or_imp] at hr hq
      simp only [scoreLin, colScore, h 0 y hn hq.1, ih hr hq.2]

theorem index_pos {c : Call} (hi : IndexInAlphabet c) : 0 < c.alphaLen :=
  Nat.lt_of_le_of_lt (Nat.zero_le _) (hi 0)

theorem callR_lt (c : Call) (hi : IndexInAlphabet c) : ∀ x ∈ callR c, x < c.alphaLen := by
  intro x hx
  simp only [callR, toIdx, List.mem_map] at hx
  obtain ⟨l, _, rfl⟩ := hx
  exact hi l

theorem callQ_lt (c : Call) (hi : IndexInAlphabet c) : ∀ x ∈ callQ c, x < c.alphaLen := by
  intro x hx
  simp only [callQ, toIdx, List.mem_map] at hx
  obtain ⟨l, _, rfl⟩ := hx
  exact hi l

/-- what a call that returned pairs knows about its matrix: at least the alphabet's size
    (possibly larger) and square -/
theorem accepted_matrix {al : Aligner} {c : Call} {ps : List Pair} (h : align al c = .ok ps) :
    c.alphaLen ≤ c.mat.length ∧ ∀ row ∈ c.mat, row.length = c.mat.length := by
  obtain ⟨⟨_, _, _, _, h5, h6, _⟩, _⟩ := align_ok_inv al c ps h
  refine ⟨by omega, ?_⟩
  simpa only [isSquare, List.all_eq_true, beq_iff_eq] using h6

/-- on alignments of (segments of) the call's sequences the model's scoring function and the
    matrix entries give the same score, for a matrix of any accepted size -/
theorem score_by_entries (c : Call) (hi : IndexInAlphabet c) (hsz : c.alphaLen ≤ c.mat.length)
    (hsq : ∀ row ∈ c.mat, row.length = c.mat.length) (a : Aln)
    (hr : ∀ x ∈ projR a, x ∈ callR c) (hq : ∀ y ∈ projQ a, y ∈ callQ c) :
    scoreLin (callS c) a = scoreLin (entry c.mat) a :=
  scoreLin_congr _ _ c.alphaLen (index_pos hi)
    (fun x y _ hy => callS_entry c hsq x y (by omega)) a
    (fun x hx => callR_lt c hi x (hr x hx)) (fun y hy => callQ_lt c hi y (hq y hy))

theorem isLocal_mem {a : Aln} {r q : List Nat} (h : IsLocal a r q) :
    (∀ x ∈ projR a, x ∈ r) ∧ ∀ y ∈ projQ a, y ∈ q := by
  obtain ⟨r1, r2, r3, q1, q2, q3, hr, hq, hg1, hg2⟩ := h
  subst hr hq
  rw [hg1, hg2]
  exact ⟨fun x hx => by simp [hx], fun y hy => by simp [hy]⟩

theorem isFitted_mem {a : Aln} {r q : List Nat} {e : Nat} (h : IsFitted a r q e) :
    (∀ x ∈ projR a, x ∈ r) ∧ ∀ y ∈ projQ a, y ∈ q := by
  obtain ⟨i, _, _, hg1, hg2⟩ := h
  rw [hg1, hg2]
  exact ⟨fun x hx => List.mem_of_mem_take (List.mem_of_mem_drop hx), fun y hy => hy⟩

theorem gapsNonPos_of_entries (c : Call) (hi : IndexInAlphabet c) (hsz : c.alphaLen ≤ c.mat.length)
    (hsq : ∀ row ∈ c.mat, row.length = c.mat.length) (hg : GapEntriesNonPos c) :
    GapsNonPos (callS c) (callR c) (callQ c) := by
  have hpos := index_pos hi
  refine ⟨fun x hx => ?_, fun y hy => ?_⟩
  · rw [callS_entry c hsq x 0 (by omega)]; exact (hg x (callR_lt c hi x hx)).1
  · have := callQ_lt c hi y hy
    rw [callS_entry c hsq 0 y (by omega)]; exact (hg y this).2

end Biogo.Proofs.AlignLin
