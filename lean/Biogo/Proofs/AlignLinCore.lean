/-
The three aligners of the model never reach the `default: panic` of their traceback and return
a well-formed path of their class whose pair scores are the recomputed scores and whose total
is the table value (`nwScore`, `swScore`, `fitScoreAt … (fitEnd …)`).
-/
import Biogo.Proofs.AlignLinTrace
import Biogo.Proofs.AlignLinOpt

namespace Biogo.Proofs.AlignLin
open Biogo.Spec.Alignment Biogo.AlignLin Biogo.Spec.AlignPairs

theorem tabOK_g (S : Matrix) (free : Bool) (r q : List Nat) :
    TabOK S r q (flat (fill S free r q)) false (cellG S free r q) where
  get := fun i j hi hj => fill_cell S free r q i j hi hj
  size := fill_size S free r q
  recur := fun i j hi hj _ => cellG_succ_succ S free r q i j hi hj

theorem tabOK_sw (S : Matrix) (r q : List Nat) :
    TabOK S r q (flat (swFill S r q).1) true (cellS S r q) where
  get := fun i j hi hj => swFill_cell S r q i j hi hj
  size := swFill_size S r q
  recur := fun i j hi hj hne => cellS_succ_succ S r q i j hi hj (hne rfl)

theorem inv_init (S : Matrix) (r q : List Nat) (T : Nat → Nat → Int) (e m : Nat)
    (he : e ≤ r.length) (hm : m ≤ q.length) :
    Inv S r q T e m (T e m) e m .diag 0 e m [] where
  hi := Nat.le_refl _
  hj := Nat.le_refl _
  hI := he
  hJ := hm
  kind := by simp [kindOK]
  sc := by rw [cols_empty]; rfl
  chain := rfl
  accOK := rfl
  tot := by simp [total]

/-- first table row: the query prefix against gaps -/
theorem cellG_first_row (S : Matrix) (free : Bool) (r q : List Nat) : ∀ j, j ≤ q.length →
    cellG S free r q 0 j = scoreLin S ((q.take j).map Col.l) := by
  intro j
  induction j with
  | zero => intro _; simp [cellG_zero_zero, scoreLin]
  | succ j ih =>
    intro hj
    rw [cellG_zero_succ S free r q j (by omega), ih (by omega), List.take_add_one]
    have : q[j]?.toList = [q.getD j 0] := by
      have : j < q.length := by omega
      simp [List.getD, this]
    rw [this, List.map_append, scoreLin_append]
    simp [scoreLin, colScore]

/-- first table column of NW: the reference prefix against gaps -/
theorem cellG_first_col (S : Matrix) (r q : List Nat) : ∀ i, i ≤ r.length →
    cellG S false r q i 0 = scoreLin S ((r.take i).map Col.u) := by
  intro i
  induction i with
  | zero => intro _; simp [cellG_zero_zero, scoreLin]
  | succ i ih =>
    intro hi
    rw [cellG_succ_zero S false r q i (by omega), ih (by omega), List.take_add_one]
    have : r[i]?.toList = [r.getD i 0] := by
      have : i < r.length := by omega
      simp [List.getD, this]
    rw [this, List.map_append, scoreLin_append]
    simp [scoreLin, colScore]

theorem cellG_free_col (S : Matrix) (r q : List Nat) (i : Nat) : cellG S true r q i 0 = 0 := by
  simp [cellG, fitRec_nil]

theorem span_cons_of_chain {p : Pair} {ps : List Pair} {e1 e2 : Nat}
    (h : chainEnd p.a0 p.b0 (p :: ps) = some (e1, e2)) : span (p :: ps) = some (p.a0, p.b0, e1, e2) := by
  simp only [span, h]

/-! ### NW -/

theorem nwCore_spec (S : Matrix) (r q : List Nat) :
    ∃ ps, nwCore S r q = some ps ∧ span ps = some (0, 0, r.length, q.length) ∧
      pairScoresOk S r q ps = true ∧ total ps = nwScore S r q := by
  have hT := tabOK_g S false r q
  obtain ⟨o, last', ho, hinv, hexit⟩ := traceLoop_spec hT r.length q.length _ (r.length + q.length)
    r.length q.length .diag 0 r.length q.length [] (Nat.le_refl _)
    (inv_init S r q _ r.length q.length (Nat.le_refl _) (Nat.le_refl _))
  have hK : cellG S false r q r.length q.length = nwScore S r q :=
    (fill_cell S false r q _ _ (Nat.le_refl _) (Nat.le_refl _)).symm
  obtain ⟨e1, e2, e3⟩ := hinv.emit
  have hoi := Nat.le_trans hinv.hi hinv.hI
  have hoj := Nat.le_trans hinv.hj hinv.hJ
  have hcell := hT.get o.i o.j hoi hoj
  simp only [nwCore, nwTable, ho]
  by_cases hij : o.i ≠ o.j
  · rw [if_pos hij, hcell]
    refine ⟨_, rfl, ?_, ?_, ?_⟩
    · apply span_cons_of_chain
      have hshape : (⟨0, o.i, 0, o.j, cellG S false r q o.i o.j⟩ : Pair).okShape = true := by
        simp only [Pair.okShape, Bool.and_eq_true, Bool.or_eq_true, decide_eq_true_eq, Bool.not_eq_true',
          Bool.and_eq_false_iff, decide_eq_false_iff_not]
        rcases hexit with h | h | h
        · refine ⟨⟨⟨by omega, by omega⟩, ?_⟩, ?_⟩ <;> omega
        · refine ⟨⟨⟨by omega, by omega⟩, ?_⟩, ?_⟩ <;> omega
        · simp at h
      rw [chainEnd_cons_ok _ _ hshape]; exact e1
    · rw [pairScoresOk_cons, e2]
      simp only [Bool.and_true, decide_eq_true_eq]
      rcases hexit with h | h | h
      · rw [h] at hij ⊢
        rw [cols_left, cellG_first_row S false r q o.j hoj]; simp
      · rw [h] at hij ⊢
        rw [cols_up, cellG_first_col S r q o.i hoi]; simp
      · simp at h
    · rw [total_cons, e3, ← hK]; have := hinv.tot; simp only; omega
  · rw [if_neg hij]
    have hz : o.i = 0 ∧ o.j = 0 := by
      rcases hexit with h | h | h
      · omega
      · omega
      · simp at h
    refine ⟨_, rfl, ?_, e2, ?_⟩
    · have := span_cons_of_chain (p := ⟨o.i, o.maxI, o.j, o.maxJ, o.score⟩) e1
      simpa [hz.1, hz.2] using this
    · rw [e3, ← hK]; have := hinv.tot
      rw [hz.1, hz.2, cellG_zero_zero] at this; omega

/-! ### Fitted -/

theorem fitEndGo_range (S : Matrix) (tab : Array Int) (c qv : Nat) : ∀ (rest : List Nat) (y i : Nat) (mx : Int),
    fitEndGo S tab c qv rest y i mx = i ∨
    (y ≤ fitEndGo S tab c qv rest y i mx ∧ fitEndGo S tab c qv rest y i mx < y + rest.length) := by
  intro rest
  induction rest with
  | nil => intro y i mx; left; rfl
  | cons a rest ih =>
    intro y i mx
    simp only [fitEndGo]
    split
    · rcases ih (y + 1) y (tab.getD (y * c + c - 1) 0) with h | h
      · right; rw [h]; simp
      · right; simp only [List.length_cons]; omega
    · rcases ih (y + 1) i mx with h | h
      · left; exact h
      · right; simp only [List.length_cons]; omega

theorem fitEnd_le (S : Matrix) (r q : List Nat) : fitEnd S r q ≤ r.length := by
  rcases fitEndGo_range S (fitTable S r q) (q.length + 1) (q.getD (q.length - 1) 0) r 1 0 minInt with h | h
  · simp only [fitEnd, h]; omega
  · simp only [fitEnd]; omega

theorem fitCore_spec (S : Matrix) (r q : List Nat) :
    ∃ ps i, fitCore S r q = some ps ∧ span ps = some (i, 0, fitEnd S r q, q.length) ∧
      pairScoresOk S r q ps = true ∧ total ps = fitScoreAt S r q (fitEnd S r q) := by
  have hT := tabOK_g S true r q
  have he := fitEnd_le S r q
  obtain ⟨o, last', ho, hinv, hexit⟩ := traceLoop_spec hT (fitEnd S r q) q.length _ (fitEnd S r q + q.length)
    (fitEnd S r q) q.length .diag 0 (fitEnd S r q) q.length [] (Nat.le_refl _)
    (inv_init S r q _ (fitEnd S r q) q.length he (Nat.le_refl _))
  have hK : cellG S true r q (fitEnd S r q) q.length = fitScoreAt S r q (fitEnd S r q) :=
    (fill_cell S true r q _ _ he (Nat.le_refl _)).symm
  obtain ⟨e1, e2, e3⟩ := hinv.emit
  have hoi := Nat.le_trans hinv.hi hinv.hI
  have hoj := Nat.le_trans hinv.hj hinv.hJ
  have hcell := hT.get o.i o.j hoi hoj
  simp only [fitCore, fitTable, ho]
  by_cases hj : o.j ≠ 0
  · rw [if_pos hj, hcell]
    have hi0 : o.i = 0 := by
      rcases hexit with h | h | h
      · exact h
      · exact absurd h hj
      · simp at h
    refine ⟨_, o.i, rfl, ?_, ?_, ?_⟩
    · apply span_cons_of_chain
      have hshape : (⟨o.i, o.i, 0, o.j, cellG S true r q o.i o.j⟩ : Pair).okShape = true := by
        simp only [Pair.okShape, Bool.and_eq_true, Bool.or_eq_true, decide_eq_true_eq, Bool.not_eq_true',
          Bool.and_eq_false_iff, decide_eq_false_iff_not]
        exact ⟨⟨⟨Nat.le_refl _, Nat.zero_le _⟩, Or.inl (Or.inr trivial)⟩, Or.inl (Or.inr (fun h => hj h.symm))⟩
      rw [chainEnd_cons_ok _ _ hshape]; exact e1
    · rw [pairScoresOk_cons, e2]
      simp only [Bool.and_true, decide_eq_true_eq]
      rw [hi0, cols_left, cellG_first_row S true r q o.j hoj]; simp
    · rw [total_cons, e3, ← hK]; have := hinv.tot; simp only; omega
  · rw [if_neg hj]
    have hj0 : o.j = 0 := by omega
    refine ⟨_, o.i, rfl, ?_, e2, ?_⟩
    · have := span_cons_of_chain (p := ⟨o.i, o.maxI, o.j, o.maxJ, o.score⟩) e1
      simpa [hj0] using this
    · rw [e3, ← hK]; have := hinv.tot
      rw [hj0, cellG_free_col] at this; omega

/-! ### SW -/

theorem swCore_spec (S : Matrix) (r q : List Nat) :
    ∃ ps i j, swCore S r q = some ps ∧
      span ps = some (i, j, (swFill S r q).2.i, (swFill S r q).2.j) ∧
      (swFill S r q).2.i ≤ r.length ∧ (swFill S r q).2.j ≤ q.length ∧
      pairScoresOk S r q ps = true ∧ total ps = swScore S r q := by
  have hT := tabOK_sw S r q
  obtain ⟨hbi, hbj, hbest⟩ := sw_best_cell S r q
  obtain ⟨o, last', ho, hinv, hexit⟩ := traceLoop_spec hT (swFill S r q).2.i (swFill S r q).2.j _
    ((swFill S r q).2.i + (swFill S r q).2.j)
    (swFill S r q).2.i (swFill S r q).2.j .diag 0 (swFill S r q).2.i (swFill S r q).2.j [] (Nat.le_refl _)
    (inv_init S r q _ _ _ hbi hbj)
  obtain ⟨e1, e2, e3⟩ := hinv.emit
  have hz : cellS S r q o.i o.j = 0 := by
    rcases hexit with h | h | h
    · rw [h, cellS_zero_left]
    · rw [h, cellS_zero_right]
    · exact h.2
  simp only [swCore, swTable, ho]
  refine ⟨_, o.i, o.j, rfl, ?_, hbi, hbj, e2, ?_⟩
  · exact span_cons_of_chain (p := ⟨o.i, o.maxI, o.j, o.maxJ, o.score⟩) e1
  · rw [e3, ← hbest]; have := hinv.tot; omega

end Biogo.Proofs.AlignLin
