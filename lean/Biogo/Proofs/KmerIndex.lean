/-
Helper lemmas for C10: the finger/pos tables — frequency table, exclusive prefix sum,
counting-sort placement, bucket read-out.  Core-only.
-/
import Biogo.Model.Kmer
import Biogo.Spec.Kmer
import Biogo.Proofs.Kmer

set_option linter.unusedSimpArgs false

namespace Biogo.Proofs.KmerIndex
open Biogo.Kmer Biogo.Spec.Kmer Biogo.Proofs.Kmer

/-! ### reading and writing the tables -/

theorem rd_of_ge (a : Array Nat) (j : Nat) (h : a.size ≤ j) : rd a j = 0 := by
  unfold rd; rw [Array.getElem?_eq_none h]; rfl

theorem rd_incr (a : Array Nat) (i j : Nat) :
    rd (incr a i) j = if i = j ∧ j < a.size then rd a j + 1 else rd a j := by
  unfold rd incr
  rw [Array.getElem?_modify]
  by_cases hij : i = j
  · subst hij
    by_cases hlt : i < a.size
    · simp [hlt]
    · simp [hlt]
  · simp [hij]

theorem size_incr (a : Array Nat) (i : Nat) : (incr a i).size = a.size := by
  unfold incr; exact Array.size_modify

theorem rd_set (a : Array Nat) (i v j : Nat) :
    rd (a.setIfInBounds i v) j = if i = j ∧ i < a.size then v else rd a j := by
  unfold rd
  rw [Array.getElem?_setIfInBounds]
  by_cases hij : i = j
  · subst hij
    by_cases hlt : i < a.size
    · simp [hlt]
    · simp [hlt]
  · simp [hij]

theorem rd_replicate (n j : Nat) : rd (Array.replicate n 0) j = 0 := by
  unfold rd; rw [Array.getElem?_replicate]; split <;> rfl

/-! ### counting calls -/

/-- number of callbacks with word `w` -/
def cnt (cs : List (Nat × Nat)) (w : Nat) : Nat := cs.countP fun c => c.2 == w
/-- number of callbacks with a word below `w` -/
def below (cs : List (Nat × Nat)) (w : Nat) : Nat := cs.countP fun c => decide (c.2 < w)

theorem below_zero (cs : List (Nat × Nat)) : below cs 0 = 0 := by
  unfold below; simp

theorem below_succ (cs : List (Nat × Nat)) (w : Nat) : below cs (w + 1) = below cs w + cnt cs w := by
  unfold below cnt
  induction cs with
  | nil => rfl
  | cons c cs ih =>
    rw [List.countP_cons, List.countP_cons, List.countP_cons, ih]
    by_cases h1 : c.2 < w
    · have h2 : ¬ c.2 = w := by omega
      have h3 : c.2 < w + 1 := by omega
      simp [h1, h2, h3]; omega
    · by_cases h2 : c.2 = w
      · have h3 : c.2 < w + 1 := by omega
        simp [h1, h2, h3]; omega
      · have h3 : ¬ c.2 < w + 1 := by omega
        simp [h1, h2, h3]

theorem below_mono (cs : List (Nat × Nat)) {w w' : Nat} (h : w ≤ w') : below cs w ≤ below cs w' := by
  induction h with
  | refl => exact Nat.le_refl _
  | step _ ih => rw [below_succ]; omega

theorem below_add_cnt_le (cs : List (Nat × Nat)) (w : Nat) : below cs w + cnt cs w ≤ cs.length := by
  rw [← below_succ]; exact List.countP_le_length

theorem cnt_append (cs₁ cs₂ : List (Nat × Nat)) (w : Nat) : cnt (cs₁ ++ cs₂) w = cnt cs₁ w + cnt cs₂ w := by
  unfold cnt; exact List.countP_append

theorem cnt_nil (w : Nat) : cnt [] w = 0 := rfl

theorem cnt_cons_self (c : Nat × Nat) (cs : List (Nat × Nat)) : cnt (c :: cs) c.2 = cnt cs c.2 + 1 := by
  unfold cnt; rw [List.countP_cons]; simp

theorem cnt_cons_ne (c : Nat × Nat) (cs : List (Nat × Nat)) (w : Nat) (h : c.2 ≠ w) :
    cnt (c :: cs) w = cnt cs w := by
  unfold cnt; rw [List.countP_cons]; simp [h]

/-! ### `buildKmerTable` -/

theorem size_foldl_incr (cs : List (Nat × Nat)) (f : Array Nat) :
    (cs.foldl (fun f c => incr f c.2) f).size = f.size := by
  induction cs generalizing f with
  | nil => rfl
  | cons c cs ih => rw [List.foldl_cons, ih, size_incr]

theorem rd_foldl_incr (cs : List (Nat × Nat)) (f : Array Nat) (w : Nat) :
    rd (cs.foldl (fun f c => incr f c.2) f) w = rd f w + (if w < f.size then cnt cs w else 0) := by
  induction cs generalizing f with
  | nil => simp [cnt]
  | cons c cs ih =>
    rw [List.foldl_cons, ih, rd_incr, size_incr]
    by_cases hw : w < f.size
    · by_cases hc : c.2 = w
      · subst hc; rw [cnt_cons_self]; simp [hw]; omega
      · rw [cnt_cons_ne c cs w hc]; simp [hw, hc]
    · simp [hw]

theorem size_buildTable (k : Nat) (cs : List (Nat × Nat)) : (buildTable k cs).size = pow4 k + 1 := by
  unfold buildTable; rw [size_foldl_incr]; simp

theorem rd_buildTable (k : Nat) (cs : List (Nat × Nat)) (w : Nat) (hw : w ≤ pow4 k) :
    rd (buildTable k cs) w = cnt cs w := by
  unfold buildTable
  rw [rd_foldl_incr, rd_replicate]
  simp; intro h; omega

/-! ### the exclusive prefix sum of `Build` -/

/-- `g 0 + … + g (j-1)` -/
def sumTo (g : Nat → Nat) : Nat → Nat
  | 0 => 0
  | j + 1 => sumTo g j + g j

theorem sumTo_cnt (cs : List (Nat × Nat)) (j : Nat) : sumTo (cnt cs) j = below cs j := by
  induction j with
  | zero => rw [below_zero]; rfl
  | succ j ih => rw [sumTo, ih, below_succ]

theorem size_prefixLoop (n : Nat) (f : Array Nat) (i sum : Nat) : (prefixLoop n f i sum).size = f.size := by
  induction n generalizing f i sum with
  | zero => rfl
  | succ n ih => rw [prefixLoop, ih, Array.size_setIfInBounds]

/-- entries below `i` are final, the `n` entries from `i` become prefix sums of the original
    table `g`, later entries are untouched -/
theorem rd_prefixLoop (g : Nat → Nat) (n : Nat) (f : Array Nat) (i sum : Nat)
    (hg : ∀ j, i ≤ j → rd f j = g j) (hsum : sum = sumTo g i) (j : Nat) :
    rd (prefixLoop n f i sum) j =
      if i ≤ j ∧ j < i + n ∧ j < f.size then sumTo g j else rd f j := by
  induction n generalizing f i sum with
  | zero => simp [prefixLoop]; intro h1 h2; omega
  | succ n ih =>
    rw [prefixLoop]
    rw [ih (f.setIfInBounds i sum) (i + 1) (sum + rd f i)
      (by intro j hj; rw [rd_set, if_neg (by omega)]; exact hg j (by omega))
      (by rw [sumTo, hsum, hg i (Nat.le_refl _)]),
      Array.size_setIfInBounds, rd_set]
    by_cases h : i + 1 ≤ j ∧ j < i + 1 + n ∧ j < f.size
    · rw [if_pos h, if_pos ⟨by omega, by omega, h.2.2⟩]
    · rw [if_neg h]
      by_cases hij : i = j ∧ i < f.size
      · rw [if_pos hij, if_pos ⟨by omega, by omega, by omega⟩, hsum, hij.1]
      · rw [if_neg hij, if_neg (by omega)]

/-- after the prefix-sum loop, finger entry `w` is the number of callbacks with a smaller word -/
theorem rd_prefix_buildTable (k : Nat) (cs : List (Nat × Nat)) (w : Nat) (hw : w ≤ pow4 k) :
    rd (prefixLoop (buildTable k cs).size (buildTable k cs) 0 0) w = below cs w := by
  rw [rd_prefixLoop (fun j => rd (buildTable k cs) j) _ _ 0 0 (fun _ _ => rfl) rfl]
  rw [size_buildTable, if_pos ⟨Nat.zero_le _, by omega, by omega⟩]
  have : ∀ j, j ≤ w → sumTo (fun j => rd (buildTable k cs) j) j = sumTo (cnt cs) j := by
    intro j hj
    induction j with
    | zero => rfl
    | succ j ih => rw [sumTo, sumTo, ih (by omega), rd_buildTable k cs j (by omega)]
  rw [this w (Nat.le_refl _), sumTo_cnt]

/-! ### counting-sort placement -/

/-- positions of the callbacks with word `w`, in call order -/
def occ (cs : List (Nat × Nat)) (w : Nat) : List Nat := (cs.filter fun c => c.2 == w).map (·.1)

theorem occ_length (cs : List (Nat × Nat)) (w : Nat) : (occ cs w).length = cnt cs w := by
  unfold occ cnt; rw [List.length_map, List.countP_eq_length_filter]

theorem occ_append (cs₁ cs₂ : List (Nat × Nat)) (w : Nat) : occ (cs₁ ++ cs₂) w = occ cs₁ w ++ occ cs₂ w := by
  unfold occ; rw [List.filter_append, List.map_append]

/-- the state of `Build`'s second pass after the callbacks `cs₁` (of all callbacks `cs`) -/
structure PlaceInv (cs cs₁ : List (Nat × Nat)) (top : Nat) (finger pos : Array Nat) : Prop where
  fsize : top < finger.size
  psize : cs.length ≤ pos.size
  fing : ∀ w, w ≤ top → rd finger w = below cs w + cnt cs₁ w
  bucket : ∀ w j, j < cnt cs₁ w → (occ cs₁ w)[j]? = some (rd pos (below cs w + j))

theorem placeInv_step (cs cs₁ cs₂ : List (Nat × Nat)) (c : Nat × Nat) (top : Nat) (finger pos : Array Nat)
    (hcs : cs = cs₁ ++ c :: cs₂) (hc : c.2 ≤ top) (inv : PlaceInv cs cs₁ top finger pos) :
    PlaceInv cs (cs₁ ++ [c]) top (place (finger, pos) c).1 (place (finger, pos) c).2 := by
  have hplace : place (finger, pos) c = (incr finger c.2, pos.setIfInBounds (rd finger c.2) c.1) := rfl
  rw [hplace]
  have hat : rd finger c.2 = below cs c.2 + cnt cs₁ c.2 := inv.fing c.2 hc
  have hcnt : ∀ w, cnt cs w = cnt cs₁ w + cnt (c :: cs₂) w := by intro w; rw [hcs, cnt_append]
  have hcself : cnt cs c.2 ≥ cnt cs₁ c.2 + 1 := by rw [hcnt, cnt_cons_self]; omega
  have hinb : rd finger c.2 < pos.size := by
    have := below_add_cnt_le cs c.2; have := inv.psize; omega
  constructor
  · simp only [size_incr]; exact inv.fsize
  · simp only [Array.size_setIfInBounds]; exact inv.psize
  · intro w hw
    simp only []
    rw [rd_incr, cnt_append, inv.fing w hw]
    by_cases h : c.2 = w
    · subst h; rw [if_pos ⟨rfl, by have := inv.fsize; omega⟩, cnt_cons_self, cnt_nil]; omega
    · rw [if_neg (fun hh => h hh.1), cnt_cons_ne c [] w h, cnt_nil]; omega
  · intro w j hj
    simp only []
    rw [occ_append, rd_set]
    by_cases h : c.2 = w
    · subst h
      rw [cnt_append, cnt_cons_self, cnt_nil] at hj
      have hocc : occ [c] c.2 = [c.1] := by simp [occ]
      rw [hocc]
      by_cases hj' : j < cnt cs₁ c.2
      · rw [List.getElem?_append_left (by rw [occ_length]; exact hj'), inv.bucket c.2 j hj',
          if_neg (by omega)]
      · have hjeq : j = cnt cs₁ c.2 := by omega
        rw [List.getElem?_append_right (by rw [occ_length]; omega), occ_length, hjeq, Nat.sub_self,
          if_pos ⟨by omega, hinb⟩]
        rfl
    · rw [cnt_append, cnt_cons_ne c [] w h, cnt_nil] at hj
      have hj' : j < cnt cs₁ w := by omega
      have hocc : occ [c] w = [] := by simp [occ, h]
      rw [hocc, List.append_nil, inv.bucket w j hj']
      have hne : rd finger c.2 ≠ below cs w + j := by
        rcases Nat.lt_or_gt_of_ne h with hlt | hgt
        · -- c.2 < w : the bucket of c.2 ends before the bucket of w starts
          have h1 := below_mono cs (show c.2 + 1 ≤ w from hlt)
          rw [below_succ] at h1
          omega
        · have h1 := below_mono cs (show w + 1 ≤ c.2 from hgt)
          rw [below_succ] at h1
          have h2 := hcnt w
          omega
      rw [if_neg (fun hh => hne hh.1)]

theorem placeInv_foldl (cs : List (Nat × Nat)) (top : Nat) (cs₂ cs₁ : List (Nat × Nat))
    (finger pos : Array Nat) (hcs : cs = cs₁ ++ cs₂) (hc : ∀ c ∈ cs₂, c.2 ≤ top)
    (inv : PlaceInv cs cs₁ top finger pos) :
    PlaceInv cs cs top (cs₂.foldl place (finger, pos)).1 (cs₂.foldl place (finger, pos)).2 := by
  induction cs₂ generalizing cs₁ finger pos with
  | nil => rw [List.append_nil] at hcs; rw [hcs]; rw [hcs] at inv; exact inv
  | cons c cs₂ ih =>
    rw [List.foldl_cons]
    have step := placeInv_step cs cs₁ cs₂ c top finger pos hcs (hc c (by simp)) inv
    exact ih (cs₁ ++ [c]) _ _ (by rw [hcs]; simp) (fun x hx => hc x (by simp [hx])) step

/-- reading a bucket back -/
theorem extract_bucket (cs : List (Nat × Nat)) (top : Nat) (finger pos : Array Nat)
    (inv : PlaceInv cs cs top finger pos) (w : Nat) :
    (pos.extract (below cs w) (below cs w + cnt cs w)).toList = occ cs w := by
  apply List.ext_getElem?
  intro t
  rw [Array.getElem?_toList, Array.getElem?_extract]
  have h1 := below_add_cnt_le cs w
  have h2 := inv.psize
  rw [Nat.min_eq_left (by omega), Nat.add_sub_cancel_left]
  by_cases ht : t < cnt cs w
  · rw [if_pos ht, inv.bucket w t ht]
    unfold rd
    rw [Array.getElem?_eq_getElem (by omega)]
    rfl
  · rw [if_neg ht]
    symm
    apply List.getElem?_eq_none
    rw [occ_length]; omega

/-! ### facts about the windows of a plain scan -/

theorem wordOf_some {lk : Lookup} (hlk : FourLetter lk) (k : Nat) (l : List UInt8) (w : Nat)
    (h : wordOf lk k l = some w) : k ≤ l.length ∧ w < 4 ^ k := by
  unfold wordOf at h
  simp only [] at h
  by_cases hlen : (l.take k).length = k
  · rw [if_pos hlen] at h
    cases hd : digits lk (l.take k) with
    | none => rw [hd] at h; simp at h
    | some ds =>
      rw [hd] at h
      simp only [Option.map_some, Option.some.injEq] at h
      have h2 := encode_lt ds (digits_lt hlk hd)
      rw [digits_length hd, hlen] at h2
      rw [List.length_take] at hlen
      exact ⟨by omega, by omega⟩
  · rw [if_neg hlen] at h; simp at h

theorem mem_wordsFrom_bounds {lk : Lookup} (hlk : FourLetter lk) (k : Nat) (l : List UInt8) (p : Nat)
    (c : Nat × Nat) (h : c ∈ wordsFrom lk k l p) : c.2 < 4 ^ k ∧ c.1 + k ≤ p + l.length := by
  obtain ⟨h1, h2, h3⟩ := (mem_wordsFrom_iff lk k l p c).mp h
  have := wordOf_some hlk k _ _ h3
  rw [List.length_drop] at this
  exact ⟨this.2, by omega⟩

theorem wordsFrom_length_le (lk : Lookup) (k : Nat) (l : List UInt8) (p : Nat) :
    (wordsFrom lk k l p).length ≤ l.length + 1 - k := by
  induction l generalizing p with
  | nil => simp [wordsFrom]
  | cons b bs ih =>
    by_cases hshort : (b :: bs).length < k
    · rw [wordsFrom_short lk k _ p hshort]; simp
    · rw [wordsFrom]
      have := ih (p + 1)
      simp only [List.length_cons] at hshort ⊢
      cases wordOf lk k (b :: bs) with
      | none => simp only []; omega
      | some w => simp only [List.length_cons]; omega

theorem validWindows_full {lk : Lookup} (hlk : FourLetter lk) (k : Nat) (s : List UInt8) :
    validWindows lk k s 0 s.length = allWindows lk k s := by
  unfold validWindows allWindows
  rw [List.drop_zero, List.filter_eq_self]
  intro c hc
  have := (mem_wordsFrom_bounds hlk k s 0 c hc).2
  simp; omega

theorem filterMap_congr' {α β} (f g : α → Option β) (l : List α) (h : ∀ x ∈ l, f x = g x) :
    l.filterMap f = l.filterMap g := by
  induction l with
  | nil => rfl
  | cons a l ih =>
    rw [List.filterMap_cons, List.filterMap_cons, h a (by simp), ih (fun x hx => h x (by simp [hx]))]

theorem collect_eq {α} (g : Nat → Option α) (n : Nat) (acc : List α) :
    collect g n acc = (List.range n).filterMap g ++ acc := by
  induction n generalizing acc with
  | zero => simp [collect]
  | succ n ih =>
    rw [collect, ih, List.range_succ, List.filterMap_append]
    cases hg : g n <;> simp [hg]

/-! ### `New` and `Build` on a whole sequence -/

/-- the table `New` builds, as a function of the plain scan -/
theorem new_finger {lk : Lookup} (hlk : FourLetter lk) (k : Nat) (hk1 : 1 ≤ k) (hk2 : 2 * k ≤ wordBits)
    (s : List UInt8) :
    buildTable k (forEachKmer lk k s 0 s.length).calls = buildTable k (allWindows lk k s) := by
  rw [forEachKmer_calls hlk k hk1 hk2, validWindows_full hlk]

theorem build_inv {lk : Lookup} (hlk : FourLetter lk) (k : Nat) (hk1 : 1 ≤ k) (hk2 : 2 * k ≤ wordBits)
    (s : List UInt8) (hs : k ≤ s.length) (ix : Index) (hk : ix.k = k) (hseq : ix.seq = s)
    (hf : ix.finger = buildTable k (allWindows lk k s)) :
    PlaceInv (allWindows lk k s) (allWindows lk k s) (pow4 k) (build lk ix).finger (build lk ix).pos := by
  unfold build
  simp only [hk, hseq, hf]
  rw [forEachKmer_calls hlk k hk1 hk2, validWindows_full hlk]
  apply placeInv_foldl (allWindows lk k s) (pow4 k) (allWindows lk k s) [] _ _ rfl
  · intro c hc
    have := (mem_wordsFrom_bounds hlk k s 0 c hc).1
    rw [pow4_eq]; omega
  · constructor
    · rw [size_prefixLoop, size_buildTable]; omega
    · have := wordsFrom_length_le lk k s 0
      simp only [Array.size_replicate]
      unfold allWindows; omega
    · intro w hw
      rw [rd_prefix_buildTable k _ w hw, cnt_nil]; rfl
    · intro w j hj; rw [cnt_nil] at hj; omega

theorem kmerPositions_of_inv (cs : List (Nat × Nat)) (k : Nat) (hk2 : 2 * k ≤ wordBits) (ix : Index)
    (hk : ix.k = k) (inv : PlaceInv cs cs (pow4 k) ix.finger ix.pos) (w : Nat) (hw : w < 4 ^ k) :
    kmerPositions ix w = .ok (occ cs w) := by
  unfold kmerPositions
  rw [hk, kMask_eq k hk2, if_neg (by omega)]
  simp only []
  have hj : rd ix.finger w = below cs w + cnt cs w := inv.fing w (by rw [pow4_eq]; omega)
  have hi : (if w > 0 then rd ix.finger (w - 1) else 0) = below cs w := by
    by_cases h0 : w > 0
    · rw [if_pos h0, inv.fing (w - 1) (by rw [pow4_eq]; omega), ← below_succ]
      congr 1; omega
    · rw [if_neg h0]; have : w = 0 := by omega
      rw [this, below_zero]
  rw [hi, hj]
  by_cases hc : cnt cs w = 0
  · rw [if_pos (by omega)]
    have : occ cs w = [] := List.eq_nil_of_length_eq_zero (by rw [occ_length]; exact hc)
    rw [this]
  · rw [if_neg (by omega), extract_bucket cs (pow4 k) ix.finger ix.pos inv w]

/-! ### `Check` -/

theorem checkHit_of_inv (cs : List (Nat × Nat)) (k : Nat) (ix : Index)
    (inv : PlaceInv cs cs (pow4 k) ix.finger ix.pos) (c : Nat × Nat) (hc : c ∈ cs) (hw : c.2 < 4 ^ k) :
    checkHit ix c = true := by
  unfold checkHit
  simp only []
  have hj : rd ix.finger c.2 = below cs c.2 + cnt cs c.2 := inv.fing c.2 (by rw [pow4_eq]; omega)
  have hi : (if c.2 = 0 then 0 else rd ix.finger (c.2 - 1)) = below cs c.2 := by
    by_cases h0 : c.2 = 0
    · rw [if_pos h0, h0, below_zero]
    · rw [if_neg h0, inv.fing (c.2 - 1) (by rw [pow4_eq]; omega), ← below_succ]
      congr 1; omega
  rw [hi, hj, Nat.add_sub_cancel_left, List.any_eq_true]
  have hmem : c.1 ∈ occ cs c.2 := by
    unfold occ
    rw [List.mem_map]
    exact ⟨c, by rw [List.mem_filter]; exact ⟨hc, by simp⟩, rfl⟩
  obtain ⟨j, hjlt, hjeq⟩ := List.mem_iff_getElem.mp hmem
  rw [occ_length] at hjlt
  refine ⟨j, List.mem_range.mpr hjlt, ?_⟩
  have hb := inv.bucket c.2 j hjlt
  rw [List.getElem?_eq_getElem (by rw [occ_length]; exact hjlt), hjeq] at hb
  simp only [Option.some.injEq] at hb
  simp [← hb]

theorem check_of_inv {lk : Lookup} (hlk : FourLetter lk) (k : Nat) (hk1 : 1 ≤ k) (hk2 : 2 * k ≤ wordBits)
    (s : List UInt8) (hs : k ≤ s.length) (ix : Index) (hk : ix.k = k) (hseq : ix.seq = s)
    (inv : PlaceInv (allWindows lk k s) (allWindows lk k s) (pow4 k) ix.finger ix.pos) :
    check lk ix = (true, (allWindows lk k s).length) := by
  unfold check
  simp only [hk, hseq]
  rw [forEachKmer_calls hlk k hk1 hk2, validWindows_full hlk, forEachKmer_err lk k s 0 s.length (by omega) (Nat.le_refl _)]
  have hall : ∀ c ∈ allWindows lk k s, checkHit ix c = true := fun c hc =>
    checkHit_of_inv _ k ix inv c hc (mem_wordsFrom_bounds hlk k s 0 c hc).1
  have h1 : ((allWindows lk k s).map (checkHit ix)).all id = true := by
    rw [List.all_eq_true]
    intro x hx
    obtain ⟨c, hc, rfl⟩ := List.mem_map.mp hx
    exact hall c hc
  have h2 : ((allWindows lk k s).map (checkHit ix)).countP id = (allWindows lk k s).length := by
    rw [List.countP_map, List.countP_eq_length.mpr]
    intro c hc
    exact hall c hc
  rw [h1, h2]; rfl

end Biogo.Proofs.KmerIndex
