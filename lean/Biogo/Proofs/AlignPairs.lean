/-
Soundness of the executable spec checkers of `Spec/AlignPairs.lean` against `Spec/Alignment.lean`:
a well-formed pair list decodes to an alignment of the class; `pairScoresOk` makes the total the
score of that alignment; `align.Format`'s rows have equal length and reduce to the aligned
subsequences when gap letters are removed.
-/
import Biogo.Spec.AlignPairs
import Biogo.Proofs.AlignLinOpt

namespace Biogo.Proofs.AlignPairs
open Biogo.Spec.Alignment Biogo.Spec.AlignPairs Biogo.Proofs.AlignLin

theorem projR_map_u (l : List Nat) : projR (l.map Col.u) = l := by
  induction l with | nil => rfl | cons a l ih => simp [projR, ih]
theorem projQ_map_u (l : List Nat) : projQ (l.map Col.u) = [] := by
  induction l with | nil => rfl | cons a l ih => simp [projQ, ih]
theorem projR_map_l (l : List Nat) : projR (l.map Col.l) = [] := by
  induction l with | nil => rfl | cons a l ih => simp [projR, ih]
theorem projQ_map_l (l : List Nat) : projQ (l.map Col.l) = l := by
  induction l with | nil => rfl | cons a l ih => simp [projQ, ih]

theorem projR_zip : ∀ (A B : List Nat), A.length = B.length → projR (List.zipWith Col.m A B) = A := by
  intro A
  induction A with
  | nil => intro B _; simp [projR]
  | cons a A ih =>
    intro B h
    cases B with
    | nil => simp at h
    | cons b B => simp [projR, ih B (by simpa using h)]

theorem projQ_zip : ∀ (A B : List Nat), A.length = B.length → projQ (List.zipWith Col.m A B) = B := by
  intro A
  induction A with
  | nil => intro B h; cases B with
    | nil => simp [projQ]
    | cons b B => simp at h
  | cons a A ih =>
    intro B h
    cases B with
    | nil => simp at h
    | cons b B => simp [projQ, ih B (by simpa using h)]

/-- consecutive windows of a list concatenate -/
theorem window_append {α} (l : List α) (a b e : Nat) (hab : a ≤ b) (hbe : b ≤ e) (he : e ≤ l.length) :
    (l.take b).drop a ++ (l.take e).drop b = (l.take e).drop a := by
  have h1 : l.take b = (l.take e).take b := by rw [List.take_take]; congr 1; omega
  rw [h1]
  have hlen : a ≤ ((l.take e).take b).length := by simp; omega
  conv => rhs; rw [← List.take_append_drop b (l.take e)]
  rw [List.drop_append_of_le_length hlen]

theorem okShape_iff (p : Pair) : p.okShape = true ↔
    (p.a0 ≤ p.a1 ∧ p.b0 ≤ p.b1 ∧ (p.a1 - p.a0 = p.b1 - p.b0 ∨ p.a0 = p.a1 ∨ p.b0 = p.b1) ∧
      (p.a0 = p.a1 → p.b0 = p.b1 → p.score = 0)) := by
  simp only [Pair.okShape, Bool.and_eq_true, Bool.or_eq_true, decide_eq_true_eq, Bool.not_eq_true',
    Bool.and_eq_false_iff, decide_eq_false_iff_not]
  constructor
  · rintro ⟨⟨⟨h1, h2⟩, h3⟩, h4⟩
    refine ⟨h1, h2, ?_, ?_⟩
    · rcases h3 with (h | h) | h
      · exact Or.inl h
      · exact Or.inr (Or.inl h)
      · exact Or.inr (Or.inr h)
    · intro ha hb
      rcases h4 with (h | h) | h
      · exact absurd ha h
      · exact absurd hb h
      · exact h
  · rintro ⟨h1, h2, h3, h4⟩
    refine ⟨⟨⟨h1, h2⟩, ?_⟩, ?_⟩
    · rcases h3 with h | h | h
      · exact Or.inl (Or.inl h)
      · exact Or.inl (Or.inr h)
      · exact Or.inr h
    · by_cases ha : p.a0 = p.a1
      · by_cases hb : p.b0 = p.b1
        · exact Or.inr (h4 ha hb)
        · exact Or.inl (Or.inr hb)
      · exact Or.inl (Or.inl ha)

/-- projections of the columns of one well-shaped pair -/
theorem cols_proj (r q : List Nat) (p : Pair) (hs : p.okShape = true)
    (h1 : p.a1 ≤ r.length) (h2 : p.b1 ≤ q.length) :
    projR (p.cols r q) = (r.take p.a1).drop p.a0 ∧ projQ (p.cols r q) = (q.take p.b1).drop p.b0 := by
  obtain ⟨ha, hb, hk, _⟩ := (okShape_iff p).mp hs
  simp only [Pair.cols]
  by_cases hb0 : p.b0 = p.b1
  · rw [if_pos hb0, projR_map_u, projQ_map_u, hb0]; simp
  · rw [if_neg hb0]
    by_cases ha0 : p.a0 = p.a1
    · rw [if_pos ha0, projR_map_l, projQ_map_l, ha0]; simp
    · rw [if_neg ha0]
      have hlen : ((r.take p.a1).drop p.a0).length = ((q.take p.b1).drop p.b0).length := by
        simp; omega
      exact ⟨projR_zip _ _ hlen, projQ_zip _ _ hlen⟩

theorem chain_decode (r q : List Nat) : ∀ (ps : List Pair) (i j e1 e2 : Nat),
    chainEnd i j ps = some (e1, e2) → e1 ≤ r.length → e2 ≤ q.length →
    i ≤ e1 ∧ j ≤ e2 ∧ projR (decode r q ps) = (r.take e1).drop i ∧
      projQ (decode r q ps) = (q.take e2).drop j := by
  intro ps
  induction ps with
  | nil =>
    intro i j e1 e2 h h1 h2
    simp only [chainEnd, Option.some.injEq, Prod.mk.injEq] at h
    obtain ⟨rfl, rfl⟩ := h
    simp [decode, projR, projQ]
  | cons p ps ih =>
    intro i j e1 e2 h h1 h2
    simp only [chainEnd] at h
    split at h
    · rename_i hc
      obtain ⟨rfl, rfl, hs⟩ := hc
      obtain ⟨ha, hb, hR, hQ⟩ := ih _ _ _ _ h h1 h2
      obtain ⟨hpa, hpb, _, _⟩ := (okShape_iff p).mp hs
      obtain ⟨c1, c2⟩ := cols_proj r q p hs (by omega) (by omega)
      refine ⟨by omega, by omega, ?_, ?_⟩
      · simp only [decode, projR_append, c1, hR]
        exact window_append r _ _ _ hpa ha h1
      · simp only [decode, projQ_append, c2, hQ]
        exact window_append q _ _ _ hpb hb h2
    · simp at h

theorem span_chain {ps : List Pair} {i j e1 e2 : Nat} (h : span ps = some (i, j, e1, e2)) :
    chainEnd i j ps = some (e1, e2) := by
  cases ps with
  | nil => simp [span] at h
  | cons p ps =>
    simp only [span] at h
    split at h
    · rename_i a b hc
      simp only [Option.some.injEq, Prod.mk.injEq] at h
      obtain ⟨rfl, rfl, rfl, rfl⟩ := h
      exact hc
    · simp at h

/-- a well-formed global path describes a global alignment -/
theorem wellFormed_global_sound (r q : List Nat) (ps : List Pair)
    (h : wellFormed .global r.length q.length ps = true) : IsGlobal (decode r q ps) r q := by
  simp only [wellFormed] at h
  split at h
  · simp at h
  · rename_i i j e1 e2 hs
    simp only [Bool.and_eq_true, decide_eq_true_eq] at h
    obtain ⟨⟨⟨rfl, rfl⟩, rfl⟩, rfl⟩ := h
    obtain ⟨_, _, hR, hQ⟩ := chain_decode r q ps _ _ _ _ (span_chain hs) (Nat.le_refl _) (Nat.le_refl _)
    exact ⟨by simpa using hR, by simpa using hQ⟩

/-- a well-formed local path describes a local alignment -/
theorem wellFormed_local_sound (r q : List Nat) (ps : List Pair)
    (h : wellFormed .loc r.length q.length ps = true) : IsLocal (decode r q ps) r q := by
  simp only [wellFormed] at h
  split at h
  · simp at h
  · rename_i i j e1 e2 hs
    simp only [Bool.and_eq_true, decide_eq_true_eq] at h
    obtain ⟨h1, h2⟩ := h
    obtain ⟨hi, hj, hR, hQ⟩ := chain_decode r q ps _ _ _ _ (span_chain hs) h1 h2
    refine ⟨r.take i, (r.take e1).drop i, r.drop e1, q.take j, (q.take e2).drop j, q.drop e2, ?_, ?_, hR, hQ⟩
    · have := window_append r 0 i e1 (Nat.zero_le _) hi h1
      simp only [List.drop_zero] at this
      rw [this, List.take_append_drop]
    · have := window_append q 0 j e2 (Nat.zero_le _) hj h2
      simp only [List.drop_zero] at this
      rw [this, List.take_append_drop]

/-- a well-formed fitted path that consumes the query describes an alignment of the whole query
    with a reference segment ending at `endRef` -/
theorem wellFormed_fitted_sound (r q : List Nat) (ps : List Pair)
    (h : wellFormed .fitted r.length q.length ps = true) (hc : consumesQuery q.length ps = true) :
    IsFitted (decode r q ps) r q (endRef ps) := by
  simp only [wellFormed] at h
  split at h
  · simp at h
  · rename_i i j e1 e2 hs
    simp only [Bool.and_eq_true, decide_eq_true_eq] at h
    obtain ⟨h1, h2⟩ := h
    simp only [consumesQuery, hs, Bool.and_eq_true, decide_eq_true_eq] at hc
    obtain ⟨rfl, rfl⟩ := hc
    obtain ⟨hi, _, hR, hQ⟩ := chain_decode r q ps _ _ _ _ (span_chain hs) h1 (Nat.le_refl _)
    simp only [endRef, hs]
    exact ⟨i, hi, h1, hR, by simpa using hQ⟩

/-- faithful pair scores make the total the score of the described alignment -/
theorem pairScores_total (S : Matrix) (r q : List Nat) : ∀ (ps : List Pair),
    pairScoresOk S r q ps = true → total ps = scoreLin S (decode r q ps) := by
  intro ps
  induction ps with
  | nil => intro _; simp [total, decode, scoreLin]
  | cons p ps ih =>
    intro h
    simp only [pairScoresOk, List.all_cons, Bool.and_eq_true, decide_eq_true_eq] at h
    have := ih (by simpa [pairScoresOk] using h.2)
    simp only [total, List.map_cons, List.sum_cons, decode, scoreLin_append] at this ⊢
    omega

/-! ### `align.Format` -/

theorem filter_window {α} [DecidableEq α] (gap : α) (l : List α) (a b : Nat) (h : ¬ gap ∈ l) :
    ((l.take b).drop a).filter (· ≠ gap) = (l.take b).drop a := by
  apply List.filter_eq_self.mpr
  intro x hx
  have : x ∈ l := List.mem_of_mem_take (List.mem_of_mem_drop hx)
  simp only [ne_eq, decide_not, Bool.not_eq_eq_eq_not, Bool.not_true, decide_eq_false_iff_not]
  intro hxg; subst hxg; exact h this

theorem filter_replicate_gap {α} [DecidableEq α] (gap : α) (n : Nat) :
    (List.replicate n gap).filter (· ≠ gap) = [] := by
  simp [List.filter_eq_nil_iff]

/-- "Format renders two equal-length rows that reduce to the aligned subsequences when gap
    letters are removed" for a chain of well-shaped pairs within the sequences -/
theorem format_chain {α} [DecidableEq α] (gap : α) (r q : List α) : ∀ (ps : List Pair) (i j e1 e2 : Nat),
    chainEnd i j ps = some (e1, e2) → e1 ≤ r.length → e2 ≤ q.length →
    (formatRows gap r q ps).1.length = (formatRows gap r q ps).2.length ∧
    (¬ gap ∈ r → (formatRows gap r q ps).1.filter (· ≠ gap) = (r.take e1).drop i) ∧
    (¬ gap ∈ q → (formatRows gap r q ps).2.filter (· ≠ gap) = (q.take e2).drop j) ∧
    i ≤ e1 ∧ j ≤ e2 := by
  intro ps
  induction ps with
  | nil =>
    intro i j e1 e2 h h1 h2
    simp only [chainEnd, Option.some.injEq, Prod.mk.injEq] at h
    obtain ⟨rfl, rfl⟩ := h
    simp [formatRows]
  | cons p ps ih =>
    intro i j e1 e2 h h1 h2
    simp only [chainEnd] at h
    split at h
    · rename_i hc
      obtain ⟨rfl, rfl, hs⟩ := hc
      obtain ⟨hlen, hR, hQ, ha, hb⟩ := ih _ _ _ _ h h1 h2
      obtain ⟨hpa, hpb, hk, _⟩ := (okShape_iff p).mp hs
      simp only [formatRows]
      refine ⟨?_, ?_, ?_, by omega, by omega⟩
      · simp only [List.length_append, hlen]
        congr 1
        by_cases ha0 : p.a1 - p.a0 = 0 <;> by_cases hb0 : p.b1 - p.b0 = 0 <;>
          simp [ha0, hb0] <;> omega
      · intro hg
        rw [List.filter_append, hR hg]
        by_cases ha0 : p.a1 - p.a0 = 0
        · rw [if_pos ha0, filter_replicate_gap]
          have : p.a0 = p.a1 := by omega
          rw [this]; simp
        · rw [if_neg ha0, filter_window gap r _ _ hg]
          exact window_append r _ _ _ hpa ha h1
      · intro hg
        rw [List.filter_append, hQ hg]
        by_cases hb0 : p.b1 - p.b0 = 0
        · rw [if_pos hb0, filter_replicate_gap]
          have : p.b0 = p.b1 := by omega
          rw [this]; simp
        · rw [if_neg hb0, filter_window gap q _ _ hg]
          exact window_append q _ _ _ hpb hb h2
    · simp at h

end Biogo.Proofs.AlignPairs
