/-
Lemmas about `Biogo.Go.Bytes` used by the FASTA/FASTQ theorems: line splitting, trimming
and blank removal on lines made of visible ASCII content followed by blanks, header
splitting.  Core Lean only.
-/
import Biogo.Go.Bytes
import Biogo.Spec.Seqio

namespace Biogo.Go.Bytes
open Biogo.Spec.Seqio

/-! ### bytes -/

theorem visible_iff (a : UInt8) : visible a = true ↔
    a.toNat < 128 ∧ a.toNat ≠ 9 ∧ a.toNat ≠ 10 ∧ a.toNat ≠ 11 ∧ a.toNat ≠ 12 ∧ a.toNat ≠ 13 ∧ a.toNat ≠ 32 := by
  simp [visible, isAsciiSpace, UInt8.lt_iff_toNat_lt, ← UInt8.toNat_inj]
  omega

theorem isAsciiSpace_iff (a : UInt8) : isAsciiSpace a = true ↔
    a.toNat = 9 ∨ a.toNat = 10 ∨ a.toNat = 11 ∨ a.toNat = 12 ∨ a.toNat = 13 ∨ a.toNat = 32 := by
  simp [isAsciiSpace, ← UInt8.toNat_inj]
  omega

theorem isBlank_iff (a : UInt8) : isBlank a = true ↔
    a.toNat = 9 ∨ a.toNat = 11 ∨ a.toNat = 12 ∨ a.toNat = 13 ∨ a.toNat = 32 := by
  simp [isBlank, ← UInt8.toNat_inj]
  omega

theorem isBlank_space {a : UInt8} (h : isBlank a = true) : isAsciiSpace a = true := by
  rw [isBlank_iff] at h; rw [isAsciiSpace_iff]; omega

theorem isBlank_ne_lf {a : UInt8} (h : isBlank a = true) : a ≠ 10 := by
  rw [isBlank_iff] at h; intro e; subst e; simp at h

theorem visible_not_space {a : UInt8} (h : visible a = true) : isAsciiSpace a = false := by
  rw [visible_iff] at h
  cases hs : isAsciiSpace a with
  | false => rfl
  | true => rw [isAsciiSpace_iff] at hs; omega

theorem visible_lt {a : UInt8} (h : visible a = true) : a.toNat < 128 := ((visible_iff a).mp h).1

theorem visible_ne_lf {a : UInt8} (h : visible a = true) : a ≠ 10 := by
  rw [visible_iff] at h; intro e; subst e; simp at h

theorem space_lt {a : UInt8} (h : isAsciiSpace a = true) : a.toNat < 128 := by
  rw [isAsciiSpace_iff] at h; omega

/-- an ASCII byte is none of the lead bytes of a multi-byte space -/
theorem ascii_not_lead {a : UInt8} (h : a.toNat < 128) :
    (a == 0xC2) = false ∧ ∀ b c, isSp3 a b c = false := by
  have hC2 : (a == 0xC2) = false := by simp [← UInt8.toNat_inj]; omega
  have e1 : (a == 0xE1) = false := by simp [← UInt8.toNat_inj]; omega
  have e2 : (a == 0xE2) = false := by simp [← UInt8.toNat_inj]; omega
  have e3 : (a == 0xE3) = false := by simp [← UInt8.toNat_inj]; omega
  exact ⟨hC2, fun b c => by simp [isSp3, e1, e2, e3]⟩

/-! ### lines -/

theorem splitLinesAux_line (l rest cur : Bytes) (h : ∀ b ∈ l, b ≠ 10) :
    splitLinesAux (l ++ 10 :: rest) cur
      = (dropCR (l.reverse ++ cur)).reverse :: splitLinesAux rest [] := by
  induction l generalizing cur with
  | nil => simp [splitLinesAux]
  | cons a l ih =>
    have ha : a ≠ 10 := h a (by simp)
    have hl : ∀ b ∈ l, b ≠ 10 := fun b hb => h b (by simp [hb])
    simp [splitLinesAux, ha, ih _ hl]

theorem splitLinesAux_last (l cur : Bytes) (h : ∀ b ∈ l, b ≠ 10) :
    splitLinesAux l cur = if (l.reverse ++ cur).isEmpty then [] else [(l.reverse ++ cur).reverse] := by
  induction l generalizing cur with
  | nil => simp [splitLinesAux]
  | cons a l ih =>
    have ha : a ≠ 10 := h a (by simp)
    have hl : ∀ b ∈ l, b ≠ 10 := fun b hb => h b (by simp [hb])
    simp [splitLinesAux, ha, ih _ hl]

/-- a line as `ReadLine` returns it when it was terminated by LF: one CR before the LF dropped -/
def stripCR (l : Bytes) : Bytes := (dropCR l.reverse).reverse

theorem splitLines_line (l rest : Bytes) (h : ∀ b ∈ l, b ≠ 10) :
    splitLines (l ++ 10 :: rest) = stripCR l :: splitLines rest := by
  simp [splitLines, stripCR, splitLinesAux_line l rest [] h]

theorem splitLines_last (l : Bytes) (h : ∀ b ∈ l, b ≠ 10) (hne : l ≠ []) : splitLines l = [l] := by
  simp [splitLines, splitLinesAux_last l [] h, hne]

theorem splitLines_nil : splitLines [] = [] := by simp [splitLines, splitLinesAux]

/-! ### trimming -/

theorem trimLeft_ascii_head (a : UInt8) (rest : Bytes) (h1 : a.toNat < 128)
    (h2 : isAsciiSpace a = false) : trimLeft (a :: rest) = a :: rest := by
  obtain ⟨hC2, h3⟩ := ascii_not_lead h1
  unfold trimLeft
  simp only [h2]
  cases rest with
  | nil => simp
  | cons b r =>
    cases r with
    | nil => simp [hC2]
    | cons c r' => simp [hC2, h3]

theorem trimLeft_spaces (p : Bytes) (hp : ∀ b ∈ p, isAsciiSpace b = true) (rest : Bytes) :
    trimLeft (p ++ rest) = trimLeft rest := by
  induction p with
  | nil => rfl
  | cons a p ih =>
    have ha := hp a (by simp)
    have : trimLeft (a :: (p ++ rest)) = trimLeft (p ++ rest) := by
      conv => lhs; unfold trimLeft
      simp [ha]
    simpa [this] using ih (fun b hb => hp b (by simp [hb]))

theorem trimRev_ascii_head (z : UInt8) (rest : Bytes) (h1 : z.toNat < 128)
    (h2 : isAsciiSpace z = false) : trimRev (z :: rest) = z :: rest := by
  have hz : z < 0x80 := by simp [UInt8.lt_iff_toNat_lt]; omega
  unfold trimRev
  simp [hz, h2]

theorem trimRev_spaces (p : Bytes) (hp : ∀ b ∈ p, isAsciiSpace b = true) (rest : Bytes) :
    trimRev (p ++ rest) = trimRev rest := by
  induction p with
  | nil => rfl
  | cons a p ih =>
    have ha := hp a (by simp)
    have hz : a < 0x80 := by have := space_lt ha; simp [UInt8.lt_iff_toNat_lt]; omega
    have : trimRev (a :: (p ++ rest)) = trimRev (p ++ rest) := by
      conv => lhs; unfold trimRev
      simp [hz, ha]
    simpa [this] using ih (fun b hb => hp b (by simp [hb]))

theorem trimLeft_nil : trimLeft [] = [] := by simp [trimLeft]
theorem trimRev_nil : trimRev [] = [] := by simp [trimRev]

/-- content that starts and ends with a visible byte (or is empty), followed by blanks -/
theorem trimSpace_padded (c post : Bytes)
    (hh : ∀ a, c.head? = some a → a.toNat < 128 ∧ isAsciiSpace a = false)
    (hl : ∀ a, c.getLast? = some a → a.toNat < 128 ∧ isAsciiSpace a = false)
    (hp : ∀ b ∈ post, isAsciiSpace b = true) : trimSpace (c ++ post) = c := by
  cases c with
  | nil =>
    have h0 : trimLeft post = [] := by
      have := trimLeft_spaces post hp []
      simpa [trimLeft_nil] using this
    simp [trimSpace, h0, trimRight, trimRev_nil]
  | cons a c' =>
    obtain ⟨h1, h2⟩ := hh a rfl
    have hL : trimLeft (a :: c' ++ post) = a :: c' ++ post := by
      simpa using trimLeft_ascii_head a (c' ++ post) h1 h2
    simp only [trimSpace, hL, trimRight]
    have hrev : (a :: c' ++ post).reverse = post.reverse ++ (a :: c').reverse := by simp
    rw [hrev, trimRev_spaces post.reverse (fun b hb => hp b (by simpa using hb))]
    -- the last byte of the content stops the right trim
    cases hc : (a :: c').reverse with
    | nil => simp at hc
    | cons z zs =>
      have hz : (a :: c').getLast? = some z := by
        rw [List.getLast?_eq_head?_reverse, hc]; rfl
      obtain ⟨g1, g2⟩ := hl z hz
      rw [trimRev_ascii_head z zs g1 g2, ← hc]
      simp

/-! ### trailing blanks on arbitrary lines -/

theorem isSp2_ascii {b : UInt8} (h : b.toNat < 128) : isSp2 b = false := by
  simp [isSp2, ← UInt8.toNat_inj]; omega

theorem isSp3_ascii_third (a b : UInt8) {c : UInt8} (h : c.toNat < 128) : isSp3 a b c = false := by
  have h1 : (c == 0x80) = false := by simp [← UInt8.toNat_inj]; omega
  have h2 : (0x80 ≤ c) = False := by simp [UInt8.le_iff_toNat_le]; omega
  have h3 : (c == 0xA8) = false := by simp [← UInt8.toNat_inj]; omega
  have h4 : (c == 0xA9) = false := by simp [← UInt8.toNat_inj]; omega
  have h5 : (c == 0xAF) = false := by simp [← UInt8.toNat_inj]; omega
  have h6 : (c == 0x9F) = false := by simp [← UInt8.toNat_inj]; omega
  simp [isSp3, h1, h2, h3, h4, h5, h6]

/-- appending one ASCII byte does not change what the left trim removes -/
theorem trimLeft_snoc_ascii (l : Bytes) (x : UInt8) (hx : x.toNat < 128) (hs : isAsciiSpace x = true) :
    trimLeft (l ++ [x]) = if trimLeft l = [] then [] else trimLeft l ++ [x] := by
  fun_induction trimLeft l with
  | case1 => simp [trimLeft, hs]
  | case2 a rest h ih =>
    have : trimLeft (a :: rest ++ [x]) = trimLeft (rest ++ [x]) := by
      conv => lhs; unfold trimLeft
      simp [h]
    rw [this, ih]
  | case3 a h =>
    have : trimLeft [a, x] = [a, x] := by
      unfold trimLeft
      simp [h, isSp2_ascii hx]
    simp [this]
  | case4 a h b r hc ih =>
    have : trimLeft (a :: b :: r ++ [x]) = trimLeft (r ++ [x]) := by
      conv => lhs; unfold trimLeft
      simp [h, hc]
    rw [this, ih]
  | case5 a h b hc =>
    have : trimLeft [a, b, x] = [a, b, x] := by
      unfold trimLeft
      simp [h, hc, isSp3_ascii_third a b hx]
    simp [this]
  | case6 a h b hc c r' h3 ih =>
    have : trimLeft (a :: b :: c :: r' ++ [x]) = trimLeft (r' ++ [x]) := by
      conv => lhs; unfold trimLeft
      simp [h, hc, h3]
    rw [this, ih]
  | case7 a h b hc c r' h3 =>
    have : trimLeft (a :: b :: c :: (r' ++ [x])) = a :: b :: c :: (r' ++ [x]) := by
      conv => lhs; unfold trimLeft
      simp [h, hc, h3]
    simp [this]

/-- a trailing ASCII blank never survives `bytes.TrimSpace`, whatever the line is -/
theorem trimSpace_snoc_space (l : Bytes) (x : UInt8) (hs : isAsciiSpace x = true) :
    trimSpace (l ++ [x]) = trimSpace l := by
  unfold trimSpace
  rw [trimLeft_snoc_ascii l x (space_lt hs) hs]
  by_cases h : trimLeft l = []
  · simp [h]
  · simp only [h, if_false, trimRight]
    have := trimRev_spaces [x] (by simpa using hs) (trimLeft l).reverse
    simp at this ⊢
    rw [this]

theorem dropCR_cases (l : Bytes) : dropCR l = l ∨ ∃ t, l = 13 :: t ∧ dropCR l = t := by
  unfold dropCR
  split
  · exact .inr ⟨_, rfl, rfl⟩
  · exact .inl rfl

/-- dropping the CR before the LF does not change the trimmed line -/
theorem trimSpace_stripCR (l : Bytes) : trimSpace (stripCR l) = trimSpace l := by
  unfold stripCR
  rcases dropCR_cases l.reverse with e | ⟨t, e1, e2⟩
  · rw [e]; simp
  · rw [e2]
    have : l = t.reverse ++ [13] := by
      have := congrArg List.reverse e1
      simpa using this
    rw [this, trimSpace_snoc_space _ 13 (by decide)]

/-! ### blank removal -/

theorem removeSpaces_single (b : UInt8) : removeSpaces [b] = if isAsciiSpace b then [] else [b] := by
  unfold removeSpaces
  by_cases h : isAsciiSpace b = true
  · simp [h, removeSpaces]
  · simp [h]

theorem removeSpaces_ascii_head (a : UInt8) (rest : Bytes) (h1 : a.toNat < 128)
    (h2 : isAsciiSpace a = false) : removeSpaces (a :: rest) = a :: removeSpaces rest := by
  obtain ⟨hC2, h3⟩ := ascii_not_lead h1
  conv => lhs; unfold removeSpaces
  simp only [h2]
  cases rest with
  | nil => simp [removeSpaces]
  | cons b r =>
    cases r with
    | nil => simp [hC2, removeSpaces_single]
    | cons c r' => simp [hC2, h3]

theorem removeSpaces_space_head (a : UInt8) (rest : Bytes) (h : isAsciiSpace a = true) :
    removeSpaces (a :: rest) = removeSpaces rest := by
  conv => lhs; unfold removeSpaces
  simp [h]

theorem removeSpaces_spaces (p : Bytes) (hp : ∀ b ∈ p, isAsciiSpace b = true) : removeSpaces p = [] := by
  induction p with
  | nil => simp [removeSpaces]
  | cons a p ih =>
    rw [removeSpaces_space_head a p (hp a (by simp))]
    exact ih (fun b hb => hp b (by simp [hb]))

theorem removeSpaces_visible_append (l r : Bytes) (hl : ∀ b ∈ l, visible b = true) :
    removeSpaces (l ++ r) = l ++ removeSpaces r := by
  induction l with
  | nil => rfl
  | cons a l ih =>
    have ha := hl a (by simp)
    rw [List.cons_append, removeSpaces_ascii_head a (l ++ r) (visible_lt ha) (visible_not_space ha),
      ih (fun b hb => hl b (by simp [hb]))]
    rfl

theorem removeSpaces_padded (l post : Bytes) (hl : ∀ b ∈ l, visible b = true)
    (hp : ∀ b ∈ post, isAsciiSpace b = true) : removeSpaces (l ++ post) = l := by
  rw [removeSpaces_visible_append l post hl, removeSpaces_spaces post hp]; simp

theorem removeSpaces_visible (l : Bytes) (hl : ∀ b ∈ l, visible b = true) : removeSpaces l = l := by
  simpa using removeSpaces_padded l [] hl (by simp)

/-! ### header splitting -/

theorem indexAnySpTab_visible (l : Bytes) (hl : ∀ b ∈ l, visible b = true) (rest : Bytes) :
    indexAnySpTab (l ++ rest) = (indexAnySpTab rest).map (· + l.length) := by
  induction l with
  | nil => simp [indexAnySpTab]
  | cons a l ih =>
    have ha := hl a (by simp)
    have hne : (a == 32 || a == 9) = false := by
      rw [visible_iff] at ha
      simp [← UInt8.toNat_inj]; omega
    have ih' := ih (fun b hb => hl b (by simp [hb]))
    simp only [indexAnySpTab] at ih' ⊢
    rw [List.cons_append, List.findIdx?_cons, hne, ih']
    cases List.findIdx? (fun b => b == 32 || b == 9) rest <;> simp
    omega

theorem indexAnySpTab_visible_nil (l : Bytes) (hl : ∀ b ∈ l, visible b = true) :
    indexAnySpTab l = none := by
  have := indexAnySpTab_visible l hl []
  simpa [indexAnySpTab] using this

end Biogo.Go.Bytes
