/-
Truncate and Join of the heap model: what the result shows, that nothing old is written,
that the guards exclude every panic (core only).
-/
import Biogo.Proofs.SequtilsHeap
import Biogo.Proofs.SequtilsPos

set_option linter.unusedSectionVars false

namespace Biogo.Sequtils

variable {α : Type} [Inhabited α]

/-- nothing that existed before the call is written; the heap only grows -/
def Keeps (h h' : Heap α) : Prop := h.length ≤ h'.length ∧ ∀ i, i < h.length → h'.arr i = h.arr i

theorem Keeps.refl (h : Heap α) : Keeps h h := ⟨Nat.le_refl _, fun _ _ => rfl⟩

/-- the three successful shapes of `truncate` -/
theorem truncate_cases (h : Heap α) (src : Seq) (same : Bool) (start stop : Int) (h' : Heap α) (r : Seq)
    (wf : WF h src.sl) (hr : truncate h src same start stop = .ok (h', r)) :
    r.offset = start ∧ r.conf = confLinear ∧ src.offset ≤ start ∧ stop ≤ src.stop ∧
    ((start ≤ stop ∧
        read h' r.sl = ((read h src.sl).drop (start - src.offset).toNat).take (stop - start).toNat) ∨
     (stop < start ∧ src.conf ≠ confLinear ∧ src.offset ≤ stop ∧ start ≤ src.stop ∧
        read h' r.sl = ((read h src.sl).drop (start - src.offset).toNat).take (src.stop - start).toNat ++
                       ((read h src.sl).drop 0).take (stop - src.offset).toNat)) ∧
    Keeps h h' ∧ (same = false ∨ stop < start → h.length ≤ r.sl.arr) := by
  have hlen := read_length h src.sl wf
  have hstop : src.stop = src.offset + src.sl.len := rfl
  unfold truncate at hr
  dsimp only at hr
  split at hr
  · cases hr
  rename_i hrange
  split at hr
  · rename_i hle
    split at hr
    · -- dst == src: a re-slice
      rename_i hsame
      simp only [bind, Except.bind, pure, Except.pure] at hr
      split at hr
      · cases hr
      rename_i s hs
      simp only [Except.ok.injEq, Prod.mk.injEq] at hr
      obtain ⟨rfl, rfl⟩ := hr
      refine ⟨rfl, rfl, by omega, by omega, Or.inl ⟨hle, ?_⟩, Keeps.refl _, ?_⟩
      · rw [read_slice h src.sl _ _ s hs (by omega)]
        congr 1; omega
      · intro hc; rcases hc with hc | hc
        · simp [hsame] at hc
        · omega
    · -- a copy
      simp only [bind, Except.bind, pure, Except.pure] at hr
      split at hr
      · cases hr
      rename_i x h1t hmk
      obtain ⟨h1, t⟩ := h1t
      split at hr
      · cases hr
      rename_i s hs
      simp only [Except.ok.injEq, Prod.mk.injEq] at hr
      obtain ⟨rfl, rfl⟩ := hr
      obtain ⟨_, _, m3, m4, m5, m6, m7, m8, m9, m10⟩ := mk_spec h _ _ h1 t hmk
      have es : h1.arr s.arr = h.arr s.arr := by
        rw [slice_arr _ _ _ _ hs]; exact m9 _ wf.1
      refine ⟨rfl, rfl, by omega, by omega, Or.inl ⟨hle, ?_⟩, ⟨?_, ?_⟩, ?_⟩
      · rw [append_read h1 t s m8, m10, read_congr h h1 s es, read_slice h src.sl _ _ s hs (by omega)]
        simp only [Int.toNat_zero, List.replicate_zero, List.nil_append]
        congr 1; omega
      · have := append_length h1 t s; omega
      · intro i hi
        rw [append_other h1 t s i (by omega) (by omega)]
        exact m9 i hi
      · intro _
        rcases append_arr h1 t s with e | e <;> simp only [e] <;> omega
  · rename_i hgt
    split at hr
    · cases hr
    rename_i hconf
    by_cases hrange2 : stop < src.offset ∨ start > src.stop
    · rw [if_pos hrange2] at hr; cases hr
    rw [if_neg hrange2] at hr
    simp only [bind, Except.bind, pure, Except.pure] at hr
    split at hr
    · cases hr
    rename_i x h1t hmk
    obtain ⟨h1, t⟩ := h1t
    split at hr
    · cases hr
    rename_i s1 hs1
    split at hr
    · cases hr
    rename_i s2 hs2
    simp only [Except.ok.injEq, Prod.mk.injEq] at hr
    obtain ⟨rfl, rfl⟩ := hr
    obtain ⟨_, _, m3, m4, m5, m6, m7, m8, m9, m10⟩ := mk_spec h _ _ h1 t hmk
    have e1 : h1.arr s1.arr = h.arr s1.arr := by
      rw [slice_arr _ _ _ _ hs1]; exact m9 _ wf.1
    have r1 : read h1 s1 = ((read h src.sl).drop (start - src.offset).toNat).take (src.stop - start).toNat := by
      rw [read_congr h h1 s1 e1, read_slice h src.sl _ _ s1 hs1 (by omega)]
      congr 1; omega
    have l1 : (read h1 s1).length = t.len := by
      rw [r1, List.length_take, List.length_drop, hlen, m6]; omega
    have e2 : (copy h1 t s1).arr s2.arr = h.arr s2.arr := by
      rw [slice_arr _ _ _ _ hs2, copy_other h1 t s1 _ (by have := wf.1; omega)]
      exact m9 _ wf.1
    refine ⟨rfl, rfl, by omega, by omega, Or.inr ⟨by omega, hconf, by omega, by omega, ?_⟩, ⟨?_, ?_⟩, ?_⟩
    · rw [append_read _ t s2 (copy_wf h1 t s1 m8 l1), copy_read h1 t s1 m8 l1, r1,
        read_congr h _ s2 e2, read_slice h src.sl _ _ s2 hs2 (by omega)]
      simp
    · have := append_length (copy h1 t s1) t s2
      rw [copy_length] at this; omega
    · intro i hi
      rw [append_other _ t s2 i (by rw [copy_length]; omega) (by omega),
        copy_other h1 t s1 i (by omega)]
      exact m9 i hi
    · intro _
      rcases append_arr (copy h1 t s1) t s2 with e | e <;> simp only [e]
      · omega
      · rw [copy_length]; omega

end Biogo.Sequtils

namespace Biogo.Sequtils
variable {α : Type} [Inhabited α]

theorem mk_eq (h : Heap α) (l c : Int) (hl : 0 ≤ l) (hc : l ≤ c) :
    mk h l c = .ok (h ++ [List.replicate c.toNat default],
                    { arr := h.length, off := 0, len := l.toNat, cap := c.toNat }) := by
  unfold mk
  rw [if_neg (by omega)]

theorem slice_eq (s : Sl) (a b : Int) (h0 : 0 ≤ a) (h1 : a ≤ b) (h2 : b ≤ s.cap) :
    slice s a b = .ok { arr := s.arr, off := s.off + a.toNat, len := (b - a).toNat, cap := s.cap - a.toNat } := by
  unfold slice
  rw [if_pos ⟨h0, h1, h2⟩]

/-- `Truncate` never panics: it answers, or returns an error value; it answers exactly for
    the ranges inside the sequence (every conformation other than linear wraps) -/
theorem truncate_outcome (h : Heap α) (src : Seq) (same : Bool) (start stop : Int) (wf : WF h src.sl) :
    (truncateInside src.offset src.stop (decide (src.conf ≠ confLinear)) start stop = true ∧
        ∃ x, truncate h src same start stop = .ok x) ∨
    (truncateInside src.offset src.stop (decide (src.conf ≠ confLinear)) start stop = false ∧
        ∃ c, truncate h src same start stop = .error (.error c)) := by
  have hstop : src.stop = src.offset + src.sl.len := rfl
  have hcap := wf.2.2
  unfold truncate truncateInside
  dsimp only
  by_cases hrange : start < src.offset ∨ stop > src.stop
  · right
    rw [if_pos hrange]
    refine ⟨?_, _, rfl⟩
    split
    · simp; omega
    · simp; omega
  rw [if_neg hrange]
  by_cases hle : start ≤ stop
  · left
    rw [if_pos hle, if_pos hle]
    refine ⟨by simp; omega, ?_⟩
    cases same
    · rw [if_neg (by simp)]
      simp only [bind, Except.bind, pure, Except.pure,
        mk_eq h 0 (stop - start) (by omega) (by omega),
        slice_eq src.sl (start - src.offset) (stop - src.offset) (by omega) (by omega) (by omega)]
      exact ⟨_, rfl⟩
    · rw [if_pos rfl]
      simp only [bind, Except.bind, pure, Except.pure,
        slice_eq src.sl (start - src.offset) (stop - src.offset) (by omega) (by omega) (by omega)]
      exact ⟨_, rfl⟩
  rw [if_neg hle, if_neg hle]
  by_cases hconf : src.conf = confLinear
  · right
    rw [if_pos hconf]
    exact ⟨by simp [hconf], _, rfl⟩
  rw [if_neg hconf]
  by_cases hrange2 : stop < src.offset ∨ start > src.stop
  · right
    rw [if_pos hrange2]
    refine ⟨?_, _, rfl⟩
    simp [hconf]; omega
  left
  rw [if_neg hrange2]
  refine ⟨by simp [hconf]; omega, ?_⟩
  simp only [bind, Except.bind, pure, Except.pure,
    mk_eq h (↑src.sl.len - start + src.offset) (↑src.sl.len + stop - start) (by omega) (by omega),
    slice_eq src.sl (start - src.offset) ↑src.sl.len (by omega) (by omega) (by omega),
    slice_eq src.sl 0 (stop - src.offset) (by omega) (by omega) (by omega)]
  exact ⟨_, rfl⟩

end Biogo.Sequtils

namespace Biogo.Sequtils
variable {α : Type} [Inhabited α]

theorem join_cases (h : Heap α) (dst src : Seq) (wh : Int) (h' : Heap α) (r : Seq)
    (wd : WF h dst.sl) (ws : WF h src.sl) (hr : join h dst src wh = .ok (h', r)) :
    read h' r.sl = joinSpec (read h dst.sl) (read h src.sl) wh ∧
    Keeps h h' ∧ h.length ≤ r.sl.arr ∧ r.conf = dst.conf ∧
    r.offset = (if wh = whereStart then -(src.sl.len : Int) else dst.offset) := by
  unfold join at hr
  dsimp only at hr
  split at hr
  · cases hr
  -- generalise over the two roles
  have key : ∀ (fst snd : Seq), WF h fst.sl → WF h snd.sl → ∀ off cf,
      (do
        let (h1, t) ← mk h (fst.sl.len : Int) ((fst.sl.len : Int) + snd.sl.len)
        let h2 := copy h1 t fst.sl
        let (h3, t') := append h2 t snd.sl
        pure (h3, ({ sl := t', offset := off, conf := cf } : Seq))) = Except.ok (h', r) →
      read h' r.sl = read h fst.sl ++ read h snd.sl ∧ Keeps h h' ∧ h.length ≤ r.sl.arr ∧
        r.conf = cf ∧ r.offset = off := by
    intro fst snd wf1 wf2 off cf hr
    simp only [bind, Except.bind, pure, Except.pure] at hr
    split at hr
    · cases hr
    rename_i x h1t hmk
    obtain ⟨h1, t⟩ := h1t
    simp only [Except.ok.injEq, Prod.mk.injEq] at hr
    obtain ⟨rfl, rfl⟩ := hr
    obtain ⟨_, _, m3, m4, m5, m6, m7, m8, m9, m10⟩ := mk_spec h _ _ h1 t hmk
    have r1 : read h1 fst.sl = read h fst.sl := read_congr h h1 _ (m9 _ wf1.1)
    have l1 : (read h1 fst.sl).length = t.len := by
      rw [r1, read_length h _ wf1, m6]; omega
    have e2 : (copy h1 t fst.sl).arr snd.sl.arr = h.arr snd.sl.arr := by
      rw [copy_other h1 t _ _ (by have := wf2.1; omega)]
      exact m9 _ wf2.1
    refine ⟨?_, ⟨?_, ?_⟩, ?_, rfl, rfl⟩
    · rw [append_read _ t _ (copy_wf h1 t _ m8 l1), copy_read h1 t _ m8 l1, r1, read_congr h _ _ e2]
    · have := append_length (copy h1 t fst.sl) t snd.sl
      rw [copy_length] at this; omega
    · intro i hi
      rw [append_other _ t _ i (by rw [copy_length]; omega) (by omega), copy_other h1 t _ i (by omega)]
      exact m9 i hi
    · rcases append_arr (copy h1 t fst.sl) t snd.sl with e | e <;> simp only [e]
      · omega
      · rw [copy_length]; omega
  by_cases hw : wh = whereEnd
  · simp only [hw, if_true] at hr
    have := key dst src wd ws _ _ hr
    have hne : ¬ (whereEnd = whereStart) := by decide
    simp only [joinSpec, hw, if_true, hne, if_false]
    exact ⟨this.1, this.2.1, this.2.2.1, this.2.2.2.1, by rw [this.2.2.2.2]; simp [hne]⟩
  · simp only [hw, if_false] at hr
    have := key src dst ws wd _ _ hr
    simp only [joinSpec, hw, if_false]
    exact this

/-- `Join` never panics; it refuses exactly the circular sequences -/
theorem join_outcome (h : Heap α) (dst src : Seq) (wh : Int) :
    (dst.conf ≤ confLinear ∧ src.conf ≤ confLinear ∧ ∃ x, join h dst src wh = .ok x) ∨
    ((dst.conf > confLinear ∨ src.conf > confLinear) ∧ ∃ c, join h dst src wh = .error (.error c)) := by
  unfold join
  dsimp only
  by_cases hc : dst.conf > confLinear ∨ src.conf > confLinear
  · right; rw [if_pos hc]; exact ⟨hc, _, rfl⟩
  · left
    rw [if_neg hc]
    refine ⟨by omega, by omega, ?_⟩
    simp only [bind, Except.bind, pure, Except.pure]
    rw [mk_eq h _ _ (by omega) (by omega)]
    exact ⟨_, rfl⟩

end Biogo.Sequtils
