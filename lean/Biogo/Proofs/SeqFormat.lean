/-
The `%a` / `%q` verbs of `linear.Seq` / `linear.QSeq` produce layouts of the sequence
(`FastaRenders` / `FastqRenders`), hence read back as the sequence.  Core Lean only.
-/
import Biogo.Proofs.Fastq
import Biogo.Model.SeqFormat

namespace Biogo.SeqFormat
open Biogo.Go.Bytes Biogo.Spec.Seqio

theorem fmtC_ascii {b : UInt8} (h : b.toNat < 128) : fmtC b = [b] := by
  have : b < 0x80 := by simp [UInt8.lt_iff_toNat_lt]; omega
  simp [fmtC, this]

theorem flatMap_fmtC (l : Bytes) (h : ∀ b ∈ l, visible b = true) : l.flatMap fmtC = l := by
  induction l with
  | nil => rfl
  | cons a l ih =>
    rw [List.flatMap_cons, fmtC_ascii (visible_lt (h a (by simp))), ih (fun b hb => h b (by simp [hb]))]
    rfl

theorem descLine_eq (p : UInt8) (hp : p.toNat < 128) (id desc : Bytes) :
    descLine p id desc = headerLine p id desc ++ [10] := by
  unfold descLine headerLine
  rw [fmtC_ascii hp]
  cases desc <;> simp

/-- the letter loop of verb `a` lays the letters out in lines, the last one unterminated -/
theorem wrapLetters_lines (w : Option Nat) (hw : w ≠ some 0) (len : Nat) (ls : Bytes)
    (hvis : ∀ b ∈ ls, visible b = true) : ∀ (cur : Bytes) (i : Nat), i + ls.length = len →
    (∀ b ∈ cur, b ≠ 10) → (cur ≠ [] ∨ ls ≠ []) →
    ∃ body c0 rest, wrapLetters w len i ls = .ok body ∧
      Terminated ((cur ++ c0) :: rest) (cur ++ body) ∧ c0 ++ rest.flatten = ls := by
  induction ls with
  | nil =>
    intro cur i _ hcur hne
    have : cur ≠ [] := by rcases hne with h | h; exact h; exact absurd rfl h
    exact ⟨[], [], [], rfl, by simpa using Terminated.last cur this hcur, rfl⟩
  | cons l ls ih =>
    intro cur i hlen hcur _
    have hl := hvis l (by simp)
    have hls : ∀ b ∈ ls, visible b = true := fun b hb => hvis b (by simp [hb])
    have hcur' : ∀ b ∈ cur ++ [l], b ≠ 10 := by
      intro b hb
      rcases List.mem_append.mp hb with h | h
      · exact hcur b h
      · simp at h; subst h; exact visible_ne_lf hl
    -- does the code break the line after this letter?
    have hnl : ∃ nl : Bool, breakAfter w len i = .ok nl ∧ (nl = true → ls ≠ []) := by
      unfold breakAfter
      cases w with
      | none => exact ⟨false, rfl, by simp⟩
      | some w =>
        have hw0 : (w == 0) = false := by
          cases w with
          | zero => exact absurd rfl hw
          | succ n => rfl
        by_cases hi : i + 1 < len
        · refine ⟨i % w == w - 1, by simp [hi, hw0, pure, Except.pure], fun _ => ?_⟩
          intro e; subst e; simp at hlen; omega
        · exact ⟨false, by simp [hi, pure, Except.pure], by simp⟩
    obtain ⟨nl, hnl1, hnl2⟩ := hnl
    cases nl with
    | false =>
      obtain ⟨body, c0, rest, h1, h2, h3⟩ := ih hls (cur ++ [l]) (i + 1) (by simp at hlen ⊢; omega) hcur' (.inl (by simp))
      refine ⟨l :: body, l :: c0, rest, ?_, ?_, by simp [← h3]⟩
      · simp only [wrapLetters, hnl1, h1, bind, Except.bind, pure, Except.pure, fmtC_ascii (visible_lt hl)]
        simp
      · simpa using h2
    | true =>
      have hne := hnl2 rfl
      obtain ⟨body, c0, rest, h1, h2, h3⟩ := ih hls [] (i + 1) (by simp at hlen ⊢; omega) (by simp) (.inr hne)
      refine ⟨l :: 10 :: body, [l], c0 :: rest, ?_, ?_, by simp [← h3]⟩
      · simp only [wrapLetters, hnl1, h1, bind, Except.bind, pure, Except.pure, fmtC_ascii (visible_lt hl)]
        simp
      · have := Terminated.lf (cur ++ [l]) _ _ hcur' (by simpa using h2)
        simpa using this

/-- **`%a` round trip.**  A well-formed sequence formatted with the verb `a` (any width other
    than 0, or none; no precision) is a layout of that sequence, and the FASTA reader returns
    it.  For a `QSeq`, `letters` are the letters after `seq.AmbigFilter`: the statement is
    about the sequence as printed (scores below `Threshold` change the letter). -/
theorem formatA_roundtrip (w : Option Nat) (hw : w ≠ some 0) (r : Biogo.Fasta.Rec) (hwf : wfFasta r = true) :
    ∃ bytes, formatA w none r.name r.desc r.letters = .ok bytes ∧ FastaRenders [r] bytes ∧
      Biogo.Fasta.readAll {} bytes = [.ret ⟨some r, none⟩, .ret ⟨none, some .eof⟩] := by
  have hwf' := hwf
  simp only [wfFasta, Bool.and_eq_true] at hwf'
  obtain ⟨⟨hn, hd⟩, hlet⟩ := hwf'
  have hlet' := Biogo.Fasta.fastaLettersOK_iff.mp hlet
  have hvis : ∀ b ∈ r.letters, visible b = true := fun b hb => (hlet' b hb).1
  have hdl : descLine 62 r.name r.desc = headerLine 62 r.name r.desc ++ [10] := descLine_eq 62 (by decide) _ _
  have hnolf := Biogo.Fasta.headerLine_nolf 62 (by decide) hn hd
  suffices h : ∃ bytes, formatA w none r.name r.desc r.letters = .ok bytes ∧ FastaRenders [r] bytes by
    obtain ⟨bytes, h1, h2⟩ := h
    refine ⟨bytes, h1, h2, ?_⟩
    have := Biogo.Fasta.renders_read [r] bytes (by simpa using hwf) h2
    simpa [Biogo.Fasta.retOK, Biogo.Fasta.retEOF] using this
  by_cases hl : r.letters = []
  · refine ⟨headerLine 62 r.name r.desc ++ [10], by simp [formatA, hl, wrapLetters, hdl, bind, Except.bind, pure, Except.pure], ?_⟩
    refine ⟨[headerLine 62 r.name r.desc], ?_, ?_⟩
    · have := FastaLines.record r (headerLine 62 r.name r.desc) [] [] [] ⟨[], by simp, by simp⟩ (hl ▸ SeqLines.nil) .nil
      simpa using this
    · simpa using Terminated.lf (headerLine 62 r.name r.desc) [] [] hnolf .nil
  · obtain ⟨body, c0, rest, h1, h2, h3⟩ :=
      wrapLetters_lines w hw r.letters.length r.letters hvis [] 0 (by simp) (by simp) (.inr hl)
    refine ⟨headerLine 62 r.name r.desc ++ 10 :: body,
      by simp [formatA, h1, hdl, bind, Except.bind, pure, Except.pure], ?_⟩
    refine ⟨headerLine 62 r.name r.desc :: (c0 :: rest), ?_, ?_⟩
    · have hs : SeqLines r.letters (c0 :: rest) := by
        have := Biogo.Fasta.seqLines_flatten (c0 :: rest)
        simpa [h3] using this
      have := FastaLines.record r (headerLine 62 r.name r.desc) (c0 :: rest) [] [] ⟨[], by simp, by simp⟩ hs .nil
      simpa using this
    · exact Terminated.lf _ _ _ hnolf (by simpa using h2)

open Biogo.Fastq in
/-- inside the printable range the encoded byte is below DEL, so the clamp of verb `q` is idle -/
theorem encode_lt_del (tabs : QTables) (e : Encoding) (lo hi off : UInt8)
    (hr : phredRange e = some (lo, hi, off)) (q : UInt8) (h1 : lo ≤ q) (h2 : q ≤ hi) :
    ¬ (encode tabs e q ≥ 127) := by
  have key : ∀ n : Nat, n < 256 →
      (∀ e' ∈ [Encoding.sanger, .illumina1_8, .illumina1_9], UInt8.ofNat n ≤ 93 → ¬ (encode tabs e' (UInt8.ofNat n) ≥ 127)) ∧
      (UInt8.ofNat n ≤ 62 → ¬ (encode tabs .illumina1_3 (UInt8.ofNat n) ≥ 127)) ∧
      (UInt8.ofNat n ≤ 62 → ¬ (encode tabs .illumina1_5 (UInt8.ofNat n) ≥ 127)) := by
    simp only [encode, List.mem_cons, List.mem_nil_iff, or_false, forall_eq_or_imp, forall_eq]
    decide +kernel
  have hq := key q.toNat q.toNat_lt
  simp only [UInt8.ofNat_toNat] at hq
  cases e <;> simp [phredRange] at hr
  · obtain ⟨rfl, rfl, rfl⟩ := hr; simpa using hq.1 .sanger (by simp) h2
  · obtain ⟨rfl, rfl, rfl⟩ := hr; simpa using hq.2.1 h2
  · obtain ⟨rfl, rfl, rfl⟩ := hr; simpa using hq.2.2 h2
  · obtain ⟨rfl, rfl, rfl⟩ := hr; simpa using hq.1 .illumina1_8 (by simp) h2
  · obtain ⟨rfl, rfl, rfl⟩ := hr; simpa using hq.1 .illumina1_9 (by simp) h2

open Biogo.Fastq in
/-- **`%q` round trip** (`linear.QSeq`, scores in the printable range, letters as printed):
    the output of the verb `q`, with or without the `+` flag, is a layout of the sequence and
    the FASTQ reader returns it. -/
theorem formatQ_roundtrip (tabs : QTables) (enc : Encoding) (plus eofWithData : Bool) (r : QRec)
    (hwf : wfFastq enc r = true) :
    FastqRenders (qlineOf tabs enc) [r]
      (formatQ plus none r.name r.desc r.letters (r.quals.map (encode tabs enc))) ∧
    readAll ⟨.qseq enc, tabs⟩ eofWithData
      (formatQ plus none r.name r.desc r.letters (r.quals.map (encode tabs enc)))
      = [.ret ⟨some r, none⟩, .ret ⟨none, some .eof⟩] := by
  obtain ⟨ok, hdec⟩ := recOK_of_wf tabs enc r hwf
  -- the clamp does nothing
  have hclamp : (r.quals.map (encode tabs enc)).flatMap (fun e => fmtC (if e ≥ 127 then 126 else e))
      = qlineOf tabs enc r := by
    have hwf' := hwf
    simp only [wfFastq, Bool.and_eq_true] at hwf'
    have hq := hwf'.1.2
    unfold qualsOK at hq
    cases hr : phredRange enc with
    | none => simp [hr] at hq
    | some v =>
      obtain ⟨lo, hi, off⟩ := v
      simp only [hr, List.all_eq_true, Bool.and_eq_true, decide_eq_true_eq] at hq
      have : ∀ q ∈ r.quals, fmtC (if encode tabs enc q ≥ 127 then 126 else encode tabs enc q) = [encode tabs enc q] := by
        intro q hqm
        rw [if_neg (encode_lt_del tabs enc lo hi off hr q (hq q hqm).1 (hq q hqm).2)]
        exact fmtC_ascii (visible_lt (ok.qvis _ (by simp [qlineOf]; exact ⟨q, hqm, rfl⟩)))
      simp only [qlineOf, List.flatMap_map]
      have gen : ∀ qs : Bytes, (∀ q ∈ qs, fmtC (if encode tabs enc q ≥ 127 then 126 else encode tabs enc q) = [encode tabs enc q]) →
          qs.flatMap (fun a => fmtC (if encode tabs enc a ≥ 127 then 126 else encode tabs enc a)) = qs.map (encode tabs enc) := by
        intro qs
        induction qs with
        | nil => intro _; rfl
        | cons q qs ih =>
          intro h
          rw [List.flatMap_cons, h q (by simp), List.map_cons, ih (fun q' h' => h q' (by simp [h']))]
          rfl
      exact gen r.quals this
  have hbytes : formatQ plus none r.name r.desc r.letters (r.quals.map (encode tabs enc))
      = headerLine 64 r.name r.desc ++ 10 :: (r.letters ++ 10 ::
          ((if plus then headerLine 43 r.name r.desc else [43]) ++ 10 :: qlineOf tabs enc r)) := by
    simp only [formatQ, hclamp, flatMap_fmtC r.letters ok.letters.1, descLine_eq 64 (by decide),
      descLine_eq 43 (by decide)]
    cases plus <;> simp
  have hplus : Padded [43] (if plus then headerLine 43 r.name r.desc else [43]) ∨
      Padded (headerLine 43 r.name r.desc) (if plus then headerLine 43 r.name r.desc else [43]) := by
    cases plus
    · exact .inl ⟨[], by simp, by simp⟩
    · exact .inr ⟨[], by simp, by simp⟩
  have hlines : FastqLines (qlineOf tabs enc) [r]
      [headerLine 64 r.name r.desc, r.letters, if plus then headerLine 43 r.name r.desc else [43], qlineOf tabs enc r] :=
    .record r _ _ _ _ [] [] ⟨[], by simp, by simp⟩ ⟨[], by simp, by simp⟩ hplus ⟨[], by simp, by simp⟩ .nil
  have hok : ∀ r' ∈ [r], RecOK (qlineOf tabs enc) r' := by simpa using ok
  have hnolf := fastqLines_nolf hlines hok
  have hren : FastqRenders (qlineOf tabs enc) [r]
      (formatQ plus none r.name r.desc r.letters (r.quals.map (encode tabs enc))) := by
    rw [hbytes]
    by_cases hq : qlineOf tabs enc r = []
    · -- no letters: the file ends after the terminator of the `+` line
      refine .inr ⟨[headerLine 64 r.name r.desc, r.letters, if plus then headerLine 43 r.name r.desc else [43]], ?_, ?_⟩
      · simpa [hq] using hlines
      · simp [joinLF, hq]
    · refine .inl ⟨_, hlines, ?_⟩
      refine .lf _ _ _ (hnolf _ (by simp)) (.lf _ _ _ (hnolf _ (by simp)) (.lf _ _ _ (hnolf _ (by simp)) ?_))
      exact .last _ hq (hnolf _ (by simp))
  refine ⟨hren, ?_⟩
  have := renders_read ⟨.qseq enc, tabs⟩ eofWithData (qlineOf tabs enc) [r] _ hok hren
  simpa [retOK, retEOF, built_qseq tabs enc r hdec] using this

end Biogo.SeqFormat
