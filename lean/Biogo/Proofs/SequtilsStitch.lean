/-
Stitch of the heap model: sort, merge, clip and append yield the letters at the clipped
union of the feature intervals in ascending order (core only).
-/
import Biogo.Proofs.SequtilsTruncate

set_option linter.unusedSectionVars false

namespace Biogo.Sequtils

/-- `p` lies in `[s, e)` -/
def inIv (s e p : Int) : Bool := decide (s ≤ p) && decide (p < e)

theorem covered_cons (f : Feat) (fs : List Feat) (p : Int) :
    covered (f :: fs) p = (inIv f.s f.e p || covered fs p) := by
  simp [covered, inIv]

theorem covered_nil (p : Int) : covered [] p = false := rfl

theorem covered_perm (fs gs : List Feat) (hp : fs.Perm gs) (p : Int) : covered fs p = covered gs p := by
  unfold covered
  exact hp.any_eq

/-! ### filtering a range of positions -/

theorem intRange_cons (a b : Int) (h : a < b) : intRange a b = a :: intRange (a + 1) b := by
  rw [intRange_append a (a + 1) b (by omega) (by omega)]
  have : intRange a (a + 1) = [a] := by
    have e : (a + 1 - a).toNat = 1 := by omega
    simp [intRange, e, List.range_succ]
  rw [this]; rfl

theorem filter_intRange_iv (s e : Int) : ∀ (n : Nat) (a b : Int), (b - a).toNat = n →
    (intRange a b).filter (inIv s e) = intRange (max s a) (min e b) := by
  intro n
  induction n with
  | zero =>
    intro a b hn
    rw [intRange_empty a b (by omega), intRange_empty _ _ (by omega)]; rfl
  | succ n ih =>
    intro a b hn
    have hab : a < b := by omega
    rw [intRange_cons a b hab, List.filter_cons, ih (a + 1) b (by omega)]
    by_cases h1 : a < s
    · have : inIv s e a = false := by simp [inIv]; omega
      rw [this]
      have : max s (a + 1) = max s a := by omega
      simp [this]
    · by_cases h2 : a < e
      · have : inIv s e a = true := by simp [inIv]; omega
        rw [this, if_pos rfl]
        have e1 : max s a = a := by omega
        have e2 : max s (a + 1) = a + 1 := by omega
        rw [e1, e2, intRange_cons a (min e b) (by omega)]
      · have : inIv s e a = false := by simp [inIv]; omega
        rw [this]
        rw [intRange_empty _ _ (by omega), intRange_empty _ _ (by omega)]
        simp

/-- two predicates separated by a position `m`: the filter of their union is the
    concatenation of the filters -/
theorem filter_or_split (a b m : Int) (P1 P2 : Int → Bool)
    (h1 : ∀ p, p < m → P2 p = false) (h2 : ∀ p, m ≤ p → P1 p = false) :
    (intRange a b).filter (fun p => P1 p || P2 p) =
      (intRange a b).filter P1 ++ (intRange a b).filter P2 := by
  by_cases hab : a ≤ b
  · have hm1 : a ≤ max a (min m b) := by omega
    have hm2 : max a (min m b) ≤ b := by omega
    rw [intRange_append a (max a (min m b)) b hm1 hm2]
    simp only [List.filter_append]
    have e1 : (intRange a (max a (min m b))).filter (fun p => P1 p || P2 p) =
        (intRange a (max a (min m b))).filter P1 := by
      apply List.filter_congr
      intro p hp
      rw [mem_intRange] at hp
      rw [h1 p (by omega)]; simp
    have e2 : (intRange (max a (min m b)) b).filter (fun p => P1 p || P2 p) =
        (intRange (max a (min m b)) b).filter P2 := by
      apply List.filter_congr
      intro p hp
      rw [mem_intRange] at hp
      rw [h2 p (by omega)]; simp
    have e3 : (intRange (max a (min m b)) b).filter P1 = [] := by
      rw [List.filter_eq_nil_iff]
      intro p hp
      rw [mem_intRange] at hp
      rw [h2 p (by omega)]; simp
    have e4 : (intRange a (max a (min m b))).filter P2 = [] := by
      rw [List.filter_eq_nil_iff]
      intro p hp
      rw [mem_intRange] at hp
      rw [h1 p (by omega)]; simp
    rw [e1, e2, e3, e4]; simp
  · rw [intRange_empty a b (by omega)]; rfl

/-! ### the merge loop -/

/-- positions of one merged interval clipped to `[a, b)` -/
def clipRange (a b : Int) (iv : Int × Int) : List Int := intRange (max iv.1 a) (min iv.2 b)

theorem mergeFrom_spec (a b : Int) : ∀ (fs : List Feat) (cs ce : Int),
    List.Pairwise (fun x y : Feat => x.s ≤ y.s) fs → (∀ f ∈ fs, cs ≤ f.s) →
    (mergeFrom cs ce fs).flatMap (clipRange a b) =
      (intRange a b).filter (fun p => inIv cs ce p || covered fs p) := by
  intro fs
  induction fs with
  | nil =>
    intro cs ce _ _
    simp only [mergeFrom, List.flatMap_cons, List.flatMap_nil, List.append_nil, clipRange, covered_nil,
      Bool.or_false]
    exact (filter_intRange_iv cs ce _ a b rfl).symm
  | cons f fs ih =>
    intro cs ce hs hlo
    rw [List.pairwise_cons] at hs
    have hcs : cs ≤ f.s := hlo f (by simp)
    unfold mergeFrom
    by_cases hgt : f.s > ce
    · rw [if_pos hgt, List.flatMap_cons, ih f.s f.e hs.2 hs.1]
      have hsplit := filter_or_split a b f.s (inIv cs ce) (fun p => inIv f.s f.e p || covered fs p)
        (by
          intro p hp
          have c1 : inIv f.s f.e p = false := by simp [inIv]; omega
          have c2 : covered fs p = false := by
            unfold covered
            rw [Bool.eq_false_iff]
            intro hc
            rw [List.any_eq_true] at hc
            obtain ⟨g, hg, hgp⟩ := hc
            have := hs.1 g hg
            simp at hgp; omega
          simp [c1, c2])
        (by intro p hp; simp [inIv]; omega)
      simp only [covered_cons]
      rw [hsplit]
      congr 1
      exact (filter_intRange_iv cs ce _ a b rfl).symm
    · rw [if_neg hgt, ih cs (max ce f.e) hs.2 (fun g hg => hlo g (by simp [hg]))]
      apply List.filter_congr
      intro p _
      simp only [covered_cons]
      have : inIv cs (max ce f.e) p = (inIv cs ce p || inIv f.s f.e p) := by
        simp only [inIv]
        rw [Bool.eq_iff_iff]
        simp
        omega
      rw [this, Bool.or_assoc]

theorem mergeFeats_spec (a b : Int) (ff : List Feat)
    (hs : List.Pairwise (fun x y : Feat => x.s ≤ y.s) ff) :
    (mergeFeats ff).flatMap (clipRange a b) = (intRange a b).filter (covered ff) := by
  cases ff with
  | nil =>
    simp only [mergeFeats, List.flatMap_nil]
    symm
    rw [List.filter_eq_nil_iff]
    intro p _; simp [covered]
  | cons f fs =>
    rw [List.pairwise_cons] at hs
    simp only [mergeFeats]
    rw [mergeFrom_spec a b fs f.s f.e hs.2 hs.1]
    apply List.filter_congr
    intro p _
    rw [covered_cons]

/-! ### the sort -/

theorem insertByStart_perm (f : Feat) (gs : List Feat) : (insertByStart f gs).Perm (f :: gs) := by
  induction gs with
  | nil => exact List.Perm.refl _
  | cons g gs ih =>
    unfold insertByStart
    split
    · exact List.Perm.refl _
    · exact (List.Perm.cons g ih).trans (List.Perm.swap f g gs)

theorem sortByStart_perm (fs : List Feat) : (sortByStart fs).Perm fs := by
  induction fs with
  | nil => exact List.Perm.refl _
  | cons f fs ih => exact (insertByStart_perm f _).trans (List.Perm.cons f ih)

theorem insertByStart_sorted (f : Feat) (gs : List Feat)
    (hs : List.Pairwise (fun x y : Feat => x.s ≤ y.s) gs) :
    List.Pairwise (fun x y : Feat => x.s ≤ y.s) (insertByStart f gs) := by
  induction gs with
  | nil => simp [insertByStart]
  | cons g gs ih =>
    rw [List.pairwise_cons] at hs
    unfold insertByStart
    split
    · rename_i hlt
      rw [List.pairwise_cons]
      refine ⟨?_, List.pairwise_cons.mpr hs⟩
      intro x hx
      rcases List.mem_cons.mp hx with rfl | hx
      · omega
      · have := hs.1 x hx; omega
    · rename_i hge
      rw [List.pairwise_cons]
      refine ⟨?_, ih hs.2⟩
      intro x hx
      rcases List.mem_cons.mp ((insertByStart_perm f gs).mem_iff.mp hx) with rfl | hx
      · omega
      · exact hs.1 x hx

theorem sortByStart_sorted (fs : List Feat) :
    List.Pairwise (fun x y : Feat => x.s ≤ y.s) (sortByStart fs) := by
  induction fs with
  | nil => simp [sortByStart]
  | cons f fs ih => exact insertByStart_sorted f _ ih

/-! ### the append loop -/

variable {α : Type} [Inhabited α]

theorem lettersAt_flatMap {β : Type} (xs : List α) (offset : Int) (l : List β) (f : β → List Int) :
    lettersAt xs offset (l.flatMap f) = l.flatMap (fun x => lettersAt xs offset (f x)) := by
  induction l with
  | nil => rfl
  | cons x l ih => simp only [List.flatMap_cons, lettersAt_append, ih]

theorem stitchAppend_spec (h0 : Heap α) (src : Seq) (wf : WF h0 src.sl) :
    ∀ (fsp : List (Int × Int)) (h : Heap α) (t : Sl) (h' : Heap α) (t' : Sl),
      Keeps h0 h → h0.length ≤ t.arr → WF h t →
      stitchAppend src.sl src.offset src.sl.len (h, t) fsp = .ok (h', t') →
      read h' t' = read h t ++ lettersAt (read h0 src.sl) src.offset (fsp.flatMap (clipRange src.offset src.stop)) ∧
      Keeps h0 h' ∧ h0.length ≤ t'.arr ∧ WF h' t' := by
  have hstop : src.stop = src.offset + src.sl.len := rfl
  have hlen := read_length h0 src.sl wf
  intro fsp
  induction fsp with
  | nil =>
    intro h t h' t' hk hf hw hr
    simp only [stitchAppend, Except.ok.injEq, Prod.mk.injEq] at hr
    obtain ⟨rfl, rfl⟩ := hr
    simp [lettersAt_nil, hk, hf, hw]
  | cons iv rest ih =>
    intro h t h' t' hk hf hw hr
    obtain ⟨s, e⟩ := iv
    unfold stitchAppend at hr
    dsimp only at hr
    split at hr
    · rename_i hge
      obtain ⟨r1, r2⟩ := ih h t h' t' hk hf hw hr
      refine ⟨?_, r2⟩
      rw [r1, List.flatMap_cons]
      have : clipRange src.offset src.stop (s, e) = [] := intRange_empty _ _ (by dsimp only; omega)
      rw [this, List.nil_append]
    · rename_i hlt
      split at hr
      · cases hr
      rename_i x hx
      have hxa := slice_arr _ _ _ _ hx
      have hk' : Keeps h0 (append h t x).1 := by
        refine ⟨?_, ?_⟩
        · have := append_length h t x; have := hk.1; omega
        · intro i hi
          rw [append_other h t x i (by have := hk.1; omega) (by omega)]
          exact hk.2 i hi
      have hf' : h0.length ≤ (append h t x).2.arr := by
        rcases append_arr h t x with e1 | e1 <;> rw [e1]
        · exact hf
        · exact hk.1
      obtain ⟨r1, r2⟩ := ih (append h t x).1 (append h t x).2 h' t' hk' hf' (append_wf h t x hw) hr
      refine ⟨?_, r2⟩
      rw [r1, append_read h t x hw, List.flatMap_cons, lettersAt_append, List.append_assoc]
      congr 2
      have ex : read h x = read h0 x := read_congr h0 h x (by rw [hxa]; exact hk.2 _ wf.1)
      rw [ex, read_slice h0 src.sl _ _ x hx (by omega)]
      unfold clipRange
      rw [lettersAt_intRange _ _ _ _ (by dsimp only; omega) (by dsimp only; omega)]
      dsimp only
      congr 1
      · omega
      · congr 1; omega

/-- the append loop cannot fail on a well-formed source -/
theorem stitchAppend_ok (sl : Sl) (offset : Int) (hcap : sl.len ≤ sl.cap) :
    ∀ (fsp : List (Int × Int)) (st : Heap α × Sl), ∃ r, stitchAppend sl offset sl.len st fsp = .ok r := by
  intro fsp
  induction fsp with
  | nil => intro st; exact ⟨st, by simp [stitchAppend]⟩
  | cons iv rest ih =>
    intro st
    obtain ⟨h, t⟩ := st
    obtain ⟨s, e⟩ := iv
    unfold stitchAppend
    dsimp only
    split
    · exact ih _
    · rw [slice_eq sl _ _ (by omega) (by omega) (by omega)]
      exact ih _

theorem sum_clip_nonneg (stop offset : Int) (l : List (Int × Int)) :
    0 ≤ (l.map fun (iv : Int × Int) => max 0 (min iv.2 stop - max iv.1 offset)).sum := by
  induction l with
  | nil => simp
  | cons x l ih => simp only [List.map_cons, List.sum_cons]; omega

end Biogo.Sequtils
