/-
"No runtime panic" lemmas for the BED and GFF reader models (C03, part feat).
`Safe r`: if `r` is a panic it carries an `error` value, which `handlePanic` turns into a
returned error.
-/
import Biogo.Model.Bed
import Biogo.Model.Gff

namespace Biogo.BytesFeat

def Safe {ε α} (r : Res ε α) : Prop := ∀ p, r = .panic p → ∃ e, p = .error e

theorem safe_ok {ε α} (a : α) : Safe (Res.ok a : Res ε α) := by intro p h; cases h
theorem safe_pure {ε α} (a : α) : Safe (pure a : Res ε α) := safe_ok a
theorem safe_ret {ε α} (e : ε) : Safe (Res.ret e : Res ε α) := by intro p h; cases h
theorem safe_panic_error {ε α} (e : ε) : Safe (Res.panic (.error e) : Res ε α) := by
  intro p h; cases h; exact ⟨e, rfl⟩

theorem safe_bind {ε α β} {r : Res ε α} {f : α → Res ε β} (hr : Safe r) (hf : ∀ a, Safe (f a)) :
    Safe (r >>= f) := by
  show Safe (Res.bind r f)
  cases r with
  | ok a => exact hf a
  | ret e => exact safe_ret e
  | panic p =>
    intro q h
    simp only [Res.bind] at h
    cases h
    exact hr p rfl

theorem safe_idx {ε} {f : List Bytes} {i : Nat} (h : i < f.length) : Safe (idx f i : Res ε Bytes) := by
  unfold idx
  rw [List.getElem?_eq_getElem h]
  exact safe_ok _

theorem safe_ite {ε α} {c : Prop} [Decidable c] {a b : Res ε α} (ha : c → Safe a) (hb : ¬ c → Safe b) :
    Safe (if c then a else b) := by
  split
  · exact ha ‹_›
  · exact hb ‹_›

/-- after `handlePanic` a safe result is never a panic -/
theorem handlePanic_no_panic {ε α} {r : Res ε α} (h : Safe r) : ∀ p, handlePanic r ≠ .panic p := by
  intro p hp
  cases r with
  | ok a => simp [handlePanic] at hp
  | ret e => simp [handlePanic] at hp
  | panic q =>
    obtain ⟨e, rfl⟩ := h q rfl
    simp [handlePanic] at hp

end Biogo.BytesFeat

namespace Biogo.Bed
open Biogo.BytesFeat

theorem safe_mustAtoi (f : Bytes) (c : Nat) : Safe (mustAtoi f c) := by
  unfold mustAtoi; split
  · exact safe_ok _
  · exact safe_panic_error _

theorem safe_mustAtob (f : Bytes) (c : Nat) : Safe (mustAtob f c) := by
  unfold mustAtob; split
  · exact safe_ok _
  · exact safe_panic_error _

theorem safe_mustAtos (f : Bytes) (c : Nat) : Safe (mustAtos f c) := by
  unfold mustAtos
  split
  · repeat (first | exact safe_ok _ | exact safe_panic_error _ | split)
  · exact safe_panic_error _

theorem safe_mustAtoRgb (f : Bytes) (c : Nat) : Safe (mustAtoRgb f c) := by
  unfold mustAtoRgb
  simp only []
  split
  · exact safe_ok _
  · apply safe_bind (safe_mustAtoi _ _)
    intro v; split
    · exact safe_ok _
    · exact safe_panic_error _
  · exact safe_panic_error _
  · apply safe_bind (safe_mustAtob _ _); intro r
    apply safe_bind (safe_mustAtob _ _); intro g
    apply safe_bind (safe_mustAtob _ _); intro b
    exact safe_ok _

theorem safe_mustAtoaLoop (c : Nat) (ps : List Bytes) : Safe (mustAtoaLoop c ps) := by
  induction ps with
  | nil => exact safe_ok _
  | cons p ps ih =>
    unfold mustAtoaLoop
    split
    · exact safe_ok _
    · apply safe_bind (safe_mustAtoi _ _); intro v
      apply safe_bind ih; intro rest
      exact safe_ok _

theorem safe_mustAtoa (f : Bytes) (c : Nat) : Safe (mustAtoa f c) := safe_mustAtoaLoop c _

end Biogo.Bed

namespace Biogo.Bed
open Biogo.BytesFeat

theorem safe_parse3 {f : List Bytes} (h : 3 ≤ f.length) : Safe (parse3 f) := by
  unfold parse3
  apply safe_bind (safe_idx (by omega)); intro _
  apply safe_bind (safe_bind (safe_idx (by omega)) (fun _ => safe_mustAtoi _ _)); intro _
  apply safe_bind (safe_bind (safe_idx (by omega)) (fun _ => safe_mustAtoi _ _)); intro _
  exact safe_pure _

theorem safe_parse4 {f : List Bytes} (h : 4 ≤ f.length) : Safe (parse4 f) := by
  unfold parse4
  apply safe_bind (safe_parse3 (by omega)); intro _
  apply safe_bind (safe_idx (by omega)); intro _
  exact safe_pure _

theorem safe_parse5 {f : List Bytes} (h : 5 ≤ f.length) : Safe (parse5 f) := by
  unfold parse5
  apply safe_bind (safe_parse4 (by omega)); intro _
  apply safe_bind (safe_bind (safe_idx (by omega)) (fun _ => safe_mustAtoi _ _)); intro _
  exact safe_pure _

theorem safe_parse6 {f : List Bytes} (h : 6 ≤ f.length) : Safe (parse6 f) := by
  unfold parse6
  apply safe_bind (safe_parse5 (by omega)); intro _
  apply safe_bind (safe_bind (safe_idx (by omega)) (fun _ => safe_mustAtos _ _)); intro _
  exact safe_pure _

theorem safe_parse12 {f : List Bytes} (h : 12 ≤ f.length) : Safe (parse12 f) := by
  unfold parse12
  apply safe_bind (safe_parse6 (by omega)); intro _
  apply safe_bind (safe_bind (safe_idx (by omega)) (fun _ => safe_mustAtoi _ _)); intro _
  apply safe_bind (safe_bind (safe_idx (by omega)) (fun _ => safe_mustAtoi _ _)); intro _
  apply safe_bind (safe_bind (safe_idx (by omega)) (fun _ => safe_mustAtoRgb _ _)); intro _
  apply safe_bind (safe_bind (safe_idx (by omega)) (fun _ => safe_mustAtoi _ _)); intro _
  apply safe_bind (safe_bind (safe_idx (by omega)) (fun _ => safe_mustAtoa _ _)); intro _
  apply safe_bind (safe_bind (safe_idx (by omega)) (fun _ => safe_mustAtoa _ _)); intro _
  split
  · exact safe_ret _
  · exact safe_pure _

theorem safe_parseBody (n : Nat) (hn : validWidth n = true) (line : Bytes) : Safe (parseBody n line) := by
  unfold parseBody
  simp only []
  have hn' : (((n = 3 ∨ n = 4) ∨ n = 5) ∨ n = 6) ∨ n = 12 := by
    simpa [validWidth] using hn
  apply safe_ite
  · intro _; exact safe_ret _
  · intro hlen
    rcases hn' with (((rfl | rfl) | rfl) | rfl) | rfl
    · simp only [beq_self_eq_true, if_true]; exact safe_parse3 (by omega)
    · simp only [show ((4:Nat) == 3) = false from rfl, beq_self_eq_true, if_true, Bool.false_eq_true, if_false]
      exact safe_parse4 (by omega)
    · simp only [show ((5:Nat) == 3) = false from rfl, show ((5:Nat) == 4) = false from rfl,
        beq_self_eq_true, if_true, Bool.false_eq_true, if_false]
      exact safe_parse5 (by omega)
    · simp only [show ((6:Nat) == 3) = false from rfl, show ((6:Nat) == 4) = false from rfl,
        show ((6:Nat) == 5) = false from rfl, beq_self_eq_true, if_true, Bool.false_eq_true, if_false]
      exact safe_parse6 (by omega)
    · simp only [show ((12:Nat) == 3) = false from rfl, show ((12:Nat) == 4) = false from rfl,
        show ((12:Nat) == 5) = false from rfl, show ((12:Nat) == 6) = false from rfl,
        Bool.false_eq_true, if_false]
      exact safe_parse12 (by omega)

/-- `parseBedN` never panics, whatever the line -/
theorem parseBed_no_panic (n : Nat) (hn : validWidth n = true) (line : Bytes) :
    ∀ p, parseBed n line ≠ .panic p :=
  handlePanic_no_panic (safe_parseBody n hn line)

end Biogo.Bed

namespace Biogo.Gff
open Biogo.BytesFeat

theorem safe_mustAtoi {f : List Bytes} {i : Nat} (h : i < f.length) : Safe (mustAtoi f i) := by
  unfold mustAtoi
  apply safe_bind (safe_idx h); intro x
  split
  · exact safe_ok _
  · exact safe_panic_error _

theorem safe_mustAtoPos {f : List Bytes} {i : Nat} (h : i < f.length) : Safe (mustAtoPos f i) := by
  unfold mustAtoPos
  apply safe_bind (safe_mustAtoi h); intro v
  split
  · exact safe_ok _
  · exact safe_panic_error _

theorem safe_mustAtofPtr (o : Oracles) {f : List Bytes} {i : Nat} (h : i < f.length) :
    Safe (mustAtofPtr o f i) := by
  unfold mustAtofPtr
  apply safe_bind (safe_idx h); intro x
  split
  · exact safe_ok _
  · split
    · exact safe_ok _
    · exact safe_panic_error _

theorem safe_mustAtoFr {f : List Bytes} {i : Nat} (h : i < f.length) : Safe (mustAtoFr f i) := by
  unfold mustAtoFr
  apply safe_bind (safe_idx h); intro x
  split
  · exact safe_ok _
  · split
    · exact safe_ok _
    · exact safe_panic_error _

theorem safe_mustAtos {f : List Bytes} {i : Nat} (h : i < f.length) : Safe (mustAtos f i) := by
  unfold mustAtos
  apply safe_bind (safe_idx h); intro x
  split
  · repeat (first | exact safe_ok _ | exact safe_panic_error _ | split)
  · exact safe_panic_error _

theorem safe_splitAnnotAux (col : Nat) (f acc : Bytes) : Safe (splitAnnotAux col f acc) := by
  induction f generalizing acc with
  | nil => exact safe_ok _
  | cons b r ih =>
    unfold splitAnnotAux
    split
    · exact safe_ok _
    · split
      · exact ih _
      · exact safe_panic_error _

theorem safe_attrLoop (col : Nat) (ps : List Bytes) : Safe (attrLoop col ps) := by
  induction ps with
  | nil => exact safe_ok _
  | cons p ps ih =>
    unfold attrLoop
    simp only []
    split
    · exact ih
    · apply safe_bind (safe_splitAnnotAux _ _ _); intro tv
      split
      · exact safe_panic_error _
      · apply safe_bind ih; intro rest
        exact safe_ok _

theorem safe_mustAtoa {f : List Bytes} {i : Nat} (h : i < f.length) : Safe (mustAtoa f i) := by
  unfold mustAtoa
  apply safe_bind (safe_idx h); intro x
  exact safe_attrLoop _ _

theorem safe_parseFeature (o : Oracles) (line : Bytes) : Safe (parseFeature o line) := by
  unfold parseFeature
  simp only []
  apply safe_ite
  · intro _; exact safe_ret _
  · intro h7
    apply safe_bind (safe_idx (by omega)); intro _
    apply safe_bind (safe_idx (by omega)); intro _
    apply safe_bind (safe_idx (by omega)); intro _
    apply safe_bind (safe_mustAtoPos (by omega)); intro _
    apply safe_bind (safe_mustAtoi (by omega)); intro _
    apply safe_bind (safe_mustAtofPtr o (by omega)); intro _
    apply safe_bind (safe_mustAtos (by omega)); intro _
    apply safe_bind (safe_mustAtoFr (by omega)); intro _
    apply safe_ite
    · intro _; exact safe_pure _
    · intro h8
      apply safe_bind (safe_mustAtoa (by omega)); intro _
      apply safe_ite
      · intro _; exact safe_pure _
      · intro h9
        apply safe_bind (safe_idx (by omega)); intro _
        exact safe_pure _

end Biogo.Gff

namespace Biogo.Gff
open Biogo.BytesFeat

theorem safe_commentMetaline (o : Oracles) (md : Meta) (line : Bytes) (r : Res Item)
    (h : commentMetaline o md line = .done r) : Safe r := by
  unfold commentMetaline at h
  simp only [] at h
  split at h
  · cases h; exact safe_ret _
  · rename_i k args hf
    split at h
    · -- gff-version
      split at h
      · cases h; exact safe_ret _
      · rename_i hlen
        split at h
        · split at h <;> cases h
          exact safe_ret _
        · cases h; exact safe_ret _
        · rename_i p hp
          cases h
          intro q hq
          cases hq
          exact safe_mustAtoi (f := splitOn 32 line) (i := 1) (by omega) p hp
    · split at h
      · split at h <;> cases h
        exact safe_ret _
      · split at h
        · split at h
          · cases h; exact safe_ret _
          · split at h <;> cases h
            exact safe_ret _
        · split at h
          · split at h
            · cases h; exact safe_ret _
            · split at h <;> cases h
          · split at h
            · split at h
              · cases h; exact safe_ret _
              · rename_i hlen
                cases h
                apply safe_bind (safe_idx (by omega)); intro _
                apply safe_bind (safe_mustAtoPos (by omega)); intro _
                apply safe_bind (safe_mustAtoi (by omega)); intro _
                exact safe_pure _
            · split at h
              · split at h <;> cases h
                exact safe_ret _
              · cases h; exact safe_ret _

end Biogo.Gff

namespace Biogo.Gff
open Biogo.BytesFeat

theorem resToCall_no_panic {r : Res Item} (h : Safe r) (line : Nat) : ∀ p, resToCall r line ≠ .panicked p := by
  intro p hp
  unfold resToCall at hp
  split at hp
  · cases hp
  · cases hp
  · rename_i q hq
    exact handlePanic_no_panic h q hq

theorem metaSeq_no_panic (mt id : Bytes) (ls : List Bytes) (st : St) (body : Bytes) :
    ∀ p, (metaSeq mt id ls st body).1 ≠ .panicked p := by
  induction ls generalizing st body with
  | nil => intro p h; simp [metaSeq] at h
  | cons l ls ih =>
    intro p
    unfold metaSeq
    simp only []
    split
    · exact ih _ _ p
    · split
      · intro h; cases h
      · split
        · split
          · intro h; cases h
          · intro h; cases h
        · exact ih _ _ p

/-- what is left after `metaSeq` is a suffix no longer than what it was given -/
theorem metaSeq_length (mt id : Bytes) (ls : List Bytes) (st : St) (body : Bytes) :
    (metaSeq mt id ls st body).2.1.length ≤ ls.length := by
  induction ls generalizing st body with
  | nil => simp [metaSeq]
  | cons l ls ih =>
    unfold metaSeq
    simp only []
    split
    · exact Nat.le_succ_of_le (ih _ _)
    · split
      · simp
      · split
        · split <;> simp
        · exact Nat.le_succ_of_le (ih _ _)

theorem read_no_panic (o : Oracles) (ls : List Bytes) (st : St) : ∀ p, (read o ls st).1 ≠ .panicked p := by
  induction ls generalizing st with
  | nil => intro p h; simp [read] at h
  | cons l ls ih =>
    intro p
    unfold read
    simp only []
    split
    · exact ih _ p
    · split
      · split
        · exact ih _ p
        · rename_i r hr
          exact resToCall_no_panic (safe_commentMetaline _ _ _ r hr) _ p
        · exact metaSeq_no_panic _ _ _ _ _ p
      · split
        · exact ih _ p
        · apply resToCall_no_panic
          apply safe_bind (safe_parseFeature o l)
          intro f; exact safe_ok _

/-- a call that does not return `io.EOF` consumes at least one line -/
theorem read_length (o : Oracles) (ls : List Bytes) (st : St) :
    (read o ls st).1 = .eof ∨ (read o ls st).2.1.length < ls.length := by
  induction ls generalizing st with
  | nil => left; simp [read]
  | cons l ls ih =>
    unfold read
    simp only []
    split
    · rcases ih { st with line := st.line + 1 } with h | h
      · left; exact h
      · right; exact Nat.lt_succ_of_lt h
    · split
      · split
        · rename_i md _
          rcases ih { line := st.line + 1, md := md } with h | h
          · left; exact h
          · right; exact Nat.lt_succ_of_lt h
        · right; simp
        · right; exact Nat.lt_succ_of_le (metaSeq_length _ _ _ _ _)
      · split
        · rcases ih { st with line := st.line + 1 } with h | h
          · left; exact h
          · right; exact Nat.lt_succ_of_lt h
        · right; simp

end Biogo.Gff

namespace Biogo.Gff
open Biogo.BytesFeat

theorem readCalls_spec (o : Oracles) : ∀ (fuel : Nat) (ls : List Bytes) (st : St), ls.length < fuel →
    (readCalls o fuel ls st).1.length ≤ ls.length + 1 ∧
    (readCalls o fuel ls st).1.getLast? = some .eof ∧
    (∀ p, Call.panicked p ∉ (readCalls o fuel ls st).1) := by
  intro fuel
  induction fuel with
  | zero => intro ls st h; omega
  | succ fuel ih =>
    intro ls st hfuel
    unfold readCalls
    have hnp := read_no_panic o ls st
    have hlen := read_length o ls st
    generalize hr : read o ls st = res at hnp hlen
    obtain ⟨c, ls', st'⟩ := res
    simp only at hnp hlen
    cases c with
    | eof => simp
    | panicked p => exact absurd rfl (hnp p)
    | item i =>
      rcases hlen with h | h
      · cases h
      · obtain ⟨h1, h2, h3⟩ := ih ls' st' (by omega)
        simp only [List.length_cons]
        refine ⟨by omega, ?_, ?_⟩
        · rw [List.getLast?_cons]
          cases hcs : (readCalls o fuel ls' st').1.getLast? with
          | none => rw [hcs] at h2; cases h2
          | some x => rw [hcs] at h2; simpa using h2
        · intro p hp
          rcases List.mem_cons.mp hp with hp | hp
          · cases hp
          · exact h3 p hp
    | err e l =>
      rcases hlen with h | h
      · cases h
      · obtain ⟨h1, h2, h3⟩ := ih ls' st' (by omega)
        simp only [List.length_cons]
        refine ⟨by omega, ?_, ?_⟩
        · rw [List.getLast?_cons]
          cases hcs : (readCalls o fuel ls' st').1.getLast? with
          | none => rw [hcs] at h2; cases h2
          | some x => rw [hcs] at h2; simpa using h2
        · intro p hp
          rcases List.mem_cons.mp hp with hp | hp
          · cases hp
          · exact h3 p hp

end Biogo.Gff

namespace Biogo.BytesFeat

@[simp] theorem bind_ok {ε α β} (a : α) (f : α → Res ε β) : (Res.ok a >>= f) = f a := rfl
@[simp] theorem bind_ret {ε α β} (e : ε) (f : α → Res ε β) : (Res.ret e >>= f : Res ε β) = .ret e := rfl
@[simp] theorem bind_panic {ε α β} (p : PanicVal ε) (f : α → Res ε β) : (Res.panic p >>= f : Res ε β) = .panic p := rfl
@[simp] theorem pure_eq_ok {ε α} (a : α) : (pure a : Res ε α) = .ok a := rfl

theorem idx_eq {ε} {f : List Bytes} {i : Nat} (h : i < f.length) : (idx f i : Res ε Bytes) = .ok f[i] := by
  unfold idx; rw [List.getElem?_eq_getElem h]

theorem idx_of_getElem? {ε} {f : List Bytes} {i : Nat} {x : Bytes} (h : f[i]? = some x) :
    (idx f i : Res ε Bytes) = .ok x := by
  unfold idx; rw [h]

/-- a safe computation that does not succeed ends, after `handlePanic`, as a returned error -/
theorem handlePanic_ret_of_not_ok {ε α} {r : Res ε α} (hs : Safe r) (hn : ∀ a, r ≠ .ok a) :
    ∃ e, handlePanic r = .ret e := by
  cases r with
  | ok a => exact absurd rfl (hn a)
  | ret e => exact ⟨e, rfl⟩
  | panic p =>
    obtain ⟨e, rfl⟩ := hs p rfl
    exact ⟨e, rfl⟩

theorem bind_not_ok {ε α β} {r : Res ε α} {f : α → Res ε β} (hn : ∀ a, r ≠ .ok a) : ∀ b, (r >>= f) ≠ .ok b := by
  intro b
  cases r with
  | ok a => exact absurd rfl (hn a)
  | ret e => intro h; cases h
  | panic p => intro h; cases h

theorem bind_not_ok_right {ε α β} {r : Res ε α} {f : α → Res ε β} (hf : ∀ a b, f a ≠ .ok b) :
    ∀ b, (r >>= f) ≠ .ok b := by
  intro b
  cases r with
  | ok a => exact hf a b
  | ret e => intro h; cases h
  | panic p => intro h; cases h

end Biogo.BytesFeat
