/-
Optimality of the table values of the model against `Spec.Alignment`: transfer of the
suffix-oriented statements of `AlignLinRec` to the prefix-oriented table cells.
-/
import Biogo.Proofs.AlignLinBest

namespace Biogo.Proofs.AlignLin
open Biogo.Spec.Alignment Biogo.AlignLin

theorem projR_append (a b : Aln) : projR (a ++ b) = projR a ++ projR b := by
  induction a with
  | nil => rfl
  | cons c a ih => cases c <;> simp [projR, ih]

theorem projQ_append (a b : Aln) : projQ (a ++ b) = projQ a ++ projQ b := by
  induction a with
  | nil => rfl
  | cons c a ih => cases c <;> simp [projQ, ih]

theorem scoreLin_append (S : Matrix) (a b : Aln) : scoreLin S (a ++ b) = scoreLin S a + scoreLin S b := by
  induction a with
  | nil => simp [scoreLin]
  | cons c a ih => simp only [List.cons_append, scoreLin, ih]; omega

theorem projR_reverse (a : Aln) : projR a.reverse = (projR a).reverse := by
  induction a with
  | nil => rfl
  | cons c a ih => cases c <;> simp [projR, projR_append, ih]

theorem projQ_reverse (a : Aln) : projQ a.reverse = (projQ a).reverse := by
  induction a with
  | nil => rfl
  | cons c a ih => cases c <;> simp [projQ, projQ_append, ih]

theorem scoreLin_reverse (S : Matrix) (a : Aln) : scoreLin S a.reverse = scoreLin S a := by
  induction a with
  | nil => rfl
  | cons c a ih => simp only [List.reverse_cons, scoreLin_append, scoreLin, ih]; omega

theorem isGlobal_reverse {a : Aln} {r q : List Nat} (h : IsGlobal a r q) :
    IsGlobal a.reverse r.reverse q.reverse := by
  obtain ⟨h1, h2⟩ := h
  exact ⟨by rw [projR_reverse, h1], by rw [projQ_reverse, h2]⟩

theorem isGlobal_reverse' {a : Aln} {r q : List Nat} (h : IsGlobal a r.reverse q.reverse) :
    IsGlobal a.reverse r q := by
  have := isGlobal_reverse h
  simpa using this

/-! ### NW -/

theorem nwScore_eq (S : Matrix) (r q : List Nat) : nwScore S r q = gRec S false r.reverse q.reverse := by
  have := fill_cell S false r q r.length q.length (Nat.le_refl _) (Nat.le_refl _)
  simpa [nwScore, nwTable, cellG] using this

theorem nw_opt (S : Matrix) (r q : List Nat) :
    (∀ a, IsGlobal a r q → scoreLin S a ≤ nwScore S r q) ∧
    ∃ a, IsGlobal a r q ∧ scoreLin S a = nwScore S r q := by
  rw [nwScore_eq]
  constructor
  · intro a h
    have := nwRec_upper S a.reverse _ _ (isGlobal_reverse h)
    rwa [scoreLin_reverse] at this
  · obtain ⟨a, h, hs⟩ := nwRec_attain S r.reverse q.reverse
    exact ⟨a.reverse, isGlobal_reverse' h, by rw [scoreLin_reverse, hs]⟩

/-! ### Fitted -/

theorem fitScoreAt_eq (S : Matrix) (r q : List Nat) (e : Nat) (he : e ≤ r.length) :
    fitScoreAt S r q e = gRec S true (r.take e).reverse q.reverse := by
  have := fill_cell S true r q e q.length he (Nat.le_refl _)
  simpa [fitScoreAt, fitTable, cellG] using this

theorem fit_opt (S : Matrix) (r q : List Nat) (hg : ∀ x ∈ r, S x 0 ≤ 0) (e : Nat) (he : e ≤ r.length) :
    (∀ a, IsFitted a r q e → scoreLin S a ≤ fitScoreAt S r q e) ∧
    ∃ a, IsFitted a r q e ∧ scoreLin S a = fitScoreAt S r q e := by
  rw [fitScoreAt_eq S r q e he]
  constructor
  · intro a ⟨i, _, _, h⟩
    have hp : ((r.take e).drop i).reverse <+: (r.take e).reverse := by
      refine ⟨((r.take e).take i).reverse, ?_⟩
      rw [← List.reverse_append, List.take_append_drop]
    have := fitRec_upper S a.reverse _ _ _
      (fun x hx => hg x (List.mem_of_mem_take (List.mem_reverse.mp hx))) hp (isGlobal_reverse h)
    rwa [scoreLin_reverse] at this
  · obtain ⟨r', a, ⟨t, ht⟩, h, hs⟩ := fitRec_attain S (r.take e).reverse q.reverse
    have hX : r.take e = t.reverse ++ r'.reverse := by
      have := congrArg List.reverse ht
      simpa using this.symm
    have hlen : t.length ≤ e := by
      have := congrArg List.length hX
      simp at this; omega
    refine ⟨a.reverse, ⟨t.length, hlen, he, ?_⟩, by rw [scoreLin_reverse, hs]⟩
    have hd : (r.take e).drop t.length = r'.reverse := by
      rw [hX]; simp
    rw [hd]
    have := isGlobal_reverse h
    simpa using this

/-! ### SW -/

theorem sw_cell_le (S : Matrix) (r q : List Nat) (hg : GapsNonPos S r q) (i j : Nat)
    (hi : i ≤ r.length) (hj : j ≤ q.length) : cellS S r q i j ≤ swScore S r q := by
  have hb := (swFill_bound S r q hg).2
  rw [swFill_fst] at hb
  have h1 := rowsSpec_get (swRec S) q r [] i hi
  have h2 := rowSpec_get (swRec S ((r.take i).reverse ++ [])) q j hj
  have hrow := List.mem_of_getElem? h1
  have hx := List.mem_of_getElem? h2
  have := hb _ hrow _ hx
  simpa [cellS, swScore] using this

theorem sw_best_cell (S : Matrix) (r q : List Nat) :
    (swFill S r q).2.i ≤ r.length ∧ (swFill S r q).2.j ≤ q.length ∧
    cellS S r q (swFill S r q).2.i (swFill S r q).2.j = swScore S r q := by
  have hp := swFill_pos S r q
  rw [swFill_fst] at hp
  simp only [swScore]
  generalize (swFill S r q).2 = best at hp ⊢
  cases hrow : (rowSpec (swRec S []) q :: rowsSpec (swRec S) q [] r)[best.i]? with
  | none => rw [hrow] at hp; simp at hp
  | some row =>
    rw [hrow] at hp
    simp only [Option.bind_some] at hp
    have hi : best.i ≤ r.length := by
      have := (List.getElem?_eq_some_iff.mp hrow).1
      simp [rowsSpec_length] at this; omega
    have h1 := rowsSpec_get (swRec S) q r [] best.i hi
    rw [hrow] at h1
    have hr : row = rowSpec (swRec S ((r.take best.i).reverse ++ [])) q := by simpa using h1
    have hj : best.j ≤ q.length := by
      have := (List.getElem?_eq_some_iff.mp hp).1
      rw [hr, rowSpec_length] at this; omega
    refine ⟨hi, hj, ?_⟩
    rw [hr, rowSpec_get _ _ _ hj] at hp
    simpa [cellS] using hp

theorem sw_opt (S : Matrix) (r q : List Nat) (hg : GapsNonPos S r q) :
    (∀ a, IsLocal a r q → scoreLin S a ≤ swScore S r q) ∧
    ∃ a, IsLocal a r q ∧ scoreLin S a = swScore S r q := by
  constructor
  · intro a ⟨r₁, r₂, r₃, q₁, q₂, q₃, hr, hq, h⟩
    have hi : (r₁ ++ r₂).length ≤ r.length := by rw [hr]; simp
    have hj : (q₁ ++ q₂).length ≤ q.length := by rw [hq]; simp
    have hcell := sw_cell_le S r q hg _ _ hi hj
    have htr : r.take (r₁ ++ r₂).length = r₁ ++ r₂ := by rw [hr]; exact List.take_left' rfl
    have htq : q.take (q₁ ++ q₂).length = q₁ ++ q₂ := by rw [hq]; exact List.take_left' rfl
    have hpr : r₂.reverse <+: (r₁ ++ r₂).reverse := ⟨r₁.reverse, by simp⟩
    have hpq : q₂.reverse <+: (q₁ ++ q₂).reverse := ⟨q₁.reverse, by simp⟩
    have := swRec_upper S a.reverse _ _ _ _
      (fun x hx => hg.1 x (by rw [hr]; simp at hx ⊢; rcases hx with hx | hx <;> simp [hx]))
      (fun x hx => hg.2 x (by rw [hq]; simp at hx ⊢; rcases hx with hx | hx <;> simp [hx]))
      hpr hpq (isGlobal_reverse h)
    rw [scoreLin_reverse] at this
    simp only [cellS, htr, htq] at hcell
    omega
  · obtain ⟨hi, hj, hc⟩ := sw_best_cell S r q
    generalize (swFill S r q).2.i = bi at hi hc
    generalize (swFill S r q).2.j = bj at hj hc
    obtain ⟨r', q', a, ⟨tr, htr⟩, ⟨tq, htq⟩, h, hs⟩ := swRec_attain S (r.take bi).reverse (q.take bj).reverse
    have hR : r.take bi = tr.reverse ++ r'.reverse := by
      have := congrArg List.reverse htr
      simpa using this.symm
    have hQ : q.take bj = tq.reverse ++ q'.reverse := by
      have := congrArg List.reverse htq
      simpa using this.symm
    refine ⟨a.reverse, ⟨tr.reverse, r'.reverse, r.drop bi, tq.reverse, q'.reverse, q.drop bj, ?_, ?_, ?_⟩, ?_⟩
    · rw [← hR, List.take_append_drop]
    · rw [← hQ, List.take_append_drop]
    · exact isGlobal_reverse h
    · rw [scoreLin_reverse, hs, ← hc]; rfl

end Biogo.Proofs.AlignLin
