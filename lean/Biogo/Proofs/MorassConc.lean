/-
Structural invariants of the concurrent sorter model (`Biogo.MorassConc`): WaitGroup counter,
hand-off channel, buffer tokens.  They hold for every caller program, with or without an
injected fault, in both modes.  Core Lean only.
-/
import Biogo.Model.MorassConc

namespace Biogo.MorassConc
open Biogo.Morass Biogo.Interleave

def live (w : Writer) : Bool := w.pc != .done
def atRecv (w : Writer) : Bool := w.pc == .recv
/-- the activation holds a chunk buffer that it will hand back to `pool` -/
def holding (w : Writer) : Bool :=
  w.pc == .register || w.pc == .encode || w.pc == .sync || w.pc == .ret

def b2n (b : Bool) : Nat := if b then 1 else 0

/-- number of `write()` activations with property `p`: spawned goroutines, plus the caller's
    own activation while it is inside `Finalise`'s synchronous `m.write()` -/
def cnt (p : Writer → Bool) (s : CState) : Nat :=
  s.writers.countP p + b2n (s.pc == .finWrite && p s.inl)

/-- the caller owns the buffer `m.chunk` refers to (not between `writable <- chunk` and
    `chunk = <-pool`) -/
def chunkTok (s : CState) : Nat := b2n (s.m.chunk.isSome && s.pc != .pushRecv)

/-- the structural invariant, with the number `B` of chunk buffers in circulation as a parameter:
    2 in general (`Str`: the chunk made by `New` and the one `Push` makes when it receives the
    pre-seeded `nil`), 1 in sequential mode (`pool` starts empty) -/
structure StrB (B : Nat) (s : CState) : Prop where
  wg : s.wg = cnt live s
  chan : s.writable.buf.length = cnt atRecv s
  cap : s.m.pool + cnt holding s + s.writable.buf.length + chunkTok s ≤ B
  recv : s.pc = .pushRecv → 1 ≤ s.m.pool + cnt holding s + s.writable.buf.length
  wcap : s.writable.cap = 1
  inlLive : s.pc = .finWrite → s.inl.pc ≠ .done

abbrev Str (s : CState) : Prop := StrB 2 s

theorem countP_set' {α} (p : α → Bool) (l : List α) (i : Nat) (a : α) (h : i < l.length) :
    (l.set i a).countP p + b2n (p l[i]) = l.countP p + b2n (p a) := by
  rw [List.countP_set h]
  have : b2n (p l[i]) ≤ l.countP p := by
    unfold b2n
    split
    · rename_i hp
      exact List.countP_pos_iff.mpr ⟨l[i], List.getElem_mem h, hp⟩
    · omega
  unfold b2n at *
  split <;> split <;> simp_all <;> omega

/-- what one block of a `write()` activation does to the shared state -/
structure WEffect (s s' : CState) (w w' : Writer) : Prop where
  pc : s'.pc = s.pc
  prog : s'.prog = s.prog
  outs : s'.outs = s.outs
  inl : s'.inl = s.inl
  writers : s'.writers = s.writers
  conc : s'.conc = s.conc
  autoClean : s'.autoClean = s.autoClean
  chunk : s'.m.chunk = s.m.chunk
  pos : s'.m.pos = s.m.pos
  len : s'.m.len = s.m.len
  fast : s'.m.fast = s.m.fast
  cs : s'.m.chunkSize = s.m.chunkSize
  ac : s'.m.autoClear = s.m.autoClear
  wcap : s'.writable.cap = s.writable.cap
  liveW : live w = true
  wgEq : s'.wg + b2n (live w) = s.wg + b2n (live w')
  chanEq : s'.writable.buf.length + b2n (atRecv w) = s.writable.buf.length + b2n (atRecv w')
  tokEq : s'.m.pool + b2n (holding w') + s'.writable.buf.length
            = s.m.pool + b2n (holding w) + s.writable.buf.length

theorem wstep_effect {s s' : CState} {w w' : Writer} (h : wstep s w = some (w', s'))
    (hwg : live w = true → 1 ≤ s.wg) : WEffect s s' w w' := by
  unfold wstep at h
  cases hpc : w.pc <;> simp only [hpc] at h
  · -- recv
    cases hr : s.writable.recv with
    | none => simp [hr] at h
    | some p =>
      obtain ⟨r, ch⟩ := p
      obtain ⟨hb, hcap⟩ := Chan.recv_buf hr
      simp only [hr] at h
      cases ht : tick s.flt .tempfile with
      | mk bad flt =>
        simp only [ht] at h
        cases bad <;> simp only [Bool.false_eq_true, if_false, if_true, Option.some.injEq, Prod.mk.injEq] at h <;>
          obtain ⟨rfl, rfl⟩ := h <;>
          constructor <;> simp [live, atRecv, holding, b2n, hpc, hb, hcap, setErr] <;> omega
  · -- register
    simp only [Option.some.injEq, Prod.mk.injEq] at h
    obtain ⟨rfl, rfl⟩ := h
    constructor <;> simp [live, atRecv, holding, b2n, hpc]
    all_goals (split <;> simp)
  · -- encode
    cases htodo : w.todo with
    | nil =>
      simp only [htodo, Option.some.injEq, Prod.mk.injEq] at h
      obtain ⟨rfl, rfl⟩ := h
      constructor <;> simp [live, atRecv, holding, b2n, hpc]
    | cons e t =>
      simp only [htodo] at h
      cases ht : tick s.flt .encode with
      | mk bad flt =>
        simp only [ht] at h
        cases bad <;> simp only [Bool.false_eq_true, if_false, if_true, Option.some.injEq, Prod.mk.injEq] at h <;>
          obtain ⟨rfl, rfl⟩ := h <;>
          constructor <;> simp [live, atRecv, holding, b2n, hpc, setErr]
        all_goals (split <;> simp)
  · -- sync
    cases ht : tick s.flt .sync with
    | mk bad flt =>
      simp only [ht, Option.some.injEq, Prod.mk.injEq] at h
      obtain ⟨rfl, rfl⟩ := h
      constructor <;> simp [live, atRecv, holding, b2n, hpc]
      all_goals (try (split <;> simp [setErr]))
  · -- ret
    split at h
    · simp only [Option.some.injEq, Prod.mk.injEq] at h
      obtain ⟨rfl, rfl⟩ := h
      have h1 := hwg (by simp [live, hpc])
      constructor <;> simp [live, atRecv, holding, b2n, hpc] <;> omega
    · simp at h
  · simp at h

/-- a caller-side operation that leaves the concurrency state alone and does not create
    buffer tokens -/
structure Frame (s s' : CState) : Prop where
  pc : s'.pc = s.pc
  prog : s'.prog = s.prog
  outs : s'.outs = s.outs
  inl : s'.inl = s.inl
  writers : s'.writers = s.writers
  writable : s'.writable = s.writable
  wg : s'.wg = s.wg
  conc : s'.conc = s.conc
  autoClean : s'.autoClean = s.autoClean
  cs : s'.m.chunkSize = s.m.chunkSize
  ac : s'.m.autoClear = s.m.autoClear
  tok : s'.m.pool + b2n s'.m.chunk.isSome ≤ s.m.pool + b2n s.m.chunk.isSome

theorem Frame.refl (s : CState) : Frame s s :=
  ⟨rfl, rfl, rfl, rfl, rfl, rfl, rfl, rfl, rfl, rfl, rfl, Nat.le_refl _⟩

theorem Frame.trans {a b c : CState} (h1 : Frame a b) (h2 : Frame b c) : Frame a c :=
  ⟨h2.pc.trans h1.pc, h2.prog.trans h1.prog, h2.outs.trans h1.outs, h2.inl.trans h1.inl,
   h2.writers.trans h1.writers, h2.writable.trans h1.writable, h2.wg.trans h1.wg,
   h2.conc.trans h1.conc, h2.autoClean.trans h1.autoClean, h2.cs.trans h1.cs, h2.ac.trans h1.ac,
   Nat.le_trans h2.tok h1.tok⟩

theorem clear_tok (m : Morass.State) :
    (clear m).pool + b2n (clear m).chunk.isSome ≤ m.pool + b2n m.chunk.isSome
    ∧ (clear m).chunkSize = m.chunkSize ∧ (clear m).autoClear = m.autoClear := by
  unfold clear
  split
  · refine ⟨?_, rfl, rfl⟩
    simp only [Option.isSome_some, b2n, if_true]
    have : b2n m.chunk.isSome ≥ 0 := Nat.zero_le _
    omega
  · refine ⟨?_, rfl, rfl⟩
    cases m.chunk <;> simp [b2n]

theorem clearF_frame (s : CState) : Frame s (clearF s).1 := by
  unfold clearF
  cases hc : clearLoop s.flt s.onDisk s.m.files with
  | mk flt rest =>
    obtain ⟨disk, ok⟩ := rest
    simp only
    cases ok
    · simp only [Bool.false_eq_true, if_false]
      exact ⟨rfl, rfl, rfl, rfl, rfl, rfl, rfl, rfl, rfl, rfl, rfl, Nat.le_refl _⟩
    · simp only [if_true]
      obtain ⟨h1, h2, h3⟩ := clear_tok s.m
      exact ⟨rfl, rfl, rfl, rfl, rfl, rfl, rfl, rfl, rfl, h2, h3, h1⟩

theorem atEof_frame (s : CState) : Frame s (atEof s) := by
  unfold atEof
  split
  · exact ⟨rfl, rfl, rfl, rfl, rfl, rfl, rfl, rfl, rfl, rfl, rfl, Nat.le_refl _⟩
  · exact Frame.refl s

theorem condClear_frame (b : Bool) (s : CState) : Frame s (if b then (clearF s).1 else s) := by
  cases b
  · exact Frame.refl s
  · exact clearF_frame s

theorem pullF_frame (s : CState) : Frame s (pullF s).1 := by
  unfold pullF
  simp only
  split
  · -- fast
    split
    · rename_i ch hch
      split
      · exact ⟨rfl, rfl, rfl, rfl, rfl, rfl, rfl, rfl, rfl, rfl, rfl, by simp [hch]⟩
      · split
        · exact Frame.refl s
        · have f1 : Frame s { s with m := { s.m with pool := s.m.pool + 1, chunk := none } } :=
            ⟨rfl, rfl, rfl, rfl, rfl, rfl, rfl, rfl, rfl, rfl, rfl, by simp [hch, b2n]⟩
          exact f1.trans ((condClear_frame _ _).trans (atEof_frame _))
    · exact (condClear_frame _ _).trans (atEof_frame _)
  · split
    · rename_i low others hpm
      cases ht : tick s.flt .pdecode with
      | mk bad flt =>
        simp only
        have fr : ∀ (t : CState), t.pc = s.pc → t.prog = s.prog → t.outs = s.outs → t.inl = s.inl →
            t.writers = s.writers → t.writable = s.writable → t.wg = s.wg → t.conc = s.conc →
            t.autoClean = s.autoClean → t.m.chunkSize = s.m.chunkSize → t.m.autoClear = s.m.autoClear →
            t.m.pool = s.m.pool → t.m.chunk = s.m.chunk → Frame s t := by
          intro t a b c d e f g h i j k l m'
          exact ⟨a, b, c, d, e, f, g, h, i, j, k, by rw [l, m']; exact Nat.le_refl _⟩
        cases bad
        · simp only [Bool.false_eq_true, if_false]
          cases hrest : low.rest <;> cases hhead : low.head <;> simp only <;>
            exact fr _ rfl rfl rfl rfl rfl rfl rfl rfl rfl rfl rfl rfl rfl
        · simp only [if_true]
          exact fr _ rfl rfl rfl rfl rfl rfl rfl rfl rfl rfl rfl rfl rfl
    · exact (condClear_frame _ _).trans (atEof_frame _)

/-! ### preservation of `Str` -/

theorem cnt_eq_of (p : Writer → Bool) {s t : CState} (hw : t.writers = s.writers)
    (h1 : s.pc ≠ .finWrite) (h2 : t.pc ≠ .finWrite) : cnt p t = cnt p s := by
  unfold cnt
  have e1 : (s.pc == CPc.finWrite) = false := by simpa using h1
  have e2 : (t.pc == CPc.finWrite) = false := by simpa using h2
  simp [hw, e1, e2, b2n]

/-- a caller block outside `m.write()` that spawns nothing -/
theorem Str_caller {B : Nat} {s t : CState} (hs : StrB B s)
    (hwr : t.writers = s.writers) (hwb : t.writable = s.writable) (hwg : t.wg = s.wg)
    (hpc1 : s.pc ≠ .finWrite) (hpc2 : t.pc ≠ .finWrite) (hpc3 : t.pc ≠ .pushRecv)
    (htok : t.m.pool + chunkTok t ≤ s.m.pool + chunkTok s) : StrB B t := by
  have hc : ∀ p, cnt p t = cnt p s := fun p => cnt_eq_of p hwr hpc1 hpc2
  refine ⟨by rw [hwg, hc]; exact hs.wg, by rw [hwb, hc]; exact hs.chan, ?_, fun h => absurd h hpc3,
          by rw [hwb]; exact hs.wcap, fun h => absurd h hpc2⟩
  rw [hc, hwb]
  have := hs.cap
  omega

theorem chunkTok_idle {s : CState} (h : s.pc ≠ .pushRecv) : chunkTok s = b2n s.m.chunk.isSome := by
  unfold chunkTok
  have : (s.pc != CPc.pushRecv) = true := by simpa using h
  simp [this]

/-- finishing a call after a `Frame` operation -/
theorem Str_finishOp {B : Nat} {s s1 : CState} (hs : StrB B s) (hidle : s.pc = .idle) (hf : Frame s s1)
    (r : Res) (v : Option Elem) : StrB B (finishOp s1 r v) := by
  apply Str_caller hs (t := finishOp s1 r v)
  · exact hf.writers
  · exact hf.writable
  · exact hf.wg
  · rw [hidle]; simp
  · simp [finishOp]
  · simp [finishOp]
  · rw [chunkTok_idle (s := finishOp s1 r v) (by simp [finishOp]), chunkTok_idle (s := s) (by rw [hidle]; simp)]
    exact hf.tok

theorem frame_m {s : CState} {m' : Morass.State} (hcs : m'.chunkSize = s.m.chunkSize)
    (hac : m'.autoClear = s.m.autoClear)
    (htok : m'.pool + b2n m'.chunk.isSome ≤ s.m.pool + b2n s.m.chunk.isSome) :
    Frame s { s with m := m' } :=
  ⟨rfl, rfl, rfl, rfl, rfl, rfl, rfl, rfl, rfl, hcs, hac, htok⟩

theorem p_new (p : Writer → Bool) : True := trivial

theorem live_new : live ({} : Writer) = true := rfl
theorem atRecv_new : atRecv ({} : Writer) = true := rfl
theorem holding_new : holding ({} : Writer) = false := rfl

theorem done_false {w : Writer} (h : w.pc = .done) : live w = false ∧ atRecv w = false ∧ holding w = false := by
  simp [live, atRecv, holding, h]

theorem Str_init (conc : Bool) (c : Nat) (ac acl : Bool) (prog : List Op) (flt : Fault) (reuse : Bool := false) :
    Str (initState conc c ac acl prog flt reuse) := by
  refine ⟨rfl, rfl, ?_, fun h => by simp [initState] at h, rfl, fun h => by simp [initState] at h⟩
  cases conc <;> simp [initState, cnt, chunkTok, b2n]

/-- a caller block that ends between calls and spawns nothing -/
theorem Str_idle {B : Nat} {s t : CState} (hs : StrB B s) (hfrom : s.pc ≠ .finWrite)
    (hpc : t.pc = .idle) (hwr : t.writers = s.writers) (hwb : t.writable = s.writable)
    (hwg : t.wg = s.wg) (htok : t.m.pool + b2n t.m.chunk.isSome ≤ s.m.pool + chunkTok s) : StrB B t := by
  apply Str_caller hs hwr hwb hwg hfrom (by rw [hpc]; simp) (by rw [hpc]; simp)
  rw [chunkTok_idle (s := t) (by rw [hpc]; simp)]
  exact htok

/-- a caller block that only moves the caller to another step of the same call -/
theorem Str_move {B : Nat} {s t : CState} (hs : StrB B s) (hfrom : s.pc = .idle)
    (hpc : t.pc = .pushSend ∨ t.pc = .finSend) (hwr : t.writers = s.writers)
    (hwb : t.writable = s.writable) (hwg : t.wg = s.wg) (hpool : t.m.pool = s.m.pool)
    (hch : t.m.chunk.isSome = s.m.chunk.isSome) : StrB B t := by
  have h1 : t.pc ≠ .finWrite := by rcases hpc with h | h <;> rw [h] <;> simp
  have h2 : t.pc ≠ .pushRecv := by rcases hpc with h | h <;> rw [h] <;> simp
  apply Str_caller hs hwr hwb hwg (by rw [hfrom]; simp) h1 h2
  rw [chunkTok_idle h2, chunkTok_idle (s := s) (by rw [hfrom]; simp), hpool, hch]
  exact Nat.le_refl _

theorem Str_cstep {B : Nat} {s t : CState} (hs : StrB B s) (h : cstep s = some t) : StrB B t := by
  unfold cstep at h
  cases hpc : s.pc <;> simp only [hpc] at h
  · -- idle
    have hfrom : s.pc ≠ .finWrite := by rw [hpc]; simp
    have htk : chunkTok s = b2n s.m.chunk.isSome := chunkTok_idle (by rw [hpc]; simp)
    cases hprog : s.prog with
    | nil => simp [hprog] at h
    | cons op rest =>
      simp only [hprog] at h
      cases op with
      | push e =>
        simp only at h
        cases herr : s.m.err with
        | some r =>
          simp only [herr, Option.some.injEq] at h; subst h
          apply Str_idle hs hfrom <;> simp [finishOp, htk]
        | none =>
          simp only [herr] at h
          cases hch : s.m.chunk with
          | none =>
            simp only [hch, Option.some.injEq] at h; subst h
            apply Str_idle hs hfrom <;> simp [finishOp, htk, hch]
          | some ch =>
            simp only [hch] at h
            split at h
            · simp only [Option.some.injEq] at h; subst h
              apply Str_move hs hpc <;> simp [hch]
            · rename_i hfull
              simp only [Option.some.injEq] at h; subst h
              apply Str_idle hs hfrom <;> simp [finishOp, htk, push, herr, hch, hfull]
      | finalise =>
        simp only at h
        cases herr : s.m.err with
        | some r =>
          simp only [herr, Option.some.injEq] at h; subst h
          apply Str_idle hs hfrom <;> simp [finishOp, htk]
        | none =>
          simp only [herr] at h
          cases hch : s.m.chunk with
          | none =>
            simp only [hch, Option.some.injEq] at h; subst h
            apply Str_idle hs hfrom <;> simp [finishOp, htk, hch]
          | some ch =>
            simp only [hch] at h
            split at h
            · rename_i hlt
              simp only [Option.some.injEq] at h; subst h
              apply Str_idle hs hfrom <;> simp [finishOp, htk, finalise, herr, hch, hlt]
            · split at h
              · simp only [Option.some.injEq] at h; subst h
                apply Str_move hs hpc <;> simp [hch]
              · cases hp : primeAll s.flt s.m.files with
                | mk flt rest =>
                  obtain ⟨fs, ok⟩ := rest
                  simp only [hp, Option.some.injEq] at h; subst h
                  apply Str_idle hs hfrom <;> simp [finishOp, htk, hch]
      | pull =>
        simp only [Option.some.injEq] at h; subst h
        have f := pullF_frame s
        apply Str_idle hs hfrom <;> simp [finishOp, htk, f.writers, f.writable, f.wg]
        exact f.tok
      | clear =>
        simp only [Option.some.injEq] at h; subst h
        have f := clearF_frame s
        apply Str_idle hs hfrom <;> simp [finishOp, htk, f.writers, f.writable, f.wg]
        exact f.tok
      | reject =>
        simp only [Option.some.injEq] at h; subst h
        apply Str_idle hs hfrom <;> simp [finishOp, htk]
  · -- pushSend
    cases hch : s.m.chunk with
    | none => simp [hch] at h
    | some ch =>
      simp only [hch] at h
      cases hsend : s.writable.send ch with
      | none => simp [hsend] at h
      | some wr =>
        simp only [hsend, Option.some.injEq] at h; subst h
        obtain ⟨hb, hcap, _⟩ := Chan.send_buf hsend
        have hc : ∀ p, cnt p { s with writable := wr, wg := s.wg + 1, writers := s.writers ++ [{}], pc := CPc.pushRecv }
            = cnt p s + b2n (p {}) := by
          intro p; simp [cnt, hpc, List.countP_append, List.countP_cons, b2n]
        have hcap' := hs.cap
        have htok : chunkTok s = 1 := by simp [chunkTok, hch, hpc, b2n]
        refine ⟨?_, ?_, ?_, ?_, ?_, fun h => by simp at h⟩
        · rw [hc, live_new]; show s.wg + 1 = _; rw [hs.wg]; rfl
        · rw [hc, atRecv_new]; show wr.buf.length = _; rw [hb, ← hs.chan]; simp [b2n]
        · rw [hc, holding_new]
          show s.m.pool + _ + wr.buf.length + chunkTok _ ≤ B
          rw [hb]; simp only [List.length_append, List.length_cons, List.length_nil, chunkTok, b2n]
          simp at *; omega
        · intro _; rw [hc, holding_new]
          show 1 ≤ s.m.pool + _ + wr.buf.length
          rw [hb]; simp only [List.length_append, List.length_cons, List.length_nil]; omega
        · show wr.cap = 1; rw [hcap]; exact hs.wcap
  · -- pushRecv
    split at h
    · simp at h
    · rename_i hpool
      cases hprog : s.prog with
      | nil => simp [hprog] at h
      | cons op rest =>
        cases op <;> simp only [hprog] at h <;> try (simp at h)
        rename_i e
        have hpool' : 1 ≤ s.m.pool := Nat.pos_of_ne_zero hpool
        have h0 : chunkTok s = 0 := by simp [chunkTok, hpc, b2n]
        split at h
        · simp only [Option.some.injEq] at h; subst h
          apply Str_idle hs (by rw [hpc]; simp) <;> simp [finishOp, h0, b2n]
          omega
        · simp only [Option.some.injEq] at h; subst h
          apply Str_idle hs (by rw [hpc]; simp) <;> simp [finishOp, h0, b2n]
          omega
  · -- finSend
    cases hch : s.m.chunk with
    | none => simp [hch] at h
    | some ch =>
      simp only [hch] at h
      cases hsend : s.writable.send ch with
      | none => simp [hsend] at h
      | some wr =>
        simp only [hsend, Option.some.injEq] at h; subst h
        obtain ⟨hb, hcap, _⟩ := Chan.send_buf hsend
        have hc : ∀ p, cnt p { s with writable := wr, wg := s.wg + 1, m := { s.m with chunk := none }, inl := {}, pc := CPc.finWrite }
            = cnt p s + b2n (p {}) := by
          intro p; simp [cnt, hpc, b2n]
        have hcap' := hs.cap
        have htok : chunkTok s = 1 := by simp [chunkTok, hch, hpc, b2n]
        refine ⟨?_, ?_, ?_, fun h => by simp at h, ?_, fun _ => by simp⟩
        · rw [hc, live_new]; show s.wg + 1 = _; rw [hs.wg]; rfl
        · rw [hc, atRecv_new]; show wr.buf.length = _; rw [hb, ← hs.chan]; simp [b2n]
        · rw [hc, holding_new]
          show s.m.pool + _ + wr.buf.length + chunkTok _ ≤ B
          rw [hb]; simp only [List.length_append, List.length_cons, List.length_nil, chunkTok, b2n]
          simp at *; omega
        · show wr.cap = 1; rw [hcap]; exact hs.wcap
  · -- finWrite
    cases hw : wstep s s.inl with
    | none => simp [hw] at h
    | some p =>
      obtain ⟨w, s'⟩ := p
      simp only [hw, Option.some.injEq] at h; subst h
      have hlive : live s.inl = true := by simp [live, hs.inlLive hpc]
      have hwg1 : 1 ≤ s.wg := by
        rw [hs.wg]; simp [cnt, hpc, hlive, b2n]
      have E := wstep_effect hw (fun _ => hwg1)
      have hc : ∀ p, (w.pc = .done → p w = false) →
          cnt p { s' with inl := w, pc := if w.pc = WPc.done then CPc.finWait else CPc.finWrite }
            + b2n (p s.inl) = cnt p s + b2n (p w) := by
        intro p hp
        by_cases hd : w.pc = .done
        · simp [cnt, hd, hp hd, E.writers, hpc, b2n]
        · simp [cnt, hd, E.writers, hpc, b2n]; omega
      have e1 := hc live (fun h => (done_false h).1)
      have e2 := hc atRecv (fun h => (done_false h).2.1)
      have e3 := hc holding (fun h => (done_false h).2.2)
      have htokeq : chunkTok { s' with inl := w, pc := if w.pc = WPc.done then CPc.finWait else CPc.finWrite } = chunkTok s := by
        by_cases hd : w.pc = .done <;> simp [chunkTok, hd, E.chunk, hpc] <;> cases s.m.chunk.isSome <;> rfl
      have a1 := E.wgEq; have a2 := E.chanEq; have a3 := E.tokEq
      have b1 := hs.wg; have b2 := hs.chan; have b3 := hs.cap
      refine ⟨?_, ?_, ?_, ?_, ?_, ?_⟩
      · show s'.wg = _; omega
      · show s'.writable.buf.length = _; omega
      · rw [htokeq]; show s'.m.pool + _ + s'.writable.buf.length + _ ≤ B; omega
      · intro hp; by_cases hd : w.pc = .done <;> simp [hd] at hp
      · show s'.writable.cap = 1; rw [E.wcap]; exact hs.wcap
      · intro hp
        by_cases hd : w.pc = .done
        · simp [hd] at hp
        · exact hd
  · -- finWait
    have htk : chunkTok s = b2n s.m.chunk.isSome := chunkTok_idle (by rw [hpc]; simp)
    split at h
    · simp at h
    · cases herr : s.m.err with
      | some r =>
        simp only [herr, Option.some.injEq] at h; subst h
        apply Str_idle hs (by rw [hpc]; simp) <;> simp [finishOp, htk]
      | none =>
        simp only [herr] at h
        cases hp : primeAll s.flt s.m.files with
        | mk flt rest =>
          obtain ⟨fs, ok⟩ := rest
          simp only [hp, Option.some.injEq] at h; subst h
          apply Str_idle hs (by rw [hpc]; simp) <;> simp [finishOp, htk]

theorem cnt_ge_of_mem (p : Writer → Bool) {s : CState} {k : Nat} {w : Writer}
    (hk : s.writers[k]? = some w) (hp : p w = true) : 1 ≤ cnt p s := by
  have hm : w ∈ s.writers := List.mem_of_getElem? hk
  have : 0 < s.writers.countP p := List.countP_pos_iff.mpr ⟨w, hm, hp⟩
  unfold cnt; omega

theorem Str_wactor {B : Nat} {s s' : CState} {k : Nat} {w w' : Writer} (hs : StrB B s)
    (hk : s.writers[k]? = some w) (hw : wstep s w = some (w', s')) :
    StrB B { s' with writers := s'.writers.set k w' } := by
  have hwg1 : live w = true → 1 ≤ s.wg := by
    intro hl; rw [hs.wg]; exact cnt_ge_of_mem live hk hl
  have E := wstep_effect hw hwg1
  obtain ⟨hklt, hkw⟩ := List.getElem?_eq_some_iff.mp hk
  have hc : ∀ p, cnt p { s' with writers := s'.writers.set k w' } + b2n (p w) = cnt p s + b2n (p w') := by
    intro p
    have := countP_set' p s.writers k w' hklt
    rw [hkw] at this
    simp only [cnt, E.writers, E.pc, E.inl]
    omega
  have e1 := hc live; have e2 := hc atRecv; have e3 := hc holding
  have a1 := E.wgEq; have a2 := E.chanEq; have a3 := E.tokEq
  have b1 := hs.wg; have b2 := hs.chan; have b3 := hs.cap
  have htok : chunkTok { s' with writers := s'.writers.set k w' } = chunkTok s := by
    simp [chunkTok, E.chunk, E.pc]
  refine ⟨?_, ?_, ?_, ?_, ?_, ?_⟩
  · show s'.wg = _; omega
  · show s'.writable.buf.length = _; omega
  · rw [htok]; show s'.m.pool + _ + s'.writable.buf.length + _ ≤ B; omega
  · intro hp
    have hp' : s.pc = .pushRecv := by rw [← E.pc]; exact hp
    have b4 := hs.recv hp'
    show 1 ≤ s'.m.pool + _ + s'.writable.buf.length; omega
  · show s'.writable.cap = 1; rw [E.wcap]; exact hs.wcap
  · intro hp
    have hp' : s.pc = .finWrite := by rw [← E.pc]; exact hp
    show s'.inl.pc ≠ .done; rw [E.inl]; exact hs.inlLive hp'

theorem Str_step {B : Nat} {s t : CState} {i : Nat} (hs : StrB B s) (h : step s i = some t) : StrB B t := by
  cases i with
  | zero => exact Str_cstep hs h
  | succ k =>
    simp only [step] at h
    cases hk : s.writers[k]? with
    | none => simp [hk] at h
    | some w =>
      simp only [hk] at h
      cases hw : wstep s w with
      | none => simp [hw] at h
      | some p =>
        obtain ⟨w', s'⟩ := p
        simp only [hw, Option.some.injEq] at h; subst h
        exact Str_wactor hs hk hw

/-- the structural invariant holds in every reachable state: every program, every schedule,
    with or without an injected fault, in both modes -/
theorem reach_Str {conc : Bool} {c : Nat} {ac acl : Bool} {prog : List Op} {flt : Fault} {reuse : Bool} {s : CState}
    (h : Reach (sys conc c ac acl prog flt reuse) s) : Str s :=
  inv_of_reach _ Str (Str_init conc c ac acl prog flt reuse) (fun _ _ _ hs hst => Str_step hs hst) s h

/-! ### control invariant: what the caller is in the middle of -/

structure Ctl (s : CState) : Prop where
  sendChunk : (s.pc = .pushSend ∨ s.pc = .finSend) → s.m.chunk.isSome = true
  pushProg : (s.pc = .pushSend ∨ s.pc = .pushRecv) → ∃ e rest, s.prog = Op.push e :: rest

theorem Ctl_trivial {t : CState} (h : t.pc = .idle ∨ t.pc = .finWrite ∨ t.pc = .finWait) : Ctl t := by
  constructor
  · intro h'; rcases h with h | h | h <;> rcases h' with h' | h' <;> rw [h] at h' <;> simp at h'
  · intro h'; rcases h with h | h | h <;> rcases h' with h' | h' <;> rw [h] at h' <;> simp at h'

theorem finishOp_pc (s : CState) (r : Res) (v : Option Elem) : (finishOp s r v).pc = .idle := rfl

theorem Ctl_cstep {s t : CState} (hc : Ctl s) (h : cstep s = some t) : Ctl t := by
  unfold cstep at h
  cases hpc : s.pc <;> simp only [hpc] at h
  · -- idle
    cases hprog : s.prog with
    | nil => simp [hprog] at h
    | cons op rest =>
      simp only [hprog] at h
      cases op with
      | push e =>
        simp only at h
        cases herr : s.m.err with
        | some r => simp only [herr, Option.some.injEq] at h; subst h; exact Ctl_trivial (Or.inl rfl)
        | none =>
          simp only [herr] at h
          cases hch : s.m.chunk with
          | none => simp only [hch, Option.some.injEq] at h; subst h; exact Ctl_trivial (Or.inl rfl)
          | some ch =>
            simp only [hch] at h
            split at h
            · simp only [Option.some.injEq] at h; subst h
              exact ⟨fun _ => by simp [hch], fun _ => ⟨e, rest, rfl⟩⟩
            · simp only [Option.some.injEq] at h; subst h; exact Ctl_trivial (Or.inl rfl)
      | finalise =>
        simp only at h
        cases herr : s.m.err with
        | some r => simp only [herr, Option.some.injEq] at h; subst h; exact Ctl_trivial (Or.inl rfl)
        | none =>
          simp only [herr] at h
          cases hch : s.m.chunk with
          | none => simp only [hch, Option.some.injEq] at h; subst h; exact Ctl_trivial (Or.inl rfl)
          | some ch =>
            simp only [hch] at h
            split at h
            · simp only [Option.some.injEq] at h; subst h; exact Ctl_trivial (Or.inl rfl)
            · split at h
              · simp only [Option.some.injEq] at h; subst h
                exact ⟨fun _ => by simp, fun h' => by rcases h' with h' | h' <;> simp at h'⟩
              · cases hp : primeAll s.flt s.m.files with
                | mk flt rest' =>
                  obtain ⟨fs, ok⟩ := rest'
                  simp only [hp, Option.some.injEq] at h; subst h; exact Ctl_trivial (Or.inl rfl)
      | pull => simp only [Option.some.injEq] at h; subst h; exact Ctl_trivial (Or.inl rfl)
      | clear => simp only [Option.some.injEq] at h; subst h; exact Ctl_trivial (Or.inl rfl)
      | reject => simp only [Option.some.injEq] at h; subst h; exact Ctl_trivial (Or.inl rfl)
  · -- pushSend
    obtain ⟨e, rest, hprog⟩ := hc.pushProg (Or.inl hpc)
    cases hch : s.m.chunk with
    | none => simp [hch] at h
    | some ch =>
      simp only [hch] at h
      cases hsend : s.writable.send ch with
      | none => simp [hsend] at h
      | some wr =>
        simp only [hsend, Option.some.injEq] at h; subst h
        exact ⟨fun h' => by rcases h' with h' | h' <;> simp at h', fun _ => ⟨e, rest, hprog⟩⟩
  · -- pushRecv
    split at h
    · simp at h
    · cases hprog : s.prog with
      | nil => simp [hprog] at h
      | cons op rest =>
        cases op <;> simp only [hprog] at h <;> try (simp at h)
        split at h <;> (simp only [Option.some.injEq] at h; subst h; exact Ctl_trivial (Or.inl rfl))
  · -- finSend
    cases hch : s.m.chunk with
    | none => simp [hch] at h
    | some ch =>
      simp only [hch] at h
      cases hsend : s.writable.send ch with
      | none => simp [hsend] at h
      | some wr =>
        simp only [hsend, Option.some.injEq] at h; subst h
        exact Ctl_trivial (Or.inr (Or.inl rfl))
  · -- finWrite
    cases hw : wstep s s.inl with
    | none => simp [hw] at h
    | some p =>
      obtain ⟨w, s'⟩ := p
      simp only [hw, Option.some.injEq] at h; subst h
      by_cases hd : w.pc = .done
      · exact Ctl_trivial (Or.inr (Or.inr (by simp [hd])))
      · exact Ctl_trivial (Or.inr (Or.inl (by simp [hd])))
  · -- finWait
    split at h
    · simp at h
    · cases herr : s.m.err with
      | some r => simp only [herr, Option.some.injEq] at h; subst h; exact Ctl_trivial (Or.inl rfl)
      | none =>
        simp only [herr] at h
        cases hp : primeAll s.flt s.m.files with
        | mk flt rest =>
          obtain ⟨fs, ok⟩ := rest
          simp only [hp, Option.some.injEq] at h; subst h; exact Ctl_trivial (Or.inl rfl)

theorem Ctl_step {s t : CState} {i : Nat} (hs : Str s) (hc : Ctl s) (h : step s i = some t) : Ctl t := by
  cases i with
  | zero => exact Ctl_cstep hc h
  | succ k =>
    simp only [step] at h
    cases hk : s.writers[k]? with
    | none => simp [hk] at h
    | some w =>
      simp only [hk] at h
      cases hw : wstep s w with
      | none => simp [hw] at h
      | some p =>
        obtain ⟨w', s'⟩ := p
        simp only [hw, Option.some.injEq] at h; subst h
        have E := wstep_effect hw (fun hl => by rw [hs.wg]; exact cnt_ge_of_mem live hk hl)
        constructor
        · intro h'
          have : s.pc = .pushSend ∨ s.pc = .finSend := by rw [← E.pc]; exact h'
          show s'.m.chunk.isSome = true; rw [E.chunk]; exact hc.sendChunk this
        · intro h'
          have : s.pc = .pushSend ∨ s.pc = .pushRecv := by rw [← E.pc]; exact h'
          show ∃ e rest, s'.prog = Op.push e :: rest; rw [E.prog]; exact hc.pushProg this

theorem reach_Ctl {conc : Bool} {c : Nat} {ac acl : Bool} {prog : List Op} {flt : Fault} {reuse : Bool} {s : CState}
    (h : Reach (sys conc c ac acl prog flt reuse) s) : Ctl s := by
  have : Str s ∧ Ctl s := by
    refine inv_of_reach _ (fun s => Str s ∧ Ctl s) ⟨Str_init _ _ _ _ _ _ _, Ctl_trivial (Or.inl rfl)⟩ ?_ s h
    intro a i b hab hst
    exact ⟨Str_step hab.1 hst, Ctl_step hab.1 hab.2 hst⟩
  exact this.2

/-! ### enabledness -/

theorem tick_some_if {α} (f : Fault) (pt : Pt) (a b : α) :
    ((match tick f pt with | (bad, flt) => if bad = true then some (a, flt) else some (b, flt)) : Option (α × Fault)).isSome := by
  cases tick f pt with
  | mk bad flt => cases bad <;> rfl

theorem wstep_isSome {s : CState} {w : Writer}
    (h : (w.pc = .recv ∧ s.writable.buf ≠ []) ∨ w.pc = .register ∨ w.pc = .encode ∨ w.pc = .sync
          ∨ (w.pc = .ret ∧ s.m.pool < 2)) : (wstep s w).isSome = true := by
  unfold wstep
  rcases h with ⟨hpc, hb⟩ | hpc | hpc | hpc | ⟨hpc, hp⟩
  · simp only [hpc]
    cases hbuf : s.writable.buf with
    | nil => exact absurd hbuf hb
    | cons r rest =>
      simp only [Chan.recv, hbuf]
      cases tick s.flt .tempfile with
      | mk bad flt => cases bad <;> rfl
  · simp [hpc]
  · simp only [hpc]
    cases w.todo with
    | nil => rfl
    | cons e t =>
      simp only
      cases tick s.flt .encode with
      | mk bad flt => cases bad <;> rfl
  · simp only [hpc]
    cases tick s.flt .sync with
    | mk bad flt => rfl
  · simp [hpc, hp]

theorem exists_writer_of_countP {p : Writer → Bool} {s : CState} (h : 1 ≤ s.writers.countP p) :
    ∃ (k : Nat) (w : Writer), s.writers[k]? = some w ∧ p w = true := by
  obtain ⟨w, hm, hp⟩ := List.countP_pos_iff.mp h
  obtain ⟨k, hk⟩ := List.getElem?_of_mem hm
  exact ⟨k, w, hk, hp⟩

theorem step_writer_isSome {s : CState} {k : Nat} {w : Writer} (hk : s.writers[k]? = some w)
    (h : (wstep s w).isSome = true) : (step s (k + 1)).isSome = true := by
  simp only [step, hk]
  cases hw : wstep s w with
  | none => rw [hw] at h; simp at h
  | some p => rfl

theorem cstep_idle_isSome {s : CState} (hpc : s.pc = .idle) (hp : s.prog ≠ []) : (cstep s).isSome = true := by
  unfold cstep
  simp only [hpc]
  cases hprog : s.prog with
  | nil => exact absurd hprog hp
  | cons op rest =>
    cases op with
    | push e =>
      simp only
      cases s.m.err with
      | some r => rfl
      | none =>
        simp only
        cases s.m.chunk with
        | none => rfl
        | some ch => simp only; split <;> rfl
    | finalise =>
      simp only
      cases s.m.err with
      | some r => rfl
      | none =>
        simp only
        cases s.m.chunk with
        | none => rfl
        | some ch =>
          simp only
          split
          · rfl
          · split
            · rfl
            · rfl
    | pull => rfl
    | clear => rfl
    | reject => rfl

/-- a live spawned writer that is not waiting for a run and not blocked on `pool` can move -/
theorem writer_enabled {s : CState} {k : Nat} {w : Writer} (hk : s.writers[k]? = some w)
    (hl : live w = true) (hbuf : w.pc = .recv → s.writable.buf ≠ []) (hpool : w.pc = .ret → s.m.pool < 2) :
    (step s (k + 1)).isSome = true := by
  apply step_writer_isSome hk
  apply wstep_isSome
  cases hpc : w.pc
  · exact Or.inl ⟨rfl, hbuf hpc⟩
  · exact Or.inr (Or.inl rfl)
  · exact Or.inr (Or.inr (Or.inl rfl))
  · exact Or.inr (Or.inr (Or.inr (Or.inl rfl)))
  · exact Or.inr (Or.inr (Or.inr (Or.inr ⟨rfl, hpool hpc⟩)))
  · simp [live, hpc] at hl

theorem holding_pool_lt {s : CState} (hs : Str s) (h : 1 ≤ cnt holding s) : s.m.pool < 2 := by
  have := hs.cap; omega

theorem holding_of_ret {w : Writer} (h : w.pc = .ret) : holding w = true := by simp [holding, h]

/-- some spawned writer can move whenever one of them is live, provided runs waiting in
    `writable` are matched by writers waiting to receive (always true when the caller is not
    inside its own `m.write()`) -/
theorem some_writer_enabled {s : CState} (hs : Str s) (hpc : s.pc ≠ .finWrite)
    (h : 1 ≤ s.writers.countP live) : ∃ i, (step s i).isSome = true := by
  have hcnt : ∀ p, cnt p s = s.writers.countP p := by
    intro p
    have : (s.pc == CPc.finWrite) = false := by simpa using hpc
    simp [cnt, this, b2n]
  obtain ⟨k, w, hk, hl⟩ := exists_writer_of_countP h
  refine ⟨k + 1, writer_enabled hk hl ?_ ?_⟩
  · intro hr
    have : 1 ≤ cnt atRecv s := cnt_ge_of_mem atRecv hk (by simp [atRecv, hr])
    have hc := hs.chan
    intro hb; rw [hb] at hc; simp at hc; omega
  · intro hr
    exact holding_pool_lt hs (cnt_ge_of_mem holding hk (holding_of_ret hr))

end Biogo.MorassConc
