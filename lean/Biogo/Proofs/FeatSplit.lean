/-
`bytes.Split` / `bytes.SplitN` undo `bytes.Join` on separator-free fields.
-/
import Biogo.Go.BytesFeat

namespace Biogo.BytesFeat

theorem splitOn_nosep (sep : UInt8) (p : Bytes) (h : sep ∉ p) : splitOn sep p = [p] := by
  induction p with
  | nil => simp [splitOn]
  | cons c r ih =>
    have hc : (c == sep) = false := by
      apply beq_false_of_ne; intro e; subst e; simp at h
    have hr : sep ∉ r := fun e => h (List.mem_cons_of_mem _ e)
    rw [splitOn]; simp [hc, ih hr]

theorem splitOn_field (sep : UInt8) (p rest : Bytes) (h : sep ∉ p) :
    splitOn sep (p ++ sep :: rest) = p :: splitOn sep rest := by
  induction p with
  | nil => rw [List.nil_append, splitOn]; simp
  | cons c r ih =>
    have hc : (c == sep) = false := by
      apply beq_false_of_ne; intro e; subst e; simp at h
    have hr : sep ∉ r := fun e => h (List.mem_cons_of_mem _ e)
    rw [List.cons_append, splitOn]; simp [hc, ih hr]

/-- `bytes.Split(bytes.Join(fs, sep), sep) = fs` for separator-free fields -/
theorem splitOn_joinWith (sep : UInt8) (fs : List Bytes) (hne : fs ≠ []) (h : ∀ f ∈ fs, sep ∉ f) :
    splitOn sep (joinWith sep fs) = fs := by
  induction fs with
  | nil => exact absurd rfl hne
  | cons p ps ih =>
    cases ps with
    | nil => simp [joinWith, splitOn_nosep sep p (h p (by simp))]
    | cons q qs =>
      rw [joinWith, splitOn_field sep p _ (h p (by simp)), ih (by simp) (fun f hf => h f (List.mem_cons_of_mem _ hf))]

theorem splitN_one (sep : UInt8) (s : Bytes) : splitN sep 1 s = [s] := by
  cases s <;> simp [splitN]

theorem splitN_nosep (sep : UInt8) (k : Nat) (hk : 1 ≤ k) (p : Bytes) (h : sep ∉ p) : splitN sep k p = [p] := by
  match k, hk with
  | 1, _ => exact splitN_one sep p
  | n + 2, _ =>
    induction p with
    | nil => simp [splitN]
    | cons c r ih =>
      have hc : (c == sep) = false := by
        apply beq_false_of_ne; intro e; subst e; simp at h
      have hr : sep ∉ r := fun e => h (List.mem_cons_of_mem _ e)
      rw [splitN]; simp [hc, ih hr]

theorem splitN_field (sep : UInt8) (n : Nat) (p rest : Bytes) (h : sep ∉ p) :
    splitN sep (n + 2) (p ++ sep :: rest) = p :: splitN sep (n + 1) rest := by
  induction p with
  | nil => rw [List.nil_append, splitN]; simp
  | cons c r ih =>
    have hc : (c == sep) = false := by
      apply beq_false_of_ne; intro e; subst e; simp at h
    have hr : sep ∉ r := fun e => h (List.mem_cons_of_mem _ e)
    rw [List.cons_append, splitN]; simp [hc, ih hr]

/-- `bytes.SplitN(bytes.Join(fs, sep), sep, k)`: the fields themselves when there are at most
    `k`, otherwise the first `k-1` fields followed by the unsplit rest -/
theorem splitN_joinWith (sep : UInt8) (fs : List Bytes) (hne : fs ≠ []) (h : ∀ f ∈ fs, sep ∉ f) :
    ∀ k, 1 ≤ k → splitN sep k (joinWith sep fs) =
      if fs.length ≤ k then fs else fs.take (k - 1) ++ [joinWith sep (fs.drop (k - 1))] := by
  induction fs with
  | nil => exact absurd rfl hne
  | cons p ps ih =>
    intro k hk
    cases ps with
    | nil =>
      have : ([p] : List Bytes).length ≤ k := by simpa using hk
      simp only [joinWith, this, if_true]
      exact splitN_nosep sep k hk p (h p (by simp))
    | cons q qs =>
      match k, hk with
      | 1, _ =>
        simp [splitN_one]
      | n + 2, _ =>
        rw [joinWith, splitN_field sep n p _ (h p (by simp)),
          ih (by simp) (fun f hf => h f (List.mem_cons_of_mem _ hf)) (n + 1) (by omega)]
        by_cases hl : (q :: qs).length ≤ n + 1
        · have : (p :: q :: qs).length ≤ n + 2 := by simp at hl ⊢; omega
          rw [if_pos hl, if_pos this]
        · have : ¬ (p :: q :: qs).length ≤ n + 2 := by simp at hl ⊢; omega
          rw [if_neg hl, if_neg this]
          simp

/-- the first `m` pieces of `SplitN(line, sep, m+1)` are the first `m` fields -/
theorem splitN_joinWith_get (sep : UInt8) (fs : List Bytes) (h : ∀ f ∈ fs, sep ∉ f) (m : Nat)
    (hm : m ≤ fs.length) (hm1 : 1 ≤ m) :
    m ≤ (splitN sep (m + 1) (joinWith sep fs)).length ∧
    ∀ i, i < m → (splitN sep (m + 1) (joinWith sep fs))[i]? = fs[i]? := by
  have hne : fs ≠ [] := by intro e; subst e; simp at hm; omega
  rw [splitN_joinWith sep fs hne h (m + 1) (by omega)]
  split
  · exact ⟨hm, fun _ _ => rfl⟩
  · refine ⟨by simp; omega, ?_⟩
    intro i hi
    simp only [Nat.add_sub_cancel]
    rw [List.getElem?_append_left (by simp; omega), List.getElem?_take_of_lt hi]

end Biogo.BytesFeat
