/-
Invariants of the piler model (`Biogo.Model.Piler`) used by the C16 theorems.  Core-only.
-/
import Biogo.Model.Piler
import Biogo.Spec.Piles

namespace Biogo.Proofs.Piler
open Biogo.Piler Biogo.Spec.Piles

/-! ### chains -/

theorem touches_symm {a b : Key} (h : touches a b = true) : touches b a = true := by
  simp only [touches, Bool.and_eq_true, beq_iff_eq, decide_eq_true_eq] at *
  omega

theorem touches_iff {a b : Key} : touches a b = true ↔ a.loc = b.loc ∧ a.s ≤ b.e ∧ b.s ≤ a.e := by
  simp only [touches, Bool.and_eq_true, beq_iff_eq, decide_eq_true_eq, and_assoc]

theorem Touch.symm {fs : Feats} {i j : Nat} (h : Touch fs i j) : Touch fs j i := by
  obtain ⟨ki, kj, hi, hj, t⟩ := h
  exact ⟨kj, ki, hj, hi, touches_symm t⟩

theorem Touch.mono {fs fs' : Feats} (sub : ∀ x ∈ fs, x ∈ fs') {i j : Nat} (h : Touch fs i j) :
    Touch fs' i j := by
  obtain ⟨ki, kj, hi, hj, t⟩ := h
  exact ⟨ki, kj, sub _ hi, sub _ hj, t⟩

theorem Linked.mono {fs fs' : Feats} (sub : ∀ x ∈ fs, x ∈ fs') {i j : Nat} (h : Linked fs i j) :
    Linked fs' i j := by
  induction h with
  | refl hi => exact .refl (sub _ hi)
  | tail _ t ih => exact .tail ih (Touch.mono sub t)

theorem Linked.trans {fs : Feats} {i j k : Nat} (h1 : Linked fs i j) (h2 : Linked fs j k) :
    Linked fs i k := by
  induction h2 with
  | refl _ => exact h1
  | tail _ t ih => exact .tail ih t

theorem Linked.of_touch {fs : Feats} {i j : Nat} (t : Touch fs i j) : Linked fs i j := by
  obtain ⟨ki, kj, hi, hj, tt⟩ := t
  exact .tail (.refl hi) ⟨ki, kj, hi, hj, tt⟩

theorem Linked.symm {fs : Feats} {i j : Nat} (h : Linked fs i j) : Linked fs j i := by
  induction h with
  | refl hi => exact .refl hi
  | tail _ t ih => exact Linked.trans (Linked.of_touch (Touch.symm t)) ih

theorem Linked.left_mem {fs : Feats} {i j : Nat} (h : Linked fs i j) : ∃ k, (i, k) ∈ fs := by
  induction h with
  | refl hi => exact ⟨_, hi⟩
  | tail _ _ ih => exact ih

/-! ### `absorb` -/

theorem absorb_imgs (pi : Iv) (f : Bool) (ms : List Iv) :
    (absorb pi f ms).imgs = pi.imgs ++ ms.flatMap (·.imgs) := by
  induction ms generalizing pi f with
  | nil => simp [absorb]
  | cons m ms ih => simp [absorb, ih, List.append_assoc]

theorem absorb_e_ge (pi : Iv) (f : Bool) (ms : List Iv) :
    pi.e ≤ (absorb pi f ms).e ∧ ∀ m ∈ ms, m.e ≤ (absorb pi f ms).e := by
  induction ms generalizing pi f with
  | nil => simp [absorb]
  | cons m ms ih =>
    simp only [absorb, List.mem_cons, forall_eq_or_imp]
    have := ih { s := if f then min m.s pi.s else pi.s, e := max m.e pi.e, imgs := pi.imgs ++ m.imgs } false
    simp only at this
    refine ⟨by omega, by omega, this.2⟩

theorem absorb_e_attained (pi : Iv) (f : Bool) (ms : List Iv) :
    (absorb pi f ms).e = pi.e ∨ ∃ m ∈ ms, (absorb pi f ms).e = m.e := by
  induction ms generalizing pi f with
  | nil => simp [absorb]
  | cons m ms ih =>
    simp only [absorb, List.mem_cons, exists_eq_or_imp]
    rcases ih { s := if f then min m.s pi.s else pi.s, e := max m.e pi.e, imgs := pi.imgs ++ m.imgs } false with h | h
    · simp only at h
      rcases Int.le_total m.e pi.e with c | c
      · left; rw [h]; omega
      · right; left; rw [h]; omega
    · right; right; exact h

theorem absorb_s_false (pi : Iv) (ms : List Iv) : (absorb pi false ms).s = pi.s := by
  induction ms generalizing pi with
  | nil => simp [absorb]
  | cons m ms ih => simp [absorb, ih]

theorem absorb_s_nil (pi : Iv) : (absorb pi true []).s = pi.s := by simp [absorb]

theorem absorb_s_cons (pi : Iv) (m : Iv) (ms : List Iv) :
    (absorb pi true (m :: ms)).s = min m.s pi.s := by
  simp [absorb, absorb_s_false]

/-! ### `insertIv` -/

theorem mem_insertIv {x a : Iv} {t : List Iv} : a ∈ insertIv x t ↔ a = x ∨ a ∈ t := by
  induction t with
  | nil => simp [insertIv]
  | cons b t ih =>
    simp only [insertIv]
    split
    · simp only [List.mem_cons, ih]
      constructor
      · rintro (h | h | h) <;> simp [h]
      · rintro (h | h | h) <;> simp [h]
    · simp [List.mem_cons]

theorem insertIv_perm (x : Iv) (t : List Iv) : (insertIv x t).Perm (x :: t) := by
  induction t with
  | nil => simp [insertIv]
  | cons b t ih =>
    simp only [insertIv]
    split
    · exact (List.Perm.cons b ih).trans (List.Perm.swap x b t)
    · exact List.Perm.refl _

/-- separated and ordered: every earlier interval ends strictly before a later one starts -/
abbrev Sep (t : List Iv) : Prop := t.Pairwise fun a b => a.e < b.s

theorem insertIv_sep {x : Iv} {t : List Iv} (hx : x.s ≤ x.e) (wf : ∀ a ∈ t, a.s ≤ a.e)
    (sep : Sep t) (apart : ∀ a ∈ t, a.e < x.s ∨ x.e < a.s) : Sep (insertIv x t) := by
  induction t with
  | nil => simp [insertIv, Sep]
  | cons b t ih =>
    have sb := List.pairwise_cons.mp sep
    simp only [insertIv]
    split
    · rename_i hle
      refine List.pairwise_cons.mpr ⟨?_, ih (fun a ha => wf a (List.mem_cons_of_mem _ ha)) sb.2
        (fun a ha => apart a (List.mem_cons_of_mem _ ha))⟩
      intro a ha
      rcases mem_insertIv.mp ha with rfl | ha
      · have := apart b (List.mem_cons_self ..)
        have := wf b (List.mem_cons_self ..)
        omega
      · exact sb.1 a ha
    · rename_i hgt
      refine List.pairwise_cons.mpr ⟨?_, sep⟩
      intro a ha
      rcases List.mem_cons.mp ha with rfl | ha
      · have := apart a (List.mem_cons_self ..)
        have := wf a (List.mem_cons_self ..)
        omega
      · have h1 := apart b (List.mem_cons_self ..)
        have h2 := sb.1 a ha
        have h3 := wf b (List.mem_cons_self ..)
        omega

theorem sep_trichotomy {t : List Iv} (sep : Sep t) {a b : Iv} (ha : a ∈ t) (hb : b ∈ t) :
    a = b ∨ a.e < b.s ∨ b.e < a.s := by
  induction t with
  | nil => cases ha
  | cons c t ih =>
    have sc := List.pairwise_cons.mp sep
    rcases List.mem_cons.mp ha with rfl | ha' <;> rcases List.mem_cons.mp hb with rfl | hb'
    · left; rfl
    · right; left; exact sc.1 _ hb'
    · right; right; exact sc.1 _ ha'
    · exact ih sc.2 ha' hb'


theorem absorb_facts (q : Iv) (M : List Iv) (sepM : Sep M) (wfM : ∀ m ∈ M, m.s ≤ m.e) :
    (absorb q true M).s ≤ q.s ∧ q.e ≤ (absorb q true M).e ∧
    (∀ m ∈ M, (absorb q true M).s ≤ m.s ∧ m.e ≤ (absorb q true M).e) ∧
    ((absorb q true M).s = q.s ∨ ∃ h ∈ M, (absorb q true M).s = h.s) ∧
    ((absorb q true M).e = q.e ∨ ∃ m ∈ M, (absorb q true M).e = m.e) := by
  have he := absorb_e_ge q true M
  refine ⟨?_, he.1, ?_, ?_, absorb_e_attained q true M⟩
  · cases M with
    | nil => simp [absorb]
    | cons h M' => rw [absorb_s_cons]; omega
  · intro m hm
    refine ⟨?_, he.2 m hm⟩
    cases M with
    | nil => cases hm
    | cons h M' =>
      rw [absorb_s_cons]
      rcases List.mem_cons.mp hm with rfl | hm'
      · omega
      · have := (List.pairwise_cons.mp sepM).1 m hm'
        have := wfM h (List.mem_cons_self ..)
        omega
  · cases M with
    | nil => left; simp [absorb]
    | cons h M' =>
      rw [absorb_s_cons]
      rcases Int.le_total h.s q.s with c | c
      · right; exact ⟨h, List.mem_cons_self .., by omega⟩
      · left; omega

/-! ### the per-location invariant -/

def WF (fs : Feats) : Prop := ∀ x ∈ fs, x.2.s ≤ x.2.e

/-- what a stored interval is, in terms of the features it has absorbed -/
structure IvOK (fs : Feats) (loc : Nat) (a : Iv) : Prop where
  inside : ∀ i ∈ a.imgs, ∃ k, (i, k) ∈ fs ∧ k.loc = loc ∧ a.s ≤ k.s ∧ k.e ≤ a.e
  lo : ∃ i k, i ∈ a.imgs ∧ (i, k) ∈ fs ∧ k.loc = loc ∧ k.s = a.s ∧ k.e ≤ a.e
  hi : ∃ i k, i ∈ a.imgs ∧ (i, k) ∈ fs ∧ k.loc = loc ∧ k.e = a.e ∧ a.s ≤ k.s
  cover : ∀ x, a.s ≤ x → x < a.e →
    ∃ i k, i ∈ a.imgs ∧ (i, k) ∈ fs ∧ k.loc = loc ∧ k.s ≤ x ∧ x < k.e
  linked : ∀ i ∈ a.imgs, ∀ j ∈ a.imgs, Linked fs i j

theorem IvOK.mono {fs fs' : Feats} (sub : ∀ x ∈ fs, x ∈ fs') {loc : Nat} {a : Iv}
    (h : IvOK fs loc a) : IvOK fs' loc a where
  inside := fun i hi => let ⟨k, h1, h2⟩ := h.inside i hi; ⟨k, sub _ h1, h2⟩
  lo := let ⟨i, k, h0, h1, h2⟩ := h.lo; ⟨i, k, h0, sub _ h1, h2⟩
  hi := let ⟨i, k, h0, h1, h2⟩ := h.hi; ⟨i, k, h0, sub _ h1, h2⟩
  cover := fun x hx hx' => let ⟨i, k, h0, h1, h2⟩ := h.cover x hx hx'; ⟨i, k, h0, sub _ h1, h2⟩
  linked := fun i hi j hj => Linked.mono sub (h.linked i hi j hj)

theorem IvOK.wf {fs : Feats} (wf : WF fs) {loc : Nat} {a : Iv} (h : IvOK fs loc a) : a.s ≤ a.e := by
  obtain ⟨i, k, _, hk, _, h1, h2⟩ := h.lo
  have := wf _ hk
  simp only at this
  omega

/-- a stored interval whose hull touches the query has a member that touches it -/
theorem IvOK.touching_member {fs : Feats} (wf : WF fs) {loc : Nat} {m : Iv} (h : IvOK fs loc m)
    {qs qe : Int} (hq : qs ≤ qe) (t : touchesQ qs qe m = true) :
    ∃ i k, i ∈ m.imgs ∧ (i, k) ∈ fs ∧ k.loc = loc ∧ k.s ≤ qe ∧ qs ≤ k.e := by
  simp only [touchesQ, Bool.and_eq_true, decide_eq_true_eq] at t
  have hm := h.wf wf
  rcases Int.lt_or_le (max qs m.s) m.e with c | c
  · obtain ⟨i, k, h0, h1, h2, h3, h4⟩ := h.cover (max qs m.s) (by omega) c
    exact ⟨i, k, h0, h1, h2, by omega, by omega⟩
  · obtain ⟨i, k, h0, h1, h2, h3, h4⟩ := h.hi
    have := wf _ h1
    simp only at this
    exact ⟨i, k, h0, h1, h2, by omega, by omega⟩

def TreeOK (fs : Feats) (loc : Nat) (t : List Iv) : Prop := (∀ a ∈ t, IvOK fs loc a) ∧ Sep t

theorem TreeOK.mono {fs fs' : Feats} (sub : ∀ x ∈ fs, x ∈ fs') {loc : Nat} {t : List Iv}
    (h : TreeOK fs loc t) : TreeOK fs' loc t := ⟨fun a ha => (h.1 a ha).mono sub, h.2⟩

/-- `merge` preserves `Disjoint ∧ NonAbutting ∧ SortedByStart` (= `Sep`) together with the
    description of every stored interval by its members -/
theorem mergeLoc_ok {fs fs' : Feats} {loc : Nat} {t : List Iv} {i : Nat} {k : Key}
    (wf' : WF fs') (sub : ∀ x ∈ fs, x ∈ fs') (hik : (i, k) ∈ fs') (hloc : k.loc = loc)
    (ht : TreeOK fs loc t) :
    TreeOK fs' loc (mergeLoc t { s := k.s, e := k.e, imgs := [i] }) := by
  have ht' : TreeOK fs' loc t := ht.mono sub
  have hk : k.s ≤ k.e := wf' _ hik
  simp only [mergeLoc]
  generalize hM : t.filter (touchesQ k.s k.e) = M
  generalize hR : t.filter (fun a => !touchesQ k.s k.e a) = R
  have memM : ∀ m ∈ M, m ∈ t ∧ touchesQ k.s k.e m = true := by
    intro m hm; rw [← hM] at hm; exact List.mem_filter.mp hm
  have memR : ∀ r ∈ R, r ∈ t ∧ touchesQ k.s k.e r = false := by
    intro r hr; rw [← hR] at hr
    have := List.mem_filter.mp hr
    exact ⟨this.1, by simpa using this.2⟩
  have sepM : Sep M := by rw [← hM]; exact List.Pairwise.filter _ ht.2
  have sepR : Sep R := by rw [← hR]; exact List.Pairwise.filter _ ht.2
  have okM : ∀ m ∈ M, IvOK fs' loc m := fun m hm => ht'.1 m (memM m hm).1
  have wfM : ∀ m ∈ M, m.s ≤ m.e := fun m hm => (okM m hm).wf wf'
  have wfR : ∀ r ∈ R, r.s ≤ r.e := fun r hr => (ht'.1 r (memR r hr).1).wf wf'
  obtain ⟨f1, f1', f2, f3, f3'⟩ := absorb_facts { s := k.s, e := k.e, imgs := [i] } M sepM wfM
  have fimgs := absorb_imgs { s := k.s, e := k.e, imgs := [i] } true M
  generalize absorb { s := k.s, e := k.e, imgs := [i] } true M = n at *
  simp only at f1 f1' f3 f3' fimgs
  have memN : ∀ j, j ∈ n.imgs ↔ j = i ∨ ∃ m ∈ M, j ∈ m.imgs := by
    intro j; rw [fimgs]; simp [List.mem_flatMap]
  -- every member of an absorbed interval is linked to the new feature
  have linkI : ∀ m ∈ M, ∀ j ∈ m.imgs, Linked fs' j i := by
    intro m hm j hj
    obtain ⟨j', k', h0, h1, h2, h3, h4⟩ := (okM m hm).touching_member wf' hk (memM m hm).2
    have : Touch fs' j' i := ⟨k', k, h1, hik, touches_iff.mpr ⟨by omega, by omega, by omega⟩⟩
    exact Linked.trans ((okM m hm).linked j hj j' h0) (Linked.of_touch this)
  have linkAll : ∀ j ∈ n.imgs, Linked fs' j i := by
    intro j hj
    rcases (memN j).mp hj with rfl | ⟨m, hm, hj⟩
    · exact .refl hik
    · exact linkI m hm j hj
  have okN : IvOK fs' loc n := by
    refine ⟨?_, ?_, ?_, ?_, ?_⟩
    · intro j hj
      rcases (memN j).mp hj with rfl | ⟨m, hm, hj⟩
      · exact ⟨k, hik, hloc, f1, f1'⟩
      · obtain ⟨k', h1, h2, h3, h4⟩ := (okM m hm).inside j hj
        have := f2 m hm
        exact ⟨k', h1, h2, by omega, by omega⟩
    · rcases f3 with c | ⟨h, hh, c⟩
      · exact ⟨i, k, (memN i).mpr (Or.inl rfl), hik, hloc, c.symm, f1'⟩
      · obtain ⟨j, k', h0, h1, h2, h3, h4⟩ := (okM h hh).lo
        have := f2 h hh
        exact ⟨j, k', (memN j).mpr (Or.inr ⟨h, hh, h0⟩), h1, h2, by omega, by omega⟩
    · rcases f3' with c | ⟨m, hm, c⟩
      · exact ⟨i, k, (memN i).mpr (Or.inl rfl), hik, hloc, c.symm, f1⟩
      · obtain ⟨j, k', h0, h1, h2, h3, h4⟩ := (okM m hm).hi
        have := f2 m hm
        exact ⟨j, k', (memN j).mpr (Or.inr ⟨m, hm, h0⟩), h1, h2, by omega, by omega⟩
    · intro x hx hx'
      rcases Int.lt_or_le x k.s with c | c
      · -- left of the new feature: inside the first absorbed interval
        rcases f3 with c' | ⟨h, hh, c'⟩
        · omega
        · have tq := (memM h hh).2
          simp only [touchesQ, Bool.and_eq_true, decide_eq_true_eq] at tq
          obtain ⟨j, k', h0, h1, h2, h3, h4⟩ := (okM h hh).cover x (by omega) (by omega)
          exact ⟨j, k', (memN j).mpr (Or.inr ⟨h, hh, h0⟩), h1, h2, h3, h4⟩
      · rcases Int.lt_or_le x k.e with d | d
        · exact ⟨i, k, (memN i).mpr (Or.inl rfl), hik, hloc, c, d⟩
        · rcases f3' with c' | ⟨m, hm, c'⟩
          · omega
          · have tq := (memM m hm).2
            simp only [touchesQ, Bool.and_eq_true, decide_eq_true_eq] at tq
            obtain ⟨j, k', h0, h1, h2, h3, h4⟩ := (okM m hm).cover x (by omega) (by omega)
            exact ⟨j, k', (memN j).mpr (Or.inr ⟨m, hm, h0⟩), h1, h2, h3, h4⟩
    · intro a ha b hb
      exact Linked.trans (linkAll a ha) (Linked.symm (linkAll b hb))
  have apart : ∀ r ∈ R, r.e < n.s ∨ n.e < r.s := by
    intro r hr
    have ⟨hrt, hrq⟩ := memR r hr
    have hrwf := wfR r hr
    have hrq' : r.e < k.s ∨ k.e < r.s := by
      simp only [touchesQ, Bool.and_eq_false_iff, decide_eq_false_iff_not] at hrq
      omega
    rcases hrq' with c | c
    · left
      rcases f3 with c' | ⟨h, hh, c'⟩
      · omega
      · have tq := (memM h hh).2
        simp only [touchesQ, Bool.and_eq_true, decide_eq_true_eq] at tq
        rcases sep_trichotomy ht.2 hrt (memM h hh).1 with e | e | e
        · subst e; omega
        · omega
        · omega
    · right
      rcases f3' with c' | ⟨m, hm, c'⟩
      · omega
      · have tq := (memM m hm).2
        simp only [touchesQ, Bool.and_eq_true, decide_eq_true_eq] at tq
        have := wfM m hm
        rcases sep_trichotomy ht.2 hrt (memM m hm).1 with e | e | e
        · subst e; omega
        · omega
        · omega
  refine ⟨?_, insertIv_sep (by omega) wfR sepR apart⟩
  intro a ha
  rcases mem_insertIv.mp ha with rfl | ha
  · exact okN
  · exact ht'.1 a (memR a ha).1

/-- the images stored on a location after a merge: the new one plus the old ones -/
theorem mergeLoc_imgs (t : List Iv) (pi : Iv) :
    ((mergeLoc t pi).flatMap (·.imgs)).Perm (pi.imgs ++ t.flatMap (·.imgs)) := by
  simp only [mergeLoc]
  refine ((insertIv_perm _ _).flatMap_right _).trans ?_
  simp only [List.flatMap_cons, absorb_imgs, List.append_assoc]
  refine List.Perm.append_left _ ?_
  rw [← List.flatMap_append]
  exact (List.filter_append_perm (touchesQ pi.s pi.e) t).flatMap_right _

end Biogo.Proofs.Piler
