/-
Proofs about the C15 oracle (`Biogo.Model.PalsOracle`): the row-by-row score equals the
recursive one, the recursive one is the maximum over all global alignments, and the arithmetic
that links score, exact matches and edit operations.  Core-only.
-/
import Biogo.Model.PalsOracle

namespace Biogo.PalsOracle
open Biogo.Spec.Alignment

/-! ### equations of `nwRec` -/

theorem nwRec_nil_nil (S : Matrix) : nwRec S [] [] = 0 := by simp [nwRec]

theorem nwRec_nil_cons (S : Matrix) (q : Nat) (qs : List Nat) :
    nwRec S [] (q :: qs) = S 0 q + nwRec S [] qs := by simp [nwRec]

theorem nwRec_cons_nil (S : Matrix) (r : Nat) (rs : List Nat) :
    nwRec S (r :: rs) [] = S r 0 + nwRec S rs [] := by simp [nwRec]

theorem nwRec_cons_cons (S : Matrix) (r : Nat) (rs : List Nat) (q : Nat) (qs : List Nat) :
    nwRec S (r :: rs) (q :: qs) =
      max (max (S r q + nwRec S rs qs) (S r 0 + nwRec S rs (q :: qs))) (S 0 q + nwRec S (r :: rs) qs) := by
  simp [nwRec]

/-! ### rows -/

theorem rowOf_head (S : Matrix) (rs q : List Nat) : (rowOf S rs q).headD 0 = nwRec S rs q := by
  cases q <;> simp [rowOf]

theorem rowOf_tail (S : Matrix) (rs : List Nat) (x : Nat) (xs : List Nat) :
    (rowOf S rs (x :: xs)).tail = rowOf S rs xs := by simp [rowOf]

theorem baseRow_eq (S : Matrix) (q : List Nat) : baseRow S q = rowOf S [] q := by
  induction q with
  | nil => simp [baseRow, rowOf, nwRec_nil_nil]
  | cons x xs ih =>
    simp only [baseRow, rowOf, ih, rowOf_head, nwRec_nil_cons]

theorem stepRow_eq (S : Matrix) (r : Nat) (rs q : List Nat) :
    stepRow S r q (rowOf S rs q) = rowOf S (r :: rs) q := by
  induction q with
  | nil => simp [stepRow, rowOf, nwRec_cons_nil]
  | cons x xs ih =>
    simp only [stepRow, rowOf_tail, ih, rowOf_head]
    simp only [rowOf, nwRec_cons_cons]

theorem globalRow_eq (S : Matrix) (r q : List Nat) : globalRow S r q = rowOf S r q := by
  induction r with
  | nil => simp [globalRow, baseRow_eq]
  | cons c cs ih =>
    have : globalRow S (c :: cs) q = stepRow S c q (globalRow S cs q) := by simp [globalRow]
    rw [this, ih, stepRow_eq]

/-- the row-by-row evaluation computes the recursive definition -/
theorem globalScore_eq (S : Matrix) (r q : List Nat) : globalScore S r q = nwRec S r q := by
  unfold globalScore; rw [globalRow_eq, rowOf_head]

/-! ### optimality of the recursion -/

theorem nwRec_upper (S : Matrix) (a : Aln) : scoreLin S a ≤ nwRec S (projR a) (projQ a) := by
  induction a with
  | nil => simp [scoreLin, projR, projQ, nwRec_nil_nil]
  | cons c a ih =>
    cases c with
    | m x y =>
      simp only [scoreLin, colScore, projR, projQ, nwRec_cons_cons]
      omega
    | u x =>
      simp only [scoreLin, colScore, projR, projQ]
      cases h : projQ a with
      | nil => rw [h] at ih; rw [nwRec_cons_nil]; omega
      | cons y ys => rw [h] at ih; rw [nwRec_cons_cons]; omega
    | l y =>
      simp only [scoreLin, colScore, projR, projQ]
      cases h : projR a with
      | nil => rw [h] at ih; rw [nwRec_nil_cons]; omega
      | cons x xs => rw [h] at ih; rw [nwRec_cons_cons]; omega

theorem nwRec_attained (S : Matrix) (r q : List Nat) :
    ∃ a : Aln, projR a = r ∧ projQ a = q ∧ scoreLin S a = nwRec S r q := by
  induction r generalizing q with
  | nil =>
    induction q with
    | nil => exact ⟨[], rfl, rfl, by simp [scoreLin, nwRec_nil_nil]⟩
    | cons y ys ih =>
      obtain ⟨a, h1, h2, h3⟩ := ih
      exact ⟨.l y :: a, by simp [projR, h1], by simp [projQ, h2],
        by simp [scoreLin, colScore, h3, nwRec_nil_cons]⟩
  | cons x xs ihr =>
    induction q with
    | nil =>
      obtain ⟨a, h1, h2, h3⟩ := ihr []
      exact ⟨.u x :: a, by simp [projR, h1], by simp [projQ, h2],
        by simp [scoreLin, colScore, h3, nwRec_cons_nil]⟩
    | cons y ys ihq =>
      obtain ⟨a1, d1, d2, d3⟩ := ihr ys
      obtain ⟨a2, u1, u2, u3⟩ := ihr (y :: ys)
      obtain ⟨a3, l1, l2, l3⟩ := ihq
      rw [nwRec_cons_cons]
      -- pick the branch that realises the maximum
      rcases Int.le_total (S x 0 + nwRec S xs (y :: ys)) (S x y + nwRec S xs ys) with c1 | c1
      · rcases Int.le_total (S 0 y + nwRec S (x :: xs) ys) (S x y + nwRec S xs ys) with c2 | c2
        · refine ⟨.m x y :: a1, by simp [projR, d1], by simp [projQ, d2], ?_⟩
          simp only [scoreLin, colScore, d3]; omega
        · refine ⟨.l y :: a3, by simp [projR, l1], by simp [projQ, l2], ?_⟩
          simp only [scoreLin, colScore, l3]; omega
      · rcases Int.le_total (S 0 y + nwRec S (x :: xs) ys) (S x 0 + nwRec S xs (y :: ys)) with c2 | c2
        · refine ⟨.u x :: a2, by simp [projR, u1], by simp [projQ, u2], ?_⟩
          simp only [scoreLin, colScore, u3]; omega
        · refine ⟨.l y :: a3, by simp [projR, l1], by simp [projQ, l2], ?_⟩
          simp only [scoreLin, colScore, l3]; omega

/-! ### score, exact matches, edit operations -/

theorem nmatch_add_cost (a : Aln) : nmatch a + cost a = a.length := by
  induction a with
  | nil => rfl
  | cons c a ih => simp only [nmatch, cost, List.length_cons]; split <;> omega

theorem nmatch_le_projR (a : Aln) : nmatch a ≤ (projR a).length := by
  induction a with
  | nil => simp [nmatch, projR]
  | cons c a ih =>
    cases c with
    | m r q => simp only [nmatch, projR, List.length_cons]; split <;> omega
    | u r => simp only [nmatch, Col.exact, projR, List.length_cons, Bool.false_eq_true, if_false]; omega
    | l q => simp only [nmatch, Col.exact, projR, Bool.false_eq_true, if_false]; omega

theorem nmatch_le_projQ (a : Aln) : nmatch a ≤ (projQ a).length := by
  induction a with
  | nil => simp [nmatch, projQ]
  | cons c a ih =>
    cases c with
    | m r q => simp only [nmatch, projQ, List.length_cons]; split <;> omega
    | u r => simp only [nmatch, Col.exact, projQ, Bool.false_eq_true, if_false]; omega
    | l q => simp only [nmatch, Col.exact, projQ, List.length_cons, Bool.false_eq_true, if_false]; omega

theorem colScore_pals (same diff : Int) (c : Col) :
    colScore (palsS same diff) c = if Col.exact c then same else -diff := by
  cases c with
  | m r q =>
    simp only [colScore, palsS, Col.exact, Bool.and_eq_true, beq_iff_eq, bne_iff_ne, ne_eq]
  | u r => simp [colScore, palsS, Col.exact]
  | l q =>
    simp only [colScore, palsS, Col.exact]
    split
    · rename_i h; exact absurd rfl h.2
    · simp

theorem colScore_edit (c : Col) : colScore editS c = if Col.exact c then 0 else -1 := by
  have e : editS = palsS 0 1 := by funext r q; simp [editS, palsS]
  rw [e, colScore_pals]

/-- PALS score of an alignment = `same`·(exact matches) − `diff`·(edit operations) -/
theorem scoreLin_pals (same diff : Int) (a : Aln) :
    scoreLin (palsS same diff) a = same * nmatch a - diff * cost a := by
  induction a with
  | nil => simp [scoreLin, nmatch, cost]
  | cons c a ih =>
    simp only [scoreLin, colScore_pals, ih, nmatch, cost]
    split
    · simp only [Nat.zero_add, Int.natCast_add, Int.natCast_one, Int.mul_add, Int.mul_one]; omega
    · simp only [Nat.zero_add, Int.natCast_add, Int.natCast_one, Int.mul_add, Int.mul_one]; omega

theorem scoreLin_edit (a : Aln) : scoreLin editS a = -(cost a : Int) := by
  induction a with
  | nil => simp [scoreLin, cost]
  | cons c a ih =>
    simp only [scoreLin, colScore_edit, ih, cost]
    split <;> omega

end Biogo.PalsOracle
