/-
Helper lemmas for C20 (third wave): assignments to a feature of a location chain between two queries
(`Feat.chainApply`: another orientation, another start) and what they do to the closed forms
`orientProduct`, `startSum`, `lastId`.  Core-only.
-/
import Biogo.Model.Feat
import Biogo.Model.Gene
import Biogo.Spec.Gene
import Biogo.Proofs.Feat

namespace Biogo.Proofs.FeatChain
open Biogo.Feat Biogo.Gene Biogo.Spec.Gene Biogo.Proofs.Feat

/-! ### `modifyAt` -/

theorem modifyAt_split (f : Node → Node) : ∀ (pre : List Node) (x : Node) (rest : Chain),
    modifyAt f pre.length (pre ++ x :: rest) = pre ++ f x :: rest
  | [], _, _ => rfl
  | a :: pre, x, rest => by
    simp only [List.length_cons, List.cons_append, modifyAt, modifyAt_split f pre x rest]

theorem modifyAt_length (f : Node → Node) : ∀ (k : Nat) (c : Chain), (modifyAt f k c).length = c.length
  | k, [] => by cases k <;> rfl
  | 0, _ :: _ => rfl
  | k + 1, _ :: rest => by simp only [modifyAt, List.length_cons, modifyAt_length f k rest]

/-- beyond the end of the chain nothing is assigned -/
theorem modifyAt_beyond (f : Node → Node) : ∀ (k : Nat) (c : Chain), c.length ≤ k → modifyAt f k c = c
  | k, [], _ => by cases k <;> rfl
  | 0, _ :: _, h => by simp at h
  | k + 1, x :: rest, h => by
    simp only [modifyAt, modifyAt_beyond f k rest (by simp at h; omega)]

theorem chainApply_cons (n : Node) (l : Chain) (op : ChainOp) :
    (chainApply (n :: l) op).headD n :: (chainApply (n :: l) op).tail = chainApply (n :: l) op := by
  cases op with
  | orient k o => cases k <;> simp [chainApply, modifyAt]
  | move k s => cases k <;> simp [chainApply, modifyAt]

/-- a change of the chain touches neither the heap nor the transcript's exon slice, is never rejected,
    and the chain afterwards is `chainApply` of the chain before -/
theorem tcApply_chain (st : TcState) (op : ChainOp) :
    (tcApply st (.chain op)).1.node :: (tcApply st (.chain op)).1.loc = chainApply (st.node :: st.loc) op ∧
    (tcApply st (.chain op)).1.h = st.h ∧ (tcApply st (.chain op)).1.t = st.t ∧
    (tcApply st (.chain op)).2 = none :=
  ⟨chainApply_cons st.node st.loc op, rfl, rfl, rfl⟩

/-! ### orientations -/

theorem setOrient_id (x : Node) (o : Int) : (x.setOrient o).id = x.id := by
  unfold Node.setOrient; cases x.orient <;> rfl

theorem setOrient_start (x : Node) (o : Int) : (x.setOrient o).start = x.start := by
  unfold Node.setOrient; cases x.orient <;> rfl

/-- flipping an oriented feature: it stays oriented and its orientation is negated -/
theorem setOrient_neg (x : Node) (hx : x.oriented = true) :
    (x.setOrient (-x.ori)).oriented = true ∧ (x.setOrient (-x.ori)).ori = -x.ori := by
  unfold Node.oriented Node.ori Node.setOrient at *
  cases ho : x.orient with
  | none => rw [ho] at hx; simp at hx
  | some o =>
    rw [ho] at hx
    simp only [Option.getD_some, bne_iff_ne, ne_eq] at hx ⊢
    exact ⟨by omega, trivial⟩

/-- orientations on the chain are `Forward`, `Reverse` or `NotOriented` (`feat.Orientation` is an
    `int8`; the three constants are the legal values) -/
def ValidOrients (c : Chain) : Prop := ∀ x ∈ c, x.oriented = true → x.ori = 1 ∨ x.ori = -1

theorem orientProduct_pm_one : ∀ (c : Chain), ValidOrients c → orientProduct c = 1 ∨ orientProduct c = -1
  | [], _ => Or.inl rfl
  | x :: rest, hv => by
    unfold orientProduct
    by_cases hx : x.oriented = true
    · simp only [hx, if_true]
      have ih := orientProduct_pm_one rest (fun y hy => hv y (List.mem_cons_of_mem _ hy))
      rcases hv x (List.mem_cons_self ..) hx with h1 | h1 <;> rcases ih with h2 | h2 <;> rw [h1, h2] <;> decide
    · simp only [hx, Bool.false_eq_true, if_false]; exact Or.inl trivial

/-- **flipping a feature of the orientable run, at any nesting level, negates the product** -/
theorem orientProduct_flip : ∀ (pre : List Node) (x : Node) (rest : Chain),
    (∀ y ∈ pre, y.oriented = true) → x.oriented = true →
    orientProduct (pre ++ x.setOrient (-x.ori) :: rest) = -orientProduct (pre ++ x :: rest)
  | [], x, rest, _, hx => by
    obtain ⟨h1, h2⟩ := setOrient_neg x hx
    simp only [List.nil_append, orientProduct, h1, hx, if_true, h2, Int.neg_mul]
  | a :: pre, x, rest, hpre, hx => by
    have ha : a.oriented = true := hpre a (List.mem_cons_self ..)
    have ih := orientProduct_flip pre x rest (fun y hy => hpre y (List.mem_cons_of_mem _ hy)) hx
    simp only [List.cons_append, orientProduct, ha, if_true, ih, Int.mul_neg]

/-- the reference `BaseOrientationOf` names does not depend on the sign of an orientation in the run -/
theorem runRef_flip : ∀ (pre : List Node) (x : Node) (rest : Chain) (f : Node) (tl : Chain) (f' : Node) (tl' : Chain),
    x.oriented = true → pre ++ x :: rest = f :: tl → pre ++ x.setOrient (-x.ori) :: rest = f' :: tl' →
    runRef f' tl' = runRef f tl
  | [], x, rest, f, tl, f', tl', hx, hc, hc' => by
    simp only [List.nil_append, List.cons.injEq] at hc hc'
    obtain ⟨rfl, rfl⟩ := hc
    obtain ⟨rfl, rfl⟩ := hc'
    cases rest <;> simp [runRef, setOrient_id]
  | a :: pre, x, rest, f, tl, f', tl', hx, hc, hc' => by
    simp only [List.cons_append, List.cons.injEq] at hc hc'
    obtain ⟨rfl, rfl⟩ := hc
    obtain ⟨rfl, rfl⟩ := hc'
    cases pre with
    | nil =>
      simp only [List.nil_append, runRef, hx, (setOrient_neg x hx).1, if_true]
      exact runRef_flip [] x rest x rest _ rest hx rfl rfl
    | cons b pre' =>
      simp only [List.cons_append, runRef]
      split
      · exact runRef_flip (b :: pre') x rest b (pre' ++ x :: rest) b _ hx rfl rfl
      · rfl

/-! ### starts -/

theorem startSum_setStart (pre : List Node) (x : Node) (rest : Chain) (s : Int) :
    startSum (pre ++ x.setStart s :: rest) = startSum (pre ++ x :: rest) + (s - x.start) := by
  rw [startSum_append, startSum_append]
  simp only [startSum, Node.setStart]
  omega

theorem lastId_append : ∀ (f : Node) (tl : Chain) (y : Node) (ys : Chain),
    lastId f (tl ++ y :: ys) = lastId y ys
  | _, [], _, _ => rfl
  | _, a :: tl, y, ys => by simp only [List.cons_append, lastId, lastId_append a tl y ys]

theorem lastId_head (x x' : Node) (rest : Chain) (h : x'.id = x.id) : lastId x' rest = lastId x rest := by
  cases rest <;> simp [lastId, h]

/-- the last feature of the chain (the reference `BasePositionOf` names) is the same after any
    assignment that keeps identities -/
theorem lastId_replace (pre : List Node) (x x' : Node) (rest : Chain) (f : Node) (tl : Chain) (f' : Node) (tl' : Chain)
    (hid : x'.id = x.id) (hc : pre ++ x :: rest = f :: tl) (hc' : pre ++ x' :: rest = f' :: tl') :
    lastId f' tl' = lastId f tl := by
  cases pre with
  | nil =>
    simp only [List.nil_append, List.cons.injEq] at hc hc'
    obtain ⟨rfl, rfl⟩ := hc
    obtain ⟨rfl, rfl⟩ := hc'
    exact lastId_head _ _ _ hid
  | cons a pre' =>
    simp only [List.cons_append, List.cons.injEq] at hc hc'
    obtain ⟨rfl, rfl⟩ := hc
    obtain ⟨rfl, rfl⟩ := hc'
    rw [lastId_append, lastId_append]
    exact lastId_head _ _ _ hid

end Biogo.Proofs.FeatChain
